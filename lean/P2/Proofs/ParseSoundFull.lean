import P2.Proofs.ParseSound
import P2.Proofs.ParseFuel
/-! # Soundness for keyword-free programs: every form except `let/func/if/try/switch`

If the token list contains no keyword token, whatever any level of the parser accepts is a rendering of
the returned tree (binary and prefix operators, call, index, member access, method call, argument lists
with trailing commas, list and map literals, both closure forms, any parentheses), the tree is
well-formed, and the parse stopped only where the level cannot continue. -/
namespace P2.Parse

def NoKw (ts : List Tok) : Prop := ∀ s, Tok.kw s ∉ ts

theorem NoKw.tail {x : Tok} {ts : List Tok} (h : NoKw (x :: ts)) : NoKw ts :=
  fun s hm => h s (List.mem_cons_of_mem _ hm)
theorem NoKw.suffix {a r : List Tok} (h : NoKw (a ++ r)) : NoKw r :=
  fun s hm => h s (List.mem_append_right _ hm)
theorem NoKw.head_ne {s : String} {ts : List Tok} (h : NoKw (.kw s :: ts)) : False := h s (by simp)

/-- the remaining input does not start with a postfix token -/
def NoPost (r : List Tok) : Prop := ∀ x tl, r = x :: tl → isPostfixTok x = false

/-! ### the decoration matters only through the children and the trailing-comma flag -/

def Deco.trailOf (ρ : Deco) : Bool := ρ.trail

/-- decoration with root `(par, tr)` and children `subs` -/
def Deco.mk' (par : Nat) (tr : Bool) (subs : Nat → Deco) : Deco := fun p =>
  match p with
  | [] => (par, tr)
  | i :: p' => subs i p'

@[simp] theorem Deco.mk'_par (par : Nat) (tr : Bool) (subs : Nat → Deco) : (Deco.mk' par tr subs).par = par := rfl
@[simp] theorem Deco.mk'_trail (par : Nat) (tr : Bool) (subs : Nat → Deco) : (Deco.mk' par tr subs).trail = tr := rfl
@[simp] theorem Deco.mk'_sub (par : Nat) (tr : Bool) (subs : Nat → Deco) (i : Nat) :
    (Deco.mk' par tr subs).sub i = subs i := rfl
@[simp] theorem Deco.addPar_trail (ρ : Deco) (m : Nat) : (ρ.addPar m).trail = ρ.trail := rfl

theorem trailTok_congr {ρ ρ' : Deco} (h : ρ.trail = ρ'.trail) {α : Type} (l : List α) :
    trailTok ρ l = trailTok ρ' l := by simp [trailTok, h]

theorem shapeArgs_congr (t : Table) {ρ ρ' : Deco} : ∀ (as : List E) (i : Nat),
    (∀ m, i ≤ m → ρ.sub m = ρ'.sub m) → shapeArgs t ρ i as = shapeArgs t ρ' i as
  | [], _, _ => by simp [shapeArgs]
  | [a], i, h => by rw [shapeArgs_one, shapeArgs_one, h i (Nat.le_refl _)]
  | a :: b :: as, i, h => by
    rw [shapeArgs_more, shapeArgs_more, h i (Nat.le_refl _),
      shapeArgs_congr t (b :: as) (i + 1) (fun m hm => h m (by omega))]

theorem shapeEntries_congr (t : Table) {ρ ρ' : Deco} : ∀ (es : List (String × E)) (i : Nat),
    (∀ m, i ≤ m → ρ.sub m = ρ'.sub m) → shapeEntries t ρ i es = shapeEntries t ρ' i es
  | [], _, _ => by simp [shapeEntries]
  | [(k, v)], i, h => by rw [shapeEntries_one, shapeEntries_one, h i (Nat.le_refl _)]
  | (k, v) :: e2 :: es, i, h => by
    rw [shapeEntries_more, shapeEntries_more, h i (Nat.le_refl _),
      shapeEntries_congr t (e2 :: es) (i + 1) (fun m hm => h m (by omega))]

theorem shapeCases_congr (t : Table) {ρ ρ' : Deco} : ∀ (cs : List (E × E)) (i : Nat),
    (∀ m, i ≤ m → ρ.sub m = ρ'.sub m) → shapeCases t ρ i cs = shapeCases t ρ' i cs
  | [], _, _ => by simp [shapeCases]
  | (c, v) :: cs, i, h => by
    rw [shapeCases_cons, shapeCases_cons, h i (Nat.le_refl _), h (i + 1) (by omega),
      shapeCases_congr t cs (i + 2) (fun m hm => h m (by omega))]

/-- the shape depends on the decoration only through the children and the trailing-comma flag -/
theorem shape_congr (t : Table) {ρ ρ' : Deco} (hs : ∀ m, ρ.sub m = ρ'.sub m) (ht : ρ.trail = ρ'.trail)
    (fol : Follow) (e : E) : shape t ρ fol e = shape t ρ' fol e := by
  cases e with
  | clos names body =>
    match names with
    | [] => simp [shape, hs]
    | [x] => simp [shape, hs]
    | x :: y :: more => simp [shape, hs]
  | un o a => cases hp : t.pos o <;> simp [shape, hs, hp]
  | _ =>
    simp only [shape, hs, trailTok_congr ht, shapeArgs_congr t _ _ (fun m _ => hs m),
      shapeEntries_congr t _ _ (fun m _ => hs m), shapeCases_congr t _ _ (fun m _ => hs m)]

/-- one more pair of parentheses around a printed expression (any form that is not `let`/`func`) -/
theorem Printed.paren' {t : Table} {e : E} {A : List Tok} (hl : e.isLet = false) (h : Printed t 0 .none e A) :
    PrintedAny t e (.lp :: (A ++ [.rp])) := by
  obtain ⟨ρ, hn, hA⟩ := h
  refine ⟨ρ.addPar 1, fun k fol => ⟨Or.inl (by simp), ?_⟩⟩
  rw [render_noauto hl (Or.inl (by simp)), hA, render_noauto hl hn]
  simp only [Deco.addPar_par, Nat.add_one_ne_zero, if_false,
    shape_congr t (ρ := ρ.addPar 1) (ρ' := ρ) (fun _ => rfl) rfl, parenN]
  by_cases hp : ρ.par = 0 <;> simp [hp]

/-! ### building `Printed` for the remaining forms -/

/-- `ρ` with child `i` replaced -/
def Deco.setSub (ρ : Deco) (i : Nat) (ρi : Deco) : Deco :=
  Deco.mk' ρ.par ρ.trail (fun m => if m = i then ρi else ρ.sub m)

theorem Printed.member {t : Table} {m : E} {key : String} {k : Nat} {fol : Follow} {Am : List Tok}
    (hf : fol ≠ .call) (hm : Printed t (t.n + 1) .post m Am) :
    Printed t k fol (.member m key) (Am ++ [.dot, .ident key]) := by
  obtain ⟨ρm, _, hA⟩ := hm
  have hn : needs t k fol (.member m key) = false := by cases fol <;> simp_all [needs]
  refine ⟨Deco.mk' 0 false (fun _ => ρm), Or.inr hn, ?_⟩
  rw [render_noauto rfl (Or.inr hn)]
  simp only [Deco.mk'_par, if_true, parenN, shape_member, Deco.mk'_sub, ← hA]

theorem Printed.index {t : Table} {l i : E} {k : Nat} {fol : Follow} {Al Ai : List Tok}
    (hl : Printed t (t.n + 1) .post l Al) (hi : Printed t 0 .none i Ai) :
    Printed t k fol (.index l i) (Al ++ .lb :: (Ai ++ [.rb])) := by
  obtain ⟨ρl, _, hA⟩ := hl
  obtain ⟨ρi, _, hB⟩ := hi
  have hn : needs t k fol (.index l i) = false := by simp [needs]
  refine ⟨Deco.mk' 0 false (fun j => if j = 0 then ρl else ρi), Or.inr hn, ?_⟩
  rw [render_noauto rfl (Or.inr hn)]
  simp only [Deco.mk'_par, if_true, parenN, shape_index, Deco.mk'_sub, Nat.one_ne_zero, if_false, ← hA, ← hB]

theorem Printed.call {t : Table} {fn : E} {args : List E} {k : Nat} {fol : Follow} {Af : List Tok}
    (hf : Printed t (t.n + 1) .call fn Af) (ρA : Deco) :
    Printed t k fol (.call fn args)
      (Af ++ .lp :: (shapeArgs t ρA 1 args ++ (trailTok ρA args ++ [.rp]))) := by
  obtain ⟨ρf, _, hA⟩ := hf
  have hn : needs t k fol (.call fn args) = false := by simp [needs]
  refine ⟨Deco.mk' 0 ρA.trail (fun j => if j = 0 then ρf else ρA.sub j), Or.inr hn, ?_⟩
  rw [render_noauto rfl (Or.inr hn)]
  simp only [Deco.mk'_par, if_true, parenN, shape_call, Deco.mk'_sub, ← hA]
  have h1 : shapeArgs t (Deco.mk' 0 ρA.trail (fun j => if j = 0 then ρf else ρA.sub j)) 1 args =
      shapeArgs t ρA 1 args := shapeArgs_congr t args 1 (fun m hm => by simp [show m ≠ 0 by omega])
  have h2 : trailTok (Deco.mk' 0 ρA.trail (fun j => if j = 0 then ρf else ρA.sub j)) args =
      trailTok ρA args := trailTok_congr rfl args
  rw [h1, h2]

theorem Printed.method {t : Table} {m : E} {name : String} {args : List E} {k : Nat} {fol : Follow}
    {Am : List Tok} (hm : Printed t (t.n + 1) .post m Am) (ρA : Deco) :
    Printed t k fol (.method m name args)
      (Am ++ .dot :: .ident name :: .lp :: (shapeArgs t ρA 1 args ++ (trailTok ρA args ++ [.rp]))) := by
  obtain ⟨ρm, _, hA⟩ := hm
  have hn : needs t k fol (.method m name args) = false := by simp [needs]
  refine ⟨Deco.mk' 0 ρA.trail (fun j => if j = 0 then ρm else ρA.sub j), Or.inr hn, ?_⟩
  rw [render_noauto rfl (Or.inr hn)]
  simp only [Deco.mk'_par, if_true, parenN, shape_method, Deco.mk'_sub, ← hA]
  have h1 : shapeArgs t (Deco.mk' 0 ρA.trail (fun j => if j = 0 then ρm else ρA.sub j)) 1 args =
      shapeArgs t ρA 1 args := shapeArgs_congr t args 1 (fun m hm => by simp [show m ≠ 0 by omega])
  have h2 : trailTok (Deco.mk' 0 ρA.trail (fun j => if j = 0 then ρm else ρA.sub j)) args =
      trailTok ρA args := trailTok_congr rfl args
  rw [h1, h2]

theorem printedAny_list {t : Table} (items : List E) (ρA : Deco) :
    PrintedAny t (.list items) (.lb :: (shapeArgs t ρA 0 items ++ (trailTok ρA items ++ [.rb]))) := by
  refine ⟨Deco.mk' 0 ρA.trail ρA.sub, fun k fol => ⟨Or.inr (by simp [needs]), ?_⟩⟩
  rw [render_noauto rfl (Or.inr (by simp [needs]))]
  simp only [Deco.mk'_par, if_true, parenN, shape_list]
  have h1 : shapeArgs t (Deco.mk' 0 ρA.trail ρA.sub) 0 items = shapeArgs t ρA 0 items :=
    shapeArgs_congr t items 0 (fun m _ => rfl)
  have h2 : trailTok (Deco.mk' 0 ρA.trail ρA.sub) items = trailTok ρA items := trailTok_congr rfl items
  rw [h1, h2]

theorem printedAny_map {t : Table} (es : List (String × E)) (ρA : Deco) :
    PrintedAny t (.map es) (.lc :: (shapeEntries t ρA 0 es ++ (trailTok ρA es ++ [.rc]))) := by
  refine ⟨Deco.mk' 0 ρA.trail ρA.sub, fun k fol => ⟨Or.inr (by simp [needs]), ?_⟩⟩
  rw [render_noauto rfl (Or.inr (by simp [needs]))]
  simp only [Deco.mk'_par, if_true, parenN, shape_map]
  have h1 : shapeEntries t (Deco.mk' 0 ρA.trail ρA.sub) 0 es = shapeEntries t ρA 0 es :=
    shapeEntries_congr t es 0 (fun m _ => rfl)
  have h2 : trailTok (Deco.mk' 0 ρA.trail ρA.sub) es = trailTok ρA es := trailTok_congr rfl es
  rw [h1, h2]

theorem Printed.clos1 {t : Table} {x : String} {body : E} {k : Nat} {Ab : List Tok}
    (hb : Printed t 0 .none body Ab) : Printed t k .none (.clos [x] body) (.ident x :: .op "->" :: Ab) := by
  obtain ⟨ρb, _, hA⟩ := hb
  have hn : needs t k .none (.clos [x] body) = false := by simp [needs]
  refine ⟨Deco.mk' 0 false (fun _ => ρb), Or.inr hn, ?_⟩
  rw [render_noauto rfl (Or.inr hn)]
  simp only [Deco.mk'_par, if_true, parenN, shape_clos1, Deco.mk'_sub, ← hA]

theorem Printed.closN {t : Table} {x y : String} {more : List String} {body : E} {k : Nat} {Ab : List Tok}
    (hb : Printed t 0 .none body Ab) :
    Printed t k .none (.clos (x :: y :: more) body)
      (.lp :: (identList (x :: y :: more) ++ .rp :: .op "->" :: Ab)) := by
  obtain ⟨ρb, _, hA⟩ := hb
  have hn : needs t k .none (.clos (x :: y :: more) body) = false := by simp [needs]
  refine ⟨Deco.mk' 0 false (fun _ => ρb), Or.inr hn, ?_⟩
  rw [render_noauto rfl (Or.inr hn)]
  simp only [Deco.mk'_par, if_true, parenN, shape_closN, Deco.mk'_sub, ← hA]

/-! ### what `parseIdentList` accepted -/

theorem identList_sound : ∀ (toks : List Tok) (acc names' : List String) (rest : List Tok),
    parseIdentList acc toks = some (names', rest) →
    ∃ names, names' = acc.reverse ++ names ∧ names ≠ [] ∧ toks = identList names ++ .rp :: rest ∧
      names.Nodup ∧ ∀ s, s ∈ names → s ∉ acc := by
  intro toks acc
  fun_induction parseIdentList acc toks with
  | case1 => intro _ _ h; cases h
  | case2 acc s rest hs =>
    intro names' rest' h; cases h
    exact ⟨[s], by simp, by simp, by simp [identList], by simp, by simpa using hs⟩
  | case3 => intro _ _ h; cases h
  | case4 acc s rest hs ih =>
    intro names' rest' h
    obtain ⟨names, h1, h2, h3, h4, h5⟩ := ih names' rest' h
    refine ⟨s :: names, by simp [h1], by simp, ?_, ?_, ?_⟩
    · cases names with
      | nil => exact absurd rfl h2
      | cons n ns => simp [identList, h3]
    · exact List.nodup_cons.mpr ⟨fun hm => h5 s hm (by simp), h4⟩
    · intro s' hs'
      rcases List.mem_cons.mp hs' with rfl | hm
      · exact hs
      · exact fun hc => h5 s' hm (List.mem_cons_of_mem _ hc)
  | case5 => intro _ _ h; cases h

theorem hostScope_vars {σ : Scope} (hσ : HostScope σ) (names : List String) : HostScope (varsOf names ++ σ) := by
  induction names with
  | nil => simpa [varsOf] using hσ
  | cons x xs ih =>
    intro s e h
    simp only [varsOf, List.map_cons, List.cons_append, lookup] at h
    split at h
    · cases h
    · exact ih s e h

theorem followOf_stopper {t : Table} {x : Tok} (tl : List Tok) (hx : isStopper x = true) :
    followOf t (x :: tl) = .none := by
  cases x <;> simp_all [isStopper, followOf]

/-- the follower of a remainder that no table operator and no postfix token starts -/
theorem followOf_none {t : Table} {r : List Tok} (h1 : StopLt t 0 r) (h2 : NoPost r) : followOf t r = .none := by
  unfold followOf
  split
  · rename_i o tl
    cases hp : t.pos o with
    | none => rfl
    | some j => exact absurd (h1 o tl j rfl hp) (by omega)
  · exact absurd (h2 _ _ rfl) (by simp [isPostfixTok])
  · exact absurd (h2 _ _ rfl) (by simp [isPostfixTok])
  · exact absurd (h2 _ _ rfl) (by simp [isPostfixTok])
  · rfl

/-! ### the induction on the fuel -/

structure SndF (t : Table) (f : Nat) : Prop where
  ent : ∀ σ k ts e r, HostScope σ → NoKw ts → k ≤ t.n + 1 → entry t f σ k ts = .ok e r →
    ∃ A, ts = A ++ r ∧ Printed t k (followOf t r) e A ∧ WF t σ false e ∧ StopLt t k r ∧ NoPost r
  lit : ∀ σ ts e r, HostScope σ → NoKw ts → parseLit t f σ ts = .ok e r →
    ∃ A, ts = A ++ r ∧ Printed t (t.n + 1) (followOf t r) e A ∧ WF t σ false e
  loop : ∀ σ k o a ts e r, HostScope σ → NoKw ts → t.pos o = some k → loopOp t f σ k o a ts = .ok e r →
    ∀ A0, Printed t (if sameOp o a then k else k + 1) (followOf t ts) a A0 → WF t σ false a →
      StopLt t (k + 1) ts → NoPost ts →
      ∃ A, A0 ++ ts = A ++ r ∧ Printed t k (followOf t r) e A ∧ WF t σ false e ∧ StopLt t k r ∧ NoPost r
  post : ∀ σ a ts e r, HostScope σ → NoKw ts → postfixLoop t f σ a ts = .ok e r →
    ∀ A0, Printed t (t.n + 1) (followOf t ts) a A0 → WF t σ false a →
      ∃ A, A0 ++ ts = A ++ r ∧ Printed t (t.n + 1) (followOf t r) e A ∧ WF t σ false e ∧ NoPost r
  lt : ∀ σ ts e r, HostScope σ → NoKw ts → parseLet t f σ ts = .ok e r →
    ∃ A, ts = A ++ r ∧ Printed t 0 (followOf t r) e A ∧ WF t σ true e ∧ StopLt t 0 r ∧ NoPost r
  args : ∀ σ br ts as r i, HostScope σ → NoKw ts → parseArgs t f σ br ts = .ok as r →
    ∃ ρ : Deco, ts = shapeArgs t ρ i as ++ (trailTok ρ as ++ closeTok br :: r) ∧ WFs t σ as
  argsL : ∀ σ br ts as r i, HostScope σ → NoKw ts → argsLoop t f σ br ts = .ok as r →
    ∃ ρ : Deco, as ≠ [] ∧ ts = shapeArgs t ρ i as ++ (trailTok ρ as ++ closeTok br :: r) ∧ WFs t σ as
  map : ∀ σ keys ts es r i, HostScope σ → NoKw ts → parseMap t f σ keys ts = .ok es r →
    ∃ ρ : Deco, ts = shapeEntries t ρ i es ++ (trailTok ρ es ++ .rc :: r) ∧ WFm t σ keys es

theorem sndF_zero (t : Table) : SndF t 0 := by
  refine ⟨?_, ?_, ?_, ?_, ?_, ?_, ?_, ?_⟩
  · intro σ k ts e r _ _ _ h; simp [entry, parseOp, parseUnary, parseNonOp, parseLit] at h
  · intro σ ts e r _ _ h; simp [parseLit] at h
  · intro σ k o a ts e r _ _ _ h; simp [loopOp] at h
  · intro σ a ts e r _ _ h; simp [postfixLoop] at h
  · intro σ ts e r _ _ h; simp [parseLet] at h
  · intro σ br ts as r i _ _ h; simp [parseArgs] at h
  · intro σ br ts as r i _ _ h; simp [argsLoop] at h
  · intro σ keys ts es r i _ _ h; simp [parseMap] at h

theorem isClose_eq_closeTok {br : Bool} {x : Tok} (h : isClose br x = true) : x = closeTok br := by
  cases br <;> cases x <;> simp_all [isClose, closeTok]

theorem sndF_lt {t : Table} (hwf : TableWF t) (f : Nat) (ih : SndF t f) :
    ∀ σ ts e r, HostScope σ → NoKw ts → parseLet t (f+1) σ ts = .ok e r →
    ∃ A, ts = A ++ r ∧ Printed t 0 (followOf t r) e A ∧ WF t σ true e ∧ StopLt t 0 r ∧ NoPost r := by
  intro σ ts e r hσ hk h
  rw [let_fall hwf.fixed f σ ts (fun tl => ⟨fun he => (he ▸ hk).head_ne, fun he => (he ▸ hk).head_ne⟩)] at h
  obtain ⟨A, hA, hp, hw, hs, hn⟩ := ih.ent σ 0 ts e r hσ hk (Nat.zero_le _) h
  exact ⟨A, hA, hp, WF_true_of_false hw, hs, hn⟩

theorem sndF_args (t : Table) (f : Nat) (ih : SndF t f) :
    ∀ σ br ts as r i, HostScope σ → NoKw ts → parseArgs t (f+1) σ br ts = .ok as r →
    ∃ ρ : Deco, ts = shapeArgs t ρ i as ++ (trailTok ρ as ++ closeTok br :: r) ∧ WFs t σ as := by
  intro σ br ts as r i hσ hk h
  simp only [parseArgs] at h
  split at h
  · rename_i x rest
    split at h
    · rename_i hc
      cases h
      exact ⟨Deco.min, by simp [shapeArgs, trailTok, isClose_eq_closeTok hc], by simp [WFs]⟩
    · obtain ⟨ρ, _, h1, h2⟩ := ih.argsL σ br _ as r i hσ hk h
      exact ⟨ρ, h1, h2⟩
  · obtain ⟨ρ, _, h1, h2⟩ := ih.argsL σ br _ as r i hσ hk h
    exact ⟨ρ, h1, h2⟩

theorem render_of_printed_none {t : Table} {e : E} {A : List Tok} (h : Printed t 0 .none e A) :
    ∃ ρ : Deco, A = render t ρ 0 .none e := by
  obtain ⟨ρ, _, hA⟩ := h
  exact ⟨ρ, hA⟩

theorem sndF_argsL (t : Table) (f : Nat) (ih : SndF t f) :
    ∀ σ br ts as r i, HostScope σ → NoKw ts → argsLoop t (f+1) σ br ts = .ok as r →
    ∃ ρ : Deco, as ≠ [] ∧ ts = shapeArgs t ρ i as ++ (trailTok ρ as ++ closeTok br :: r) ∧ WFs t σ as := by
  intro σ br ts as r i hσ hk h
  simp only [argsLoop] at h
  split at h
  · rename_i a x rest heq
    obtain ⟨A, hA, hp, hw, _, _⟩ := ih.lt σ ts a (x :: rest) hσ hk heq
    have hkr : NoKw (x :: rest) := by rw [hA] at hk; exact hk.suffix
    split at h
    · -- the closing bracket
      rename_i hc
      cases h
      have hx := isClose_eq_closeTok hc
      subst hx
      rw [followOf_stopper _ (stopper_close br)] at hp
      obtain ⟨ρa, hρ⟩ := render_of_printed_none hp
      refine ⟨Deco.mk' 0 false (fun _ => ρa), by simp, ?_, by simp [WFs, hw]⟩
      rw [shapeArgs_one]
      simp [trailTok, hA, hρ]
    · split at h
      · rename_i hcomma
        subst hcomma
        rw [followOf_stopper _ rfl] at hp
        obtain ⟨ρa, hρ⟩ := render_of_printed_none hp
        split at h
        · rename_i y rest'
          split at h
          · -- trailing comma
            rename_i hc
            cases h
            have hy := isClose_eq_closeTok hc
            subst hy
            refine ⟨Deco.mk' 0 true (fun _ => ρa), by simp, ?_, by simp [WFs, hw]⟩
            rw [shapeArgs_one]
            simp [trailTok, hA, hρ]
          · split at h
            · rename_i as' r' heq2
              cases h
              obtain ⟨ρ2, hne, h1, h2⟩ := ih.argsL σ br _ as' r (i + 1) hσ hkr.tail heq2
              obtain ⟨b, bs, rfl⟩ : ∃ b bs, as' = b :: bs := by
                cases as' with
                | nil => exact absurd rfl hne
                | cons b bs => exact ⟨b, bs, rfl⟩
              refine ⟨ρ2.setSub i ρa, by simp, ?_, by simp [WFs, hw] at h2 ⊢; exact h2⟩
              have e1 : shapeArgs t (ρ2.setSub i ρa) (i + 1) (b :: bs) = shapeArgs t ρ2 (i + 1) (b :: bs) :=
                shapeArgs_congr t _ _ (fun m hm => by simp [Deco.setSub, show m ≠ i by omega])
              have e2 : trailTok (ρ2.setSub i ρa) (a :: b :: bs) = trailTok ρ2 (b :: bs) := by
                simp [trailTok, Deco.setSub]
              rw [shapeArgs_more, e1, e2, hA, hρ, h1]
              simp [Deco.setSub]
            · rename_i hne; exact absurd h (hne _ _)
        · split at h
          · rename_i as' r' heq2
            -- the argument loop on the empty list fails
            obtain ⟨ρ2, _, h1, _⟩ := ih.argsL σ br [] as' r' (i + 1) hσ (fun _ hm => by cases hm) heq2
            have := congrArg List.length h1
            simp at this
          · rename_i hne; exact absurd h (hne _ _)
      · cases h
  · cases h
  · rename_i hne _; cases hr : parseLet t f σ ts <;> simp_all [PR.fail]

theorem map_rc (t : Table) (f : Nat) (σ : Scope) (keys : List String) (r' : List Tok) (m : List (String × E))
    (r : List Tok) (h : parseMap t f σ keys (.rc :: r') = .ok m r) : m = [] ∧ r = r' := by
  cases f with
  | zero => simp [parseMap] at h
  | succ f => simp only [parseMap] at h; cases h; exact ⟨rfl, rfl⟩

theorem sndF_map (t : Table) (f : Nat) (ih : SndF t f) :
    ∀ σ keys ts es r i, HostScope σ → NoKw ts → parseMap t (f+1) σ keys ts = .ok es r →
    ∃ ρ : Deco, ts = shapeEntries t ρ i es ++ (trailTok ρ es ++ .rc :: r) ∧ WFm t σ keys es := by
  intro σ keys ts es r i hσ hk h
  simp only [parseMap] at h
  split at h
  · cases h
    exact ⟨Deco.min, by simp [shapeEntries, trailTok], by simp [WFm]⟩
  · rename_i key rest
    split at h
    · cases h
    · rename_i hkey
      split at h
      · rename_i rest1
        split at h
        · rename_i v rest2 heq
          split at h
          · rename_i rest3
            split at h
            · rename_i m r' heq2
              cases h
              obtain ⟨A, hA, hp, hw, _, _⟩ := ih.lt σ rest1 v (.comma :: rest3) hσ hk.tail.tail heq
              have hk2 : NoKw (.comma :: rest3) := by have := hk.tail.tail; rw [hA] at this; exact this.suffix
              rw [followOf_stopper _ rfl] at hp
              obtain ⟨ρv, hρ⟩ := render_of_printed_none hp
              obtain ⟨ρ2, h1, h2⟩ := ih.map σ (key :: keys) rest3 m r (i + 1) hσ hk2.tail heq2
              cases m with
              | nil =>
                refine ⟨Deco.mk' 0 true (fun _ => ρv), ?_, by simp [WFm, hkey, hw]⟩
                simp only [shapeEntries, trailTok, List.isEmpty_nil, Bool.not_true, Bool.and_false,
                  Bool.false_eq_true, if_false, List.nil_append] at h1
                rw [shapeEntries_one]
                simp [trailTok, hA, hρ, h1]
              | cons e2 m' =>
                refine ⟨ρ2.setSub i ρv, ?_, by simp only [WFm]; exact ⟨hkey, hw, h2⟩⟩
                have e1 : shapeEntries t (ρ2.setSub i ρv) (i + 1) (e2 :: m') = shapeEntries t ρ2 (i + 1) (e2 :: m') :=
                  shapeEntries_congr t _ _ (fun m hm => by simp [Deco.setSub, show m ≠ i by omega])
                have e3 : trailTok (ρ2.setSub i ρv) ((key, v) :: e2 :: m') = trailTok ρ2 (e2 :: m') := by
                  simp [trailTok, Deco.setSub]
                rw [shapeEntries_more, e1, e3, hA, hρ, h1]
                simp [Deco.setSub]
            · rename_i hne; exact absurd h (hne _ _)
          · rename_i rest3
            split at h
            · rename_i m r' heq2
              cases h
              obtain ⟨rfl, rfl⟩ := map_rc t f σ _ _ _ _ heq2
              obtain ⟨A, hA, hp, hw, _, _⟩ := ih.lt σ rest1 v (.rc :: r) hσ hk.tail.tail heq
              rw [followOf_stopper _ rfl] at hp
              obtain ⟨ρv, hρ⟩ := render_of_printed_none hp
              refine ⟨Deco.mk' 0 false (fun _ => ρv), ?_, by simp [WFm, hkey, hw]⟩
              rw [shapeEntries_one]
              simp [trailTok, hA, hρ]
            · rename_i hne; exact absurd h (hne _ _)
          · cases h
        · rename_i hne; cases hr : parseLet t f σ rest1 <;> simp_all [PR.fail]
      · cases h
  · cases h

theorem followOf_ne_call {t : Table} {r : List Tok} (h : ∀ tl, r ≠ .lp :: tl) : followOf t r ≠ .call := by
  unfold followOf
  split <;> try simp
  · split <;> simp
  · exact absurd rfl (h _)

theorem sndF_post {t : Table} (hwf : TableWF t) (f : Nat) (ih : SndF t f) :
    ∀ σ a ts e r, HostScope σ → NoKw ts → postfixLoop t (f+1) σ a ts = .ok e r →
    ∀ A0, Printed t (t.n + 1) (followOf t ts) a A0 → WF t σ false a →
      ∃ A, A0 ++ ts = A ++ r ∧ Printed t (t.n + 1) (followOf t r) e A ∧ WF t σ false e ∧ NoPost r := by
  intro σ a ts e r hσ hk h A0 hA0 hwa
  simp only [postfixLoop, plevel_eq hwf.fixed (Nat.zero_le _)] at h
  split at h
  · rename_i rest
    have hA0' : Printed t (t.n + 1) .post a A0 := by simpa [followOf] using hA0
    split at h
    · rename_i name rest1
      split at h
      · rename_i rest2
        split at h
        · rename_i args r2 heq
          obtain ⟨ρA, h1, h2⟩ := ih.args σ false rest2 args r2 1 hσ hk.tail.tail.tail heq
          have hk2 : NoKw r2 := by
            have := hk.tail.tail.tail; rw [h1] at this; exact this.suffix.suffix.tail
          have hp' : Printed t (t.n + 1) (followOf t r2) (.method a name args)
              (A0 ++ .dot :: .ident name :: .lp :: (shapeArgs t ρA 1 args ++ (trailTok ρA args ++ [.rp]))) :=
            Printed.method hA0' ρA
          obtain ⟨A, hA, hp, hw, hn⟩ := ih.post σ _ r2 e r hσ hk2 h _ hp' (by simp [WF, hwa, h2])
          exact ⟨A, by rw [← hA, h1]; simp [closeTok], hp, hw, hn⟩
        · rename_i hne; cases hr : parseArgs t f σ false rest2 <;> simp_all [PR.fail]
      · rename_i hnlp
        have hp' : Printed t (t.n + 1) (followOf t rest1) (.member a name) (A0 ++ [.dot, .ident name]) :=
          Printed.member (followOf_ne_call (fun tl he => hnlp tl he)) hA0'
        obtain ⟨A, hA, hp, hw, hn⟩ := ih.post σ _ rest1 e r hσ hk.tail.tail h _ hp' (by simp [WF, hwa])
        exact ⟨A, by rw [← hA]; simp, hp, hw, hn⟩
    · cases h
  · rename_i rest
    have hA0' : Printed t (t.n + 1) .call a A0 := by simpa [followOf] using hA0
    split at h
    · rename_i args r2 heq
      obtain ⟨ρA, h1, h2⟩ := ih.args σ false rest args r2 1 hσ hk.tail heq
      have hk2 : NoKw r2 := by
        have := hk.tail; rw [h1] at this; exact this.suffix.suffix.tail
      have hp' : Printed t (t.n + 1) (followOf t r2) (.call a args)
          (A0 ++ .lp :: (shapeArgs t ρA 1 args ++ (trailTok ρA args ++ [.rp]))) :=
        Printed.call hA0' ρA
      obtain ⟨A, hA, hp, hw, hn⟩ := ih.post σ _ r2 e r hσ hk2 h _ hp' (by simp [WF, hwa, h2])
      exact ⟨A, by rw [← hA, h1]; simp [closeTok], hp, hw, hn⟩
    · rename_i hne; cases hr : parseArgs t f σ false rest <;> simp_all [PR.fail]
  · rename_i rest
    have hA0' : Printed t (t.n + 1) .post a A0 := by simpa [followOf] using hA0
    split at h
    · rename_i i r2 heq
      obtain ⟨Ai, hAi, hpi, hwi, _, _⟩ := ih.ent σ 0 rest i (.rb :: r2) hσ hk.tail (Nat.zero_le _) heq
      have hk2 : NoKw r2 := by
        have := hk.tail; rw [hAi] at this; exact this.suffix.tail
      rw [followOf_stopper _ rfl] at hpi
      have hp' : Printed t (t.n + 1) (followOf t r2) (.index a i) (A0 ++ .lb :: (Ai ++ [.rb])) :=
        Printed.index hA0' hpi
      obtain ⟨A, hA, hp, hw, hn⟩ := ih.post σ _ r2 e r hσ hk2 h _ hp' (by simp [WF, hwa, hwi])
      exact ⟨A, by rw [← hA, hAi]; simp, hp, hw, hn⟩
    · cases h
    · rename_i _ hne; exact absurd h (hne _ _)
  · rename_i h1 h2 h3
    cases h
    refine ⟨A0, rfl, hA0, hwa, ?_⟩
    intro x tl he
    subst he
    cases x <;> first | rfl | exact absurd rfl (h1 _) | exact absurd rfl (h2 _) | exact absurd rfl (h3 _)

theorem sndF_lit {t : Table} (hwf : TableWF t) (f : Nat) (ih : SndF t f) :
    ∀ σ ts e r, HostScope σ → NoKw ts → parseLit t (f+1) σ ts = .ok e r →
    ∃ A, ts = A ++ r ∧ Printed t (t.n + 1) (followOf t r) e A ∧ WF t σ false e := by
  intro σ ts e r hσ hk h
  match ts, hk, h with
  | [], _, h => simp [parseLit] at h
  | x :: rest, hk, h =>
    cases x <;> simp only [parseLit, plevel_eq hwf.fixed (Nat.zero_le _)] at h
    case kw s => exact absurd hk.head_ne id
    case num s =>
      cases h
      exact ⟨[.num s], rfl,
        (printedAny_atom (fun _ _ => by simp [shape]) (fun _ _ => by simp [needs]) rfl).printed _ _, by simp [WF]⟩
    case str s =>
      cases h
      exact ⟨[.str s], rfl,
        (printedAny_atom (fun _ _ => by simp [shape]) (fun _ _ => by simp [needs]) rfl).printed _ _, by simp [WF]⟩
    case ident name =>
      split at h
      · rename_i s rest1
        split at h
        · rename_i hs
          subst hs
          split at h
          · rename_i body r' heq
            cases h
            have hσ' : HostScope ((name, .var) :: σ) := by simpa [varsOf] using hostScope_vars hσ [name]
            obtain ⟨Ab, hAb, hpb, hwb, hsb, hnb⟩ := ih.lt _ rest1 body r hσ' hk.tail.tail heq
            rw [followOf_none hsb hnb] at hpb ⊢
            exact ⟨.ident name :: .op "->" :: Ab, by simp [hAb], Printed.clos1 hpb,
              by simp only [WF, varsOf]; exact ⟨by simp, by simp, hwb⟩⟩
          · rename_i hne; exact absurd h (hne _ _)
        · obtain ⟨rfl, hp, hw⟩ := identLit_sound (t := t) hσ h
          exact ⟨[.ident name], rfl, hp.printed _ _, hw⟩
      · obtain ⟨rfl, hp, hw⟩ := identLit_sound (t := t) hσ h
        exact ⟨[.ident name], rfl, hp.printed _ _, hw⟩
    case lc =>
      split at h
      · rename_i m r' heq
        cases h
        obtain ⟨ρ, h1, h2⟩ := ih.map σ [] rest m r 0 hσ hk.tail heq
        exact ⟨.lc :: (shapeEntries t ρ 0 m ++ (trailTok ρ m ++ [.rc])), by rw [h1]; simp,
          (printedAny_map m ρ).printed _ _, by simp [WF, h2]⟩
      · rename_i hne; cases hr : parseMap t f σ [] rest <;> simp_all [PR.fail]
    case lb =>
      split at h
      · rename_i items r' heq
        cases h
        obtain ⟨ρ, h1, h2⟩ := ih.args σ true rest items r 0 hσ hk.tail heq
        exact ⟨.lb :: (shapeArgs t ρ 0 items ++ (trailTok ρ items ++ [.rb])), by rw [h1]; simp [closeTok],
          (printedAny_list items ρ).printed _ _, by simp [WF, h2]⟩
      · rename_i hne; cases hr : parseArgs t f σ true rest <;> simp_all [PR.fail]
    case lp =>
      split at h
      · rename_i hsc
        split at h
        · rename_i names rest1 hil
          split at h
          · rename_i s rest2
            split at h
            · rename_i hs
              subst hs
              split at h
              · rename_i body r' heq
                cases h
                obtain ⟨names0, hn0, hne0, hrest, hnd, _⟩ := identList_sound rest [] names _ hil
                simp only [List.reverse_nil, List.nil_append] at hn0
                subst hn0
                have hk2 : NoKw rest2 := by
                  have := hk.tail; rw [hrest] at this; exact this.suffix.tail.tail
                obtain ⟨Ab, hAb, hpb, hwb, hsb, hnb⟩ :=
                  ih.lt _ rest2 body r (hostScope_vars hσ names) hk2 heq
                rw [followOf_none hsb hnb] at hpb ⊢
                match names, hne0, hrest, hnd, hwb with
                | [], hne0, _, _, _ => exact absurd rfl hne0
                | [x], _, hrest, _, _ =>
                  rw [hrest] at hsc; simp [identList, startsIdentComma] at hsc
                | x :: y :: more, _, hrest, hnd, hwb =>
                  exact ⟨.lp :: (identList (x :: y :: more) ++ .rp :: .op "->" :: Ab), by rw [hrest, hAb]; simp,
                    Printed.closN hpb, by simp only [WF]; exact ⟨by simp, hnd, hwb⟩⟩
              · rename_i hne; exact absurd h (hne _ _)
            · cases h
          · cases h
        · cases h
      · split at h
        · rename_i e' r' heq
          cases h
          obtain ⟨A, hA, hp, hw, _, _⟩ := ih.ent σ 0 rest e (.rp :: r) hσ hk.tail (Nat.zero_le _) heq
          rw [followOf_stopper _ rfl] at hp
          exact ⟨.lp :: (A ++ [.rp]), by simp [hA], (hp.paren' (WF_not_let hw)).printed _ _, hw⟩
        · cases h
        · rename_i _ hne; exact absurd h (hne _ _)
    all_goals cases h

theorem sndF_loop {t : Table} (f : Nat) (ih : SndF t f) :
    ∀ σ k o a ts e r, HostScope σ → NoKw ts → t.pos o = some k → loopOp t (f+1) σ k o a ts = .ok e r →
    ∀ A0, Printed t (if sameOp o a then k else k + 1) (followOf t ts) a A0 → WF t σ false a →
      StopLt t (k + 1) ts → NoPost ts →
      ∃ A, A0 ++ ts = A ++ r ∧ Printed t k (followOf t r) e A ∧ WF t σ false e ∧ StopLt t k r ∧ NoPost r := by
  intro σ k o a ts e r hσ hk hp h A0 hA0 hwa hstop hnp
  have hkn := pos_lt_n hp
  have stop : ∀ (hne : ∀ tl, ts ≠ .op o :: tl), e = a → r = ts →
      ∃ A, A0 ++ ts = A ++ r ∧ Printed t k (followOf t r) e A ∧ WF t σ false e ∧ StopLt t k r ∧ NoPost r := by
    intro hne he hr
    subst he; subst hr
    refine ⟨A0, rfl, hA0.mono (WF_not_let hwa) (by split <;> omega), hwa, ?_, hnp⟩
    intro o' tl j h1 h2
    have hj := hstop o' tl j h1 h2
    by_cases hjk : j = k
    · subst hjk
      have h3 := pos_get h2
      rw [pos_get hp] at h3
      cases h3
      exact absurd h1 (hne tl)
    · omega
  simp only [loopOp, level_eq (show k + 1 ≤ t.n by omega)] at h
  split at h
  · rename_i s rest1
    split at h
    · rename_i hs; subst hs
      split at h
      · rename_i b rest2 heq
        obtain ⟨B, hB, hpb, hwb, hsb, hnb⟩ := ih.ent σ (k+1) rest1 b rest2 hσ hk.tail (by omega) heq
        have hk2 : NoKw rest2 := by have := hk.tail; rw [hB] at this; exact this.suffix
        rw [followOf_op hp] at hA0
        have hpa' : Printed t k (followOf t rest2) (.bin s a b) (A0 ++ .op s :: B) := Printed.bin hp hA0 hpb
        have hwab : WF t σ false (.bin s a b) := by simp [WF, hp, hwa, hwb]
        obtain ⟨A, hA, hpe, hwe, hse, hne⟩ := ih.loop σ k s (.bin s a b) rest2 e r hσ hk2 hp h (A0 ++ .op s :: B)
          (by simpa [sameOp] using hpa') hwab hsb hnb
        exact ⟨A, by rw [← hA, hB]; simp, hpe, hwe, hse, hne⟩
      · rename_i hne; exact absurd h (hne _ _)
    · rename_i hs
      cases h
      exact stop (fun tl he => by cases he; exact hs rfl) rfl rfl
  · rename_i hne
    cases h
    exact stop (fun tl he => hne _ _ he) rfl rfl

theorem sndF_ent {t : Table} (hwf : TableWF t) (f : Nat) (ih : SndF t f) :
    ∀ σ k ts e r, HostScope σ → NoKw ts → k ≤ t.n + 1 → entry t (f+1) σ k ts = .ok e r →
    ∃ A, ts = A ++ r ∧ Printed t k (followOf t r) e A ∧ WF t σ false e ∧ StopLt t k r ∧ NoPost r := by
  intro σ k ts e r hσ hk hkn1 h
  by_cases hkn : k < t.n
  · obtain ⟨o, ho⟩ : ∃ o, t.ops[k]? = some o := ⟨t.ops[k]'hkn, by simp [Table.n] at hkn; simp [hkn]⟩
    have hp := pos_of_get hwf ho
    rw [entry_lt hkn] at h
    simp only [parseOp, ho, level_eq (show k + 1 ≤ t.n by omega)] at h
    split at h
    · rename_i a rest1 heq
      obtain ⟨A1, hA1, hpa, hwa, hsa, hna⟩ := ih.ent σ (k+1) ts a rest1 hσ hk (by omega) heq
      have hk2 : NoKw rest1 := by rw [hA1] at hk; exact hk.suffix
      have hpa' : Printed t (if sameOp o a then k else k + 1) (followOf t rest1) a A1 := by
        split
        · exact hpa.mono (WF_not_let hwa) (by omega)
        · exact hpa
      obtain ⟨A, hA, hpe, hwe, hse, hne⟩ := ih.loop σ k o a rest1 e r hσ hk2 hp h A1 hpa' hwa hsa hna
      exact ⟨A, by rw [hA1, hA], hpe, hwe, hse, hne⟩
    · rename_i hne; exact absurd h (hne _ _)
  · by_cases hke : k = t.n
    · subst hke
      rw [entry_n] at h
      have skip : parseNonOp t f σ ts = .ok e r →
          ∃ A, ts = A ++ r ∧ Printed t t.n (followOf t r) e A ∧ WF t σ false e ∧ StopLt t t.n r ∧ NoPost r := by
        intro h'
        rw [← entry_n1] at h'
        obtain ⟨A, hA, hp, hw, _, hn⟩ := ih.ent σ (t.n+1) ts e r hσ hk (Nat.le_refl _) h'
        exact ⟨A, hA, hp.mono (WF_not_let hw) (by omega), hw, stopLt_n t _ (Nat.le_refl _) r, hn⟩
      simp only [parseUnary, hwf.fixed, Bool.false_eq_true, if_false] at h
      split at h
      · rename_i s rest
        split at h
        · rename_i hs
          split at h
          · rename_i i hpos
            have hi := pos_lt_n hpos
            rw [level_eq (show i + 1 ≤ t.n by omega)] at h
            split at h
            · rename_i a r' heq
              cases h
              obtain ⟨A, hA, hpa, hwa, hsa, hna⟩ := ih.ent σ (i+1) rest a r hσ hk.tail (by omega) heq
              exact ⟨.op s :: A, by simp [hA], Printed.un_some hpos (Nat.le_refl _) (not_swallows hsa) hpa,
                by simp [WF, hs, hwa], stopLt_n t _ (Nat.le_refl _) r, hna⟩
            · rename_i hne; exact absurd h (hne _ _)
          · rename_i hpos
            split at h
            · rename_i a r' heq
              cases h
              rw [← entry_n1] at heq
              obtain ⟨A, hA, hpa, hwa, _, hna⟩ := ih.ent σ (t.n+1) rest a r hσ hk.tail (Nat.le_refl _) heq
              exact ⟨.op s :: A, by simp [hA], Printed.un_none hpos (Nat.le_refl _) hpa,
                by simp [WF, hs, hwa], stopLt_n t _ (Nat.le_refl _) r, hna⟩
            · rename_i hne; exact absurd h (hne _ _)
        · exact skip h
      · exact skip h
    · have hk1 : k = t.n + 1 := by omega
      subst hk1
      rw [entry_n1] at h
      simp only [parseNonOp] at h
      split at h
      · rename_i e0 rest0 heq
        obtain ⟨A0, hA0, hp0, hw0⟩ := ih.lit σ ts e0 rest0 hσ hk heq
        have hk2 : NoKw rest0 := by rw [hA0] at hk; exact hk.suffix
        obtain ⟨A, hA, hp, hw, hn⟩ := ih.post σ e0 rest0 e r hσ hk2 h A0 hp0 hw0
        exact ⟨A, by rw [hA0, hA], hp, hw, stopLt_n t _ (by omega) r, hn⟩
      · rename_i hne; exact absurd h (hne _ _)

theorem sndF_all {t : Table} (hwf : TableWF t) : ∀ f, SndF t f
  | 0 => sndF_zero t
  | f+1 =>
    have ih := sndF_all hwf f
    ⟨sndF_ent hwf f ih, sndF_lit hwf f ih, sndF_loop f ih, sndF_post hwf f ih, sndF_lt hwf f ih,
      sndF_args t f ih, sndF_argsL t f ih, sndF_map t f ih⟩

/-- **soundness for keyword-free programs, every form they can contain**: whatever is accepted is a
rendering of the returned tree (with the redundant parentheses and trailing commas of the input as
decoration), and the tree is well-formed over the table and the scope -/
theorem parseTop_sound_nokw {t : Table} (hwf : TableWF t) {σ : Scope} (hσ : HostScope σ) (f : Nat)
    (ts : List Tok) (e : E) (hk : NoKw ts) (h : parseTop t f σ ts = .ok e []) :
    ∃ ρ : Deco, ts = render t ρ 0 .none e ∧ WF t σ true e := by
  have hl : parseLet t f σ ts = .ok e [] := by
    unfold parseTop at h
    split at h
    · rename_i heq; cases h; exact heq
    · cases h
    · rename_i hne _; exact absurd h (hne _)
  obtain ⟨A, hA, ⟨ρ, _, hρ⟩, hw, _, _⟩ := (sndF_all hwf f).lt σ ts e [] hσ hk hl
  exact ⟨ρ, by simpa [followOf, hρ] using hA, hw⟩

end P2.Parse
