import P2.Proofs.IterBasic
/-! A frame is a list transducer: what the chain below a frame sees, and how much the frame pulls. -/
namespace P2.Iter
variable {α τ : Type}

/-! unfolding lemmas keyed by what the first frame emits -/
section unfold
variable (ft : FeedT α τ) (fr : Frame α) (fs : List (Frame α)) (t : τ) (x : Item α) (xs : List (Item α))

theorem feed_pass {y} (h : (fr.step x).emit = .pass y) :
    feed ft (fr :: fs) t x = ⟨(fr.step x).frame.after (feed ft fs t y).ctl :: (feed ft fs t y).frames,
      (feed ft fs t y).sink, (feed ft fs t y).out ++ (fr.step x).out, (feed ft fs t y).ctl⟩ := by
  simp only [feed, h]
theorem feed_skip (h : (fr.step x).emit = .skip) :
    feed ft (fr :: fs) t x = ⟨(fr.step x).frame :: fs, t, (fr.step x).out, .more⟩ := by
  simp only [feed, h]
theorem feed_halt {c} (h : (fr.step x).emit = .halt c) :
    feed ft (fr :: fs) t x = ⟨(fr.step x).frame :: fs, t, (fr.step x).out, c⟩ := by
  simp only [feed, h]

theorem next_pass {y} (h : (fr.step x).emit = .pass y) : fr.next x = (fr.step x).frame.after .more := by
  simp only [Frame.next, h]
theorem next_skip (h : (fr.step x).emit = .skip) : fr.next x = (fr.step x).frame := by
  simp only [Frame.next, h]
theorem next_halt {c} (h : (fr.step x).emit = .halt c) : fr.next x = (fr.step x).frame := by
  simp only [Frame.next, h]

theorem trans_pass {y} (h : (fr.step x).emit = .pass y) : fr.trans (x :: xs) = y :: (fr.next x).trans xs := by
  simp only [Frame.trans, h]
theorem trans_skip (h : (fr.step x).emit = .skip) : fr.trans (x :: xs) = (fr.next x).trans xs := by
  simp only [Frame.trans, h]
theorem trans_halt_more (h : (fr.step x).emit = .halt .more) : fr.trans (x :: xs) = (fr.next x).trans xs := by
  simp only [Frame.trans, h, if_true]
theorem trans_halt {c} (h : (fr.step x).emit = .halt c) (hc : c ≠ .more) : fr.trans (x :: xs) = [] := by
  simp only [Frame.trans, h, hc, if_false]

theorem need_pass {y} (k : Nat) (h : (fr.step x).emit = .pass y) :
    fr.need (x :: xs) (k + 1) = 1 + (fr.next x).need xs k := by
  simp only [Frame.need, h]
theorem need_skip (k : Nat) (h : (fr.step x).emit = .skip) :
    fr.need (x :: xs) (k + 1) = 1 + (fr.next x).need xs (k + 1) := by
  simp only [Frame.need, h]
theorem need_halt_more (k : Nat) (h : (fr.step x).emit = .halt .more) :
    fr.need (x :: xs) (k + 1) = 1 + (fr.next x).need xs (k + 1) := by
  simp only [Frame.need, h, if_true]
theorem need_halt {c} (k : Nat) (h : (fr.step x).emit = .halt c) (hc : c ≠ .more) :
    fr.need (x :: xs) (k + 1) = 1 := by
  simp only [Frame.need, h, hc, if_false]
@[simp] theorem need_zero : fr.need xs 0 = 0 := by cases xs <;> rfl

theorem span_pass {y} (h : (fr.step x).emit = .pass y) : fr.span (x :: xs) = 1 + (fr.next x).span xs := by
  simp only [Frame.span, h]
theorem span_skip (h : (fr.step x).emit = .skip) : fr.span (x :: xs) = 1 + (fr.next x).span xs := by
  simp only [Frame.span, h]
theorem span_halt_more (h : (fr.step x).emit = .halt .more) : fr.span (x :: xs) = 1 + (fr.next x).span xs := by
  simp only [Frame.span, h, if_true]
theorem span_halt {c} (h : (fr.step x).emit = .halt c) (hc : c ≠ .more) : fr.span (x :: xs) = 1 := by
  simp only [Frame.span, h, hc, if_false]
end unfold

theorem drive_stop_pulled_pos (ft : FeedT α τ) (xs : List (Item α)) (s : St α τ)
    (h : (drive ft xs s).2 ≠ .more) : s.pulled + 1 ≤ (drive ft xs s).1.pulled := by
  cases xs with
  | nil => simp at h
  | cons x xs =>
    simp only [drive_cons]
    split
    · have := drive_pulled_ge ft xs (s.apply (feed ft s.frames s.sink x)); simp only [St.apply] at this ⊢; omega
    · simp [St.apply]

/-- **Simulation.** The consumer below a frame ends in the state it would reach if it were driven
directly by the list the frame denotes; so do the frames below. (The log is write-only, the pull
counter counts another source: both are arbitrary.) -/
theorem drive_frame_sink (ft : FeedT α τ) (xs : List (Item α)) (fr : Frame α) (fs : List (Frame α)) (t : τ)
    (l l₂ : Log α) (p p₂ : Nat) :
    (drive ft xs ⟨fr :: fs, t, l, p⟩).1.sink = (drive ft (fr.trans xs) ⟨fs, t, l₂, p₂⟩).1.sink ∧
    (drive ft xs ⟨fr :: fs, t, l, p⟩).1.frames.tail = (drive ft (fr.trans xs) ⟨fs, t, l₂, p₂⟩).1.frames := by
  induction xs generalizing fr fs t l l₂ p p₂ with
  | nil => simp [Frame.trans]
  | cons x xs ih =>
    obtain ⟨e, hE⟩ : ∃ e, (fr.step x).emit = e := ⟨_, rfl⟩
    cases e with
    | pass y =>
      rw [trans_pass _ _ _ hE, drive_cons, drive_cons]
      simp only [feed_pass ft fr fs t x hE, next_pass _ _ hE]
      by_cases hk : (feed ft fs t y).ctl = .more
      · simp only [hk, if_true, St.apply]; exact ih _ _ _ _ _ _ _
      · simp [hk, St.apply]
    | skip =>
      rw [trans_skip _ _ _ hE, drive_cons]
      simp only [feed_skip ft fr fs t x hE, next_skip _ _ hE, if_true, St.apply]; exact ih _ _ _ _ _ _ _
    | halt c =>
      by_cases hc : c = .more
      · subst hc
        rw [trans_halt_more _ _ _ hE, drive_cons]
        simp only [feed_halt ft fr fs t x hE, next_halt _ _ hE, if_true, St.apply]; exact ih _ _ _ _ _ _ _
      · rw [trans_halt _ _ _ hE hc, drive_cons]
        simp [feed_halt ft fr fs t x hE, hc, St.apply]

/-- **Demand composition.** If the chain below stops after having received `m` items of the frame's
output, the chain with the frame stops with the same answer after pulling `need xs m` inputs. -/
theorem drive_frame_stop (ft : FeedT α τ) (xs : List (Item α)) (fr : Frame α) (fs : List (Frame α)) (t : τ)
    (l l₂ : Log α) (p p₂ : Nat)
    (h : (drive ft (fr.trans xs) ⟨fs, t, l₂, p₂⟩).2 ≠ .more) :
    (drive ft xs ⟨fr :: fs, t, l, p⟩).2 = (drive ft (fr.trans xs) ⟨fs, t, l₂, p₂⟩).2 ∧
    (drive ft xs ⟨fr :: fs, t, l, p⟩).1.pulled =
      p + fr.need xs ((drive ft (fr.trans xs) ⟨fs, t, l₂, p₂⟩).1.pulled - p₂) := by
  induction xs generalizing fr fs t l l₂ p p₂ with
  | nil => simp [Frame.trans] at h
  | cons x xs ih =>
    have hpos := drive_stop_pulled_pos ft _ _ h
    obtain ⟨e, hE⟩ : ∃ e, (fr.step x).emit = e := ⟨_, rfl⟩
    cases e with
    | pass y =>
      rw [trans_pass _ _ _ hE] at h hpos ⊢
      rw [drive_cons] at h hpos ⊢
      rw [drive_cons]
      simp only [feed_pass ft fr fs t x hE, next_pass _ _ hE] at h hpos ⊢
      by_cases hk : (feed ft fs t y).ctl = .more
      · simp only [hk, if_true, St.apply] at h hpos ⊢
        obtain ⟨h1, h2⟩ := ih ((fr.step x).frame.after .more) _ _ ((feed ft fs t y).out ++ (fr.step x).out ++ l) _ (p + 1) _ h
        refine ⟨h1, ?_⟩
        rw [h2]
        have hp := drive_stop_pulled_pos ft _ _ h
        simp only at hp
        generalize (drive ft (Frame.trans ((fr.step x).frame.after .more) xs) ⟨(feed ft fs t y).frames, (feed ft fs t y).sink, (feed ft fs t y).out ++ l₂, p₂ + 1⟩).1.pulled = q at hp ⊢
        obtain ⟨m, rfl⟩ : ∃ m, q = p₂ + 1 + (m + 1) := ⟨q - p₂ - 2, by omega⟩
        have e1 : p₂ + 1 + (m + 1) - (p₂ + 1) = m + 1 := by omega
        have e2 : p₂ + 1 + (m + 1) - p₂ = (m + 1) + 1 := by omega
        rw [e1, e2, need_pass _ _ _ _ hE, next_pass _ _ hE]; omega
      · simp only [hk, if_false, St.apply]
        refine ⟨trivial, ?_⟩
        have e : p₂ + 1 - p₂ = 0 + 1 := by omega
        rw [e, need_pass _ _ _ _ hE]; simp
    | skip =>
      rw [trans_skip _ _ _ hE] at h hpos ⊢
      rw [drive_cons]
      simp only [feed_skip ft fr fs t x hE, next_skip _ _ hE, if_true, St.apply] at h hpos ⊢
      obtain ⟨h1, h2⟩ := ih (fr.step x).frame fs t ((fr.step x).out ++ l) l₂ (p + 1) p₂ h
      refine ⟨h1, ?_⟩
      rw [h2]
      generalize (drive ft (Frame.trans (fr.step x).frame xs) ⟨fs, t, l₂, p₂⟩).1.pulled = q at hpos ⊢
      obtain ⟨m, rfl⟩ : ∃ m, q = p₂ + (m + 1) := ⟨q - p₂ - 1, by omega⟩
      have e : p₂ + (m + 1) - p₂ = m + 1 := by omega
      rw [e, need_skip _ _ _ _ hE, next_skip _ _ hE]; omega
    | halt c =>
      by_cases hc : c = .more
      · subst hc
        rw [trans_halt_more _ _ _ hE] at h hpos ⊢
        rw [drive_cons]
        simp only [feed_halt ft fr fs t x hE, next_halt _ _ hE, if_true, St.apply] at h hpos ⊢
        obtain ⟨h1, h2⟩ := ih (fr.step x).frame fs t ((fr.step x).out ++ l) l₂ (p + 1) p₂ h
        refine ⟨h1, ?_⟩
        rw [h2]
        generalize (drive ft (Frame.trans (fr.step x).frame xs) ⟨fs, t, l₂, p₂⟩).1.pulled = q at hpos ⊢
        obtain ⟨m, rfl⟩ : ∃ m, q = p₂ + (m + 1) := ⟨q - p₂ - 1, by omega⟩
        have e : p₂ + (m + 1) - p₂ = m + 1 := by omega
        rw [e, need_halt_more _ _ _ _ hE, next_halt _ _ hE]; omega
      · rw [trans_halt _ _ _ hE hc] at h; simp at h

/-- If the chain below never stops on the frame's output, the chain with the frame pulls `span xs`
inputs: all of them, or up to the element on which the frame itself halts (its read-ahead). -/
theorem drive_frame_more (ft : FeedT α τ) (xs : List (Item α)) (fr : Frame α) (fs : List (Frame α)) (t : τ)
    (l l₂ : Log α) (p p₂ : Nat)
    (h : (drive ft (fr.trans xs) ⟨fs, t, l₂, p₂⟩).2 = .more) :
    (drive ft xs ⟨fr :: fs, t, l, p⟩).1.pulled = p + fr.span xs := by
  induction xs generalizing fr fs t l l₂ p p₂ with
  | nil => simp [Frame.span]
  | cons x xs ih =>
    obtain ⟨e, hE⟩ : ∃ e, (fr.step x).emit = e := ⟨_, rfl⟩
    cases e with
    | pass y =>
      rw [trans_pass _ _ _ hE, drive_cons] at h
      rw [drive_cons, span_pass _ _ _ hE]
      simp only [feed_pass ft fr fs t x hE, next_pass _ _ hE] at h ⊢
      by_cases hk : (feed ft fs t y).ctl = .more
      · simp only [hk, if_true, St.apply] at h ⊢
        rw [ih _ _ _ _ _ _ _ h]; omega
      · simp [hk] at h
    | skip =>
      rw [trans_skip _ _ _ hE] at h
      rw [drive_cons, span_skip _ _ _ hE]
      simp only [feed_skip ft fr fs t x hE, next_skip _ _ hE, if_true, St.apply] at h ⊢
      rw [ih _ _ _ _ _ _ _ h]; omega
    | halt c =>
      by_cases hc : c = .more
      · subst hc
        rw [trans_halt_more _ _ _ hE] at h
        rw [drive_cons, span_halt_more _ _ _ hE]
        simp only [feed_halt ft fr fs t x hE, next_halt _ _ hE, if_true, St.apply] at h ⊢
        rw [ih _ _ _ _ _ _ _ h]; omega
      · rw [drive_cons, span_halt _ _ _ hE hc]
        simp [feed_halt ft fr fs t x hE, hc, St.apply]

end P2.Iter
