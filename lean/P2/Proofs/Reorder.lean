import P2.Model.Reorder
namespace P2.Reorder

variable {α : Type}

theorem lookup_cons (k : Nat) (v : α) (b : List (Nat × α)) (n : Nat) :
    lookup ((k, v) :: b) n = if k = n then some v else lookup b n := by
  unfold lookup
  by_cases h : k = n
  · simp [List.find?, h]
  · have : (k == n) = false := by simpa using h
    simp [List.find?, this, h]

theorem lookup_erase : ∀ (b : List (Nat × α)) (k n : Nat),
    lookup (erase b k) n = if n = k then none else lookup b n
  | [], k, n => by simp [lookup, erase]
  | (j, v) :: b, k, n => by
    have ih := lookup_erase b k n
    simp only [erase] at ih ⊢
    rw [List.filter_cons]
    by_cases hj : j = k
    · subst hj
      simp only [bne_self_eq_false, Bool.false_eq_true, if_false, ih, lookup_cons]
      by_cases hn : n = j
      · simp [hn]
      · have : ¬ j = n := fun h => hn h.symm
        simp [hn, this]
    · have : (j != k) = true := by simpa using hj
      simp only [this, if_true, lookup_cons, ih]
      by_cases hn : n = k
      · subst hn; simp [hj]
      · simp [hn]

theorem erase_length_lt : ∀ (b : List (Nat × α)) (k : Nat) (v : α), lookup b k = some v →
    (erase b k).length < b.length
  | [], k, v, h => by simp [lookup] at h
  | (j, w) :: b, k, v, h => by
    simp only [erase]
    rw [List.filter_cons]
    by_cases hj : j = k
    · subst hj
      simp only [bne_self_eq_false, Bool.false_eq_true, if_false]
      have := List.length_filter_le (fun x : Nat × α => x.1 != j) b
      simp; omega
    · have : (j != k) = true := by simpa using hj
      simp only [this, if_true]
      rw [lookup_cons, if_neg hj] at h
      have := erase_length_lt b k v h
      simp only [erase] at this
      simp only [List.length_cons]; omega

/-- the state before the inner drain loop -/
structure PInv (start : Nat) (vals : Nat → α) (seen : List Nat) (c : C α) : Prop where
  ge : start ≤ c.nextOut
  out : c.out = (List.range' start (c.nextOut - start)).map vals
  buf : ∀ i, lookup c.buffer i = if i ∈ seen ∧ c.nextOut ≤ i then some (vals i) else none
  below : ∀ i, start ≤ i → i < c.nextOut → i ∈ seen

def Inv (start : Nat) (vals : Nat → α) (seen : List Nat) (c : C α) : Prop :=
  PInv start vals seen c ∧ c.nextOut ∉ seen

theorem flush_inv (start : Nat) (vals : Nat → α) (seen : List Nat) :
    ∀ (fuel : Nat) (c : C α), c.buffer.length ≤ fuel → PInv start vals seen c → Inv start vals seen (flush fuel c)
  | 0, c, hlen, h => by
    have hb : c.buffer = [] := List.eq_nil_of_length_eq_zero (by omega)
    show Inv start vals seen c
    refine ⟨h, fun hmem => ?_⟩
    have := h.buf c.nextOut
    simp [hb, lookup, hmem] at this
  | f+1, c, hlen, h => by
    unfold flush
    cases hl : lookup c.buffer c.nextOut with
    | none =>
      refine ⟨h, fun hmem => ?_⟩
      have := h.buf c.nextOut
      simp [hl, hmem] at this
    | some v =>
      have hb := h.buf c.nextOut
      rw [hl] at hb
      have hmem : c.nextOut ∈ seen := by
        by_cases hm : c.nextOut ∈ seen
        · exact hm
        · simp [hm] at hb
      have hv : v = vals c.nextOut := by simp [hmem] at hb; exact hb
      apply flush_inv start vals seen f
      · have := erase_length_lt c.buffer c.nextOut v hl
        simp only; omega
      · refine ⟨by simp only; have := h.ge; omega, ?_, ?_, ?_⟩
        · simp only
          have : c.nextOut + 1 - start = (c.nextOut - start) + 1 := by have := h.ge; omega
          rw [this, List.range'_concat, List.map_append, ← h.out, hv]
          have : start + (c.nextOut - start) = c.nextOut := by have := h.ge; omega
          simp [this]
        · intro i
          simp only
          rw [lookup_erase, h.buf i]
          by_cases hi : i = c.nextOut
          · subst hi; simp
          · simp only [hi, if_false]
            have : (c.nextOut ≤ i) ↔ (c.nextOut + 1 ≤ i) := by omega
            simp only [this]
        · intro i hs hi
          simp only at hi
          by_cases hi' : i = c.nextOut
          · subst hi'; exact hmem
          · exact h.below i hs (by omega)

theorem arrive_inv (start : Nat) (vals : Nat → α) (seen : List Nat) (c : C α) (i : Nat)
    (h : Inv start vals seen c) (hnew : i ∉ seen) (hge : start ≤ i) :
    Inv start vals (i :: seen) (arrive c (i, vals i)) := by
  obtain ⟨hp, hno⟩ := h
  have hige : c.nextOut ≤ i := by
    by_cases hlt : i < c.nextOut
    · exact absurd (hp.below i hge hlt) hnew
    · omega
  unfold arrive
  by_cases hi : i = c.nextOut
  · simp only [hi, if_true]
    apply flush_inv
    · exact Nat.le_refl _
    · refine ⟨by simp only; have := hp.ge; omega, ?_, ?_, ?_⟩
      · simp only
        have : c.nextOut + 1 - start = (c.nextOut - start) + 1 := by have := hp.ge; omega
        rw [this, List.range'_concat, List.map_append, ← hp.out]
        have : start + (c.nextOut - start) = c.nextOut := by have := hp.ge; omega
        simp [this]
      · intro j
        simp only
        rw [hp.buf j]
        by_cases hj : j = c.nextOut
        · subst hj; simp [hno]
        · have h1 : (c.nextOut ≤ j) ↔ (c.nextOut + 1 ≤ j) := by omega
          have h2 : j ∈ c.nextOut :: seen ↔ j ∈ seen := by simp [hj]
          simp only [h1, h2]
      · intro j hs hj
        simp only at hj
        by_cases hj' : j = c.nextOut
        · simp [hj']
        · exact List.mem_cons_of_mem _ (hp.below j hs (by omega))
  · simp only [hi, if_false]
    refine ⟨⟨hp.ge, hp.out, ?_, fun j hs hj => List.mem_cons_of_mem _ (hp.below j hs hj)⟩, ?_⟩
    · intro j
      simp only
      rw [lookup_cons, hp.buf j]
      by_cases hj : i = j
      · subst hj; simp [hige]
      · have h2 : j ∈ i :: seen ↔ j ∈ seen := by
          have : ¬ j = i := fun h => hj h.symm
          simp [this]
        simp only [hj, if_false, h2]
    · simp only
      intro hmem
      cases List.mem_cons.mp hmem with
      | inl h => exact hi h.symm
      | inr h => exact hno h

theorem fold_inv (start : Nat) (vals : Nat → α) : ∀ (is seen : List Nat) (c : C α),
    Inv start vals seen c → (∀ i ∈ is, i ∉ seen ∧ start ≤ i) → is.Nodup →
    Inv start vals (is.reverse ++ seen) ((is.map fun i => (i, vals i)).foldl arrive c)
  | [], seen, c, h, _, _ => by simpa using h
  | i :: is, seen, c, h, hall, hnd => by
    simp only [List.map_cons, List.foldl_cons, List.reverse_cons, List.append_assoc, List.singleton_append]
    obtain ⟨hi1, hi2⟩ := hall i (List.mem_cons_self ..)
    have hnd' := List.nodup_cons.mp hnd
    apply fold_inv start vals is (i :: seen) _ (arrive_inv start vals seen c i h hi1 hi2)
    · intro j hj
      refine ⟨fun hm => ?_, (hall j (List.mem_cons_of_mem _ hj)).2⟩
      cases List.mem_cons.mp hm with
      | inl h => subst h; exact hnd'.1 hj
      | inr h => exact (hall j (List.mem_cons_of_mem _ hj)).1 h
    · exact hnd'.2

/-- C06.1: whatever the arrival order of the results `start .. start+n-1`, the collector hands them on
    in index order. -/
theorem collector_in_order (start n : Nat) (vals : Nat → α) (is : List Nat)
    (hperm : is.Perm (List.range' start n)) :
    collect start (is.map fun i => (i, vals i)) = (List.range' start n).map vals := by
  have hnd : is.Nodup := hperm.nodup_iff.mpr (List.nodup_range' (step := 1) (by omega))
  have hmem : ∀ i, i ∈ is ↔ start ≤ i ∧ i < start + n := by
    intro i; rw [hperm.mem_iff, List.mem_range'_1]
  have h0 : Inv start vals [] ({ nextOut := start, buffer := [], out := [] } : C α) :=
    ⟨⟨Nat.le_refl _, by simp, by intro i; simp [lookup], by intro i h1 h2; simp only at h2; omega⟩, by simp⟩
  have hfin := fold_inv start vals is [] _ h0 (fun i hi => ⟨by simp, ((hmem i).mp hi).1⟩) hnd
  obtain ⟨hp, hno⟩ := hfin
  simp only [List.append_nil, List.mem_reverse] at hp hno
  generalize hc : (is.map fun i => (i, vals i)).foldl arrive { nextOut := start, buffer := [], out := [] } = c at hp hno
  have hge := hp.ge
  have hupper : c.nextOut ≤ start + n := by
    by_cases hgt : start + n < c.nextOut
    · have := hp.below (start + n) (by omega) hgt
      simp only [List.mem_reverse] at this
      have := ((hmem _).mp this).2
      omega
    · omega
  have hlower : start + n ≤ c.nextOut := by
    by_cases hlt : c.nextOut < start + n
    · exact absurd ((hmem _).mpr ⟨hge, hlt⟩) hno
    · omega
  have : c.nextOut - start = n := by omega
  unfold collect
  rw [hc, hp.out, this]

end P2.Reorder
