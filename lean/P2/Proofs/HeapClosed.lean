import P2.Proofs.HeapAbs
/-! # Closedness: every value stored in a reachable list or map names an existing object, hence no
observation of a handle contains the `dangling` marker (C09; makes `abs_stable` unconditional). -/
namespace P2.Heap

theorem vok_mono {h h' : H} (ho : h.objs.length ≤ h'.objs.length) (hm : h.maps.length ≤ h'.maps.length)
    (v : Val) (hv : vok h v = true) : vok h' v = true := by
  cases v <;> simp only [vok, decide_eq_true_eq] at hv ⊢ <;> omega

/-! ## producers only yield scalars or values they were given -/

theorem mapRes_mem {α β} (f : α → Res β) : ∀ (xs : List α) (ys : List β), mapRes f xs = .ok ys →
    ∀ y ∈ ys, ∃ x ∈ xs, f x = .ok y := by
  intro xs
  induction xs with
  | nil => intro ys h y hy; simp [mapRes] at h; subst h; simp at hy
  | cons x xs ih =>
    intro ys h y hy
    simp only [mapRes] at h
    cases hfx : f x with
    | ok b =>
      rw [hfx] at h
      cases hr : mapRes f xs with
      | ok bs =>
        rw [hr] at h
        simp only [Res.ok.injEq] at h
        subst h
        simp only [List.mem_cons] at hy
        rcases hy with rfl | hy
        · exact ⟨x, by simp, hfx⟩
        · obtain ⟨x', hx', hf'⟩ := ih bs hr y hy
          exact ⟨x', by simp [hx'], hf'⟩
      | err => rw [hr] at h; cases h
      | panic => rw [hr] at h; cases h
      | fuel => rw [hr] at h; cases h
    | err => rw [hfx] at h; cases h
    | panic => rw [hfx] at h; cases h
    | fuel => rw [hfx] at h; cases h

theorem filterRes_mem {α} (f : α → Res Bool) : ∀ (xs ys : List α), filterRes f xs = .ok ys →
    ∀ y ∈ ys, y ∈ xs := by
  intro xs
  induction xs with
  | nil => intro ys h y hy; simp [filterRes] at h; subst h; simp at hy
  | cons x xs ih =>
    intro ys h y hy
    simp only [filterRes] at h
    cases hfx : f x with
    | ok b =>
      rw [hfx] at h
      cases hr : filterRes f xs with
      | ok bs =>
        rw [hr] at h
        simp only [Res.ok.injEq] at h
        subst h
        by_cases hb : b = true
        · simp only [hb, if_true, List.mem_cons] at hy
          rcases hy with rfl | hy
          · simp
          · simp [ih bs hr y hy]
        · simp only [hb] at hy
          simp [ih bs hr y hy]
      | err => rw [hr] at h; cases h
      | panic => rw [hr] at h; cases h
      | fuel => rw [hr] at h; cases h
    | err => rw [hfx] at h; cases h
    | panic => rw [hfx] at h; cases h
    | fuel => rw [hfx] at h; cases h

theorem fn_apply_vok (h : H) (f : Fn) (x y : Val) (hf : f.apply x = .ok y) (hx : vok h x = true) :
    vok h y = true := by
  cases f <;> cases x <;> simp [Fn.apply] at hf <;> subst hf <;> first | exact hx | rfl

theorem winfn_apply_vok (h : H) (g : WinFn) (w : List Val) (y : Val) (hg : g.apply w = .ok y) :
    vok h y = true := by
  cases g with
  | size => simp [WinFn.apply] at hg; subst hg; rfl
  | firstLast =>
    simp only [WinFn.apply] at hg
    split at hg
    · simp at hg; subst hg; rfl
    · cases hg

theorem runProd_vok (h : H) (rot : Bool) (get : Nat → Res (List Val))
    (hget : ∀ p xs, get p = .ok xs → ∀ x ∈ xs, vok h x = true) (p : Prod) (ys : List Val)
    (hr : runProd rot get p = .ok ys) : ∀ y ∈ ys, vok h y = true := by
  intro y hy
  cases p with
  | none => simp [runProd] at hr
  | numbers n =>
    simp only [runProd, Res.ok.injEq] at hr
    subst hr
    simp only [List.mem_map] at hy
    obtain ⟨i, _, rfl⟩ := hy
    rfl
  | map f p =>
    simp only [runProd] at hr
    cases hg : get p with
    | ok xs =>
      rw [hg] at hr
      obtain ⟨x, hx, hfx⟩ := mapRes_mem f.apply xs ys hr y hy
      exact fn_apply_vok h f x y hfx (hget p xs hg x hx)
    | err => rw [hg] at hr; cases hr
    | panic => rw [hg] at hr; cases hr
    | fuel => rw [hg] at hr; cases hr
  | accept q p =>
    simp only [runProd] at hr
    cases hg : get p with
    | ok xs =>
      rw [hg] at hr
      exact hget p xs hg y (filterRes_mem q.apply xs ys hr y hy)
    | err => rw [hg] at hr; cases hr
    | panic => rw [hg] at hr; cases hr
    | fuel => rw [hg] at hr; cases hr
  | top k p =>
    simp only [runProd] at hr
    cases hg : get p with
    | ok xs =>
      rw [hg] at hr
      simp only [Res.ok.injEq] at hr
      subst hr
      split at hy
      · exact hget p xs hg y hy
      · exact hget p xs hg y (List.mem_of_mem_take hy)
    | err => rw [hg] at hr; cases hr
    | panic => rw [hg] at hr; cases hr
    | fuel => rw [hg] at hr; cases hr
  | skip k p =>
    simp only [runProd] at hr
    cases hg : get p with
    | ok xs =>
      rw [hg] at hr
      simp only [Res.ok.injEq] at hr
      subst hr
      split at hy
      · exact hget p xs hg y hy
      · exact hget p xs hg y (List.mem_of_mem_drop hy)
    | err => rw [hg] at hr; cases hr
    | panic => rw [hg] at hr; cases hr
    | fuel => rw [hg] at hr; cases hr
  | concat a b =>
    simp only [runProd] at hr
    cases ha : get a with
    | ok xs =>
      cases hb : get b with
      | ok zs =>
        rw [ha, hb] at hr
        simp only [Res.ok.injEq] at hr
        subst hr
        simp only [List.mem_append] at hy
        rcases hy with hy | hy
        · exact hget a xs ha y hy
        · exact hget b zs hb y hy
      | err => rw [ha, hb] at hr; cases hr
      | panic => rw [ha, hb] at hr; cases hr
      | fuel => rw [ha, hb] at hr; cases hr
    | err => rw [ha] at hr; cases hb : get b <;> rw [hb] at hr <;> cases hr
    | panic => rw [ha] at hr; cases hb : get b <;> rw [hb] at hr <;> cases hr
    | fuel => rw [ha] at hr; cases hb : get b <;> rw [hb] at hr <;> cases hr
  | combineN n g p =>
    simp only [runProd] at hr
    cases hg : get p with
    | ok xs =>
      rw [hg] at hr
      simp only at hr
      split at hr
      · cases hr
      · split at hr
        · split at hr
          · simp only [Res.ok.injEq] at hr; subst hr; simp at hy
          · cases hr
        · obtain ⟨w, _, hw⟩ := mapRes_mem g.apply _ ys hr y hy
          exact winfn_apply_vok h g w y hw
    | err => rw [hg] at hr; cases hr
    | panic => rw [hg] at hr; cases hr
    | fuel => rw [hg] at hr; cases hr

/-! ## lists -/

/-- every cell of every backing array names an existing object -/
def ArrClosed (h : H) : Prop := ∀ a ∈ h.arrays, ∀ v ∈ a, vok h v = true

theorem arrayOf_mem {h : H} (hc : ArrClosed h) (a : Nat) : ∀ v ∈ h.arrayOf a, vok h v = true := by
  intro v hv
  simp only [H.arrayOf] at hv
  cases hx : h.arrays[a]? with
  | none => rw [hx] at hv; simp at hv
  | some l =>
    rw [hx] at hv
    exact hc l (List.mem_of_getElem? hx) v hv

theorem elemsUpTo_vok {h : H} (hc : ArrClosed h) (rot : Bool) : ∀ (n o : Nat) (xs : List Val),
    (elemsUpTo rot h n)[o]? = some (.ok xs) → ∀ x ∈ xs, vok h x = true := by
  intro n
  induction n with
  | zero => intro o xs ho; simp [elemsUpTo] at ho
  | succ n ih =>
    intro o xs ho
    simp only [elemsUpTo] at ho
    by_cases hon : o < n
    · rw [List.getElem?_append_left (by rw [elemsUpTo_length]; exact hon)] at ho
      exact ih o xs ho
    · by_cases hon' : o = n
      · subst hon'
        rw [List.getElem?_append_right (by rw [elemsUpTo_length]; exact Nat.le_refl _)] at ho
        simp only [elemsUpTo_length, Nat.sub_self, List.getElem?_cons_zero, Option.some.injEq] at ho
        simp only [elemsOf] at ho
        cases hob : h.objs[o]? with
        | none => rw [hob] at ho; cases ho
        | some ob =>
          rw [hob] at ho
          simp only at ho
          by_cases hp : ob.present = true
          · rw [if_pos hp] at ho
            simp only [Res.ok.injEq] at ho
            subst ho
            intro x hx
            simp only [H.window] at hx
            exact arrayOf_mem hc _ x (List.mem_of_mem_drop (List.mem_of_mem_take hx))
          · rw [if_neg hp] at ho
            refine runProd_vok h rot _ ?_ ob.prod xs ho
            intro p zs hp' z hz
            cases hpp : (elemsUpTo rot h o)[p]? with
            | none => rw [hpp] at hp'; cases hp'
            | some r =>
              rw [hpp] at hp'
              simp only at hp'
              subst hp'
              exact ih p zs hpp z hz
      · rw [List.getElem?_eq_none (by simp [elemsUpTo_length]; omega)] at ho
        cases ho

theorem elems_vok {h : H} (hc : ArrClosed h) (rot : Bool) (o : Nat) (xs : List Val)
    (he : elems rot h o = .ok xs) : ∀ x ∈ xs, vok h x = true := by
  have := elemsUpTo_getElem? rot h (o + 1) o (by omega)
  rw [he] at this
  exact elemsUpTo_vok hc rot (o + 1) o xs this

theorem mem_set_cases {α} (l : List α) (i : Nat) (x y : α) (h : y ∈ l.set i x) : y ∈ l ∨ y = x := by
  induction l generalizing i with
  | nil => simp at h
  | cons a l ih =>
    cases i with
    | zero => simp at h; rcases h with h | h; exact Or.inr h; exact Or.inl (by simp [h])
    | succ i =>
      simp at h
      rcases h with h | h
      · exact Or.inl (by simp [h])
      · rcases ih i h with h' | h'
        · exact Or.inl (by simp [h'])
        · exact Or.inr h'

theorem pad_vok (h : H) (n : Nat) : ∀ v ∈ pad n, vok h v = true := by
  intro v hv
  simp only [pad, List.mem_replicate] at hv
  rw [hv.2]; rfl

/-- safe micro operations keep every array cell pointing to existing objects -/
theorem micro_arrClosed (cfg : Cfg) (h : H) (m : Micro) (hs : m.safe = true) (hc : ArrClosed h) :
    ArrClosed (micro cfg h m) := by
  have grow : ∀ h' : H, h.objs.length ≤ h'.objs.length → h.maps.length ≤ h'.maps.length →
      (∀ a ∈ h'.arrays, a ∈ h.arrays ∨ ∀ v ∈ a, vok h v = true) → ArrClosed h' := by
    intro h' ho hm ha a hmem v hv
    rcases ha a hmem with hin | hall
    · exact vok_mono ho hm v (hc a hin v hv)
    · exact vok_mono ho hm v (hall v hv)
  cases m with
  | alloc xs spare =>
    simp only [micro]
    by_cases hg : xs.all (vok h) = true
    · rw [if_pos hg]
      refine grow _ (by simp) (Nat.le_refl _) ?_
      intro a ha
      simp only [List.mem_append, List.mem_singleton] at ha
      rcases ha with ha | rfl
      · exact Or.inl ha
      · refine Or.inr fun v hv => ?_
        simp only [List.mem_append] at hv
        rcases hv with hv | hv
        · exact List.all_eq_true.mp hg v hv
        · exact pad_vok h _ v hv
    · rw [if_neg hg]; exact hc
  | «lazy» p =>
    exact grow _ (by simp [micro]) (Nat.le_refl _) (fun a ha => Or.inl ha)
  | mat o =>
    simp only [micro]
    cases hob : h.objs[o]? with
    | none => exact hc
    | some ob =>
      simp only
      by_cases hp : ob.present = true
      · rw [if_pos hp]; exact hc
      · rw [if_neg hp]
        cases he : elems cfg.rot h o with
        | ok xs =>
          refine grow _ (by simp) (Nat.le_refl _) ?_
          intro a ha
          simp only [List.mem_append, List.mem_singleton] at ha
          rcases ha with ha | rfl
          · exact Or.inl ha
          · refine Or.inr fun v hv => ?_
            simp only [List.mem_append] at hv
            rcases hv with hv | hv
            · exact elems_vok hc cfg.rot o xs he v hv
            · exact pad_vok h _ v hv
        | err => exact hc
        | panic => exact hc
        | fuel => exact hc
  | app o v capParent =>
    simp only [micro]
    cases hob : h.objs[o]? with
    | none => exact hc
    | some ob =>
      simp only
      by_cases hpg : ob.present = true ∧ vok h v = true
      · rw [if_pos hpg]
        by_cases hlt : ob.items.len < ob.items.cap
        · rw [if_pos hlt]
          refine grow _ (by split <;> simp) (Nat.le_refl _) ?_
          intro a ha
          simp only at ha
          rcases List.mem_or_eq_of_mem_set ha with ha | rfl
          · exact Or.inl ha
          · refine Or.inr fun x hx => ?_
            rcases mem_set_cases _ _ _ _ hx with hx | rfl
            · exact arrayOf_mem hc _ x hx
            · exact hpg.2
        · rw [if_neg hlt]
          refine grow _ (by simp) (Nat.le_refl _) ?_
          intro a ha
          simp only [List.mem_append, List.mem_singleton] at ha
          rcases ha with ha | rfl
          · exact Or.inl ha
          · refine Or.inr fun x hx => ?_
            simp only [List.mem_append, List.mem_singleton] at hx
            rcases hx with (hx | rfl) | hx
            · simp only [H.window] at hx
              exact arrayOf_mem hc _ x (List.mem_of_mem_drop (List.mem_of_mem_take hx))
            · exact hpg.2
            · exact pad_vok h _ x hx
      · rw [if_neg hpg]; exact hc
  | sub o i j c =>
    simp only [micro]
    cases hob : h.objs[o]? with
    | none => exact hc
    | some ob =>
      simp only
      split
      · exact grow _ (by simp) (Nat.le_refl _) (fun a ha => Or.inl ha)
      · exact hc
  | write o i v => simp [Micro.safe] at hs
  | newMap m =>
    simp only [micro]
    split
    · exact grow _ (Nat.le_refl _) (by simp) (fun a ha => Or.inl ha)
    · exact hc


theorem runMicros_arrClosed (cfg : Cfg) (ms : List Micro) (h : H) (hs : ∀ m ∈ ms, m.safe = true)
    (hc : ArrClosed h) : ArrClosed (runMicros cfg h ms) := by
  induction ms generalizing h with
  | nil => exact hc
  | cons m ms ih =>
    exact ih (micro cfg h m) (fun m' hm' => hs m' (by simp [hm'])) (micro_arrClosed cfg h m (hs m (by simp)) hc)

/-! ## maps -/

def InfoClosed (h : H) (mi : MInfo) : Prop :=
  mi.bad = false ∧ (∀ kv ∈ mi.iter, vok h kv.2 = true) ∧ (∀ kv ∈ mi.getl, vok h kv.2 = true)

/-- every map storage answers with existing objects only -/
def MapsClosed (h : H) : Prop := ∀ (m : Nat) (mi : MInfo), (mtable h)[m]? = some mi → InfoClosed h mi

theorem infoClosed_mono {h h' : H} (ho : h.objs.length ≤ h'.objs.length) (hm : h.maps.length ≤ h'.maps.length)
    {mi : MInfo} (hc : InfoClosed h mi) : InfoClosed h' mi :=
  ⟨hc.1, fun kv hkv => vok_mono ho hm _ (hc.2.1 kv hkv), fun kv hkv => vok_mono ho hm _ (hc.2.2 kv hkv)⟩

theorem lookup_mem (k : String) : ∀ (es : List (String × Val)) (v : Val), lookup k es = some v →
    ∃ kv ∈ es, kv.2 = v := by
  intro es
  induction es with
  | nil => intro v h; simp [lookup] at h
  | cons e es ih =>
    intro v h
    obtain ⟨k', v'⟩ := e
    simp only [lookup] at h
    split at h
    · simp only [Option.some.injEq] at h; exact ⟨(k', v'), by simp, h⟩
    · obtain ⟨kv, hkv, hv⟩ := ih v h
      exact ⟨kv, by simp [hkv], hv⟩

theorem mInfoOf_closed (h : H) (prev : List MInfo) (hprev : ∀ (m : Nat) (mi : MInfo), prev[m]? = some mi → InfoClosed h mi)
    (hlen : prev.length = h.maps.length) (m : MObj) (hm : mok h m = true) : InfoClosed h (mInfoOf prev m) := by
  have getp : ∀ p, p < h.maps.length → ∃ pi, prev[p]? = some pi := by
    intro p hp
    exact ⟨prev[p]'(by omega), List.getElem?_eq_getElem (by omega)⟩
  cases m with
  | lm es =>
    simp only [mok, List.all_eq_true] at hm
    exact ⟨rfl, fun kv hkv => hm kv hkv, fun kv hkv => hm kv hkv⟩
  | real es =>
    simp only [mok, List.all_eq_true] at hm
    exact ⟨rfl, fun kv hkv => hm kv hkv, fun kv hkv => hm kv hkv⟩
  | app k v p =>
    simp only [mok, Bool.and_eq_true, decide_eq_true_eq] at hm
    obtain ⟨pi, hpi⟩ := getp p hm.2
    have hc := hprev p pi hpi
    simp only [mInfoOf, hpi]
    refine ⟨hc.1, ?_, ?_⟩
    · intro kv hkv
      simp only [List.mem_cons] at hkv
      rcases hkv with rfl | hkv
      · exact hm.1
      · exact hc.2.1 kv hkv
    · intro kv hkv
      simp only [List.mem_cons] at hkv
      rcases hkv with rfl | hkv
      · exact hm.1
      · exact hc.2.2 kv hkv
  | mrg a b =>
    simp only [mok, Bool.and_eq_true, decide_eq_true_eq] at hm
    obtain ⟨ai, hai⟩ := getp a hm.1
    obtain ⟨bi, hbi⟩ := getp b hm.2
    have ha := hprev a ai hai
    have hb := hprev b bi hbi
    simp only [mInfoOf, hai, hbi]
    refine ⟨by simp [ha.1, hb.1], ?_, ?_⟩
    · intro kv hkv
      simp only [List.mem_append] at hkv
      rcases hkv with hkv | hkv
      · exact ha.2.1 kv hkv
      · exact hb.2.1 kv hkv
    · intro kv hkv
      simp only [List.mem_append] at hkv
      rcases hkv with hkv | hkv
      · exact ha.2.2 kv hkv
      · exact hb.2.2 kv hkv
  | rpl o r d =>
    simp only [mok, Bool.and_eq_true, decide_eq_true_eq] at hm
    obtain ⟨oi, hoi⟩ := getp o hm.1
    obtain ⟨ri, hri⟩ := getp r hm.2
    have ho := hprev o oi hoi
    have hr := hprev r ri hri
    simp only [mInfoOf, hoi, hri]
    refine ⟨by simp [ho.1, hr.1], ?_, ?_⟩
    · intro kv hkv
      simp only [List.mem_map] at hkv
      obtain ⟨e, he, rfl⟩ := hkv
      cases hl : lookup e.1 ri.getl with
      | none => simp only [hl]; exact ho.2.1 e he
      | some x =>
        simp only [hl]
        obtain ⟨kv', hkv', hx⟩ := lookup_mem e.1 ri.getl x hl
        rw [← hx]; exact hr.2.2 kv' hkv'
    · intro kv hkv
      simp only [List.mem_map] at hkv
      obtain ⟨e, he, rfl⟩ := hkv
      cases hl : lookup e.1 ri.getl with
      | none => simp only [hl]; exact ho.2.2 e he
      | some x =>
        simp only [hl]
        obtain ⟨kv', hkv', hx⟩ := lookup_mem e.1 ri.getl x hl
        rw [← hx]; exact hr.2.2 kv' hkv'

theorem mtable_snoc (ms : List MObj) (m : MObj) :
    mUpTo (ms ++ [m]) (ms ++ [m]).length = mUpTo ms ms.length ++ [mInfoOf (mUpTo ms ms.length) m] := by
  have : (ms ++ [m]).length = ms.length + 1 := by simp
  rw [this]
  simp only [mUpTo, mUpTo_append ms [m] ms.length (Nat.le_refl _)]
  simp

theorem micro_mapsClosed (cfg : Cfg) (h : H) (m : Micro) (hs : m.safe = true) (hinv : Inv h)
    (hc : MapsClosed h) : MapsClosed (micro cfg h m) := by
  have hext := (micro_safe cfg h m hs hinv).2
  by_cases hmaps : (micro cfg h m).maps = h.maps
  · -- the maps are untouched: the same table, more objects
    intro k mi hk
    have : mtable (micro cfg h m) = mtable h := by simp only [mtable, hmaps]
    rw [this] at hk
    exact infoClosed_mono hext.objs (by rw [hmaps]; exact Nat.le_refl _) (hc k mi hk)
  · cases m with
    | newMap mo =>
      simp only [micro] at hmaps ⊢
      by_cases hg : mok h mo = true
      · rw [if_pos hg]
        intro k mi hk
        have hl : h.maps.length ≤ (h.maps ++ [mo]).length := by simp
        simp only [mtable] at hk
        rw [mtable_snoc] at hk
        by_cases hkl : k < h.maps.length
        · rw [List.getElem?_append_left (by rw [mUpTo_length]; exact hkl)] at hk
          exact @infoClosed_mono h ⟨h.arrays, h.objs, h.maps ++ [mo]⟩ (Nat.le_refl _) hl mi (hc k mi hk)
        · by_cases hkl' : k = h.maps.length
          · subst hkl'
            rw [List.getElem?_append_right (by rw [mUpTo_length]; exact Nat.le_refl _)] at hk
            simp only [mUpTo_length, Nat.sub_self, List.getElem?_cons_zero, Option.some.injEq] at hk
            subst hk
            exact @infoClosed_mono h ⟨h.arrays, h.objs, h.maps ++ [mo]⟩ (Nat.le_refl _) hl _
              (mInfoOf_closed h _ (fun a ai ha => hc a ai ha) (mUpTo_length _ _) mo hg)
          · rw [List.getElem?_eq_none (by simp [mUpTo_length]; omega)] at hk
            cases hk
      · rw [if_neg hg] at hmaps; exact absurd rfl hmaps
    | alloc xs spare => simp only [micro] at hmaps; split at hmaps <;> exact absurd rfl hmaps
    | «lazy» p => exact absurd rfl hmaps
    | mat o =>
      simp only [micro] at hmaps
      split at hmaps
      · split at hmaps
        · exact absurd rfl hmaps
        · split at hmaps <;> exact absurd rfl hmaps
      · exact absurd rfl hmaps
    | app o v c =>
      simp only [micro] at hmaps
      split at hmaps
      · split at hmaps
        · split at hmaps <;> exact absurd rfl hmaps
        · exact absurd rfl hmaps
      · exact absurd rfl hmaps
    | sub o i j c =>
      simp only [micro] at hmaps
      split at hmaps
      · split at hmaps <;> exact absurd rfl hmaps
      · exact absurd rfl hmaps
    | write o i v => simp [Micro.safe] at hs

/-! ## the closedness invariant of a state -/

structure Closed (st : St) : Prop where
  arr : ArrClosed st.h
  maps : MapsClosed st.h
  pool : ∀ v ∈ st.pool, vok st.h v = true

theorem closed_init : Closed St.init :=
  ⟨fun a ha => by simp [St.init, H.empty] at ha,
   fun m mi hm => by simp [St.init, H.empty, mtable, mUpTo] at hm,
   fun v hv => by simp [St.init] at hv⟩

theorem runMicros_mapsClosed (cfg : Cfg) (ms : List Micro) (h : H) (hs : ∀ m ∈ ms, m.safe = true)
    (hinv : Inv h) (hc : MapsClosed h) : MapsClosed (runMicros cfg h ms) := by
  induction ms generalizing h with
  | nil => exact hc
  | cons m ms ih =>
    exact ih (micro cfg h m) (fun m' hm' => hs m' (by simp [hm'])) (micro_safe cfg h m (hs m (by simp)) hinv).1
      (micro_mapsClosed cfg h m (hs m (by simp)) hinv hc)

theorem step_closed {F : Facts} (hF : F.OK = true) (cfg : Cfg) (st : St) (op : Op) (hinv : Inv st.h)
    (hc : Closed st) : Closed (step F cfg st op) := by
  have hsafe := plan_safe hF cfg st op
  have hext := (runMicros_safe cfg (plan F cfg st op).1 st.h hsafe hinv).2
  refine ⟨runMicros_arrClosed cfg _ st.h hsafe hc.arr, runMicros_mapsClosed cfg _ st.h hsafe hinv hc.maps, ?_⟩
  intro v hv
  have hmlen : st.h.maps.length ≤ (runMicros cfg st.h (plan F cfg st op).1).maps.length := by
    obtain ⟨e, he⟩ := hext.maps; rw [he]; simp
  simp only [step] at hv ⊢
  cases hr : (plan F cfg st op).2 with
  | ok x =>
    rw [hr] at hv
    simp only [newPool] at hv
    split at hv
    · rename_i hcond
      simp only [List.mem_append, List.mem_singleton] at hv
      rcases hv with hv | rfl
      · exact vok_mono hext.objs hmlen v (hc.pool v hv)
      · simp only [Bool.and_eq_true] at hcond; exact hcond.2
    · exact vok_mono hext.objs hmlen v (hc.pool v hv)
  | err => rw [hr] at hv; exact vok_mono hext.objs hmlen v (hc.pool v hv)
  | panic => rw [hr] at hv; exact vok_mono hext.objs hmlen v (hc.pool v hv)
  | fuel => rw [hr] at hv; exact vok_mono hext.objs hmlen v (hc.pool v hv)

theorem run_closed {F : Facts} (hF : F.OK = true) (cfg : Cfg) (ops : List Op) (st : St) (hinv : Inv st.h)
    (hc : Closed st) : Closed (run F cfg st ops) := by
  induction ops generalizing st with
  | nil => exact hc
  | cons op ops ih =>
    exact ih (step F cfg st op) (step_ok hF cfg st op hinv).1 (step_closed hF cfg st op hinv hc)

/-! ## closed states have no dangling observation -/

theorem insertKey_mem (kv : String × Val) : ∀ (es : List (String × Val)) (x : String × Val),
    x ∈ insertKey kv es → x = kv ∨ x ∈ es := by
  intro es
  induction es with
  | nil => intro x hx; simp [insertKey] at hx; exact Or.inl hx
  | cons e es ih =>
    intro x hx
    simp only [insertKey] at hx
    split at hx
    · simp only [List.mem_cons] at hx
      rcases hx with rfl | rfl | hx
      · exact Or.inl rfl
      · exact Or.inr (by simp)
      · exact Or.inr (by simp [hx])
    · simp only [List.mem_cons] at hx
      rcases hx with rfl | hx
      · exact Or.inr (by simp)
      · rcases ih x hx with h | h
        · exact Or.inl h
        · exact Or.inr (by simp [h])

theorem sortKeys_mem : ∀ (es : List (String × Val)) (x : String × Val), x ∈ sortKeys es → x ∈ es := by
  intro es
  induction es with
  | nil => intro x hx; simp [sortKeys] at hx
  | cons e es ih =>
    intro x hx
    simp only [sortKeys, List.foldr_cons] at hx
    rcases insertKey_mem e _ x hx with rfl | h
    · simp
    · simp [ih x h]

theorem no_dangling (rot : Bool) (h : H) (ha : ArrClosed h) (hm : MapsClosed h) :
    ∀ (d : Nat) (v : Val), vok h v = true → Tok.dangling ∉ abs rot d h v := by
  intro d
  induction d with
  | zero => intro v _; simp [abs, absV]
  | succ d ih =>
    intro v hv
    unfold abs at ih ⊢
    cases v with
    | int i => simp [absV]
    | str s => simp [absV]
    | ref o =>
      simp only [vok, decide_eq_true_eq] at hv
      simp only [absV, table_getElem? rot h o hv]
      cases he : elems rot h o with
      | ok xs =>
        simp only [List.mem_append, List.mem_flatMap, List.mem_singleton, reduceCtorEq, false_or, or_false, not_exists,
          not_and]
        intro x hx
        exact ih x (elems_vok ha rot o xs he x hx)
      | err => simp
      | panic => simp
      | fuel => simp
    | mref m =>
      simp only [vok, decide_eq_true_eq] at hv
      have hlt : m < (mtable h).length := by rw [mtable_length]; exact hv
      have hget : (mtable h)[m]? = some ((mtable h)[m]) := List.getElem?_eq_getElem hlt
      have hc := hm m _ hget
      simp only [absV, hget, hc.1]
      intro hmem
      simp only [Bool.false_eq_true, if_false, List.mem_append, List.mem_flatMap, List.mem_singleton, reduceCtorEq,
        List.mem_cons, false_or, or_false, List.not_mem_nil] at hmem
      obtain ⟨kv, hkv, hd⟩ := hmem
      exact ih kv.2 (hc.2.1 kv (sortKeys_mem _ kv hkv)) hd

end P2.Heap
