import P2.Model.Binning
import P2.Spec.Histogram
/-! Helper lemmas for C20 (binning): index range and interval rule, float→int conversion,
list lemmas for `addAt`/`addLists`, 1-d and 2-d folds, collectors. -/
namespace P2.Binning

/-! ## 1. index: range (any carrier), conversion, interval rule (exact carrier) -/

theorem getIndex_range {F} (ops : NumOps F) (a : Axis F) (v : F) (hb : 1 ≤ a.bins) :
    0 ≤ getIndex ops a v ∧ getIndex ops a v < (a.bins : Int) := by
  unfold getIndex
  split
  · split
    · omega
    · split <;> omega
  · omega
  · omega
  · omega

theorem wrap64_id (i : Int) (h1 : -9223372036854775808 ≤ i) (h2 : i < 9223372036854775808) :
    wrap64 i = i := by
  unfold wrap64; omega

theorem wrap64_range (i : Int) : -9223372036854775808 ≤ wrap64 i ∧ wrap64 i < 9223372036854775808 := by
  unfold wrap64; omega

theorem clampIndex_range (bins : Nat) (i : Int) (hb : 1 ≤ bins) :
    0 ≤ clampIndex bins i ∧ clampIndex bins i < (bins : Int) := by
  unfold clampIndex
  split
  · omega
  · split <;> omega

theorem getIndexPinned_range {F} (ops : NumOps F) (a : Axis F) (v : F) (hb : 1 ≤ a.bins) :
    0 ≤ getIndexPinned ops a v ∧ getIndexPinned ops a v < (a.bins : Int) :=
  clampIndex_range _ _ hb

/-- `int(f)+1` for an in-range `f` -/
theorem succ_goInt_in (n : Int) (h1 : -9223372036854775808 ≤ n) (h2 : n < 9223372036854775807) :
    wrap64 (goInt (.fin n) + 1) = n + 1 := by
  simp only [goInt]
  rw [if_pos ⟨h1, by omega⟩]
  exact wrap64_id _ (by omega) (by omega)

/-- `int(f)+1` for `f = 2^63 - 1` (not a float64, but a value of the exact carrier): wraps -/
theorem succ_goInt_max : wrap64 (goInt (.fin 9223372036854775807) + 1) = -9223372036854775808 := by
  decide

/-- `int(f)+1` for an out-of-range `f`: `MinInt64 + 1` -/
theorem succ_goInt_out (n : Int) (h : n < -9223372036854775808 ∨ 9223372036854775808 ≤ n) :
    wrap64 (goInt (.fin n) + 1) = -9223372036854775807 := by
  simp only [goInt]
  rw [if_neg (by omega)]
  decide

theorem succ_goInt_pinf : wrap64 (goInt .pinf + 1) = -9223372036854775807 := by decide
theorem succ_goInt_ninf : wrap64 (goInt .ninf + 1) = -9223372036854775807 := by decide
theorem succ_goInt_nan : wrap64 (goInt .nan + 1) = -9223372036854775807 := by decide

theorem clampIndex_neg (bins : Nat) (i : Int) (h : i < 0) : clampIndex bins i = 0 := by
  unfold clampIndex; rw [if_pos h]

/-- the pinned and the repaired index computation agree unless `math.Floor(q)` is `+Inf` or an
integer `≥ 2^63 - 1` (where `int(f)+1` leaves the `int64` range) -/
theorem pinned_eq_repaired {F} (ops : NumOps F) (a : Axis F) (v : F)
    (hfin : ∀ n, ops.floorDiv (ops.sub v a.start) a.size = .fin n → n < 9223372036854775807)
    (hinf : ops.floorDiv (ops.sub v a.start) a.size ≠ .pinf) :
    getIndexPinned ops a v = getIndex ops a v := by
  unfold getIndexPinned getIndex
  cases hq : ops.floorDiv (ops.sub v a.start) a.size with
  | fin n =>
    have hn := hfin n hq
    by_cases hlo : -9223372036854775808 ≤ n
    · rw [succ_goInt_in n hlo hn]
      unfold clampIndex
      simp only
      split
      · split <;> omega
      · split
        · split <;> omega
        · split
          · omega
          · split <;> omega
    · rw [succ_goInt_out n (by omega), clampIndex_neg _ _ (by omega)]
      simp only
      split
      · omega
      · split <;> omega
  | pinf => exact absurd hq hinf
  | ninf => rw [succ_goInt_ninf, clampIndex_neg _ _ (by omega)]
  | nan => rw [succ_goInt_nan, clampIndex_neg _ _ (by omega)]

/-- B20 in general form: at the pinned commit every quotient whose floor is `≥ 2^63 - 1` (or `+Inf`)
is counted in the underflow bin 0 -/
theorem pinned_huge_in_bin0 {F} (ops : NumOps F) (a : Axis F) (v : F)
    (h : ops.floorDiv (ops.sub v a.start) a.size = .pinf ∨
         ∃ n, ops.floorDiv (ops.sub v a.start) a.size = .fin n ∧ 9223372036854775807 ≤ n) :
    getIndexPinned ops a v = 0 := by
  unfold getIndexPinned
  rcases h with h | ⟨n, h, hn⟩
  · rw [h, succ_goInt_pinf, clampIndex_neg _ _ (by omega)]
  · rw [h]
    by_cases hhi : n < 9223372036854775808
    · have : n = 9223372036854775807 := by omega
      subst this
      rw [succ_goInt_max, clampIndex_neg _ _ (by omega)]
    · rw [succ_goInt_out n (by omega), clampIndex_neg _ _ (by omega)]

/-- … where the repaired code answers with the overflow bin -/
theorem repaired_huge_in_last {F} (ops : NumOps F) (a : Axis F) (v : F)
    (h : ops.floorDiv (ops.sub v a.start) a.size = .pinf ∨
         ∃ n, ops.floorDiv (ops.sub v a.start) a.size = .fin n ∧ (a.bins : Int) - 1 ≤ n) :
    getIndex ops a v = (a.bins : Int) - 1 := by
  unfold getIndex
  rcases h with h | ⟨n, h, hn⟩
  · rw [h]
  · rw [h]; simp only; rw [if_pos (by omega)]

/-- the repaired index on exact numbers, `size > 0`: clamp of `⌊(v-start)/size⌋ + 1` -/
theorem getIndex_exact (a : Axis Int) (v : Int) (hs : 0 < a.size) :
    getIndex exactOps a v =
      (if (v - a.start) / a.size ≥ (a.bins : Int) - 1 then (a.bins : Int) - 1
       else if (v - a.start) / a.size ≥ 0 then (v - a.start) / a.size + 1 else 0) := by
  unfold getIndex
  have : exactOps.floorDiv (exactOps.sub v a.start) a.size = .fin ((v - a.start) / a.size) := by
    simp only [exactOps, exactFloorDiv]
    rw [if_neg (by omega), Int.fdiv_eq_ediv_of_nonneg _ (by omega)]
  rw [this]

theorem quot_neg_iff (d s : Int) (hs : 0 < s) : d / s < 0 ↔ d < 0 := by
  have := @Int.ediv_lt_iff_lt_mul d 0 s hs
  simpa using this

theorem quot_eq_iff (d s k : Int) (hs : 0 < s) : d / s = k ↔ k * s ≤ d ∧ d < (k + 1) * s := by
  have h1 := @Int.le_ediv_iff_mul_le k d s hs
  have h2 := @Int.ediv_lt_iff_lt_mul d (k + 1) s hs
  constructor
  · intro h; exact ⟨h1.mp (by omega), h2.mp (by omega)⟩
  · intro ⟨ha, hb⟩; have := h1.mpr ha; have := h2.mpr hb; omega

theorem quot_ge_iff (d s k : Int) (hs : 0 < s) : k ≤ d / s ↔ k * s ≤ d :=
  Int.le_ediv_iff_mul_le hs

/-- underflow bin: index 0 iff `v < start` -/
theorem index_zero (start size : Int) (count : Nat) (hs : 0 < size) (v : Int) :
    getIndex exactOps ⟨start, size, count + 2⟩ v = 0 ↔ v < start := by
  rw [getIndex_exact _ _ hs]
  simp only
  have h := quot_neg_iff (v - start) size hs
  split
  · constructor
    · intro h'; omega
    · intro h'; have := h.mpr (by omega); omega
  · split
    · constructor
      · intro h'; omega
      · intro h'; have := h.mpr (by omega); omega
    · constructor
      · intro _; have := h.mp (by omega); omega
      · intro _; rfl

/-- inner bins: index `i ∈ 1..count` iff `start+(i-1)·size ≤ v < start+i·size` -/
theorem index_inner (start size : Int) (count : Nat) (hs : 0 < size) (v : Int) (i : Nat)
    (h1 : 1 ≤ i) (h2 : i ≤ count) :
    getIndex exactOps ⟨start, size, count + 2⟩ v = (i : Int) ↔
      start + ((i : Int) - 1) * size ≤ v ∧ v < start + (i : Int) * size := by
  rw [getIndex_exact _ _ hs]
  simp only
  have h := quot_eq_iff (v - start) size ((i : Int) - 1) hs
  have e : (i : Int) - 1 + 1 = (i : Int) := by omega
  rw [e] at h
  split
  · constructor
    · intro h'; omega
    · intro ⟨ha, hb⟩; have := h.mpr ⟨by omega, by omega⟩; omega
  · split
    · constructor
      · intro h'; have := h.mp (by omega); omega
      · intro ⟨ha, hb⟩; have := h.mpr ⟨by omega, by omega⟩; omega
    · constructor
      · intro h'; omega
      · intro ⟨ha, hb⟩; have := h.mpr ⟨by omega, by omega⟩; omega

/-- overflow bin: index `count+1` iff `start+count·size ≤ v` -/
theorem index_over (start size : Int) (count : Nat) (hs : 0 < size) (v : Int) :
    getIndex exactOps ⟨start, size, count + 2⟩ v = (count : Int) + 1 ↔ start + (count : Int) * size ≤ v := by
  rw [getIndex_exact _ _ hs]
  simp only
  have h := quot_ge_iff (v - start) size (count : Int) hs
  split
  · constructor
    · intro _; have := h.mp (by omega); omega
    · intro _; omega
  · split
    · constructor
      · intro h'; omega
      · intro h'; have := h.mpr (by omega); omega
    · constructor
      · intro h'; omega
      · intro h'; have := h.mpr (by omega); omega

/-! ## 2. list lemmas -/

theorem length_addAt {F} (add : F → F → F) : ∀ (l : List F) (i : Nat) (d : F),
    (addAt add l i d).length = l.length
  | [], _, _ => rfl
  | _ :: _, 0, _ => rfl
  | x :: xs, i+1, d => by simp [addAt, length_addAt add xs i d]

theorem sum_addAt : ∀ (l : List Int) (i : Nat) (d : Int), i < l.length →
    sum (addAt exactOps.add l i d) = sum l + d
  | [], i, d, h => by simp at h
  | x :: xs, 0, d, _ => by simp only [addAt, sum, exactOps]; omega
  | x :: xs, i+1, d, h => by
    simp only [addAt, sum]
    rw [sum_addAt xs i d (by simpa using h)]; omega

theorem getElem?_addAt : ∀ (l : List Int) (k : Nat) (d : Int) (i : Nat),
    (addAt exactOps.add l k d)[i]? = if i = k then l[i]?.map (· + d) else l[i]?
  | [], _, _, _ => by simp [addAt]
  | x :: xs, 0, d, 0 => by simp [addAt, exactOps]
  | x :: xs, 0, d, i+1 => by simp [addAt]
  | x :: xs, k+1, d, 0 => by simp [addAt]
  | x :: xs, k+1, d, i+1 => by
    simp only [addAt, List.getElem?_cons_succ, getElem?_addAt xs k d i]
    simp

theorem addLists_addAt : ∀ (x y : List Int) (i : Nat) (d : Int),
    addLists exactOps.add x (addAt exactOps.add y i d) = addAt exactOps.add (addLists exactOps.add x y) i d
  | [], _, _, _ => by simp [addLists, addAt]
  | _ :: _, [], _, _ => by simp [addLists, addAt]
  | a :: as, b :: bs, 0, d => by simp only [addAt, addLists, exactOps]; congr 1; omega
  | a :: as, b :: bs, i+1, d => by
    simp only [addAt, addLists]
    rw [addLists_addAt as bs i d]

theorem length_addLists {F} (add : F → F → F) : ∀ (x y : List F), x.length = y.length →
    (addLists add x y).length = x.length
  | [], [], _ => rfl
  | a :: as, b :: bs, h => by
    simp only [addLists, List.length_cons]
    rw [length_addLists add as bs (by simpa using h)]
  | [], _ :: _, h => by simp at h
  | _ :: _, [], h => by simp at h

theorem addLists_zeros : ∀ (x : List Int), addLists exactOps.add x (zeros exactOps x.length) = x
  | [] => rfl
  | a :: as => by
    simp only [zeros, List.length_cons, List.replicate_succ, addLists]
    have := addLists_zeros as
    simp only [zeros] at this
    rw [this]
    simp [exactOps]

theorem zeros_addLists : ∀ (x : List Int), addLists exactOps.add (zeros exactOps x.length) x = x
  | [] => rfl
  | a :: as => by
    simp only [zeros, List.length_cons, List.replicate_succ, addLists]
    have := zeros_addLists as
    simp only [zeros] at this
    rw [this]
    simp [exactOps]

theorem length_zeros {F} (ops : NumOps F) (n : Nat) : (zeros ops n).length = n := by simp [zeros]

theorem sum_zeros : ∀ n, sum (zeros exactOps n) = 0
  | 0 => rfl
  | n+1 => by
    simp only [zeros, List.replicate_succ, sum]
    have := sum_zeros n
    simp only [zeros] at this
    rw [this]; simp [exactOps]

/-! ## 3. one dimension -/

/-- the loop of `Binning` without the (never failing) bounds check -/
def foldP {F} (add : F → F → F) (idx : F → Nat) (bins : List F) (recs : List (F × F)) : List F :=
  recs.foldl (fun b r => addAt add b (idx r.1) r.2) bins

theorem length_foldP {F} (add : F → F → F) (idx : F → Nat) : ∀ (recs : List (F × F)) (bins : List F),
    (foldP add idx bins recs).length = bins.length
  | [], _ => rfl
  | r :: rs, bins => by
    simp only [foldP, List.foldl_cons]
    have := length_foldP add idx rs (addAt add bins (idx r.1) r.2)
    simp only [foldP] at this
    rw [this, length_addAt]

/-- an index function whose results are valid slice indices -/
def GiOK {F} (gi : Axis F → F → Int) : Prop :=
  ∀ (a : Axis F) (v : F), 1 ≤ a.bins → 0 ≤ gi a v ∧ gi a v < (a.bins : Int)

theorem giOK_getIndex {F} (ops : NumOps F) : GiOK (getIndex ops) := fun a v h => getIndex_range ops a v h
theorem giOK_getIndexPinned {F} (ops : NumOps F) : GiOK (getIndexPinned ops) :=
  fun a v h => getIndexPinned_range ops a v h

/-- the bounds check of `Add` never fails: the loop is `foldP` -/
theorem fold1_ok {F} (ops : NumOps F) (gi : Axis F → F → Int) (hgi : GiOK gi) (a : Axis F) (hb : 1 ≤ a.bins) :
    ∀ (recs : List (F × F)) (bins : List F), bins.length = a.bins →
      fold1 ops gi a bins recs = .ok (foldP ops.add (fun v => (gi a v).toNat) bins recs)
  | [], _, _ => rfl
  | r :: rs, bins, h => by
    have hr := hgi a r.1 hb
    simp only [fold1, add1]
    rw [if_pos ⟨hr.1, by rw [h]; exact hr.2⟩]
    simp only
    rw [fold1_ok ops gi hgi a hb rs _ (by rw [length_addAt]; exact h)]
    simp [foldP]

theorem toNat_count (count : Nat) : ((count : Int) + 2).toNat = count + 2 := by omega

/-- for `count ≥ 0` the method returns normally; its result in closed form -/
theorem binningWith_ok {F} (ops : NumOps F) (gi : Axis F → F → Int) (hgi : GiOK gi)
    (start size : F) (count : Nat) (recs : List (F × F)) :
    binningWith ops gi start size (count : Int) recs =
      .ok ⟨descrs ops ⟨start, size, count + 2⟩ (count + 2),
           foldP ops.add (fun v => (gi ⟨start, size, count + 2⟩ v).toNat) (zeros ops (count + 2)) recs⟩ := by
  unfold binningWith newBinning
  rw [if_neg (by omega), toNat_count]
  simp only
  rw [fold1_ok ops gi hgi _ (by simp) recs _ (by simp [zeros])]
  simp only [length_foldP, length_zeros]

/-- mass conservation for the loop, any start contents -/
theorem sum_foldP (idx : Int → Nat) (n : Nat) (hidx : ∀ v, idx v < n) :
    ∀ (recs : List (Int × Int)) (bins : List Int), bins.length = n →
      sum (foldP exactOps.add idx bins recs) = sum bins + sum (recs.map (·.2))
  | [], bins, _ => by simp [foldP, sum]
  | r :: rs, bins, h => by
    simp only [foldP, List.foldl_cons, List.map_cons, sum]
    have ih := sum_foldP idx n hidx rs (addAt exactOps.add bins (idx r.1) r.2) (by rw [length_addAt]; exact h)
    simp only [foldP] at ih
    rw [ih, sum_addAt _ _ _ (by rw [h]; exact hidx r.1)]
    omega

/-- the loop started on `x + y` is `x +` the loop started on `y` (no side condition) -/
theorem foldP_addLists (idx : Int → Nat) : ∀ (recs : List (Int × Int)) (x y : List Int),
    foldP exactOps.add idx (addLists exactOps.add x y) recs = addLists exactOps.add x (foldP exactOps.add idx y recs)
  | [], _, _ => rfl
  | r :: rs, x, y => by
    simp only [foldP, List.foldl_cons]
    rw [← addLists_addAt]
    exact foldP_addLists idx rs x _

theorem foldP_append {F} (add : F → F → F) (idx : F → Nat) (bins : List F) (l1 l2 : List (F × F)) :
    foldP add idx bins (l1 ++ l2) = foldP add idx (foldP add idx bins l1) l2 := by
  simp [foldP, List.foldl_append]

/-- continuing on `acc` = adding the binning from zero to `acc` -/
theorem foldP_from (idx : Int → Nat) (recs : List (Int × Int)) (acc : List Int) :
    foldP exactOps.add idx acc recs =
      addLists exactOps.add acc (foldP exactOps.add idx (zeros exactOps acc.length) recs) := by
  rw [← foldP_addLists, addLists_zeros]

/-- `collectBinning1d` over the binnings of the parts, continued from `acc` -/
theorem collectVals_parts (idx : Int → Nat) (n : Nat) : ∀ (parts : List (List (Int × Int))) (acc : List Int),
    acc.length = n →
    collectVals exactOps acc (parts.map (foldP exactOps.add idx (zeros exactOps n))) =
      .ok (foldP exactOps.add idx acc parts.flatten)
  | [], acc, _ => by simp [collectVals, foldP]
  | p :: ps, acc, h => by
    simp only [List.map_cons, collectVals, List.flatten_cons]
    rw [if_neg (by simp [length_foldP, length_zeros, h])]
    rw [collectVals_parts idx n ps _ (by
      rw [length_addLists _ _ _ (by simp [length_foldP, length_zeros, h])]; exact h)]
    rw [foldP_append, foldP_from idx p acc, h]

theorem binTotal_cons (idx : Int → Nat) (r : Int × Int) (rs : List (Int × Int)) (i : Nat) :
    binTotal idx (r :: rs) i = (if idx r.1 = i then r.2 else 0) + binTotal idx rs i := by
  unfold binTotal
  by_cases h : idx r.1 = i
  · simp [h, sum]
  · simp [h]

theorem getElem?_foldP (idx : Int → Nat) (i : Nat) : ∀ (recs : List (Int × Int)) (bins : List Int),
    (foldP exactOps.add idx bins recs)[i]? = bins[i]?.map (· + binTotal idx recs i)
  | [], bins => by simp [foldP, binTotal, sum]
  | r :: rs, bins => by
    have ih := getElem?_foldP idx i rs (addAt exactOps.add bins (idx r.1) r.2)
    simp only [foldP, List.foldl_cons] at ih ⊢
    rw [ih, getElem?_addAt, binTotal_cons]
    by_cases h : i = idx r.1
    · rw [if_pos h, if_pos h.symm]
      cases bins[i]? with
      | none => rfl
      | some b => simp only [Option.map_some]; congr 1; omega
    · rw [if_neg h, if_neg (fun e => h e.symm)]
      simp

/-- the loop from zero computes the histogram -/
theorem foldP_zeros_eq (idx : Int → Nat) (n : Nat) (recs : List (Int × Int)) :
    foldP exactOps.add idx (zeros exactOps n) recs = (List.range n).map (binTotal idx recs) := by
  apply List.ext_getElem?
  intro i
  rw [getElem?_foldP]
  simp only [zeros, List.getElem?_map]
  by_cases h : i < n
  · simp [h, exactOps]
  · simp [h]

/-! ## 4. two dimensions -/

/-- all rows present and of the same length -/
def Shape {F} (nx ny : Nat) (l : List (List F)) : Prop := l.length = nx ∧ ∀ r ∈ l, r.length = ny

/-- the loop of `Binning2d` without the bounds checks -/
def foldP2 {F} (add : F → F → F) (ix iy : F → Nat) (bins : List (List F)) (recs : List (F × F × F)) :
    List (List F) :=
  recs.foldl (fun b r => addAt2 add b (ix r.1) (iy r.2.1) r.2.2) bins

/-- pointwise sum of two tables (what `collectBinning2d` computes once the lengths are checked) -/
def addLists2 {F} (add : F → F → F) : List (List F) → List (List F) → List (List F)
  | a :: as, b :: bs => addLists add a b :: addLists2 add as bs
  | _, _ => []

theorem shape_zeros2 {F} (ops : NumOps F) (nx ny : Nat) : Shape nx ny (zeros2 ops nx ny) := by
  constructor
  · simp [zeros2]
  · intro r hr
    simp only [zeros2, List.mem_replicate] at hr
    rw [hr.2]; exact length_zeros ops ny

theorem shape_cons {F} {nx ny : Nat} {r : List F} {rs : List (List F)} :
    Shape (nx + 1) ny (r :: rs) ↔ r.length = ny ∧ Shape nx ny rs := by
  unfold Shape
  constructor
  · intro ⟨h1, h2⟩
    exact ⟨h2 r (by simp), by simpa using h1, fun x hx => h2 x (by simp [hx])⟩
  · intro ⟨h1, h2, h3⟩
    refine ⟨by simp [h2], ?_⟩
    intro x hx
    rcases List.mem_cons.mp hx with e | e
    · rw [e]; exact h1
    · exact h3 x e

theorem shape_nil {F} {nx ny : Nat} : Shape nx ny ([] : List (List F)) ↔ nx = 0 := by
  unfold Shape; simp; omega

theorem shape_addAt2 {F} (add : F → F → F) (ny : Nat) : ∀ (nx : Nat) (l : List (List F)) (i j : Nat) (d : F),
    Shape nx ny l → Shape nx ny (addAt2 add l i j d)
  | _, [], _, _, _, h => h
  | 0, _ :: _, _, _, _, h => by simp [Shape] at h
  | nx+1, r :: rs, 0, j, d, h => by
    simp only [addAt2]
    rw [shape_cons] at h ⊢
    exact ⟨by rw [length_addAt]; exact h.1, h.2⟩
  | nx+1, r :: rs, i+1, j, d, h => by
    simp only [addAt2]
    rw [shape_cons] at h ⊢
    exact ⟨h.1, shape_addAt2 add ny nx rs i j d h.2⟩

theorem shape_foldP2 {F} (add : F → F → F) (ix iy : F → Nat) (nx ny : Nat) :
    ∀ (recs : List (F × F × F)) (bins : List (List F)), Shape nx ny bins → Shape nx ny (foldP2 add ix iy bins recs)
  | [], _, h => h
  | r :: rs, bins, h => by
    simp only [foldP2, List.foldl_cons]
    exact shape_foldP2 add ix iy nx ny rs _ (shape_addAt2 add ny nx bins _ _ _ h)

theorem shape_getElem? {F} {nx ny : Nat} {l : List (List F)} (h : Shape nx ny l) (i : Nat) (hi : i < nx) :
    ∃ row, l[i]? = some row ∧ row.length = ny := by
  have hl : i < l.length := by rw [h.1]; exact hi
  exact ⟨l[i], by simp [hl], h.2 _ (List.getElem_mem hl)⟩

theorem rowLen_shape {F} {nx ny : Nat} {l : List (List F)} (h : Shape nx ny l) (hx : 1 ≤ nx) :
    rowLen l = .ok ny := by
  cases l with
  | nil => have := shape_nil.mp h; omega
  | cons r rs =>
    simp only [rowLen]
    rw [h.2 r (by simp)]

/-- neither bounds check of `Binning2dData.Add` ever fails: the loop is `foldP2` -/
theorem fold2_ok {F} (ops : NumOps F) (gi : Axis F → F → Int) (hgi : GiOK gi) (ax ay : Axis F)
    (hx : 1 ≤ ax.bins) (hy : 1 ≤ ay.bins) :
    ∀ (recs : List (F × F × F)) (bins : List (List F)), Shape ax.bins ay.bins bins →
      fold2 ops gi ax ay bins recs =
        .ok (foldP2 ops.add (fun v => (gi ax v).toNat) (fun v => (gi ay v).toNat) bins recs)
  | [], _, _ => rfl
  | r :: rs, bins, h => by
    have hrx := hgi ax r.1 hx
    have hry := hgi ay r.2.1 hy
    simp only [fold2, add2]
    rw [if_pos ⟨hrx.1, by rw [h.1]; exact hrx.2⟩]
    obtain ⟨row, hrow, hlen⟩ := shape_getElem? h (gi ax r.1).toNat (by omega)
    rw [hrow]
    simp only
    rw [if_pos ⟨hry.1, by rw [hlen]; exact hry.2⟩]
    simp only
    rw [fold2_ok ops gi hgi ax ay hx hy rs _ (shape_addAt2 _ _ _ _ _ _ _ h)]
    simp [foldP2]

theorem sum2_addAt2 (ny : Nat) : ∀ (nx : Nat) (l : List (List Int)) (i j : Nat) (d : Int),
    Shape nx ny l → i < nx → j < ny → sum2 (addAt2 exactOps.add l i j d) = sum2 l + d
  | _, [], _, _, _, h, hi, _ => by have := shape_nil.mp h; omega
  | 0, _ :: _, _, _, _, _, hi, _ => by omega
  | nx+1, r :: rs, 0, j, d, h, _, hj => by
    rw [shape_cons] at h
    simp only [addAt2, sum2]
    rw [sum_addAt r j d (by rw [h.1]; exact hj)]; omega
  | nx+1, r :: rs, i+1, j, d, h, hi, hj => by
    rw [shape_cons] at h
    simp only [addAt2, sum2]
    rw [sum2_addAt2 ny nx rs i j d h.2 (by omega) hj]; omega

theorem sum2_zeros2 (ny : Nat) : ∀ nx, sum2 (zeros2 exactOps nx ny) = 0
  | 0 => rfl
  | nx+1 => by
    simp only [zeros2, List.replicate_succ, sum2]
    have := sum2_zeros2 ny nx
    simp only [zeros2] at this
    rw [this, sum_zeros]; rfl

/-- mass conservation for the 2-d loop, any start contents -/
theorem sum2_foldP2 (ix iy : Int → Nat) (nx ny : Nat) (hix : ∀ v, ix v < nx) (hiy : ∀ v, iy v < ny) :
    ∀ (recs : List (Int × Int × Int)) (bins : List (List Int)), Shape nx ny bins →
      sum2 (foldP2 exactOps.add ix iy bins recs) = sum2 bins + sum (recs.map (·.2.2))
  | [], bins, _ => by simp [foldP2, sum]
  | r :: rs, bins, h => by
    simp only [foldP2, List.foldl_cons, List.map_cons, sum]
    have ih := sum2_foldP2 ix iy nx ny hix hiy rs _ (shape_addAt2 exactOps.add ny nx bins (ix r.1) (iy r.2.1) r.2.2 h)
    simp only [foldP2] at ih
    rw [ih, sum2_addAt2 ny nx _ _ _ _ h (hix _) (hiy _)]
    omega

theorem addLists2_addAt2 : ∀ (x y : List (List Int)) (i j : Nat) (d : Int),
    addLists2 exactOps.add x (addAt2 exactOps.add y i j d) =
      addAt2 exactOps.add (addLists2 exactOps.add x y) i j d
  | [], _, _, _, _ => by simp [addLists2, addAt2]
  | _ :: _, [], _, _, _ => by simp [addLists2, addAt2]
  | a :: as, b :: bs, 0, j, d => by simp only [addAt2, addLists2]; rw [addLists_addAt]
  | a :: as, b :: bs, i+1, j, d => by
    simp only [addAt2, addLists2]
    rw [addLists2_addAt2 as bs i j d]

theorem addLists2_zeros2 (ny : Nat) : ∀ (nx : Nat) (x : List (List Int)), Shape nx ny x →
    addLists2 exactOps.add x (zeros2 exactOps nx ny) = x
  | _, [], _ => by simp [addLists2]
  | 0, _ :: _, h => by simp [Shape] at h
  | nx+1, r :: rs, h => by
    rw [shape_cons] at h
    simp only [zeros2, List.replicate_succ, addLists2]
    have := addLists2_zeros2 ny nx rs h.2
    simp only [zeros2] at this
    rw [this]
    have hz := addLists_zeros r
    rw [h.1] at hz
    rw [hz]

theorem shape_addLists2 {F} (add : F → F → F) (ny : Nat) : ∀ (nx : Nat) (x y : List (List F)),
    Shape nx ny x → Shape nx ny y → Shape nx ny (addLists2 add x y)
  | _, [], _, hx, _ => by simpa [addLists2] using hx
  | _, _ :: _, [], hx, hy => by
    have := hx.1; have := hy.1; simp at *; omega
  | 0, _ :: _, _ :: _, hx, _ => by simp [Shape] at hx
  | nx+1, a :: as, b :: bs, hx, hy => by
    rw [shape_cons] at hx hy
    simp only [addLists2]
    rw [shape_cons]
    exact ⟨by rw [length_addLists _ _ _ (by omega)]; exact hx.1, shape_addLists2 add ny nx as bs hx.2 hy.2⟩

theorem foldP2_addLists2 (ix iy : Int → Nat) : ∀ (recs : List (Int × Int × Int)) (x y : List (List Int)),
    foldP2 exactOps.add ix iy (addLists2 exactOps.add x y) recs =
      addLists2 exactOps.add x (foldP2 exactOps.add ix iy y recs)
  | [], _, _ => rfl
  | r :: rs, x, y => by
    simp only [foldP2, List.foldl_cons]
    rw [← addLists2_addAt2]
    exact foldP2_addLists2 ix iy rs x _

theorem foldP2_append {F} (add : F → F → F) (ix iy : F → Nat) (bins : List (List F)) (l1 l2 : List (F × F × F)) :
    foldP2 add ix iy bins (l1 ++ l2) = foldP2 add ix iy (foldP2 add ix iy bins l1) l2 := by
  simp [foldP2, List.foldl_append]

theorem foldP2_from (ix iy : Int → Nat) (nx ny : Nat) (recs : List (Int × Int × Int)) (acc : List (List Int))
    (h : Shape nx ny acc) :
    foldP2 exactOps.add ix iy acc recs =
      addLists2 exactOps.add acc (foldP2 exactOps.add ix iy (zeros2 exactOps nx ny) recs) := by
  rw [← foldP2_addLists2, addLists2_zeros2 ny nx acc h]

/-- the row loop of `collectBinning2d.add` never reports a mismatch on equally shaped tables -/
theorem addRows_ok (ny : Nat) : ∀ (nx : Nat) (a b : List (List Int)), Shape nx ny a → Shape nx ny b →
    addRows exactOps a b = .ok (addLists2 exactOps.add a b)
  | _, [], [], _, _ => rfl
  | _, [], _ :: _, ha, hb => by have := ha.1; have := hb.1; simp at *; omega
  | _, _ :: _, [], ha, hb => by have := ha.1; have := hb.1; simp at *; omega
  | 0, _ :: _, _ :: _, ha, _ => by simp [Shape] at ha
  | nx+1, a :: as, b :: bs, ha, hb => by
    rw [shape_cons] at ha hb
    simp only [addRows, addLists2]
    rw [if_neg (by omega), addRows_ok ny nx as bs ha.2 hb.2]

/-- `collectBinning2d` over the 2-d binnings of the parts, continued from `acc` -/
theorem collectRows_parts (ix iy : Int → Nat) (nx ny : Nat) :
    ∀ (parts : List (List (Int × Int × Int))) (acc : List (List Int)), Shape nx ny acc →
    collectRows exactOps acc (parts.map (foldP2 exactOps.add ix iy (zeros2 exactOps nx ny))) =
      .ok (foldP2 exactOps.add ix iy acc parts.flatten)
  | [], acc, _ => by simp [collectRows, foldP2]
  | p :: ps, acc, h => by
    have hp : Shape nx ny (foldP2 exactOps.add ix iy (zeros2 exactOps nx ny) p) :=
      shape_foldP2 _ _ _ _ _ _ _ (shape_zeros2 _ _ _)
    simp only [List.map_cons, collectRows, List.flatten_cons]
    rw [if_neg (by rw [h.1, hp.1]; simp), addRows_ok ny nx _ _ h hp]
    simp only
    rw [collectRows_parts ix iy nx ny ps _ (shape_addLists2 _ _ _ _ _ h hp)]
    rw [foldP2_append, foldP2_from ix iy nx ny p acc h]

theorem getElem?_addAt2 {F} (add : F → F → F) : ∀ (l : List (List F)) (k m : Nat) (d : F) (i : Nat),
    (addAt2 add l k m d)[i]? = if i = k then l[i]?.map (fun row => addAt add row m d) else l[i]?
  | [], _, _, _, _ => by simp [addAt2]
  | x :: xs, 0, m, d, 0 => by simp [addAt2]
  | x :: xs, 0, m, d, i+1 => by simp [addAt2]
  | x :: xs, k+1, m, d, 0 => by simp [addAt2]
  | x :: xs, k+1, m, d, i+1 => by
    simp only [addAt2, List.getElem?_cons_succ, getElem?_addAt2 add xs k m d i]
    simp

/-- the records that fall into x-bin `i`, reduced to `(y, value)` -/
def rowRecs {F} (ix : F → Nat) (i : Nat) (recs : List (F × F × F)) : List (F × F) :=
  (recs.filter (fun r => ix r.1 = i)).map (·.2)

/-- row `i` of the 2-d loop is the 1-d loop over the records whose x index is `i` -/
theorem getElem?_foldP2 {F} (add : F → F → F) (ix iy : F → Nat) (i : Nat) :
    ∀ (recs : List (F × F × F)) (bins : List (List F)),
      (foldP2 add ix iy bins recs)[i]? = bins[i]?.map (fun row => foldP add iy row (rowRecs ix i recs))
  | [], bins => by simp [foldP2, foldP, rowRecs]
  | r :: rs, bins => by
    have ih := getElem?_foldP2 add ix iy i rs (addAt2 add bins (ix r.1) (iy r.2.1) r.2.2)
    simp only [foldP2, List.foldl_cons] at ih ⊢
    rw [ih, getElem?_addAt2]
    by_cases h : i = ix r.1
    · rw [if_pos h]
      have : rowRecs ix i (r :: rs) = r.2 :: rowRecs ix i rs := by
        simp [rowRecs, h.symm]
      rw [this]
      cases bins[i]? with
      | none => rfl
      | some b => simp [foldP]
    · rw [if_neg h]
      have hne : ¬ ix r.1 = i := fun e => h e.symm
      have : rowRecs ix i (r :: rs) = rowRecs ix i rs := by
        simp [rowRecs, hne]
      rw [this]

/-- the 2-d loop from zero computes the 2-d histogram -/
theorem foldP2_zeros_eq (ix iy : Int → Nat) (nx ny : Nat) (recs : List (Int × Int × Int)) :
    foldP2 exactOps.add ix iy (zeros2 exactOps nx ny) recs =
      (List.range nx).map (fun i => (List.range ny).map (binTotal iy (rowRecs ix i recs))) := by
  apply List.ext_getElem?
  intro i
  rw [getElem?_foldP2]
  simp only [zeros2, List.getElem?_map]
  by_cases h : i < nx
  · simp [h, foldP_zeros_eq]
  · simp [h]

theorem toNat_len {F} (l : List F) : ((l.length : Int)).toNat = l.length := by omega

/-- for counts `≥ 0` the 2-d method returns normally; its result in closed form -/
theorem binning2dWith_ok {F} (ops : NumOps F) (gi : Axis F → F → Int) (hgi : GiOK gi)
    (xs xz : F) (xc : Nat) (ys yz : F) (yc : Nat) (recs : List (F × F × F)) :
    binning2dWith ops gi xs xz (xc : Int) ys yz (yc : Int) recs =
      .ok ⟨descrs ops ⟨ys, yz, yc + 2⟩ (yc + 2),
           rowsOf ops ⟨xs, xz, xc + 2⟩ 0
             (foldP2 ops.add (fun v => (gi ⟨xs, xz, xc + 2⟩ v).toNat) (fun v => (gi ⟨ys, yz, yc + 2⟩ v).toNat)
               (zeros2 ops (xc + 2) (yc + 2)) recs)⟩ := by
  unfold binning2dWith new2d
  rw [if_neg (by omega), if_neg (by omega), toNat_count, toNat_count]
  simp only
  have hz := shape_zeros2 ops (xc + 2) (yc + 2)
  rw [rowLen_shape hz (by omega)]
  simp only
  rw [hz.1]
  rw [fold2_ok ops gi hgi ⟨xs, xz, xc + 2⟩ ⟨ys, yz, yc + 2⟩ (by simp) (by simp) recs _ hz]
  simp only
  rw [rowLen_shape (shape_foldP2 _ _ _ _ _ _ _ hz) (by omega)]

/-! ## 5. descriptions -/

theorem descr_first (start size : Int) (count : Nat) :
    getDescr exactOps ⟨start, size, count + 2⟩ 0 = ⟨none, some start⟩ := by
  simp [getDescr, exactOps]

theorem descr_last (start size : Int) (count : Nat) :
    getDescr exactOps ⟨start, size, count + 2⟩ (count + 1) = ⟨some (start + (count : Int) * size), none⟩ := by
  unfold getDescr
  simp only [exactOps]
  rw [if_neg (by omega), if_pos (by simp; omega)]
  congr 2
  have : (((count + 1 : Nat) : Int)) * size = (count : Int) * size + size := by
    rw [Int.natCast_add, Int.add_mul]; simp
  omega

theorem descr_inner (start size : Int) (count i : Nat) (h1 : 1 ≤ i) (h2 : i ≤ count) :
    getDescr exactOps ⟨start, size, count + 2⟩ i =
      ⟨some (start + ((i : Int) - 1) * size), some (start + (i : Int) * size)⟩ := by
  unfold getDescr
  simp only [exactOps]
  rw [if_neg (by omega), if_neg (by simp; omega)]
  congr 2
  have : ((i : Int) - 1) * size = (i : Int) * size - size := by
    rw [Int.sub_mul]; simp
  omega

/-- an element gets index `i` iff it lies in the interval that description `i` names -/
theorem index_iff_contains (start size : Int) (count : Nat) (hs : 0 < size) (v : Int) (i : Nat)
    (hi : i < count + 2) :
    getIndex exactOps ⟨start, size, count + 2⟩ v = (i : Int) ↔
      (getDescr exactOps ⟨start, size, count + 2⟩ i).contains v = true := by
  by_cases h0 : i = 0
  · subst h0
    rw [descr_first]
    have := index_zero start size count hs v
    simp only [Bin.contains, Bool.true_and, decide_eq_true_eq]
    simpa using this
  · by_cases hl : i = count + 1
    · subst hl
      rw [descr_last]
      have := index_over start size count hs v
      simp only [Bin.contains, Bool.and_true, decide_eq_true_eq]
      rw [← this]
      simp
    · rw [descr_inner start size count i (by omega) (by omega)]
      have := index_inner start size count hs v i (by omega) (by omega)
      simp only [Bin.contains, Bool.and_eq_true, decide_eq_true_eq]
      exact this

theorem toNat_eq_iff (x : Int) (i : Nat) (h : 0 ≤ x) : x.toNat = i ↔ x = (i : Int) := by omega

/-- per-bin totals selected by index = per-bin totals selected by the description's interval -/
theorem binTotal_by_descr (start size : Int) (count : Nat) (hs : 0 < size) (recs : List (Int × Int))
    (i : Nat) (hi : i < count + 2) :
    binTotal (fun v => (getIndex exactOps ⟨start, size, count + 2⟩ v).toNat) recs i =
      sum ((recs.filter (fun r => (getDescr exactOps ⟨start, size, count + 2⟩ i).contains r.1)).map (·.2)) := by
  unfold binTotal
  congr 2
  apply List.filter_congr
  intro r _
  have hr := getIndex_range exactOps ⟨start, size, count + 2⟩ r.1 (by simp)
  have := index_iff_contains start size count hs r.1 i hi
  rw [← toNat_eq_iff _ _ hr.1] at this
  by_cases hc : (getDescr exactOps ⟨start, size, count + 2⟩ i).contains r.1 = true
  · rw [hc]; simpa using this.mpr hc
  · have hne : ¬ (getIndex exactOps ⟨start, size, count + 2⟩ r.1).toNat = i := fun e => hc (this.mp e)
    simp [hc, hne]

/-! ## 6. results in closed form, collectors over parts -/

theorem mapRes_ok {α β} (f : α → Res β) (g : α → β) (h : ∀ a, f a = .ok (g a)) :
    ∀ l : List α, mapRes f l = .ok (l.map g)
  | [] => rfl
  | x :: xs => by simp only [mapRes, h x, mapRes_ok f g h xs, List.map_cons]

theorem rowsOf_range' {F} (ops : NumOps F) (ax : Axis F) (g : Nat → List F) : ∀ (n k : Nat),
    rowsOf ops ax k ((List.range' k n).map g) = (List.range' k n).map (fun i => ⟨getDescr ops ax i, g i⟩)
  | 0, _ => rfl
  | n+1, k => by
    simp only [List.range'_succ, List.map_cons, rowsOf]
    rw [rowsOf_range' ops ax g n (k + 1)]

theorem rowsOf_range {F} (ops : NumOps F) (ax : Axis F) (g : Nat → List F) (n : Nat) :
    rowsOf ops ax 0 ((List.range n).map g) = (List.range n).map (fun i => ⟨getDescr ops ax i, g i⟩) := by
  rw [List.range_eq_range']
  exact rowsOf_range' ops ax g n 0

theorem map_row_rowsOf {F} (ops : NumOps F) (ax : Axis F) : ∀ (k : Nat) (l : List (List F)),
    (rowsOf ops ax k l).map (·.row) = l
  | _, [] => rfl
  | k, r :: rs => by simp only [rowsOf, List.map_cons, map_row_rowsOf ops ax (k + 1) rs]

theorem zipRows_rowsOf {F} (ops : NumOps F) (ax : Axis F) : ∀ (k : Nat) (l m : List (List F)),
    l.length = m.length → zipRows (rowsOf ops ax k l) m = rowsOf ops ax k m
  | _, [], [], _ => rfl
  | k, a :: as, b :: bs, h => by
    simp only [rowsOf, zipRows]
    rw [zipRows_rowsOf ops ax (k + 1) as bs (by simpa using h)]
  | _, [], _ :: _, h => by simp at h
  | _, _ :: _, [], h => by simp at h

theorem map_zeros_shape (ny : Nat) : ∀ (nx : Nat) (l : List (List Int)), Shape nx ny l →
    l.map (fun row => zeros exactOps row.length) = zeros2 exactOps nx ny
  | _, [], h => by rw [shape_nil.mp h]; rfl
  | 0, _ :: _, h => by simp [Shape] at h
  | nx+1, r :: rs, h => by
    rw [shape_cons] at h
    simp only [List.map_cons, zeros2, List.replicate_succ]
    rw [h.1]
    have := map_zeros_shape ny nx rs h.2
    simp only [zeros2] at this
    rw [this]

/-- cell `(i, j)` selected through the two indices = selected by one filter over the records -/
theorem cell_total (ix iy : Int → Nat) (recs : List (Int × Int × Int)) (i j : Nat) :
    binTotal iy (rowRecs ix i recs) j =
      sum ((recs.filter (fun r => decide (ix r.1 = i) && decide (iy r.2.1 = j))).map (·.2.2)) := by
  unfold binTotal rowRecs
  rw [List.filter_map, List.filter_filter, List.map_map]
  congr 1
  congr 1
  apply List.filter_congr
  intro r _
  simp [Bool.and_comm]

end P2.Binning
