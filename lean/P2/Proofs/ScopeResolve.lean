import P2.Proofs.ScopeBasic
/-! # `resolve` keeps the skeleton of the chain (C16)

Parsing a subtree pushes layers, looks names up and pops the layers again: the chain that comes back
has the same layers, only accumulator contents differ. -/
namespace P2.Scope
open P2.Lang

mutual
theorem resolve_skel (fx : Bool) :
    ∀ (t : Raw) (s : Scope) (p : AST × Scope), resolve fx s t = some p → skel p.2 = skel s
  | .const c, s, p, h => by
    simp only [resolve, Option.some.injEq] at h; subst h; rfl
  | .ident x, s, p, h => by
    simp only [resolve] at h
    split at h
    · simp only [Option.some.injEq] at h; subst h; exact skel_mark ..
    · simp at h
  | .letE x v i, s, p, h => by
    simp only [resolve, Option.bind_eq_bind, Option.bind_eq_some_iff, Option.pure_def] at h
    obtain ⟨p1, h1, h2⟩ := h
    have e1 := resolve_skel fx v s p1 h1
    split at h2
    · simp only [Option.bind_eq_some_iff, Option.some.injEq] at h2
      obtain ⟨p2, h3, h4⟩ := h2
      have e2 := resolve_skel fx i _ p2 h3
      subst h4
      simp only [skel_tail e2, e1]
    · simp only [Option.bind_eq_some_iff, Option.some.injEq] at h2
      obtain ⟨p2, h3, h4⟩ := h2
      have e2 := resolve_skel fx i _ p2 h3
      subst h4
      simp only [skel_tail e2, e1]
  | .func name ps body rest, s, p, h => by
    simp only [resolve, Option.bind_eq_bind, Option.pure_def] at h
    split at h
    · simp at h
    · simp only [Option.bind_eq_some_iff, Option.some.injEq] at h
      obtain ⟨p1, h1, p2, h2, h3⟩ := h
      have e1 := resolve_skel fx body _ p1 h1
      have e2 := resolve_skel fx rest _ p2 h2
      subst h3
      have e3 : skel p1.2.tail.tail = skel s := skel_tail (skel_tail e1)
      simp only [skel_tail e2, e3]
  | .clos ps body, s, p, h => by
    simp only [resolve, Option.bind_eq_bind, Option.pure_def] at h
    split at h
    · simp at h
    · simp only [Option.bind_eq_some_iff, Option.some.injEq] at h
      obtain ⟨p1, h1, h3⟩ := h
      have e1 := resolve_skel fx body _ p1 h1
      subst h3
      exact skel_tail e1
  | .ifE c t e, s, p, h => by
    simp only [resolve, Option.bind_eq_bind, Option.bind_eq_some_iff, Option.pure_def, Option.some.injEq] at h
    obtain ⟨p1, h1, p2, h2, p3, h3, h4⟩ := h
    subst h4
    simp only [resolve_skel fx e _ p3 h3, resolve_skel fx t _ p2 h2, resolve_skel fx c _ p1 h1]
  | .switchE v cases dflt, s, p, h => by
    simp only [resolve, Option.bind_eq_bind, Option.bind_eq_some_iff, Option.pure_def, Option.some.injEq] at h
    obtain ⟨p1, h1, p2, h2, p3, h3, h4⟩ := h
    subst h4
    simp only [resolve_skel fx dflt _ p3 h3, resolveCases_skel fx cases _ p2 h2, resolve_skel fx v _ p1 h1]
  | .tryE t c, s, p, h => by
    simp only [resolve, Option.bind_eq_bind, Option.bind_eq_some_iff, Option.pure_def, Option.some.injEq] at h
    obtain ⟨p1, h1, p2, h2, h4⟩ := h
    subst h4
    simp only [resolve_skel fx c _ p2 h2, resolve_skel fx t _ p1 h1]
  | .unary op a, s, p, h => by
    simp only [resolve, Option.bind_eq_bind, Option.bind_eq_some_iff, Option.pure_def, Option.some.injEq] at h
    obtain ⟨p1, h1, h4⟩ := h
    subst h4
    simp only [resolve_skel fx a _ p1 h1]
  | .binop op a b, s, p, h => by
    simp only [resolve, Option.bind_eq_bind, Option.bind_eq_some_iff, Option.pure_def, Option.some.injEq] at h
    obtain ⟨p1, h1, p2, h2, h4⟩ := h
    subst h4
    simp only [resolve_skel fx b _ p2 h2, resolve_skel fx a _ p1 h1]
  | .listLit items, s, p, h => by
    simp only [resolve, Option.bind_eq_bind, Option.bind_eq_some_iff, Option.pure_def, Option.some.injEq] at h
    obtain ⟨p1, h1, h4⟩ := h
    subst h4
    simp only [resolveList_skel fx items _ p1 h1]
  | .index idx lst, s, p, h => by
    simp only [resolve, Option.bind_eq_bind, Option.bind_eq_some_iff, Option.pure_def, Option.some.injEq] at h
    obtain ⟨p1, h1, p2, h2, h4⟩ := h
    subst h4
    simp only [resolve_skel fx idx _ p2 h2, resolve_skel fx lst _ p1 h1]
  | .mapLit kvs, s, p, h => by
    simp only [resolve, Option.bind_eq_bind, Option.bind_eq_some_iff, Option.pure_def, Option.some.injEq] at h
    obtain ⟨p1, h1, h4⟩ := h
    subst h4
    simp only [resolveKVs_skel fx kvs _ p1 h1]
  | .member m key, s, p, h => by
    simp only [resolve, Option.bind_eq_bind, Option.bind_eq_some_iff, Option.pure_def, Option.some.injEq] at h
    obtain ⟨p1, h1, h4⟩ := h
    subst h4
    simp only [resolve_skel fx m _ p1 h1]
  | .call f args, s, p, h => by
    simp only [resolve, Option.bind_eq_bind, Option.bind_eq_some_iff, Option.pure_def, Option.some.injEq] at h
    obtain ⟨p1, h1, p2, h2, h4⟩ := h
    subst h4
    simp only [resolveList_skel fx args _ p2 h2, resolve_skel fx f _ p1 h1]
  | .method recv name args, s, p, h => by
    simp only [resolve, Option.bind_eq_bind, Option.bind_eq_some_iff, Option.pure_def, Option.some.injEq] at h
    obtain ⟨p1, h1, p2, h2, h4⟩ := h
    subst h4
    simp only [resolveList_skel fx args _ p2 h2, resolve_skel fx recv _ p1 h1]
theorem resolveList_skel (fx : Bool) :
    ∀ (ts : List Raw) (s : Scope) (p : List AST × Scope), resolveList fx s ts = some p → skel p.2 = skel s
  | [], s, p, h => by
    simp only [resolveList, Option.some.injEq] at h; subst h; rfl
  | a :: as, s, p, h => by
    simp only [resolveList, Option.bind_eq_bind, Option.bind_eq_some_iff, Option.pure_def, Option.some.injEq] at h
    obtain ⟨p1, h1, p2, h2, h4⟩ := h
    subst h4
    simp only [resolveList_skel fx as _ p2 h2, resolve_skel fx a _ p1 h1]
theorem resolveKVs_skel (fx : Bool) :
    ∀ (ts : List (String × Raw)) (s : Scope) (p : List (String × AST) × Scope),
      resolveKVs fx s ts = some p → skel p.2 = skel s
  | [], s, p, h => by
    simp only [resolveKVs, Option.some.injEq] at h; subst h; rfl
  | (k, a) :: as, s, p, h => by
    simp only [resolveKVs, Option.bind_eq_bind, Option.bind_eq_some_iff, Option.pure_def, Option.some.injEq] at h
    obtain ⟨p1, h1, p2, h2, h4⟩ := h
    subst h4
    simp only [resolveKVs_skel fx as _ p2 h2, resolve_skel fx a _ p1 h1]
theorem resolveCases_skel (fx : Bool) :
    ∀ (ts : List (Raw × Raw)) (s : Scope) (p : List (AST × AST) × Scope),
      resolveCases fx s ts = some p → skel p.2 = skel s
  | [], s, p, h => by
    simp only [resolveCases, Option.some.injEq] at h; subst h; rfl
  | (c, r) :: rest, s, p, h => by
    simp only [resolveCases, Option.bind_eq_bind, Option.bind_eq_some_iff, Option.pure_def, Option.some.injEq] at h
    obtain ⟨p1, h1, p2, h2, p3, h3, h4⟩ := h
    subst h4
    simp only [resolveCases_skel fx rest _ p3 h3, resolve_skel fx r _ p2 h2, resolve_skel fx c _ p1 h1]
end


/-! ### which trees the parser turns into a `*Const` -/

theorem constVal_congr : ∀ (w : Raw) {e e' : Scope}, skel e = skel e' → constVal e w = constVal e' w
  | .const _, _, _, _ => rfl
  | .ident y, e, e', h => by simp only [constVal, find_congr h]
  | .letE x v i, e, e', h => by
    simp only [constVal, constVal_congr v h]
    split
    · exact constVal_congr i (by simp [h])
    · rfl
  | .func .., _, _, _ => rfl
  | .clos .., _, _, _ => rfl
  | .ifE .., _, _, _ => rfl
  | .switchE .., _, _, _ => rfl
  | .tryE .., _, _, _ => rfl
  | .unary .., _, _, _ => rfl
  | .binop .., _, _, _ => rfl
  | .listLit .., _, _, _ => rfl
  | .index .., _, _, _ => rfl
  | .mapLit .., _, _, _ => rfl
  | .member .., _, _, _ => rfl
  | .call .., _, _, _ => rfl
  | .method .., _, _, _ => rfl

local macro "nonconst" h:ident : tactic => `(tactic| (
  simp only [resolve, Option.bind_eq_bind, Option.bind_eq_some_iff, Option.pure_def, Option.some.injEq] at $h:ident
  first
    | (obtain ⟨_, _, _, _, _, _, h4⟩ := $h; subst h4; rfl)
    | (obtain ⟨_, _, _, _, h4⟩ := $h; subst h4; rfl)
    | (obtain ⟨_, _, h4⟩ := $h; subst h4; rfl)))

/-- the node the parser returns is a constant exactly when `constVal` says so (optimizer off) -/
theorem resolve_const (fx : Bool) :
    ∀ (w : Raw) (s : Scope) (p : AST × Scope), resolve fx s w = some p → astConst? p.1 = constVal s w
  | .const c, s, p, h => by
    simp only [resolve, Option.some.injEq] at h; subst h; rfl
  | .ident y, s, p, h => by
    simp only [resolve] at h
    split at h
    next i hi =>
      simp only [Option.some.injEq] at h; subst h
      simp only [constVal, hi]
      obtain ⟨k, t⟩ := i
      cases k with
      | const v => rfl
      | func => rfl
      | plain => simp only [identAST]; split <;> rfl
    · simp at h
  | .letE x v i, s, p, h => by
    simp only [resolve, Option.bind_eq_bind, Option.bind_eq_some_iff, Option.pure_def] at h
    obtain ⟨p1, h1, h2⟩ := h
    have c1 := resolve_const fx v s p1 h1
    simp only [constVal, ← c1]
    split at h2
    next c hc =>
      simp only [Option.bind_eq_some_iff, Option.some.injEq] at h2
      obtain ⟨p2, h3, h4⟩ := h2
      subst h4
      simp only [resolve_const fx i _ p2 h3]
      exact constVal_congr i (by simp [resolve_skel fx v s p1 h1])
    next hc =>
      simp only [Option.bind_eq_some_iff, Option.some.injEq] at h2
      obtain ⟨p2, h3, h4⟩ := h2
      subst h4
      rfl
  | .func name ps body rest, s, p, h => by
    simp only [resolve, Option.bind_eq_bind, Option.pure_def] at h
    split at h
    · simp at h
    · simp only [Option.bind_eq_some_iff, Option.some.injEq] at h
      obtain ⟨_, _, _, _, rfl⟩ := h; rfl
  | .clos ps body, s, p, h => by
    simp only [resolve, Option.bind_eq_bind, Option.pure_def] at h
    split at h
    · simp at h
    · simp only [Option.bind_eq_some_iff, Option.some.injEq] at h
      obtain ⟨_, _, rfl⟩ := h; rfl
  | .ifE .., s, p, h => by nonconst h
  | .switchE .., s, p, h => by nonconst h
  | .tryE .., s, p, h => by nonconst h
  | .unary .., s, p, h => by nonconst h
  | .binop .., s, p, h => by nonconst h
  | .listLit .., s, p, h => by nonconst h
  | .index .., s, p, h => by nonconst h
  | .mapLit .., s, p, h => by nonconst h
  | .member .., s, p, h => by nonconst h
  | .call .., s, p, h => by nonconst h
  | .method .., s, p, h => by nonconst h

end P2.Scope
