import P2.Model.Parse
/-! # Fuel monotonicity of the Parse model

An answer other than `fuel` does not change when more fuel is given — for all eleven functions of the
model at once (`Rel t f g`: every non-`fuel` answer at fuel `f` is the answer at fuel `g`; preserved by
one unfolding, `rel_succ`). Used to transport the "for all sufficiently large fuel" round trip to the
concrete fuel of `parse`. -/
namespace P2.Parse

structure Rel (t : Table) (f g : Nat) : Prop where
  pLet : ∀ σ ts, parseLet t f σ ts ≠ .fuel → parseLet t g σ ts = parseLet t f σ ts
  pOp : ∀ σ k ts, parseOp t f σ k ts ≠ .fuel → parseOp t g σ k ts = parseOp t f σ k ts
  pLoop : ∀ σ k o a ts, loopOp t f σ k o a ts ≠ .fuel → loopOp t g σ k o a ts = loopOp t f σ k o a ts
  pUn : ∀ σ ts, parseUnary t f σ ts ≠ .fuel → parseUnary t g σ ts = parseUnary t f σ ts
  pNon : ∀ σ ts, parseNonOp t f σ ts ≠ .fuel → parseNonOp t g σ ts = parseNonOp t f σ ts
  pPost : ∀ σ e ts, postfixLoop t f σ e ts ≠ .fuel → postfixLoop t g σ e ts = postfixLoop t f σ e ts
  pLit : ∀ σ ts, parseLit t f σ ts ≠ .fuel → parseLit t g σ ts = parseLit t f σ ts
  pArgs : ∀ σ br ts, parseArgs t f σ br ts ≠ .fuel → parseArgs t g σ br ts = parseArgs t f σ br ts
  pArgsL : ∀ σ br ts, argsLoop t f σ br ts ≠ .fuel → argsLoop t g σ br ts = argsLoop t f σ br ts
  pMap : ∀ σ keys ts, parseMap t f σ keys ts ≠ .fuel → parseMap t g σ keys ts = parseMap t f σ keys ts
  pCases : ∀ σ ts, parseCases t f σ ts ≠ .fuel → parseCases t g σ ts = parseCases t f σ ts

@[simp] theorem PR.fail_eq_fuel {α β} (r : PR α) : (r.fail : PR β) = .fuel ↔ r = .fuel := by
  cases r <;> simp [PR.fail]



set_option hygiene false in
local macro "mono_tac" : tactic => `(tactic| (
  repeat' split at h
  all_goals (try simp only [ne_eq, PR.fail_eq_fuel, reduceCtorEq, not_false_eq_true] at h)
  all_goals (try simp only [*, ne_eq, reduceCtorEq, not_false_eq_true, if_true, if_false])
  all_goals (try clear h1 h2 h3 h4 h5 h6 h7 h8 h9 h10 h11 hL hPL)
  all_goals (try (repeat' split))
  all_goals (first | rfl | (exfalso; apply_assumption <;> assumption) | (simp_all; done))))

theorem hL_of (t : Table) (f g : Nat) (ih : Rel t f g) : ∀ σ j ts, (if j < t.n then parseOp t f σ j ts else parseUnary t f σ ts) ≠ .fuel →
      (if j < t.n then parseOp t g σ j ts else parseUnary t g σ ts) = (if j < t.n then parseOp t f σ j ts else parseUnary t f σ ts) := by
    intro σ j ts h; have := ih.pOp; have := ih.pUn; split <;> simp_all
theorem hPL_of (t : Table) (f g : Nat) (ih : Rel t f g) : ∀ σ j ts, (if t.pinned = true then parseOp t f σ j ts else if j < t.n then parseOp t f σ j ts else parseUnary t f σ ts) ≠ .fuel →
      (if t.pinned = true then parseOp t g σ j ts else if j < t.n then parseOp t g σ j ts else parseUnary t g σ ts) =
      (if t.pinned = true then parseOp t f σ j ts else if j < t.n then parseOp t f σ j ts else parseUnary t f σ ts) := by
    intro σ j ts h; have h2 := ih.pOp; have hl := hL_of t f g ih
    by_cases hp : t.pinned = true
    · simp only [hp, if_true] at h ⊢; exact h2 _ _ _ h
    · simp only [hp, if_false] at h ⊢; exact hl _ _ _ h

theorem rs_pLet (t : Table) (f g : Nat) (ih : Rel t f g) : ∀ σ ts, parseLet t (f+1) σ ts ≠ .fuel → parseLet t (g+1) σ ts = parseLet t (f+1) σ ts := by
  have hL := hL_of t f g ih
  have hPL := hPL_of t f g ih
  obtain ⟨h1, h2, h3, h4, h5, h6, h7, h8, h9, h10, h11⟩ := ih
  intro σ ts h; simp only [parseLet] at h ⊢; mono_tac

theorem rs_pOp (t : Table) (f g : Nat) (ih : Rel t f g) : ∀ σ k ts, parseOp t (f+1) σ k ts ≠ .fuel → parseOp t (g+1) σ k ts = parseOp t (f+1) σ k ts := by
  have hL := hL_of t f g ih
  have hPL := hPL_of t f g ih
  obtain ⟨h1, h2, h3, h4, h5, h6, h7, h8, h9, h10, h11⟩ := ih
  intro σ k ts h; simp only [parseOp] at h ⊢; mono_tac

theorem rs_pLoop (t : Table) (f g : Nat) (ih : Rel t f g) : ∀ σ k o a ts, loopOp t (f+1) σ k o a ts ≠ .fuel → loopOp t (g+1) σ k o a ts = loopOp t (f+1) σ k o a ts := by
  have hL := hL_of t f g ih
  have hPL := hPL_of t f g ih
  obtain ⟨h1, h2, h3, h4, h5, h6, h7, h8, h9, h10, h11⟩ := ih
  intro σ k o a ts h; simp only [loopOp] at h ⊢; mono_tac

theorem rs_pUn (t : Table) (f g : Nat) (ih : Rel t f g) : ∀ σ ts, parseUnary t (f+1) σ ts ≠ .fuel → parseUnary t (g+1) σ ts = parseUnary t (f+1) σ ts := by
  have hL := hL_of t f g ih
  have hPL := hPL_of t f g ih
  obtain ⟨h1, h2, h3, h4, h5, h6, h7, h8, h9, h10, h11⟩ := ih
  intro σ ts h; simp only [parseUnary] at h ⊢; mono_tac

theorem rs_pNon (t : Table) (f g : Nat) (ih : Rel t f g) : ∀ σ ts, parseNonOp t (f+1) σ ts ≠ .fuel → parseNonOp t (g+1) σ ts = parseNonOp t (f+1) σ ts := by
  have hL := hL_of t f g ih
  have hPL := hPL_of t f g ih
  obtain ⟨h1, h2, h3, h4, h5, h6, h7, h8, h9, h10, h11⟩ := ih
  intro σ ts h; simp only [parseNonOp] at h ⊢; mono_tac

theorem rs_pPost (t : Table) (f g : Nat) (ih : Rel t f g) : ∀ σ e ts, postfixLoop t (f+1) σ e ts ≠ .fuel → postfixLoop t (g+1) σ e ts = postfixLoop t (f+1) σ e ts := by
  have hL := hL_of t f g ih
  have hPL := hPL_of t f g ih
  obtain ⟨h1, h2, h3, h4, h5, h6, h7, h8, h9, h10, h11⟩ := ih
  intro σ e ts h; simp only [postfixLoop] at h ⊢; mono_tac

theorem rs_pLit (t : Table) (f g : Nat) (ih : Rel t f g) : ∀ σ ts, parseLit t (f+1) σ ts ≠ .fuel → parseLit t (g+1) σ ts = parseLit t (f+1) σ ts := by
  have hL := hL_of t f g ih
  have hPL := hPL_of t f g ih
  obtain ⟨h1, h2, h3, h4, h5, h6, h7, h8, h9, h10, h11⟩ := ih
  intro σ ts h
  match ts, h with
  | [], h => simp only [parseLit]
  | x :: rest, h =>
    cases x <;> simp only [parseLit] at h ⊢ <;> mono_tac

theorem rs_pArgs (t : Table) (f g : Nat) (ih : Rel t f g) : ∀ σ br ts, parseArgs t (f+1) σ br ts ≠ .fuel → parseArgs t (g+1) σ br ts = parseArgs t (f+1) σ br ts := by
  have hL := hL_of t f g ih
  have hPL := hPL_of t f g ih
  obtain ⟨h1, h2, h3, h4, h5, h6, h7, h8, h9, h10, h11⟩ := ih
  intro σ br ts h; simp only [parseArgs] at h ⊢; mono_tac

theorem rs_pArgsL (t : Table) (f g : Nat) (ih : Rel t f g) : ∀ σ br ts, argsLoop t (f+1) σ br ts ≠ .fuel → argsLoop t (g+1) σ br ts = argsLoop t (f+1) σ br ts := by
  have hL := hL_of t f g ih
  have hPL := hPL_of t f g ih
  obtain ⟨h1, h2, h3, h4, h5, h6, h7, h8, h9, h10, h11⟩ := ih
  intro σ br ts h; simp only [argsLoop] at h ⊢; mono_tac

theorem rs_pMap (t : Table) (f g : Nat) (ih : Rel t f g) : ∀ σ keys ts, parseMap t (f+1) σ keys ts ≠ .fuel → parseMap t (g+1) σ keys ts = parseMap t (f+1) σ keys ts := by
  have hL := hL_of t f g ih
  have hPL := hPL_of t f g ih
  obtain ⟨h1, h2, h3, h4, h5, h6, h7, h8, h9, h10, h11⟩ := ih
  intro σ keys ts h; simp only [parseMap] at h ⊢; mono_tac

theorem rs_pCases (t : Table) (f g : Nat) (ih : Rel t f g) : ∀ σ ts, parseCases t (f+1) σ ts ≠ .fuel → parseCases t (g+1) σ ts = parseCases t (f+1) σ ts := by
  have hL := hL_of t f g ih
  have hPL := hPL_of t f g ih
  obtain ⟨h1, h2, h3, h4, h5, h6, h7, h8, h9, h10, h11⟩ := ih
  intro σ ts h
  match ts, h with
  | [], h => simp only [parseCases]
  | x :: rest, h =>
    cases x <;> simp only [parseCases] at h ⊢ <;> mono_tac

theorem rel_succ (t : Table) (f g : Nat) (ih : Rel t f g) : Rel t (f+1) (g+1) :=
  ⟨rs_pLet t f g ih, rs_pOp t f g ih, rs_pLoop t f g ih, rs_pUn t f g ih, rs_pNon t f g ih, rs_pPost t f g ih,
   rs_pLit t f g ih, rs_pArgs t f g ih, rs_pArgsL t f g ih, rs_pMap t f g ih, rs_pCases t f g ih⟩

theorem rel_zero (t : Table) (g : Nat) : Rel t 0 g := by
  constructor <;> intros <;> simp_all [parseLet, parseOp, loopOp, parseUnary, parseNonOp, postfixLoop, parseLit,
    parseArgs, argsLoop, parseMap, parseCases]

/-- more fuel never changes a non-`fuel` answer -/
theorem rel_add (t : Table) (d : Nat) : ∀ f, Rel t f (f + d)
  | 0 => rel_zero t _
  | f+1 => by
    have := rel_succ t f (f + d) (rel_add t d f)
    rwa [show f + 1 + d = f + d + 1 by omega]

theorem parseTop_mono (t : Table) (f d : Nat) (σ : Scope) (ts : List Tok) (h : parseTop t f σ ts ≠ .fuel) :
    parseTop t (f + d) σ ts = parseTop t f σ ts := by
  have hl : parseLet t f σ ts ≠ .fuel := by
    intro hc; apply h; simp [parseTop, hc]
  simp only [parseTop, (rel_add t d f).pLet σ ts hl]

end P2.Parse
