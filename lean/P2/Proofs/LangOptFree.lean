import P2.Proofs.LangMono
import P2.Proofs.LangOpt
import P2.Proofs.LangMain
/-! # C02 on the value language: `optimize` on closure-free programs preserves `eval`

`Ev x y` — "for all large enough fuel, `y` answers exactly what `x` answered, unless `x` ran out of
fuel" — is the shape of every statement here: the original program is evaluated at some fuel `n`,
the optimized one needs a different amount. Fuel monotonicity (`Proofs/LangMono.lean`) identifies a
folding evaluation at `cfg.fuel` in the empty environment with the evaluation at whatever fuel is left
at that node. -/
namespace P2.Lang

/-- for all large `m`, `y m` is `x` — unless `x` is the out-of-fuel outcome -/
structure Ev {α : Type} (x : R α) (y : Nat → R α) : Prop where
  ev : x ≠ .fuel → ∃ m0, ∀ m, m0 ≤ m → y m = x

namespace Ev
variable {α β : Type}

theorem const (x : R α) : Ev x (fun _ => x) := ⟨fun _ => ⟨0, fun _ _ => rfl⟩⟩
theorem fuel (y : Nat → R α) : Ev .fuel y := ⟨fun h => absurd rfl h⟩
theorem of_eq {x : R α} {y : Nat → R α} (m0 : Nat) (h : ∀ m, m0 ≤ m → y m = x) : Ev x y := ⟨fun _ => ⟨m0, h⟩⟩

/-- from monotonicity -/
theorem of_le {x : R α} {y : Nat → R α} (m0 : Nat) (h : ∀ m, m0 ≤ m → Le x (y m)) : Ev x y :=
  ⟨fun hx => ⟨m0, fun m hm => (h m hm).le hx⟩⟩

theorem of_succ {x : R α} {y : Nat → R α} (h : Ev x (fun m => y (m + 1))) : Ev x y := by
  refine ⟨fun hx => ?_⟩
  obtain ⟨m0, h0⟩ := h.ev hx
  refine ⟨m0 + 1, fun m hm => ?_⟩
  cases m with
  | zero => omega
  | succ m => exact h0 m (by omega)

theorem congr {x : R α} {y y' : Nat → R α} (h : Ev x y) (he : ∀ m, y' m = y m) : Ev x y' := by
  have : y' = y := funext he
  rw [this]; exact h

/-- the outcome of `y` is plugged into a context `F` that preserves running out of fuel -/
theorem subst {x : R α} {y : Nat → R α} {z : R β} {F : Nat → R α → R β}
    (h : Ev x y) (hz : x = .fuel → z = .fuel) (hF : x ≠ .fuel → Ev z (fun m => F m x)) :
    Ev z (fun m => F m (y m)) := by
  refine ⟨fun hzne => ?_⟩
  have hx : x ≠ .fuel := fun hx => hzne (hz hx)
  obtain ⟨m1, h1⟩ := h.ev hx
  obtain ⟨m2, h2⟩ := (hF hx).ev hzne
  refine ⟨max m1 m2, fun m hm => ?_⟩
  show F m (y m) = z
  rw [h1 m (by omega)]
  exact h2 m (by omega)

theorem bind {x : R α} {y : Nat → R α} {f : α → R β} {g : Nat → α → R β}
    (h : Ev x y) (hf : ∀ a, Ev (f a) (fun m => g m a)) :
    Ev (x >>= f) (fun m => y m >>= g m) := by
  refine subst (F := fun m r => r >>= g m) h (fun hx => by rw [hx]; rfl) (fun _ => ?_)
  cases x with
  | ok a => exact hf a
  | err => exact const _
  | panic => exact const _
  | fuel => exact fuel _
  | unmodelled => exact const _

theorem bind' {x : R α} {y : Nat → R α} {f : α → R β} {g : Nat → α → R β}
    (h : Ev x y) (hf : ∀ a, Ev (f a) (fun m => g m a)) :
    Ev (R.bind x f) (fun m => R.bind (y m) (g m)) := bind h hf

theorem ite {c : Prop} [Decidable c] {a b : R α} {a' b' : Nat → R α} (h1 : c → Ev a a') (h2 : ¬ c → Ev b b') :
    Ev (if c then a else b) (fun m => if c then a' m else b' m) := by
  by_cases hc : c
  · simp only [hc, if_true]; exact h1 hc
  · simp only [hc, if_false]; exact h2 hc

/-- a definite outcome of `x` is the outcome of `y` for all large fuel -/
theorem eq_of {x : R α} {y : Nat → R α} (h : Ev x y) {r : R α} (hx : x = r) (hr : r ≠ .fuel) :
    ∃ m0, ∀ m, m0 ≤ m → y m = r := by
  subst hx; exact h.ev hr

theorem trans {x : R α} {y z : Nat → R α} (h : Ev x y)
    (h2 : ∀ r, r ≠ .fuel → (∃ m0, ∀ m, m0 ≤ m → y m = r) → ∃ m0, ∀ m, m0 ≤ m → z m = r) : Ev x z :=
  ⟨fun hx => h2 x hx (h.ev hx)⟩

end Ev

/-- one step of an `Ev` proof -/
macro "ev_step" : tactic => `(tactic| first
  | with_reducible exact Ev.const _
  | with_reducible exact Ev.fuel _
  | with_reducible (apply Ev.bind)
  | with_reducible (apply Ev.bind')
  | with_reducible (apply Ev.ite)
  | (intro _)
  | split
  | with_reducible assumption
  | with_reducible apply_assumption
  | omega)

macro "ev" : tactic => `(tactic| repeat' ev_step)

end P2.Lang

namespace P2.Lang.Opt
open P2.Lang

/-! ## closure-free, well-scoped programs -/

mutual
/-- `closureFree S L a`: no closure literal occurs in `a` (in particular no `func` definition and no
lambda), and every identifier is bound — by an enclosing `let` of `a` or as one of the names `L` —
or, in call position, is the name of a static function (`S`) -/
def closureFree (S : Statics) : List String → AST → Bool
  | _, .const _ => true
  | L, .ident x => L.contains x
  | L, .letE x v i => closureFree S L v && closureFree S (x :: L) i
  | L, .ifE c t e => closureFree S L c && closureFree S L t && closureFree S L e
  | L, .switchE v cases d => closureFree S L v && closureFreeCases S L cases && closureFree S L d
  | L, .tryE t c => closureFree S L t && closureFree S L c
  | L, .unary _ a => closureFree S L a
  | L, .binop _ a b => closureFree S L a && closureFree S L b
  | _, .clos .. => false
  | L, .listLit items => closureFreeList S L items
  | L, .index i l => closureFree S L i && closureFree S L l
  | L, .mapLit kvs => closureFreeKVs S L kvs
  | L, .member m _ => closureFree S L m
  | L, .call f args =>
      (match f with
       | .ident name => L.contains name || (S name).isSome
       | _ => closureFree S L f) && closureFreeList S L args
  | L, .method recv _ args => closureFree S L recv && closureFreeList S L args
def closureFreeList (S : Statics) : List String → List AST → Bool
  | _, [] => true
  | L, a :: as => closureFree S L a && closureFreeList S L as
def closureFreeKVs (S : Statics) : List String → List (String × AST) → Bool
  | _, [] => true
  | L, (_, a) :: as => closureFree S L a && closureFreeKVs S L as
def closureFreeCases (S : Statics) : List String → List (AST × AST) → Bool
  | _, [] => true
  | L, (c, r) :: rest => closureFree S L c && closureFree S L r && closureFreeCases S L rest
end

/-- the configuration for which `optimize` is sound on closure-free programs: the two open findings
switched off (`intAndOr`, `regroup`), the repair 89b886b in place, and rule (f) (closure constants) —
which has nothing to apply to in a closure-free program — switched off -/
structure FreeCfg (cfg : Cfg) : Prop where
  intAndOr : cfg.intAndOr = false
  regroup : cfg.regroup = false
  foldClosures : cfg.foldClosures = false
  closureFieldWins : cfg.closureFieldWins = true

variable {S : Statics} {M : Methods} {T : Tables} {cfg : Cfg}

theorem ebind_ok {ε α β : Type} {x : Except ε α} {f : α → Except ε β} {b : β}
    (h : (x >>= f) = .ok b) : ∃ a, x = .ok a ∧ f a = .ok b := by
  cases x with
  | error e => simp [bind, Except.bind] at h
  | ok a => exact ⟨a, rfl, h⟩

/-! ## without rule (f) a constant form is a first-order literal -/

mutual
theorem isConst_lit (hf : cfg.foldClosures = false) : ∀ (k : AST), isConst S cfg k = true → lit k = true
  | .const _, _ => rfl
  | .listLit xs, h => by simp only [isConst] at h; simp only [lit]; exact allConst_litL hf xs h
  | .mapLit kvs, h => by simp only [isConst] at h; simp only [lit]; exact allConstKVs_litKVs hf kvs h
  | .clos .., h => by simp [isConst, hf] at h
  | .ident _, h => by simp [isConst] at h
  | .letE .., h => by simp [isConst] at h
  | .ifE .., h => by simp [isConst] at h
  | .switchE .., h => by simp [isConst] at h
  | .tryE .., h => by simp [isConst] at h
  | .unary .., h => by simp [isConst] at h
  | .binop .., h => by simp [isConst] at h
  | .index .., h => by simp [isConst] at h
  | .member .., h => by simp [isConst] at h
  | .call .., h => by simp [isConst] at h
  | .method .., h => by simp [isConst] at h
theorem allConst_litL (hf : cfg.foldClosures = false) : ∀ (ks : List AST), allConst S cfg ks = true → litL ks = true
  | [], _ => rfl
  | a :: as, h => by
    simp only [allConst, Bool.and_eq_true] at h
    simp only [litL, Bool.and_eq_true]
    exact ⟨isConst_lit hf a h.1, allConst_litL hf as h.2⟩
theorem allConstKVs_litKVs (hf : cfg.foldClosures = false) : ∀ (ks : List (String × AST)),
    allConstKVs S cfg ks = true → litKVs ks = true
  | [], _ => rfl
  | (_, a) :: as, h => by
    simp only [allConstKVs, Bool.and_eq_true] at h
    simp only [litKVs, Bool.and_eq_true]
    exact ⟨isConst_lit hf a h.1, allConstKVs_litKVs hf as h.2⟩
end

/-- a successful folding step also checked that the literal is a constant form -/
theorem foldR_ok2 {a a' : AST} {r : R Val} (h : foldR S cfg a r = .ok a') :
    a' = a ∨ ∃ v, r = .ok v ∧ reify v = some a' ∧ isConst S cfg a' = true := by
  unfold foldR foldV at h
  cases r with
  | ok v =>
    simp only at h
    cases hr : reify v with
    | none => simp [hr, bind, Except.bind] at h
    | some k =>
      by_cases hc : isConst S cfg k = true
      · simp [hr, hc, bind, Except.bind, pure, Except.pure] at h
        subst h
        exact .inr ⟨v, rfl, hr, hc⟩
      · simp [hr, hc, bind, Except.bind] at h
  | err => simp [bind, Except.bind, pure, Except.pure] at h; exact .inl h.symm
  | panic => simp [bind, Except.bind] at h
  | fuel => simp [bind, Except.bind] at h
  | unmodelled => simp [bind, Except.bind] at h

/-- a literal evaluates, to the same value in every environment -/
theorem lit_value (k : AST) (hk : lit k = true) (hev : ∃ (m : Nat) (e : Env) (v : Val), eval S M m k e = .ok v) :
    ∃ v, ∃ m0, ∀ e m, m0 ≤ m → eval S M m k e = .ok v := by
  obtain ⟨m0, e0, v, h0⟩ := hev
  refine ⟨v, m0, fun e m hm => ?_⟩
  rw [lit_closed k hk m e, ← lit_closed k hk m e0]
  exact eval_fuel_mono S M h0 (by simp) hm

mutual
theorem lit_total : ∀ (k : AST), lit k = true → ∃ v, ∀ (e : Env) (n : Nat), need k ≤ n → eval S M n k e = .ok v
  | .const c, _ => ⟨ofScalar c, fun e n hn => by
      cases n with
      | zero => simp [need] at hn
      | succ n => rfl⟩
  | .listLit xs, h => by
    simp only [lit] at h
    obtain ⟨vs, hvs⟩ := litL_total xs h
    refine ⟨.list (.items vs), fun e n hn => ?_⟩
    cases n with
    | zero => simp [need] at hn
    | succ n => rw [eval_listLit, hvs e n (by simp only [need] at hn; omega)]; rfl
  | .mapLit kvs, h => by
    simp only [lit] at h
    obtain ⟨vs, hvs⟩ := litKVs_total kvs h
    refine ⟨.map vs, fun e n hn => ?_⟩
    cases n with
    | zero => simp [need] at hn
    | succ n => rw [eval_mapLit, hvs e n (by simp only [need] at hn; omega)]; rfl
  | .ident _, h => by simp [lit] at h
  | .letE .., h => by simp [lit] at h
  | .ifE .., h => by simp [lit] at h
  | .switchE .., h => by simp [lit] at h
  | .tryE .., h => by simp [lit] at h
  | .unary .., h => by simp [lit] at h
  | .binop .., h => by simp [lit] at h
  | .clos .., h => by simp [lit] at h
  | .index .., h => by simp [lit] at h
  | .member .., h => by simp [lit] at h
  | .call .., h => by simp [lit] at h
  | .method .., h => by simp [lit] at h
theorem litL_total : ∀ (ks : List AST), litL ks = true →
    ∃ vs, ∀ (e : Env) (n : Nat), needL ks ≤ n → evalList S M n ks e = .ok vs
  | [], _ => ⟨[], fun e n hn => by
      cases n with
      | zero => simp [needL] at hn
      | succ n => rfl⟩
  | a :: as, h => by
    simp only [litL, Bool.and_eq_true] at h
    obtain ⟨v, hv⟩ := lit_total a h.1
    obtain ⟨vs, hvs⟩ := litL_total as h.2
    refine ⟨v :: vs, fun e n hn => ?_⟩
    cases n with
    | zero => simp [needL] at hn
    | succ n =>
      simp only [needL] at hn
      rw [evalList_cons, hv e n (by omega), hvs e n (by omega)]; rfl
theorem litKVs_total : ∀ (ks : List (String × AST)), litKVs ks = true →
    ∃ vs, ∀ (e : Env) (n : Nat), needKVs ks ≤ n → evalKVs S M n ks e = .ok vs
  | [], _ => ⟨[], fun e n hn => by
      cases n with
      | zero => simp [needKVs] at hn
      | succ n => rfl⟩
  | (key, a) :: as, h => by
    simp only [litKVs, Bool.and_eq_true] at h
    obtain ⟨v, hv⟩ := lit_total a h.1
    obtain ⟨vs, hvs⟩ := litKVs_total as h.2
    refine ⟨(key, v) :: vs, fun e n hn => ?_⟩
    cases n with
    | zero => simp [needKVs] at hn
    | succ n =>
      simp only [needKVs] at hn
      rw [evalKVs_cons, hv e n (by omega), hvs e n (by omega)]; rfl
end

/-! ## soundness of one rule application, on the optimized side

`X` is the node with optimized children, `a'` what the rule makes of it; whatever `X` evaluates to
in the environment of the optimized program, `a'` evaluates to the same. -/

/-- the shape every folding step is brought into -/
theorem fold_finish {X a' : AST} {env' : Env} {x : R Val}
    (hv : ∃ v n0, eval S M n0 X env' = .ok v ∧ ∀ n, need a' ≤ n → eval S M n a' env' = .ok v)
    (h : Ev x (fun m => eval S M m X env')) : Ev x (fun m => eval S M m a' env') := by
  obtain ⟨v, n0, hX, ha'⟩ := hv
  refine ⟨fun hx => ?_⟩
  obtain ⟨m0, h0⟩ := h.ev hx
  have h1 := h0 (max m0 n0) (by omega)
  have h2 := eval_fuel_mono S M hX (by simp) (show n0 ≤ max m0 n0 by omega)
  have hxv : x = .ok v := by rw [← h1]; exact h2
  exact ⟨need a', fun m hm => by rw [hxv]; exact ha' m hm⟩

/-- `cvals` of first-order literals against `evalArgs` -/
theorem cvals_evalArgs : ∀ (args : List AST) (vs : List Val), litL args = true →
    cvals S M cfg args = .ok vs → ∀ (env : Env) (m : Nat), cfg.fuel + args.length + 1 ≤ m →
    evalArgs S M m args env = .ok vs
  | [], vs, _, h, env, m, hm => by
    simp only [cvals, R.ok.injEq] at h; subst h
    cases m with
    | zero => omega
    | succ m => rfl
  | a :: as, vs, hl, h, env, m, hm => by
    simp only [litL, Bool.and_eq_true] at hl
    simp only [cvals] at h
    cases hv : cval S M cfg a with
    | ok v =>
      rw [hv] at h
      simp only [R.bind_ok] at h
      cases hvs : cvals S M cfg as with
      | ok vs' =>
        rw [hvs] at h
        simp only [R.bind_ok, R.pure_eq, R.ok.injEq] at h
        subst h
        cases m with
        | zero => omega
        | succ m =>
          simp only [List.length_cons] at hm
          have h1 : eval S M m a env = .ok v := by
            rw [lit_closed a hl.1 m env]
            exact eval_fuel_mono S M hv (by simp) (by omega)
          rw [evalArgs_cons, h1, cvals_evalArgs as vs' hl.2 hvs env m (by omega)]
          rfl
      | err => rw [hvs] at h; simp at h
      | panic => rw [hvs] at h; simp at h
      | fuel => rw [hvs] at h; simp at h
      | unmodelled => rw [hvs] at h; simp at h
    | err => rw [hv] at h; simp at h
    | panic => rw [hv] at h; simp at h
    | fuel => rw [hv] at h; simp at h
    | unmodelled => rw [hv] at h; simp at h

theorem isConst_and {a b : AST} (h : (isConst S cfg a && isConst S cfg b) = true) :
    isConst S cfg a = true ∧ isConst S cfg b = true := by
  simpa [Bool.and_eq_true] using h

/-- the `&` / `|` matrices agree with the short-circuit code whenever they succeed -/
theorem shortcut_of_matrix (ap : Apply) (k n : Nat) (op : String) (hop : op = "&" ∨ op = "|") (x1 y1 : AST)
    (env : Env) (vx vy v : Val) (hx : eval S M n x1 env = .ok vx) (hy : eval S M n y1 env = .ok vy)
    (h : binop ap k op vx vy = .ok v) : eval S M (n + 1) (.binop op x1 y1) env = .ok v := by
  rw [eval_binop, hx, hy]
  rcases hop with rfl | rfl
  · simp only [binop] at h
    cases vx <;> cases vy <;> simp at h
    rename_i x y
    subst h
    cases x <;> cases y <;> rfl
  · simp only [binop] at h
    cases vx <;> cases vy <;> simp at h
    rename_i x y
    subst h
    cases x <;> cases y <;> rfl

/-- what a folding step needs: the fold evaluated `X` (in the empty environment, at the folding
fuel) to the value the node has in `env'` at some fuel -/
theorem fold_step {X a' : AST} {env' : Env} {E : R Val} {x : R Val} (hf : cfg.foldClosures = false)
    (hr : foldR S cfg X E = .ok a') (hne : a' ≠ X)
    (hE : ∀ v, E = .ok v → ∃ n0, eval S M n0 X env' = .ok v)
    (h : Ev x (fun m => eval S M m X env')) : Ev x (fun m => eval S M m a' env') := by
  rcases foldR_ok2 hr with h1 | ⟨v, hv, hre, hk⟩
  · exact absurd h1 hne
  · obtain ⟨n0, hn0⟩ := hE v hv
    exact fold_finish ⟨v, n0, hn0, fun n hn => reify_eval v a' hre (isConst_lit hf _ hk) env' n hn⟩ h

theorem rule_sound_free (hcfg : FreeCfg cfg) (sc : Scope) (X a' : AST) (env' : Env)
    (hr : rule S M T cfg sc X = .ok a')
    (henv : ∀ x, env'.has x = true → sc.find x ≠ none ∨ S x = none) {x : R Val}
    (h : Ev x (fun m => eval S M m X env')) : Ev x (fun m => eval S M m a' env') := by
  by_cases hne : a' = X
  · rw [hne]; exact h
  have hlit := fun k => isConst_lit (S := S) hcfg.foldClosures k
  have hlitL := fun k => allConst_litL (S := S) hcfg.foldClosures k
  cases X with
  | unary op x1 =>
    by_cases hc : isConst S cfg x1 = true
    · simp only [rule, hc, if_true] at hr
      refine fold_step hcfg.foldClosures hr hne (fun v hv => ⟨cfg.fuel + 1, ?_⟩) h
      rw [eval_unary, lit_closed x1 (hlit _ hc)]
      exact hv
    · simp only [rule, hc] at hr
      exact absurd (Except.ok.inj hr).symm hne
  | binop op x1 y1 =>
    by_cases hc : isConst S cfg y1 = true ∧ T.opPure op = true ∧ isConst S cfg x1 = true
    · obtain ⟨hy, hp, hx⟩ := hc
      simp only [rule, hy, hp, hx, Bool.and_self, if_true] at hr
      refine fold_step hcfg.foldClosures hr hne (fun v hv => ⟨cfg.fuel + 1, ?_⟩) h
      have hc : ∀ a b, calcOp S M cfg op a b = binop (applyS S M cfg.fuel) cfg.fuel op a b := by
        intro a b
        unfold calcOp
        split
        · rename_i h1; simp [hcfg.intAndOr] at h1
        · rename_i h1; simp [hcfg.intAndOr] at h1
        · rfl
      simp only [calcK, cval, hc] at hv
      cases hvx : eval S M cfg.fuel x1 [] with
      | ok vx =>
        rw [hvx] at hv
        cases hvy : eval S M cfg.fuel y1 [] with
        | ok vy =>
          rw [hvy] at hv
          simp only [R.bind_ok] at hv
          have hvx' : eval S M cfg.fuel x1 env' = .ok vx := by rw [lit_closed x1 (hlit _ hx)]; exact hvx
          have hvy' : eval S M cfg.fuel y1 env' = .ok vy := by rw [lit_closed y1 (hlit _ hy)]; exact hvy
          by_cases hop : op = "&" ∨ op = "|"
          · exact shortcut_of_matrix _ _ _ op hop x1 y1 env' vx vy v hvx' hvy' hv
          · have hand : op ≠ "&" := fun e => hop (.inl e)
            have hor : op ≠ "|" := fun e => hop (.inr e)
            rw [eval_binop, if_neg hand, if_neg hor, hvx', hvy']
            exact hv
        | err => rw [hvy] at hv; simp at hv
        | panic => rw [hvy] at hv; simp at hv
        | fuel => rw [hvy] at hv; simp at hv
        | unmodelled => rw [hvy] at hv; simp at hv
      | err => rw [hvx] at hv; simp at hv
      | panic => rw [hvx] at hv; simp at hv
      | fuel => rw [hvx] at hv; simp at hv
      | unmodelled => rw [hvx] at hv; simp at hv
    · exfalso
      apply hne
      simp only [rule, hcfg.regroup, Bool.false_and] at hr
      by_cases hy : isConst S cfg y1 = true
      · by_cases hp : (T.opPure op && isConst S cfg x1) = true
        · exact absurd ⟨hy, by simpa [Bool.and_eq_true] using hp⟩ hc
        · simp only [hy, hp, if_true] at hr
          simpa [pure, Except.pure] using hr.symm
      · simp only [hy] at hr
        simpa [pure, Except.pure] using hr.symm
  | ifE c t e =>
    simp only [rule] at hr
    split at hr
    · have hr := (Except.ok.inj hr).symm
      subst hr
      refine ⟨fun hx => ?_⟩
      obtain ⟨m0, h0⟩ := h.ev hx
      refine ⟨m0 + 1, fun m hm => ?_⟩
      have := h0 (m + 1) (by omega)
      cases m with
      | zero => omega
      | succ m => rw [← this]; rfl
    · have hr := (Except.ok.inj hr).symm
      subst hr
      refine ⟨fun hx => ?_⟩
      obtain ⟨m0, h0⟩ := h.ev hx
      refine ⟨m0 + 1, fun m hm => ?_⟩
      have := h0 (m + 1) (by omega)
      cases m with
      | zero => omega
      | succ m => rw [← this]; rfl
    · exact absurd (Except.ok.inj hr).symm hne
  | index i l =>
    by_cases hc : (isConst S cfg l && isConst S cfg i) = true
    · simp only [rule, hc, if_true] at hr
      obtain ⟨hl, hi⟩ := isConst_and hc
      refine fold_step hcfg.foldClosures hr hne (fun v hv => ⟨cfg.fuel, ?_⟩) h
      rw [← hv]
      cases hf : cfg.fuel with
      | zero => rfl
      | succ n => rw [eval_index, eval_index, lit_closed i (hlit _ hi), lit_closed l (hlit _ hl)]
    · simp only [rule, hc] at hr
      exact absurd (Except.ok.inj hr).symm hne
  | member m key =>
    by_cases hc : isConst S cfg m = true
    · simp only [rule, hc, if_true] at hr
      refine fold_step hcfg.foldClosures hr hne (fun v hv => ⟨cfg.fuel, ?_⟩) h
      rw [← hv]
      cases hf : cfg.fuel with
      | zero => rfl
      | succ n => rw [eval_member, eval_member, lit_closed m (hlit _ hc)]
    · simp only [rule, hc] at hr
      exact absurd (Except.ok.inj hr).symm hne
  | call f args =>
    cases f with
    | ident name =>
      simp only [rule] at hr
      split at hr
      · rename_i arity hS hsc
        have hnot : env'.has name = false := by
          cases hh : env'.has name with
          | false => rfl
          | true =>
            rcases henv name hh with h1 | h1
            · exact absurd hsc h1
            · rw [hS] at h1; cases h1
        split at hr
        · exact absurd (Except.ok.inj hr).symm hne
        · split at hr
          · rename_i hargs
            refine fold_step hcfg.foldClosures hr hne (fun v hv => ⟨cfg.fuel, ?_⟩) h
            rw [← hv]
            cases hf : cfg.fuel with
            | zero => rfl
            | succ n =>
              rw [eval_call_static S M n name args env' (by simp [hS, hnot]),
                  eval_call_static S M n name args [] (by simp [hS, Env.has, Env.get]),
                  litL_closed_args args (hlitL _ hargs)]
          · exact absurd (Except.ok.inj hr).symm hne
      · exact absurd (Except.ok.inj hr).symm hne
    | clos names body outer r this =>
      simp only [rule, isConst, hcfg.foldClosures, Bool.false_and] at hr
      exact absurd (Except.ok.inj hr).symm hne
    | _ => exact absurd (Except.ok.inj hr).symm hne
  | method recv name args =>
    by_cases hc : (isConst S cfg recv && allConst S cfg args) = true
    · simp only [rule, hc, if_true] at hr
      have hrecv : lit recv = true := hlit _ (by simpa [Bool.and_eq_true] using (Bool.and_eq_true _ _ ▸ hc).1)
      have hargs : litL args = true := hlitL _ (by simpa [Bool.and_eq_true] using (Bool.and_eq_true _ _ ▸ hc).2)
      refine fold_step hcfg.foldClosures hr hne (fun v hv => ⟨cfg.fuel + args.length + 1 + 1, ?_⟩) h
      cases hrv : cval S M cfg recv with
      | ok rv =>
        rw [hrv] at hv
        simp only [R.bind_ok, hcfg.closureFieldWins, Bool.true_and] at hv
        by_cases hcf : closureField rv name = true
        · simp [hcf] at hv
        · simp only [hcf, Bool.false_eq_true, if_false] at hv
          cases hM : M (typeName rv) name with
          | none => simp [hM] at hv
          | some declared =>
            simp only [hM] at hv
            by_cases hp : (!T.methPure (typeName rv) name) = true
            · simp [hp] at hv
            · simp only [hp, Bool.false_eq_true, if_false] at hv
              by_cases harity : ¬declared = -1 ∧ ¬(args.length : Int) + 1 = declared
              · rw [if_pos harity] at hv
                cases hv
              · rw [if_neg harity] at hv
                cases hvs : cvals S M cfg args with
                | ok vs =>
                  rw [hvs] at hv
                  simp only [R.bind_ok] at hv
                  have h1 : eval S M (cfg.fuel + args.length + 1) recv env' = .ok rv := by
                    rw [lit_closed recv hrecv]
                    exact eval_fuel_mono S M hrv (by simp) (by omega)
                  have hnf : ∀ kvs names body cenv r this, rv = .map kvs →
                      mapGet kvs name ≠ some (.sclos names body cenv r this) := by
                    intro kvs names body cenv r this hmap hget
                    apply hcf
                    subst hmap
                    simp [closureField, hget]
                  rw [eval_method, h1]
                  simp only [R.bind_ok]
                  rw [evalMethodK_builtin hnf]
                  unfold evalBuiltinK
                  simp only [hM]
                  rw [if_neg (by omega), cvals_evalArgs args vs hargs hvs env' _ (by omega)]
                  simp only [R.bind_ok]
                  exact (methodBody_mono (applyS_ApLe S M (by omega)) cfg.fuel _ name rv vs (by omega)).eq hv (by simp)
                | err => rw [hvs] at hv; simp at hv
                | panic => rw [hvs] at hv; simp at hv
                | fuel => rw [hvs] at hv; simp at hv
                | unmodelled => rw [hvs] at hv; simp at hv
      | err => rw [hrv] at hv; simp at hv
      | panic => rw [hrv] at hv; simp at hv
      | fuel => rw [hrv] at hv; simp at hv
      | unmodelled => rw [hrv] at hv; simp at hv
    · simp only [rule, hc] at hr
      exact absurd (Except.ok.inj hr).symm hne
  | _ => exact absurd (Except.ok.inj hr).symm hne

/-! ## what a rule application can return -/

theorem reify_not_ident (v : Val) (g : String) : reify v ≠ some (.ident g) := by
  cases v with
  | list l => cases l <;> simp [reify, reifyL]
  | map kvs => simp [reify]
  | sclos names body env r this => simp only [reify]; split <;> simp
  | _ => simp [reify]

theorem rule_cases (hreg : cfg.regroup = false) {sc : Scope} {X a' : AST} (hr : rule S M T cfg sc X = .ok a') :
    a' = X ∨ (∃ v, reify v = some a') ∨ (∃ b t e, X = .ifE (.const (.bool b)) t e ∧ a' = if b then t else e) := by
  have fin : ∀ {E : R Val}, foldR S cfg X E = .ok a' → a' = X ∨ (∃ v, reify v = some a') ∨
      (∃ b t e, X = .ifE (.const (.bool b)) t e ∧ a' = if b then t else e) := by
    intro E h
    rcases foldR_ok2 h with h1 | ⟨v, _, hre, _⟩
    · exact .inl h1
    · exact .inr (.inl ⟨v, hre⟩)
  cases X with
  | ifE c t e =>
    simp only [rule] at hr
    split at hr
    · exact .inr (.inr ⟨true, t, e, rfl, (Except.ok.inj hr).symm⟩)
    · exact .inr (.inr ⟨false, t, e, rfl, (Except.ok.inj hr).symm⟩)
    · exact .inl (Except.ok.inj hr).symm
  | binop op x1 y1 =>
    simp only [rule, hreg, Bool.false_and] at hr
    split at hr
    · split at hr
      · exact fin hr
      · exact .inl (by simpa [pure, Except.pure] using hr.symm)
    · exact .inl (Except.ok.inj hr).symm
  | unary op x1 =>
    simp only [rule] at hr
    split at hr
    · exact fin hr
    · exact .inl (Except.ok.inj hr).symm
  | index i l =>
    simp only [rule] at hr
    split at hr
    · exact fin hr
    · exact .inl (Except.ok.inj hr).symm
  | member m key =>
    simp only [rule] at hr
    split at hr
    · exact fin hr
    · exact .inl (Except.ok.inj hr).symm
  | call f args =>
    cases f with
    | ident name =>
      simp only [rule] at hr
      split at hr
      · split at hr
        · exact .inl (Except.ok.inj hr).symm
        · split at hr
          · exact fin hr
          · exact .inl (Except.ok.inj hr).symm
      · exact .inl (Except.ok.inj hr).symm
    | clos names body outer r this =>
      simp only [rule] at hr
      split at hr
      · split at hr
        · exact .inl (Except.ok.inj hr).symm
        · split at hr
          · exact fin hr
          · exact .inl (Except.ok.inj hr).symm
      · exact .inl (Except.ok.inj hr).symm
    | _ => exact .inl (Except.ok.inj hr).symm
  | method recv name args =>
    simp only [rule] at hr
    split at hr
    · exact fin hr
    · exact .inl (Except.ok.inj hr).symm
  | _ => exact .inl (Except.ok.inj hr).symm

/-- if the rule is applied or not (`fold = false` inside a case constant) -/
theorem ruleOrNot_sound (hcfg : FreeCfg cfg) (fold : Bool) (sc : Scope) (X a' : AST) (env' : Env)
    (hr : (if fold = true then rule S M T cfg sc X else pure X) = .ok a')
    (henv : ∀ x, env'.has x = true → sc.find x ≠ none ∨ S x = none) {x : R Val}
    (h : Ev x (fun m => eval S M m X env')) : Ev x (fun m => eval S M m a' env') := by
  cases fold with
  | true => exact rule_sound_free hcfg sc X a' env' (by simpa using hr) henv h
  | false =>
    have : a' = X := by simpa [pure, Except.pure] using hr.symm
    rw [this]; exact h

/-! ## the invariant between the scope of the optimizer and the two environments -/

theorem Scope.find_cons (n : String) (b : Option AST) (rest : Scope) (x : String) :
    Scope.find ((n, b) :: rest) x = if n = x then some b else Scope.find rest x := rfl

/-- `sc` is the optimizer's scope, `L` the names bound at this point of the original program, `env`
the environment of the original program, `env'` that of the optimized one (it lacks the inlined
constants) -/
structure EnvB (S : Statics) (M : Methods) (sc : Scope) (L : List String) (env env' : Env) : Prop where
  inL : ∀ x, x ∈ L → sc.find x ≠ none
  cst : ∀ x k, sc.find x = some (some k) → lit k = true ∧
    ∃ v, env.get x = some v ∧ ∃ m0, ∀ (e : Env) (m : Nat), m0 ≤ m → eval S M m k e = .ok v
  rt : ∀ x, sc.find x = some none → S x = none ∧ env'.get x = env.get x
  un : ∀ x, sc.find x = none → env.get x = none ∧ env'.get x = none

theorem EnvB.henv {sc L env env'} (h : EnvB S M sc L env env') :
    ∀ x, env'.has x = true → sc.find x ≠ none ∨ S x = none := by
  intro x hx
  left
  intro hn
  have := (h.un x hn).2
  simp [Env.has, this] at hx

theorem EnvB.has_eq {sc L env env'} (h : EnvB S M sc L env env') (x : String)
    (hx : ∀ k, sc.find x ≠ some (some k)) : env'.has x = env.has x := by
  unfold Env.has
  cases hf : sc.find x with
  | none => rw [(h.un x hf).1, (h.un x hf).2]
  | some b =>
    cases b with
    | none => rw [(h.rt x hf).2]
    | some k => exact absurd hf (hx k)

theorem EnvB.letConst {sc L env env'} (h : EnvB S M sc L env env') (x : String) (k : AST) (v : Val)
    (hk : lit k = true) (hv : ∃ m0, ∀ (e : Env) (m : Nat), m0 ≤ m → eval S M m k e = .ok v) :
    EnvB S M ((x, some k) :: sc) (x :: L) ((x, v) :: env) env' := by
  refine ⟨fun y hy => ?_, fun y k' hy => ?_, fun y hy => ?_, fun y hy => ?_⟩
  · rw [Scope.find_cons]
    by_cases hxy : x = y
    · simp [hxy]
    · simp only [hxy, if_false]
      rcases List.mem_cons.mp hy with rfl | hy
      · exact absurd rfl hxy
      · exact h.inL y hy
  · rw [Scope.find_cons] at hy
    by_cases hxy : x = y
    · simp only [hxy, if_true, Option.some.injEq] at hy
      subst hy
      exact ⟨hk, v, by simp [Env.get, hxy], hv⟩
    · simp only [hxy, if_false] at hy
      obtain ⟨h1, v', h2, h3⟩ := h.cst y k' hy
      exact ⟨h1, v', by simp only [Env.get, hxy, if_false]; exact h2, h3⟩
  · rw [Scope.find_cons] at hy
    by_cases hxy : x = y
    · simp [hxy] at hy
    · simp only [hxy, if_false] at hy
      obtain ⟨h1, h2⟩ := h.rt y hy
      exact ⟨h1, by simp only [Env.get, hxy, if_false]; exact h2⟩
  · rw [Scope.find_cons] at hy
    by_cases hxy : x = y
    · simp [hxy] at hy
    · simp only [hxy, if_false] at hy
      obtain ⟨h1, h2⟩ := h.un y hy
      exact ⟨by simp only [Env.get, hxy, if_false]; exact h1, h2⟩

theorem EnvB.letRt {sc L env env'} (h : EnvB S M sc L env env') (x : String) (v : Val) (hS : S x = none) :
    EnvB S M ((x, none) :: sc) (x :: L) ((x, v) :: env) ((x, v) :: env') := by
  refine ⟨fun y hy => ?_, fun y k' hy => ?_, fun y hy => ?_, fun y hy => ?_⟩
  · rw [Scope.find_cons]
    by_cases hxy : x = y
    · simp [hxy]
    · simp only [hxy, if_false]
      rcases List.mem_cons.mp hy with rfl | hy
      · exact absurd rfl hxy
      · exact h.inL y hy
  · rw [Scope.find_cons] at hy
    by_cases hxy : x = y
    · simp [hxy] at hy
    · simp only [hxy, if_false] at hy
      obtain ⟨h1, v', h2, h3⟩ := h.cst y k' hy
      exact ⟨h1, v', by simp only [Env.get, hxy, if_false]; exact h2, h3⟩
  · rw [Scope.find_cons] at hy
    by_cases hxy : x = y
    · subst hxy
      exact ⟨hS, by simp [Env.get]⟩
    · simp only [hxy, if_false] at hy
      obtain ⟨h1, h2⟩ := h.rt y hy
      exact ⟨h1, by simp only [Env.get, hxy, if_false]; exact h2⟩
  · rw [Scope.find_cons] at hy
    by_cases hxy : x = y
    · simp [hxy] at hy
    · simp only [hxy, if_false] at hy
      obtain ⟨h1, h2⟩ := h.un y hy
      exact ⟨by simp only [Env.get, hxy, if_false]; exact h1, by simp only [Env.get, hxy, if_false]; exact h2⟩

theorem guardName_ok {x : String} (h : guardName S x = .ok ()) : S x = none := by
  unfold guardName at h
  split at h
  · cases h
  · rename_i hs
    cases hx : S x with
    | none => rfl
    | some p => simp [hx] at hs

theorem lit_not_ident {k : AST} (h : lit k = true) (g : String) : k ≠ .ident g := by
  intro hk; subst hk; simp [lit] at h

theorem ruleOrNot_ident (hreg : cfg.regroup = false) {fold : Bool} {sc : Scope} {X : AST} {g : String}
    (h : (if fold = true then rule S M T cfg sc X else pure X) = .ok (.ident g))
    (hX : X ≠ .ident g) (hif : ∀ c t e, X ≠ .ifE c t e) : False := by
  cases fold with
  | false => exact hX (by simpa [pure, Except.pure] using h)
  | true =>
    simp only [if_true] at h
    rcases rule_cases hreg h with h1 | ⟨v, hv⟩ | ⟨b, t, e, h1, _⟩
    · exact hX h1.symm
    · exact reify_not_ident v g hv
    · exact hif _ _ _ h1

/-- the identifiers that can become the whole optimized expression (through `let` inlining and the
`if` rule) are bound -/
def idBound : List String → AST → Bool
  | L, .ident x => L.contains x
  | L, .letE x _ i => idBound (x :: L) i
  | L, .ifE _ t e => idBound L t && idBound L e
  | _, _ => true

theorem closureFree_idBound : ∀ (a : AST) (L : List String), closureFree S L a = true → idBound L a = true
  | .ident x, L, h => by simpa [closureFree, idBound] using h
  | .letE x v i, L, h => by
    simp only [closureFree, Bool.and_eq_true] at h
    simp only [idBound]; exact closureFree_idBound i (x :: L) h.2
  | .ifE c t e, L, h => by
    simp only [closureFree, Bool.and_eq_true] at h
    simp only [idBound, Bool.and_eq_true]
    exact ⟨closureFree_idBound t L h.1.2, closureFree_idBound e L h.2⟩
  | .const _, _, _ => rfl
  | .switchE .., _, _ => rfl
  | .tryE .., _, _ => rfl
  | .unary .., _, _ => rfl
  | .binop .., _, _ => rfl
  | .clos .., _, _ => rfl
  | .listLit .., _, _ => rfl
  | .index .., _, _ => rfl
  | .mapLit .., _, _ => rfl
  | .member .., _, _ => rfl
  | .call .., _, _ => rfl
  | .method .., _, _ => rfl

/-- an identifier that the optimizer leaves (or makes) the whole expression is a run-time variable
of the scope -/
theorem opt_ident (hcfg : cfg.regroup = false) : ∀ (f : AST) (fold : Bool) (sc : Scope) (L : List String) (g : String),
    opt S M T cfg fold sc f = .ok (.ident g) → idBound L f = true →
    (∀ x, x ∈ L → sc.find x ≠ none) → (∀ x k, sc.find x = some (some k) → isConst S cfg k = true) →
    sc.find g = some none
  | .ident x, fold, sc, L, g, h, hcf, inL, cl => by
    simp only [opt] at h
    simp only [idBound, List.contains_iff_mem] at hcf
    cases hf : sc.find x with
    | none => exact absurd hf (inL x hcf)
    | some b =>
      cases b with
      | none =>
        simp only [hf] at h
        have : x = g := by simpa [pure, Except.pure] using h
        rw [← this]; exact hf
      | some k =>
        simp only [hf] at h
        have : k = .ident g := by simpa [pure, Except.pure] using h
        have hk := cl x k hf
        rw [this] at hk
        simp [isConst] at hk
  | .letE x v i, fold, sc, L, g, h, hcf, inL, cl => by
    simp only [opt] at h
    cases fold with
    | false => simp at h
    | true =>
      simp only [Bool.not_true, Bool.false_eq_true, if_false] at h
      obtain ⟨v', hv', h⟩ := ebind_ok h
      simp only [idBound] at hcf
      by_cases hc : isConst S cfg v' = true
      · simp only [hc, if_true] at h
        have hlit := hc
        have := opt_ident hcfg i true ((x, some v') :: sc) (x :: L) g h hcf
          (fun y hy => by
            rw [Scope.find_cons]
            by_cases hxy : x = y
            · simp [hxy]
            · simp only [hxy, if_false]
              rcases List.mem_cons.mp hy with rfl | hy
              · exact absurd rfl hxy
              · exact inL y hy)
          (fun y k hy => by
            rw [Scope.find_cons] at hy
            by_cases hxy : x = y
            · simp only [hxy, if_true, Option.some.injEq] at hy
              subst hy; exact hlit
            · simp only [hxy, if_false] at hy
              exact cl y k hy)
        rw [Scope.find_cons] at this
        by_cases hxg : x = g
        · simp [hxg] at this
        · simpa only [hxg, if_false] using this
      · simp only [hc] at h
        obtain ⟨_, _, h⟩ := ebind_ok h
        obtain ⟨i', _, h⟩ := ebind_ok h
        simp [pure, Except.pure] at h
  | .ifE c t e, fold, sc, L, g, h, hcf, inL, cl => by
    simp only [opt] at h
    obtain ⟨c', hc', h⟩ := ebind_ok h
    obtain ⟨t', ht', h⟩ := ebind_ok h
    obtain ⟨e', he', h⟩ := ebind_ok h
    simp only [idBound, Bool.and_eq_true] at hcf
    cases fold with
    | false => simp [pure, Except.pure] at h
    | true =>
      simp only [if_true] at h
      rcases rule_cases hcfg h with h1 | ⟨v, hv⟩ | ⟨b, t1, e1, h1, h2⟩
      · cases h1
      · exact absurd hv (reify_not_ident v g)
      · injection h1 with _ h3 h4
        subst h3; subst h4
        cases b with
        | true =>
          simp only [if_true] at h2
          exact opt_ident hcfg t true sc L g (by rw [ht', h2]) hcf.1 inL cl
        | false =>
          simp only [Bool.false_eq_true, if_false] at h2
          exact opt_ident hcfg e true sc L g (by rw [he', h2]) hcf.2 inL cl
  | .const c, fold, sc, L, g, h, _, _, _ => by simp [opt, pure, Except.pure] at h
  | .switchE v cases d, fold, sc, L, g, h, _, _, _ => by
    simp only [opt] at h
    obtain ⟨_, _, h⟩ := ebind_ok h
    obtain ⟨_, _, h⟩ := ebind_ok h
    obtain ⟨_, _, h⟩ := ebind_ok h
    simp [pure, Except.pure] at h
  | .tryE t c, fold, sc, L, g, h, _, _, _ => by
    simp only [opt] at h
    obtain ⟨_, _, h⟩ := ebind_ok h
    obtain ⟨_, _, h⟩ := ebind_ok h
    simp [pure, Except.pure] at h
  | .unary op a, fold, sc, L, g, h, _, _, _ => by
    simp only [opt] at h
    obtain ⟨_, _, h⟩ := ebind_ok h
    exact (ruleOrNot_ident hcfg h (by simp) (by simp)).elim
  | .binop op a b, fold, sc, L, g, h, _, _, _ => by
    simp only [opt] at h
    obtain ⟨_, _, h⟩ := ebind_ok h
    obtain ⟨_, _, h⟩ := ebind_ok h
    exact (ruleOrNot_ident hcfg h (by simp) (by simp)).elim
  | .clos names body outer r this, fold, sc, L, g, h, _, _, _ => by
    simp only [opt] at h
    cases fold with
    | false => simp at h
    | true =>
      simp only [Bool.not_true, Bool.false_eq_true, if_false] at h
      obtain ⟨_, _, h⟩ := ebind_ok h
      by_cases ht : this ≠ ""
      · rw [if_pos ht] at h
        obtain ⟨_, _, h⟩ := ebind_ok h
        obtain ⟨_, _, h⟩ := ebind_ok h
        simp [pure, Except.pure] at h
      · rw [if_neg ht] at h
        obtain ⟨_, _, h⟩ := ebind_ok h
        simp [pure, Except.pure] at h
  | .listLit items, fold, sc, L, g, h, _, _, _ => by
    simp only [opt] at h
    obtain ⟨_, _, h⟩ := ebind_ok h
    simp [pure, Except.pure] at h
  | .index i l, fold, sc, L, g, h, _, _, _ => by
    simp only [opt] at h
    obtain ⟨_, _, h⟩ := ebind_ok h
    obtain ⟨_, _, h⟩ := ebind_ok h
    exact (ruleOrNot_ident hcfg h (by simp) (by simp)).elim
  | .mapLit kvs, fold, sc, L, g, h, _, _, _ => by
    simp only [opt] at h
    obtain ⟨_, _, h⟩ := ebind_ok h
    simp [pure, Except.pure] at h
  | .member m key, fold, sc, L, g, h, _, _, _ => by
    simp only [opt] at h
    obtain ⟨_, _, h⟩ := ebind_ok h
    exact (ruleOrNot_ident hcfg h (by simp) (by simp)).elim
  | .call f args, fold, sc, L, g, h, _, _, _ => by
    simp only [opt] at h
    obtain ⟨_, _, h⟩ := ebind_ok h
    obtain ⟨_, _, h⟩ := ebind_ok h
    exact (ruleOrNot_ident hcfg h (by simp) (by simp)).elim
  | .method recv name args, fold, sc, L, g, h, _, _, _ => by
    simp only [opt] at h
    obtain ⟨_, _, h⟩ := ebind_ok h
    obtain ⟨_, _, h⟩ := ebind_ok h
    exact (ruleOrNot_ident hcfg h (by simp) (by simp)).elim

/-! ## the simulation -/

theorem optList_length : ∀ (fold : Bool) (sc : Scope) (as as' : List AST),
    optList S M T cfg fold sc as = .ok as' → as'.length = as.length
  | _, _, [], as', h => by
    have : as' = [] := by simpa [optList, pure, Except.pure] using h.symm
    rw [this]
  | fold, sc, a :: as, as', h => by
    simp only [optList] at h
    obtain ⟨a1, _, h⟩ := ebind_ok h
    obtain ⟨as1, h1, h⟩ := ebind_ok h
    have : as' = a1 :: as1 := by simpa [pure, Except.pure] using h.symm
    rw [this]
    simp [optList_length fold sc as as1 h1]

/-- the statements at fuel `n` -/
structure SimB (S : Statics) (M : Methods) (T : Tables) (cfg : Cfg) (n : Nat) : Prop where
  expr : ∀ fold sc L a a' env env', opt S M T cfg fold sc a = .ok a' → closureFree S L a = true →
    EnvB S M sc L env env' → Ev (eval S M n a env) (fun m => eval S M m a' env')
  args : ∀ fold sc L as as' env env', optList S M T cfg fold sc as = .ok as' → closureFreeList S L as = true →
    EnvB S M sc L env env' → Ev (evalArgs S M n as env) (fun m => evalArgs S M m as' env')
  list : ∀ fold sc L as as' env env', optList S M T cfg fold sc as = .ok as' → closureFreeList S L as = true →
    EnvB S M sc L env env' → Ev (evalList S M n as env) (fun m => evalList S M m as' env')
  kvs : ∀ fold sc L as as' env env', optKVs S M T cfg fold sc as = .ok as' → closureFreeKVs S L as = true →
    EnvB S M sc L env env' → Ev (evalKVs S M n as env) (fun m => evalKVs S M m as' env')
  cases : ∀ fold sc L cs cs' d d' x env env', optCases S M T cfg fold sc cs = .ok cs' →
    opt S M T cfg fold sc d = .ok d' → closureFreeCases S L cs = true → closureFree S L d = true →
    EnvB S M sc L env env' →
    Ev (evalCases S M n x cs d env) (fun m => evalCases S M m x cs' d' env')

section Step
variable {n : Nat}

/-- monotonicity, in the form the simulation uses it -/
theorem ev_eval (a : AST) (env : Env) : Ev (eval S M n a env) (fun m => eval S M m a env) :=
  Ev.of_le n (fun m hm => (eval_mono_all S M n).2.1 m a env hm)
theorem ev_applyS (f : Val) (args : List Val) : Ev (applyS S M n f args) (fun m => applyS S M m f args) :=
  Ev.of_le n (fun m hm => (eval_mono_all S M n).1 m f args hm)
theorem ev_binop (op : String) (x y : Val) :
    Ev (binop (applyS S M n) n op x y) (fun m => binop (applyS S M m) m op x y) :=
  Ev.of_le n (fun m hm => binop_mono (applyS_ApLe S M hm) n m op x y hm)
theorem ev_force (l : LList) : Ev (force (applyS S M n) n l) (fun m => force (applyS S M m) m l) :=
  Ev.of_le n (fun m hm => force_mono (applyS_ApLe S M hm) n m l hm)
theorem ev_valEq (x y : Val) : Ev (valEq (applyS S M n) n x y) (fun m => valEq (applyS S M m) m x y) :=
  Ev.of_le n (fun m hm => valEq_mono (applyS_ApLe S M hm) n m x y hm)
theorem ev_callStatic (name : String) (vs : List Val) :
    Ev (callStatic (applyS S M n) n name vs) (fun m => callStatic (applyS S M m) m name vs) :=
  Ev.of_le n (fun m hm => callStatic_mono (applyS_ApLe S M hm) n m name vs hm)
theorem ev_methodBody (name : String) (rv : Val) (vs : List Val) :
    Ev (methodBody (applyS S M n) n name rv vs) (fun m => methodBody (applyS S M m) m name rv vs) :=
  Ev.of_le n (fun m hm => methodBody_mono (applyS_ApLe S M hm) n m name rv vs hm)

theorem ev_one {α} {x : R α} {y : Nat → R α} (h : ∀ m, y (m + 1) = x) : Ev x y :=
  Ev.of_eq 1 (fun m hm => by
    cases m with
    | zero => omega
    | succ m => exact h m)

/-- the part of a call after the callee: same function value on both sides -/
theorem callK_ev (ih : SimB S M T cfg n) {fold sc L args args' env env'}
    (hargs : optList S M T cfg fold sc args = .ok args') (hcf : closureFreeList S L args = true)
    (he : EnvB S M sc L env env') (fv : Val) :
    Ev (evalCallK S M n args env fv) (fun m => evalCallK S M m args' env' fv) := by
  have hA := ih.args fold sc L args args' env env' hargs hcf he
  have hE := fun a env => ev_eval (S := S) (M := M) (n := n) a env
  unfold evalCallK
  rw [optList_length fold sc args args' hargs]
  ev

theorem methodK_ev (ih : SimB S M T cfg n) {fold sc L args args' env env'} (name : String)
    (hargs : optList S M T cfg fold sc args = .ok args') (hcf : closureFreeList S L args = true)
    (he : EnvB S M sc L env env') (rv : Val) :
    Ev (evalMethodK S M n name args env rv) (fun m => evalMethodK S M m name args' env' rv) := by
  have hA := ih.args fold sc L args args' env env' hargs hcf he
  have hE := fun a env => ev_eval (S := S) (M := M) (n := n) a env
  have hmb := fun name rv vs => ev_methodBody (S := S) (M := M) (n := n) name rv vs
  unfold evalMethodK
  rw [optList_length fold sc args args' hargs]
  ev

end Step

/-- the `try` node as a function of the outcome of the tried expression -/
def tryK (S : Statics) (M : Methods) (n : Nat) (c : AST) (env : Env) (rt : R Val) : R Val :=
  match rt with
  | .ok r => .ok r
  | .err => eval S M n c env >>= fun cv =>
      match cv with
      | .sclos [_] _ _ _ _ => applyS S M n cv [.str "<error>"]
      | _ => pure cv
  | .panic => eval S M n c env >>= fun cv =>
      match cv with
      | .sclos [_] _ _ _ _ => applyS S M n cv [.str "<error>"]
      | _ => pure cv
  | .fuel => .fuel
  | .unmodelled => .unmodelled

theorem eval_tryE' (n t c env) : eval S M (n+1) (.tryE t c) env = tryK S M n c env (eval S M n t env) := rfl

theorem call_dyn_form (n : Nat) (f : AST) (args : List AST) (env : Env)
    (h : ∀ name, f = .ident name → ¬ ((S name).isSome ∧ !Env.has env name)) :
    eval S M (n+1) (.call f args) env = (eval S M n f env >>= fun fv => evalCallK S M n args env fv) := by
  by_cases hid : ∃ name, f = .ident name
  · obtain ⟨name, rfl⟩ := hid
    exact eval_call_ident_dyn S M n name args env (h name rfl)
  · exact eval_call_dyn S M n f args env (fun name hf => hid ⟨name, hf⟩)

theorem step_expr (hcfg : FreeCfg cfg) {n : Nat} (ih : SimB S M T cfg n) :
    ∀ fold sc L a a' env env', opt S M T cfg fold sc a = .ok a' → closureFree S L a = true →
    EnvB S M sc L env env' → Ev (eval S M (n+1) a env) (fun m => eval S M m a' env') := by
  intro fold sc L a a' env env' h hcf he
  have hE := fun a env => ev_eval (S := S) (M := M) (n := n) a env
  have hAp := fun f args => ev_applyS (S := S) (M := M) (n := n) f args
  have hb := fun op x y => ev_binop (S := S) (M := M) (n := n) op x y
  have hf := fun l => ev_force (S := S) (M := M) (n := n) l
  have hs := fun name vs => ev_callStatic (S := S) (M := M) (n := n) name vs
  cases a with
  | const c =>
    have : a' = .const c := by simpa [opt, pure, Except.pure] using h.symm
    rw [this]
    exact ev_one (fun m => rfl)
  | ident x =>
    simp only [opt] at h
    cases hfd : sc.find x with
    | none =>
      simp only [hfd] at h
      have : a' = .ident x := by simpa [pure, Except.pure] using h.symm
      rw [this]
      refine ev_one (fun m => ?_)
      rw [eval_ident, eval_ident, (he.un x hfd).1, (he.un x hfd).2]
    | some b =>
      cases b with
      | none =>
        simp only [hfd] at h
        have : a' = .ident x := by simpa [pure, Except.pure] using h.symm
        rw [this]
        refine ev_one (fun m => ?_)
        rw [eval_ident, eval_ident, (he.rt x hfd).2]
      | some k =>
        simp only [hfd] at h
        have : a' = k := by simpa [pure, Except.pure] using h.symm
        rw [this]
        obtain ⟨_, v, hv, m0, hm0⟩ := he.cst x k hfd
        rw [eval_ident, hv]
        exact Ev.of_eq m0 (fun m hm => hm0 env' m hm)
  | letE x v i =>
    simp only [opt] at h
    cases fold with
    | false => simp at h
    | true =>
      simp only [Bool.not_true, Bool.false_eq_true, if_false] at h
      obtain ⟨v', hv', h⟩ := ebind_ok h
      simp only [closureFree, Bool.and_eq_true] at hcf
      have ihv := ih.expr true sc L v v' env env' hv' hcf.1 he
      by_cases hc : isConst S cfg v' = true
      · simp only [hc, if_true] at h
        have hlit := isConst_lit hcfg.foldClosures v' hc
        obtain ⟨w, hw⟩ := lit_total (S := S) (M := M) v' hlit
        rw [eval_letE]
        cases hrv : eval S M n v env with
        | fuel => exact Ev.fuel _
        | ok xv =>
          simp only [R.bind_ok]
          obtain ⟨m0, hm0⟩ := ihv.eq_of hrv (by simp)
          have hval := lit_value (S := S) (M := M) v' hlit ⟨m0, env', xv, hm0 m0 (Nat.le_refl _)⟩
          obtain ⟨v2, m1, hm1⟩ := hval
          have : v2 = xv := by
            have h1 := hm1 env' (max m0 m1) (by omega)
            have h2 := hm0 (max m0 m1) (by omega)
            rw [h1] at h2; exact R.ok.inj h2
          subst this
          exact ih.expr true _ (x :: L) i a' _ env' h hcf.2 (he.letConst x v' v2 hlit ⟨m1, hm1⟩)
        | err =>
          obtain ⟨m0, hm0⟩ := ihv.eq_of hrv (by simp)
          have h1 := hm0 (max m0 (need v')) (by omega)
          rw [hw env' _ (by omega)] at h1
          cases h1
        | panic =>
          obtain ⟨m0, hm0⟩ := ihv.eq_of hrv (by simp)
          have h1 := hm0 (max m0 (need v')) (by omega)
          rw [hw env' _ (by omega)] at h1
          cases h1
        | unmodelled =>
          obtain ⟨m0, hm0⟩ := ihv.eq_of hrv (by simp)
          have h1 := hm0 (max m0 (need v')) (by omega)
          rw [hw env' _ (by omega)] at h1
          cases h1
      · simp only [hc] at h
        obtain ⟨_, hg, h⟩ := ebind_ok h
        obtain ⟨i', hi', h⟩ := ebind_ok h
        have : a' = .letE x v' i' := by simpa [pure, Except.pure] using h.symm
        rw [this]
        have hS := guardName_ok hg
        apply Ev.of_succ
        simp only [eval_letE]
        refine Ev.bind ihv (fun xv => ?_)
        exact ih.expr true _ (x :: L) i i' _ _ hi' hcf.2 (he.letRt x xv hS)
  | ifE c t e =>
    simp only [opt] at h
    obtain ⟨c', hc', h⟩ := ebind_ok h
    obtain ⟨t', ht', h⟩ := ebind_ok h
    obtain ⟨e', he', h⟩ := ebind_ok h
    simp only [closureFree, Bool.and_eq_true] at hcf
    have i1 := ih.expr fold sc L c c' env env' hc' hcf.1.1 he
    have i2 := ih.expr fold sc L t t' env env' ht' hcf.1.2 he
    have i3 := ih.expr fold sc L e e' env env' he' hcf.2 he
    refine ruleOrNot_sound hcfg fold sc _ a' env' h he.henv ?_
    apply Ev.of_succ
    simp only [eval_ifE]
    ev
  | switchE v cases d =>
    simp only [opt] at h
    obtain ⟨v', hv', h⟩ := ebind_ok h
    obtain ⟨cases', hcs', h⟩ := ebind_ok h
    obtain ⟨d', hd', h⟩ := ebind_ok h
    have : a' = .switchE v' cases' d' := by simpa [pure, Except.pure] using h.symm
    rw [this]
    simp only [closureFree, Bool.and_eq_true] at hcf
    have i1 := ih.expr fold sc L v v' env env' hv' hcf.1.1 he
    have i2 := fun x => ih.cases fold sc L cases cases' d d' x env env' hcs' hd' hcf.1.2 hcf.2 he
    apply Ev.of_succ
    simp only [eval_switchE]
    ev
  | tryE t c =>
    simp only [opt] at h
    obtain ⟨t', ht', h⟩ := ebind_ok h
    obtain ⟨c', hc', h⟩ := ebind_ok h
    have : a' = .tryE t' c' := by simpa [pure, Except.pure] using h.symm
    rw [this]
    simp only [closureFree, Bool.and_eq_true] at hcf
    have i1 := ih.expr fold sc L t t' env env' ht' hcf.1 he
    have i2 := ih.expr fold sc L c c' env env' hc' hcf.2 he
    apply Ev.of_succ
    simp only [eval_tryE']
    refine Ev.subst (F := fun m r => tryK S M m c' env' r) i1 (fun hx => by rw [hx]; rfl) (fun _ => ?_)
    cases eval S M n t env <;> simp only [tryK] <;> ev
  | unary op a1 =>
    simp only [opt] at h
    obtain ⟨a1', h1, h⟩ := ebind_ok h
    simp only [closureFree] at hcf
    have i1 := ih.expr fold sc L a1 a1' env env' h1 hcf he
    refine ruleOrNot_sound hcfg fold sc _ a' env' h he.henv ?_
    apply Ev.of_succ
    simp only [eval_unary]
    ev
  | binop op a1 b1 =>
    simp only [opt] at h
    obtain ⟨a1', h1, h⟩ := ebind_ok h
    obtain ⟨b1', h2, h⟩ := ebind_ok h
    simp only [closureFree, Bool.and_eq_true] at hcf
    have i1 := ih.expr fold sc L a1 a1' env env' h1 hcf.1 he
    have i2 := ih.expr fold sc L b1 b1' env env' h2 hcf.2 he
    refine ruleOrNot_sound hcfg fold sc _ a' env' h he.henv ?_
    apply Ev.of_succ
    simp only [eval_binop]
    ev
  | clos names body outer r this => simp [closureFree] at hcf
  | listLit items =>
    simp only [opt] at h
    obtain ⟨items', h1, h⟩ := ebind_ok h
    have : a' = .listLit items' := by simpa [pure, Except.pure] using h.symm
    rw [this]
    simp only [closureFree] at hcf
    have i1 := ih.list fold sc L items items' env env' h1 hcf he
    apply Ev.of_succ
    simp only [eval_listLit]
    ev
  | index i l =>
    simp only [opt] at h
    obtain ⟨i', h1, h⟩ := ebind_ok h
    obtain ⟨l', h2, h⟩ := ebind_ok h
    simp only [closureFree, Bool.and_eq_true] at hcf
    have i1 := ih.expr fold sc L i i' env env' h1 hcf.1 he
    have i2 := ih.expr fold sc L l l' env env' h2 hcf.2 he
    refine ruleOrNot_sound hcfg fold sc _ a' env' h he.henv ?_
    apply Ev.of_succ
    simp only [eval_index]
    ev
  | mapLit kvs =>
    simp only [opt] at h
    obtain ⟨kvs', h1, h⟩ := ebind_ok h
    have : a' = .mapLit kvs' := by simpa [pure, Except.pure] using h.symm
    rw [this]
    simp only [closureFree] at hcf
    have i1 := ih.kvs fold sc L kvs kvs' env env' h1 hcf he
    apply Ev.of_succ
    simp only [eval_mapLit]
    ev
  | member m key =>
    simp only [opt] at h
    obtain ⟨m', h1, h⟩ := ebind_ok h
    simp only [closureFree] at hcf
    have i1 := ih.expr fold sc L m m' env env' h1 hcf he
    refine ruleOrNot_sound hcfg fold sc _ a' env' h he.henv ?_
    apply Ev.of_succ
    simp only [eval_member]
    ev
  | call f args =>
    simp only [opt] at h
    obtain ⟨f', h1, h⟩ := ebind_ok h
    obtain ⟨args', h2, h⟩ := ebind_ok h
    refine ruleOrNot_sound hcfg fold sc _ a' env' h he.henv ?_
    have hcfargs : closureFreeList S L args = true := by
      simp only [closureFree, Bool.and_eq_true] at hcf; exact hcf.2
    have hK := fun fv => callK_ev ih h2 hcfargs he fv
    have hA := ih.args fold sc L args args' env env' h2 hcfargs he
    apply Ev.of_succ
    by_cases hst : ∃ name, f = .ident name ∧ (S name).isSome ∧ !env.has name
    · -- a static call in the original program
      obtain ⟨name, rfl, hst⟩ := hst
      have hnc : ∀ k, sc.find name ≠ some (some k) := by
        intro k hk
        obtain ⟨_, v, hv, _⟩ := he.cst name k hk
        simp [Env.has, hv] at hst
      have hf' : f' = .ident name := by
        cases hfd : sc.find name with
        | none => simp only [opt, hfd] at h1; simpa [pure, Except.pure] using h1.symm
        | some b =>
          cases b with
          | none => simp only [opt, hfd] at h1; simpa [pure, Except.pure] using h1.symm
          | some k => exact absurd hfd (hnc k)
      subst hf'
      have hst' : (S name).isSome ∧ !env'.has name := by rw [he.has_eq name hnc]; exact hst
      rw [eval_call_static S M n name args env hst]
      simp only [eval_call_static S M _ name args' env' hst']
      ev
    · -- a dynamic call
      have hdyn : ∀ name, f = .ident name → ¬ ((S name).isSome ∧ !env.has name) :=
        fun name hf hs => hst ⟨name, hf, hs⟩
      have ihf : Ev (eval S M n f env) (fun m => eval S M m f' env') := by
        by_cases hid : ∃ name, f = .ident name
        · obtain ⟨name, rfl⟩ := hid
          have hfd : sc.find name ≠ none := by
            intro hn
            have hnot := hdyn name rfl
            have hget := (he.un name hn).1
            simp only [closureFree, Bool.and_eq_true, Bool.or_eq_true, List.contains_iff_mem] at hcf
            rcases hcf.1 with hm | hs
            · exact he.inL name hm hn
            · exact hnot ⟨hs, by simp [Env.has, hget]⟩
          have he' : EnvB S M sc (name :: L) env env' :=
            ⟨fun y hy => by
              rcases List.mem_cons.mp hy with rfl | hy
              · exact hfd
              · exact he.inL y hy, he.cst, he.rt, he.un⟩
          exact ih.expr fold sc (name :: L) _ f' env env' h1 (by simp [closureFree]) he'
        · have : closureFree S L f = true := by
            simp only [closureFree, Bool.and_eq_true] at hcf
            cases f with
            | ident name => exact absurd ⟨name, rfl⟩ hid
            | _ => exact hcf.1
          exact ih.expr fold sc L f f' env env' h1 this he
      have hdyn' : ∀ g, f' = .ident g → ¬ ((S g).isSome ∧ !env'.has g) := by
        intro g hg
        by_cases hid : ∃ name, f = .ident name
        · obtain ⟨name, rfl⟩ := hid
          cases hfd : sc.find name with
          | none =>
            simp only [opt, hfd] at h1
            have : f' = .ident name := by simpa [pure, Except.pure] using h1.symm
            rw [this] at hg
            have hgn : name = g := by injection hg
            rw [← hgn, he.has_eq name (by simp [hfd])]
            exact hdyn name rfl
          | some b =>
            cases b with
            | none =>
              simp only [opt, hfd] at h1
              have : f' = .ident name := by simpa [pure, Except.pure] using h1.symm
              rw [this] at hg
              have hgn : name = g := by injection hg
              rw [← hgn, he.has_eq name (by simp [hfd])]
              exact hdyn name rfl
            | some k =>
              simp only [opt, hfd] at h1
              have : f' = k := by simpa [pure, Except.pure] using h1.symm
              rw [this] at hg
              exact absurd hg (lit_not_ident (he.cst name k hfd).1 g)
        · have hcff : closureFree S L f = true := by
            simp only [closureFree, Bool.and_eq_true] at hcf
            cases f with
            | ident name => exact absurd ⟨name, rfl⟩ hid
            | _ => exact hcf.1
          subst hg
          have := opt_ident hcfg.regroup f fold sc L g h1 (closureFree_idBound f L hcff) he.inL
            (fun x k hk => lit_isConst k (he.cst x k hk).1)
          have hS := (he.rt g this).1
          simp [hS]
      rw [call_dyn_form n f args env hdyn]
      refine Ev.congr ?_ (fun m => call_dyn_form m f' args' env' hdyn')
      exact Ev.bind ihf hK
  | method recv name args =>
    simp only [opt] at h
    obtain ⟨recv', h1, h⟩ := ebind_ok h
    obtain ⟨args', h2, h⟩ := ebind_ok h
    simp only [closureFree, Bool.and_eq_true] at hcf
    have i1 := ih.expr fold sc L recv recv' env env' h1 hcf.1 he
    have i2 := fun rv => methodK_ev ih name h2 hcf.2 he rv
    refine ruleOrNot_sound hcfg fold sc _ a' env' h he.henv ?_
    apply Ev.of_succ
    simp only [eval_method]
    ev

theorem step_args {n : Nat} (ih : SimB S M T cfg n) :
    ∀ fold sc L as as' env env', optList S M T cfg fold sc as = .ok as' → closureFreeList S L as = true →
    EnvB S M sc L env env' → Ev (evalArgs S M (n+1) as env) (fun m => evalArgs S M m as' env') := by
  intro fold sc L as as' env env' h hcf he
  cases as with
  | nil =>
    have : as' = [] := by simpa [optList, pure, Except.pure] using h.symm
    rw [this]
    exact ev_one (fun m => rfl)
  | cons a as =>
    simp only [optList] at h
    obtain ⟨a1, h1, h⟩ := ebind_ok h
    obtain ⟨as1, h2, h⟩ := ebind_ok h
    have : as' = a1 :: as1 := by simpa [pure, Except.pure] using h.symm
    rw [this]
    simp only [closureFreeList, Bool.and_eq_true] at hcf
    have i1 := ih.expr fold sc L a a1 env env' h1 hcf.1 he
    have i2 := ih.args fold sc L as as1 env env' h2 hcf.2 he
    apply Ev.of_succ
    simp only [evalArgs_cons]
    ev

theorem step_list {n : Nat} (ih : SimB S M T cfg n) :
    ∀ fold sc L as as' env env', optList S M T cfg fold sc as = .ok as' → closureFreeList S L as = true →
    EnvB S M sc L env env' → Ev (evalList S M (n+1) as env) (fun m => evalList S M m as' env') := by
  intro fold sc L as as' env env' h hcf he
  cases as with
  | nil =>
    have : as' = [] := by simpa [optList, pure, Except.pure] using h.symm
    rw [this]
    exact ev_one (fun m => rfl)
  | cons a as =>
    simp only [optList] at h
    obtain ⟨a1, h1, h⟩ := ebind_ok h
    obtain ⟨as1, h2, h⟩ := ebind_ok h
    have : as' = a1 :: as1 := by simpa [pure, Except.pure] using h.symm
    rw [this]
    simp only [closureFreeList, Bool.and_eq_true] at hcf
    have i1 := ih.expr fold sc L a a1 env env' h1 hcf.1 he
    have i2 := ih.list fold sc L as as1 env env' h2 hcf.2 he
    apply Ev.of_succ
    simp only [evalList_cons]
    ev

theorem step_kvs {n : Nat} (ih : SimB S M T cfg n) :
    ∀ fold sc L as as' env env', optKVs S M T cfg fold sc as = .ok as' → closureFreeKVs S L as = true →
    EnvB S M sc L env env' → Ev (evalKVs S M (n+1) as env) (fun m => evalKVs S M m as' env') := by
  intro fold sc L as as' env env' h hcf he
  rcases as with _ | ⟨⟨key, a⟩, as⟩
  · have : as' = [] := by simpa [optKVs, pure, Except.pure] using h.symm
    rw [this]
    exact ev_one (fun m => rfl)
  · simp only [optKVs] at h
    obtain ⟨a1, h1, h⟩ := ebind_ok h
    obtain ⟨as1, h2, h⟩ := ebind_ok h
    have : as' = (key, a1) :: as1 := by simpa [pure, Except.pure] using h.symm
    rw [this]
    simp only [closureFreeKVs, Bool.and_eq_true] at hcf
    have i1 := ih.expr fold sc L a a1 env env' h1 hcf.1 he
    have i2 := ih.kvs fold sc L as as1 env env' h2 hcf.2 he
    apply Ev.of_succ
    simp only [evalKVs_cons]
    ev

theorem step_cases {n : Nat} (ih : SimB S M T cfg n) :
    ∀ fold sc L cs cs' d d' x env env', optCases S M T cfg fold sc cs = .ok cs' →
    opt S M T cfg fold sc d = .ok d' → closureFreeCases S L cs = true → closureFree S L d = true →
    EnvB S M sc L env env' →
    Ev (evalCases S M (n+1) x cs d env) (fun m => evalCases S M m x cs' d' env') := by
  intro fold sc L cs cs' d d' x env env' h hd hcf hcfd he
  have hve := fun x y => ev_valEq (S := S) (M := M) (n := n) x y
  rcases cs with _ | ⟨⟨c, r⟩, rest⟩
  · have : cs' = [] := by simpa [optCases, pure, Except.pure] using h.symm
    rw [this]
    have i1 := ih.expr fold sc L d d' env env' hd hcfd he
    apply Ev.of_succ
    simp only [evalCases_nil]
    exact i1
  · simp only [optCases] at h
    obtain ⟨c1, h1, h⟩ := ebind_ok h
    obtain ⟨r1, h2, h⟩ := ebind_ok h
    obtain ⟨rest1, h3, h⟩ := ebind_ok h
    have : cs' = (c1, r1) :: rest1 := by simpa [pure, Except.pure] using h.symm
    rw [this]
    simp only [closureFreeCases, Bool.and_eq_true] at hcf
    have i1 := ih.expr false sc L c c1 env env' h1 hcf.1.1 he
    have i2 := ih.expr fold sc L r r1 env env' h2 hcf.1.2 he
    have i3 := fun x => ih.cases fold sc L rest rest1 d d' x env env' h3 hd hcf.2 hcfd he
    apply Ev.of_succ
    simp only [evalCases_cons]
    ev

/-- **the simulation**: at every fuel, for every closure-free well-scoped program -/
theorem simB (hcfg : FreeCfg cfg) : ∀ n, SimB S M T cfg n
  | 0 => ⟨fun _ _ _ _ _ _ _ _ _ _ => Ev.fuel _, fun _ _ _ _ _ _ _ _ _ _ => Ev.fuel _,
          fun _ _ _ _ _ _ _ _ _ _ => Ev.fuel _, fun _ _ _ _ _ _ _ _ _ _ => Ev.fuel _,
          fun _ _ _ _ _ _ _ _ _ _ _ _ _ _ _ => Ev.fuel _⟩
  | n+1 =>
    have ih := simB hcfg n
    ⟨step_expr hcfg ih, step_args ih, step_list ih, step_kvs ih, step_cases ih⟩

/-! ## the top level -/

theorem guardNames_ok : ∀ (names : List String), guardNames S names = .ok () → ∀ x, x ∈ names → S x = none
  | [], _, x, hx => by simp at hx
  | y :: ys, h, x, hx => by
    simp only [guardNames] at h
    obtain ⟨_, h1, h2⟩ := ebind_ok h
    rcases List.mem_cons.mp hx with rfl | hx
    · exact guardName_ok h1
    · exact guardNames_ok ys h2 x hx

theorem Scope.find_params : ∀ (names : List String) (x : String),
    Scope.find (names.map (fun n => (n, (none : Option AST)))) x = if x ∈ names then some none else none
  | [], x => by simp [Scope.find]
  | y :: ys, x => by
    simp only [List.map_cons, Scope.find_cons, Scope.find_params ys x, List.mem_cons]
    by_cases hxy : y = x
    · simp [hxy]
    · have : ¬ x = y := fun e => hxy e.symm
      simp [hxy, this]

theorem Env.get_none_of_not_mem : ∀ (env : Env) (x : String), (∀ p, p ∈ env → p.1 ≠ x) → Env.get env x = none
  | [], _, _ => rfl
  | (n, v) :: rest, x, h => by
    simp only [Env.get]
    have : n ≠ x := h (n, v) (by simp)
    simp only [this, if_false]
    exact Env.get_none_of_not_mem rest x (fun p hp => h p (by simp [hp]))

theorem bindParams_names : ∀ (names : List String) (vs : List Val) (p : String × Val),
    p ∈ bindParams names vs → p.1 ∈ names
  | [], _, p, h => by simp [bindParams] at h
  | _ :: _, [], p, h => by simp [bindParams] at h
  | n :: ns, v :: vs, p, h => by
    simp only [bindParams, List.mem_cons] at h
    rcases h with rfl | h
    · simp
    · exact List.mem_cons_of_mem _ (bindParams_names ns vs p h)

/-- the invariant at the top level: all names are run-time variables, both programs start in the
same environment -/
theorem EnvB.top (argNames : List String) (args : List Val) (hg : guardNames S argNames = .ok ()) :
    EnvB S M (argNames.reverse.map (fun n => (n, none))) argNames
      (bindParams argNames args).reverse (bindParams argNames args).reverse := by
  refine ⟨fun x hx => ?_, fun x k hx => ?_, fun x hx => ?_, fun x hx => ?_⟩
  · rw [Scope.find_params]; simp [hx]
  · rw [Scope.find_params] at hx; split at hx <;> simp at hx
  · rw [Scope.find_params] at hx
    split at hx
    · rename_i hm
      exact ⟨guardNames_ok argNames hg x (by simpa using hm), rfl⟩
    · simp at hx
  · rw [Scope.find_params] at hx
    split at hx
    · simp at hx
    · rename_i hm
      have : Env.get (bindParams argNames args).reverse x = none :=
        Env.get_none_of_not_mem _ x (fun p hp hpx => hm (by
          have := bindParams_names argNames args p (by simpa using hp)
          rw [hpx] at this; simpa using this))
      exact ⟨this, this⟩

end P2.Lang.Opt
