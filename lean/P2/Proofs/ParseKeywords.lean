import P2.Proofs.ParseBalanced
/-! # Accepted programs pair their keywords (all forms, every table)

In every accepted program there are as many `then` as `if`, as many `else` as `if`, as many `catch` as
`try` and as many `default` as `switch` — for every function of the Parse model the consumed tokens have
surplus zero. Hence deleting a single `then/else/catch/default` from an accepted program (or inserting
one) is never accepted. Same marking technique as `ParseFuel`/`ParseBalanced`. -/
namespace P2.Parse

def kwW (plus minus : String) : Tok → Int
  | .kw s => if s = plus then 1 else if s = minus then -1 else 0
  | _ => 0
/-- surplus of the keyword `plus` over the keyword `minus` -/
def dK (plus minus : String) : List Tok → Int
  | [] => 0
  | x :: ts => kwW plus minus x + dK plus minus ts

/-- the tokens between `ts` and its suffix `rest` pair `if/then`, `if/else`, `try/catch`, `switch/default` -/
def KwBal (ts rest : List Tok) (sd : Int) : Prop :=
  dK "if" "then" ts = dK "if" "then" rest ∧ dK "if" "else" ts = dK "if" "else" rest ∧
  dK "try" "catch" ts = dK "try" "catch" rest ∧ dK "switch" "default" ts = dK "switch" "default" rest + sd

theorem markK {α : Type} {r : PR α} {ts : List Tok} {sd : Int}
    (h : ∀ a rest, r = .ok a rest → KwBal ts rest sd) (a : α) (rest : List Tok) :
    (r = .ok a rest) = (MkB r (.ok a rest) ∧ dK "if" "then" ts = dK "if" "then" rest ∧
      dK "if" "else" ts = dK "if" "else" rest ∧ dK "try" "catch" ts = dK "try" "catch" rest ∧
      dK "switch" "default" ts = dK "switch" "default" rest + sd) :=
  propext ⟨fun e => ⟨e, h a rest e⟩, fun e => e.1⟩

theorem isClose_eq (br : Bool) (x : Tok) : (isClose br x = true) = (x = (if br = true then Tok.rb else Tok.rp)) := by
  cases br <;> cases x <;> simp [isClose]

theorem kwW_close (p m : String) (br : Bool) : kwW p m (if br = true then Tok.rb else Tok.rp) = 0 := by
  cases br <;> rfl

theorem parseIdentList_kw (acc : List String) (ts : List Tok) (names : List String) (rest : List Tok) :
    parseIdentList acc ts = some (names, rest) → KwBal ts rest 0 := by
  fun_induction parseIdentList acc ts with
  | case1 => intro h; cases h
  | case2 => intro h; cases h; simp [KwBal, dK, kwW]
  | case3 => intro h; cases h
  | case4 acc s rest' hs ih =>
    intro h; have := ih h
    simp only [KwBal, dK, kwW] at *; omega
  | case5 => intro h; cases h

theorem identList_kw (acc names : List String) (ts rest : List Tok) :
    (parseIdentList acc ts = some (names, rest)) =
      (MkB (parseIdentList acc ts) (some (names, rest)) ∧ dK "if" "then" ts = dK "if" "then" rest ∧
      dK "if" "else" ts = dK "if" "else" rest ∧ dK "try" "catch" ts = dK "try" "catch" rest ∧
      dK "switch" "default" ts = dK "switch" "default" rest + 0) :=
  propext ⟨fun e => ⟨e, parseIdentList_kw _ _ _ _ e⟩, fun e => e.1⟩

structure KwAll (t : Table) (f : Nat) : Prop where
  pLet : ∀ σ ts a rest, parseLet t f σ ts = .ok a rest → KwBal ts rest 0
  pOp : ∀ σ k ts a rest, parseOp t f σ k ts = .ok a rest → KwBal ts rest 0
  pLoop : ∀ σ k o e ts a rest, loopOp t f σ k o e ts = .ok a rest → KwBal ts rest 0
  pUn : ∀ σ ts a rest, parseUnary t f σ ts = .ok a rest → KwBal ts rest 0
  pNon : ∀ σ ts a rest, parseNonOp t f σ ts = .ok a rest → KwBal ts rest 0
  pPost : ∀ σ e ts a rest, postfixLoop t f σ e ts = .ok a rest → KwBal ts rest 0
  pLit : ∀ σ ts a rest, parseLit t f σ ts = .ok a rest → KwBal ts rest 0
  pArgs : ∀ σ br ts a rest, parseArgs t f σ br ts = .ok a rest → KwBal ts rest 0
  pArgsL : ∀ σ br ts a rest, argsLoop t f σ br ts = .ok a rest → KwBal ts rest 0
  pMap : ∀ σ keys ts a rest, parseMap t f σ keys ts = .ok a rest → KwBal ts rest 0
  pCases : ∀ σ ts a rest, parseCases t f σ ts = .ok a rest → KwBal ts rest (-1)

section
variable {t : Table} {f : Nat} (L : KwAll t f)
include L
theorem KwAll.mLet σ ts a rest : (parseLet t f σ ts = .ok a rest) =
    (MkB (parseLet t f σ ts) (.ok a rest) ∧ dK "if" "then" ts = dK "if" "then" rest ∧
      dK "if" "else" ts = dK "if" "else" rest ∧ dK "try" "catch" ts = dK "try" "catch" rest ∧
      dK "switch" "default" ts = dK "switch" "default" rest + 0) :=
  markK (L.pLet σ ts) a rest
theorem KwAll.mOp σ k ts a rest : (parseOp t f σ k ts = .ok a rest) =
    (MkB (parseOp t f σ k ts) (.ok a rest) ∧ dK "if" "then" ts = dK "if" "then" rest ∧
      dK "if" "else" ts = dK "if" "else" rest ∧ dK "try" "catch" ts = dK "try" "catch" rest ∧
      dK "switch" "default" ts = dK "switch" "default" rest + 0) :=
  markK (L.pOp σ k ts) a rest
theorem KwAll.mLoop σ k o e ts a rest : (loopOp t f σ k o e ts = .ok a rest) =
    (MkB (loopOp t f σ k o e ts) (.ok a rest) ∧ dK "if" "then" ts = dK "if" "then" rest ∧
      dK "if" "else" ts = dK "if" "else" rest ∧ dK "try" "catch" ts = dK "try" "catch" rest ∧
      dK "switch" "default" ts = dK "switch" "default" rest + 0) :=
  markK (L.pLoop σ k o e ts) a rest
theorem KwAll.mUn σ ts a rest : (parseUnary t f σ ts = .ok a rest) =
    (MkB (parseUnary t f σ ts) (.ok a rest) ∧ dK "if" "then" ts = dK "if" "then" rest ∧
      dK "if" "else" ts = dK "if" "else" rest ∧ dK "try" "catch" ts = dK "try" "catch" rest ∧
      dK "switch" "default" ts = dK "switch" "default" rest + 0) :=
  markK (L.pUn σ ts) a rest
theorem KwAll.mNon σ ts a rest : (parseNonOp t f σ ts = .ok a rest) =
    (MkB (parseNonOp t f σ ts) (.ok a rest) ∧ dK "if" "then" ts = dK "if" "then" rest ∧
      dK "if" "else" ts = dK "if" "else" rest ∧ dK "try" "catch" ts = dK "try" "catch" rest ∧
      dK "switch" "default" ts = dK "switch" "default" rest + 0) :=
  markK (L.pNon σ ts) a rest
theorem KwAll.mPost σ e ts a rest : (postfixLoop t f σ e ts = .ok a rest) =
    (MkB (postfixLoop t f σ e ts) (.ok a rest) ∧ dK "if" "then" ts = dK "if" "then" rest ∧
      dK "if" "else" ts = dK "if" "else" rest ∧ dK "try" "catch" ts = dK "try" "catch" rest ∧
      dK "switch" "default" ts = dK "switch" "default" rest + 0) :=
  markK (L.pPost σ e ts) a rest
theorem KwAll.mLit σ ts a rest : (parseLit t f σ ts = .ok a rest) =
    (MkB (parseLit t f σ ts) (.ok a rest) ∧ dK "if" "then" ts = dK "if" "then" rest ∧
      dK "if" "else" ts = dK "if" "else" rest ∧ dK "try" "catch" ts = dK "try" "catch" rest ∧
      dK "switch" "default" ts = dK "switch" "default" rest + 0) :=
  markK (L.pLit σ ts) a rest
theorem KwAll.mArgs σ br ts a rest : (parseArgs t f σ br ts = .ok a rest) =
    (MkB (parseArgs t f σ br ts) (.ok a rest) ∧ dK "if" "then" ts = dK "if" "then" rest ∧
      dK "if" "else" ts = dK "if" "else" rest ∧ dK "try" "catch" ts = dK "try" "catch" rest ∧
      dK "switch" "default" ts = dK "switch" "default" rest + 0) :=
  markK (L.pArgs σ br ts) a rest
theorem KwAll.mArgsL σ br ts a rest : (argsLoop t f σ br ts = .ok a rest) =
    (MkB (argsLoop t f σ br ts) (.ok a rest) ∧ dK "if" "then" ts = dK "if" "then" rest ∧
      dK "if" "else" ts = dK "if" "else" rest ∧ dK "try" "catch" ts = dK "try" "catch" rest ∧
      dK "switch" "default" ts = dK "switch" "default" rest + 0) :=
  markK (L.pArgsL σ br ts) a rest
theorem KwAll.mMap σ keys ts a rest : (parseMap t f σ keys ts = .ok a rest) =
    (MkB (parseMap t f σ keys ts) (.ok a rest) ∧ dK "if" "then" ts = dK "if" "then" rest ∧
      dK "if" "else" ts = dK "if" "else" rest ∧ dK "try" "catch" ts = dK "try" "catch" rest ∧
      dK "switch" "default" ts = dK "switch" "default" rest + 0) :=
  markK (L.pMap σ keys ts) a rest
theorem KwAll.mCases σ ts a rest : (parseCases t f σ ts = .ok a rest) =
    (MkB (parseCases t f σ ts) (.ok a rest) ∧ dK "if" "then" ts = dK "if" "then" rest ∧
      dK "if" "else" ts = dK "if" "else" rest ∧ dK "try" "catch" ts = dK "try" "catch" rest ∧
      dK "switch" "default" ts = dK "switch" "default" rest + (-1)) :=
  markK (L.pCases σ ts) a rest

theorem KwAll.mLevel σ j ts a rest : ((if j < t.n then parseOp t f σ j ts else parseUnary t f σ ts) = .ok a rest) =
    (MkB (if j < t.n then parseOp t f σ j ts else parseUnary t f σ ts) (.ok a rest) ∧ dK "if" "then" ts = dK "if" "then" rest ∧
      dK "if" "else" ts = dK "if" "else" rest ∧ dK "try" "catch" ts = dK "try" "catch" rest ∧
      dK "switch" "default" ts = dK "switch" "default" rest + 0) := by
  refine markK ?_ a rest
  intro a rest h
  split at h
  · exact L.pOp _ _ _ _ _ h
  · exact L.pUn _ _ _ _ h

theorem KwAll.mPLevel σ j ts a rest : ((if t.pinned = true then parseOp t f σ j ts else if j < t.n then parseOp t f σ j ts else parseUnary t f σ ts) = .ok a rest) =
    (MkB (if t.pinned = true then parseOp t f σ j ts else if j < t.n then parseOp t f σ j ts else parseUnary t f σ ts) (.ok a rest) ∧ dK "if" "then" ts = dK "if" "then" rest ∧
      dK "if" "else" ts = dK "if" "else" rest ∧ dK "try" "catch" ts = dK "try" "catch" rest ∧
      dK "switch" "default" ts = dK "switch" "default" rest + 0) := by
  refine markK ?_ a rest
  intro a rest h
  repeat' split at h
  · exact L.pOp _ _ _ _ _ h
  · exact L.pOp _ _ _ _ _ h
  · exact L.pUn _ _ _ _ h
end

set_option hygiene false in
local macro "kw_leaf" : tactic =>
  `(tactic| (
    try (cases h)
    all_goals (try simp only [ih.mLet, ih.mOp, ih.mLoop, ih.mUn, ih.mNon, ih.mPost, ih.mLit, ih.mArgs, ih.mArgsL,
      ih.mMap, ih.mCases, ih.mLevel, ih.mPLevel, identLit_bal, identList_kw, PR.fail_not_ok, isClose_eq] at *)
    all_goals (try (obtain ⟨_, rfl⟩ := h))
    all_goals (try subst_vars)
    all_goals (try simp only [KwBal, dK, kwW_close] at *)
    all_goals (try simp (config := { decide := true }) only [KwBal, dK, kwW, if_true, if_false, true_and, and_true] at *)
    all_goals (first | omega | (exfalso; clear ih; simp_all [MkB]; done))))

theorem kw_zero (t : Table) : KwAll t 0 := by
  constructor <;> intros <;> simp_all [parseLet, parseOp, loopOp, parseUnary, parseNonOp, postfixLoop, parseLit,
    parseArgs, argsLoop, parseMap, parseCases]

theorem kw_succ (t : Table) (f : Nat) (ih : KwAll t f) : KwAll t (f+1) := by
  constructor
  · intro σ ts a rest h; simp only [parseLet] at h; repeat' split at h
    all_goals kw_leaf
  · intro σ k ts a rest h; simp only [parseOp] at h; repeat' split at h
    all_goals kw_leaf
  · intro σ k o e ts a rest h; simp only [loopOp] at h; repeat' split at h
    all_goals kw_leaf
  · intro σ ts a rest h; simp only [parseUnary] at h; repeat' split at h
    all_goals kw_leaf
  · intro σ ts a rest h; simp only [parseNonOp] at h; repeat' split at h
    all_goals kw_leaf
  · intro σ e ts a rest h; simp only [postfixLoop] at h; repeat' split at h
    all_goals kw_leaf
  · intro σ ts a rest h
    cases ts with
    | nil => simp only [parseLit] at h; cases h
    | cons x xs => cases x <;> simp only [parseLit] at h <;> (repeat' split at h) <;> kw_leaf
  · intro σ br ts a rest h; simp only [parseArgs] at h; repeat' split at h
    all_goals kw_leaf
  · intro σ br ts a rest h; simp only [argsLoop] at h; repeat' split at h
    all_goals kw_leaf
  · intro σ keys ts a rest h; simp only [parseMap] at h; repeat' split at h
    all_goals kw_leaf
  · intro σ ts a rest h; simp only [parseCases] at h; repeat' split at h
    all_goals kw_leaf

theorem kw_all (t : Table) : ∀ f, KwAll t f
  | 0 => kw_zero t
  | f+1 => kw_succ t f (kw_all t f)

/-- an accepted token list pairs its keywords -/
theorem parseTop_kw (t : Table) (f : Nat) (σ : Scope) (ts : List Tok) (e : E)
    (h : parseTop t f σ ts = .ok e []) :
    dK "if" "then" ts = 0 ∧ dK "if" "else" ts = 0 ∧ dK "try" "catch" ts = 0 ∧ dK "switch" "default" ts = 0 := by
  unfold parseTop at h
  split at h
  · rename_i heq
    have := (kw_all t f).pLet σ ts _ _ heq
    simpa [KwBal, dK] using this
  · cases h
  · rename_i hne _; exact absurd h (hne _)

theorem dK_append (p m : String) (a b : List Tok) : dK p m (a ++ b) = dK p m a + dK p m b := by
  induction a with
  | nil => simp [dK]
  | cons x xs ih => simp only [List.cons_append, dK, ih]; omega

end P2.Parse
