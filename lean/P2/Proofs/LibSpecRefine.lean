import P2.Spec.LibSpec
/-! # C07 — the lazy library model `P2.Lang.Lib` refines the eager specification `P2.LibSpec`

`drain ap k l` is the observable content of the lazy list `l` (its elements up to the regular end
or the first failure). Terminals of the library model are equal to the spec function applied to
`drain` of the receiver, for every fuel, list, callback — failures included. Lazy stages are equal
to the spec function applied to `drain` of the source as soon as the fuel suffices (skipped
elements burn fuel inside `uncons`, so the stage needs more fuel than its source). -/
namespace P2.LibSpec
open P2.Lang

/-! ## basics -/

@[simp] theorem Stop.toR_stopOf_err {α β} : (stopOf (R.err : R α)).toR = (R.err : R β) := rfl
@[simp] theorem Stop.toR_stopOf_panic {α β} : (stopOf (R.panic : R α)).toR = (R.panic : R β) := rfl
@[simp] theorem Stop.toR_stopOf_fuel {α β} : (stopOf (R.fuel : R α)).toR = (R.fuel : R β) := rfl
@[simp] theorem Stop.toR_stopOf_unmodelled {α β} : (stopOf (R.unmodelled : R α)).toR = (R.unmodelled : R β) := rfl

@[simp] theorem Str.all_nil : Str.nil.all = .ok [] := rfl
@[simp] theorem Str.all_fail (e : Stop) : (Str.fail e).all = e.toR := rfl
theorem Str.all_cons (x : Val) (s : Str) : (s.cons x).all = (do let xs ← s.all; pure (x :: xs)) := by
  cases s with
  | mk items stop => cases stop <;> simp [Str.cons, Str.all] <;> rename_i e <;> cases e <;> rfl

@[simp] theorem drain_zero (ap : Apply) (l : LList) : drain ap 0 l = .fail .fuel := rfl

theorem drain_succ (ap : Apply) (k : Nat) (l : LList) :
    drain ap (k+1) l =
      match uncons ap k l with
      | .ok none => .nil
      | .ok (some (x, l')) => (drain ap k l').cons x
      | r => .fail (stopOf r) := rfl

/-- `force` (all elements) is `drain` read as "all or the failure" -/
theorem force_eq_drain (ap : Apply) : ∀ (k : Nat) (l : LList), force ap k l = (drain ap k l).all
  | 0, _ => rfl
  | k+1, l => by
    rw [drain_succ]
    simp only [force]
    cases h : uncons ap k l with
    | ok o =>
      cases o with
      | none => rfl
      | some p =>
        obtain ⟨x, l'⟩ := p
        simp only [R.bind_ok, Str.all_cons, force_eq_drain ap k l']
    | err => rfl
    | panic => rfl
    | fuel => rfl
    | unmodelled => rfl


/-! ## terminals: equal to the spec on `drain` of the receiver, for every fuel and every outcome -/

theorem foldR_cons {α : Type} (g : Val → α → R Val) (acc : Val) (x : α) (xs : List α) (t : Option Stop) :
    foldR g acc (x :: xs) t = (do let a ← g acc x; foldR g a xs t) := rfl

theorem reduceLoop_eq (ap : Apply) (f : Val) : ∀ (k : Nat) (acc : Val) (l : LList),
    reduceLoop ap f k acc l = foldR (call2 ap f) acc (drain ap k l).items (drain ap k l).stop
  | 0, _, _ => rfl
  | k+1, acc, l => by
    rw [drain_succ]
    simp only [reduceLoop]
    cases h : uncons ap k l with
    | ok o =>
      cases o with
      | none => rfl
      | some p =>
        obtain ⟨x, l'⟩ := p
        simp only [R.bind_ok, Str.cons, foldR_cons, call2, reduceLoop_eq ap f k _ l']
    | err => rfl
    | panic => rfl
    | fuel => rfl
    | unmodelled => rfl

/-- `l.mapReduce(init, f)` -/
theorem mapReduce_refines (ap : Apply) (k : Nat) (l : LList) (init f : Val) :
    mMapReduce ap k (.list l) [init, f] =
      (if isClosN f 2 then mapReduceS ap init f (drain ap k l) else .err) := by
  simp only [mMapReduce, mapReduceS, reduceLoop_eq]

/-- `l.reduce(f)` -/
theorem reduce_refines (ap : Apply) (k : Nat) (l : LList) (f : Val) :
    mReduce ap k (.list l) [f] = (if isClosN f 2 then reduceS ap f (drain ap k l) else .err) := by
  cases hf : isClosN f 2 with
  | false => simp [mReduce, hf]
  | true =>
    cases k with
    | zero => simp [mReduce, hf]; rfl
    | succ k =>
      simp only [mReduce, hf, Bool.not_true, Bool.false_eq_true, if_false, if_true, drain_succ]
      cases h : uncons ap k l with
      | ok o =>
        cases o with
        | none => rfl
        | some p =>
          obtain ⟨x, l'⟩ := p
          simp only [R.bind_ok, reduceLoop_eq, reduceS, Str.cons]
      | err => rfl
      | panic => rfl
      | fuel => rfl
      | unmodelled => rfl

/-- `l.size()` -/
theorem size_refines (ap : Apply) (k : Nat) (l : LList) :
    mSize ap k (.list l) [] = sizeS (drain ap k l) := by
  simp only [mSize, sizeS, force_eq_drain]

/-- `l.reverse()` -/
theorem reverse_refines (ap : Apply) (k : Nat) (l : LList) :
    mReverse ap k (.list l) [] = reverseS (drain ap k l) := by
  simp only [mReverse, reverseS, force_eq_drain, listV]

/-- `l.append(x)` -/
theorem appendItem_refines (ap : Apply) (k : Nat) (l : LList) (x : Val) :
    mAppend ap k (.list l) [x] = appendItemS x (drain ap k l) := by
  simp only [mAppend, appendItemS, force_eq_drain, listV]

/-- `l.first()` -/
theorem first_refines (ap : Apply) (k : Nat) (l : LList) :
    mFirst ap k (.list l) [] = firstS (drain ap k l) := by
  cases k with
  | zero => rfl
  | succ k =>
    simp only [mFirst, drain_succ]
    cases h : uncons ap k l with
    | ok o =>
      cases o with
      | none => rfl
      | some p => obtain ⟨x, l'⟩ := p; rfl
    | err => rfl
    | panic => rfl
    | fuel => rfl
    | unmodelled => rfl


@[simp] theorem Stop.toR_bind {α β : Type} (e : Stop) (f : α → R β) : ((e.toR : R α) >>= f) = e.toR := by
  cases e <;> rfl

/-- `last` with the last element seen so far -/
def lastFrom : Option Val → List Val → Option Stop → R Val
  | acc, [], none => match acc with | some v => .ok v | none => .err
  | _, [], some e => e.toR
  | _, x :: xs, t => lastFrom (some x) xs t

theorem lastLoop_eq (ap : Apply) : ∀ (k : Nat) (acc : Option Val) (l : LList),
    lastLoop ap k acc l = lastFrom acc (drain ap k l).items (drain ap k l).stop
  | 0, _, _ => rfl
  | k+1, acc, l => by
    simp only [lastLoop, drain_succ]
    cases h : uncons ap k l with
    | ok o =>
      cases o with
      | none => cases acc <;> rfl
      | some p =>
        obtain ⟨x, l'⟩ := p
        simp only [R.bind_ok, Str.cons, lastFrom, lastLoop_eq ap k _ l']
    | err => rfl
    | panic => rfl
    | fuel => rfl
    | unmodelled => rfl

theorem getLast?_append_cons' {α : Type} : ∀ (a : List α) (x : α) (ys : List α),
    (a ++ x :: ys).getLast? = (x :: ys).getLast?
  | [], _, _ => rfl
  | [b], x, ys => by simp [List.getLast?]
  | b :: c :: a, x, ys => by
    have := getLast?_append_cons' (c :: a) x ys
    simpa [List.getLast?] using this

theorem lastFrom_eq : ∀ (xs : List Val) (acc : Option Val) (t : Option Stop),
    lastFrom acc xs t = (do
      let ys ← Str.all ⟨xs, t⟩
      match (acc.toList ++ ys).getLast? with
      | some x => pure x
      | none => .err)
  | [], acc, none => by cases acc <;> rfl
  | [], acc, some e => by simp [lastFrom, Str.all]
  | x :: xs, acc, t => by
    have h := lastFrom_eq xs (some x) t
    have hc : Str.all ⟨x :: xs, t⟩ = (do let ys ← Str.all ⟨xs, t⟩; pure (x :: ys)) :=
      Str.all_cons x ⟨xs, t⟩
    rw [lastFrom, h, hc]
    cases hs : Str.all ⟨xs, t⟩ with
    | ok ys =>
      show (match ([x] ++ ys).getLast? with | some x => pure x | none => R.err) =
        (match (acc.toList ++ (x :: ys)).getLast? with | some x => pure x | none => R.err)
      rw [getLast?_append_cons']; rfl
    | err => rfl
    | panic => rfl
    | fuel => rfl
    | unmodelled => rfl

/-- `l.last()` -/
theorem last_refines (ap : Apply) (k : Nat) (l : LList) :
    mLast ap k (.list l) [] = lastS (drain ap k l) := by
  simp only [mLast, lastLoop_eq, lastFrom_eq, lastS, Option.toList, List.nil_append]
  rfl

theorem findLoop_eq (ap : Apply) (f : Val) : ∀ (k : Nat) (i : Int) (l : LList),
    findLoop ap f k i l =
      findR (fun x => toBoolR (ap f [x])) i (drain ap k l).items (drain ap k l).stop
  | 0, _, _ => rfl
  | k+1, i, l => by
    simp only [findLoop, drain_succ]
    cases h : uncons ap k l with
    | ok o =>
      cases o with
      | none => rfl
      | some p =>
        obtain ⟨x, l'⟩ := p
        simp only [R.bind_ok, Str.cons, findR]
        cases hx : ap f [x] with
        | ok v =>
          cases v with
          | bool b => cases b <;> simp [toBoolR, findLoop_eq ap f k _ l']
          | _ => simp [toBoolR]
        | err => rfl
        | panic => rfl
        | fuel => rfl
        | unmodelled => rfl
    | err => rfl
    | panic => rfl
    | fuel => rfl
    | unmodelled => rfl

/-- `l.indexWhere(f)` -/
theorem indexWhere_refines (ap : Apply) (k : Nat) (l : LList) (f : Val) :
    mIndexWhere ap k (.list l) [f] = (if isClosN f 1 then indexWhereS ap f (drain ap k l) else .err) := by
  cases hf : isClosN f 1 with
  | false => simp [mIndexWhere, hf]
  | true => simp [mIndexWhere, indexWhereS, hf, findLoop_eq]; rfl

/-- `l.present(f)` -/
theorem present_refines (ap : Apply) (k : Nat) (l : LList) (f : Val) :
    mPresent ap k (.list l) [f] = (if isClosN f 1 then presentS ap f (drain ap k l) else .err) := by
  cases hf : isClosN f 1 with
  | false => simp [mPresent, hf]
  | true => simp [mPresent, presentS, hf, findLoop_eq]; rfl


/-! ### `sum`: `+` does not look at the fuel unless the accumulator is a string -/

def NotStr (v : Val) : Prop := ∀ s, v ≠ .str s

theorem binop_plus_indep (ap : Apply) (k K : Nat) (a b : Val) (ha : NotStr a) :
    binop ap k "+" a b = binop ap K "+" a b := by
  cases a with
  | str s => exact absurd rfl (ha s)
  | _ => cases b <;> simp [binop]

theorem numOp_notStr {fi ff} {a b c : Val} (h : numOp fi ff a b = .ok c) : NotStr c := by
  intro s hs
  subst hs
  cases a <;> cases b <;> simp [numOp] at h

theorem binop_plus_notStr (ap : Apply) (k : Nat) (a b c : Val) (ha : NotStr a)
    (h : binop ap k "+" a b = .ok c) : NotStr c := by
  intro s hs
  subst hs
  cases a with
  | str s' => exact absurd rfl (ha s')
  | list x =>
    cases b <;> simp [binop] at h <;> first | exact absurd h (by simp [numOp]) | skip
  | map x =>
    cases b <;> simp [binop] at h <;> first | exact absurd h (by simp [numOp]) | skip
    split at h <;> simp at h
  | _ => cases b <;> simp [binop, numOp] at h

theorem sumLoop_eq (ap : Apply) (K : Nat) : ∀ (k : Nat) (acc : Val) (l : LList), NotStr acc →
    sumLoop ap k acc l =
      foldR (fun a b => binop ap K "+" a b) acc (drain ap k l).items (drain ap k l).stop
  | 0, _, _, _ => rfl
  | k+1, acc, l, hacc => by
    simp only [sumLoop, drain_succ]
    cases h : uncons ap k l with
    | ok o =>
      cases o with
      | none => rfl
      | some p =>
        obtain ⟨x, l'⟩ := p
        simp only [R.bind_ok, Str.cons, foldR_cons]
        rw [binop_plus_indep ap k K acc x hacc]
        cases hb : binop ap K "+" acc x with
        | ok c =>
          simp only [R.bind_ok]
          exact sumLoop_eq ap K k c l' (binop_plus_notStr ap K acc x c hacc hb)
        | err => rfl
        | panic => rfl
        | fuel => rfl
        | unmodelled => rfl
    | err => rfl
    | panic => rfl
    | fuel => rfl
    | unmodelled => rfl

/-- `l.sum()` when the first element is not a string (then no accumulator is one, and `+` is
independent of the fuel; `K` is the fuel the spec hands to `+`) -/
theorem sum_refines_partial (ap : Apply) (k K : Nat) (l : LList)
    (h1 : ∀ x, (drain ap k l).items.head? = some x → NotStr x) :
    mSum ap k (.list l) [] = sumS ap K (drain ap k l) := by
  cases k with
  | zero => rfl
  | succ k =>
    simp only [mSum, drain_succ] at h1 ⊢
    cases h : uncons ap k l with
    | ok o =>
      cases o with
      | none => rfl
      | some p =>
        obtain ⟨x, l'⟩ := p
        rw [h] at h1
        have hx : NotStr x := h1 x rfl
        simp only [R.bind_ok, sumS, Str.cons, sumLoop_eq ap K k x l' hx]
    | err => rfl
    | panic => rfl
    | fuel => rfl
    | unmodelled => rfl


/-! ## fuel monotonicity of the lazy lists (fixed callback application `ap`) -/

def mapStep (ap : Apply) (f : Val) : Option (Val × LList) → R (Option (Val × LList))
  | none => .ok none
  | some (x, src') => ap f [x] >>= fun y => .ok (some (y, .map f src'))
def acceptStep (ap : Apply) (k : Nat) (f : Val) : Option (Val × LList) → R (Option (Val × LList))
  | none => .ok none
  | some (x, src') => ap f [x] >>= fun v =>
      match v with
      | .bool true => .ok (some (x, .accept f src'))
      | .bool false => uncons ap k (.accept f src')
      | _ => .err
def topStep (n : Int) : Option (Val × LList) → R (Option (Val × LList))
  | none => .ok none
  | some (x, src') => .ok (some (x, .top (n-1) src'))
def skipStep (ap : Apply) (k : Nat) (n : Int) : Option (Val × LList) → R (Option (Val × LList))
  | none => .ok none
  | some (_, src') => uncons ap k (.skip (n-1) src')
def appendStep (ap : Apply) (k : Nat) (b : LList) : Option (Val × LList) → R (Option (Val × LList))
  | some (x, a') => .ok (some (x, .append a' b))
  | none => uncons ap k b

theorem uncons_map_eq (ap : Apply) (k : Nat) (f : Val) (src : LList) :
    uncons ap (k+1) (.map f src) = (uncons ap k src >>= mapStep ap f) := by
  simp only [uncons]; congr
theorem uncons_accept_eq (ap : Apply) (k : Nat) (f : Val) (src : LList) :
    uncons ap (k+1) (.accept f src) = (uncons ap k src >>= acceptStep ap k f) := by
  simp only [uncons]; congr
theorem uncons_top_eq (ap : Apply) (k : Nat) (n : Int) (src : LList) :
    uncons ap (k+1) (.top n src) = (if n = 0 then .ok none else uncons ap k src >>= topStep n) := by
  simp only [uncons]; split
  · rfl
  · congr
theorem uncons_skip_eq (ap : Apply) (k : Nat) (n : Int) (src : LList) :
    uncons ap (k+1) (.skip n src) = (if n ≤ 0 then uncons ap k src else uncons ap k src >>= skipStep ap k n) := by
  simp only [uncons]; split
  · rfl
  · congr
theorem uncons_append_eq (ap : Apply) (k : Nat) (a b : LList) :
    uncons ap (k+1) (.append a b) = (uncons ap k a >>= appendStep ap k b) := by
  simp only [uncons]; congr

theorem bind_eq_fuel_of {α β : Type} {f : α → R β} {r : R β} (h : ((R.fuel : R α) >>= f) = r) : r = .fuel := h.symm

theorem uncons_mono (ap : Apply) : ∀ (k : Nat) (l : LList) (r : R (Option (Val × LList))),
    uncons ap k l = r → r ≠ .fuel → uncons ap (k+1) l = r
  | 0, _, r, h, hr => absurd h.symm hr
  | k+1, l, r, h, hr => by
    cases l with
    | items xs => cases xs <;> simpa [uncons] using h
    | numbers i n => simpa [uncons] using h
    | map f src =>
      rw [uncons_map_eq] at h ⊢
      cases hu : uncons ap k src with
      | fuel => rw [hu] at h; exact absurd (bind_eq_fuel_of h) hr
      | _ => rw [uncons_mono ap k src _ hu (by simp), ← h, hu]
    | accept f src =>
      rw [uncons_accept_eq] at h ⊢
      cases hu : uncons ap k src with
      | fuel => rw [hu] at h; exact absurd (bind_eq_fuel_of h) hr
      | ok o =>
        rw [uncons_mono ap k src _ hu (by simp)]
        rw [hu] at h
        cases o with
        | none => exact h
        | some p =>
          obtain ⟨x, src'⟩ := p
          simp only [R.bind_ok, acceptStep] at h ⊢
          cases hx : ap f [x] with
          | ok v =>
            rw [hx] at h
            cases v with
            | bool b =>
              cases b with
              | true => exact h
              | false =>
                simp only [R.bind_ok] at h ⊢
                exact uncons_mono ap k (.accept f src') r h hr
            | _ => exact h
          | _ => rw [hx] at h; exact h
      | _ => rw [uncons_mono ap k src _ hu (by simp), ← h, hu]; rfl
    | top n src =>
      rw [uncons_top_eq] at h ⊢
      by_cases hn : n = 0
      · simpa [hn] using h
      · simp only [hn, if_false] at h ⊢
        cases hu : uncons ap k src with
        | fuel => rw [hu] at h; exact absurd (bind_eq_fuel_of h) hr
        | _ => rw [uncons_mono ap k src _ hu (by simp), ← h, hu]
    | skip n src =>
      rw [uncons_skip_eq] at h ⊢
      by_cases hn : n ≤ 0
      · simp only [hn, if_true] at h ⊢
        exact uncons_mono ap k src r h hr
      · simp only [hn, if_false] at h ⊢
        cases hu : uncons ap k src with
        | fuel => rw [hu] at h; exact absurd (bind_eq_fuel_of h) hr
        | ok o =>
          rw [uncons_mono ap k src _ hu (by simp)]
          rw [hu] at h
          cases o with
          | none => exact h
          | some p =>
            obtain ⟨x, src'⟩ := p
            simp only [R.bind_ok, skipStep] at h ⊢
            exact uncons_mono ap k (.skip (n-1) src') r h hr
        | _ => rw [uncons_mono ap k src _ hu (by simp), ← h, hu]; rfl
    | append a b =>
      rw [uncons_append_eq] at h ⊢
      cases hu : uncons ap k a with
      | fuel => rw [hu] at h; exact absurd (bind_eq_fuel_of h) hr
      | ok o =>
        rw [uncons_mono ap k a _ hu (by simp)]
        rw [hu] at h
        cases o with
        | none =>
          simp only [R.bind_ok, appendStep] at h ⊢
          exact uncons_mono ap k b r h hr
        | some p => exact h
      | _ => rw [uncons_mono ap k a _ hu (by simp), ← h, hu]; rfl

theorem uncons_mono_le (ap : Apply) (k : Nat) (l : LList) (r : R (Option (Val × LList)))
    (h : uncons ap k l = r) (hr : r ≠ .fuel) : ∀ (m : Nat), k ≤ m → uncons ap m l = r := by
  intro m hm
  induction m with
  | zero => have : k = 0 := by omega
            subst this; exact h
  | succ m ih =>
    by_cases hk : k = m + 1
    · subst hk; exact h
    · exact uncons_mono ap m l r (ih (by omega)) hr

/-- the stream did not end because the fuel ran out -/
def NoFuel (s : Str) : Prop := s.stop ≠ some .fuel

theorem drain_mono (ap : Apply) : ∀ (k : Nat) (l : LList), NoFuel (drain ap k l) →
    drain ap (k+1) l = drain ap k l
  | 0, _, h => absurd rfl h
  | k+1, l, h => by
    rw [drain_succ ap (k+1), drain_succ ap k] at *
    cases hu : uncons ap k l with
    | fuel => rw [hu] at h; exact absurd rfl h
    | ok o =>
      rw [uncons_mono ap k l _ hu (by simp)]
      rw [hu] at h
      cases o with
      | none => rfl
      | some p =>
        obtain ⟨x, l'⟩ := p
        simp only at h ⊢
        rw [drain_mono ap k l' h]
    | err => rw [uncons_mono ap k l _ hu (by simp)]
    | panic => rw [uncons_mono ap k l _ hu (by simp)]
    | unmodelled => rw [uncons_mono ap k l _ hu (by simp)]

theorem drain_mono_le (ap : Apply) (k : Nat) (l : LList) (h : NoFuel (drain ap k l)) :
    ∀ (m : Nat), k ≤ m → drain ap m l = drain ap k l := by
  intro m hm
  induction m with
  | zero => have : k = 0 := by omega
            subst this; rfl
  | succ m ih =>
    by_cases hk : k = m + 1
    · subst hk; rfl
    · have := ih (by omega)
      rw [← this]
      exact drain_mono ap m l (by rw [this]; exact h)


/-! ## lazy stages -/

theorem NoFuel.cons {x : Val} {s : Str} (h : NoFuel (s.cons x)) : NoFuel s := h

/-- if a stage answers `uncons` with the answer of `B` at one fuel less, and `B`'s content is `T`
at the two fuels involved, the stage's content is `T` -/
theorem drain_via (ap : Apply) (m : Nat) (L B : LList) (T : Str)
    (hu : uncons ap (m+1) L = uncons ap m B) (h2 : drain ap (m+2) B = T) (h1 : drain ap (m+1) B = T) :
    drain ap (m+2) L = T := by
  rw [drain_succ ap (m+1) L, hu]
  by_cases hf : uncons ap m B = .fuel
  · rw [drain_succ, hf] at h1
    rw [hf]; exact h1
  · rw [drain_succ ap (m+1) B, uncons_mono ap m B _ rfl hf] at h2
    exact h2

/-- `l.map(f)`, exact: one more unit of fuel than the source -/
theorem drain_map (ap : Apply) (f : Val) : ∀ (k : Nat) (l : LList),
    drain ap (k+1) (.map f l) = mapS ap f (drain ap k l)
  | 0, _ => rfl
  | k+1, l => by
    rw [drain_succ ap (k+1), uncons_map_eq, drain_succ ap k]
    cases hu : uncons ap k l with
    | ok o =>
      cases o with
      | none => rfl
      | some p =>
        obtain ⟨x, l'⟩ := p
        simp only [R.bind_ok, mapStep]
        cases hx : ap f [x] with
        | ok y => simp only [R.bind_ok, drain_map ap f k l', mapS, Str.cons, mapR, call1, hx]
        | err => simp only [mapS, Str.cons, mapR, call1, hx]; rfl
        | panic => simp only [mapS, Str.cons, mapR, call1, hx]; rfl
        | fuel => simp only [mapS, Str.cons, mapR, call1, hx]; rfl
        | unmodelled => simp only [mapS, Str.cons, mapR, call1, hx]; rfl
    | err => rfl
    | panic => rfl
    | fuel => rfl
    | unmodelled => rfl

/-- `l.map(f)` -/
theorem map_refines (ap : Apply) (f : Val) (k : Nat) (l : LList) (h : NoFuel (drain ap k l)) :
    ∃ K, ∀ m, K ≤ m → drain ap m (.map f l) = mapS ap f (drain ap k l) := by
  refine ⟨k+1, fun m hm => ?_⟩
  obtain ⟨m', rfl⟩ : ∃ m', m = m' + 1 := ⟨m - 1, by omega⟩
  rw [drain_map, drain_mono_le ap k l h m' (by omega)]

theorem topS_cons (n : Int) (x : Val) (s : Str) (hn : n ≠ 0) :
    topS n (s.cons x) = (topS (n-1) s).cons x := by
  simp only [topS, Str.cons]
  by_cases h0 : n < 0
  · have : n - 1 < 0 := by omega
    simp [h0, this]
  · have h1 : ¬ (n - 1 < 0) := by omega
    have h2 : n.toNat = (n-1).toNat + 1 := by omega
    simp only [h0, h1, if_false, h2, List.length_cons, Nat.add_le_add_iff_right, List.take_succ_cons]
    split <;> rfl

/-- `l.top(n)`, exact -/
theorem drain_top (ap : Apply) : ∀ (k : Nat) (n : Int) (l : LList), NoFuel (drain ap k l) →
    drain ap (k+1) (.top n l) = topS n (drain ap k l)
  | 0, _, _, h => absurd rfl h
  | k+1, n, l, h => by
    rw [drain_succ ap (k+1), uncons_top_eq]
    rw [drain_succ ap k] at h ⊢
    by_cases hn : n = 0
    · subst hn
      simp only [if_true]
      simp [topS]
      rfl
    · simp only [hn, if_false]
      cases hu : uncons ap k l with
      | fuel => rw [hu] at h; exact absurd rfl h
      | ok o =>
        rw [hu] at h
        cases o with
        | none =>
          simp only [R.bind_ok, topStep, topS, Str.nil]
          by_cases h0 : n < 0
          · simp [h0]
          · have : ¬ n.toNat ≤ 0 := by omega
            simp [h0, this]
        | some p =>
          obtain ⟨x, l'⟩ := p
          simp only [R.bind_ok, topStep]
          rw [drain_top ap k (n-1) l' h.cons, topS_cons n x _ hn]
      | err =>
        simp only [topS, Str.fail]
        by_cases h0 : n < 0
        · simp [h0]
        · have : ¬ n.toNat ≤ 0 := by omega
          simp [h0, this]
      | panic =>
        simp only [topS, Str.fail]
        by_cases h0 : n < 0
        · simp [h0]
        · have : ¬ n.toNat ≤ 0 := by omega
          simp [h0, this]
      | unmodelled =>
        simp only [topS, Str.fail]
        by_cases h0 : n < 0
        · simp [h0]
        · have : ¬ n.toNat ≤ 0 := by omega
          simp [h0, this]

/-- `l.top(n)` -/
theorem top_refines (ap : Apply) (n : Int) (k : Nat) (l : LList) (h : NoFuel (drain ap k l)) :
    ∃ K, ∀ m, K ≤ m → drain ap m (.top n l) = topS n (drain ap k l) := by
  refine ⟨k+1, fun m hm => ?_⟩
  obtain ⟨m', rfl⟩ : ∃ m', m = m' + 1 := ⟨m - 1, by omega⟩
  have hm' := drain_mono_le ap k l h m' (by omega)
  rw [drain_top ap m' n l (by rw [hm']; exact h), hm']


/-- the `accept` step in terms of the Bool view of the callback result -/
def acceptStepB (ap : Apply) (k : Nat) (f : Val) : Option (Val × LList) → R (Option (Val × LList))
  | none => .ok none
  | some (x, src') => toBoolR (ap f [x]) >>= fun b =>
      if b then .ok (some (x, .accept f src')) else uncons ap k (.accept f src')

theorem acceptStep_eq (ap : Apply) (k : Nat) (f : Val) (o : Option (Val × LList)) :
    acceptStep ap k f o = acceptStepB ap k f o := by
  cases o with
  | none => rfl
  | some p =>
    obtain ⟨x, src'⟩ := p
    simp only [acceptStep, acceptStepB]
    cases hx : ap f [x] with
    | ok v =>
      cases v with
      | bool b => cases b <;> rfl
      | _ => rfl
    | _ => rfl

theorem acceptS_cons (ap : Apply) (f : Val) (x : Val) (s : Str) :
    acceptS ap f (s.cons x) =
      match toBoolR (ap f [x]) with
      | .ok true => (acceptS ap f s).cons x
      | .ok false => acceptS ap f s
      | r => .fail (stopOf r) := by
  simp only [acceptS, Str.cons, filterR]
  rfl

/-- `l.accept(f)`: equal to `filter` on the source's content as soon as the fuel suffices -/
theorem accept_refines (ap : Apply) (f : Val) : ∀ (k : Nat) (l : LList), NoFuel (drain ap k l) →
    ∃ K, ∀ m, K ≤ m → drain ap m (.accept f l) = acceptS ap f (drain ap k l)
  | 0, _, h => absurd rfl h
  | k+1, l, h => by
    rw [drain_succ ap k] at h ⊢
    cases hu : uncons ap k l with
    | fuel => rw [hu] at h; exact absurd rfl h
    | ok o =>
      rw [hu] at h
      cases o with
      | none =>
        refine ⟨k+2, fun m hm => ?_⟩
        obtain ⟨m', rfl⟩ : ∃ m', m = m' + 2 := ⟨m - 2, by omega⟩
        rw [drain_succ, uncons_accept_eq, uncons_mono_le ap k l _ hu (by simp) m' (by omega)]
        rfl
      | some p =>
        obtain ⟨x, l'⟩ := p
        obtain ⟨K', hK'⟩ := accept_refines ap f k l' h.cons
        refine ⟨max (k+2) (K'+1), fun m hm => ?_⟩
        obtain ⟨m', rfl⟩ : ∃ m', m = m' + 2 := ⟨m - 2, by omega⟩
        have hun : uncons ap (m'+1) (.accept f l) = acceptStepB ap m' f (some (x, l')) := by
          rw [uncons_accept_eq, uncons_mono_le ap k l _ hu (by simp) m' (by omega), R.bind_ok, acceptStep_eq]
        simp only [acceptS_cons]
        simp only [acceptStepB] at hun
        cases hb : toBoolR (ap f [x]) with
        | ok b =>
          rw [hb, R.bind_ok] at hun
          cases b with
          | true =>
            simp only [if_true] at hun
            rw [drain_succ, hun]
            simp only
            rw [hK' (m'+1) (by omega)]
          | false =>
            simp only [Bool.false_eq_true, if_false] at hun
            exact drain_via ap m' _ _ _ hun (hK' _ (by omega)) (hK' _ (by omega))
        | err => rw [hb] at hun; rw [drain_succ, hun]; rfl
        | panic => rw [hb] at hun; rw [drain_succ, hun]; rfl
        | fuel => rw [hb] at hun; rw [drain_succ, hun]; rfl
        | unmodelled => rw [hb] at hun; rw [drain_succ, hun]; rfl
    | err =>
      refine ⟨k+2, fun m hm => ?_⟩
      obtain ⟨m', rfl⟩ : ∃ m', m = m' + 2 := ⟨m - 2, by omega⟩
      rw [drain_succ, uncons_accept_eq, uncons_mono_le ap k l _ hu (by simp) m' (by omega)]
      rfl
    | panic =>
      refine ⟨k+2, fun m hm => ?_⟩
      obtain ⟨m', rfl⟩ : ∃ m', m = m' + 2 := ⟨m - 2, by omega⟩
      rw [drain_succ, uncons_accept_eq, uncons_mono_le ap k l _ hu (by simp) m' (by omega)]
      rfl
    | unmodelled =>
      refine ⟨k+2, fun m hm => ?_⟩
      obtain ⟨m', rfl⟩ : ∃ m', m = m' + 2 := ⟨m - 2, by omega⟩
      rw [drain_succ, uncons_accept_eq, uncons_mono_le ap k l _ hu (by simp) m' (by omega)]
      rfl

theorem skipS_cons (n : Int) (x : Val) (s : Str) (hn : ¬ n ≤ 0) :
    skipS n (s.cons x) = skipS (n-1) s := by
  have h2 : n.toNat = (n-1).toNat + 1 := by omega
  simp only [skipS, Str.cons, h2, List.drop_succ_cons]

theorem skipS_nonpos (n : Int) (s : Str) (hn : n ≤ 0) : skipS n s = s := by
  have : n.toNat = 0 := by omega
  simp only [skipS, this, List.drop_zero]

/-- `l.skip(n)` -/
theorem skip_refines (ap : Apply) : ∀ (k : Nat) (n : Int) (l : LList), NoFuel (drain ap k l) →
    ∃ K, ∀ m, K ≤ m → drain ap m (.skip n l) = skipS n (drain ap k l)
  | 0, _, _, h => absurd rfl h
  | k+1, n, l, h => by
    by_cases hn : n ≤ 0
    · refine ⟨k+3, fun m hm => ?_⟩
      obtain ⟨m', rfl⟩ : ∃ m', m = m' + 2 := ⟨m - 2, by omega⟩
      rw [skipS_nonpos n _ hn]
      refine drain_via ap m' _ l _ ?_ (drain_mono_le ap (k+1) l h _ (by omega)) (drain_mono_le ap (k+1) l h _ (by omega))
      rw [uncons_skip_eq]; simp only [hn, if_true]
    · rw [drain_succ ap k] at h ⊢
      cases hu : uncons ap k l with
      | fuel => rw [hu] at h; exact absurd rfl h
      | ok o =>
        rw [hu] at h
        cases o with
        | none =>
          refine ⟨k+2, fun m hm => ?_⟩
          obtain ⟨m', rfl⟩ : ∃ m', m = m' + 2 := ⟨m - 2, by omega⟩
          rw [drain_succ, uncons_skip_eq, uncons_mono_le ap k l _ hu (by simp) m' (by omega)]
          simp [hn, skipS, Str.nil, skipStep]
        | some p =>
          obtain ⟨x, l'⟩ := p
          obtain ⟨K', hK'⟩ := skip_refines ap k (n-1) l' h.cons
          refine ⟨max (k+2) (K'+1), fun m hm => ?_⟩
          obtain ⟨m', rfl⟩ : ∃ m', m = m' + 2 := ⟨m - 2, by omega⟩
          simp only [skipS_cons n x _ hn]
          refine drain_via ap m' _ (.skip (n-1) l') _ ?_ (hK' _ (by omega)) (hK' _ (by omega))
          rw [uncons_skip_eq, uncons_mono_le ap k l _ hu (by simp) m' (by omega)]
          simp only [hn, if_false, R.bind_ok, skipStep]
      | err =>
        refine ⟨k+2, fun m hm => ?_⟩
        obtain ⟨m', rfl⟩ : ∃ m', m = m' + 2 := ⟨m - 2, by omega⟩
        rw [drain_succ, uncons_skip_eq, uncons_mono_le ap k l _ hu (by simp) m' (by omega)]
        simp [hn, skipS, Str.fail]
      | panic =>
        refine ⟨k+2, fun m hm => ?_⟩
        obtain ⟨m', rfl⟩ : ∃ m', m = m' + 2 := ⟨m - 2, by omega⟩
        rw [drain_succ, uncons_skip_eq, uncons_mono_le ap k l _ hu (by simp) m' (by omega)]
        simp [hn, skipS, Str.fail]
      | unmodelled =>
        refine ⟨k+2, fun m hm => ?_⟩
        obtain ⟨m', rfl⟩ : ∃ m', m = m' + 2 := ⟨m - 2, by omega⟩
        rw [drain_succ, uncons_skip_eq, uncons_mono_le ap k l _ hu (by simp) m' (by omega)]
        simp [hn, skipS, Str.fail]

theorem appendS_cons (x : Val) (a b : Str) : appendS (a.cons x) b = (appendS a b).cons x := by
  simp only [appendS, Str.cons]
  cases a.stop <;> rfl

theorem appendS_nil (b : Str) : appendS .nil b = b := by
  simp only [appendS, Str.nil, List.nil_append]

/-- `a + b` on lists -/
theorem append_refines (ap : Apply) (b : LList) (kb : Nat) (hb : NoFuel (drain ap kb b)) :
    ∀ (k : Nat) (a : LList), NoFuel (drain ap k a) →
    ∃ K, ∀ m, K ≤ m → drain ap m (.append a b) = appendS (drain ap k a) (drain ap kb b)
  | 0, _, h => absurd rfl h
  | k+1, a, h => by
    rw [drain_succ ap k] at h ⊢
    cases hu : uncons ap k a with
    | fuel => rw [hu] at h; exact absurd rfl h
    | ok o =>
      rw [hu] at h
      cases o with
      | none =>
        refine ⟨max (k+2) (kb+2), fun m hm => ?_⟩
        obtain ⟨m', rfl⟩ : ∃ m', m = m' + 2 := ⟨m - 2, by omega⟩
        simp only [appendS_nil]
        refine drain_via ap m' _ b _ ?_ (drain_mono_le ap kb b hb _ (by omega)) (drain_mono_le ap kb b hb _ (by omega))
        rw [uncons_append_eq, uncons_mono_le ap k a _ hu (by simp) m' (by omega)]
        rfl
      | some p =>
        obtain ⟨x, a'⟩ := p
        obtain ⟨K', hK'⟩ := append_refines ap b kb hb k a' h.cons
        refine ⟨max (k+2) (K'+1), fun m hm => ?_⟩
        obtain ⟨m', rfl⟩ : ∃ m', m = m' + 2 := ⟨m - 2, by omega⟩
        rw [drain_succ, uncons_append_eq, uncons_mono_le ap k a _ hu (by simp) m' (by omega)]
        simp only [R.bind_ok, appendStep, appendS_cons]
        rw [hK' (m'+1) (by omega)]
    | err =>
      refine ⟨k+2, fun m hm => ?_⟩
      obtain ⟨m', rfl⟩ : ∃ m', m = m' + 2 := ⟨m - 2, by omega⟩
      rw [drain_succ, uncons_append_eq, uncons_mono_le ap k a _ hu (by simp) m' (by omega)]
      rfl
    | panic =>
      refine ⟨k+2, fun m hm => ?_⟩
      obtain ⟨m', rfl⟩ : ∃ m', m = m' + 2 := ⟨m - 2, by omega⟩
      rw [drain_succ, uncons_append_eq, uncons_mono_le ap k a _ hu (by simp) m' (by omega)]
      rfl
    | unmodelled =>
      refine ⟨k+2, fun m hm => ?_⟩
      obtain ⟨m', rfl⟩ : ∃ m', m = m' + 2 := ⟨m - 2, by omega⟩
      rw [drain_succ, uncons_append_eq, uncons_mono_le ap k a _ hu (by simp) m' (by omega)]
      rfl


/-! ## map methods -/

theorem map_get_refines (kvs : KVs) (a : Val) : mGetS kvs [a] = liftV (mGet (.map kvs) [a]) := by
  cases a <;> rfl

theorem map_put_refines (kvs : KVs) (a v : Val) : mPutS kvs [a, v] = liftV (mPut (.map kvs) [a, v]) := by
  cases a <;> simp only [mPutS, mPut, liftV, okVal] <;> first | rfl | (split <;> rfl)

theorem map_size_refines (ap : Apply) (k : Nat) (kvs : KVs) :
    mSizeS kvs [] = liftV (mSize ap k (.map kvs) []) := rfl

theorem isAvailS_eq (kvs : KVs) : ∀ (keys : List Val), isAvailS kvs keys = allStrKeysPresent kvs keys
  | [] => rfl
  | v :: rest => by
    cases v <;> simp only [isAvailS, allStrKeysPresent]
    rw [isAvailS_eq kvs rest]

theorem map_isAvail_refines (kvs : KVs) (keys : List Val) :
    mIsAvailS kvs keys = liftV (mIsAvail (.map kvs) keys) := by
  simp only [mIsAvailS, mIsAvail, isAvailS_eq]

theorem mapMapLoop_eq (ap : Apply) (f : Val) : ∀ (k : Nat) (kvs : KVs), kvs.length < k →
    mapMapLoop ap f k kvs = mapMapS ap f kvs
  | 0, _, h => by omega
  | _+1, [], _ => rfl
  | k+1, (key, v) :: rest, h => by
    simp only [mapMapLoop, mapMapS]
    rw [mapMapLoop_eq ap f k rest (by simp only [List.length_cons] at h; omega)]

/-- `m.map(f)` (the model's loop needs one unit of fuel per entry) -/
theorem map_map_refines (ap : Apply) (k : Nat) (kvs : KVs) (f : Val) (h : kvs.length < k) :
    mMapS ap kvs [f] = liftV (mMap ap k (.map kvs) [f]) := by
  simp only [mMapS, mMap, mapMapLoop_eq ap f k kvs h]
  split <;> rfl

theorem mapAcceptLoop_eq (ap : Apply) (f : Val) : ∀ (k : Nat) (kvs : KVs), kvs.length < k →
    mapAcceptLoop ap f k kvs = mapAcceptS ap f kvs
  | 0, _, h => by omega
  | _+1, [], _ => rfl
  | k+1, (key, v) :: rest, h => by
    simp only [mapAcceptLoop, mapAcceptS]
    rw [mapAcceptLoop_eq ap f k rest (by simp only [List.length_cons] at h; omega)]
    cases hx : ap f [.str key, v] with
    | ok r => cases r <;> rfl
    | _ => rfl

/-- `m.accept(f)` -/
theorem map_accept_refines (ap : Apply) (k : Nat) (kvs : KVs) (f : Val) (h : kvs.length < k) :
    mAcceptS ap kvs [f] = liftV (mAccept ap k (.map kvs) [f]) := by
  simp only [mAcceptS, mAccept, mapAcceptLoop_eq ap f k kvs h]
  split <;> rfl

/-! ## string methods -/

theorem utf8Len_eq : ∀ (cs : List Char), (utf8Len cs : Nat) = (String.ofList cs).utf8ByteSize
  | [] => by simp [utf8Len]
  | c :: cs => by
    rw [String.ofList_cons, String.utf8ByteSize_append, String.utf8ByteSize_singleton, ← utf8Len_eq cs]
    simp [utf8Len]

/-- `s.len()`: the number of UTF-8 bytes -/
theorem len_refines (s : String) : sLen s.toList [] = liftV (mLen (.str s) []) := by
  simp only [sLen, mLen, liftV, okVal, R.bind_ok, R.pure_eq]
  rw [utf8Len_eq, String.ofList_toList]

theorem strContains_go_eq (tl : List Char) : ∀ (l : List Char) (n : Nat), l.length < n →
    strContains.go tl n l = infixOf tl l
  | [], n+1, _ => by cases tl <;> simp [strContains.go, infixOf]
  | c :: cs, n+1, h => by
    simp only [strContains.go, infixOf]
    rw [strContains_go_eq tl cs n (by simp only [List.length_cons] at h; omega)]
  | _, 0, h => by omega

/-- `s.contains(sub)` -/
theorem contains_refines (s : String) (a : Val) : sContains s.toList [a] = liftV (mContains (.str s) [a]) := by
  cases a <;> simp only [sContains, mContains, liftV, okVal, R.bind_ok, R.pure_eq, R.bind_err]
  rename_i sub
  simp only [strContains]
  rw [strContains_go_eq _ _ _ (by omega)]

/-! ## static functions -/

/-- an `Int` the Go code can hold -/
def InInt64 (i : Int) : Prop := -9223372036854775808 ≤ i ∧ i ≤ 9223372036854775807

theorem abs_int_eq (i : Int) (h : InInt64 i) :
    (if i = int64Min then int64Min else (i.natAbs : Int)) = (if i < 0 then wrap64 (-i) else i) := by
  simp only [int64Min, wrap64, InInt64] at *
  by_cases h1 : i = -9223372036854775808 <;> by_cases h2 : i < 0 <;> simp only [h1, h2, if_true, if_false] <;> omega

theorem sign_int_eq (i : Int) : i.sign = (if i < 0 then -1 else if i = 0 then 0 else 1) := by
  split
  · rename_i h; exact Int.sign_eq_neg_one_of_neg h
  · split
    · rename_i h; subst h; rfl
    · exact Int.sign_eq_one_of_pos (by omega)

theorem pickR_eq_minMaxFold (p : Val → Val → R Bool) : ∀ (vs : List Val) (m : Val),
    pickR p m vs none = minMaxFold p m vs
  | [], _ => rfl
  | v :: vs, m => by
    simp only [pickR, minMaxFold]
    cases p v m with
    | ok b => cases b <;> simp [pickR_eq_minMaxFold p vs]
    | _ => rfl

/-- the unary static functions (`v` any value; ints inside int64) and `min`/`max` -/
theorem static_refines (ap : Apply) (k : Nat) (v : Val) (hv : ∀ i, v = .int i → InInt64 i) :
    fThrow [v] = liftV (callStatic ap k "throw" [v]) ∧
    fString ap k [v] = liftV (callStatic ap k "string" [v]) ∧
    fIsFloat [v] = liftV (callStatic ap k "isFloat" [v]) ∧
    fIsInt [v] = liftV (callStatic ap k "isInt" [v]) ∧
    fFloat [v] = liftV (callStatic ap k "float" [v]) ∧
    fInt [v] = liftV (callStatic ap k "int" [v]) ∧
    fAbs [v] = liftV (callStatic ap k "abs" [v]) ∧
    fSign [v] = liftV (callStatic ap k "sign" [v]) ∧
    fSqr [v] = liftV (callStatic ap k "sqr" [v]) ∧
    fRound [v] = liftV (callStatic ap k "round" [v]) ∧
    fGoto [v] = liftV (callStatic ap k "goto" [v]) ∧
    fSqrt [v] = liftV (callStatic ap k "sqrt" [v]) ∧
    fFloor [v] = liftV (callStatic ap k "floor" [v]) ∧
    fCeil [v] = liftV (callStatic ap k "ceil" [v]) ∧
    fTrunc [v] = liftV (callStatic ap k "trunc" [v]) := by
  refine ⟨?_, ?_, ?_, ?_, ?_, ?_, ?_, ?_, ?_, ?_, ?_, ?_, ?_, ?_, ?_⟩
  · simp [fThrow, callStatic, liftV]
  · simp [fString, callStatic, liftV]
  · cases v <;> simp [fIsFloat, callStatic, liftV, okVal]
  · cases v <;> simp [fIsInt, callStatic, liftV, okVal]
  · cases v <;> simp [fFloat, callStatic, liftV, okVal, toFloat?]
  · cases v <;> simp [fInt, callStatic, liftV, okVal, truncToInt, floatToInt]
  · cases v with
    | int i => simp [fAbs, callStatic, liftV, okVal, abs_int_eq i (hv i rfl)]
    | _ => simp [fAbs, callStatic, liftV, okVal]
  · cases v with
    | int i => simp [fSign, callStatic, liftV, okVal, sign_int_eq]
    | _ => simp [fSign, callStatic, liftV, okVal]
  · cases v <;> simp [fSqr, callStatic, liftV, okVal]
  · cases v <;> simp [fRound, callStatic, liftV, okVal, truncToInt, floatToInt]
  · cases v <;> simp [fGoto, callStatic, liftV, okVal]
  · cases v <;> simp [fSqrt, callStatic, liftV, okVal, toFloat?] <;> split <;> rfl
  · cases v <;> simp [fFloor, callStatic, liftV, okVal, toFloat?]
  · cases v <;> simp [fCeil, callStatic, liftV, okVal, toFloat?]
  · cases v <;> simp [fTrunc, callStatic, liftV, okVal, toFloat?]

theorem static_minmax_refines (ap : Apply) (k : Nat) (v : Val) (vs : List Val) :
    fMin (v :: vs) = liftV (callStatic ap k "min" (v :: vs)) ∧
    fMax (v :: vs) = liftV (callStatic ap k "max" (v :: vs)) := by
  simp [fMin, fMax, callStatic, liftV, pickR_eq_minMaxFold]

/-- `numbers(n)`: the model's lazy generator produces `0, 1, …, n−1` -/
theorem drain_numbers (ap : Apply) : ∀ (d : Nat) (i n : Int), n - i = d → ∀ k, d + 1 < k →
    drain ap k (.numbers i n) = .ofList ((List.range d).map (fun (j : Nat) => Val.int (i + Int.ofNat j)))
  | 0, i, n, h, k+2, _ => by
    have : ¬ i < n := by omega
    simp [drain_succ, uncons, this, Str.ofList, Str.nil]
  | d+1, i, n, h, k+2, hk => by
    have hi : i < n := by omega
    rw [drain_succ]
    simp only [uncons, hi, if_true]
    rw [drain_numbers ap d (i+1) n (by omega) (k+1) (by omega)]
    simp only [Str.cons, Str.ofList, List.range_succ_eq_map, List.map_cons, List.map_map]
    congr 1
    simp
    intro a _
    omega
  | _, _, _, _, 0, h => by omega
  | _, _, _, _, 1, h => by omega

end P2.LibSpec
