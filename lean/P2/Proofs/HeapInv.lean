import P2.Model.Heap
/-! # The ownership invariant of the slice heap (C09) and the table-level preservation lemmas.

`Inv` only depends on the table of slices of the materialised objects and on the lengths of the
backing arrays, so the preservation lemmas are stated for an arbitrary slice table (`InvS`) and are
pure index arithmetic. -/
namespace P2.Heap

/-- cell `p` of the backing array is shown by slice `s` -/
def vis (s : Slice) (p : Nat) : Prop := s.off ≤ p ∧ p < s.off + s.len
/-- cell `p` is spare capacity of `s`: the next `append` to `s` may write it -/
def spare (s : Slice) (p : Nat) : Prop := s.off + s.len ≤ p ∧ p < s.off + s.cap

/-- (I1) bounds, (I2) a spare cell of a slice is shown by no slice on that array,
(I3) the spare ranges of two objects on one array are disjoint (at most one of them may grow in place) -/
structure InvS (sl : Nat → Option Slice) (nArr : Nat) (alen : Nat → Nat) : Prop where
  bounds : ∀ (i : Nat) (s : Slice), sl i = some s →
    s.arr < nArr ∧ s.len ≤ s.cap ∧ s.off + s.cap ≤ alen s.arr
  hidden : ∀ (i j : Nat) (s1 s2 : Slice), sl i = some s1 → sl j = some s2 → s1.arr = s2.arr →
    ∀ p, spare s1 p → ¬ vis s2 p
  disjoint : ∀ (i j : Nat) (s1 s2 : Slice), i ≠ j → sl i = some s1 → sl j = some s2 → s1.arr = s2.arr →
    ∀ p, spare s1 p → ¬ spare s2 p

def Inv (h : H) : Prop := InvS h.sl h.arrays.length (fun a => (h.arrayOf a).length)

theorem invS_empty : InvS (fun _ => none) 0 (fun _ => 0) :=
  ⟨fun _ _ h => (by cases h), fun _ _ _ _ h => (by cases h), fun _ _ _ _ _ h => (by cases h)⟩

section tables
variable {sl sl' : Nat → Option Slice} {nArr nArr' : Nat} {alen alen' : Nat → Nat}

/-- nothing changes for the slices; arrays may be added -/
theorem invS_same (hinv : InvS sl nArr alen) (hn : nArr ≤ nArr')
    (hal : ∀ a, a < nArr → alen' a = alen a) (hsl : ∀ i, sl' i = sl i) : InvS sl' nArr' alen' := by
  refine ⟨?_, ?_, ?_⟩
  · intro i s hs
    rw [hsl] at hs
    have hb := hinv.bounds i s hs
    rw [hal _ hb.1]
    exact ⟨by omega, hb.2.1, hb.2.2⟩
  · intro i j s1 s2 h1 h2
    rw [hsl] at h1 h2
    exact hinv.hidden i j s1 s2 h1 h2
  · intro i j s1 s2 hij h1 h2
    rw [hsl] at h1 h2
    exact hinv.disjoint i j s1 s2 hij h1 h2

/-- one object (new, or lazy so far) gets a slice on a fresh array -/
theorem invS_fresh (hinv : InvS sl nArr alen) (k len cap : Nat)
    (hn : nArr' = nArr + 1) (hal : ∀ a, a < nArr → alen' a = alen a)
    (hk : sl k = none) (hsl : ∀ i, i ≠ k → sl' i = sl i)
    (hnew : sl' k = some ⟨nArr, 0, len, cap⟩) (hlc : len ≤ cap) (hca : cap ≤ alen' nArr) :
    InvS sl' nArr' alen' := by
  have old : ∀ i s, sl' i = some s → i ≠ k → sl i = some s ∧ s.arr < nArr := by
    intro i s hs hik
    rw [hsl i hik] at hs
    exact ⟨hs, (hinv.bounds i s hs).1⟩
  have new : ∀ s, sl' k = some s → s = ⟨nArr, 0, len, cap⟩ := by
    intro s hs; rw [hnew] at hs; cases hs; rfl
  refine ⟨?_, ?_, ?_⟩
  · intro i s hs
    by_cases hik : i = k
    · subst hik
      have := new s hs; subst this
      dsimp only
      exact ⟨by omega, hlc, by omega⟩
    · obtain ⟨ho, _⟩ := old i s hs hik
      have hb := hinv.bounds i s ho
      rw [hal _ hb.1]
      exact ⟨by omega, hb.2.1, hb.2.2⟩
  · intro i j s1 s2 h1 h2 harr p hsp hv
    by_cases hik : i = k
    · by_cases hjk : j = k
      · subst hik; subst hjk
        have e1 := new s1 h1; have e2 := new s2 h2; subst e1; subst e2
        simp only [spare, vis] at hsp hv; omega
      · subst hik
        have e1 := new s1 h1; subst e1
        obtain ⟨_, hlt⟩ := old j s2 h2 hjk
        simp only at harr; omega
    · obtain ⟨ho1, hlt1⟩ := old i s1 h1 hik
      by_cases hjk : j = k
      · subst hjk
        have e2 := new s2 h2; subst e2
        simp only at harr; omega
      · obtain ⟨ho2, _⟩ := old j s2 h2 hjk
        exact hinv.hidden i j s1 s2 ho1 ho2 harr p hsp hv
  · intro i j s1 s2 hij h1 h2 harr p hsp1 hsp2
    by_cases hik : i = k
    · have hjk : j ≠ k := fun h' => hij (hik.trans h'.symm)
      subst hik
      have e1 := new s1 h1; subst e1
      obtain ⟨_, hlt⟩ := old j s2 h2 hjk
      simp only at harr; omega
    · obtain ⟨ho1, hlt1⟩ := old i s1 h1 hik
      by_cases hjk : j = k
      · subst hjk
        have e2 := new s2 h2; subst e2
        simp only at harr; omega
      · obtain ⟨ho2, _⟩ := old j s2 h2 hjk
        exact hinv.disjoint i j s1 s2 hij ho1 ho2 harr p hsp1 hsp2

/-- a new object on a capacity-capped part `[i:j:j]` of an existing slice -/
theorem invS_sub (hinv : InvS sl nArr alen) (o n i j : Nat) (s : Slice)
    (hn : nArr ≤ nArr') (hal : ∀ a, a < nArr → alen' a = alen a)
    (ho : sl o = some s) (hij : i ≤ j) (hj : j ≤ s.len)
    (hk : sl n = none) (hsl : ∀ x, x ≠ n → sl' x = sl x)
    (hnew : sl' n = some ⟨s.arr, s.off + i, j - i, j - i⟩) : InvS sl' nArr' alen' := by
  have hsb := hinv.bounds o s ho
  have old : ∀ x t, sl' x = some t → x ≠ n → sl x = some t := by
    intro x t ht hx; rw [hsl x hx] at ht; exact ht
  have new : ∀ t, sl' n = some t → t = ⟨s.arr, s.off + i, j - i, j - i⟩ := by
    intro t ht; rw [hnew] at ht; cases ht; rfl
  refine ⟨?_, ?_, ?_⟩
  · intro x t ht
    by_cases hx : x = n
    · subst hx
      have := new t ht; subst this
      simp only
      rw [hal _ hsb.1]
      exact ⟨by omega, Nat.le_refl _, by omega⟩
    · have hb := hinv.bounds x t (old x t ht hx)
      rw [hal _ hb.1]
      exact ⟨by omega, hb.2.1, hb.2.2⟩
  · intro x y t1 t2 h1 h2 harr p hsp hv
    by_cases hx : x = n
    · subst hx
      have := new t1 h1; subst this
      simp only [spare] at hsp; omega
    · have ho1 := old x t1 h1 hx
      by_cases hy : y = n
      · subst hy
        have := new t2 h2; subst this
        have hv' : vis s p := by simp only [vis] at hv ⊢; omega
        exact hinv.hidden x o t1 s ho1 ho (by simpa using harr) p hsp hv'
      · exact hinv.hidden x y t1 t2 ho1 (old y t2 h2 hy) harr p hsp hv
  · intro x y t1 t2 hxy h1 h2 harr p hsp1 hsp2
    by_cases hx : x = n
    · subst hx
      have := new t1 h1; subst this
      simp only [spare] at hsp1; omega
    · by_cases hy : y = n
      · subst hy
        have := new t2 h2; subst this
        simp only [spare] at hsp2; omega
      · exact hinv.disjoint x y t1 t2 hxy (old x t1 h1 hx) (old y t2 h2 hy) harr p hsp1 hsp2

/-- `append` into spare capacity: the parent is capped to its length, the new object owns the rest -/
theorem invS_inplace (hinv : InvS sl nArr alen) (o n : Nat) (s : Slice)
    (hn : nArr ≤ nArr') (hal : ∀ a, a < nArr → alen' a = alen a)
    (ho : sl o = some s) (hlt : s.len < s.cap)
    (hk : sl n = none) (hsl : ∀ x, x ≠ n → x ≠ o → sl' x = sl x)
    (hpar : sl' o = some { s with cap := s.len })
    (hnew : sl' n = some { s with len := s.len + 1 }) : InvS sl' nArr' alen' := by
  have hsb := hinv.bounds o s ho
  have hno : n ≠ o := by intro h'; rw [h'] at hk; rw [hk] at ho; cases ho
  have old : ∀ x t, sl' x = some t → x ≠ n → x ≠ o → sl x = some t := by
    intro x t ht hx hx'; rw [hsl x hx hx'] at ht; exact ht
  have new : ∀ t, sl' n = some t → t = { s with len := s.len + 1 } := by
    intro t ht; rw [hnew] at ht; cases ht; rfl
  have par : ∀ t, sl' o = some t → t = { s with cap := s.len } := by
    intro t ht; rw [hpar] at ht; cases ht; rfl
  -- every slice of the new table: where it comes from
  have cls : ∀ x t, sl' x = some t →
      (x = n ∧ t = { s with len := s.len + 1 }) ∨ (x = o ∧ t = { s with cap := s.len }) ∨
      (x ≠ n ∧ x ≠ o ∧ sl x = some t) := by
    intro x t ht
    by_cases hx : x = n
    · subst hx; exact Or.inl ⟨rfl, new t ht⟩
    · by_cases hx' : x = o
      · subst hx'; exact Or.inr (Or.inl ⟨rfl, par t ht⟩)
      · exact Or.inr (Or.inr ⟨hx, hx', old x t ht hx hx'⟩)
  refine ⟨?_, ?_, ?_⟩
  · intro x t ht
    rcases cls x t ht with ⟨_, rfl⟩ | ⟨_, rfl⟩ | ⟨_, _, hold⟩
    · simp only; rw [hal _ hsb.1]; exact ⟨by omega, by omega, hsb.2.2⟩
    · simp only; rw [hal _ hsb.1]; exact ⟨by omega, Nat.le_refl _, by omega⟩
    · have hb := hinv.bounds x t hold
      rw [hal _ hb.1]; exact ⟨by omega, hb.2.1, hb.2.2⟩
  · intro x y t1 t2 h1 h2 harr p hsp hv
    rcases cls x t1 h1 with ⟨hx, rfl⟩ | ⟨hx, rfl⟩ | ⟨hxn, hxo, hold1⟩
    · -- spare of the new object is spare of the old parent (minus the written cell)
      have hsp' : spare s p := by simp only [spare] at hsp ⊢; omega
      rcases cls y t2 h2 with ⟨_, rfl⟩ | ⟨_, rfl⟩ | ⟨_, _, hold2⟩
      · simp only [spare, vis] at hsp hv; omega
      · simp only [spare, vis] at hsp hv; omega
      · exact hinv.hidden o y s t2 ho hold2 (by simpa using harr) p hsp' hv
    · simp only [spare] at hsp; omega
    · rcases cls y t2 h2 with ⟨_, rfl⟩ | ⟨_, rfl⟩ | ⟨_, _, hold2⟩
      · -- visible in the new object: visible in the parent, or the written cell (spare of the parent)
        have harr' : t1.arr = s.arr := by simpa using harr
        by_cases hp : p = s.off + s.len
        · have : spare s p := by simp only [spare]; omega
          exact hinv.disjoint x o t1 s hxo hold1 ho harr' p hsp this
        · have : vis s p := by simp only [vis] at hv ⊢; omega
          exact hinv.hidden x o t1 s hold1 ho harr' p hsp this
      · have : vis s p := by simp only [vis] at hv ⊢; omega
        exact hinv.hidden x o t1 s hold1 ho (by simpa using harr) p hsp this
      · exact hinv.hidden x y t1 t2 hold1 hold2 harr p hsp hv
  · intro x y t1 t2 hxy h1 h2 harr p hsp1 hsp2
    rcases cls x t1 h1 with ⟨hx, rfl⟩ | ⟨hx, rfl⟩ | ⟨hxn, hxo, hold1⟩
    · have hsp' : spare s p := by simp only [spare] at hsp1 ⊢; omega
      rcases cls y t2 h2 with ⟨hy, _⟩ | ⟨_, rfl⟩ | ⟨_, hyo, hold2⟩
      · exact hxy (hx.trans hy.symm)
      · simp only [spare] at hsp2; omega
      · exact hinv.disjoint o y s t2 (fun h' => hyo h'.symm) ho hold2 (by simpa using harr) p hsp' hsp2
    · simp only [spare] at hsp1; omega
    · rcases cls y t2 h2 with ⟨_, rfl⟩ | ⟨_, rfl⟩ | ⟨_, _, hold2⟩
      · have hsp' : spare s p := by simp only [spare] at hsp2 ⊢; omega
        exact hinv.disjoint x o t1 s hxo hold1 ho (by simpa using harr) p hsp1 hsp'
      · simp only [spare] at hsp2; omega
      · exact hinv.disjoint x y t1 t2 hxy hold1 hold2 harr p hsp1 hsp2

end tables
end P2.Heap
