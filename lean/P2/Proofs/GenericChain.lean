import P2.Proofs.GenericOpt
import P2.Proofs.GenericGen
/-! Composition of the optimizer stage and the compiler stage of the generic model; the stack-depth
bookkeeping needed for it (no rewrite needs more stack than the source). -/
namespace P2.Generic
variable {V : Type}

theorem initial_rel : ∀ (args : List String) (vals : List V), args.length = vals.length →
    EnvRel args (envOf args vals) (initStack vals)
  | [], [], _ => ⟨rfl, by simp [initStack], fun i n h => by simp [idx] at h⟩
  | [], _ :: _, h => by simp at h
  | _ :: _, [], h => by simp at h
  | a :: as, v :: vs, h => by
    have ih := initial_rel as vs (by simpa using h)
    refine ⟨by simp [initStack] at *; omega, by simp [initStack], ?_⟩
    intro i n hi
    simp only [idx] at hi
    simp only [envOf, initStack, Nat.zero_add]
    by_cases hn : a = n
    · simp [hn] at hi; subst hi; simp [hn]
    · have hn' : ¬ n = a := fun h => hn h.symm
      simp only [hn, if_false] at hi
      cases hj : idx as n with
      | none => simp [hj] at hi
      | some j =>
        simp [hj] at hi; subst hi
        have := ih.slots j n hj
        simp only [initStack, Nat.zero_add] at this
        simp [hn', this]

/-- `Generate` followed by `Eval` on as many values as names: the value of the reference semantics,
the same error, never a panic — provided `GenerateFunc` accepted the tree. -/
theorem run_correct (t : Table V) (e : E V) (args : List String) (vals : List V) (c : Code V)
    (hg : gen t e args = some c) (hlen : args.length = vals.length)
    (hd : vals.length + depth e ≤ stackLimit + 1) :
    run t e args vals = Outcome.ofOption (eval t e (envOf args vals)) := by
  obtain ⟨h1, h2⟩ := gen_correct t e args (envOf args vals) (initStack vals) c hg
    (initial_rel args vals hlen) (by simpa [initStack] using hd)
  unfold run
  rw [hg]
  cases hev : eval t e (envOf args vals) with
  | none => simp [h2 hev, Outcome.ofOption]
  | some v =>
    obtain ⟨d, hex, _⟩ := h1 v hev
    simp [hex, Outcome.ofOption]

/-! no rewrite increases the number of stack slots needed -/

theorem depth_rule_le (t : Table V) (e : E V) : depth (rule t e) ≤ depth e := by
  unfold rule
  split
  · split
    · split
      · split <;> simp [depth]
      · exact Nat.le_refl _
    · split
      · split
        · simp only [depth]; omega
        · exact Nat.le_refl _
      · exact Nat.le_refl _
    · split
      · split
        · simp only [depth]; omega
        · exact Nat.le_refl _
      · exact Nat.le_refl _
    · exact Nat.le_refl _
  · split <;> simp [depth]
  · split
    · exact Nat.le_refl _
    · split
      · simp only [depth]; omega
      · simp only [depth]; omega
      · exact Nat.le_refl _
  · split
    · split
      · split <;> simp [depth]
      · exact Nat.le_refl _
    · exact Nat.le_refl _
  · exact Nat.le_refl _

theorem depth_optimize_le (t : Table V) : ∀ e : E V, depth (optimize t e) ≤ depth e
  | .const _ => Nat.le_refl _
  | .var _ => Nat.le_refl _
  | .un o a => by
    simp only [optimize]
    refine Nat.le_trans (depth_rule_le t _) ?_
    simp only [depth]; exact depth_optimize_le t a
  | .op o a b => by
    simp only [optimize]
    refine Nat.le_trans (depth_rule_le t _) ?_
    have := depth_optimize_le t a; have := depth_optimize_le t b
    simp only [depth]; omega
  | .call f a => by
    simp only [optimize]
    refine Nat.le_trans (depth_rule_le t _) ?_
    have := depth_optimize_le t a
    simp only [depth]; omega
  | .letE x v b => by
    simp only [optimize]
    refine Nat.le_trans (depth_rule_le t _) ?_
    have := depth_optimize_le t b
    simp only [depth]; omega
  | .ite c th el => by
    simp only [optimize]
    refine Nat.le_trans (depth_rule_le t _) ?_
    have := depth_optimize_le t c; have := depth_optimize_le t th; have := depth_optimize_le t el
    simp only [depth]; omega

theorem depth_optimizeIf_le (t : Table V) (on : Bool) (e : E V) : depth (optimizeIf t on e) ≤ depth e := by
  unfold optimizeIf; split
  · exact depth_optimize_le t e
  · exact Nat.le_refl _

theorem depth_resolve_le (t : Table V) (on : Bool) : ∀ (e : E V) (cs : Consts V),
    depth (resolve t on cs e) ≤ depth e
  | .const _, _ => Nat.le_refl _
  | .var x, cs => by simp only [resolve]; split <;> simp [depth]
  | .un o a, cs => by simp only [resolve, depth]; exact depth_resolve_le t on a cs
  | .op o a b, cs => by
    have := depth_resolve_le t on a cs; have := depth_resolve_le t on b cs
    simp only [resolve, depth]; omega
  | .call f a, cs => by
    have := depth_resolve_le t on a cs
    simp only [resolve, depth]; omega
  | .ite c th el, cs => by
    have := depth_resolve_le t on c cs; have := depth_resolve_le t on th cs
    have := depth_resolve_le t on el cs
    simp only [resolve, depth]; omega
  | .letE x v b, cs => by
    simp only [resolve]
    split
    · have := depth_resolve_le t on b (cs.set x ‹V›)
      simp only [depth]; omega
    · have h1 := depth_optimizeIf_le t on (resolve t on cs v)
      have h2 := depth_resolve_le t on v cs
      have h3 := depth_resolve_le t on b (cs.erase x)
      simp only [depth]; omega

theorem depth_frontend_le (t : Table V) (on : Bool) (cs : Consts V) (e : E V) :
    depth (frontend t on cs e) ≤ depth e :=
  Nat.le_trans (depth_optimizeIf_le t on _) (depth_resolve_le t on e cs)

/-- optimizer stage ∘ compiler stage, for every table that satisfies the laws (needed only when the
optimizer is on): whenever `Generate` accepts the program, the generated function returns exactly the
value the operators' own definitions give to the **source** expression. -/
theorem chain_correct (t : Table V) (on : Bool) (hl : on = true → Laws t) (cs : Consts V) (e : E V)
    (args : List String) (vals : List V) (c : Code V)
    (hg : gen t (frontend t on cs e) args = some c) (hlen : args.length = vals.length)
    (hd : vals.length + depth e ≤ stackLimit + 1) :
    chain t on cs e args vals = Outcome.ofOption (eval t e (overlay cs (envOf args vals))) := by
  unfold chain
  rw [run_correct t _ args vals c hg hlen (by have := depth_frontend_le t on cs e; omega),
    frontend_sound t on hl]

end P2.Generic
