import P2.Proofs.HeapPlan
/-! # From "same elements" to "same deep observation", and what `append` returns (C09). -/
namespace P2.Heap

/-! ## map tables only depend on the maps below -/

theorem mUpTo_length (ms : List MObj) (n : Nat) : (mUpTo ms n).length = n := by
  induction n with
  | zero => rfl
  | succ n ih =>
    simp only [mUpTo]
    split <;> simp [ih]

theorem mUpTo_append (ms extra : List MObj) (n : Nat) (hn : n ≤ ms.length) :
    mUpTo (ms ++ extra) n = mUpTo ms n := by
  induction n with
  | zero => rfl
  | succ n ih =>
    have hlt : n < ms.length := by omega
    simp only [mUpTo, ih (by omega), List.getElem?_append_left hlt]

theorem mUpTo_prefix (ms : List MObj) (n N : Nat) (hn : n ≤ N) (m : Nat) (hm : m < n) :
    (mUpTo ms N)[m]? = (mUpTo ms n)[m]? := by
  induction N with
  | zero => have : n = 0 := by omega
            subst this; rfl
  | succ N ih =>
    by_cases hN : n = N + 1
    · subst hN; rfl
    · have hle : n ≤ N := by omega
      rw [← ih hle]
      simp only [mUpTo]
      split <;> rw [List.getElem?_append_left (by rw [mUpTo_length]; omega)]

theorem mtable_ext {h h' : H} (hm : ∃ extra, h'.maps = h.maps ++ extra) (m : Nat) (hlt : m < h.maps.length) :
    (mtable h')[m]? = (mtable h)[m]? := by
  obtain ⟨extra, he⟩ := hm
  unfold mtable
  rw [mUpTo_prefix h'.maps h.maps.length h'.maps.length (by rw [he]; simp) m hlt, he,
    mUpTo_append _ _ _ (Nat.le_refl _)]

theorem mtable_length (h : H) : (mtable h).length = h.maps.length := mUpTo_length _ _

/-! ## deep observation -/

theorem flatMap_congr' {α β} (xs : List α) (f g : α → List β) (h : ∀ x ∈ xs, f x = g x) :
    xs.flatMap f = xs.flatMap g := by
  induction xs with
  | nil => rfl
  | cons x xs ih =>
    simp only [List.flatMap_cons]
    rw [h x (by simp), ih (fun y hy => h y (by simp [hy]))]

/-- an observation without dangling pointers only reads entries that exist, so it is unchanged when
the tables are extended -/
theorem absV_ext (LT LT' : List (Res (List Val))) (MT MT' : List MInfo)
    (hL : ∀ (o : Nat) (r : Res (List Val)), LT[o]? = some r → LT'[o]? = some r)
    (hM : ∀ (m : Nat) (r : MInfo), MT[m]? = some r → MT'[m]? = some r) :
    ∀ (d : Nat) (v : Val), Tok.dangling ∉ absV LT MT d v → absV LT' MT' d v = absV LT MT d v := by
  intro d
  induction d with
  | zero => intro v _; rfl
  | succ d ih =>
    intro v hv
    cases v with
    | int i => rfl
    | str s => rfl
    | ref o =>
      simp only [absV] at hv ⊢
      cases ho : LT[o]? with
      | none => rw [ho] at hv; simp at hv
      | some r =>
        rw [hL o r ho]
        rw [ho] at hv
        cases r with
        | ok xs =>
          simp only at hv ⊢
          rw [flatMap_congr' xs _ _ (fun x hx => ih x (fun hd => hv (by
            simp only [List.mem_append, List.mem_flatMap]
            exact Or.inl (Or.inr ⟨x, hx, hd⟩))))]
        | err => rfl
        | panic => rfl
        | fuel => rfl
    | mref m =>
      simp only [absV] at hv ⊢
      cases hm : MT[m]? with
      | none => rw [hm] at hv; simp at hv
      | some mi =>
        rw [hM m mi hm]
        rw [hm] at hv
        simp only at hv ⊢
        by_cases hb : mi.bad = true
        · simp [hb]
        · rw [if_neg hb] at hv ⊢
          rw [flatMap_congr' (sortKeys mi.iter) _ _ (fun kv hkv => by
            rw [ih kv.2 (fun hd => hv (by
              simp only [List.mem_append, List.mem_flatMap]
              exact Or.inl (Or.inr ⟨kv, hkv, by simp [hd]⟩)))])]
          rw [if_neg hb]

theorem abs_ext (rot : Bool) {h h' : H} (hext : Ext rot h h') (d : Nat) (v : Val)
    (hv : Tok.dangling ∉ abs rot d h v) : abs rot d h' v = abs rot d h v := by
  unfold abs at hv ⊢
  apply absV_ext _ _ _ _ _ _ d v hv
  · intro o r ho
    have hlt : o < h.objs.length := by
      have := (List.getElem?_eq_some_iff.mp ho).1
      rw [table_length] at this; exact this
    rw [table_getElem? rot h o hlt] at ho
    rw [table_getElem? rot h' o (Nat.lt_of_lt_of_le hlt hext.objs), hext.elems o hlt]
    exact ho
  · intro m r hm
    have hlt : m < h.maps.length := by
      have := (List.getElem?_eq_some_iff.mp hm).1
      rw [mtable_length] at this; exact this
    rw [mtable_ext hext.maps m hlt]; exact hm

/-! ## what the micro operations return -/

/-- after `Eval`, the object is materialised and shows exactly what iterating it yielded -/
theorem mat_spec (cfg : Cfg) (h : H) (o : Nat) (xs : List Val) (he : elems cfg.rot h o = .ok xs) :
    ∃ ob, (micro cfg h (.mat o)).objs[o]? = some ob ∧ ob.present = true ∧
      (micro cfg h (.mat o)).window ob.items = xs ∧
      (micro cfg h (.mat o)).objs.length = h.objs.length := by
  simp only [micro]
  cases hob : h.objs[o]? with
  | none => simp [elems, elemsOf, hob] at he
  | some ob =>
    simp only
    by_cases hp : ob.present = true
    · rw [if_pos hp]
      refine ⟨ob, hob, hp, ?_, rfl⟩
      rw [elems_present cfg.rot hob hp] at he
      cases he; rfl
    · rw [if_neg hp, he]
      have holt : o < h.objs.length := by
        by_cases hlt : o < h.objs.length
        · exact hlt
        · rw [List.getElem?_eq_none (by omega)] at hob; cases hob
      refine ⟨⟨⟨h.arrays.length, 0, xs.length, xs.length + (evalCap cfg.grow xs.length - xs.length)⟩,
        true, .none⟩, by simp only; rw [List.getElem?_set]; simp [holt], rfl, ?_, by simp⟩
      simp [H.window, H.arrayOf]

/-- `append` of one element to a materialised list yields a new object showing the old elements
followed by the new one (both branches of Go's `append`) -/
theorem app_spec (cfg : Cfg) (h : H) (hinv : Inv h) (o : Nat) (ob : LObj) (v : Val) (c : Bool)
    (hob : h.objs[o]? = some ob) (hp : ob.present = true) (hv : vok h v = true) :
    elems cfg.rot (micro cfg h (.app o v c)) h.objs.length = .ok (h.window ob.items ++ [v]) := by
  have hso : h.sl o = some ob.items := by rw [sl_of_obj hob]; simp [hp]
  have hb := hinv.bounds o ob.items hso
  simp only [micro, hob]
  rw [if_pos ⟨hp, hv⟩]
  by_cases hlt : ob.items.len < ob.items.cap
  · rw [if_pos hlt]
    have hlen : (if c = true then h.objs.set o { ob with items := { ob.items with cap := ob.items.len } }
        else h.objs).length = h.objs.length := by split <;> simp
    have hnew : ((if c = true then h.objs.set o { ob with items := { ob.items with cap := ob.items.len } }
        else h.objs) ++ [⟨{ ob.items with len := ob.items.len + 1 }, true, Prod.none⟩])[h.objs.length]? =
        some ⟨{ ob.items with len := ob.items.len + 1 }, true, Prod.none⟩ := by
      rw [List.getElem?_append_right (by rw [hlen]; exact Nat.le_refl _), hlen]; simp
    rw [elems_present cfg.rot (ob := ⟨{ ob.items with len := ob.items.len + 1 }, true, Prod.none⟩) hnew rfl]
    simp only [H.window, H.arrayOf]
    rw [List.getElem?_set]
    have harr : h.arrays[ob.items.arr]? = some (h.arrayOf ob.items.arr) := by
      simp only [H.arrayOf]
      cases hx : h.arrays[ob.items.arr]? with
      | none => rw [List.getElem?_eq_none_iff] at hx; omega
      | some l => rfl
    simp only [hb.1, if_true]
    have hx : ob.items.off + ob.items.len < (h.arrayOf ob.items.arr).length := by omega
    have := window_set_snoc (h.arrayOf ob.items.arr) ob.items.off ob.items.len v hx
    simp only [H.arrayOf] at this
    simp only [this]
  · rw [if_neg hlt]
    have hnew : (h.objs ++ [⟨⟨h.arrays.length, 0, ob.items.len + 1,
        max (cfg.grow ob.items.len) (ob.items.len + 1)⟩, true, Prod.none⟩])[h.objs.length]? =
        some ⟨⟨h.arrays.length, 0, ob.items.len + 1,
          max (cfg.grow ob.items.len) (ob.items.len + 1)⟩, true, Prod.none⟩ := by simp
    rw [elems_present cfg.rot hnew rfl]
    have hwl : (h.window ob.items).length = ob.items.len := by
      simp only [H.window, List.length_take, List.length_drop]; omega
    simp only [H.window, H.arrayOf, List.getElem?_append_right (Nat.le_refl _), Nat.sub_self,
      List.getElem?_cons_zero, List.drop_zero]
    have : (h.window ob.items ++ [v] ++ pad (max (cfg.grow ob.items.len) (ob.items.len + 1) -
        (ob.items.len + 1))).take (ob.items.len + 1) = h.window ob.items ++ [v] := by
      rw [List.take_append_of_le_length (by simp [hwl])]
      apply List.take_of_length_le; simp [hwl]
    simp only [H.window, H.arrayOf] at this
    rw [this]

/-- a freshly allocated list shows its elements -/
theorem alloc_spec (cfg : Cfg) (h : H) (xs : List Val) (spare : Nat) (hg : xs.all (vok h) = true) :
    elems cfg.rot (micro cfg h (.alloc xs spare)) h.objs.length = .ok xs := by
  have hnew : (micro cfg h (.alloc xs spare)).objs[h.objs.length]? =
      some ⟨⟨h.arrays.length, 0, xs.length, xs.length + spare⟩, true, .none⟩ := by
    simp only [micro]; rw [if_pos hg]; simp
  rw [elems_present cfg.rot hnew rfl]
  simp only [micro]; rw [if_pos hg]
  simp [H.window, H.arrayOf]

end P2.Heap
