import P2.Proofs.LangFLib
import P2.Proofs.LangFSyn
import P2.Proofs.LangOptSim
/-! # C02 on the value language: `optimize` preserves `eval`, rule (f) included

The simulation of `Proofs/LangOptSim.lean` for the value relation of `Proofs/LangFRel.lean`. New with
respect to that file: every statement carries the well-scopedness of the OPTIMIZED tree in a name
list `L'` and the two environments agree on `L'` only; a folding step is proved relationally — the
children are simulated against the empty environment (where the optimizer evaluated them), the
folded constant is moved to the environment of the use (`VRel.rebase`). -/
namespace P2.Lang
namespace F
open P2.Lang.Opt

/-! ## original outcome vs. eventual optimized outcome -/

/-- unless the original outcome `x` is `fuel`: for all large `m`, `y m` is one and the same outcome,
related to `x` -/
structure EvR {α β : Type} (P : α → β → Prop) (x : R α) (y : Nat → R β) : Prop where
  ev : x ≠ .fuel → ∃ r', RRel P x r' ∧ ∃ m0, ∀ m, m0 ≤ m → y m = r'

namespace EvR
variable {α β γ δ : Type} {P : α → β → Prop} {Q : γ → δ → Prop}

theorem fuel (y : Nat → R β) : EvR P .fuel y := ⟨fun h => absurd rfl h⟩

theorem of_rrel {x : R α} {z : R β} (h : RRel P x z) : EvR P x (fun _ => z) :=
  ⟨fun _ => ⟨z, h, 0, fun _ _ => rfl⟩⟩

theorem ok {a : α} {b : β} (h : P a b) : EvR P (.ok a) (fun _ => .ok b) := of_rrel h

/-- naturality at the limit + continuity -/
theorem of_lim {x : R α} {z : R β} {y : Nat → R β} (h : RRel P x z) (hz : Ev z y) : EvR P x y :=
  ⟨fun hx => ⟨z, h, hz.ev (h.right_ne_fuel hx)⟩⟩

theorem of_succ {x : R α} {y : Nat → R β} (h : EvR P x (fun m => y (m + 1))) : EvR P x y := by
  refine ⟨fun hx => ?_⟩
  obtain ⟨r', hr, m0, h0⟩ := h.ev hx
  refine ⟨r', hr, m0 + 1, fun m hm => ?_⟩
  cases m with
  | zero => omega
  | succ m => exact h0 m (by omega)

theorem congr {x : R α} {y y' : Nat → R β} (h : EvR P x y) (he : ∀ m, y' m = y m) : EvR P x y' := by
  have : y' = y := funext he
  rw [this]; exact h

theorem mono {P' : α → β → Prop} {x : R α} {y : Nat → R β} (h : EvR P x y) (hp : ∀ a b, P a b → P' a b) :
    EvR P' x y :=
  ⟨fun hx => by
    obtain ⟨r', hr, h0⟩ := h.ev hx
    exact ⟨r', hr.mono hp, h0⟩⟩

theorem bind {x : R α} {y : Nat → R β} {f : α → R γ} {g : Nat → β → R δ}
    (h : EvR P x y) (hf : ∀ a b, P a b → EvR Q (f a) (fun m => g m b)) :
    EvR Q (x >>= f) (fun m => y m >>= g m) := by
  refine ⟨fun hne => ?_⟩
  have hx : x ≠ .fuel := fun hx => hne (by rw [hx]; rfl)
  obtain ⟨r', hr, m1, h1⟩ := h.ev hx
  rcases hr.cases hx with ⟨a, b, rfl, rfl, hab⟩ | ⟨rfl, rfl⟩ | ⟨rfl, rfl⟩ | ⟨rfl, rfl⟩
  · simp only [R.bind_ok] at hne ⊢
    obtain ⟨r'', hr2, m2, h2⟩ := (hf a b hab).ev hne
    refine ⟨r'', hr2, max m1 m2, fun m hm => ?_⟩
    rw [h1 m (by omega)]
    exact h2 m (by omega)
  · exact ⟨.err, trivial, m1, fun m hm => by rw [h1 m hm]; rfl⟩
  · exact ⟨.panic, trivial, m1, fun m hm => by rw [h1 m hm]; rfl⟩
  · exact ⟨.unmodelled, trivial, m1, fun m hm => by rw [h1 m hm]; rfl⟩

/-- `bind` that remembers where the bound value came from -/
theorem bind_eq {x : R α} {y : Nat → R β} {f : α → R γ} {g : Nat → β → R δ}
    (h : EvR P x y) (hf : ∀ a b, x = .ok a → P a b → EvR Q (f a) (fun m => g m b)) :
    EvR Q (x >>= f) (fun m => y m >>= g m) := by
  refine ⟨fun hne => ?_⟩
  have hx : x ≠ .fuel := fun hx => hne (by rw [hx]; rfl)
  obtain ⟨r', hr, m1, h1⟩ := h.ev hx
  rcases hr.cases hx with ⟨a, b, rfl, rfl, hab⟩ | ⟨rfl, rfl⟩ | ⟨rfl, rfl⟩ | ⟨rfl, rfl⟩
  · simp only [R.bind_ok] at hne ⊢
    obtain ⟨r'', hr2, m2, h2⟩ := (hf a b rfl hab).ev hne
    refine ⟨r'', hr2, max m1 m2, fun m hm => ?_⟩
    rw [h1 m (by omega)]
    exact h2 m (by omega)
  · exact ⟨.err, trivial, m1, fun m hm => by rw [h1 m hm]; rfl⟩
  · exact ⟨.panic, trivial, m1, fun m hm => by rw [h1 m hm]; rfl⟩
  · exact ⟨.unmodelled, trivial, m1, fun m hm => by rw [h1 m hm]; rfl⟩

/-- `y'` is `y` from some fuel on -/
theorem congr_ev {x : R α} {y y' : Nat → R β} (h : EvR P x y) (he : ∃ m0, ∀ m, m0 ≤ m → y' m = y m) :
    EvR P x y' := by
  refine ⟨fun hx => ?_⟩
  obtain ⟨r', hr, m0, h0⟩ := h.ev hx
  obtain ⟨m1, h1⟩ := he
  exact ⟨r', hr, max m0 m1, fun m hm => by rw [h1 m (by omega)]; exact h0 m (by omega)⟩

/-- the optimized side answers `z` at every positive fuel -/
theorem one {x : R α} {z : R β} {y : Nat → R β} (hy : ∀ m, y (m + 1) = z) (h : RRel P x z) : EvR P x y :=
  ⟨fun _ => ⟨z, h, 1, fun m hm => by
    cases m with
    | zero => omega
    | succ m => exact hy m⟩⟩

/-- a step on the optimized side only (a rule application) -/
theorem comp_ev {x : R α} {y z : Nat → R β} (h : EvR P x y) (hz : ∀ r', Ev r' y → Ev r' z) : EvR P x z := by
  refine ⟨fun hx => ?_⟩
  obtain ⟨r', hr, m0, h0⟩ := h.ev hx
  exact ⟨r', hr, (hz r' (Ev.of_eq m0 h0)).ev (hr.right_ne_fuel hx)⟩

/-- what the optimized side eventually answers, for a definite original outcome -/
theorem out {x : R α} {y : Nat → R β} (h : EvR P x y) {r : R α} (hx : x = r) (hr : r ≠ .fuel) :
    ∃ r', RRel P r r' ∧ ∃ m0, ∀ m, m0 ≤ m → y m = r' := by
  subst hx; exact h.ev hr

end EvR

/-! ## the invariant between the optimizer's scope and the two environments -/

theorem Scope.find_append (a b : Scope) (x : String) :
    Scope.find (a ++ b) x = match Scope.find a x with | some r => some r | none => Scope.find b x := by
  induction a with
  | nil => rfl
  | cons p rest ih =>
    obtain ⟨n, v⟩ := p
    simp only [List.cons_append, Scope.find_cons]
    split
    · rfl
    · exact ih

theorem extScope_find (this : String) (names : List String) (sc : Scope) (x : String) :
    Scope.find (extScope this names sc) x =
      if this ≠ "" ∧ this = x then some none else if x ∈ names then some none else Scope.find sc x := by
  unfold extScope
  rw [Scope.find_append, Scope.find_append, Scope.find_params]
  by_cases ht : this ≠ ""
  · rw [if_pos ht]
    by_cases hx : this = x
    · simp only [Scope.find_cons, hx, if_true]
      simp [hx ▸ ht]
    · simp only [hx, if_false, Scope.find, and_false]
      by_cases hn : x ∈ names <;> simp [hn]
  · rw [if_neg ht]
    simp only [Scope.find, ht, false_and, if_false]
    by_cases hn : x ∈ names <;> simp [hn]

theorem bindParams_rel {S : Ctx} : ∀ (names : List String) {vs vs' : List Val}, VsRel S vs vs' → ∀ x,
    OptRel S (Env.get (bindParams names vs) x) (Env.get (bindParams names vs') x)
  | [], _, _, _, x => by simp only [bindParams, Env.get]; exact .none
  | _ :: _, _, _, .nil, x => by simp only [bindParams, Env.get]; exact .none
  | n :: ns, _, _, .cons hv ht, x => by
    simp only [bindParams, Env.get]
    by_cases hn : n = x
    · simp only [hn, if_true]; exact .some hv
    · simp only [hn, if_false]; exact bindParams_rel ns ht x

theorem bindParams_get_none : ∀ (names : List String) (vs : List Val) (x : String), x ∉ names →
    Env.get (bindParams names vs) x = none
  | [], _, _, _ => by simp [bindParams, Env.get]
  | _ :: _, [], _, _ => by simp [bindParams, Env.get]
  | n :: ns, v :: vs, x, h => by
    simp only [List.mem_cons, not_or] at h
    simp only [bindParams, Env.get]
    have : n ≠ x := fun e => h.1 e.symm
    simp only [this, if_false]
    exact bindParams_get_none ns vs x h.2

theorem bindParams_get_some : ∀ (names : List String) (vs : List Val) (x : String),
    names.length = vs.length → x ∈ names → ∃ v, Env.get (bindParams names vs) x = some v
  | [], _, _, _, h => by simp at h
  | _ :: _, [], _, hl, _ => by simp at hl
  | n :: ns, v :: vs, x, hl, h => by
    simp only [bindParams, Env.get]
    by_cases hn : n = x
    · exact ⟨v, by simp [hn]⟩
    · simp only [hn, if_false]
      rcases List.mem_cons.mp h with rfl | h
      · exact absurd rfl hn
      · exact bindParams_get_some ns vs x (by simpa using hl) h

theorem Env.has_get {env : Env} {x : String} : env.has x = true ↔ env.get x ≠ none := by
  unfold Env.has
  cases env.get x <;> simp

/-- the environment inside a closure body: parameters, then the own name, then the captured
environment -/
theorem enterEnv_get (bp : Env) (r : Bool) (this : String) (f : Val) (cenv : Env) (x : String) :
    Env.get (bp ++ (if r then [(this, f)] else []) ++ cenv) x =
      match Env.get bp x with
      | some v => some v
      | none => if r = true ∧ this = x then some f else Env.get cenv x := by
  rw [Env.get_append, Env.get_append]
  cases Env.get bp x with
  | some v => rfl
  | none =>
    cases r with
    | false => simp [Env.get]
    | true =>
      by_cases hx : this = x
      · simp [Env.get, hx]
      · simp [Env.get, hx]


/-- `sc` is the optimizer's scope, `L` the names in scope in the original program, `L'` the names the
optimized program can mention, `env` / `env'` the two environments -/
structure EnvC (S : Ctx) (sc : Scope) (L L' : List String) (env env' : Env) : Prop where
  inL : ∀ x, x ∈ L → sc.find x ≠ none
  rtS : ∀ x, sc.find x = some none → S.S x = none
  un : ∀ x, sc.find x = none → env.get x = none
  cst : ∀ x k, sc.find x = some (some k) → CstRel S (env.get x) k
  sfree : ∀ x, env'.has x = true → S.S x = none
  live : ∀ x, x ∈ L' → (∀ k, sc.find x ≠ some (some k)) → OptRel S (env.get x) (env'.get x)

theorem EnvC.henv {S : Ctx} {sc L L' env env'} (h : EnvC S sc L L' env env') :
    ∀ x, env'.has x = true → sc.find x ≠ none ∨ S.S x = none :=
  fun x hx => .inr (h.sfree x hx)

/-- fewer names on the optimized side -/
theorem EnvC.weaken {S : Ctx} {sc L L' L2 env env'} (h : EnvC S sc L L' env env') (hl : ∀ x, x ∈ L2 → x ∈ L') :
    EnvC S sc L L2 env env' :=
  ⟨h.inL, h.rtS, h.un, h.cst, h.sfree, fun x hx hnc => h.live x (hl x hx) hnc⟩

/-- a closed optimized term may be run in any environment without static function names -/
theorem EnvC.toNil {S : Ctx} {sc L L' env env'} (h : EnvC S sc L L' env env') (e : Env)
    (he : ∀ x, e.has x = true → S.S x = none) : EnvC S sc L [] env e :=
  ⟨h.inL, h.rtS, h.un, h.cst, he, fun x hx _ => by simp at hx⟩

theorem EnvC.cons {S : Ctx} {sc L L' env env'} (h : EnvC S sc L L' env env') (x : String)
    (hin : sc.find x ≠ none) : EnvC S sc (x :: L) L' env env' :=
  ⟨fun y hy => by
      rcases List.mem_cons.mp hy with rfl | hy
      · exact hin
      · exact h.inL y hy,
   h.rtS, h.un, h.cst, h.sfree, h.live⟩

theorem EnvC.letConst {S : Ctx} {sc L L' env env'} (h : EnvC S sc L L' env env') (x : String) (k : AST) (v : Val)
    (hk : CstRel S (some v) k) : EnvC S ((x, some k) :: sc) (x :: L) L' ((x, v) :: env) env' := by
  refine ⟨fun y hy => ?_, fun y hy => ?_, fun y hy => ?_, fun y k' hy => ?_, h.sfree, fun y hy hnc => ?_⟩
  · rw [Scope.find_cons]
    by_cases hxy : x = y
    · simp [hxy]
    · simp only [hxy, if_false]
      rcases List.mem_cons.mp hy with rfl | hy
      · exact absurd rfl hxy
      · exact h.inL y hy
  · rw [Scope.find_cons] at hy
    by_cases hxy : x = y
    · simp [hxy] at hy
    · simp only [hxy, if_false] at hy; exact h.rtS y hy
  · rw [Scope.find_cons] at hy
    by_cases hxy : x = y
    · simp [hxy] at hy
    · simp only [hxy, if_false] at hy
      simp only [Env.get, hxy, if_false]; exact h.un y hy
  · rw [Scope.find_cons] at hy
    by_cases hxy : x = y
    · simp only [hxy, if_true, Option.some.injEq] at hy
      subst hy
      simp only [Env.get, hxy, if_true]; exact hk
    · simp only [hxy, if_false] at hy
      simp only [Env.get, hxy, if_false]; exact h.cst y k' hy
  · have hxy : x ≠ y := by
      intro e
      exact hnc k (by rw [Scope.find_cons]; simp [e])
    simp only [Env.get, hxy, if_false]
    refine h.live y hy (fun k' hk' => hnc k' ?_)
    rw [Scope.find_cons]; simp only [hxy, if_false]; exact hk'

theorem EnvC.letRt {S : Ctx} {sc L L' env env'} (h : EnvC S sc L L' env env') (x : String) {v v' : Val}
    (hv : VRel S v v') (hS : S.S x = none) :
    EnvC S ((x, none) :: sc) (x :: L) (x :: L') ((x, v) :: env) ((x, v') :: env') := by
  refine ⟨fun y hy => ?_, fun y hy => ?_, fun y hy => ?_, fun y k' hy => ?_, fun y hy => ?_, fun y hy hnc => ?_⟩
  · rw [Scope.find_cons]
    by_cases hxy : x = y
    · simp [hxy]
    · simp only [hxy, if_false]
      rcases List.mem_cons.mp hy with rfl | hy
      · exact absurd rfl hxy
      · exact h.inL y hy
  · rw [Scope.find_cons] at hy
    by_cases hxy : x = y
    · rw [← hxy]; exact hS
    · simp only [hxy, if_false] at hy; exact h.rtS y hy
  · rw [Scope.find_cons] at hy
    by_cases hxy : x = y
    · simp [hxy] at hy
    · simp only [hxy, if_false] at hy
      simp only [Env.get, hxy, if_false]; exact h.un y hy
  · rw [Scope.find_cons] at hy
    by_cases hxy : x = y
    · simp [hxy] at hy
    · simp only [hxy, if_false] at hy
      simp only [Env.get, hxy, if_false]; exact h.cst y k' hy
  · by_cases hxy : x = y
    · rw [← hxy]; exact hS
    · apply h.sfree y
      simpa [Env.has, Env.get, hxy] using hy
  · by_cases hxy : x = y
    · simp only [Env.get, hxy, if_true]; exact .some hv
    · simp only [Env.get, hxy, if_false]
      rcases List.mem_cons.mp hy with rfl | hy
      · exact absurd rfl hxy
      · refine h.live y hy (fun k' hk' => hnc k' ?_)
        rw [Scope.find_cons]; simp only [hxy, if_false]; exact hk'

/-- entering the body of related closures with related arguments -/
theorem EnvC.enter {S : Ctx} {names : List String} {cenv cenv' : Env} {r : Bool} {this : String}
    {sc : Scope} {outer outer' : List String} {f f' : Val} {vs vs' : List Val}
    (hthis : r = true → this ≠ "")
    (hout : ∀ x, x ∈ outer → sc.find x ≠ none)
    (hnames : ∀ x, x ∈ names → S.S x = none) (hthisS : this ≠ "" → S.S this = none)
    (hrt : ∀ x, sc.find x = some none → S.S x = none)
    (hun : ∀ x, sc.find x = none → cenv.get x = none)
    (hcst : ∀ x k, sc.find x = some (some k) → CstRel S (cenv.get x) k)
    (hsf : ∀ x, cenv'.has x = true → S.S x = none)
    (hlive : ∀ x, x ∈ outer' → OptRel S (cenv.get x) (cenv'.get x))
    (hf : VRel S f f') (hvs : VsRel S vs vs') (hlen : names.length = vs.length) :
    EnvC S (extScope this names sc) (names ++ outer ++ (if r then [this] else []))
      (names ++ outer' ++ (if r then [this] else []))
      (bindParams names vs ++ (if r then [(this, f)] else []) ++ cenv)
      (bindParams names vs' ++ (if r then [(this, f')] else []) ++ cenv') := by
  have hlen' : names.length = vs'.length := by rw [hlen, hvs.length]
  refine ⟨fun x hx => ?_, fun x hx => ?_, fun x hx => ?_, fun x k hx => ?_, fun x hx => ?_, fun x hx hnc => ?_⟩
  · rw [extScope_find]
    by_cases h1 : this ≠ "" ∧ this = x
    · rw [if_pos h1]; simp
    · by_cases h2 : x ∈ names
      · rw [if_neg h1, if_pos h2]; simp
      · rw [if_neg h1, if_neg h2]
        simp only [List.mem_append] at hx
        rcases hx with (hx | hx) | hx
        · exact absurd hx h2
        · exact hout x hx
        · cases r with
          | false => simp at hx
          | true =>
            simp only [if_true, List.mem_singleton] at hx
            exact absurd ⟨hthis rfl, hx.symm⟩ h1
  · rw [extScope_find] at hx
    by_cases h1 : this ≠ "" ∧ this = x
    · rw [← h1.2]; exact hthisS h1.1
    · by_cases h2 : x ∈ names
      · exact hnames x h2
      · rw [if_neg h1, if_neg h2] at hx; exact hrt x hx
  · rw [extScope_find] at hx
    by_cases h1 : this ≠ "" ∧ this = x
    · rw [if_pos h1] at hx; simp at hx
    · by_cases h2 : x ∈ names
      · rw [if_neg h1, if_pos h2] at hx; simp at hx
      · rw [if_neg h1, if_neg h2] at hx
        rw [enterEnv_get, bindParams_get_none names vs x h2]
        have : ¬ (r = true ∧ this = x) := fun ⟨hr, ht⟩ => h1 ⟨hthis hr, ht⟩
        simp only [this, if_false]
        exact hun x hx
  · rw [extScope_find] at hx
    by_cases h1 : this ≠ "" ∧ this = x
    · rw [if_pos h1] at hx; simp at hx
    · by_cases h2 : x ∈ names
      · rw [if_neg h1, if_pos h2] at hx; simp at hx
      · rw [if_neg h1, if_neg h2] at hx
        rw [enterEnv_get, bindParams_get_none names vs x h2]
        have : ¬ (r = true ∧ this = x) := fun ⟨hr, ht⟩ => h1 ⟨hthis hr, ht⟩
        simp only [this, if_false]
        exact hcst x k hx
  · rw [Env.has_get, enterEnv_get] at hx
    by_cases h2 : x ∈ names
    · exact hnames x h2
    · rw [bindParams_get_none names vs' x h2] at hx
      by_cases h3 : r = true ∧ this = x
      · rw [← h3.2]; exact hthisS (hthis h3.1)
      · simp only [h3, if_false] at hx
        exact hsf x (Env.has_get.mpr hx)
  · rw [enterEnv_get, enterEnv_get]
    by_cases h2 : x ∈ names
    · obtain ⟨v, hv⟩ := bindParams_get_some names vs x hlen h2
      obtain ⟨v', hv'⟩ := bindParams_get_some names vs' x hlen' h2
      have := bindParams_rel (S := S) names hvs x
      rw [hv, hv'] at this ⊢
      exact this
    · rw [bindParams_get_none names vs x h2, bindParams_get_none names vs' x h2]
      by_cases h3 : r = true ∧ this = x
      · simp only [h3, and_self, if_true]; exact .some hf
      · simp only [h3, if_false]
        have hxo : x ∈ outer' := by
          simp only [List.mem_append] at hx
          rcases hx with (hx | hx) | hx
          · exact absurd hx h2
          · exact hx
          · cases r with
            | false => simp at hx
            | true =>
              simp only [if_true, List.mem_singleton] at hx
              exact absurd ⟨rfl, hx.symm⟩ h3
        exact hlive x hxo

/-! ## a constant form in another environment -/

mutual
theorem VRel.rebase {S : Ctx} (e : Env) (he : ∀ x, e.has x = true → S.S x = none) :
    ∀ (k : AST) (v : Val), isConst S.S S.cfg k = true → VRel S v (kv [] k) → VRel S v (kv e k)
  | .const c, v, _, h => by simp only [kv] at h ⊢; exact h
  | .listLit items, v, hc, h => by
    simp only [isConst] at hc
    simp only [kv] at h ⊢
    cases h with
    | list hl =>
      cases hl with
      | items hvs => exact .list (.items (VsRel.rebase e he items _ hc hvs))
  | .mapLit kvs, v, hc, h => by
    simp only [isConst] at hc
    simp only [kv] at h ⊢
    cases h with
    | map hm => exact .map (KVRel.rebase e he kvs _ hc hm)
  | .clos names body' outer r this, v, hc, h => by
    have hws := isConst_wscoped (S := S.S) (cfg := S.cfg) _ hc
    simp only [isConst, Bool.and_eq_true, Bool.not_eq_true', List.isEmpty_iff] at hc
    obtain ⟨⟨⟨⟨_, ho⟩, hr⟩, _⟩, _⟩ := hc
    subst ho; subst hr
    simp only [wscoped, Bool.and_eq_true] at hws
    simp only [kv] at h ⊢
    cases h with
    | clos hopt hwsi hwso hthis hout hnames hthisS hrt hun hcst hsf hlive =>
      exact .clos (outer' := []) hopt hwsi hws.2 hthis hout hnames hthisS hrt hun hcst he
        (fun x hx => by simp at hx)
  | .ident _, _, h, _ => by simp [isConst] at h
  | .letE .., _, h, _ => by simp [isConst] at h
  | .ifE .., _, h, _ => by simp [isConst] at h
  | .switchE .., _, h, _ => by simp [isConst] at h
  | .tryE .., _, h, _ => by simp [isConst] at h
  | .unary .., _, h, _ => by simp [isConst] at h
  | .binop .., _, h, _ => by simp [isConst] at h
  | .index .., _, h, _ => by simp [isConst] at h
  | .member .., _, h, _ => by simp [isConst] at h
  | .call .., _, h, _ => by simp [isConst] at h
  | .method .., _, h, _ => by simp [isConst] at h
theorem VsRel.rebase {S : Ctx} (e : Env) (he : ∀ x, e.has x = true → S.S x = none) :
    ∀ (ks : List AST) (vs : List Val), allConst S.S S.cfg ks = true → VsRel S vs (kvL [] ks) →
      VsRel S vs (kvL e ks)
  | [], vs, _, h => by simp only [kvL] at h ⊢; exact h
  | a :: as, vs, hc, h => by
    simp only [allConst, Bool.and_eq_true] at hc
    simp only [kvL] at h ⊢
    cases h with
    | cons hv ht => exact .cons (VRel.rebase e he a _ hc.1 hv) (VsRel.rebase e he as _ hc.2 ht)
theorem KVRel.rebase {S : Ctx} (e : Env) (he : ∀ x, e.has x = true → S.S x = none) :
    ∀ (ks : List (String × AST)) (vs : List (String × Val)), allConstKVs S.S S.cfg ks = true →
      KVRel S vs (kvKVs [] ks) → KVRel S vs (kvKVs e ks)
  | [], vs, _, h => by simp only [kvKVs] at h ⊢; exact h
  | (key, a) :: as, vs, hc, h => by
    simp only [allConstKVs, Bool.and_eq_true] at hc
    simp only [kvKVs] at h ⊢
    cases h with
    | cons _ hv ht => exact .cons key (VRel.rebase e he a _ hc.1 hv) (KVRel.rebase e he as _ hc.2 ht)
end


/-! ## what a folding step evaluated -/

/-- the configuration of the full theorem: the two open findings off, repair 89b886b on; rule (f)
(`foldClosures`) and the folding fuel are arbitrary -/
structure FullCfg (cfg : Cfg) : Prop where
  intAndOr : cfg.intAndOr = false
  regroup : cfg.regroup = false
  closureFieldWins : cfg.closureFieldWins = true

section Fold
variable {St : Statics} {M : Methods} {T : Tables} {cfg : Cfg}

theorem cvals_evalArgs0 : ∀ (args : List AST) (vs : List Val),
    cvals St M cfg args = .ok vs → ∀ (m : Nat), cfg.fuel + args.length + 1 ≤ m →
    evalArgs St M m args [] = .ok vs
  | [], vs, h, m, hm => by
    simp only [cvals, R.ok.injEq] at h; subst h
    cases m with
    | zero => omega
    | succ m => rfl
  | a :: as, vs, h, m, hm => by
    simp only [cvals] at h
    cases hv : cval St M cfg a with
    | ok v =>
      rw [hv] at h
      simp only [R.bind_ok] at h
      cases hvs : cvals St M cfg as with
      | ok vs' =>
        rw [hvs] at h
        simp only [R.bind_ok, R.pure_eq, R.ok.injEq] at h
        subst h
        cases m with
        | zero => omega
        | succ m =>
          simp only [List.length_cons] at hm
          have h1 : eval St M m a [] = .ok v := eval_fuel_mono St M hv (by simp) (by omega)
          rw [evalArgs_cons, h1, cvals_evalArgs0 as vs' hvs m (by omega)]
          rfl
      | err => rw [hvs] at h; simp at h
      | panic => rw [hvs] at h; simp at h
      | fuel => rw [hvs] at h; simp at h
      | unmodelled => rw [hvs] at h; simp at h
    | err => rw [hv] at h; simp at h
    | panic => rw [hv] at h; simp at h
    | fuel => rw [hv] at h; simp at h
    | unmodelled => rw [hv] at h; simp at h

/-- a rule application that changes the node (other than the `if` rule) is a folding step: it
evaluated the node — whose children are constant forms, hence closed — in the empty environment -/
theorem rule_fold_inv (hcfg : FullCfg cfg) {sc : Scope} {X a' : AST}
    (hr : rule St M T cfg sc X = .ok a') (hne : a' ≠ X) (hnif : ∀ c t e, X ≠ .ifE c t e) :
    ∃ E, foldR St cfg X E = .ok a' ∧ wscoped St [] X = true ∧
      ∀ v, E = .ok v → ∃ n0, eval St M n0 X [] = .ok v := by
  have hws := fun k => isConst_wscoped (S := St) (cfg := cfg) k
  have hwsL := fun k => allConst_wscoped (S := St) (cfg := cfg) k
  cases X with
  | unary op x1 =>
    by_cases hc : isConst St cfg x1 = true
    · simp only [rule, hc, if_true] at hr
      refine ⟨_, hr, by simp only [wscoped]; exact hws _ hc, fun v hv => ⟨cfg.fuel + 1, ?_⟩⟩
      rw [eval_unary]; exact hv
    · simp only [rule, hc] at hr
      exact absurd (Except.ok.inj hr).symm hne
  | binop op x1 y1 =>
    by_cases hc : isConst St cfg y1 = true ∧ T.opPure op = true ∧ isConst St cfg x1 = true
    · obtain ⟨hy, hp, hx⟩ := hc
      simp only [rule, hy, hp, hx, Bool.and_self, if_true] at hr
      refine ⟨_, hr, by simp only [wscoped, Bool.and_eq_true]; exact ⟨hws _ hx, hws _ hy⟩,
        fun v hv => ⟨cfg.fuel + 1, ?_⟩⟩
      have hc : ∀ a b, calcOp St M cfg op a b = binop (applyS St M cfg.fuel) cfg.fuel op a b := by
        intro a b
        unfold calcOp
        split
        · rename_i h1; simp [hcfg.intAndOr] at h1
        · rename_i h1; simp [hcfg.intAndOr] at h1
        · rfl
      simp only [calcK, cval, hc] at hv
      cases hvx : eval St M cfg.fuel x1 [] with
      | ok vx =>
        rw [hvx] at hv
        cases hvy : eval St M cfg.fuel y1 [] with
        | ok vy =>
          rw [hvy] at hv
          simp only [R.bind_ok] at hv
          by_cases hop : op = "&" ∨ op = "|"
          · exact shortcut_of_matrix _ _ _ op hop x1 y1 [] vx vy v hvx hvy hv
          · have hand : op ≠ "&" := fun e => hop (.inl e)
            have hor : op ≠ "|" := fun e => hop (.inr e)
            rw [eval_binop, if_neg hand, if_neg hor, hvx, hvy]
            exact hv
        | err => rw [hvy] at hv; simp at hv
        | panic => rw [hvy] at hv; simp at hv
        | fuel => rw [hvy] at hv; simp at hv
        | unmodelled => rw [hvy] at hv; simp at hv
      | err => rw [hvx] at hv; simp at hv
      | panic => rw [hvx] at hv; simp at hv
      | fuel => rw [hvx] at hv; simp at hv
      | unmodelled => rw [hvx] at hv; simp at hv
    · exfalso
      apply hne
      simp only [rule, hcfg.regroup, Bool.false_and] at hr
      by_cases hy : isConst St cfg y1 = true
      · by_cases hp : (T.opPure op && isConst St cfg x1) = true
        · exact absurd ⟨hy, by simpa [Bool.and_eq_true] using hp⟩ hc
        · simp only [hy, hp, if_true] at hr
          simpa [pure, Except.pure] using hr.symm
      · simp only [hy] at hr
        simpa [pure, Except.pure] using hr.symm
  | ifE c t e => exact absurd rfl (hnif c t e)
  | index i l =>
    by_cases hc : (isConst St cfg l && isConst St cfg i) = true
    · simp only [rule, hc, if_true] at hr
      obtain ⟨hl, hi⟩ := isConst_and hc
      exact ⟨_, hr, by simp only [wscoped, Bool.and_eq_true]; exact ⟨hws _ hi, hws _ hl⟩,
        fun v hv => ⟨cfg.fuel, hv⟩⟩
    · simp only [rule, hc] at hr
      exact absurd (Except.ok.inj hr).symm hne
  | member m key =>
    by_cases hc : isConst St cfg m = true
    · simp only [rule, hc, if_true] at hr
      exact ⟨_, hr, by simp only [wscoped]; exact hws _ hc, fun v hv => ⟨cfg.fuel, hv⟩⟩
    · simp only [rule, hc] at hr
      exact absurd (Except.ok.inj hr).symm hne
  | call f args =>
    cases f with
    | ident name =>
      simp only [rule] at hr
      split at hr
      · rename_i arity hS hsc
        split at hr
        · exact absurd (Except.ok.inj hr).symm hne
        · split at hr
          · rename_i hargs
            exact ⟨_, hr, by simp [wscoped, hS, hwsL _ hargs], fun v hv => ⟨cfg.fuel, hv⟩⟩
          · exact absurd (Except.ok.inj hr).symm hne
      · exact absurd (Except.ok.inj hr).symm hne
    | clos names body outer r this =>
      simp only [rule] at hr
      split at hr
      · rename_i hf
        split at hr
        · exact absurd (Except.ok.inj hr).symm hne
        · split at hr
          · rename_i hargs
            have h1 := hws _ hf
            have h2 := hwsL _ hargs
            exact ⟨_, hr, by simp only [wscoped, Bool.and_eq_true] at h1 ⊢; exact ⟨h1, h2⟩,
              fun v hv => ⟨cfg.fuel, hv⟩⟩
          · exact absurd (Except.ok.inj hr).symm hne
      · exact absurd (Except.ok.inj hr).symm hne
    | _ => exact absurd (Except.ok.inj hr).symm hne
  | method recv name args =>
    by_cases hc : (isConst St cfg recv && allConst St cfg args) = true
    · simp only [rule, hc, if_true] at hr
      have hrecv : isConst St cfg recv = true := by simpa [Bool.and_eq_true] using (Bool.and_eq_true _ _ ▸ hc).1
      have hargs : allConst St cfg args = true := by simpa [Bool.and_eq_true] using (Bool.and_eq_true _ _ ▸ hc).2
      refine ⟨_, hr, by simp only [wscoped, Bool.and_eq_true]; exact ⟨hws _ hrecv, hwsL _ hargs⟩,
        fun v hv => ⟨cfg.fuel + args.length + 1 + 1, ?_⟩⟩
      cases hrv : cval St M cfg recv with
      | ok rv =>
        rw [hrv] at hv
        simp only [R.bind_ok, hcfg.closureFieldWins, Bool.true_and] at hv
        by_cases hcf : closureField rv name = true
        · simp [hcf] at hv
        · simp only [hcf, Bool.false_eq_true, if_false] at hv
          cases hM : M (typeName rv) name with
          | none => simp [hM] at hv
          | some declared =>
            simp only [hM] at hv
            by_cases hp : (!T.methPure (typeName rv) name) = true
            · simp [hp] at hv
            · simp only [hp, Bool.false_eq_true, if_false] at hv
              by_cases harity : ¬declared = -1 ∧ ¬(args.length : Int) + 1 = declared
              · rw [if_pos harity] at hv
                cases hv
              · rw [if_neg harity] at hv
                cases hvs : cvals St M cfg args with
                | ok vs =>
                  rw [hvs] at hv
                  simp only [R.bind_ok] at hv
                  have h1 : eval St M (cfg.fuel + args.length + 1) recv [] = .ok rv :=
                    eval_fuel_mono St M hrv (by simp) (by omega)
                  have hnf : ∀ kvs names body cenv r this, rv = .map kvs →
                      mapGet kvs name ≠ some (.sclos names body cenv r this) := by
                    intro kvs names body cenv r this hmap hget
                    apply hcf
                    subst hmap
                    simp [closureField, hget]
                  rw [eval_method, h1]
                  simp only [R.bind_ok]
                  rw [evalMethodK_builtin hnf]
                  unfold evalBuiltinK
                  simp only [hM]
                  rw [if_neg (by omega), cvals_evalArgs0 args vs hvs _ (by omega)]
                  simp only [R.bind_ok]
                  exact (methodBody_mono (applyS_ApLe St M (by omega)) cfg.fuel _ name rv vs (by omega)).eq hv (by simp)
                | err => rw [hvs] at hv; simp at hv
                | panic => rw [hvs] at hv; simp at hv
                | fuel => rw [hvs] at hv; simp at hv
                | unmodelled => rw [hvs] at hv; simp at hv
      | err => rw [hrv] at hv; simp at hv
      | panic => rw [hrv] at hv; simp at hv
      | fuel => rw [hrv] at hv; simp at hv
      | unmodelled => rw [hrv] at hv; simp at hv
    · simp only [rule, hc] at hr
      exact absurd (Except.ok.inj hr).symm hne
  | _ => exact absurd (Except.ok.inj hr).symm hne

end Fold


/-! ## the simulation -/

/-- the statements at fuel `n` -/
structure SimC (S : Ctx) (n : Nat) : Prop where
  expr : ∀ fold sc L L' a a' env env', opt S.S S.M S.T S.cfg fold sc a = .ok a' → wscoped S.S L a = true →
    wscoped S.S L' a' = true → EnvC S sc L L' env env' →
    EvR (VRel S) (eval S.S S.M n a env) (fun m => eval S.S S.M m a' env')
  args : ∀ fold sc L L' as as' env env', optList S.S S.M S.T S.cfg fold sc as = .ok as' →
    wscopedList S.S L as = true → wscopedList S.S L' as' = true → EnvC S sc L L' env env' →
    EvR (VsRel S) (evalArgs S.S S.M n as env) (fun m => evalArgs S.S S.M m as' env')
  list : ∀ fold sc L L' as as' env env', optList S.S S.M S.T S.cfg fold sc as = .ok as' →
    wscopedList S.S L as = true → wscopedList S.S L' as' = true → EnvC S sc L L' env env' →
    EvR (VsRel S) (evalList S.S S.M n as env) (fun m => evalList S.S S.M m as' env')
  kvs : ∀ fold sc L L' as as' env env', optKVs S.S S.M S.T S.cfg fold sc as = .ok as' →
    wscopedKVs S.S L as = true → wscopedKVs S.S L' as' = true → EnvC S sc L L' env env' →
    EvR (KVRel S) (evalKVs S.S S.M n as env) (fun m => evalKVs S.S S.M m as' env')
  cases : ∀ fold sc L L' cs cs' d d' x x' env env', optCases S.S S.M S.T S.cfg fold sc cs = .ok cs' →
    opt S.S S.M S.T S.cfg fold sc d = .ok d' → wscopedCases S.S L cs = true → wscoped S.S L d = true →
    wscopedCases S.S L' cs' = true → wscoped S.S L' d' = true →
    EnvC S sc L L' env env' → VRel S x x' →
    EvR (VRel S) (evalCases S.S S.M n x cs d env) (fun m => evalCases S.S S.M m x' cs' d' env')
  ap : ∀ f f' vs vs', VRel S f f' → VsRel S vs vs' →
    EvR (VRel S) (applyS S.S S.M n f vs) (fun m => applyS S.S S.M m f' vs')

section Step
variable {S : Ctx} {n : Nat}

/-- closure application: the original at fuel `n` against the limit of the optimized side -/
theorem SimC.apRel (ih : SimC S n) : ApRel S (applyS S.S S.M n) (apLim S.S S.M) := by
  intro f f' vs vs' hf hvs
  by_cases hx : applyS S.S S.M n f vs = .fuel
  · rw [hx]; exact RRel.fuel_left _
  · obtain ⟨r', hr, m0, h0⟩ := (ih.ap f f' vs vs' hf hvs).ev hx
    rw [apLim_of S.S S.M (h0 m0 (Nat.le_refl _)) (hr.right_ne_fuel hx)]
    exact hr

theorem SimC.binop (ih : SimC S n) (op : String) {x x' y y' : Val} (hx : VRel S x x') (hy : VRel S y y') :
    EvR (VRel S) (binop (applyS S.S S.M n) n op x y) (fun m => binop (applyS S.S S.M m) m op x' y') :=
  EvR.of_lim (binop_nat ih.apRel n op hx hy) (binop_lim S.S S.M n op x' y')
theorem SimC.force (ih : SimC S n) {l l' : LList} (hl : LRel S l l') :
    EvR (VsRel S) (force (applyS S.S S.M n) n l) (fun m => force (applyS S.S S.M m) m l') :=
  EvR.of_lim (force_nat ih.apRel n hl) (force_lim S.S S.M n l')
theorem SimC.valEq (ih : SimC S n) {x x' y y' : Val} (hx : VRel S x x') (hy : VRel S y y') :
    EvR Eq (valEq (applyS S.S S.M n) n x y) (fun m => valEq (applyS S.S S.M m) m x' y') :=
  EvR.of_lim (valEq_nat ih.apRel n hx hy) (valEq_lim S.S S.M n x' y')
theorem SimC.callStatic (ih : SimC S n) (name : String) {vs vs' : List Val} (hvs : VsRel S vs vs') :
    EvR (VRel S) (callStatic (applyS S.S S.M n) n name vs) (fun m => callStatic (applyS S.S S.M m) m name vs') :=
  EvR.of_lim (callStatic_nat ih.apRel n name hvs) (callStatic_lim S.S S.M n name vs')
theorem SimC.methodBody (ih : SimC S n) (name : String) {rv rv' : Val} {vs vs' : List Val}
    (hrv : VRel S rv rv') (hvs : VsRel S vs vs') :
    EvR (VRel S) (methodBody (applyS S.S S.M n) n name rv vs)
      (fun m => methodBody (applyS S.S S.M m) m name rv' vs') :=
  EvR.of_lim (methodBody_nat ih.apRel n name hrv hvs) (methodBody_lim S.S S.M n name rv' vs')

theorem evalArgs_length : ∀ (n : Nat) (as : List AST) (env : Env) (vs : List Val),
    evalArgs S.S S.M n as env = .ok vs → vs.length = as.length
  | 0, _, _, _, h => by simp [evalArgs_zero] at h
  | n+1, [], _, vs, h => by
    rw [evalArgs_nil] at h
    cases h; rfl
  | n+1, a :: as, env, vs, h => by
    rw [evalArgs_cons] at h
    cases h1 : eval S.S S.M n a env with
    | ok v =>
      rw [h1] at h
      simp only [R.bind_ok] at h
      cases h2 : evalArgs S.S S.M n as env with
      | ok vs1 =>
        rw [h2] at h
        simp only [R.bind_ok, R.pure_eq, R.ok.injEq] at h
        subst h
        simp [evalArgs_length n as env vs1 h2]
      | err => rw [h2] at h; simp at h
      | panic => rw [h2] at h; simp at h
      | fuel => rw [h2] at h; simp at h
      | unmodelled => rw [h2] at h; simp at h
    | err => rw [h1] at h; simp at h
    | panic => rw [h1] at h; simp at h
    | fuel => rw [h1] at h; simp at h
    | unmodelled => rw [h1] at h; simp at h

theorem wscoped_clos_inv {St : Statics} {L names body outer r this}
    (h : wscoped St L (.clos names body outer r this) = true) :
    (r = true → this ≠ "") ∧ (∀ x, x ∈ outer → x ∈ L) ∧
      wscoped St (names ++ outer ++ (if r then [this] else [])) body = true := by
  simp only [wscoped, Bool.and_eq_true, Bool.or_eq_true, Bool.not_eq_true', bne_iff_ne, ne_eq,
    List.all_eq_true, List.contains_iff_mem] at h
  obtain ⟨⟨h1, h3⟩, h4⟩ := h
  refine ⟨fun hr => ?_, h3, h4⟩
  rcases h1 with h1 | h1
  · rw [hr] at h1; cases h1
  · exact h1

/-- entering the body of related closures (the common part of `applyS`, a dynamic call, and the
call of a closure stored in a map field) -/
theorem enter_evr (ih : SimC S n) {f f' : Val} (hf : VRel S f f') {vs vs' : List Val} (hvs : VsRel S vs vs') :
    ∀ {names body cenv r this names' body' cenv' r' this'},
    f = .sclos names body cenv r this → f' = .sclos names' body' cenv' r' this' →
    names.length = vs.length →
    EvR (VRel S)
      (eval S.S S.M n body (bindParams names vs ++ (if r then [(this, f)] else []) ++ cenv))
      (fun m => eval S.S S.M m body' (bindParams names' vs' ++ (if r' then [(this', f')] else []) ++ cenv')) := by
  intro names body cenv r this names' body' cenv' r' this' e1 e2 hlen
  cases hf with
  | clos hopt hwsi hwso hthis hout hnames hthisS hrt hun hcst hsf hlive =>
    cases e1; cases e2
    exact ih.expr true _ _ _ body body' _ _ hopt hwsi hwso
      (EnvC.enter hthis hout hnames hthisS hrt hun hcst hsf hlive
        (.clos hopt hwsi hwso hthis hout hnames hthisS hrt hun hcst hsf hlive) hvs hlen)
  | _ => cases e1

theorem evr_err {P : Val → Val → Prop} : EvR P (.err : R Val) (fun _ => (.err : R Val)) := EvR.of_rrel trivial

/-- the part of a call after the callee -/
theorem callK_evr (ih : SimC S n) {fold sc L L' args args' env env'}
    (hargs : optList S.S S.M S.T S.cfg fold sc args = .ok args') (hws : wscopedList S.S L args = true)
    (hws' : wscopedList S.S L' args' = true) (he : EnvC S sc L L' env env') {fv fv' : Val} (hfv : VRel S fv fv') :
    EvR (VRel S) (evalCallK S.S S.M n args env fv) (fun m => evalCallK S.S S.M m args' env' fv') := by
  have hA := ih.args fold sc L L' args args' env env' hargs hws hws' he
  have hlen := optList_length fold sc args args' hargs
  cases hfv with
  | clos hopt hws2 hthis hnot hout hnames hthisS hrt hun hcst hsf hlive =>
    rename_i names body body' cenv cenv' r this sc0 outer outer'
    simp only [evalCallK, hlen]
    by_cases hl : names.length ≠ args.length
    · simp only [if_pos hl]; exact evr_err
    · simp only [if_neg hl]
      refine EvR.bind_eq hA (fun vs vs' hev hvs => ?_)
      have hvl := evalArgs_length n args env vs hev
      exact enter_evr ih (.clos hopt hws2 hthis hnot hout hnames hthisS hrt hun hcst hsf hlive) hvs rfl rfl
        (by rw [hvl]; exact Decidable.of_not_not hl)
  | _ => exact evr_err

theorem builtinK_evr (ih : SimC S n) {fold sc L L' args args' env env'} (name : String)
    (hargs : optList S.S S.M S.T S.cfg fold sc args = .ok args') (hws : wscopedList S.S L args = true)
    (hws' : wscopedList S.S L' args' = true) (he : EnvC S sc L L' env env') {rv rv' : Val} (hrv : VRel S rv rv') :
    EvR (VRel S) (evalBuiltinK S.S S.M n name args env rv)
      (fun m => evalBuiltinK S.S S.M m name args' env' rv') := by
  have hA := ih.args fold sc L L' args args' env env' hargs hws hws' he
  have hlen := optList_length fold sc args args' hargs
  simp only [evalBuiltinK, hlen, ← hrv.typeName]
  cases S.M (typeName rv) name with
  | none => exact evr_err
  | some declared =>
    simp only
    by_cases hd : declared > 0 ∧ declared ≠ ↑args.length + 1
    · simp only [if_pos hd]; exact evr_err
    · simp only [if_neg hd]
      exact EvR.bind hA (fun vs vs' hvs => ih.methodBody name hrv hvs)

/-- the part of a method call after the receiver -/
theorem methodK_evr (ih : SimC S n) {fold sc L L' args args' env env'} (name : String)
    (hargs : optList S.S S.M S.T S.cfg fold sc args = .ok args') (hws : wscopedList S.S L args = true)
    (hws' : wscopedList S.S L' args' = true) (he : EnvC S sc L L' env env') {rv rv' : Val} (hrv : VRel S rv rv') :
    EvR (VRel S) (evalMethodK S.S S.M n name args env rv)
      (fun m => evalMethodK S.S S.M m name args' env' rv') := by
  have hA := ih.args fold sc L L' args args' env env' hargs hws hws' he
  have hlen := optList_length fold sc args args' hargs
  have hB := builtinK_evr ih name hargs hws hws' he hrv
  -- is the receiver a map whose field `name` holds a closure?
  by_cases hfield : ∃ kvs kvs' fld fld' names body cenv r this, rv = .map kvs ∧ rv' = .map kvs' ∧
      mapGet kvs name = some fld ∧ mapGet kvs' name = some fld' ∧ VRel S fld fld' ∧
      fld = .sclos names body cenv r this
  · obtain ⟨kvs, kvs', fld, fld', names, body, cenv, r, this, rfl, rfl, h1, h2, hff, rfl⟩ := hfield
    cases hff with
    | clos hopt hws2 hthis hnot hout hnames hthisS hrt hun hcst hsf hlive =>
      rename_i body' cenv' sc0 outer outer'
      simp only [evalMethodK, h1, h2, hlen]
      by_cases hl : names.length ≠ args.length
      · simp only [if_pos hl]; exact evr_err
      · simp only [if_neg hl]
        refine EvR.bind_eq hA (fun vs vs' hev hvs => ?_)
        have hvl := evalArgs_length n args env vs hev
        exact enter_evr ih (.clos hopt hws2 hthis hnot hout hnames hthisS hrt hun hcst hsf hlive) hvs rfl rfl
          (by rw [hvl]; exact Decidable.of_not_not hl)
  · have hnf : ∀ kvs names body cenv r this, rv = .map kvs →
        mapGet kvs name ≠ some (.sclos names body cenv r this) := by
      intro kvs names body cenv r this hm hg
      subst hm
      cases hrv with
      | map hkv =>
        rename_i kvs'
        rcases hkv.get_cases name with ⟨h1, _⟩ | ⟨a, b, h1, h2, hab⟩
        · rw [h1] at hg; cases hg
        · rw [h1] at hg
          cases hg
          exact hfield ⟨kvs, kvs', _, b, names, body, cenv, r, this, rfl, rfl, h1, h2, hab, rfl⟩
    have hnf' : ∀ kvs names body cenv r this, rv' = .map kvs →
        mapGet kvs name ≠ some (.sclos names body cenv r this) := by
      intro kvs' names' body' cenv' r' this' hm hg
      subst hm
      cases hrv with
      | map hkv =>
        rename_i kvs
        rcases hkv.get_cases name with ⟨_, h2⟩ | ⟨a, b, h1, h2, hab⟩
        · rw [h2] at hg; cases hg
        · rw [h2] at hg
          cases hg
          cases hab with
          | clos hopt hws2 hthis hnot hout hnames hthisS hrt hun hcst hsf hlive =>
            exact hfield ⟨kvs, kvs', _, _, _, _, _, _, _, rfl, rfl, h1, h2,
              .clos hopt hws2 hthis hnot hout hnames hthisS hrt hun hcst hsf hlive, rfl⟩
    rw [evalMethodK_builtin hnf]
    refine EvR.congr hB (fun m => evalMethodK_builtin hnf')

theorem wscoped_idBound {St : Statics} : ∀ (a : AST) (L : List String), wscoped St L a = true → idBound L a = true
  | .ident x, L, h => by simpa [wscoped, idBound] using h
  | .letE x v i, L, h => by
    simp only [wscoped, Bool.and_eq_true] at h
    simp only [idBound]; exact wscoped_idBound i (x :: L) h.2
  | .ifE c t e, L, h => by
    simp only [wscoped, Bool.and_eq_true] at h
    simp only [idBound, Bool.and_eq_true]
    exact ⟨wscoped_idBound t L h.1.2, wscoped_idBound e L h.2⟩
  | .const _, _, _ => rfl
  | .switchE .., _, _ => rfl
  | .tryE .., _, _ => rfl
  | .unary .., _, _ => rfl
  | .binop .., _, _ => rfl
  | .clos .., _, _ => rfl
  | .listLit .., _, _ => rfl
  | .index .., _, _ => rfl
  | .mapLit .., _, _ => rfl
  | .member .., _, _ => rfl
  | .call .., _, _ => rfl
  | .method .., _, _ => rfl

theorem CstRel.get_some {o : Option Val} {k : AST} (h : CstRel S o k) : ∃ v, o = some v := by
  cases h with
  | mk _ _ => exact ⟨_, rfl⟩

theorem CstRel.isConst {o : Option Val} {k : AST} (h : CstRel S o k) : isConst S.S S.cfg k = true := by
  cases h with
  | mk hc _ => exact hc

/-- the catch part of a `try` -/
theorem catch_evr (ih : SimC S n) {c c' : AST} {env env' : Env}
    (i2 : EvR (VRel S) (eval S.S S.M n c env) (fun m => eval S.S S.M m c' env')) :
    EvR (VRel S)
      (eval S.S S.M n c env >>= fun cv =>
        match cv with
        | .sclos [_] _ _ _ _ => applyS S.S S.M n cv [.str "<error>"]
        | _ => pure cv)
      (fun m => eval S.S S.M m c' env' >>= fun cv =>
        match cv with
        | .sclos [_] _ _ _ _ => applyS S.S S.M m cv [.str "<error>"]
        | _ => pure cv) := by
  refine EvR.bind i2 (fun cv cv' hcv => ?_)
  cases hcv with
  | clos hopt hws2 hthis hnot hout hnames hthisS hrt hun hcst hsf hlive =>
    rename_i names body body' cenv cenv' r this sc0 outer outer'
    have hrel : VRel S (.sclos names body cenv r this) (.sclos names body' cenv' r this) :=
      .clos hopt hws2 hthis hnot hout hnames hthisS hrt hun hcst hsf hlive
    match names, hrel with
    | [], hrel => exact EvR.ok hrel
    | [x], hrel => exact ih.ap _ _ _ _ hrel (.cons (.str _) .nil)
    | _ :: _ :: _, hrel => exact EvR.ok hrel
  | int i => exact EvR.ok (.int i)
  | flt f => exact EvR.ok (.flt f)
  | str s => exact EvR.ok (.str s)
  | bool b => exact EvR.ok (.bool b)
  | list hl => exact EvR.ok (.list hl)
  | map hm => exact EvR.ok (.map hm)

/-- a folding step, relationally: the children were simulated against the empty environment, the
folded constant is moved to the environment of the use -/
theorem fold_rel {X a' : AST} {E : R Val} {x : R Val} {env' : Env}
    (hr : foldR S.S S.cfg X E = .ok a') (hne : a' ≠ X)
    (hE : ∀ v, E = .ok v → ∃ n0, eval S.S S.M n0 X [] = .ok v)
    (cong0 : EvR (VRel S) x (fun m => eval S.S S.M m X []))
    (hsf : ∀ y, env'.has y = true → S.S y = none) :
    EvR (VRel S) x (fun m => eval S.S S.M m a' env') := by
  rcases foldR_ok2 hr with h1 | ⟨vf, hv, hre, hk⟩
  · exact absurd h1 hne
  · obtain ⟨n0, hn0⟩ := hE vf hv
    refine ⟨fun hx => ?_⟩
    obtain ⟨r', hrel, m0, h0⟩ := cong0.ev hx
    have h1 := h0 (max m0 n0) (by omega)
    have h2 := eval_fuel_mono S.S S.M hn0 (by simp) (show n0 ≤ max m0 n0 by omega)
    rw [h2] at h1
    subst h1
    rcases hrel.cases hx with ⟨vo, b, rfl, e2, hab⟩ | ⟨_, e2⟩ | ⟨_, e2⟩ | ⟨_, e2⟩
    · cases e2
      have hkv := reify_kv vf a' hre
      rw [hkv] at hab
      obtain ⟨m1, hm1⟩ := kv_eval (S := S.S) (M := S.M) (cfg := S.cfg) a' hk
      exact ⟨.ok (kv env' a'), VRel.rebase env' hsf a' vo hk hab, m1, fun m hm => hm1 env' m hm⟩
    · cases e2
    · cases e2
    · cases e2

/-- a node whose children are simulated in every environment that fits, followed by the rule -/
theorem rule_finish (hcfg : FullCfg S.cfg) {fold : Bool} {sc : Scope} {L L' : List String} {X a' : AST}
    {env env' : Env} {x : R Val} (he : EnvC S sc L L' env env')
    (hr : (if fold = true then rule S.S S.M S.T S.cfg sc X else pure X) = .ok a')
    (hws' : wscoped S.S L' a' = true) (hnif : ∀ c t e, X ≠ .ifE c t e)
    (cong : ∀ L2 e2, wscoped S.S L2 X = true → EnvC S sc L L2 env e2 →
      EvR (VRel S) x (fun m => eval S.S S.M m X e2)) :
    EvR (VRel S) x (fun m => eval S.S S.M m a' env') := by
  by_cases hne : a' = X
  · subst hne; exact cong L' env' hws' he
  · cases fold with
    | false => exact absurd (by simpa [pure, Except.pure] using hr.symm) hne
    | true =>
      simp only [if_true] at hr
      obtain ⟨E, hfold, hws0, hE⟩ := rule_fold_inv hcfg hr hne hnif
      exact fold_rel hfold hne hE (cong [] [] hws0 (he.toNil [] (by simp [Env.has, Env.get]))) he.sfree

/-- the `if` rule -/
theorem if_const_evr (b : Bool) {c t e tb : AST} {env env' : Env}
    (i1 : EvR (VRel S) (eval S.S S.M n c env) (fun m => eval S.S S.M m (.const (.bool b)) env'))
    (i2 : EvR (VRel S) (eval S.S S.M n (if b then t else e) env) (fun m => eval S.S S.M m tb env')) :
    EvR (VRel S) (eval S.S S.M (n+1) (.ifE c t e) env) (fun m => eval S.S S.M m tb env') := by
  rw [eval_ifE]
  cases hrc : eval S.S S.M n c env with
  | fuel => exact EvR.fuel _
  | ok cv =>
    obtain ⟨r', hr, m0, hm0⟩ := i1.out hrc (by simp)
    have h1 := hm0 (m0 + 1) (by omega)
    rw [eval_const] at h1
    subst h1
    have hcv : VRel S cv (.bool b) := hr
    cases hcv
    simp only [R.bind_ok]
    cases b <;> exact i2
  | err =>
    obtain ⟨r', hr, m0, hm0⟩ := i1.out hrc (by simp)
    have h1 := hm0 (m0 + 1) (by omega)
    rw [eval_const] at h1
    subst h1
    exact hr.elim
  | panic =>
    obtain ⟨r', hr, m0, hm0⟩ := i1.out hrc (by simp)
    have h1 := hm0 (m0 + 1) (by omega)
    rw [eval_const] at h1
    subst h1
    exact hr.elim
  | unmodelled =>
    obtain ⟨r', hr, m0, hm0⟩ := i1.out hrc (by simp)
    have h1 := hm0 (m0 + 1) (by omega)
    rw [eval_const] at h1
    subst h1
    exact hr.elim

theorem isRuntime_nonconst {sc : Scope} {x : String} (h : isRuntime sc x = true) :
    ∀ k, sc.find x ≠ some (some k) := by
  intro k hk
  simp [isRuntime, hk] at h

theorem step_expr (hcfg : FullCfg S.cfg) (ih : SimC S n) :
    ∀ fold sc L L' a a' env env', opt S.S S.M S.T S.cfg fold sc a = .ok a' → wscoped S.S L a = true →
    wscoped S.S L' a' = true → EnvC S sc L L' env env' →
    EvR (VRel S) (eval S.S S.M (n+1) a env) (fun m => eval S.S S.M m a' env') := by
  intro fold sc L L' a a' env env' h hcf hcf' he
  cases a with
  | const c =>
    have : a' = .const c := by simpa [opt, pure, Except.pure] using h.symm
    subst this
    exact EvR.one (fun m => rfl) (VRel.ofScalar c)
  | ident x =>
    simp only [wscoped, List.contains_iff_mem] at hcf
    cases hfd : sc.find x with
    | none => exact absurd hfd (he.inL x hcf)
    | some b =>
      cases b with
      | none =>
        simp only [opt, hfd] at h
        have : a' = .ident x := by simpa [pure, Except.pure] using h.symm
        subst this
        simp only [wscoped, List.contains_iff_mem] at hcf'
        have hl := he.live x hcf' (by simp [hfd])
        rw [eval_ident]
        generalize env.get x = o at hl
        generalize ho' : env'.get x = o' at hl
        cases hl with
        | none =>
          exact EvR.one (z := R.panic) (fun m => by rw [eval_ident, ho']; rfl)
            (show RRel (VRel S) (R.panic : R Val) (R.panic : R Val) from trivial)
        | some hv =>
          exact EvR.one (z := R.ok _) (fun m => by rw [eval_ident, ho']; rfl)
            (show RRel (VRel S) (R.ok _) (R.ok _) from hv)
      | some k =>
        simp only [opt, hfd] at h
        have : a' = k := by simpa [pure, Except.pure] using h.symm
        subst this
        have hc := he.cst x a' hfd
        rw [eval_ident]
        generalize env.get x = o at hc
        cases hc with
        | mk hk hall =>
          cases hall env' he.sfree with
          | mk hvw hev =>
            obtain ⟨m0, hm0⟩ := hev
            exact ⟨fun _ => ⟨R.ok _, (show RRel (VRel S) (R.ok _) (R.ok _) from hvw), m0, hm0⟩⟩
  | letE x v i =>
    simp only [opt] at h
    cases fold with
    | false => simp at h
    | true =>
      simp only [Bool.not_true, Bool.false_eq_true, if_false] at h
      obtain ⟨v', hv', h⟩ := ebind_ok h
      simp only [wscoped, Bool.and_eq_true] at hcf
      by_cases hc : isConst S.S S.cfg v' = true
      · simp only [hc, if_true] at h
        have hws0 := isConst_wscoped (S := S.S) (cfg := S.cfg) v' hc
        have iv := fun e (hee : ∀ x, e.has x = true → S.S x = none) =>
          ih.expr true sc L [] v v' env e hv' hcf.1 hws0 (he.toNil e hee)
        obtain ⟨m1, hm1⟩ := kv_eval (S := S.S) (M := S.M) (cfg := S.cfg) v' hc
        rw [eval_letE]
        cases hrv : eval S.S S.M n v env with
        | fuel => exact EvR.fuel _
        | ok xv =>
          simp only [R.bind_ok]
          have hcst : CstRel S (some xv) v' := .mk hc (fun e hee => by
            obtain ⟨r', hr, m0, hm0⟩ := (iv e hee).out hrv (by simp)
            rcases hr.cases (by simp) with ⟨a1, b1, e1, rfl, hab⟩ | ⟨e1, _⟩ | ⟨e1, _⟩ | ⟨e1, _⟩
            · cases e1; exact .mk hab ⟨m0, hm0⟩
            · cases e1
            · cases e1
            · cases e1)
          exact ih.expr true _ (x :: L) L' i a' _ env' h hcf.2 hcf' (he.letConst x v' xv hcst)
        | err =>
          obtain ⟨r', hr, m0, hm0⟩ := (iv [] (by simp [Env.has, Env.get])).out hrv (by simp)
          have h1 := hm0 (max m0 m1) (by omega)
          rw [hm1 [] _ (by omega)] at h1
          rw [← h1] at hr
          exact absurd hr (by simp)
        | panic =>
          obtain ⟨r', hr, m0, hm0⟩ := (iv [] (by simp [Env.has, Env.get])).out hrv (by simp)
          have h1 := hm0 (max m0 m1) (by omega)
          rw [hm1 [] _ (by omega)] at h1
          rw [← h1] at hr
          exact hr.elim
        | unmodelled =>
          obtain ⟨r', hr, m0, hm0⟩ := (iv [] (by simp [Env.has, Env.get])).out hrv (by simp)
          have h1 := hm0 (max m0 m1) (by omega)
          rw [hm1 [] _ (by omega)] at h1
          rw [← h1] at hr
          exact hr.elim
      · simp only [hc] at h
        obtain ⟨_, hg, h⟩ := ebind_ok h
        obtain ⟨i', hi', h⟩ := ebind_ok h
        have : a' = .letE x v' i' := by simpa [pure, Except.pure] using h.symm
        subst this
        simp only [wscoped, Bool.and_eq_true] at hcf'
        have ihv := ih.expr true sc L L' v v' env env' hv' hcf.1 hcf'.1 he
        have hS := guardName_ok hg
        apply EvR.of_succ
        simp only [eval_letE]
        refine EvR.bind ihv (fun xv xv' hxv => ?_)
        exact ih.expr true _ (x :: L) (x :: L') i i' _ _ hi' hcf.2 hcf'.2 (he.letRt x hxv hS)
  | ifE c t e =>
    simp only [opt] at h
    obtain ⟨c', hc', h⟩ := ebind_ok h
    obtain ⟨t', ht', h⟩ := ebind_ok h
    obtain ⟨e', he', h⟩ := ebind_ok h
    simp only [wscoped, Bool.and_eq_true] at hcf
    have cong : wscoped S.S L' (.ifE c' t' e') = true →
        EvR (VRel S) (eval S.S S.M (n+1) (.ifE c t e) env) (fun m => eval S.S S.M m (.ifE c' t' e') env') := by
      intro hw
      simp only [wscoped, Bool.and_eq_true] at hw
      have i1 := ih.expr fold sc L L' c c' env env' hc' hcf.1.1 hw.1.1 he
      have i2 := ih.expr fold sc L L' t t' env env' ht' hcf.1.2 hw.1.2 he
      have i3 := ih.expr fold sc L L' e e' env env' he' hcf.2 hw.2 he
      apply EvR.of_succ
      simp only [eval_ifE]
      refine EvR.bind i1 (fun cv cv' hcv => ?_)
      cases hcv with
      | bool b => cases b <;> assumption
      | _ => exact evr_err
    cases fold with
    | false =>
      have : a' = .ifE c' t' e' := by simpa [pure, Except.pure] using h.symm
      subst this
      exact cong hcf'
    | true =>
      simp only [if_true, rule] at h
      split at h
      · have := (Except.ok.inj h).symm
        subst this
        exact if_const_evr true (ih.expr true sc L L' c _ env env' hc' hcf.1.1 rfl he)
          (ih.expr true sc L L' t _ env env' ht' hcf.1.2 hcf' he)
      · have := (Except.ok.inj h).symm
        subst this
        exact if_const_evr false (ih.expr true sc L L' c _ env env' hc' hcf.1.1 rfl he)
          (ih.expr true sc L L' e _ env env' he' hcf.2 hcf' he)
      · have := (Except.ok.inj h).symm
        subst this
        exact cong hcf'
  | switchE v cases d =>
    simp only [opt] at h
    obtain ⟨v', hv', h⟩ := ebind_ok h
    obtain ⟨cases', hcs', h⟩ := ebind_ok h
    obtain ⟨d', hd', h⟩ := ebind_ok h
    have : a' = .switchE v' cases' d' := by simpa [pure, Except.pure] using h.symm
    subst this
    simp only [wscoped, Bool.and_eq_true] at hcf hcf'
    have i1 := ih.expr fold sc L L' v v' env env' hv' hcf.1.1 hcf'.1.1 he
    apply EvR.of_succ
    simp only [eval_switchE]
    exact EvR.bind i1 (fun x x' hx => ih.cases fold sc L L' cases cases' d d' x x' env env' hcs' hd'
      hcf.1.2 hcf.2 hcf'.1.2 hcf'.2 he hx)
  | tryE t c =>
    simp only [opt] at h
    obtain ⟨t', ht', h⟩ := ebind_ok h
    obtain ⟨c', hc', h⟩ := ebind_ok h
    have : a' = .tryE t' c' := by simpa [pure, Except.pure] using h.symm
    subst this
    simp only [wscoped, Bool.and_eq_true] at hcf hcf'
    have i1 := ih.expr fold sc L L' t t' env env' ht' hcf.1 hcf'.1 he
    have i2 := ih.expr fold sc L L' c c' env env' hc' hcf.2 hcf'.2 he
    have hcatch := catch_evr ih i2
    apply EvR.of_succ
    simp only [eval_tryE']
    cases hrt : eval S.S S.M n t env with
    | fuel => exact EvR.fuel _
    | ok v =>
      obtain ⟨r', hr, m0, hm0⟩ := i1.out hrt (by simp)
      rcases hr.cases (by simp) with ⟨a1, b1, e1, rfl, hab⟩ | ⟨e1, _⟩ | ⟨e1, _⟩ | ⟨e1, _⟩
      · cases e1
        exact ⟨fun _ => ⟨.ok b1, hab, m0, fun m hm => by rw [hm0 m hm]; rfl⟩⟩
      · cases e1
      · cases e1
      · cases e1
    | err =>
      obtain ⟨r', hr, m0, hm0⟩ := i1.out hrt (by simp)
      rcases hr.cases (by simp) with ⟨a1, b1, e1, _, _⟩ | ⟨_, rfl⟩ | ⟨e1, _⟩ | ⟨e1, _⟩
      · cases e1
      · exact EvR.congr_ev hcatch ⟨m0, fun m hm => by rw [hm0 m hm]; rfl⟩
      · cases e1
      · cases e1
    | panic =>
      obtain ⟨r', hr, m0, hm0⟩ := i1.out hrt (by simp)
      rcases hr.cases (by simp) with ⟨a1, b1, e1, _, _⟩ | ⟨e1, _⟩ | ⟨_, rfl⟩ | ⟨e1, _⟩
      · cases e1
      · cases e1
      · exact EvR.congr_ev hcatch ⟨m0, fun m hm => by rw [hm0 m hm]; rfl⟩
      · cases e1
    | unmodelled =>
      obtain ⟨r', hr, m0, hm0⟩ := i1.out hrt (by simp)
      rcases hr.cases (by simp) with ⟨a1, b1, e1, _, _⟩ | ⟨e1, _⟩ | ⟨e1, _⟩ | ⟨_, rfl⟩
      · cases e1
      · cases e1
      · cases e1
      · exact ⟨fun _ => ⟨.unmodelled, trivial, m0, fun m hm => by rw [hm0 m hm]; rfl⟩⟩
  | unary op a1 =>
    simp only [opt] at h
    obtain ⟨a1', h1, h⟩ := ebind_ok h
    simp only [wscoped] at hcf
    refine rule_finish hcfg he h hcf' (by simp) (fun L2 e2 hw he2 => ?_)
    simp only [wscoped] at hw
    have i1 := ih.expr fold sc L L2 a1 a1' env e2 h1 hcf hw he2
    apply EvR.of_succ
    simp only [eval_unary]
    exact EvR.bind i1 (fun x x' hx => EvR.of_rrel (unop_nat op hx))
  | binop op a1 b1 =>
    simp only [opt] at h
    obtain ⟨a1', h1, h⟩ := ebind_ok h
    obtain ⟨b1', h2, h⟩ := ebind_ok h
    simp only [wscoped, Bool.and_eq_true] at hcf
    refine rule_finish hcfg he h hcf' (by simp) (fun L2 e2 hw he2 => ?_)
    simp only [wscoped, Bool.and_eq_true] at hw
    have i1 := ih.expr fold sc L L2 a1 a1' env e2 h1 hcf.1 hw.1 he2
    have i2 := ih.expr fold sc L L2 b1 b1' env e2 h2 hcf.2 hw.2 he2
    apply EvR.of_succ
    simp only [eval_binop]
    by_cases hand : op = "&"
    · simp only [if_pos hand]
      refine EvR.bind i1 (fun x x' hx => ?_)
      cases hx with
      | bool b =>
        cases b with
        | false => exact EvR.ok (.bool false)
        | true =>
          refine EvR.bind i2 (fun y y' hy => ?_)
          cases hy with
          | bool b2 => exact EvR.ok (.bool b2)
          | _ => exact evr_err
      | _ => exact evr_err
    · simp only [if_neg hand]
      by_cases hor : op = "|"
      · simp only [if_pos hor]
        refine EvR.bind i1 (fun x x' hx => ?_)
        cases hx with
        | bool b =>
          cases b with
          | true => exact EvR.ok (.bool true)
          | false =>
            refine EvR.bind i2 (fun y y' hy => ?_)
            cases hy with
            | bool b2 => exact EvR.ok (.bool b2)
            | _ => exact evr_err
        | _ => exact evr_err
      · simp only [if_neg hor]
        exact EvR.bind i1 (fun x x' hx => EvR.bind i2 (fun y y' hy => ih.binop op hx hy))
  | clos names body outer r this =>
    simp only [opt] at h
    cases fold with
    | false => simp at h
    | true =>
      simp only [Bool.not_true, Bool.false_eq_true, if_false] at h
      obtain ⟨_, hg1, h⟩ := ebind_ok h
      have hparts : ∃ body', (this ≠ "" → S.S this = none) ∧
          opt S.S S.M S.T S.cfg true (extScope this names sc) body = .ok body' ∧
          a' = .clos names body' (outer.filter (isRuntime sc)) r this := by
        by_cases ht : this ≠ ""
        · rw [if_pos ht] at h
          obtain ⟨_, hg2, h⟩ := ebind_ok h
          obtain ⟨body', hb, h⟩ := ebind_ok h
          exact ⟨body', fun _ => guardName_ok hg2, hb, by simpa [pure, Except.pure] using h.symm⟩
        · rw [if_neg ht] at h
          obtain ⟨body', hb, h⟩ := ebind_ok h
          exact ⟨body', fun ht' => absurd ht' ht, hb, by simpa [pure, Except.pure] using h.symm⟩
      obtain ⟨body', hthisS, hb, this⟩ := hparts
      subst this
      obtain ⟨w1, w2, w3⟩ := wscoped_clos_inv hcf
      obtain ⟨_, w2', w3'⟩ := wscoped_clos_inv hcf'
      refine EvR.one (fun m => rfl) ?_
      exact .clos (sc := sc) (outer := outer) (outer' := outer.filter (isRuntime sc)) hb w3 w3' w1
        (fun x hx => he.inL x (w2 x hx)) (guardNames_ok names hg1) hthisS he.rtS he.un he.cst he.sfree
        (fun x hx => he.live x (w2' x hx) (isRuntime_nonconst (List.mem_filter.mp hx).2))
  | listLit items =>
    simp only [opt] at h
    obtain ⟨items', h1, h⟩ := ebind_ok h
    have : a' = .listLit items' := by simpa [pure, Except.pure] using h.symm
    subst this
    simp only [wscoped] at hcf hcf'
    have i1 := ih.list fold sc L L' items items' env env' h1 hcf hcf' he
    apply EvR.of_succ
    simp only [eval_listLit]
    exact EvR.bind i1 (fun vs vs' hvs => EvR.ok (.list (.items hvs)))
  | index i l =>
    simp only [opt] at h
    obtain ⟨i', h1, h⟩ := ebind_ok h
    obtain ⟨l', h2, h⟩ := ebind_ok h
    simp only [wscoped, Bool.and_eq_true] at hcf
    refine rule_finish hcfg he h hcf' (by simp) (fun L2 e2 hw he2 => ?_)
    simp only [wscoped, Bool.and_eq_true] at hw
    have i1 := ih.expr fold sc L L2 i i' env e2 h1 hcf.1 hw.1 he2
    have i2 := ih.expr fold sc L L2 l l' env e2 h2 hcf.2 hw.2 he2
    apply EvR.of_succ
    simp only [eval_index]
    refine EvR.bind i1 (fun iv iv' hiv => EvR.bind i2 (fun lv lv' hlv => ?_))
    cases hlv with
    | list hll =>
      cases hiv with
      | int k =>
        by_cases hk : k < 0
        · simp only [if_pos hk]; exact evr_err
        · simp only [if_neg hk]
          refine EvR.bind (ih.force hll) (fun xs xs' hxs => ?_)
          have := hxs.get? k.toNat
          cases h1 : xs[k.toNat]? <;> cases h2 : xs'[k.toNat]? <;> simp only [h1, h2] at this
          all_goals first | exact evr_err | exact EvR.ok this | exact this.elim
      | _ => exact evr_err
    | _ => cases hiv <;> exact evr_err
  | mapLit kvs =>
    simp only [opt] at h
    obtain ⟨kvs', h1, h⟩ := ebind_ok h
    have : a' = .mapLit kvs' := by simpa [pure, Except.pure] using h.symm
    subst this
    simp only [wscoped] at hcf hcf'
    have i1 := ih.kvs fold sc L L' kvs kvs' env env' h1 hcf hcf' he
    apply EvR.of_succ
    simp only [eval_mapLit]
    exact EvR.bind i1 (fun vs vs' hvs => EvR.ok (.map hvs))
  | member m key =>
    simp only [opt] at h
    obtain ⟨m', h1, h⟩ := ebind_ok h
    simp only [wscoped] at hcf
    refine rule_finish hcfg he h hcf' (by simp) (fun L2 e2 hw he2 => ?_)
    simp only [wscoped] at hw
    have i1 := ih.expr fold sc L L2 m m' env e2 h1 hcf hw he2
    apply EvR.of_succ
    simp only [eval_member]
    refine EvR.bind i1 (fun mv mv' hmv => ?_)
    cases hmv with
    | map hkv =>
      rcases hkv.get_cases key with ⟨h1, h2⟩ | ⟨a, b, h1, h2, hab⟩
      · simp only [h1, h2, R.ofOption]; exact evr_err
      · simp only [h1, h2, R.ofOption]; exact EvR.ok hab
    | _ => exact evr_err
  | call f args =>
    simp only [opt] at h
    obtain ⟨f', h1, h⟩ := ebind_ok h
    obtain ⟨args', h2, h⟩ := ebind_ok h
    have hcfargs : wscopedList S.S L args = true := by
      simp only [wscoped, Bool.and_eq_true] at hcf; exact hcf.2
    refine rule_finish hcfg he h hcf' (by simp) (fun L2 e2 hw he2 => ?_)
    have hwargs : wscopedList S.S L2 args' = true := by
      simp only [wscoped, Bool.and_eq_true] at hw; exact hw.2
    have hA := ih.args fold sc L L2 args args' env e2 h2 hcfargs hwargs he2
    apply EvR.of_succ
    -- a constant is bound in the original environment
    have hcb : ∀ name k, sc.find name = some (some k) → env.has name = true := by
      intro name k hk
      obtain ⟨v, hv⟩ := (he.cst name k hk).get_some
      simp [Env.has, hv]
    by_cases hst : ∃ name, f = .ident name ∧ (S.S name).isSome ∧ !env.has name
    · -- a static call in the original program
      obtain ⟨name, rfl, hst⟩ := hst
      have hnc : ∀ k, sc.find name ≠ some (some k) := by
        intro k hk
        have := hcb name k hk
        simp [this] at hst
      have hf' : f' = .ident name := by
        cases hfd : sc.find name with
        | none => simp only [opt, hfd] at h1; simpa [pure, Except.pure] using h1.symm
        | some b =>
          cases b with
          | none => simp only [opt, hfd] at h1; simpa [pure, Except.pure] using h1.symm
          | some k => exact absurd hfd (hnc k)
      subst hf'
      have hst' : (S.S name).isSome ∧ !e2.has name := by
        refine ⟨hst.1, ?_⟩
        cases hh : e2.has name with
        | false => rfl
        | true =>
          have := he2.sfree name hh
          simp [this] at hst
      rw [eval_call_static S.S S.M n name args env hst]
      simp only [eval_call_static S.S S.M _ name args' e2 hst']
      exact EvR.bind hA (fun vs vs' hvs => ih.callStatic name hvs)
    · -- a dynamic call
      have hdyn : ∀ name, f = .ident name → ¬ ((S.S name).isSome ∧ !env.has name) :=
        fun name hf hs => hst ⟨name, hf, hs⟩
      have hidc : ∀ name, f = .ident name → (∀ k, sc.find name ≠ some (some k)) → S.S name = none := by
        intro name hf hnc
        cases hS : S.S name with
        | none => rfl
        | some p =>
          exfalso
          have hnot := hdyn name hf
          rw [hS] at hnot
          have hhas : env.has name = true := by
            cases hh : env.has name with
            | true => rfl
            | false => exact absurd ⟨rfl, by simp [hh]⟩ hnot
          cases hfd : sc.find name with
          | none =>
            have := he.un name hfd
            simp [Env.has, this] at hhas
          | some b =>
            cases b with
            | none =>
              have := he.rtS name hfd
              rw [hS] at this; cases this
            | some k => exact hnc k hfd
      -- the optimized callee, if an identifier, is not a static function
      have hgS : ∀ g, f' = .ident g → S.S g = none := by
        intro g hg
        by_cases hid : ∃ name, f = .ident name
        · obtain ⟨name, rfl⟩ := hid
          cases hfd : sc.find name with
          | none =>
            simp only [opt, hfd] at h1
            have : f' = .ident name := by simpa [pure, Except.pure] using h1.symm
            rw [this] at hg
            have hgn : name = g := by injection hg
            rw [← hgn]; exact hidc name rfl (by simp [hfd])
          | some b =>
            cases b with
            | none =>
              simp only [opt, hfd] at h1
              have : f' = .ident name := by simpa [pure, Except.pure] using h1.symm
              rw [this] at hg
              have hgn : name = g := by injection hg
              rw [← hgn]; exact hidc name rfl (by simp [hfd])
            | some k =>
              simp only [opt, hfd] at h1
              have : f' = k := by simpa [pure, Except.pure] using h1.symm
              rw [this] at hg
              have hk := (he.cst name k hfd).isConst
              rw [hg] at hk
              simp [isConst] at hk
        · have hws : wscoped S.S L f = true := by
            simp only [wscoped, Bool.and_eq_true] at hcf
            cases f with
            | ident name => exact absurd ⟨name, rfl⟩ hid
            | _ => exact hcf.1
          subst hg
          have := opt_ident hcfg.regroup f fold sc L g h1 (wscoped_idBound f L hws) he.inL
            (fun x k hk => (he.cst x k hk).isConst)
          exact he.rtS g this
      have hdyn' : ∀ g, f' = .ident g → ¬ ((S.S g).isSome ∧ !e2.has g) := by
        intro g hg
        rw [hgS g hg]; simp
      have hwf : wscoped S.S L2 f' = true := by
        simp only [wscoped, Bool.and_eq_true] at hw
        have hw1 := hw.1
        cases f' with
        | ident g =>
          simp only [Bool.or_eq_true, List.contains_iff_mem] at hw1
          simp only [wscoped, List.contains_iff_mem]
          rcases hw1 with hm | hs
          · exact hm
          · rw [hgS g rfl] at hs; cases hs
        | _ => exact hw1
      have ihf : EvR (VRel S) (eval S.S S.M n f env) (fun m => eval S.S S.M m f' e2) := by
        by_cases hid : ∃ name, f = .ident name
        · obtain ⟨name, rfl⟩ := hid
          have hfd : sc.find name ≠ none := by
            intro hn
            have hS := hidc name rfl (by simp [hn])
            simp only [wscoped, Bool.and_eq_true, Bool.or_eq_true, List.contains_iff_mem] at hcf
            rcases hcf.1 with hm | hs
            · exact he.inL name hm hn
            · rw [hS] at hs; cases hs
          exact ih.expr fold sc (name :: L) L2 _ f' env e2 h1 (by simp [wscoped]) hwf (he2.cons name hfd)
        · have : wscoped S.S L f = true := by
            simp only [wscoped, Bool.and_eq_true] at hcf
            cases f with
            | ident name => exact absurd ⟨name, rfl⟩ hid
            | _ => exact hcf.1
          exact ih.expr fold sc L L2 f f' env e2 h1 this hwf he2
      rw [call_dyn_form n f args env hdyn]
      refine EvR.congr ?_ (fun m => call_dyn_form m f' args' e2 hdyn')
      exact EvR.bind ihf (fun fv fv' hfv => callK_evr ih h2 hcfargs hwargs he2 hfv)
  | method recv name args =>
    simp only [opt] at h
    obtain ⟨recv', h1, h⟩ := ebind_ok h
    obtain ⟨args', h2, h⟩ := ebind_ok h
    simp only [wscoped, Bool.and_eq_true] at hcf
    refine rule_finish hcfg he h hcf' (by simp) (fun L2 e2 hw he2 => ?_)
    simp only [wscoped, Bool.and_eq_true] at hw
    have i1 := ih.expr fold sc L L2 recv recv' env e2 h1 hcf.1 hw.1 he2
    apply EvR.of_succ
    simp only [eval_method]
    exact EvR.bind i1 (fun rv rv' hrv => methodK_evr ih name h2 hcf.2 hw.2 he2 hrv)

theorem step_args (ih : SimC S n) :
    ∀ fold sc L L' as as' env env', optList S.S S.M S.T S.cfg fold sc as = .ok as' →
    wscopedList S.S L as = true → wscopedList S.S L' as' = true → EnvC S sc L L' env env' →
    EvR (VsRel S) (evalArgs S.S S.M (n+1) as env) (fun m => evalArgs S.S S.M m as' env') := by
  intro fold sc L L' as as' env env' h hcf hcf' he
  cases as with
  | nil =>
    have : as' = [] := by simpa [optList, pure, Except.pure] using h.symm
    subst this
    exact EvR.one (fun m => rfl) (show RRel (VsRel S) (R.ok []) (R.ok []) from .nil)
  | cons a as =>
    simp only [optList] at h
    obtain ⟨a1, h1, h⟩ := ebind_ok h
    obtain ⟨as1, h2, h⟩ := ebind_ok h
    have : as' = a1 :: as1 := by simpa [pure, Except.pure] using h.symm
    subst this
    simp only [wscopedList, Bool.and_eq_true] at hcf hcf'
    have i1 := ih.expr fold sc L L' a a1 env env' h1 hcf.1 hcf'.1 he
    have i2 := ih.args fold sc L L' as as1 env env' h2 hcf.2 hcf'.2 he
    apply EvR.of_succ
    simp only [evalArgs_cons]
    exact EvR.bind i1 (fun v v' hv => EvR.bind i2 (fun vs vs' hvs => EvR.ok (.cons hv hvs)))

theorem step_list (ih : SimC S n) :
    ∀ fold sc L L' as as' env env', optList S.S S.M S.T S.cfg fold sc as = .ok as' →
    wscopedList S.S L as = true → wscopedList S.S L' as' = true → EnvC S sc L L' env env' →
    EvR (VsRel S) (evalList S.S S.M (n+1) as env) (fun m => evalList S.S S.M m as' env') := by
  intro fold sc L L' as as' env env' h hcf hcf' he
  cases as with
  | nil =>
    have : as' = [] := by simpa [optList, pure, Except.pure] using h.symm
    subst this
    exact EvR.one (fun m => rfl) (show RRel (VsRel S) (R.ok []) (R.ok []) from .nil)
  | cons a as =>
    simp only [optList] at h
    obtain ⟨a1, h1, h⟩ := ebind_ok h
    obtain ⟨as1, h2, h⟩ := ebind_ok h
    have : as' = a1 :: as1 := by simpa [pure, Except.pure] using h.symm
    subst this
    simp only [wscopedList, Bool.and_eq_true] at hcf hcf'
    have i1 := ih.expr fold sc L L' a a1 env env' h1 hcf.1 hcf'.1 he
    have i2 := ih.list fold sc L L' as as1 env env' h2 hcf.2 hcf'.2 he
    apply EvR.of_succ
    simp only [evalList_cons]
    exact EvR.bind i1 (fun v v' hv => EvR.bind i2 (fun vs vs' hvs => EvR.ok (.cons hv hvs)))

theorem step_kvs (ih : SimC S n) :
    ∀ fold sc L L' as as' env env', optKVs S.S S.M S.T S.cfg fold sc as = .ok as' →
    wscopedKVs S.S L as = true → wscopedKVs S.S L' as' = true → EnvC S sc L L' env env' →
    EvR (KVRel S) (evalKVs S.S S.M (n+1) as env) (fun m => evalKVs S.S S.M m as' env') := by
  intro fold sc L L' as as' env env' h hcf hcf' he
  rcases as with _ | ⟨⟨key, a⟩, as⟩
  · have : as' = [] := by simpa [optKVs, pure, Except.pure] using h.symm
    subst this
    exact EvR.one (fun m => rfl) (show RRel (KVRel S) (R.ok []) (R.ok []) from .nil)
  · simp only [optKVs] at h
    obtain ⟨a1, h1, h⟩ := ebind_ok h
    obtain ⟨as1, h2, h⟩ := ebind_ok h
    have : as' = (key, a1) :: as1 := by simpa [pure, Except.pure] using h.symm
    subst this
    simp only [wscopedKVs, Bool.and_eq_true] at hcf hcf'
    have i1 := ih.expr fold sc L L' a a1 env env' h1 hcf.1 hcf'.1 he
    have i2 := ih.kvs fold sc L L' as as1 env env' h2 hcf.2 hcf'.2 he
    apply EvR.of_succ
    simp only [evalKVs_cons]
    exact EvR.bind i1 (fun v v' hv => EvR.bind i2 (fun vs vs' hvs => EvR.ok (.cons key hv hvs)))

theorem step_cases (ih : SimC S n) :
    ∀ fold sc L L' cs cs' d d' x x' env env', optCases S.S S.M S.T S.cfg fold sc cs = .ok cs' →
    opt S.S S.M S.T S.cfg fold sc d = .ok d' → wscopedCases S.S L cs = true → wscoped S.S L d = true →
    wscopedCases S.S L' cs' = true → wscoped S.S L' d' = true →
    EnvC S sc L L' env env' → VRel S x x' →
    EvR (VRel S) (evalCases S.S S.M (n+1) x cs d env) (fun m => evalCases S.S S.M m x' cs' d' env') := by
  intro fold sc L L' cs cs' d d' x x' env env' h hd hcf hcfd hcf' hcfd' he hx
  rcases cs with _ | ⟨⟨c, r⟩, rest⟩
  · have : cs' = [] := by simpa [optCases, pure, Except.pure] using h.symm
    subst this
    apply EvR.of_succ
    simp only [evalCases_nil]
    exact ih.expr fold sc L L' d d' env env' hd hcfd hcfd' he
  · simp only [optCases] at h
    obtain ⟨c1, h1, h⟩ := ebind_ok h
    obtain ⟨r1, h2, h⟩ := ebind_ok h
    obtain ⟨rest1, h3, h⟩ := ebind_ok h
    have : cs' = (c1, r1) :: rest1 := by simpa [pure, Except.pure] using h.symm
    subst this
    simp only [wscopedCases, Bool.and_eq_true] at hcf hcf'
    have i1 := ih.expr false sc L L' c c1 env env' h1 hcf.1.1 hcf'.1.1 he
    have i2 := ih.expr fold sc L L' r r1 env env' h2 hcf.1.2 hcf'.1.2 he
    have i3 := ih.cases fold sc L L' rest rest1 d d' x x' env env' h3 hd hcf.2 hcfd hcf'.2 hcfd' he hx
    apply EvR.of_succ
    simp only [evalCases_cons]
    refine EvR.bind i1 (fun cv cv' hcv => EvR.bind (ih.valEq hx hcv) (fun eq eq' heq => ?_))
    subst heq
    cases eq <;> assumption

theorem step_ap (ih : SimC S n) : ∀ f f' vs vs', VRel S f f' → VsRel S vs vs' →
    EvR (VRel S) (applyS S.S S.M (n+1) f vs) (fun m => applyS S.S S.M m f' vs') := by
  intro f f' vs vs' hf hvs
  apply EvR.of_succ
  cases hf with
  | clos h1 h2 h3 h4 h5 h6 h7 h8 h9 h10 h11 h12 =>
    rename_i names body body' cenv cenv' r this sc0 outer outer'
    simp only [applyS_sclos, ← hvs.length]
    by_cases hl : names.length ≠ vs.length
    · simp only [if_pos hl]; exact evr_err
    · simp only [if_neg hl]
      exact enter_evr ih (.clos h1 h2 h3 h4 h5 h6 h7 h8 h9 h10 h11 h12) hvs rfl rfl
        (Decidable.of_not_not hl)
  | _ => exact evr_err

end Step

/-- **the simulation**: at every fuel -/
theorem simC {S : Ctx} (hcfg : FullCfg S.cfg) : ∀ n, SimC S n
  | 0 => ⟨fun _ _ _ _ _ _ _ _ _ _ _ _ => EvR.fuel _, fun _ _ _ _ _ _ _ _ _ _ _ _ => EvR.fuel _,
          fun _ _ _ _ _ _ _ _ _ _ _ _ => EvR.fuel _, fun _ _ _ _ _ _ _ _ _ _ _ _ => EvR.fuel _,
          fun _ _ _ _ _ _ _ _ _ _ _ _ _ _ _ _ _ _ _ _ => EvR.fuel _, fun _ _ _ _ _ _ => EvR.fuel _⟩
  | n+1 =>
    have ih := simC hcfg n
    ⟨step_expr hcfg ih, step_args ih, step_list ih, step_kvs ih, step_cases ih, step_ap ih⟩

/-! ## the top level -/

theorem bindParams_kvrel {S : Ctx} : ∀ (names : List String) {vs vs' : List Val}, VsRel S vs vs' →
    KVRel S (bindParams names vs) (bindParams names vs')
  | [], _, _, _ => by simp only [bindParams]; exact .nil
  | _ :: _, _, _, .nil => by simp only [bindParams]; exact .nil
  | n :: ns, _, _, .cons hv ht => by simp only [bindParams]; exact .cons n hv (bindParams_kvrel ns ht)

theorem KVRel.reverse {S : Ctx} : ∀ {xs ys : List (String × Val)}, KVRel S xs ys → KVRel S xs.reverse ys.reverse
  | _, _, .nil => .nil
  | _, _, .cons k hv h => by
    simp only [List.reverse_cons]
    exact KVRel.append (KVRel.reverse h) (.cons k hv .nil)

theorem KVRel.envGet {S : Ctx} : ∀ {xs ys : List (String × Val)}, KVRel S xs ys → ∀ x,
    OptRel S (Env.get xs x) (Env.get ys x)
  | _, _, .nil, x => by simp only [Env.get]; exact .none
  | _, _, .cons k hv h, x => by
    simp only [Env.get]
    by_cases hk : k = x
    · simp only [hk, if_true]; exact .some hv
    · simp only [hk, if_false]; exact KVRel.envGet h x

theorem KVRel.envHas {S : Ctx} {xs ys : List (String × Val)} (h : KVRel S xs ys) (x : String) :
    Env.has xs x = Env.has ys x := by
  have := h.envGet x
  unfold Env.has
  generalize Env.get xs x = o at this
  generalize Env.get ys x = o' at this
  cases this <;> rfl

/-- the invariant at the top level -/
theorem EnvC.top {S : Ctx} (argNames : List String) {args args' : List Val} (hargs : VsRel S args args')
    (hg : guardNames S.S argNames = .ok ()) :
    EnvC S (argNames.reverse.map (fun n => (n, none))) argNames argNames
      (bindParams argNames args).reverse (bindParams argNames args').reverse := by
  have hkv := (bindParams_kvrel argNames hargs).reverse
  refine ⟨fun x hx => ?_, fun x hx => ?_, fun x hx => ?_, fun x k hx => ?_, fun x hx => ?_, fun x _ _ => hkv.envGet x⟩
  · rw [Scope.find_params]; simp [hx]
  · rw [Scope.find_params] at hx
    split at hx
    · rename_i hm
      exact guardNames_ok argNames hg x (by simpa using hm)
    · simp at hx
  · rw [Scope.find_params] at hx
    split at hx
    · simp at hx
    · rename_i hm
      exact Env.get_none_of_not_mem _ x (fun p hp hpx => hm (by
        have := bindParams_names argNames args p (by simpa using hp)
        rw [hpx] at this; simpa using this))
  · rw [Scope.find_params] at hx; split at hx <;> simp at hx
  · rw [← hkv.envHas x] at hx
    have hm : x ∈ argNames := by
      apply Classical.byContradiction
      intro hm
      have : Env.get (bindParams argNames args).reverse x = none :=
        Env.get_none_of_not_mem _ x (fun p hp hpx => hm (by
          have := bindParams_names argNames args p (by simpa using hp)
          rw [hpx] at this; exact this))
      simp [Env.has, this] at hx
    exact guardNames_ok argNames hg x hm

/-! ## values without closures -/

mutual
theorem VRel.refl_of_closFree {S : Ctx} : ∀ {v : Val}, ClosFree v → VRel S v v
  | _, .int i => .int i
  | _, .flt f => .flt f
  | _, .str s => .str s
  | _, .bool b => .bool b
  | _, .list h => .list (LRel.refl_of_closFree h)
  | _, .map h => .map (KVRel.refl_of_closFree h)
theorem LRel.refl_of_closFree {S : Ctx} : ∀ {l : LList}, ClosFreeL l → LRel S l l
  | _, .items h => .items (VsRel.refl_of_closFree h)
  | _, .numbers i n => .numbers i n
  | _, .map hf h => .map (VRel.refl_of_closFree hf) (LRel.refl_of_closFree h)
  | _, .accept hf h => .accept (VRel.refl_of_closFree hf) (LRel.refl_of_closFree h)
  | _, .top n h => .top n (LRel.refl_of_closFree h)
  | _, .skip n h => .skip n (LRel.refl_of_closFree h)
  | _, .append h1 h2 => .append (LRel.refl_of_closFree h1) (LRel.refl_of_closFree h2)
theorem VsRel.refl_of_closFree {S : Ctx} : ∀ {vs : List Val}, ClosFreeVs vs → VsRel S vs vs
  | _, .nil => .nil
  | _, .cons h hs => .cons (VRel.refl_of_closFree h) (VsRel.refl_of_closFree hs)
theorem KVRel.refl_of_closFree {S : Ctx} : ∀ {kvs : List (String × Val)}, ClosFreeKVs kvs → KVRel S kvs kvs
  | _, .nil => .nil
  | _, .cons k h hs => .cons k (VRel.refl_of_closFree h) (KVRel.refl_of_closFree hs)
end

mutual
/-- a closure-free result of the original program is *equal* to the result of the optimized one -/
theorem VRel.eq_of_closFree {S : Ctx} : ∀ {v w : Val}, ClosFree v → VRel S v w → v = w
  | _, _, .int _, .int _ => rfl
  | _, _, .flt _, .flt _ => rfl
  | _, _, .str _, .str _ => rfl
  | _, _, .bool _, .bool _ => rfl
  | _, _, .list h, .list hr => by rw [LRel.eq_of_closFree h hr]
  | _, _, .map h, .map hr => by rw [KVRel.eq_of_closFree h hr]
theorem LRel.eq_of_closFree {S : Ctx} : ∀ {l l' : LList}, ClosFreeL l → LRel S l l' → l = l'
  | _, _, .items h, .items hr => by rw [VsRel.eq_of_closFree h hr]
  | _, _, .numbers _ _, .numbers _ _ => rfl
  | _, _, .map hf h, .map hfr hr => by rw [VRel.eq_of_closFree hf hfr, LRel.eq_of_closFree h hr]
  | _, _, .accept hf h, .accept hfr hr => by rw [VRel.eq_of_closFree hf hfr, LRel.eq_of_closFree h hr]
  | _, _, .top _ h, .top _ hr => by rw [LRel.eq_of_closFree h hr]
  | _, _, .skip _ h, .skip _ hr => by rw [LRel.eq_of_closFree h hr]
  | _, _, .append h1 h2, .append hr1 hr2 => by rw [LRel.eq_of_closFree h1 hr1, LRel.eq_of_closFree h2 hr2]
theorem VsRel.eq_of_closFree {S : Ctx} : ∀ {vs ws : List Val}, ClosFreeVs vs → VsRel S vs ws → vs = ws
  | _, _, .nil, .nil => rfl
  | _, _, .cons h hs, .cons hr hrs => by rw [VRel.eq_of_closFree h hr, VsRel.eq_of_closFree hs hrs]
theorem KVRel.eq_of_closFree {S : Ctx} : ∀ {kvs kws : List (String × Val)}, ClosFreeKVs kvs →
    KVRel S kvs kws → kvs = kws
  | _, _, .nil, .nil => rfl
  | _, _, .cons _ h hs, .cons _ hr hrs => by rw [VRel.eq_of_closFree h hr, KVRel.eq_of_closFree hs hrs]
end


end F
end P2.Lang
