import P2.Proofs.XmlExport
/-! Remaining pieces of the XML theorem: sorting keeps the hypotheses, the repaired key rule only accepts
XML names, the XML declaration, exactly one root element. -/
namespace P2.Xml

/-! ### sorting the keys keeps legality and distinctness -/

theorem legalKVs_insert (kv : List Char × V) (l : List (List Char × V)) :
    legalKVs (insertKV kv l) = (allLegal kv.1 && legalV kv.2 && legalKVs l) := by
  induction l with
  | nil => obtain ⟨k, v⟩ := kv; simp [insertKV, legalKVs]
  | cons x xs ih =>
    obtain ⟨k, v⟩ := kv
    obtain ⟨k', v'⟩ := x
    simp only [insertKV]
    split
    · simp [legalKVs]
    · simp only [legalKVs, ih]
      cases allLegal k <;> cases legalV v <;> cases allLegal k' <;> cases legalV v' <;> simp

theorem legalKVs_sort (l : List (List Char × V)) : legalKVs (sortKVs l) = legalKVs l := by
  induction l with
  | nil => rfl
  | cons x xs ih => obtain ⟨k, v⟩ := x; simp [sortKVs, legalKVs_insert, ih, legalKVs]

theorem distinctKVs_insert (kv : List Char × V) (l : List (List Char × V)) :
    distinctKVs (insertKV kv l) = (distinctV kv.2 && distinctKVs l) := by
  induction l with
  | nil => obtain ⟨k, v⟩ := kv; simp [insertKV, distinctKVs]
  | cons x xs ih =>
    obtain ⟨k, v⟩ := kv
    obtain ⟨k', v'⟩ := x
    simp only [insertKV]
    split
    · simp [distinctKVs]
    · simp only [distinctKVs, ih]
      cases distinctV v <;> cases distinctV v' <;> simp

theorem distinctKVs_sort (l : List (List Char × V)) : distinctKVs (sortKVs l) = distinctKVs l := by
  induction l with
  | nil => rfl
  | cons x xs ih => obtain ⟨k, v⟩ := x; simp [sortKVs, distinctKVs_insert, ih, distinctKVs]

theorem anyKey_insert (kv : List Char × V) (l : List (List Char × V)) (k : List Char) :
    (insertKV kv l).any (fun e => e.1 == k) = (kv.1 == k || l.any (fun e => e.1 == k)) := by
  induction l with
  | nil => simp [insertKV]
  | cons x xs ih =>
    simp only [insertKV]
    split
    · simp
    · simp only [List.any_cons, ih]
      cases (x.1 == k) <;> cases (kv.1 == k) <;> simp

theorem anyKey_sort (l : List (List Char × V)) (k : List Char) :
    (sortKVs l).any (fun e => e.1 == k) = l.any (fun e => e.1 == k) := by
  induction l with
  | nil => rfl
  | cons x xs ih => simp [sortKVs, anyKey_insert, ih]

theorem keysDistinct_insert (kv : List Char × V) (l : List (List Char × V)) :
    keysDistinct (insertKV kv l) = (!(l.any (fun e => e.1 == kv.1)) && keysDistinct l) := by
  induction l with
  | nil => obtain ⟨k, v⟩ := kv; simp [insertKV, keysDistinct]
  | cons x xs ih =>
    obtain ⟨k, v⟩ := kv
    obtain ⟨k', v'⟩ := x
    simp only [insertKV]
    split
    · simp [keysDistinct]
    · simp only [keysDistinct, ih, anyKey_insert, List.any_cons]
      have e : (k == k') = (k' == k) := by
        cases h : (k == k') <;> cases h' : (k' == k) <;> simp_all
      rw [e]
      cases (k' == k) <;> cases (xs.any fun e => e.1 == k') <;> cases (xs.any fun e => e.1 == k) <;>
        cases keysDistinct xs <;> simp

theorem keysDistinct_sort (l : List (List Char × V)) : keysDistinct (sortKVs l) = keysDistinct l := by
  induction l with
  | nil => rfl
  | cons x xs ih =>
    obtain ⟨k, v⟩ := x
    simp [sortKVs, keysDistinct_insert, ih, keysDistinct, anyKey_sort]

theorem anyKey_sortVKVs (l : List (List Char × V)) (k : List Char) :
    (sortVKVs l).any (fun e => e.1 == k) = l.any (fun e => e.1 == k) := by
  induction l with
  | nil => rfl
  | cons x xs ih => obtain ⟨k', v'⟩ := x; simp [sortVKVs, ih]

theorem keysDistinct_sortVKVs (l : List (List Char × V)) : keysDistinct (sortVKVs l) = keysDistinct l := by
  induction l with
  | nil => rfl
  | cons x xs ih => obtain ⟨k', v'⟩ := x; simp [sortVKVs, keysDistinct, ih, anyKey_sortVKVs]

mutual
theorem legalV_sortV : ∀ v : V, legalV (sortV v) = legalV v
  | .str s => rfl
  | .flt a b => rfl
  | .file n m b size ss => rfl
  | .arr l => by simp only [sortV, legalV]; exact legalVs_sortVs l
  | .obj kvs => by simp only [sortV, legalV, legalKVs_sort]; exact legalKVs_sortVKVs kvs
  | .fmt sty c n v => by simp only [sortV, legalV, legalV_sortV v]
  | .fmtCl r c n v => by simp only [sortV, legalV, legalV_sortV v, legalOpt_sortVOpt r]
  | .link h v => by simp only [sortV, legalV, legalV_sortV v]
theorem legalVs_sortVs : ∀ l : List V, legalVs (sortVs l) = legalVs l
  | [] => rfl
  | v :: vs => by simp only [sortVs, legalVs, legalV_sortV v, legalVs_sortVs vs]
theorem legalKVs_sortVKVs : ∀ l : List (List Char × V), legalKVs (sortVKVs l) = legalKVs l
  | [] => rfl
  | (k, v) :: rest => by simp only [sortVKVs, legalKVs, legalV_sortV v, legalKVs_sortVKVs rest]
theorem legalOpt_sortVOpt : ∀ r : Option V, legalOpt (sortVOpt r) = legalOpt r
  | none => rfl
  | some v => by simp only [sortVOpt, legalOpt, legalV_sortV v]
end

mutual
theorem distinctV_sortV : ∀ v : V, distinctV (sortV v) = distinctV v
  | .str s => rfl
  | .flt a b => rfl
  | .file n m b size ss => rfl
  | .arr l => by simp only [sortV, distinctV]; exact distinctVs_sortVs l
  | .obj kvs => by
    simp only [sortV, distinctV, keysDistinct_sort, distinctKVs_sort, keysDistinct_sortVKVs,
      distinctKVs_sortVKVs kvs]
  | .fmt sty c n v => by simp only [sortV, distinctV, distinctV_sortV v]
  | .fmtCl r c n v => by simp only [sortV, distinctV, distinctV_sortV v, distinctOpt_sortVOpt r]
  | .link h v => by simp only [sortV, distinctV, distinctV_sortV v]
theorem distinctVs_sortVs : ∀ l : List V, distinctVs (sortVs l) = distinctVs l
  | [] => rfl
  | v :: vs => by simp only [sortVs, distinctVs, distinctV_sortV v, distinctVs_sortVs vs]
theorem distinctKVs_sortVKVs : ∀ l : List (List Char × V), distinctKVs (sortVKVs l) = distinctKVs l
  | [] => rfl
  | (k, v) :: rest => by simp only [sortVKVs, distinctKVs, distinctV_sortV v, distinctKVs_sortVKVs rest]
theorem distinctOpt_sortVOpt : ∀ r : Option V, distinctOpt (sortVOpt r) = distinctOpt r
  | none => rfl
  | some v => by simp only [sortVOpt, distinctOpt, distinctV_sortV v]
end

/-! ### the repaired key rule accepts XML names only -/

theorem asciiStart_isNameStart (c : Char) (h : asciiNameChar true c = true) : isNameStart c = true := by
  simp only [asciiNameChar, isNameStart, inR, Bool.or_eq_true, Bool.and_eq_true, Nat.ble_eq, beq_iff_eq,
    Bool.not_true, Bool.false_and, Bool.or_false] at h ⊢
  omega

theorem asciiChar_isNameChar (c : Char) (h : asciiNameChar false c = true) : isNameChar c = true := by
  simp only [asciiNameChar, isNameChar, isNameStart, inR, Bool.or_eq_true, Bool.and_eq_true, Nat.ble_eq,
    beq_iff_eq, Bool.not_false, Bool.true_and] at h ⊢
  omega

theorem attrKeyOK_isXmlName (k : List Char) (h : attrKeyOK k = true) : isXmlName k = true := by
  cases k with
  | nil => simp [attrKeyOK] at h
  | cons c cs =>
    simp only [attrKeyOK, Bool.and_eq_true, List.all_eq_true] at h
    simp only [isXmlName, Bool.and_eq_true, List.all_eq_true]
    exact ⟨asciiStart_isNameStart c h.1.1, fun x hx => asciiChar_isNameChar x (h.1.2 x hx)⟩

/-! ### the XML declaration -/

theorem untilPIEnd_ne (c : Char) (r : List Char) (h : c ≠ '?') : untilPIEnd (c :: r) = untilPIEnd r := by
  rw [untilPIEnd.eq_def]; split <;> simp_all

theorem untilPIEnd_end (r : List Char) : untilPIEnd ('?' :: '>' :: r) = some r := by simp [untilPIEnd]

/-- the declaration is dropped; the line break behind it belongs to the document -/
theorem skipDecl_prolog (x : List Char) : skipDecl (xmlProlog ++ x) = some ('\n' :: x) := by
  simp only [xmlProlog, List.cons_append, List.nil_append, skipDecl]
  repeat rw [untilPIEnd_ne _ _ (by decide)]
  exact untilPIEnd_end _

theorem tokens_nl (x : List Char) (toks : List Tok) (h : tokens x = some toks) :
    tokens ('\n' :: x) = some (.chr '\n' :: toks) := by
  unfold tokens at h ⊢
  have hs : step (.text false) '\n' = some (.text false, [.chr '\n']) := by simp [step]
  simp only [feed, hs]
  cases hf : feed (.text false) x with
  | none => simp [hf] at h
  | some r =>
    obtain ⟨m, o⟩ := r
    simp only [hf] at h ⊢
    cases m <;> simp_all

/-! ### exactly one root element -/

theorem rootCount_chrs_pos (s : List Char) (rest : List Tok) (m : Nat) :
    rootCount (chrs s ++ rest) (m + 1) = rootCount rest (m + 1) := by
  induction s with
  | nil => simp [chrs]
  | cons c cs ih => simpa [chrs, rootCount] using ih

theorem rootCount_indT_pos (pp : Bool) (d : Int) (rest : List Tok) (m : Nat) :
    rootCount (indT pp d ++ rest) (m + 1) = rootCount rest (m + 1) := by
  unfold indT; split
  · exact rootCount_chrs_pos _ _ _
  · simp

theorem rootCount_nlT_pos (pp : Bool) (rest : List Tok) (m : Nat) :
    rootCount (nlT pp ++ rest) (m + 1) = rootCount rest (m + 1) := by
  unfold nlT; split <;> simp [rootCount]

mutual
/-- inside an element nothing counts as a root and the depth is restored -/
theorem rootCount_layNode (pp : Bool) : ∀ (k : Node) (d : Int) (il : Bool) (rest : List Tok) (m : Nat),
    rootCount ((layNode pp d il k).1 ++ rest) (m + 1) = rootCount rest (m + 1)
  | .text s, d, il, rest, m => by
    simp only [layNode, List.append_assoc]
    split
    · simpa using rootCount_chrs_pos s rest m
    · rw [rootCount_indT_pos]; exact rootCount_chrs_pos s rest m
  | .elem n as kids, d, il, rest, m => by
    simp only [layNode, List.append_assoc, List.cons_append]
    have e1 : ∀ r, rootCount ((if il = true then nlT pp else []) ++ r) (m + 1) = rootCount r (m + 1) := by
      intro r; split
      · exact rootCount_nlT_pos pp r m
      · simp
    rw [e1, rootCount_indT_pos]
    simp only [rootCount]
    rw [rootCount_layNodes pp kids (d + 1) true _ (m + 1)]
    have e2 : ∀ r, rootCount ((if (layNodes pp (d + 1) true kids).2 = true then [] else indT pp (d + 1)) ++ r) (m + 1 + 1)
        = rootCount r (m + 1 + 1) := by
      intro r; split
      · simp
      · exact rootCount_indT_pos pp _ r (m + 1)
    rw [e2]
    simp only [rootCount, Nat.add_sub_cancel]
    rw [rootCount_nlT_pos]
    cases rootCount rest (m + 1) <;> simp
theorem rootCount_layNodes (pp : Bool) : ∀ (ks : List Node) (d : Int) (il : Bool) (rest : List Tok) (m : Nat),
    rootCount ((layNodes pp d il ks).1 ++ rest) (m + 1) = rootCount rest (m + 1)
  | [], d, il, rest, m => by simp [layNodes]
  | k :: ks, d, il, rest, m => by
    simp only [layNodes, List.append_assoc]
    rw [rootCount_layNode pp k d il _ m, rootCount_layNodes pp ks d _ rest m]
end

/-- a forest that is a single element, pretty-printed by a fresh writer, is a document with one root -/
theorem rootCount_single (n : List Char) (as : Attrs) (kids : List Node) :
    rootCount (layout true [.elem n as kids]) 0 = some 1 := by
  simp only [layout, layNodes, layNode, List.append_nil, Bool.false_eq_true, if_false, List.nil_append]
  have e0 : indT true (-1 + 1) = [] := by simp [indT, tabs, chrs]
  rw [e0]
  simp only [List.nil_append, rootCount, Nat.zero_add]
  rw [rootCount_layNodes true kids (-1 + 1) true _ 0]
  simp [rootCount, nlT, isSpace]

end P2.Xml
