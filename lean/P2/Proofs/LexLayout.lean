import P2.Proofs.LexBasic
/-! C15: lexemes, separators and the scanner run over `lexeme · separator · lexeme · …` (on the reference
scanner; transferred to the model by `tokenize_refines`). -/
namespace P2.C15
open P2.Lex P2.Lex.Spec

/-! ### separators -/

/-- one piece of layout between two tokens -/
inductive SepItem where
  /-- a blank, tab, CR or LF -/
  | blank (c : Char)
  /-- `//` body and the CR or LF that ends it -/
  | line (body : List Char) (nl : Char)
  /-- `/*` body `*/` -/
  | block (body : List Char)
  deriving Repr, DecidableEq

/-- no `*/` inside the body of a block comment -/
def noCloser : List Char → Bool
  | [] => true
  | [_] => true
  | c :: d :: r => !(c == '*' && d == '/') && noCloser (d :: r)

def isBlankChar (c : Char) : Bool := c == ' ' || c == '\t' || c == '\r' || c == '\n'

def SepItem.text : SepItem → List Char
  | .blank c => [c]
  | .line b nl => '/' :: '/' :: (b ++ [nl])
  | .block b => '/' :: '*' :: (b ++ ['*', '/'])

def SepItem.wf (comments : Bool) : SepItem → Bool
  | .blank c => isBlankChar c
  | .line b nl => comments && (nl == '\n' || nl == '\r') && b.all (fun c => c != '\n' && c != '\r')
  | .block b => comments && noCloser b

/-- blank, tab, CR or LF outside a comment -/
def SepItem.hasBlank : SepItem → Bool
  | .blank _ => true
  | .line _ _ => true
  | .block _ => false

def countLF (s : List Char) : Nat := s.count '\n'

abbrev Sep := List SepItem

def Sep.text (s : Sep) : List Char := s.flatMap SepItem.text
def Sep.wf (comments : Bool) (s : Sep) : Bool := s.all (SepItem.wf comments)
def Sep.hasBlank (s : Sep) : Bool := s.any SepItem.hasBlank
def Sep.lfs (s : Sep) : Nat := countLF s.text

theorem countLF_append (a b : List Char) : countLF (a ++ b) = countLF a + countLF b := by
  simp [countLF]

theorem countLF_cons (c : Char) (r : List Char) : countLF (c :: r) = (if c = '\n' then 1 else 0) + countLF r := by
  unfold countLF
  rw [List.count_cons]
  by_cases h : c = '\n'
  · simp [h]; omega
  · simp [h]

theorem countLF_singleton (c : Char) : countLF [c] = if c = '\n' then 1 else 0 := by
  rw [countLF_cons]; simp [countLF]

/-! ### the comment skipper over one comment -/

theorem skipC_line_body : ∀ (b : List Char) (nl : Char) (R : List Char) (line : Nat),
    (b.all (fun c => c != '\n' && c != '\r')) = true → (nl = '\n' ∨ nl = '\r') →
    skipC .line (b ++ nl :: R) line = some (nl :: R, line)
  | [], nl, R, line, _, hnl => by simp [skipC, hnl]
  | c :: b, nl, R, line, hb, hnl => by
    simp only [List.all_cons, Bool.and_eq_true, bne_iff_ne, ne_eq] at hb
    have h1 : ¬ (c = '\n' ∨ c = '\r') := by
      intro h; rcases h with h | h
      · exact hb.1.1 h
      · exact hb.1.2 h
    simp only [List.cons_append, skipC, h1, ↓reduceIte]
    exact skipC_line_body b nl R line hb.2 hnl

theorem skipC_line_body_eof : ∀ (b : List Char) (line : Nat),
    skipC .line b line = none ∨ ∃ r, skipC .line b line = some r
  | _, _ => by
    cases h : skipC .line _ _ with
    | none => exact Or.inl rfl
    | some r => exact Or.inr ⟨r, rfl⟩

theorem skipC_line_noNl : ∀ (b : List Char) (line : Nat),
    (b.all (fun c => c != '\n' && c != '\r')) = true → skipC .line b line = none
  | [], _, _ => by simp [skipC]
  | c :: b, line, hb => by
    simp only [List.all_cons, Bool.and_eq_true, bne_iff_ne, ne_eq] at hb
    have h1 : ¬ (c = '\n' ∨ c = '\r') := by
      intro h; rcases h with h | h
      · exact hb.1.1 h
      · exact hb.1.2 h
    simp only [skipC, h1, ↓reduceIte]
    exact skipC_line_noNl b line hb.2

theorem skipC_block_body : ∀ (b : List Char) (R : List Char) (line : Nat), noCloser b = true →
    skipC .block (b ++ '*' :: '/' :: R) line = skipC .code R (line + countLF b)
  | [], R, line, _ => by simp [skipC, countLF]
  | [c], R, line, _ => by
    by_cases hc : c = '*'
    · subst hc
      have : ('*' : Char) ≠ '/' := by decide
      simp [skipC, countLF_cons, countLF]
    · by_cases h1 : c = '\n'
      · subst h1
        simp [skipC, countLF_cons, countLF]
      · simp [skipC, hc, h1, countLF_cons, countLF]
  | c :: d :: r, R, line, hb => by
    simp only [noCloser, Bool.and_eq_true, Bool.not_eq_true', Bool.and_eq_false_iff, beq_eq_false_iff_ne, ne_eq] at hb
    have ih := skipC_block_body (d :: r) R
    simp only [List.cons_append] at ih ⊢
    by_cases hc : c = '*'
    · have hd : d ≠ '/' := by
        rcases hb.1 with h | h
        · exact absurd hc h
        · exact h
      subst hc
      have hne : ('*' : Char) ≠ '\n' := by decide
      simp only [skipC, ↓reduceIte, hd]
      rw [ih line hb.2, countLF_cons '*', if_neg hne, Nat.zero_add]
    · simp only [skipC, hc, ↓reduceIte]
      rw [ih _ hb.2, countLF_cons c]
      by_cases h1 : c = '\n'
      · simp [h1, Nat.add_assoc]
      · simp [h1]

/-! ### the reference scanner over separators -/

theorem run_congr_step (cfg : Cfg) (htb : tablesOK cfg.tables = true) {s1 s2 : List Char} {l1 l2 : Nat} {rs : RunSt}
    (h : step cfg s1 l1 rs = step cfg s2 l2 rs) : run cfg s1 l1 rs = run cfg s2 l2 rs := by
  rw [run_unfold cfg htb s1, run_unfold cfg htb s2, h]

theorem step_of_skipCode (cfg : Cfg) {s1 s2 : List Char} {l1 l2 : Nat} (rs : RunSt)
    (h : skipCode cfg s1 l1 = skipCode cfg s2 l2) : step cfg s1 l1 rs = step cfg s2 l2 rs := by
  unfold step
  rw [h]

theorem alias_blank {tb : Tables} (htb : tablesOK tb = true) {c : Char} (hc : isBlankChar c = true) : alias tb c = c := by
  apply tablesOK_alias_struct htb
  simp only [isBlankChar, Bool.or_eq_true, beq_iff_eq] at hc
  simp only [handSpecial, List.append_assoc, List.mem_append, List.mem_cons]
  rcases hc with ((h | h) | h) | h <;> simp [h]

theorem blank_ne_slash {c : Char} (hc : isBlankChar c = true) : c ≠ '/' := by
  simp only [isBlankChar, Bool.or_eq_true, beq_iff_eq] at hc
  rcases hc with ((h | h) | h) | h <;> (subst h; decide)

theorem skipCode_ne (cfg : Cfg) (c : Char) (rest : List Char) (line : Nat) (hc : c ≠ '/') :
    skipCode cfg (c :: rest) line = some (c :: rest, line) := by
  unfold skipCode
  split
  · exact skipC_code_ne c rest line hc
  · rfl

theorem run_blank (cfg : Cfg) (htb : tablesOK cfg.tables = true) (c : Char) (hc : isBlankChar c = true)
    (R : List Char) (line : Nat) (rs : RunSt) :
    run cfg (c :: R) line rs = run cfg R (line + (if c = '\n' then 1 else 0)) { rs with lastBlank := true } := by
  rw [run_unfold cfg htb, step, skipCode_ne cfg c R line (blank_ne_slash hc)]
  simp only [alias_blank htb hc, stepAt]
  by_cases h1 : c = '\n'
  · simp [h1]
  · simp only [isBlankChar, Bool.or_eq_true, beq_iff_eq] at hc
    have h2 : c = ' ' ∨ c = '\r' ∨ c = '\t' := by
      rcases hc with ((h | h) | h) | h
      · exact Or.inl h
      · exact Or.inr (Or.inr h)
      · exact Or.inr (Or.inl h)
      · exact absurd h h1
    simp [h1, h2]

theorem run_sepItem (cfg : Cfg) (htb : tablesOK cfg.tables = true) (it : SepItem) (hwf : it.wf cfg.comments = true)
    (R : List Char) (line : Nat) (rs : RunSt) :
    run cfg (it.text ++ R) line rs =
      run cfg R (line + countLF it.text) { rs with lastBlank := rs.lastBlank || it.hasBlank } := by
  cases it with
  | blank c =>
    simp only [SepItem.wf] at hwf
    simp only [SepItem.text, List.cons_append, List.nil_append, run_blank cfg htb c hwf, countLF_singleton,
      SepItem.hasBlank, Bool.or_true]
  | line b nl =>
    simp only [SepItem.wf, Bool.and_eq_true, Bool.or_eq_true, beq_iff_eq] at hwf
    obtain ⟨⟨hcm, hnl⟩, hb⟩ := hwf
    have hbl : isBlankChar nl = true := by
      rcases hnl with h | h <;> simp [isBlankChar, h]
    have hsk : skipCode cfg (('/' :: '/' :: (b ++ [nl])) ++ R) line = skipCode cfg (nl :: R) line := by
      rw [skipCode_ne cfg nl R line (blank_ne_slash hbl)]
      simp only [skipCode, hcm, ↓reduceIte, List.cons_append, List.append_assoc, List.singleton_append, skipC]
      exact skipC_line_body b nl R line hb hnl
    have hlf : countLF b = 0 := by
      unfold countLF
      rw [List.count_eq_zero]
      intro hmem
      have := List.all_eq_true.mp hb _ hmem
      simp at this
    simp only [SepItem.text]
    rw [run_congr_step cfg htb (step_of_skipCode cfg rs hsk), run_blank cfg htb nl hbl]
    simp only [SepItem.hasBlank, Bool.or_true]
    have : countLF ('/' :: '/' :: (b ++ [nl])) = (if nl = '\n' then 1 else 0) := by
      have h1 : ('/' : Char) ≠ '\n' := by decide
      rw [countLF_cons, countLF_cons, countLF_append, hlf, countLF_cons]
      simp [h1, countLF]
    rw [this]
  | block b =>
    simp only [SepItem.wf, Bool.and_eq_true] at hwf
    obtain ⟨hcm, hb⟩ := hwf
    have hsk : skipCode cfg (('/' :: '*' :: (b ++ ['*', '/'])) ++ R) line = skipCode cfg R (line + countLF b) := by
      simp only [skipCode, hcm, ↓reduceIte, List.cons_append, List.append_assoc, skipC]
      have h1 : ('*' : Char) ≠ '/' := by decide
      simp only [h1, ↓reduceIte]
      exact skipC_block_body b R line hb
    have hlf : countLF ('/' :: '*' :: (b ++ ['*', '/'])) = countLF b := by
      have h1 : ('/' : Char) ≠ '\n' := by decide
      have h2 : ('*' : Char) ≠ '\n' := by decide
      rw [countLF_cons, countLF_cons, countLF_append, countLF_cons, countLF_cons]
      simp [h1, h2, countLF]
    simp only [SepItem.text]
    rw [run_congr_step cfg htb (step_of_skipCode cfg rs hsk), hlf]
    simp [SepItem.hasBlank]

theorem run_sep (cfg : Cfg) (htb : tablesOK cfg.tables = true) : ∀ (s : Sep), s.wf cfg.comments = true →
    ∀ (R : List Char) (line : Nat) (rs : RunSt),
    run cfg (s.text ++ R) line rs = run cfg R (line + s.lfs) { rs with lastBlank := rs.lastBlank || s.hasBlank }
  | [], _, R, line, rs => by simp [Sep.text, Sep.lfs, countLF, Sep.hasBlank]
  | it :: s, hwf, R, line, rs => by
    simp only [Sep.wf, List.all_cons, Bool.and_eq_true] at hwf
    have ih := run_sep cfg htb s hwf.2 R
    simp only [Sep.text, List.flatMap_cons, List.append_assoc, Sep.lfs, Sep.hasBlank, List.any_cons] at ih ⊢
    rw [run_sepItem cfg htb it hwf.1, ih, countLF_append]
    simp [Nat.add_assoc, Bool.or_assoc]

/-- a `//` comment that runs to the end of the input -/
theorem run_lineComment_eof (cfg : Cfg) (htb : tablesOK cfg.tables = true) (hcm : cfg.comments = true) (b : List Char)
    (hb : (b.all (fun c => c != '\n' && c != '\r')) = true) (line : Nat) (rs : RunSt) :
    run cfg ('/' :: '/' :: b) line rs = [] := by
  rw [run_unfold cfg htb, step]
  simp [skipCode, hcm, skipC, skipC_line_noNl b line hb]

theorem run_nil (cfg : Cfg) (htb : tablesOK cfg.tables = true) (line : Nat) (rs : RunSt) : run cfg [] line rs = [] := by
  rw [run_unfold cfg htb, step]
  simp [skipCode, skipC]

/-! ### lexemes -/

/-- what is written for one token (or for the two tokens of a superscript) -/
inductive Lexeme where
  /-- a rune with a case of its own in `run`: `( ) [ ] { } . : , ;` and the superscript digits -/
  | sym (c : Char)
  /-- the string literal denoting `s`, written with the escapes `\\ \" \n \r \t` -/
  | str (s : List Char)
  /-- the quoted identifier `'s'` -/
  | qident (s : List Char)
  /-- a number, spelled `sp` (possibly with alias runes, e.g. `1e–5`) -/
  | number (sp : List Char)
  /-- an identifier, keyword or text operator, spelled `sp` -/
  | word (sp : List Char)
  /-- an operator, spelled `sp` (possibly with alias runes, e.g. `×`) -/
  | op (sp : List Char)
  deriving Repr, DecidableEq

/-- the escapes of the property text -/
def escChar (c : Char) : List Char :=
  if c = '\\' then ['\\', '\\'] else if c = '"' then ['\\', '"'] else if c = '\n' then ['\\', 'n']
  else if c = '\r' then ['\\', 'r'] else if c = '\t' then ['\\', 't'] else [c]

def Lexeme.spell : Lexeme → List Char
  | .sym c => [c]
  | .str s => '"' :: (s.flatMap escChar ++ ['"'])
  | .qident s => '\'' :: (s ++ ['\''])
  | .number sp => sp
  | .word sp => sp
  | .op sp => sp

/-- the image of a token spelled `sp`: the alias switch applied to every rune -/
def image (cfg : Cfg) (sp : List Char) : List Char := sp.map (alias cfg.tables)

/-- the tokens sent for the lexeme, and `lastTokenType / lastWasBlank` after it -/
def lexToks (cfg : Cfg) (l : Lexeme) (rs : RunSt) (line : Nat) : List Token × RunSt :=
  match l with
  | .sym c =>
    if c = '(' then (openStar rs line ++ [⟨.open_, ['('], line⟩], ⟨.invalid, false⟩)
    else match cfg.tables.emit.lookup c with
      | some (toks, k) => (toks.map fun (kd, im) => ⟨kd, im, line⟩, ⟨comfortType cfg k, false⟩)
      | none => ([], ⟨.invalid, false⟩)
  | .str s => ([⟨.string, s, line⟩], ⟨.invalid, false⟩)
  | .qident s => ([⟨.ident, s, line⟩], ⟨.invalid, false⟩)
  | .number sp => (juxtaStar rs line ++ [⟨.number, image cfg sp, line⟩], ⟨comfortType cfg .number, false⟩)
  | .word sp =>
    match cfg.textOps.lookup (image cfg sp) with
    | some o => ([⟨.operate, o, line⟩], ⟨.invalid, false⟩)
    | none =>
      if cfg.keywords.contains (image cfg sp) then ([⟨.keyword, image cfg sp, line⟩], ⟨.invalid, false⟩)
      else (juxtaStar rs line ++ [⟨.ident, image cfg sp, line⟩], ⟨comfortType cfg .ident, false⟩)
  | .op sp => ([⟨.operate, image cfg sp, line⟩], ⟨.invalid, false⟩)

/-- every rune is accepted by the matcher (which sees its predecessor) -/
def chain (valid : Char → Char → Bool) : Char → List Char → Bool
  | _, [] => true
  | prev, c :: r => c != EOF && valid prev c && chain valid c r

/-- the matcher stops at the rune that follows -/
def stops (al : Char → Char) (valid : Char → Char → Bool) (prev : Char) : List Char → Bool
  | [] => true
  | c :: _ => !(al c != EOF && valid prev (al c))

def lastOr : Char → List Char → Char
  | prev, [] => prev
  | _, c :: r => lastOr c r

/-- the rune reaches the `default` case of `run`'s switch -/
def defaultStart (cfg : Cfg) (n : Char) : Bool :=
  n != '\n' && n != ' ' && n != '\r' && n != '\t' && n != EOF && n != '(' && n != '"' && n != '\''
  && (cfg.tables.emit.lookup n).isNone

/-- the lexeme is one the configuration can write -/
def Lexeme.wf (cfg : Cfg) : Lexeme → Bool
  | .sym c => c != '/' && (c == '(' || (cfg.tables.emit.lookup c).isSome)
  | .str s => s.all (· != EOF)
  | .qident s => s.all (fun c => c != '\'' && c != EOF)
  | .number sp =>
    match sp with
    | [] => false
    | c0 :: _ => c0 != '/' && defaultStart cfg (alias cfg.tables c0) && numberStart cfg (alias cfg.tables c0)
        && chain (numberNext cfg) EOF (image cfg sp)
  | .word sp =>
    match sp with
    | [] => false
    | c0 :: _ => c0 != '/' && defaultStart cfg (alias cfg.tables c0) && !numberStart cfg (alias cfg.tables c0)
        && identStart cfg (alias cfg.tables c0) && chain (identNext cfg) EOF (image cfg sp)
  | .op sp =>
    match sp with
    | [] => false
    | c0 :: _ => defaultStart cfg (alias cfg.tables c0) && !numberStart cfg (alias cfg.tables c0)
        && !identStart cfg (alias cfg.tables c0) && member cfg (image cfg sp)

/-- "lexically possible": written directly before the text `R`, the lexeme is still scanned as itself -/
def Lexeme.followOK (cfg : Cfg) : Lexeme → List Char → Bool
  | .sym _, _ => true
  | .str _, _ => true
  | .qident _, _ => true
  | .number sp, R => stops (alias cfg.tables) (numberNext cfg) (lastOr EOF (image cfg sp)) R
  | .word sp, R => stops (alias cfg.tables) (identNext cfg) (lastOr EOF (image cfg sp)) R
  | .op sp, R =>
    (match R with
      | [] => true
      | c :: _ => !extends_ cfg (image cfg sp ++ [alias cfg.tables c]))
    && (!cfg.comments || match sp ++ R with
      | '/' :: d :: _ => d != '/' && d != '*'
      | _ => true)

theorem readWhileS_chain (al : Char → Char) (valid : Char → Char → Bool) :
    ∀ (sp : List Char) (prev : Char) (R : List Char), chain valid prev (sp.map al) = true →
    stops al valid (lastOr prev (sp.map al)) R = true →
    readWhileS al valid prev (sp ++ R) = (sp.map al, R)
  | [], prev, [], _, _ => by simp [readWhileS]
  | [], prev, c :: R, _, hs => by
    simp only [List.map_nil, lastOr, stops, Bool.not_eq_true', Bool.and_eq_false_iff, bne_eq_false_iff_eq] at hs
    have : ¬ (al c ≠ EOF ∧ valid prev (al c) = true) := by
      intro h
      rcases hs with h1 | h1
      · exact h.1 h1
      · rw [h.2] at h1; exact absurd h1 (by decide)
    simp [readWhileS, this]
  | c :: sp, prev, R, hc, hs => by
    simp only [List.map_cons, chain, Bool.and_eq_true, bne_iff_ne, ne_eq] at hc
    simp only [List.map_cons, lastOr] at hs
    have ih := readWhileS_chain al valid sp (al c) R hc.2 hs
    simp only [List.cons_append, readWhileS, ne_eq, hc.1.1, not_false_eq_true, hc.1.2, and_self, ↓reduceIte, ih,
      List.map_cons]

/-! ### string literals -/

theorem escChar_cases (c : Char) :
    (c = '\\' ∧ escChar c = ['\\', '\\']) ∨ (c = '"' ∧ escChar c = ['\\', '"']) ∨ (c = '\n' ∧ escChar c = ['\\', 'n']) ∨
    (c = '\r' ∧ escChar c = ['\\', 'r']) ∨ (c = '\t' ∧ escChar c = ['\\', 't']) ∨
    (c ≠ '\\' ∧ c ≠ '"' ∧ c ≠ '\n' ∧ c ≠ '\r' ∧ c ≠ '\t' ∧ escChar c = [c]) := by
  unfold escChar
  by_cases h1 : c = '\\'
  · exact Or.inl ⟨h1, by simp [h1]⟩
  by_cases h2 : c = '"'
  · exact Or.inr (Or.inl ⟨h2, by simp [h2]⟩)
  by_cases h3 : c = '\n'
  · exact Or.inr (Or.inr (Or.inl ⟨h3, by simp [h3]⟩))
  by_cases h4 : c = '\r'
  · exact Or.inr (Or.inr (Or.inr (Or.inl ⟨h4, by simp [h4]⟩)))
  by_cases h5 : c = '\t'
  · exact Or.inr (Or.inr (Or.inr (Or.inr (Or.inl ⟨h5, by simp [h5]⟩))))
  · exact Or.inr (Or.inr (Or.inr (Or.inr (Or.inr ⟨h1, h2, h3, h4, h5, by simp [h1, h2, h3, h4, h5]⟩))))

theorem bs_not_strEnd {tb : Tables} (htb : tablesOK tb = true) : '\\' ∉ tb.strEnd := by
  intro hm
  rcases tablesOK_strEnd_sub htb hm with h1 | h1 | h1 <;> exact absurd h1 (by decide)

/-- reading an escape `\` `i` that the table maps to `d` -/
theorem readStrS_escape {tb : Tables} (htb : tablesOK tb = true) (i d : Char) (hl : tb.escapes.lookup i = some d)
    (rest acc : List Char) : readStrS tb ('\\' :: i :: rest) acc = readStrS tb rest (acc ++ [d]) := by
  have h1 : ('\\' : Char) ≠ '"' := by decide
  rw [readStrS_cons]
  simp [h1, bs_not_strEnd htb, hl]

/-- C15.3 on the reference scanner: the body of a literal written with the five escapes is read back as
    exactly the string it denotes (any string without NUL) -/
theorem readStrS_roundtrip {tb : Tables} (htb : tablesOK tb = true) : ∀ (s : List Char), (∀ c ∈ s, c ≠ EOF) →
    ∀ (R acc : List Char), readStrS tb (s.flatMap escChar ++ '"' :: R) acc = ((.string, acc ++ s), R)
  | [], _, R, acc => by simp [readStrS_cons]
  | c :: s, hs, R, acc => by
    have ih := readStrS_roundtrip htb s (fun x hx => hs x (List.mem_cons_of_mem _ hx)) R
    have hc := hs c (List.mem_cons_self ..)
    simp only [List.flatMap_cons, List.append_assoc]
    rcases escChar_cases c with ⟨h, he⟩ | ⟨h, he⟩ | ⟨h, he⟩ | ⟨h, he⟩ | ⟨h, he⟩ | ⟨h1, h2, h3, h4, h5, he⟩
    · rw [he, List.cons_append, List.cons_append, List.nil_append,
        readStrS_escape htb '\\' '\\' (tablesOK_escapes htb (by simp [specEscapes])), ih, h]; simp
    · rw [he, List.cons_append, List.cons_append, List.nil_append,
        readStrS_escape htb '"' '"' (tablesOK_escapes htb (by simp [specEscapes])), ih, h]; simp
    · rw [he, List.cons_append, List.cons_append, List.nil_append,
        readStrS_escape htb 'n' '\n' (tablesOK_escapes htb (by simp [specEscapes])), ih, h]; simp
    · rw [he, List.cons_append, List.cons_append, List.nil_append,
        readStrS_escape htb 'r' '\r' (tablesOK_escapes htb (by simp [specEscapes])), ih, h]; simp
    · rw [he, List.cons_append, List.cons_append, List.nil_append,
        readStrS_escape htb 't' '\t' (tablesOK_escapes htb (by simp [specEscapes])), ih, h]; simp
    · have hse : c ∉ tb.strEnd := by
        intro h
        rcases tablesOK_strEnd_sub htb h with h' | h' | h'
        · exact hc h'
        · exact h3 h'
        · exact h4 h'
      rw [he, List.cons_append, List.nil_append, readStrS_cons]
      simp [h2, hse, h1, ih]

/-! ### operators -/

theorem extends_of_member (cfg : Cfg) {w p : List Char} (hm : member cfg w = true) (hp : p <+: w) :
    extends_ cfg p = true := by
  unfold extends_
  unfold member at hm
  rw [List.any_eq_true]
  exact ⟨w, List.contains_iff_mem.mp hm, List.isPrefixOf_iff_prefix.mpr hp⟩

theorem opWalkS_member (cfg : Cfg) : ∀ (sp op R : List Char),
    member cfg (op ++ sp.map (alias cfg.tables)) = true →
    (match R with
      | [] => true
      | c :: _ => !extends_ cfg (op ++ sp.map (alias cfg.tables) ++ [alias cfg.tables c])) = true →
    opWalkS cfg op (sp ++ R) = ((op ++ sp.map (alias cfg.tables), true), R)
  | [], op, [], hm, _ => by
    simp only [List.map_nil, List.append_nil] at hm
    simp [opWalkS, hm]
  | [], op, c :: R, hm, hs => by
    simp only [List.map_nil, List.append_nil] at hm hs
    simp only [Bool.not_eq_true'] at hs
    simp [opWalkS, hs, hm]
  | c :: sp, op, R, hm, hs => by
    have hm' : member cfg ((op ++ [alias cfg.tables c]) ++ sp.map (alias cfg.tables)) = true := by
      simpa using hm
    have hx : extends_ cfg (op ++ [alias cfg.tables c]) = true :=
      extends_of_member cfg hm' (List.prefix_append _ _)
    have ih := opWalkS_member cfg sp (op ++ [alias cfg.tables c]) R hm' (by simpa using hs)
    simp only [List.cons_append, opWalkS, hx, ↓reduceIte, ih]
    simp

/-! ### one lexeme -/

theorem defaultStart_spec {cfg : Cfg} {n : Char} (h : defaultStart cfg n = true) :
    n ≠ '\n' ∧ ¬ (n = ' ' ∨ n = '\r' ∨ n = '\t') ∧ n ≠ EOF ∧ n ≠ '(' ∧ n ≠ '"' ∧ n ≠ '\'' ∧
    cfg.tables.emit.lookup n = none := by
  simp only [defaultStart, Bool.and_eq_true, bne_iff_ne, ne_eq, Option.isNone_iff_eq_none] at h
  obtain ⟨⟨⟨⟨⟨⟨⟨⟨h1, h2⟩, h3⟩, h4⟩, h5⟩, h6⟩, h7⟩, h8⟩, h9⟩ := h
  refine ⟨h1, ?_, h5, h6, h7, h8, h9⟩
  intro h
  rcases h with h | h | h
  · exact h2 h
  · exact h3 h
  · exact h4 h

theorem stepAt_default (cfg : Cfg) {n : Char} (h : defaultStart cfg n = true) (c0 : Char) (rest : List Char)
    (line : Nat) (rs : RunSt) : stepAt cfg n c0 rest line rs = stepDefault cfg n c0 rest line rs := by
  obtain ⟨h1, h2, h3, h4, h5, h6, h7⟩ := defaultStart_spec h
  simp [stepAt, h1, h2, h3, h4, h5, h6, h7]

theorem mem_struct_of_special {tb : Tables} {c : Char} (h : c ∈ handSpecial) :
    c ∈ handSpecial ++ tb.emit.map (·.1) ++ ['/', '*', '\\', '_', '.', 'e', '+', '-', '^'] := by
  simp [h]

theorem lookup_key_mem {α β} [BEq α] [LawfulBEq α] (l : List (α × β)) (a : α) (h : (l.lookup a).isSome = true) :
    a ∈ l.map (·.1) := by
  cases hl : l.lookup a with
  | none => simp [hl] at h
  | some b => exact List.mem_map.mpr ⟨(a, b), lookup_mem l a b hl, rfl⟩

/-- the scanner over one lexeme: it sends the lexeme's tokens and stands directly behind it -/
theorem step_lexeme (cfg : Cfg) (htb : tablesOK cfg.tables = true) (l : Lexeme) (hwf : l.wf cfg = true)
    (R : List Char) (hf : l.followOK cfg R = true) (line : Nat) (rs : RunSt) :
    step cfg (l.spell ++ R) line rs = .emit (lexToks cfg l rs line).1 R line (lexToks cfg l rs line).2 := by
  cases l with
  | sym c =>
    simp only [Lexeme.wf, Bool.and_eq_true, bne_iff_ne, ne_eq, Bool.or_eq_true, beq_iff_eq] at hwf
    obtain ⟨hns, hc⟩ := hwf
    simp only [Lexeme.spell, List.cons_append, List.nil_append, step, skipCode_ne cfg c R line hns]
    rcases hc with hc | hc
    · subst hc
      have ha : alias cfg.tables '(' = '(' := tablesOK_alias_struct htb (mem_struct_of_special (by simp [handSpecial]))
      have e1 : ('(' : Char) ≠ '\n' := by decide
      have e2 : ¬ (('(' : Char) = ' ' ∨ ('(' : Char) = '\r' ∨ ('(' : Char) = '\t') := by decide
      have e3 : ('(' : Char) ≠ EOF := by decide
      simp [ha, stepAt, e1, e2, e3, lexToks]
    · have ha : alias cfg.tables c = c := by
        apply tablesOK_alias_struct htb
        have := lookup_key_mem _ _ hc
        simp [this]
      cases hl : cfg.tables.emit.lookup c with
      | none => simp [hl] at hc
      | some v =>
        have hns := tablesOK_emit_notSpecial htb hl
        simp only [handSpecial, List.mem_cons, List.not_mem_nil, or_false, not_or] at hns
        obtain ⟨h1, h2, h3, h4, h5, h6, h7, h8⟩ := hns
        have hb : ¬ (c = ' ' ∨ c = '\r' ∨ c = '\t') := by
          intro h; rcases h with h | h | h
          · exact h2 h
          · exact h3 h
          · exact h4 h
        obtain ⟨toks, k⟩ := v
        simp [ha, stepAt, h1, hb, h5, h6, h7, h8, hl, lexToks]
  | str s =>
    simp only [Lexeme.wf, List.all_eq_true, bne_iff_ne, ne_eq] at hwf
    have ha : alias cfg.tables '"' = '"' := tablesOK_alias_struct htb (mem_struct_of_special (by simp [handSpecial]))
    have e0 : ('"' : Char) ≠ '/' := by decide
    have e1 : ('"' : Char) ≠ '\n' := by decide
    have e2 : ¬ (('"' : Char) = ' ' ∨ ('"' : Char) = '\r' ∨ ('"' : Char) = '\t') := by decide
    have e3 : ('"' : Char) ≠ EOF := by decide
    have e4 : ('"' : Char) ≠ '(' := by decide
    simp only [Lexeme.spell, List.cons_append, List.append_assoc, List.nil_append, step,
      skipCode_ne cfg '"' _ line e0, ha]
    simp [stepAt, e1, e2, e3, e4, readStrS_roundtrip htb s hwf R [], lexToks]
  | qident s =>
    simp only [Lexeme.wf, List.all_eq_true, Bool.and_eq_true, bne_iff_ne, ne_eq] at hwf
    have ha : alias cfg.tables '\'' = '\'' := tablesOK_alias_struct htb (mem_struct_of_special (by simp [handSpecial]))
    have e0 : ('\'' : Char) ≠ '/' := by decide
    have e1 : ('\'' : Char) ≠ '\n' := by decide
    have e2 : ¬ (('\'' : Char) = ' ' ∨ ('\'' : Char) = '\r' ∨ ('\'' : Char) = '\t') := by decide
    have e3 : ('\'' : Char) ≠ EOF := by decide
    have e4 : ('\'' : Char) ≠ '(' := by decide
    have e5 : ('\'' : Char) ≠ '"' := by decide
    have hch : chain (fun _ c => c != '\'') EOF (s.map id) = true := by
      clear hf
      generalize EOF = prev
      induction s generalizing prev with
      | nil => simp [chain]
      | cons c s ih =>
        have hc := hwf c (List.mem_cons_self ..)
        simp only [List.map_cons, id, chain, Bool.and_eq_true, bne_iff_ne, ne_eq]
        exact ⟨⟨hc.2, hc.1⟩, ih (fun x hx => hwf x (List.mem_cons_of_mem _ hx)) c⟩
    have hst : stops id (fun _ c => c != '\'') (lastOr EOF (s.map id)) ('\'' :: R) = true := by
      simp [stops]
    have hrw := readWhileS_chain id (fun _ c => c != '\'') s EOF ('\'' :: R) hch hst
    simp only [List.map_id] at hrw
    simp only [Lexeme.spell, List.cons_append, List.append_assoc, List.nil_append, step,
      skipCode_ne cfg '\'' _ line e0, ha]
    simp [stepAt, e1, e2, e3, e4, e5, hrw, lexToks]
  | number sp =>
    cases sp with
    | nil => simp [Lexeme.wf] at hwf
    | cons c0 sp' =>
      simp only [Lexeme.wf, Bool.and_eq_true, bne_iff_ne, ne_eq] at hwf
      obtain ⟨⟨⟨hns, hds⟩, hnum⟩, hch⟩ := hwf
      simp only [Lexeme.followOK] at hf
      have hrw := readWhileS_chain (alias cfg.tables) (numberNext cfg) (c0 :: sp') EOF R hch hf
      simp only [Lexeme.spell, List.cons_append, step, skipCode_ne cfg c0 _ line hns, stepAt_default cfg hds]
      simp only [List.cons_append] at hrw
      simp [stepDefault, hnum, hrw, lexToks, image]
  | word sp =>
    cases sp with
    | nil => simp [Lexeme.wf] at hwf
    | cons c0 sp' =>
      simp only [Lexeme.wf, Bool.and_eq_true, bne_iff_ne, ne_eq, Bool.not_eq_true'] at hwf
      obtain ⟨⟨⟨⟨hns, hds⟩, hnum⟩, hid⟩, hch⟩ := hwf
      simp only [Lexeme.followOK] at hf
      have hrw := readWhileS_chain (alias cfg.tables) (identNext cfg) (c0 :: sp') EOF R hch hf
      simp only [Lexeme.spell, List.cons_append, step, skipCode_ne cfg c0 _ line hns, stepAt_default cfg hds]
      simp only [List.cons_append] at hrw
      simp only [stepDefault, hnum, Bool.false_eq_true, ↓reduceIte, hid, hrw, lexToks, image, List.map_cons]
      cases cfg.textOps.lookup (alias cfg.tables c0 :: sp'.map (alias cfg.tables)) with
      | some o => rfl
      | none =>
        simp only
        split <;> rfl
  | op sp =>
    cases sp with
    | nil => simp [Lexeme.wf] at hwf
    | cons c0 sp' =>
      simp only [Lexeme.wf, Bool.and_eq_true, Bool.not_eq_true'] at hwf
      obtain ⟨⟨⟨hds, hnum⟩, hid⟩, hmem⟩ := hwf
      simp only [Lexeme.followOK, Bool.and_eq_true, Bool.or_eq_true, Bool.not_eq_true'] at hf
      obtain ⟨hstop, hcom⟩ := hf
      have hsk : skipCode cfg (c0 :: (sp' ++ R)) line = some (c0 :: (sp' ++ R), line) := by
        by_cases hc : c0 = '/'
        · subst hc
          unfold skipCode
          rcases hcom with hcom | hcom
          · simp [hcom]
          · by_cases hcm : cfg.comments = true
            · simp only [hcm, ↓reduceIte]
              cases hr : sp' ++ R with
              | nil => simp [skipC]
              | cons d r =>
                simp only [List.cons_append, hr, Bool.and_eq_true, bne_iff_ne, ne_eq] at hcom
                simp [skipC, hcom.1, hcom.2]
            · simp [hcm]
        · exact skipCode_ne cfg c0 _ line hc
      have hx : extends_ cfg [alias cfg.tables c0] = true := by
        apply extends_of_member cfg hmem
        simp [image]
      have hw := opWalkS_member cfg sp' [alias cfg.tables c0] R (by simpa [image] using hmem)
        (by simpa [image] using hstop)
      simp only [Lexeme.spell, List.cons_append, step, hsk, stepAt_default cfg hds]
      simp [stepDefault, hnum, hid, hx, hw, lexToks, image]

theorem run_lexeme (cfg : Cfg) (htb : tablesOK cfg.tables = true) (l : Lexeme) (hwf : l.wf cfg = true)
    (R : List Char) (hf : l.followOK cfg R = true) (line : Nat) (rs : RunSt) :
    run cfg (l.spell ++ R) line rs = (lexToks cfg l rs line).1 ++ run cfg R line (lexToks cfg l rs line).2 := by
  rw [run_unfold cfg htb, step_lexeme cfg htb l hwf R hf line rs]

/-! ### a whole source text: lexemes with the separators after them -/

/-- the end of the input after the last separator: nothing, or a `//` comment that is not terminated -/
inductive Tail where
  | none
  | lineComment (body : List Char)
  deriving Repr, DecidableEq

def Tail.text : Tail → List Char
  | .none => []
  | .lineComment b => '/' :: '/' :: b

def Tail.wf (comments : Bool) : Tail → Bool
  | .none => true
  | .lineComment b => comments && b.all (fun c => c != '\n' && c != '\r')

/-- lexemes, each with the separator written after it -/
abbrev Layout := List (Lexeme × Sep)

def joinSrc : Layout → List Char → List Char
  | [], tl => tl
  | (l, s) :: more, tl => l.spell ++ (s.text ++ joinSrc more tl)

/-- the source text: leading separator, lexemes and separators, end of input -/
def source (s0 : Sep) (ls : Layout) (tl : Tail) : List Char := s0.text ++ joinSrc ls tl.text

/-- every lexeme can be written, every separator is layout of the configuration, and every lexeme is
    followed by something that does not merge with it -/
def admissible (cfg : Cfg) : Layout → List Char → Bool
  | [], _ => true
  | (l, s) :: more, tl =>
    l.wf cfg && s.wf cfg.comments && l.followOK cfg (s.text ++ joinSrc more tl) && admissible cfg more tl

def blankUpd (rs : RunSt) (s : Sep) : RunSt := { rs with lastBlank := rs.lastBlank || s.hasBlank }

/-- the tokens, grouped by lexeme: a function of the lexemes, of the number of LF in each separator (lines)
    and of "separator contains a blank outside comments" (comfort mode) -/
def expectedG (cfg : Cfg) : Layout → Nat → RunSt → List (List Token)
  | [], _, _ => []
  | (l, s) :: more, line, rs =>
    (lexToks cfg l rs line).1 :: expectedG cfg more (line + s.lfs) (blankUpd (lexToks cfg l rs line).2 s)

def expected (cfg : Cfg) (ls : Layout) (line : Nat) (rs : RunSt) : List Token := (expectedG cfg ls line rs).flatten

theorem run_tail (cfg : Cfg) (htb : tablesOK cfg.tables = true) (tl : Tail) (hwf : tl.wf cfg.comments = true)
    (line : Nat) (rs : RunSt) : run cfg tl.text line rs = [] := by
  cases tl with
  | none => exact run_nil cfg htb line rs
  | lineComment b =>
    simp only [Tail.wf, Bool.and_eq_true] at hwf
    exact run_lineComment_eof cfg htb hwf.1 b hwf.2 line rs

theorem run_layout (cfg : Cfg) (htb : tablesOK cfg.tables = true) (tl : Tail) (htl : tl.wf cfg.comments = true) :
    ∀ (ls : Layout), admissible cfg ls tl.text = true → ∀ (line : Nat) (rs : RunSt),
    run cfg (joinSrc ls tl.text) line rs = expected cfg ls line rs
  | [], _, line, rs => by simp [joinSrc, expected, expectedG, run_tail cfg htb tl htl]
  | (l, s) :: more, hadm, line, rs => by
    simp only [admissible, Bool.and_eq_true] at hadm
    obtain ⟨⟨⟨hwf, hs⟩, hf⟩, hmore⟩ := hadm
    have ih := run_layout cfg htb tl htl more hmore
    simp only [joinSrc, expected, expectedG, List.flatten_cons]
    rw [run_lexeme cfg htb l hwf _ hf, run_sep cfg htb s hs, ih]
    rfl

/-- the reference scanner over a whole source text -/
theorem spec_tokenize_layout (cfg : Cfg) (htb : tablesOK cfg.tables = true) (s0 : Sep) (ls : Layout) (tl : Tail)
    (hs0 : s0.wf cfg.comments = true) (htl : tl.wf cfg.comments = true) (hadm : admissible cfg ls tl.text = true) :
    Spec.tokenize cfg (source s0 ls tl) = expected cfg ls (1 + s0.lfs) (blankUpd initRun s0) := by
  unfold Spec.tokenize source
  rw [run_sep cfg htb s0 hs0, run_layout cfg htb tl htl ls hadm]
  rfl

/-! ### what the tokens depend on -/

/-- a token without its line -/
def strip (t : Token) : Kind × List Char := (t.kind, t.image)

theorem lexToks_line (cfg : Cfg) (l : Lexeme) (rs : RunSt) (line : Nat) : ∀ t ∈ (lexToks cfg l rs line).1, t.line = line := by
  intro t ht
  cases l with
  | sym c =>
    simp only [lexToks] at ht
    split at ht
    · simp only [openStar, List.mem_append, List.mem_singleton] at ht
      rcases ht with ht | ht
      · split at ht
        · simp [starTok] at ht; rw [ht]
        · simp at ht
      · rw [ht]
    · split at ht
      · simp only [List.mem_map] at ht
        obtain ⟨p, _, rfl⟩ := ht
        rfl
      · simp at ht
  | str s => simp [lexToks] at ht; rw [ht]
  | qident s => simp [lexToks] at ht; rw [ht]
  | number sp =>
    simp only [lexToks, juxtaStar, List.mem_append, List.mem_singleton] at ht
    rcases ht with ht | ht
    · split at ht
      · simp [starTok] at ht; rw [ht]
      · simp at ht
    · rw [ht]
  | word sp =>
    simp only [lexToks] at ht
    split at ht
    · simp at ht; rw [ht]
    · split at ht
      · simp at ht; rw [ht]
      · simp only [juxtaStar, List.mem_append, List.mem_singleton] at ht
        rcases ht with ht | ht
        · split at ht
          · simp [starTok] at ht; rw [ht]
          · simp at ht
        · rw [ht]
  | op sp => simp [lexToks] at ht; rw [ht]

theorem juxtaStar_strip_congr {rs rs' : RunSt} (line line' : Nat) (ht : rs.lastType = rs'.lastType) :
    (juxtaStar rs line).map strip = (juxtaStar rs' line').map strip := by
  unfold juxtaStar juxta
  rw [ht]
  by_cases h : (rs'.lastType == Kind.number || rs'.lastType == Kind.ident || rs'.lastType == Kind.close) = true
  · simp [h, strip, starTok]
  · simp [h]

theorem openStar_strip_congr {rs rs' : RunSt} (line line' : Nat) (ht : rs.lastType = rs'.lastType)
    (hb : rs.lastType = .ident → rs.lastBlank = rs'.lastBlank) :
    (openStar rs line).map strip = (openStar rs' line').map strip := by
  unfold openStar
  by_cases hi : rs.lastType = .ident
  · rw [← ht, ← hb hi]
    by_cases h : rs.lastType = Kind.number ∨ rs.lastType = Kind.close ∨ rs.lastType = Kind.ident ∧ rs.lastBlank = true
    · simp [h, strip, starTok]
    · simp [h]
  · have hi' : ¬ rs'.lastType = .ident := by rw [← ht]; exact hi
    simp only [hi, hi', false_and, or_false]
    rw [← ht]
    by_cases h : rs.lastType = Kind.number ∨ rs.lastType = Kind.close
    · simp [h, strip, starTok]
    · simp [h]

/-- the (kind, image) part of a lexeme's tokens and the bookkeeping after it depend on the scanner state
    only through `lastTokenType` and — before `(` after an identifier — `lastWasBlank` -/
theorem lexToks_strip_congr (cfg : Cfg) (l : Lexeme) (rs rs' : RunSt) (line line' : Nat)
    (ht : rs.lastType = rs'.lastType)
    (hb : rs.lastType = .ident → l = .sym '(' → rs.lastBlank = rs'.lastBlank) :
    (lexToks cfg l rs line).1.map strip = (lexToks cfg l rs' line').1.map strip ∧
    (lexToks cfg l rs line).2 = (lexToks cfg l rs' line').2 := by
  cases l with
  | sym c =>
    simp only [lexToks]
    split
    · rename_i hc
      refine ⟨?_, rfl⟩
      simp only [List.map_append, List.map_cons, List.map_nil]
      rw [openStar_strip_congr line line' ht (fun hi => hb hi (by rw [hc]))]
      rfl
    · split
      · exact ⟨by simp [strip, List.map_map, Function.comp_def], rfl⟩
      · exact ⟨rfl, rfl⟩
  | str s => exact ⟨by simp [lexToks, strip], rfl⟩
  | qident s => exact ⟨by simp [lexToks, strip], rfl⟩
  | number sp =>
    refine ⟨?_, rfl⟩
    simp only [lexToks, List.map_append, List.map_cons, List.map_nil]
    rw [juxtaStar_strip_congr line line' ht]
    rfl
  | word sp =>
    simp only [lexToks]
    split
    · exact ⟨by simp [strip], rfl⟩
    · split
      · exact ⟨by simp [strip], rfl⟩
      · refine ⟨?_, rfl⟩
        simp only [List.map_append, List.map_cons, List.map_nil]
        rw [juxtaStar_strip_congr line line' ht]
        rfl
  | op sp => exact ⟨by simp [lexToks, strip], rfl⟩

/-- two layouts of the same lexemes agree on "blank (outside comments) before `(`" -/
def blankAgree : Layout → Layout → Bool
  | (_, s) :: (l2, s2) :: more, (_, s') :: (l2', s2') :: more' =>
    ((l2 != Lexeme.sym '(') || s.hasBlank == s'.hasBlank) && blankAgree ((l2, s2) :: more) ((l2', s2') :: more')
  | _, _ => true

theorem blankAgree_refl : ∀ (ls : Layout), blankAgree ls ls = true
  | [] => by simp [blankAgree]
  | [_] => by simp [blankAgree]
  | (l, s) :: (l2, s2) :: more => by
    simp only [blankAgree, beq_self_eq_true, Bool.or_true, Bool.true_and]
    exact blankAgree_refl ((l2, s2) :: more)

theorem lexToks_snd_indep (cfg : Cfg) (l : Lexeme) (rs rs' : RunSt) (line line' : Nat) :
    (lexToks cfg l rs line).2 = (lexToks cfg l rs' line').2 := by
  cases l with
  | sym c => simp only [lexToks]; split; · rfl
             split <;> rfl
  | str s => rfl
  | qident s => rfl
  | number sp => rfl
  | word sp =>
    simp only [lexToks]
    split
    · rfl
    · split <;> rfl
  | op sp => rfl

theorem lexToks_noComfort (cfg : Cfg) (hc : cfg.comfort = false) (l : Lexeme) (rs : RunSt) (line : Nat) :
    (lexToks cfg l rs line).2.lastType = .invalid := by
  cases l with
  | sym c =>
    simp only [lexToks]
    split
    · rfl
    · split
      · simp [comfortType, hc]
      · rfl
  | str s => rfl
  | qident s => rfl
  | number sp => simp [lexToks, comfortType, hc]
  | word sp =>
    simp only [lexToks]
    split
    · rfl
    · split
      · rfl
      · simp [comfortType, hc]
  | op sp => rfl

/-- C15.1, core: the (kind, image) stream of a source text is a function of its lexemes and — in comfort
    mode — of the presence of a blank before each `(` -/
theorem expected_strip_congr (cfg : Cfg) : ∀ (ls ls' : Layout) (line line' : Nat) (rs rs' : RunSt),
    ls.map (·.1) = ls'.map (·.1) → (cfg.comfort = true → blankAgree ls ls' = true) →
    rs.lastType = rs'.lastType →
    (rs.lastType = .ident → (ls.map (·.1)).head? = some (.sym '(') → rs.lastBlank = rs'.lastBlank) →
    (expected cfg ls line rs).map strip = (expected cfg ls' line' rs').map strip
  | [], [], _, _, _, _, _, _, _, _ => by simp [expected, expectedG]
  | [], _ :: _, _, _, _, _, h, _, _, _ => by simp at h
  | _ :: _, [], _, _, _, _, h, _, _, _ => by simp at h
  | (l, s) :: more, (l', s') :: more', line, line', rs, rs', hlex, hba, ht, hb => by
    simp only [List.map_cons, List.cons.injEq] at hlex
    obtain ⟨rfl, hlex'⟩ := hlex
    obtain ⟨h1, h2⟩ := lexToks_strip_congr cfg l rs rs' line line' ht
      (fun hi hl => hb hi (by simp [hl]))
    simp only [expected, expectedG, List.flatten_cons, List.map_append]
    rw [h1, h2]
    congr 1
    apply expected_strip_congr cfg more more' _ _ _ _ hlex'
    · intro hc
      have := hba hc
      cases more with
      | nil => cases more' <;> simp [blankAgree]
      | cons p more2 =>
        cases more' with
        | nil => simp at hlex'
        | cons p' more2' =>
          obtain ⟨l2, s2⟩ := p
          obtain ⟨l2', s2'⟩ := p'
          simp only [blankAgree, Bool.and_eq_true] at this
          exact this.2
    · rfl
    · intro hi hhead
      simp only [blankUpd]
      by_cases hc : cfg.comfort = true
      · have := hba hc
        cases more with
        | nil => simp at hhead
        | cons p more2 =>
          cases more' with
          | nil => simp at hlex'
          | cons p' more2' =>
            obtain ⟨l2, s2⟩ := p
            obtain ⟨l2', s2'⟩ := p'
            simp only [List.map_cons, List.head?_cons, Option.some.injEq] at hhead
            simp only [blankAgree, Bool.and_eq_true, Bool.or_eq_true, bne_iff_ne, ne_eq, beq_iff_eq] at this
            rcases this.1 with h | h
            · exact absurd hhead h
            · rw [h]
      · have hc' : cfg.comfort = false := by simpa using hc
        have := lexToks_noComfort cfg hc' l rs' line'
        simp only [blankUpd] at hi
        rw [this] at hi
        exact absurd hi (by decide)

/-- line and bookkeeping after a layout -/
def endSt (cfg : Cfg) : Layout → Nat → RunSt → Nat × RunSt
  | [], line, rs => (line, rs)
  | (l, s) :: more, line, rs => endSt cfg more (line + s.lfs) (blankUpd (lexToks cfg l rs line).2 s)

theorem expected_append (cfg : Cfg) : ∀ (a b : Layout) (line : Nat) (rs : RunSt),
    expected cfg (a ++ b) line rs = expected cfg a line rs ++ expected cfg b (endSt cfg a line rs).1 (endSt cfg a line rs).2
  | [], b, line, rs => by simp [expected, expectedG, endSt]
  | (l, s) :: more, b, line, rs => by
    have ih := expected_append cfg more b (line + s.lfs) (blankUpd (lexToks cfg l rs line).2 s)
    simp only [expected] at ih
    simp only [List.cons_append, expected, expectedG, List.flatten_cons, endSt, ih, List.append_assoc]

end P2.C15
