import P2.Proofs.XmlWriter
/-! The token-level writer on the call sequence of a forest: every forest that satisfies `nodesOK` follows
the protocol, and the tokens are exactly `layNodes` (C18: the exporters' call sequences satisfy the
premises of `writer_faithful`; what the decoder reads is the forest with its exact strings). -/
namespace P2.Xml

variable {pp av : Bool}

theorem run_append (s : TS) (a b : List Call) :
    TS.run pp av s (a ++ b) =
      match TS.run pp av s a with
      | none => none
      | some (s1, o1) =>
        match TS.run pp av s1 b with
        | none => none
        | some (s2, o2) => some (s2, o1 ++ o2) := by
  induction a generalizing s with
  | nil =>
    simp only [List.nil_append, TS.run]
    cases TS.run pp av s b with
    | none => rfl
    | some r => obtain ⟨s2, o2⟩ := r; simp
  | cons c cs ih =>
    simp only [List.cons_append, TS.run]
    cases TS.step pp av s c with
    | none => rfl
    | some r =>
      obtain ⟨s1, o1⟩ := r
      simp only
      rw [ih]
      cases TS.run pp av s1 cs with
      | none => rfl
      | some r2 =>
        obtain ⟨s2, o2⟩ := r2
        simp only
        cases TS.run pp av s2 b with
        | none => rfl
        | some r3 => obtain ⟨s3, o3⟩ := r3; simp [List.append_assoc]

theorem run_cons_some {s s1 : TS} {c : Call} {cs : List Call} {o1 : List Tok}
    (h : TS.step pp av s c = some (s1, o1)) :
    TS.run pp av s (c :: cs) =
      match TS.run pp av s1 cs with
      | none => none
      | some (s2, o2) => some (s2, o1 ++ o2) := by
  simp only [TS.run, h]
  cases TS.run pp av s1 cs with
  | none => rfl
  | some r => obtain ⟨a, b⟩ := r; rfl

/-- the start tag that a pending `Open` contributes when the next call completes it -/
def flushToks (st : List (List Char)) (p : Option Attrs) : List Tok :=
  match p, st with
  | some as, n :: _ => [.start n as]
  | _, _ => []

def CInv (st : List (List Char)) (p : Option Attrs) (il : Bool) : Prop :=
  p.isSome = true → il = true ∧ st ≠ []

theorem cinv_none (st : List (List Char)) (il : Bool) : CInv st none il := by simp [CInv]

theorem opn_eval (st : List (List Char)) (p : Option Attrs) (d : Int) (il : Bool) (n : List Char)
    (hn : isXmlName n = true) (hc : CInv st p il) :
    TS.step pp av ⟨st, p, d, il⟩ (.opn n) =
      some (⟨n :: st, some [], d + 1, true⟩, flushToks st p ++ ((if il then nlT pp else []) ++ indT pp (d + 1))) := by
  cases p with
  | none => cases il <;> simp [TS.step, TS.opn, TS.flush, TS.newLine, TS.indent, flushToks, hn]
  | some as =>
    obtain ⟨h1, h2⟩ := hc rfl
    subst h1
    obtain ⟨n0, st0, rfl⟩ := exists_cons h2
    simp [TS.step, TS.opn, TS.flush, TS.newLine, TS.indent, flushToks, hn]

theorem wr_eval (st : List (List Char)) (p : Option Attrs) (d : Int) (il : Bool) (s : List Char)
    (hs : s.all isXmlChar = true) (hc : CInv st p il) :
    TS.step pp av ⟨st, p, d, il⟩ (.wr s) =
      some (⟨st, none, d, true⟩, flushToks st p ++ ((if il then [] else indT pp d) ++ chrs s)) := by
  cases p with
  | none => cases il <;> simp [TS.step, TS.wr, TS.flush, TS.indent, flushToks, hs]
  | some as =>
    obtain ⟨h1, h2⟩ := hc rfl
    subst h1
    obtain ⟨n0, st0, rfl⟩ := exists_cons h2
    simp [TS.step, TS.wr, TS.flush, TS.indent, flushToks, hs]

theorem cls_eval_pend (st : List (List Char)) (n : List Char) (as : Attrs) (d : Int) :
    TS.step pp av ⟨n :: st, some as, d, true⟩ .cls =
      some (⟨st, none, d - 1, false⟩, .start n as :: .stop n :: nlT pp) := by
  cases av <;> simp [TS.step, TS.clsLong, TS.clsShort, TS.flush, TS.newLine, TS.indent]

theorem cls_eval_none (st : List (List Char)) (n : List Char) (d : Int) (il : Bool) :
    TS.step pp av ⟨n :: st, none, d, il⟩ .cls =
      some (⟨st, none, d - 1, false⟩, (if il then [] else indT pp d) ++ (.stop n :: nlT pp)) := by
  cases il <;> simp [TS.step, TS.clsLong, TS.flush, TS.newLine, TS.indent]

theorem noDupKeys_mid (a : Attrs) (k v : List Char) (b : Attrs) (h : noDupKeys (a ++ (k, v) :: b) = true) :
    a.any (fun kv => kv.1 == k) = false := by
  induction a with
  | nil => simp
  | cons x xs ih =>
    obtain ⟨k', v'⟩ := x
    simp only [List.cons_append, noDupKeys, Bool.and_eq_true, Bool.not_eq_true', List.any_append,
      List.any_cons, Bool.or_eq_false_iff] at h
    simp only [List.any_cons, Bool.or_eq_false_iff]
    refine ⟨?_, ih h.2⟩
    have := h.1.2.1
    simp only [beq_eq_false_iff_ne, ne_eq] at this ⊢
    exact fun e => this e.symm

/-- the `Attr` calls of an element extend the pending attribute list -/
theorem run_attrs (st : List (List Char)) (d : Int) (il : Bool) (rest : List Call) :
    ∀ (as as0 : Attrs), as.all (fun kv => isXmlName kv.1 && kv.2.all isXmlChar) = true →
      noDupKeys (as0 ++ as) = true →
      TS.run pp av ⟨st, some as0, d, il⟩ (attrCalls as ++ rest) = TS.run pp av ⟨st, some (as0 ++ as), d, il⟩ rest
  | [], as0, _, _ => by simp [attrCalls]
  | (k, v) :: as, as0, hall, hnd => by
    simp only [List.all_cons, Bool.and_eq_true] at hall
    have hk := noDupKeys_mid as0 k v as hnd
    have hstep : TS.step pp av ⟨st, some as0, d, il⟩ (.attr k v) = some (⟨st, some (as0 ++ [(k, v)]), d, il⟩, []) := by
      simp [TS.step, hall.1.1, hall.1.2, hk]
    simp only [attrCalls, List.cons_append]
    rw [run_cons_some hstep]
    have ih := run_attrs st d il rest as (as0 ++ [(k, v)]) hall.2 (by simpa [List.append_assoc] using hnd)
    rw [ih]
    simp only [List.append_assoc, List.singleton_append, List.nil_append]
    cases TS.run pp av ⟨st, some (as0 ++ (k, v) :: as), d, il⟩ rest with
    | none => rfl
    | some r => obtain ⟨s2, o2⟩ := r; rfl

mutual
/-- the calls of one node, from any state that satisfies the invariant -/
theorem run_node : ∀ (k : Node) (st : List (List Char)) (p : Option Attrs) (d : Int) (il : Bool),
    nodeOK k = true → CInv st p il →
    TS.run pp av ⟨st, p, d, il⟩ (flatten k) =
      some (⟨st, none, d, (layNode pp d il k).2⟩, flushToks st p ++ (layNode pp d il k).1)
  | .text s, st, p, d, il, hk, hc => by
    simp only [nodeOK] at hk
    simp only [flatten, layNode]
    rw [run_cons_some (wr_eval st p d il s hk hc)]
    simp [TS.run]
  | .elem n as kids, st, p, d, il, hk, hc => by
    simp only [nodeOK, attrsOK, Bool.and_eq_true] at hk
    obtain ⟨⟨hn, has, hnd⟩, hkids⟩ := hk
    simp only [flatten, layNode]
    rw [run_cons_some (opn_eval st p d il n hn hc)]
    rw [run_attrs (n :: st) (d + 1) true _ as [] has (by simpa using hnd)]
    simp only [List.nil_append]
    rw [run_append]
    have hkr := run_nodes kids (n :: st) (some as) (d + 1) true hkids (by intro _; exact ⟨rfl, by simp⟩)
    rw [hkr]
    cases kids with
    | nil =>
      simp only [if_true, layNodes]
      rw [run_cons_some (cls_eval_pend st n as (d + 1))]
      simp only [TS.run]
      have : d + 1 - 1 = d := by omega
      simp [this]
    | cons k ks =>
      simp only [reduceCtorEq, if_false]
      rw [run_cons_some (cls_eval_none st n (d + 1) _)]
      simp only [TS.run]
      have : d + 1 - 1 = d := by omega
      simp [this, flushToks, List.append_assoc]
/-- the calls of a forest -/
theorem run_nodes : ∀ (ks : List Node) (st : List (List Char)) (p : Option Attrs) (d : Int) (il : Bool),
    nodesOK ks = true → CInv st p il →
    TS.run pp av ⟨st, p, d, il⟩ (flattenL ks) =
      some (if ks = [] then (⟨st, p, d, il⟩, [])
            else (⟨st, none, d, (layNodes pp d il ks).2⟩, flushToks st p ++ (layNodes pp d il ks).1))
  | [], st, p, d, il, _, _ => by simp [flattenL, TS.run]
  | k :: ks, st, p, d, il, hk, hc => by
    simp only [nodesOK, Bool.and_eq_true] at hk
    simp only [flattenL, reduceCtorEq, if_false, layNodes]
    rw [run_append, run_node k st p d il hk.1 hc]
    simp only
    rw [run_nodes ks st none d _ hk.2 (cinv_none _ _)]
    cases ks with
    | nil => simp [layNodes]
    | cons k2 ks2 => simp [flushToks, List.append_assoc]
end

/-- a whole forest written by a fresh token-level writer -/
theorem run_forest (ns : List Node) (h : nodesOK ns = true) :
    ∃ il, TS.run pp av TS.init (flattenL ns) = some (⟨[], none, -1, il⟩, layout pp ns) := by
  have := run_nodes (pp := pp) (av := av) ns [] none (-1) false h (cinv_none _ _)
  cases ns with
  | nil => exact ⟨false, by simp [flattenL, TS.run, TS.init, layout, layNodes]⟩
  | cons k ks =>
    simp only [reduceCtorEq, if_false, flushToks, List.nil_append] at this
    exact ⟨_, this⟩

/-! ### skeleton -/

theorem skeleton_append (a b : List Tok) : skeleton (a ++ b) = skeleton a ++ skeleton b := by
  induction a with
  | nil => simp [skeleton]
  | cons t ts ih => cases t <;> simp [skeleton, ih]

theorem skeleton_chrs (s : List Char) : skeleton (chrs s) = [] := by
  induction s with
  | nil => simp [chrs, skeleton]
  | cons c cs ih => simpa [chrs, skeleton] using ih

theorem skeleton_indT (pp : Bool) (d : Int) : skeleton (indT pp d) = [] := by
  unfold indT; split
  · exact skeleton_chrs _
  · simp [skeleton]

theorem skeleton_nlT (pp : Bool) : skeleton (nlT pp) = [] := by
  unfold nlT; split <;> simp [skeleton]

mutual
/-- text and attribute values never reach the element/attribute skeleton of the decoded output -/
theorem skeleton_layNode (pp : Bool) : ∀ (k : Node) (d : Int) (il : Bool),
    skeleton (layNode pp d il k).1 = skelNode k
  | .text s, d, il => by
    simp only [layNode, skelNode, skeleton_append, skeleton_chrs]
    split <;> simp [skeleton, skeleton_indT]
  | .elem n as kids, d, il => by
    simp only [layNode, skelNode, skeleton_append, skeleton, skeleton_indT, skeleton_nlT,
      skeleton_layNodes pp kids (d + 1) true]
    have e1 : skeleton (if il = true then nlT pp else []) = [] := by split <;> simp [skeleton, skeleton_nlT]
    have e2 : skeleton (if (layNodes pp (d + 1) true kids).2 = true then [] else indT pp (d + 1)) = [] := by
      split <;> simp [skeleton, skeleton_indT]
    simp [e1, e2]
theorem skeleton_layNodes (pp : Bool) : ∀ (ks : List Node) (d : Int) (il : Bool),
    skeleton (layNodes pp d il ks).1 = skelNodes ks
  | [], d, il => by simp [layNodes, skelNodes, skeleton]
  | k :: ks, d, il => by
    simp only [layNodes, skelNodes, skeleton_append, skeleton_layNode pp k d il, skeleton_layNodes pp ks d _]
end

end P2.Xml
