import P2.Proofs.IterRun
import P2.Proofs.IterStages
/-! When the terminal consumers decide, demand of a whole chain, size independence of generator sources. -/
namespace P2.Iter
variable {α τ : Type}

/-! ### terminals, driven directly -/

def itemRes : Item α → Res (Out α)
  | .ok v => .ok (.val v)
  | .err => .err

/-- `first` decides on the first item that reaches it, whatever it is -/
theorem first_decides (x : Item α) (xs : List (Item α)) (l : Log α) (p : Nat) :
    drive feedTerm (x :: xs) ⟨[], .first, l, p⟩ = (⟨[], .done (itemRes x), l, p + 1⟩, .stop) := by
  cases x <;> simp [drive_cons, feed, feedTerm, St.apply, itemRes]

/-- `single` decides on the second value (it has to see that there is more than one) -/
theorem single_decides (a b : α) (xs : List (Item α)) (l : Log α) (p : Nat) :
    drive feedTerm (.ok a :: .ok b :: xs) ⟨[], .single none, l, p⟩ = (⟨[], .done .err, l, p + 2⟩, .stop) := by
  simp [drive_cons, feed, feedTerm, St.apply]

/-- calls of the predicate closure `id` on `pre`, newest first -/
def callsOn (id : Nat) (pre : List α) : Log α := pre.reverse.map fun v => (id, [v])

theorem callsOn_cons (id : Nat) (v : α) (pre : List α) (l : Log α) :
    callsOn id (v :: pre) ++ l = callsOn id pre ++ ((id, [v]) :: l) := by
  simp [callsOn]

/-- `present` decides at the first value satisfying the predicate: exactly the values up to it are tested -/
theorem present_decides (id : Nat) (q : α → Res Bool) (pre : List α) (v : α) (rest : List (Item α))
    (hpre : ∀ u ∈ pre, q u = .ok false) (hv : q v = .ok true) (l : Log α) (p : Nat) :
    drive feedTerm (pre.map .ok ++ .ok v :: rest) ⟨[], .present id q, l, p⟩ =
      (⟨[], .done (.ok (.bool true)), (id, [v]) :: callsOn id pre ++ l, p + pre.length + 1⟩, .stop) := by
  induction pre generalizing l p with
  | nil => simp [drive_cons, feed, feedTerm, decide?, hv, St.apply, callsOn]
  | cons u pre ih =>
    have hu : q u = .ok false := hpre u (by simp)
    simp only [List.map_cons, List.cons_append, drive_cons, feed, feedTerm, decide?, hu, if_true, St.apply]
    rw [ih (fun w hw => hpre w (by simp [hw]))]
    simp only [List.length_cons, List.cons_append, List.nil_append]
    rw [callsOn_cons]
    have e2 : p + 1 + pre.length + 1 = p + (pre.length + 1) + 1 := by omega
    rw [e2]

/-- `indexWhere` decides at the first value satisfying the predicate and returns its index -/
theorem indexWhere_decides (id : Nat) (q : α → Res Bool) (pre : List α) (v : α) (rest : List (Item α))
    (hpre : ∀ u ∈ pre, q u = .ok false) (hv : q v = .ok true) (i : Nat) (l : Log α) (p : Nat) :
    drive feedTerm (pre.map .ok ++ .ok v :: rest) ⟨[], .indexWhere id q i, l, p⟩ =
      (⟨[], .done (.ok (.int ((i + pre.length : Nat) : Int))), (id, [v]) :: callsOn id pre ++ l, p + pre.length + 1⟩, .stop) := by
  induction pre generalizing l p i with
  | nil => simp [drive_cons, feed, feedTerm, decide?, hv, St.apply, callsOn]
  | cons u pre ih =>
    have hu : q u = .ok false := hpre u (by simp)
    simp only [List.map_cons, List.cons_append, drive_cons, feed, feedTerm, decide?, hu, if_true, St.apply]
    rw [ih (fun w hw => hpre w (by simp [hw]))]
    simp only [List.length_cons, List.cons_append, List.nil_append]
    rw [callsOn_cons]
    have e1 : i + 1 + pre.length = i + (pre.length + 1) := by omega
    have e2 : p + 1 + pre.length + 1 = p + (pre.length + 1) + 1 := by omega
    rw [e1, e2]

/-- `x ~ list` decides at the first equal value; no closure is involved -/
theorem contains_decides (eq : α → Res Bool) (pre : List α) (v : α) (rest : List (Item α))
    (hpre : ∀ u ∈ pre, eq u = .ok false) (hv : eq v = .ok true) (l : Log α) (p : Nat) :
    drive feedTerm (pre.map .ok ++ .ok v :: rest) ⟨[], .contains eq, l, p⟩ =
      (⟨[], .done (.ok (.bool true)), l, p + pre.length + 1⟩, .stop) := by
  induction pre generalizing p with
  | nil => simp [drive_cons, feed, feedTerm, decide?, hv, St.apply]
  | cons u pre ih =>
    have hu : eq u = .ok false := hpre u (by simp)
    simp only [List.map_cons, List.cons_append, drive_cons, feed, feedTerm, decide?, hu, if_true, St.apply,
      List.nil_append]
    rw [ih (fun w hw => hpre w (by simp [hw]))]
    simp only [List.length_cons]
    have e2 : p + 1 + pre.length + 1 = p + (pre.length + 1) + 1 := by omega
    rw [e2]

/-- `Eval`/`size`/`ToSlice` never decide early on values: they stop at the first error item only -/
theorem collect_drive (xs : List (Item α)) (acc : List α) (l : Log α) (p : Nat) :
    (drive feedTerm xs ⟨[], .collect acc, l, p⟩).1.sink.finish =
      (bif (cutErr xs).2 then .err else .ok (.list (acc.reverse ++ (cutErr xs).1))) ∧
    (drive feedTerm xs ⟨[], .collect acc, l, p⟩).1.log = l ∧
    ((cutErr xs).2 = false → (drive feedTerm xs ⟨[], .collect acc, l, p⟩).2 = .more) := by
  induction xs generalizing acc l p with
  | nil => simp [cutErr, Term.finish]
  | cons x xs ih =>
    cases x with
    | err => simp [drive_cons, feed, feedTerm, St.apply, cutErr, Term.finish]
    | ok v =>
      have hc : cutErr (Item.ok v :: xs) = (v :: (cutErr xs).1, (cutErr xs).2) := rfl
      rw [hc]
      simp only [drive_cons, feed, feedTerm, if_true, St.apply, List.nil_append]
      obtain ⟨h1, h2, h3⟩ := ih (v :: acc) l (p + 1)
      refine ⟨?_, h2, h3⟩
      rw [h1]; simp

/-! ### demand of a whole chain -/

/-- what the terminal consumer sees below a list of frames -/
def transChain : List (Frame α) → List (Item α) → List (Item α)
  | [], xs => xs
  | fr :: fs, xs => transChain fs (fr.trans xs)

/-- source elements needed so that the terminal consumer receives `m` items: the stage demands composed -/
def needChain : List (Frame α) → List (Item α) → Nat → Nat
  | [], _, m => m
  | fr :: fs, xs, m => fr.need xs (needChain fs (fr.trans xs) m)

/-- **Demand along a pipeline.** If the terminal consumer, driven directly by what reaches it, stops
after `m` items, then the whole chain stops with the same answer and the same consumer state, after
pulling exactly `needChain fs xs m` source elements. -/
theorem chain_demand (ft : FeedT α τ) (fs : List (Frame α)) (xs : List (Item α)) (t : τ)
    (l l₂ : Log α) (p p₂ : Nat)
    (h : (drive ft (transChain fs xs) ⟨[], t, l₂, p₂⟩).2 ≠ .more) :
    (drive ft xs ⟨fs, t, l, p⟩).2 = (drive ft (transChain fs xs) ⟨[], t, l₂, p₂⟩).2 ∧
    (drive ft xs ⟨fs, t, l, p⟩).1.pulled =
      p + needChain fs xs ((drive ft (transChain fs xs) ⟨[], t, l₂, p₂⟩).1.pulled - p₂) ∧
    (drive ft xs ⟨fs, t, l, p⟩).1.sink = (drive ft (transChain fs xs) ⟨[], t, l₂, p₂⟩).1.sink := by
  induction fs generalizing xs l p with
  | nil =>
    obtain ⟨c1, _, c3⟩ := drive_congr ft xs [] t l l₂ p p₂
    simp only [transChain, needChain] at h ⊢
    refine ⟨c3, ?_, c1⟩
    -- pulled: both runs pull the same number of elements
    have key : ∀ (ys : List (Item α)) (s s' : St α τ), s.frames = s'.frames → s.sink = s'.sink →
        (drive ft ys s).1.pulled + s'.pulled = (drive ft ys s').1.pulled + s.pulled := by
      intro ys
      induction ys with
      | nil => intro s s' _ _; simp; omega
      | cons y ys ihy =>
        intro s s' hf hs
        simp only [drive_cons, hf, hs]
        split
        · have := ihy (s.apply (feed ft s'.frames s'.sink y)) (s'.apply (feed ft s'.frames s'.sink y)) rfl rfl
          simp only [St.apply] at this ⊢; omega
        · simp only [St.apply]; omega
    have := key xs ⟨[], t, l, p⟩ ⟨[], t, l₂, p₂⟩ rfl rfl
    have hge := drive_pulled_ge ft xs ⟨[], t, l₂, p₂⟩
    simp only at this hge ⊢; omega
  | cons fr fs ih =>
    simp only [transChain, needChain] at h ⊢
    obtain ⟨i1, i2, i3⟩ := ih (fr.trans xs) l₂ p₂ h
    have hstop : (drive ft (fr.trans xs) ⟨fs, t, l₂, p₂⟩).2 ≠ .more := by rw [i1]; exact h
    obtain ⟨s1, s2⟩ := drive_frame_stop ft xs fr fs t l l₂ p p₂ hstop
    obtain ⟨k1, _⟩ := drive_frame_sink ft xs fr fs t l l₂ p p₂
    refine ⟨s1.trans i1, ?_, k1.trans i3⟩
    rw [s2, i2]; congr 2; omega

/-! ### generator sources: the size does not matter beyond the demanded prefix -/

theorem driveGen_size_independent (ft : FeedT α τ) (g : Nat → Item α) (M N : Nat) (hMN : M ≤ N) (s : St α τ)
    (h : (driveGen ft g M 0 s).1.pulled < s.pulled + M) :
    driveGen ft g N 0 s = driveGen ft g M 0 s := by
  obtain ⟨d, rfl⟩ : ∃ d, N = M + d := ⟨N - M, by omega⟩
  rw [driveGen_eq_drive, driveGen_eq_drive] at *
  rw [genItems_add]
  apply drive_prefix
  intro hm
  have := drive_more_pulled ft _ s hm
  rw [genItems_length] at this
  omega

/-- stages applied to a source, outermost (last applied) stage first:
`pipe src [top 3, map f]` is `src.map(f).top(3)` -/
def pipe (src : LList α) : List (Stage α) → LList α
  | [] => src
  | st :: rest => .stage st (pipe src rest)

theorem run_pipe_size_independent (ft : FeedT α τ) (g : Nat → Item α) (M N : Nat) (hMN : M ≤ N)
    (stages : List (Stage α)) (s : St α τ)
    (h : (run ft (pipe (.gen M g) stages) s).1.pulled < s.pulled + M) :
    run ft (pipe (.gen N g) stages) s = run ft (pipe (.gen M g) stages) s := by
  induction stages generalizing s with
  | nil =>
    simp only [pipe, run] at h ⊢
    rw [driveGen_size_independent ft g M N hMN s h]
  | cons st rest ih =>
    simp only [pipe, run] at h ⊢
    cases hi : st.init with
    | none => rfl
    | some fr =>
      simp only [hi] at h ⊢
      rw [ih (s.push fr) (by simpa [St.pop, St.push] using h)]

/-! ### a single terminal as the sink of the main chain -/

def St.one (s : St α (Term α)) : St α (Sink α) := ⟨s.frames, .one s.sink, s.log, s.pulled⟩

theorem feed_one (fs : List (Frame α)) (t : Term α) (x : Item α) :
    feed feedSink fs (.one t) x =
      ⟨(feed feedTerm fs t x).frames, .one (feed feedTerm fs t x).sink, (feed feedTerm fs t x).out,
        (feed feedTerm fs t x).ctl⟩ := by
  induction fs generalizing x with
  | nil => simp [feed, feedSink]
  | cons fr fs ih =>
    simp only [feed]
    split <;> simp [ih]

theorem drive_one (xs : List (Item α)) (s : St α (Term α)) :
    drive feedSink xs s.one = ((drive feedTerm xs s).1.one, (drive feedTerm xs s).2) := by
  induction xs generalizing s with
  | nil => rfl
  | cons x xs ih =>
    rw [drive_cons, drive_cons]
    simp only [St.one, feed_one]
    split
    · exact ih (s.apply (feed feedTerm s.frames s.sink x))
    · rfl

end P2.Iter
