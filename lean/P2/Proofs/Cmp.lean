import P2.Model.Cmp
/-! Helper lemmas for C14 (comparison operators).  Core Lean only. -/
namespace P2.Cmp
open P2

variable {F : Type}

/-! ### what is assumed about the float carrier -/

/-- The facts about IEEE-754 binary64 the theorems use (trusted for Go's `float64`; they cannot be
proved about Lean's opaque `Float`).  `P2.Cmp.optOps_order` shows the record is satisfiable by a
carrier that has a NaN. -/
structure FloatOrder (O : FloatOps F) : Prop where
  feq_symm : ∀ a b, O.feq a b = O.feq b a
  feq_refl : ∀ a, O.isNaN a = false → O.feq a a = true
  flt_irrefl : ∀ a, O.flt a a = false
  flt_asymm : ∀ a b, O.flt a b = true → O.flt b a = false
  flt_trans : ∀ a b c, O.flt a b = true → O.flt b c = true → O.flt a c = true
  /-- `float64(i)` is exact, hence strictly monotone and injective, for |i| < 2^53 -/
  ofInt_lt : ∀ i j, intInRange i = true → intInRange j = true → O.flt (O.ofInt i) (O.ofInt j) = decide (i < j)
  ofInt_eq : ∀ i j, intInRange i = true → intInRange j = true → O.feq (O.ofInt i) (O.ofInt j) = decide (i = j)
  ofInt_notNaN : ∀ i, O.isNaN (O.ofInt i) = false
  /-- away from NaN, "not less" is transitive (`<` is a strict weak order there) -/
  flt_negtrans : ∀ a b c, O.isNaN a = false → O.isNaN b = false → O.isNaN c = false →
    O.flt b a = false → O.flt c b = false → O.flt c a = false

/-- a carrier with a NaN (`none`) that satisfies `FloatOrder`: the hypotheses are consistent -/
def optOps : FloatOps (Option Int) :=
  { feq := fun a b => match a, b with
      | some x, some y => decide (x = y)
      | _, _ => false
    flt := fun a b => match a, b with
      | some x, some y => decide (x < y)
      | _, _ => false
    ofInt := some
    isNaN := Option.isNone }

theorem optOps_order : FloatOrder optOps where
  feq_symm a b := by
    cases a <;> cases b <;> simp [optOps]
    exact eq_comm
  feq_refl a h := by cases a <;> simp_all [optOps]
  flt_irrefl a := by cases a <;> simp [optOps]
  flt_asymm a b := by
    cases a <;> cases b <;> simp [optOps]
    omega
  flt_trans a b c := by
    cases a <;> cases b <;> cases c <;> simp [optOps]
    omega
  ofInt_lt i j _ _ := by simp [optOps]
  ofInt_eq i j _ _ := by simp [optOps]
  ofInt_notNaN i := by simp [optOps]
  flt_negtrans a b c := by
    cases a <;> cases b <;> cases c <;> simp [optOps]
    omega

/-! ### strings -/

theorem ltChars_irrefl : ∀ a, ltChars a a = false
  | [] => rfl
  | c :: cs => by simp [ltChars, ltChars_irrefl cs]

theorem ltChars_asymm : ∀ a b, ltChars a b = true → ltChars b a = false
  | [], [] => by simp [ltChars]
  | [], _ :: _ => by simp [ltChars]
  | _ :: _, [] => by simp [ltChars]
  | a :: as, b :: bs => by
    simp only [ltChars]
    intro h
    split at h
    · rename_i hlt
      have h1 : ¬ b.toNat < a.toNat := by omega
      have h2 : ¬ b = a := by intro e; subst e; omega
      simp [h1, h2]
    · split at h
      · rename_i _ he
        subst he
        simp [ltChars_asymm as bs h]
      · simp at h

theorem ltChars_trans : ∀ a b c, ltChars a b = true → ltChars b c = true → ltChars a c = true
  | [], [], _ => by simp [ltChars]
  | [], _ :: _, [] => by simp [ltChars]
  | [], _ :: _, _ :: _ => by simp [ltChars]
  | _ :: _, [], _ => by simp [ltChars]
  | _ :: _, _ :: _, [] => by simp [ltChars]
  | a :: as, b :: bs, c :: cs => by
    simp only [ltChars]
    intro h1 h2
    by_cases hab : a.toNat < b.toNat
    · by_cases hbc : b.toNat < c.toNat
      · have : a.toNat < c.toNat := by omega
        simp [this]
      · simp only [hbc, if_false] at h2
        split at h2
        · rename_i he; subst he; simp [hab]
        · simp at h2
    · simp only [hab, if_false] at h1
      split at h1
      · rename_i he
        subst he
        by_cases hbc : a.toNat < c.toNat
        · simp [hbc]
        · simp only [hbc, if_false] at h2 ⊢
          split at h2
          · rename_i he; subst he
            simp [ltChars_trans as bs cs h1 h2]
          · simp at h2
      · simp at h1

theorem ltChars_negtrans : ∀ a b c, ltChars b a = false → ltChars c b = false → ltChars c a = false
  | [], [], _ => fun _ h => h
  | [], _ :: _, [] => by simp [ltChars]
  | [], _ :: _, _ :: _ => by simp [ltChars]
  | _ :: _, [], [] => by simp [ltChars]
  | _ :: _, [], _ :: _ => by simp [ltChars]
  | _ :: _, _ :: _, [] => by simp [ltChars]
  | a :: as, b :: bs, c :: cs => by
    simp only [ltChars]
    intro h1 h2
    by_cases hba : b.toNat < a.toNat
    · simp [hba] at h1
    · simp only [hba, if_false] at h1
      by_cases hcb : c.toNat < b.toNat
      · simp [hcb] at h2
      · simp only [hcb, if_false] at h2
        have hca : ¬ c.toNat < a.toNat := by omega
        simp only [hca, if_false]
        by_cases e1 : b = a
        · subst e1
          simp only [if_true] at h1
          by_cases e2 : c = b
          · subst e2
            simp only [if_true] at h2 ⊢
            exact ltChars_negtrans as bs cs h1 h2
          · simp only [e2, if_false]
        · by_cases e3 : c = a
          · subst e3
            -- b.toNat ≥ c.toNat ≥ b.toNat and b ≠ c: impossible
            exfalso
            have : b.toNat = c.toNat := by omega
            exact e1 (Char.toNat_inj.mp this)
          · simp [e3]

theorem isPrefix_iff : ∀ a b : List Char, isPrefix a b = true ↔ ∃ s, b = a ++ s
  | [], b => by simp [isPrefix]
  | _ :: _, [] => by simp [isPrefix]
  | a :: as, b :: bs => by
    simp only [isPrefix, Bool.and_eq_true, beq_iff_eq, isPrefix_iff as bs, List.cons_append,
      List.cons.injEq]
    constructor
    · rintro ⟨rfl, s, rfl⟩; exact ⟨s, rfl, rfl⟩
    · rintro ⟨s, rfl, rfl⟩; exact ⟨rfl, s, rfl⟩

/-- `~` on two strings: `a` occurs in `b` -/
theorem isInfix_iff (a : List Char) : ∀ b : List Char, isInfix a b = true ↔ ∃ p s, b = p ++ a ++ s
  | [] => by
    simp only [isInfix, List.isEmpty_iff]
    constructor
    · rintro rfl; exact ⟨[], [], rfl⟩
    · rintro ⟨p, s, h⟩
      have h' := congrArg List.length h
      simp at h'
      exact List.eq_nil_of_length_eq_zero (by omega)
  | b :: bs => by
    simp only [isInfix, Bool.or_eq_true, isPrefix_iff, isInfix_iff a bs]
    constructor
    · rintro (⟨s, h⟩ | ⟨p, s, h⟩)
      · exact ⟨[], s, by simpa using h⟩
      · exact ⟨b :: p, s, by simp [h]⟩
    · rintro ⟨p, s, h⟩
      cases p with
      | nil => exact Or.inl ⟨s, by simpa using h⟩
      | cons c p =>
        simp only [List.cons_append, List.cons.injEq] at h
        exact Or.inr ⟨p, s, h.2⟩

/-! ### the scalar matrices -/

theorem simple_symm {O : FloatOps F} (hO : FloatOrder O) (a b : Value F) : simple O a b = simple O b a := by
  cases a <;> cases b <;> simp [simple, hO.feq_symm, Bool.beq_comm]
  all_goals first | exact eq_comm | skip

/-- the outcome is a boolean or an error (never a panic, never out of fuel) -/
def Tri : Res Bool → Prop
  | .ok _ => True
  | .err => True
  | _ => False

theorem Tri.cases {r : Res Bool} (h : Tri r) : r = .ok true ∨ r = .ok false ∨ r = .err := by
  cases r with
  | ok b => cases b <;> simp
  | err => simp
  | panic => exact h.elim
  | fuel => exact h.elim

theorem simple_tri (O : FloatOps F) (a b : Value F) : Tri (simple O a b) := by
  cases a <;> cases b <;> simp [simple, Tri]

theorem less_tri (O : FloatOps F) (a b : Value F) : Tri (less O a b) := by
  cases a <;> cases b <;> simp [less, Tri]

theorem simple_ok_iff (O : FloatOps F) (a b : Value F) :
    (∃ v, simple O a b = .ok v) ↔ eqMatrix a.ty b.ty = true := by
  cases a <;> cases b <;> simp [simple, eqMatrix, Value.ty]

theorem less_ok_iff (O : FloatOps F) (a b : Value F) :
    (∃ v, less O a b = .ok v) ↔ ltMatrix a.ty b.ty = true := by
  cases a <;> cases b <;> simp [less, ltMatrix, Value.ty]

theorem less_err_of_undefined (O : FloatOps F) (a b : Value F) (h : ltMatrix a.ty b.ty = false) :
    less O a b = .err := by
  cases a <;> cases b <;> simp_all [less, ltMatrix, Value.ty]

theorem simple_err_of_undefined (O : FloatOps F) (a b : Value F) (h : eqMatrix a.ty b.ty = false) :
    simple O a b = .err := by
  cases a <;> cases b <;> simp_all [simple, eqMatrix, Value.ty]

theorem ltMatrix_sub_eqMatrix (a b : Ty) (h : ltMatrix a b = true) : eqMatrix a b = true := by
  cases a <;> cases b <;> simp_all [ltMatrix, eqMatrix]

theorem ltMatrix_symm (a b : Ty) : ltMatrix a b = ltMatrix b a := by
  cases a <;> cases b <;> rfl

/-! ### `<` -/

theorem less_irrefl {O : FloatOps F} (hO : FloatOrder O) (a : Value F) : less O a a ≠ .ok true := by
  cases a <;> simp [less, hO.flt_irrefl, ltChars_irrefl]

theorem less_asymm {O : FloatOps F} (hO : FloatOrder O) (a b : Value F) :
    less O a b = .ok true → less O b a = .ok false := by
  cases a <;> cases b <;> simp [less]
  · omega
  · exact hO.flt_asymm _ _
  · exact hO.flt_asymm _ _
  · exact hO.flt_asymm _ _
  · exact ltChars_asymm _ _

theorem less_trans {O : FloatOps F} (hO : FloatOrder O) (a b c : Value F)
    (ha : numInRange a = true) (hb : numInRange b = true) (hc : numInRange c = true) :
    less O a b = .ok true → less O b c = .ok true → less O a c = .ok true := by
  cases a <;> cases b <;> cases c <;> simp [less] <;> simp only [numInRange] at ha hb hc
  · omega
  · rename_i i j f
    intro h1 h2
    have := hO.ofInt_lt i j ha hb
    exact hO.flt_trans _ _ _ (by rw [this]; simpa using h1) h2
  · rename_i i f j
    intro h1 h2
    have := hO.flt_trans _ _ _ h1 h2
    rw [hO.ofInt_lt i j ha hc] at this
    simpa using this
  · exact hO.flt_trans _ _ _
  · rename_i f i j
    intro h1 h2
    have := hO.ofInt_lt i j hb hc
    exact hO.flt_trans _ _ _ h1 (by rw [this]; simpa using h2)
  · exact hO.flt_trans _ _ _
  · exact hO.flt_trans _ _ _
  · exact hO.flt_trans _ _ _
  · exact ltChars_trans _ _ _

/-! ### association lists -/

def keys {α : Type} (a : List (List Char × α)) : List (List Char) := a.map Prod.fst

theorem hasKey_iff {α : Type} (k : List Char) : ∀ a : List (List Char × α), hasKey k a = true ↔ k ∈ keys a
  | [] => by simp [hasKey, keys]
  | (k', v) :: rest => by
    have ih := hasKey_iff k rest
    simp only [keys] at ih
    simp only [hasKey, keys, List.map_cons, List.mem_cons, Bool.or_eq_true, beq_iff_eq, ih]
    constructor
    · rintro (h | h)
      · exact Or.inl h.symm
      · exact Or.inr h
    · rintro (h | h)
      · exact Or.inl h.symm
      · exact Or.inr h

theorem keysNodup_iff {α : Type} : ∀ a : List (List Char × α), keysNodup a = true ↔ (keys a).Nodup
  | [] => by simp [keysNodup, keys]
  | (k, v) :: rest => by
    have ih := keysNodup_iff rest
    have hk := hasKey_iff k rest
    simp only [keys] at ih hk
    simp only [keysNodup, keys, List.map_cons, List.nodup_cons, Bool.and_eq_true, ih]
    constructor
    · rintro ⟨h1, h2⟩
      refine ⟨?_, h2⟩
      intro hm
      rw [← hk] at hm
      simp [hm] at h1
    · rintro ⟨h1, h2⟩
      refine ⟨?_, h2⟩
      cases hh : hasKey k rest with
      | false => rfl
      | true => exact absurd (hk.mp hh) h1

theorem lookupKey_mem {α : Type} (k : List Char) : ∀ (a : List (List Char × α)) (v : α),
    lookupKey k a = some v → (k, v) ∈ a
  | [], _ => by simp [lookupKey]
  | (k', v') :: rest, v => by
    simp only [lookupKey]
    split
    · rename_i he
      intro h
      simp only [Option.some.injEq] at h
      subst he; subst h
      exact List.mem_cons_self
    · intro h
      exact List.mem_cons_of_mem _ (lookupKey_mem k rest v h)

theorem lookupKey_isSome_of_key {α : Type} (k : List Char) : ∀ (a : List (List Char × α)),
    k ∈ keys a → ∃ v, lookupKey k a = some v
  | [] => by simp [keys]
  | (k', v') :: rest => by
    simp only [keys, List.map_cons, List.mem_cons, lookupKey]
    intro h
    by_cases he : k' = k
    · simp [he]
    · simp only [he, if_false]
      rcases h with h | h
      · exact absurd h.symm he
      · exact lookupKey_isSome_of_key k rest h

theorem key_of_mem {α : Type} {k : List Char} {v : α} {a : List (List Char × α)} (h : (k, v) ∈ a) :
    k ∈ keys a := List.mem_map.mpr ⟨(k, v), h, rfl⟩

theorem lookupKey_of_mem_nodup {α : Type} (k : List Char) (v : α) : ∀ (a : List (List Char × α)),
    (keys a).Nodup → (k, v) ∈ a → lookupKey k a = some v
  | [] => by simp
  | (k', v') :: rest => by
    simp only [keys, List.map_cons, List.nodup_cons, List.mem_cons, Prod.mk.injEq, lookupKey]
    rintro ⟨hn, hnd⟩ h
    rcases h with ⟨rfl, rfl⟩ | h
    · simp
    · have hk : k ∈ keys rest := key_of_mem h
      have : ¬ k' = k := by intro e; subst e; exact hn hk
      simp only [this, if_false]
      exact lookupKey_of_mem_nodup k v rest hnd h

/-- pigeonhole: a duplicate-free list inside a list that is not longer covers it -/
theorem subset_of_nodup_subset_length {α : Type} [DecidableEq α] : ∀ (xs ys : List α),
    xs.Nodup → (∀ x ∈ xs, x ∈ ys) → ys.length ≤ xs.length → ∀ y ∈ ys, y ∈ xs
  | [], ys, _, _, hl => by
    have : ys = [] := List.eq_nil_of_length_eq_zero (by simpa using hl)
    simp [this]
  | x :: xs, ys, hn, hs, hl => by
    have hx : x ∈ ys := hs x List.mem_cons_self
    have hn' := List.nodup_cons.mp hn
    have ih := subset_of_nodup_subset_length xs (ys.erase x) hn'.2
      (fun z hz => by
        have : z ≠ x := by intro e; subst e; exact hn'.1 hz
        exact (List.mem_erase_of_ne this).mpr (hs z (List.mem_cons_of_mem _ hz)))
      (by rw [List.length_erase_of_mem hx]; simp at hl; omega)
    intro y hy
    by_cases e : y = x
    · subst e; exact List.mem_cons_self
    · exact List.mem_cons_of_mem _ (ih y ((List.mem_erase_of_ne e).mpr hy))

/-! ### `List.Equals` / `Map.Equals` for an arbitrary comparator -/

theorem listEquals_congr {eq eq' : Value F → Value F → Res Bool} : ∀ (xs ys : List (Value F)),
    (∀ x ∈ xs, ∀ y ∈ ys, eq x y = eq' x y) → listEquals eq xs ys = listEquals eq' xs ys
  | [], [], _ => rfl
  | [], _ :: _, _ => rfl
  | _ :: _, [], _ => rfl
  | x :: xs, y :: ys, h => by
    simp only [listEquals]
    rw [h x List.mem_cons_self y List.mem_cons_self,
      listEquals_congr xs ys (fun a ha b hb => h a (List.mem_cons_of_mem _ ha) b (List.mem_cons_of_mem _ hb))]

theorem mapEquals_congr {eq eq' : Value F → Value F → Res Bool} (b : List (List Char × Value F)) :
    ∀ (a : List (List Char × Value F)),
    (∀ kv ∈ a, ∀ kv' ∈ b, eq kv'.2 kv.2 = eq' kv'.2 kv.2) → mapEquals eq a b = mapEquals eq' a b
  | [], _ => rfl
  | (k, v) :: rest, h => by
    simp only [mapEquals]
    have ih := mapEquals_congr b rest (fun kv hkv => h kv (List.mem_cons_of_mem _ hkv))
    cases hl : lookupKey k b with
    | none => rfl
    | some o =>
      have := h (k, v) List.mem_cons_self (k, o) (lookupKey_mem k b o hl)
      simp only at this
      simp only [this, ih]

theorem listEquals_tri {eq : Value F → Value F → Res Bool} : ∀ (xs ys : List (Value F)),
    (∀ x ∈ xs, ∀ y ∈ ys, Tri (eq x y)) → Tri (listEquals eq xs ys)
  | [], [], _ => trivial
  | [], _ :: _, _ => trivial
  | _ :: _, [], _ => trivial
  | x :: xs, y :: ys, h => by
    simp only [listEquals]
    have h0 := h x List.mem_cons_self y List.mem_cons_self
    have ih := listEquals_tri xs ys (fun a ha b hb => h a (List.mem_cons_of_mem _ ha) b (List.mem_cons_of_mem _ hb))
    split
    · exact ih
    · exact h0

theorem mapEquals_tri {eq : Value F → Value F → Res Bool} (b : List (List Char × Value F)) :
    ∀ (a : List (List Char × Value F)),
    (∀ kv ∈ a, ∀ kv' ∈ b, Tri (eq kv'.2 kv.2)) → Tri (mapEquals eq a b)
  | [], _ => trivial
  | (k, v) :: rest, h => by
    simp only [mapEquals]
    have ih := mapEquals_tri b rest (fun kv hkv => h kv (List.mem_cons_of_mem _ hkv))
    cases hl : lookupKey k b with
    | none => trivial
    | some o =>
      have h0 := h (k, v) List.mem_cons_self (k, o) (lookupKey_mem k b o hl)
      simp only at h0 ⊢
      split
      · exact ih
      · exact h0

/-- `List.Equals` is `true` exactly when the lists have the same length and agree element-wise -/
theorem listEquals_true_iff {eq : Value F → Value F → Res Bool} : ∀ (xs ys : List (Value F)),
    listEquals eq xs ys = .ok true ↔
      xs.length = ys.length ∧ ∀ p ∈ xs.zip ys, eq p.1 p.2 = .ok true
  | [], [] => by simp [listEquals]
  | [], _ :: _ => by simp [listEquals]
  | _ :: _, [] => by simp [listEquals]
  | x :: xs, y :: ys => by
    simp only [listEquals, List.length_cons, List.zip_cons_cons, List.mem_cons, Nat.add_right_cancel_iff]
    have ih := listEquals_true_iff (eq := eq) xs ys
    constructor
    · intro h
      split at h
      · rename_i h0
        have := ih.mp h
        refine ⟨this.1, ?_⟩
        rintro p (rfl | hp)
        · exact h0
        · exact this.2 p hp
      · rename_i hne
        exact absurd h hne
    · rintro ⟨hl, hall⟩
      have h0 := hall (x, y) (Or.inl rfl)
      simp only at h0
      simp only [h0]
      exact ih.mpr ⟨hl, fun p hp => hall p (Or.inr hp)⟩

/-- `Map.Equals` (after the size check) is `true` exactly when every entry of the left map has an
equal value under the same key in the right map — independent of the iteration order -/
theorem mapEquals_true_iff {eq : Value F → Value F → Res Bool} (b : List (List Char × Value F)) :
    ∀ (a : List (List Char × Value F)),
    mapEquals eq a b = .ok true ↔ ∀ kv ∈ a, ∃ o, lookupKey kv.1 b = some o ∧ eq o kv.2 = .ok true
  | [] => by simp [mapEquals]
  | (k, v) :: rest => by
    simp only [mapEquals, List.mem_cons, forall_eq_or_imp]
    have ih := mapEquals_true_iff (eq := eq) b rest
    cases hl : lookupKey k b with
    | none => simp
    | some o =>
      simp only [Option.some.injEq, exists_eq_left']
      constructor
      · intro h
        split at h
        · rename_i h0
          exact ⟨h0, ih.mp h⟩
        · rename_i hne
          exact absurd h hne
      · rintro ⟨h0, hall⟩
        simp only [h0]
        exact ih.mpr hall

theorem listEquals_symm_true {eq eq' : Value F → Value F → Res Bool} : ∀ (xs ys : List (Value F)),
    (∀ x ∈ xs, ∀ y ∈ ys, eq x y = .ok true → eq' y x = .ok true) →
    listEquals eq xs ys = .ok true → listEquals eq' ys xs = .ok true
  | [], [], _ => fun _ => rfl
  | [], _ :: _, _ => by simp [listEquals]
  | _ :: _, [], _ => by simp [listEquals]
  | x :: xs, y :: ys, h => by
    simp only [listEquals]
    intro hh
    split at hh
    · rename_i h0
      simp only [h x List.mem_cons_self y List.mem_cons_self h0]
      exact listEquals_symm_true xs ys
        (fun a ha b hb => h a (List.mem_cons_of_mem _ ha) b (List.mem_cons_of_mem _ hb)) hh
    · rename_i hne
      exact absurd hh hne

theorem mapEquals_symm_true {eq eq' : Value F → Value F → Res Bool} (a b : List (List Char × Value F))
    (hlen : a.length = b.length) (ha : (keys a).Nodup) (hb : (keys b).Nodup)
    (h : ∀ kv ∈ a, ∀ kv' ∈ b, eq kv'.2 kv.2 = .ok true → eq' kv.2 kv'.2 = .ok true) :
    mapEquals eq a b = .ok true → mapEquals eq' b a = .ok true := by
  rw [mapEquals_true_iff, mapEquals_true_iff]
  intro hall
  -- every key of a is a key of b, hence (pigeonhole) every key of b is a key of a
  have hsub : ∀ k ∈ keys a, k ∈ keys b := by
    intro k hk
    rcases List.mem_map.mp hk with ⟨kv, hkv, rfl⟩
    rcases hall kv hkv with ⟨o, ho, _⟩
    exact key_of_mem (lookupKey_mem _ _ _ ho)
  have hback := subset_of_nodup_subset_length (keys a) (keys b) ha hsub (by simp [keys, hlen])
  intro kv' hkv'
  have hk : kv'.1 ∈ keys a := hback _ (List.mem_map.mpr ⟨kv', hkv', rfl⟩)
  rcases lookupKey_isSome_of_key _ _ hk with ⟨v, hv⟩
  refine ⟨v, hv, ?_⟩
  have hmem := lookupKey_mem _ _ _ hv
  rcases hall (kv'.1, v) hmem with ⟨o, ho, heq⟩
  have : lookupKey kv'.1 b = some kv'.2 := lookupKey_of_mem_nodup _ _ _ hb (by simpa using hkv')
  rw [this] at ho
  simp only [Option.some.injEq] at ho
  subst ho
  exact h (kv'.1, v) hmem kv' hkv' heq

theorem listEquals_refl {eq : Value F → Value F → Res Bool} : ∀ (xs : List (Value F)),
    (∀ x ∈ xs, eq x x = .ok true) → listEquals eq xs xs = .ok true
  | [], _ => rfl
  | x :: xs, h => by
    simp only [listEquals, h x List.mem_cons_self]
    exact listEquals_refl xs (fun a ha => h a (List.mem_cons_of_mem _ ha))

theorem mapEquals_refl {eq : Value F → Value F → Res Bool} (a : List (List Char × Value F))
    (ha : (keys a).Nodup) (h : ∀ kv ∈ a, eq kv.2 kv.2 = .ok true) : mapEquals eq a a = .ok true := by
  rw [mapEquals_true_iff]
  intro kv hkv
  exact ⟨kv.2, lookupKey_of_mem_nodup _ _ _ ha (by simpa using hkv), h kv hkv⟩

/-! ### nesting depth, side conditions -/

theorem depth_le_depthList : ∀ (xs : List (Value F)) (x : Value F), x ∈ xs → depth x ≤ depthList xs
  | [], _, h => by simp at h
  | y :: ys, x, h => by
    simp only [depthList]
    rcases List.mem_cons.mp h with rfl | h
    · omega
    · have := depth_le_depthList ys x h
      omega

theorem depth_le_depthMap : ∀ (kvs : List (List Char × Value F)) (kv : List Char × Value F),
    kv ∈ kvs → depth kv.2 ≤ depthMap kvs
  | [], _, h => by simp at h
  | (k, v) :: rest, kv, h => by
    simp only [depthMap]
    rcases List.mem_cons.mp h with rfl | h
    · simp only; omega
    · have := depth_le_depthMap rest kv h
      omega

theorem wfList_mem : ∀ (xs : List (Value F)) (x : Value F), wfList xs = true → x ∈ xs → wf x = true
  | [], _, _, h => by simp at h
  | y :: ys, x, hw, h => by
    simp only [wfList, Bool.and_eq_true] at hw
    rcases List.mem_cons.mp h with rfl | h
    · exact hw.1
    · exact wfList_mem ys x hw.2 h

theorem wfMap_mem : ∀ (kvs : List (List Char × Value F)) (kv : List Char × Value F),
    wfMap kvs = true → kv ∈ kvs → wf kv.2 = true
  | [], _, _, h => by simp at h
  | (k, v) :: rest, kv, hw, h => by
    simp only [wfMap, Bool.and_eq_true] at hw
    rcases List.mem_cons.mp h with rfl | h
    · exact hw.1
    · exact wfMap_mem rest kv hw.2 h

theorem plainList_mem (O : FloatOps F) : ∀ (xs : List (Value F)) (x : Value F),
    plainList O xs = true → x ∈ xs → plain O x = true
  | [], _, _, h => by simp at h
  | y :: ys, x, hw, h => by
    simp only [plainList, Bool.and_eq_true] at hw
    rcases List.mem_cons.mp h with rfl | h
    · exact hw.1
    · exact plainList_mem O ys x hw.2 h

theorem plainMap_mem (O : FloatOps F) : ∀ (kvs : List (List Char × Value F)) (kv : List Char × Value F),
    plainMap O kvs = true → kv ∈ kvs → plain O kv.2 = true
  | [], _, _, h => by simp at h
  | (k, v) :: rest, kv, hw, h => by
    simp only [plainMap, Bool.and_eq_true] at hw
    rcases List.mem_cons.mp h with rfl | h
    · exact hw.1
    · exact plainMap_mem O rest kv hw.2 h

theorem mapFreeList_mem : ∀ (xs : List (Value F)) (x : Value F), mapFreeList xs = true → x ∈ xs → mapFree x = true
  | [], _, _, h => by simp at h
  | y :: ys, x, hw, h => by
    simp only [mapFreeList, Bool.and_eq_true] at hw
    rcases List.mem_cons.mp h with rfl | h
    · exact hw.1
    · exact mapFreeList_mem ys x hw.2 h

/-! ### `operationMatrixDeepEqual.Calc` for an arbitrary element comparator -/

/-- the comparator is only applied to elements / entry values of the two operands -/
def Inside (a b : Value F) (x y : Value F) : Prop :=
  match a, b with
  | .list _ xs, .list _ ys => x ∈ xs ∧ y ∈ ys
  | .map ma, .map mb => (∃ k, (k, x) ∈ mb) ∧ (∃ k, (k, y) ∈ ma)
  | _, _ => False

theorem deepCalc_congr (O : FloatOps F) {eq eq' : Value F → Value F → Res Bool} (a b : Value F)
    (h : ∀ x y, Inside a b x y → eq x y = eq' x y) : deepCalc O eq a b = deepCalc O eq' a b := by
  cases a <;> cases b <;> simp only [deepCalc]
  · rename_i p xs q ys
    split
    · rfl
    · exact listEquals_congr xs ys (fun x hx y hy => h x y ⟨hx, hy⟩)
  · rename_i ma mb
    split
    · rfl
    · exact mapEquals_congr mb ma (fun kv hkv kv' hkv' => h kv'.2 kv.2 ⟨⟨kv'.1, hkv'⟩, ⟨kv.1, hkv⟩⟩)

theorem deepCalc_tri (O : FloatOps F) {eq : Value F → Value F → Res Bool} (a b : Value F)
    (h : ∀ x y, Inside a b x y → Tri (eq x y)) : Tri (deepCalc O eq a b) := by
  cases a <;> cases b <;> simp only [deepCalc] <;> try exact simple_tri O _ _
  · rename_i p xs q ys
    split
    · trivial
    · exact listEquals_tri xs ys (fun x hx y hy => h x y ⟨hx, hy⟩)
  · rename_i ma mb
    split
    · trivial
    · exact mapEquals_tri mb ma (fun kv hkv kv' hkv' => h kv'.2 kv.2 ⟨⟨kv'.1, hkv'⟩, ⟨kv.1, hkv⟩⟩)

theorem Inside.depth_lt {a b x y : Value F} (h : Inside a b x y) : depth x < depth b ∧ depth y < depth a ∨
    depth x < depth a ∧ depth y < depth b := by
  cases a <;> cases b <;> simp only [Inside] at h <;> try exact h.elim
  · right
    simp only [depth]
    have := depth_le_depthList _ _ h.1
    have := depth_le_depthList _ _ h.2
    omega
  · left
    rcases h with ⟨⟨k, hk⟩, ⟨k', hk'⟩⟩
    simp only [depth]
    have := depth_le_depthMap _ _ hk
    have := depth_le_depthMap _ _ hk'
    simp only at *
    omega

theorem Inside.depth_lt_max {a b x y : Value F} (h : Inside a b x y) :
    max (depth x) (depth y) < max (depth a) (depth b) := by
  rcases h.depth_lt with h | h <;> omega

theorem Inside.wf {a b x y : Value F} (h : Inside a b x y) (ha : wf a = true) (hb : wf b = true) :
    wf x = true ∧ wf y = true := by
  cases a <;> cases b <;> simp only [Inside] at h <;> try exact h.elim
  · simp only [Cmp.wf] at ha hb
    exact ⟨wfList_mem _ _ ha h.1, wfList_mem _ _ hb h.2⟩
  · simp only [Cmp.wf, Bool.and_eq_true] at ha hb
    rcases h with ⟨⟨k, hk⟩, ⟨k', hk'⟩⟩
    exact ⟨wfMap_mem _ _ hb.2 hk, wfMap_mem _ _ ha.2 hk'⟩

theorem Inside.swap {a b x y : Value F} (h : Inside a b x y) : Inside b a y x := by
  cases a <;> cases b <;> simp only [Inside] at h ⊢ <;> try exact h.elim
  · exact ⟨h.2, h.1⟩
  · exact ⟨h.2, h.1⟩

/-- if the element comparator transports `true` from (x, y) to (y, x), so does the deep comparison
(on maps with pairwise different keys) -/
theorem deepCalc_symm_true {O : FloatOps F} (hO : FloatOrder O) {eq eq' : Value F → Value F → Res Bool}
    (a b : Value F) (ha : wf a = true) (hb : wf b = true)
    (h : ∀ x y, Inside a b x y → eq x y = .ok true → eq' y x = .ok true) :
    deepCalc O eq a b = .ok true → deepCalc O eq' b a = .ok true := by
  cases a <;> cases b <;> simp only [deepCalc] <;> try (rw [simple_symm hO]; exact id)
  · rename_i p xs q ys
    by_cases hl : xs.length = ys.length
    · have hl' : ys.length = xs.length := hl.symm
      rw [if_neg (fun hne => hne hl), if_neg (fun hne => hne hl')]
      exact listEquals_symm_true xs ys (fun x hx y hy => h x y ⟨hx, hy⟩)
    · simp [hl]
  · rename_i ma mb
    by_cases hl : ma.length = mb.length
    · have hl' : mb.length = ma.length := hl.symm
      rw [if_neg (fun hne => hne hl), if_neg (fun hne => hne hl')]
      simp only [Cmp.wf, Bool.and_eq_true] at ha hb
      exact mapEquals_symm_true ma mb hl ((keysNodup_iff _).mp ha.1) ((keysNodup_iff _).mp hb.1)
        (fun kv hkv kv' hkv' => h kv'.2 kv.2 ⟨⟨kv'.1, hkv'⟩, ⟨kv.1, hkv⟩⟩)
    · simp [hl]

/-! ### the recursive comparator -/

theorem deepF_tri (O : FloatOps F) : ∀ (n : Nat) (a b : Value F), depth a < n → depth b < n → Tri (deepF O n a b)
  | 0, _, _, h, _ => by omega
  | n + 1, a, b, ha, hb => by
    simp only [deepF]
    apply deepCalc_tri
    intro x y hi
    have := hi.depth_lt
    exact deepF_tri O n x y (by omega) (by omega)

/-- more fuel than the nesting depth never changes the result -/
theorem deepF_fuel_irrel (O : FloatOps F) : ∀ (n m : Nat) (a b : Value F),
    depth a < n → depth b < n → depth a < m → depth b < m → deepF O n a b = deepF O m a b
  | 0, _, _, _, h, _, _, _ => by omega
  | _ + 1, 0, _, _, _, _, h, _ => by omega
  | n + 1, m + 1, a, b, ha, hb, ha', hb' => by
    simp only [deepF]
    apply deepCalc_congr
    intro x y hi
    have := hi.depth_lt
    exact deepF_fuel_irrel O n m x y (by omega) (by omega) (by omega) (by omega)

theorem deepF_symm_true {O : FloatOps F} (hO : FloatOrder O) : ∀ (n : Nat) (a b : Value F),
    wf a = true → wf b = true → deepF O n a b = .ok true → deepF O n b a = .ok true
  | 0, _, _, _, _ => by simp [deepF]
  | n + 1, a, b, ha, hb => by
    simp only [deepF]
    apply deepCalc_symm_true hO a b ha hb
    intro x y hi
    have := hi.wf ha hb
    exact deepF_symm_true hO n x y this.1 this.2

theorem deepF_refl {O : FloatOps F} (hO : FloatOrder O) : ∀ (n : Nat) (a : Value F),
    depth a < n → wf a = true → plain O a = true → deepF O n a a = .ok true
  | 0, _, h, _, _ => by omega
  | n + 1, a, hd, hw, hp => by
    simp only [deepF]
    cases a with
    | int i => simp [deepCalc, simple]
    | flt f =>
      simp only [plain, Bool.not_eq_true'] at hp
      simp [deepCalc, simple, hO.feq_refl f hp]
    | str s => simp [deepCalc, simple]
    | bool b => simp [deepCalc, simple]
    | clo k => simp [plain] at hp
    | list p xs =>
      simp only [deepCalc, ne_eq, not_true_eq_false, if_false]
      simp only [depth] at hd
      simp only [Cmp.wf] at hw
      simp only [plain] at hp
      apply listEquals_refl
      intro x hx
      have := depth_le_depthList xs x hx
      exact deepF_refl hO n x (by omega) (wfList_mem _ _ hw hx) (plainList_mem O _ _ hp hx)
    | map kvs =>
      simp only [deepCalc, ne_eq, not_true_eq_false, if_false]
      simp only [depth] at hd
      simp only [Cmp.wf, Bool.and_eq_true] at hw
      simp only [plain] at hp
      apply mapEquals_refl kvs ((keysNodup_iff _).mp hw.1)
      intro kv hkv
      have := depth_le_depthMap kvs kv hkv
      exact deepF_refl hO n kv.2 (by omega) (wfMap_mem _ _ hw.2 hkv) (plainMap_mem O _ _ hp hkv)

/-! ### the `=` operator -/

/-- the comparator `Equal` hands to `List.Equals` / `Map.Equals` -/
def inner (cfg : Cfg) (O : FloatOps F) : Value F → Value F → Res Bool :=
  if cfg.nestedDeep then equal cfg O else simple O

/-- one unfolding step of `=` : `operationMatrixDeepEqual.Calc` with the element comparator -/
theorem equal_unfold (cfg : Cfg) (O : FloatOps F) (a b : Value F) :
    equal cfg O a b = deepCalc O (inner cfg O) a b := by
  cases hc : cfg.nestedDeep with
  | false => simp [equal, inner, hc]
  | true =>
    simp only [equal, inner, hc, if_true, deepF]
    apply deepCalc_congr
    intro x y hi
    have h1 := hi.depth_lt
    have h2 : equal cfg O x y = deepF O (max (depth x) (depth y) + 1) x y := by simp [equal, hc]
    rw [h2]
    exact deepF_fuel_irrel O (max (depth a) (depth b)) (max (depth x) (depth y) + 1) x y
      (by omega) (by omega) (by omega) (by omega)

theorem equal_tri (cfg : Cfg) (O : FloatOps F) (a b : Value F) : Tri (equal cfg O a b) := by
  cases hc : cfg.nestedDeep with
  | false =>
    simp only [equal, hc]
    exact deepCalc_tri O a b (fun x y _ => simple_tri O x y)
  | true =>
    simp only [equal, hc, if_true]
    exact deepF_tri O _ a b (by omega) (by omega)

theorem equal_symm_true {O : FloatOps F} (hO : FloatOrder O) (cfg : Cfg) (a b : Value F)
    (ha : wf a = true) (hb : wf b = true) : equal cfg O a b = .ok true → equal cfg O b a = .ok true := by
  cases hc : cfg.nestedDeep with
  | false =>
    simp only [equal, hc]
    exact deepCalc_symm_true hO a b ha hb (fun x y _ => by rw [simple_symm hO]; exact id)
  | true =>
    simp only [equal, hc, if_true]
    rw [Nat.max_comm (depth b) (depth a)]
    exact deepF_symm_true hO _ a b ha hb

theorem equal_refl {O : FloatOps F} (hO : FloatOrder O) (cfg : Cfg) (hc : cfg.nestedDeep = true) (a : Value F)
    (hw : wf a = true) (hp : plain O a = true) : equal cfg O a a = .ok true := by
  simp only [equal, hc, if_true]
  exact deepF_refl hO _ a (by omega) hw hp

theorem listEquals_symm {eq eq' : Value F → Value F → Res Bool} : ∀ (xs ys : List (Value F)),
    (∀ x ∈ xs, ∀ y ∈ ys, eq x y = eq' y x) → listEquals eq xs ys = listEquals eq' ys xs
  | [], [], _ => rfl
  | [], _ :: _, _ => rfl
  | _ :: _, [], _ => rfl
  | x :: xs, y :: ys, h => by
    simp only [listEquals]
    rw [h x List.mem_cons_self y List.mem_cons_self,
      listEquals_symm xs ys (fun a ha b hb => h a (List.mem_cons_of_mem _ ha) b (List.mem_cons_of_mem _ hb))]

theorem deepCalc_symm_mapFree {O : FloatOps F} (hO : FloatOrder O) {eq : Value F → Value F → Res Bool}
    (a b : Value F) (ha : mapFree a = true)
    (h : ∀ x y, Inside a b x y → mapFree x = true → eq x y = eq y x) :
    deepCalc O eq a b = deepCalc O eq b a := by
  cases a <;> cases b <;> simp only [deepCalc] <;> try exact simple_symm hO _ _
  · rename_i p xs q ys
    simp only [mapFree] at ha
    by_cases hl : xs.length = ys.length
    · have hl' : ys.length = xs.length := hl.symm
      rw [if_neg (fun hne => hne hl), if_neg (fun hne => hne hl')]
      exact listEquals_symm xs ys (fun x hx y hy => h x y ⟨hx, hy⟩ (mapFreeList_mem _ _ ha hx))
    · have hl' : ¬ ys.length = xs.length := fun e => hl e.symm
      simp [hl, hl']
  · simp [mapFree] at ha

theorem deepF_symm_mapFree {O : FloatOps F} (hO : FloatOrder O) : ∀ (n : Nat) (a b : Value F),
    mapFree a = true → deepF O n a b = deepF O n b a
  | 0, _, _, _ => rfl
  | n + 1, a, b, ha => by
    simp only [deepF]
    exact deepCalc_symm_mapFree hO a b ha (fun x y _ hx => deepF_symm_mapFree hO n x y hx)

/-- full symmetry of `=` as an outcome when one side contains no map -/
theorem equal_symm_mapFree {O : FloatOps F} (hO : FloatOrder O) (cfg : Cfg) (a b : Value F)
    (ha : mapFree a = true) : equal cfg O a b = equal cfg O b a := by
  cases hc : cfg.nestedDeep with
  | false =>
    simp only [equal, hc]
    exact deepCalc_symm_mapFree hO a b ha (fun x y _ _ => simple_symm hO x y)
  | true =>
    simp only [equal, hc, if_true]
    rw [Nat.max_comm (depth b) (depth a)]
    exact deepF_symm_mapFree hO _ a b ha

/-! ### numbers -/

/-- the numeric value of an int or float -/
def numVal (O : FloatOps F) : Value F → Option F
  | .int i => some (O.ofInt i)
  | .flt f => some f
  | _ => none

theorem equal_scalar (cfg : Cfg) (O : FloatOps F) (a b : Value F) (ha : depth a = 0) :
    equal cfg O a b = simple O a b := by
  rw [equal_unfold]
  cases a <;> cases b <;> simp_all [deepCalc, depth]

theorem equal_num {O : FloatOps F} (hO : FloatOrder O) (cfg : Cfg) (a b : Value F) (x y : F)
    (ha : numVal O a = some x) (hb : numVal O b = some y)
    (hra : numInRange a = true) (hrb : numInRange b = true) :
    equal cfg O a b = .ok (O.feq x y) := by
  have hd : depth a = 0 := by cases a <;> simp_all [numVal, depth]
  rw [equal_scalar cfg O a b hd]
  cases a <;> cases b <;> simp only [numVal, Option.some.injEq, reduceCtorEq] at ha hb
  all_goals subst ha; subst hb
  all_goals simp only [simple]
  rename_i i j
  simp only [numInRange] at hra hrb
  rw [hO.ofInt_eq i j hra hrb]
  congr 1

theorem less_num {O : FloatOps F} (hO : FloatOrder O) (a b : Value F) (x y : F)
    (ha : numVal O a = some x) (hb : numVal O b = some y)
    (hra : numInRange a = true) (hrb : numInRange b = true) :
    less O a b = .ok (O.flt x y) := by
  cases a <;> cases b <;> simp only [numVal, Option.some.injEq, reduceCtorEq] at ha hb
  all_goals subst ha; subst hb
  all_goals simp only [less]
  rename_i i j
  simp only [numInRange] at hra hrb
  rw [hO.ofInt_lt i j hra hrb]

/-! ### derived operators -/

theorem less_ok_equal_ok (cfg : Cfg) (O : FloatOps F) (a b : Value F) (l : Bool) (h : less O a b = .ok l) :
    ∃ e, equal cfg O a b = .ok e := by
  have hm := (less_ok_iff O a b).mp ⟨l, h⟩
  have hd : depth a = 0 := by cases a <;> cases b <;> simp_all [ltMatrix, Value.ty, depth]
  rw [equal_scalar cfg O a b hd]
  exact (simple_ok_iff O a b).mpr (ltMatrix_sub_eqMatrix _ _ hm)

theorem greaterEq_eq_lessEq_flip {O : FloatOps F} (hO : FloatOrder O) (cfg : Cfg) (a b : Value F) :
    greaterEq cfg O a b = lessEq cfg O b a := by
  simp only [greaterEq, lessEq]
  cases h : less O b a with
  | ok l =>
    cases l with
    | true => rfl
    | false =>
      have hm := (less_ok_iff O b a).mp ⟨false, h⟩
      have hd : depth a = 0 ∧ depth b = 0 := by cases a <;> cases b <;> simp_all [ltMatrix, Value.ty, depth]
      simp only [equal_scalar cfg O a b hd.1, equal_scalar cfg O b a hd.2, simple_symm hO a b]
  | err => rfl
  | panic => rfl
  | fuel => rfl

/-! ### `~`, `switch` -/

theorem containsItem_true_iff (cfg : Cfg) (O : FloatOps F) (x : Value F) : ∀ l : List (Value F),
    containsItem cfg O x l = .ok true ↔
      ∃ pre v post, l = pre ++ v :: post ∧ equal cfg O x v = .ok true ∧ ∀ u ∈ pre, equal cfg O x u = .ok false
  | [] => by simp [containsItem]
  | w :: ws => by
    simp only [containsItem]
    have ih := containsItem_true_iff cfg O x ws
    constructor
    · intro h
      split at h
      · rename_i h0
        rcases ih.mp h with ⟨pre, v, post, rfl, hv, hpre⟩
        refine ⟨w :: pre, v, post, rfl, hv, ?_⟩
        intro u hu
        rcases List.mem_cons.mp hu with rfl | hu
        · exact h0
        · exact hpre u hu
      · exact ⟨[], w, ws, rfl, h, by simp⟩
    · rintro ⟨pre, v, post, hl, hv, hpre⟩
      cases pre with
      | nil =>
        simp only [List.nil_append, List.cons.injEq] at hl
        rw [hl.1, hv]
      | cons p pre =>
        simp only [List.cons_append, List.cons.injEq] at hl
        have h0 := hpre p List.mem_cons_self
        rw [← hl.1] at h0
        simp only [h0]
        exact ih.mpr ⟨pre, v, post, hl.2, hv, fun u hu => hpre u (List.mem_cons_of_mem _ hu)⟩

theorem containsItem_false_iff (cfg : Cfg) (O : FloatOps F) (x : Value F) : ∀ l : List (Value F),
    containsItem cfg O x l = .ok false ↔ ∀ u ∈ l, equal cfg O x u = .ok false
  | [] => by simp [containsItem]
  | w :: ws => by
    simp only [containsItem, List.mem_cons, forall_eq_or_imp]
    have ih := containsItem_false_iff cfg O x ws
    constructor
    · intro h
      split at h
      · rename_i h0
        exact ⟨h0, ih.mp h⟩
      · rename_i hne
        exact absurd h hne
    · rintro ⟨h0, hall⟩
      simp only [h0]
      exact ih.mpr hall

theorem switchSel_some_iff (cfg : Cfg) (O : FloatOps F) (v : Value F) : ∀ (cs : List (Value F)) (i : Nat),
    switchSel cfg O v cs = .ok (some i) ↔
      ∃ c, cs[i]? = some c ∧ equal cfg O v c = .ok true ∧ ∀ u ∈ cs.take i, equal cfg O v u = .ok false
  | [], i => by simp [switchSel]
  | c :: cs, i => by
    simp only [switchSel]
    have ih := switchSel_some_iff cfg O v cs
    cases h0 : equal cfg O v c with
    | ok b =>
      cases b with
      | true =>
        cases i with
        | zero => simp [h0]
        | succ i => simp [h0]
      | false =>
        cases i with
        | zero =>
          simp only [List.getElem?_cons_zero, Option.some.injEq, exists_eq_left', h0]
          cases switchSel cfg O v cs with
          | ok r => cases r <;> simp
          | err => simp
          | panic => simp
          | fuel => simp
        | succ i =>
          simp only [List.getElem?_cons_succ, List.take_succ_cons, List.mem_cons, forall_eq_or_imp, h0, true_and]
          rw [← ih i]
          cases switchSel cfg O v cs with
          | ok r => cases r <;> simp
          | err => simp
          | panic => simp
          | fuel => simp
    | err =>
      cases i with
      | zero => simp [h0]
      | succ i => simp [h0]
    | panic =>
      cases i with
      | zero => simp [h0]
      | succ i => simp [h0]
    | fuel =>
      cases i with
      | zero => simp [h0]
      | succ i => simp [h0]

theorem switchSel_none_iff (cfg : Cfg) (O : FloatOps F) (v : Value F) : ∀ (cs : List (Value F)),
    switchSel cfg O v cs = .ok none ↔ ∀ c ∈ cs, equal cfg O v c = .ok false
  | [] => by simp [switchSel]
  | c :: cs => by
    simp only [switchSel, List.mem_cons, forall_eq_or_imp]
    have ih := switchSel_none_iff cfg O v cs
    cases h0 : equal cfg O v c with
    | ok b =>
      cases b with
      | true => simp
      | false =>
        simp only [true_and]
        rw [← ih]
        cases switchSel cfg O v cs with
        | ok r => cases r <;> simp
        | err => simp
        | panic => simp
        | fuel => simp
    | err => simp
    | panic => simp
    | fuel => simp

/-! ### min / max -/

theorem minFold_spec {O : FloatOps F} (hO : FloatOrder O) : ∀ (vs : List (Value F)) (m r : Value F),
    (∀ x ∈ m :: vs, numInRange x = true) → minFold O m vs = .ok r →
      r ∈ m :: vs ∧ (less O r m = .ok true ∨ r = m) ∧ ∀ x ∈ vs, less O x r ≠ .ok true
  | [], m, r, _, h => by
    simp only [minFold, Res.ok.injEq] at h
    subst h
    simp
  | v :: vs, m, r, hr, h => by
    simp only [minFold] at h
    have hrm := hr m List.mem_cons_self
    have hrv := hr v (List.mem_cons_of_mem _ List.mem_cons_self)
    split at h
    · rename_i hvm
      have ih := minFold_spec hO vs v r (fun x hx => hr x (List.mem_cons_of_mem _ hx)) h
      have hrr := hr r (List.mem_cons_of_mem _ ih.1)
      refine ⟨List.mem_cons_of_mem _ ih.1, ?_, ?_⟩
      · rcases ih.2.1 with h1 | rfl
        · exact Or.inl (less_trans hO r v m hrr hrv hrm h1 hvm)
        · exact Or.inl hvm
      · intro x hx
        rcases List.mem_cons.mp hx with rfl | hx
        · rcases ih.2.1 with h1 | h1
          · rw [less_asymm hO r x h1]; simp
          · rw [h1]; exact less_irrefl hO x
        · exact ih.2.2 x hx
    · rename_i hvm
      have ih := minFold_spec hO vs m r (fun x hx => by
        rcases List.mem_cons.mp hx with rfl | hx
        · exact hrm
        · exact hr x (List.mem_cons_of_mem _ (List.mem_cons_of_mem _ hx))) h
      have hmem : r ∈ m :: v :: vs := by
        rcases List.mem_cons.mp ih.1 with rfl | h1
        · exact List.mem_cons_self
        · exact List.mem_cons_of_mem _ (List.mem_cons_of_mem _ h1)
      have hrr := hr r hmem
      refine ⟨hmem, ih.2.1, ?_⟩
      intro x hx
      rcases List.mem_cons.mp hx with rfl | hx
      · rcases ih.2.1 with h1 | rfl
        · intro hxr
          have := less_trans hO x r m hrv hrr hrm hxr h1
          rw [hvm] at this
          simp at this
        · rw [hvm]; simp
      · exact ih.2.2 x hx
    · simp at h
    · simp at h
    · simp at h

theorem maxFold_spec {O : FloatOps F} (hO : FloatOrder O) : ∀ (vs : List (Value F)) (m r : Value F),
    (∀ x ∈ m :: vs, numInRange x = true) → maxFold O m vs = .ok r →
      r ∈ m :: vs ∧ (less O m r = .ok true ∨ r = m) ∧ ∀ x ∈ vs, less O r x ≠ .ok true
  | [], m, r, _, h => by
    simp only [maxFold, Res.ok.injEq] at h
    subst h
    simp
  | v :: vs, m, r, hr, h => by
    simp only [maxFold] at h
    have hrm := hr m List.mem_cons_self
    have hrv := hr v (List.mem_cons_of_mem _ List.mem_cons_self)
    split at h
    · rename_i hmv
      have ih := maxFold_spec hO vs v r (fun x hx => hr x (List.mem_cons_of_mem _ hx)) h
      have hrr := hr r (List.mem_cons_of_mem _ ih.1)
      refine ⟨List.mem_cons_of_mem _ ih.1, ?_, ?_⟩
      · rcases ih.2.1 with h1 | rfl
        · exact Or.inl (less_trans hO m v r hrm hrv hrr hmv h1)
        · exact Or.inl hmv
      · intro x hx
        rcases List.mem_cons.mp hx with rfl | hx
        · rcases ih.2.1 with h1 | h1
          · rw [less_asymm hO x r h1]; simp
          · rw [h1]; exact less_irrefl hO x
        · exact ih.2.2 x hx
    · rename_i hmv
      have ih := maxFold_spec hO vs m r (fun x hx => by
        rcases List.mem_cons.mp hx with rfl | hx
        · exact hrm
        · exact hr x (List.mem_cons_of_mem _ (List.mem_cons_of_mem _ hx))) h
      have hmem : r ∈ m :: v :: vs := by
        rcases List.mem_cons.mp ih.1 with rfl | h1
        · exact List.mem_cons_self
        · exact List.mem_cons_of_mem _ (List.mem_cons_of_mem _ h1)
      have hrr := hr r hmem
      refine ⟨hmem, ih.2.1, ?_⟩
      intro x hx
      rcases List.mem_cons.mp hx with rfl | hx
      · rcases ih.2.1 with h1 | rfl
        · intro hrx
          have := less_trans hO m r x hrm hrr hrv h1 hrx
          rw [hmv] at this
          simp at this
        · rw [hmv]; simp
      · exact ih.2.2 x hx
    · simp at h
    · simp at h
    · simp at h

/-! ### order -/

/-- neighbours are related -/
def Chain {α : Type} (R : α → α → Prop) : List α → Prop
  | [] => True
  | [_] => True
  | a :: b :: r => R a b ∧ Chain R (b :: r)

theorem chain_append_singleton {α : Type} {R : α → α → Prop} : ∀ (l : List α) (a : α),
    Chain R l → (∀ z, l.getLast? = some z → R z a) → Chain R (l ++ [a])
  | [], _, _, _ => trivial
  | [x], a, _, h => ⟨h x rfl, trivial⟩
  | x :: y :: r, a, hc, h => by
    refine ⟨hc.1, ?_⟩
    exact chain_append_singleton (y :: r) a hc.2 (fun z hz => h z (by simpa [List.getLast?_cons_cons] using hz))

theorem chain_reverse {α : Type} {R : α → α → Prop} : ∀ (l : List α),
    Chain R l → Chain (fun a b => R b a) l.reverse
  | [], _ => trivial
  | [_], _ => trivial
  | x :: y :: r, hc => by
    rw [List.reverse_cons]
    apply chain_append_singleton _ _ (chain_reverse (y :: r) hc.2)
    intro z hz
    rw [List.getLast?_reverse] at hz
    simp only [List.head?_cons, Option.some.injEq] at hz
    subst hz
    exact hc.1

/-- the (reversed) sorted prefix: every element is comparable with the one before it and not less -/
def RevSorted (O : FloatOps F) : List (Value F) → Prop := Chain (fun later earlier => less O later earlier = .ok false)

/-- ascending: every element is comparable with its predecessor and not less than it -/
def AscSorted (O : FloatOps F) : List (Value F) → Prop := Chain (fun earlier later => less O later earlier = .ok false)

theorem insRev_head (O : FloatOps F) (x : Value F) : ∀ (acc r : List (Value F)),
    insRev O x acc = .ok r → r.head? = some x ∨ (r.head? = acc.head? ∧ ∃ y, acc.head? = some y ∧ less O x y = .ok true)
  | [], r, h => by
    simp only [insRev, Res.ok.injEq] at h
    subst h; simp
  | y :: ys, r, h => by
    simp only [insRev] at h
    split at h
    · rename_i hxy
      split at h
      · simp only [Res.ok.injEq] at h
        subst h
        exact Or.inr ⟨rfl, y, rfl, hxy⟩
      · rename_i hne
        cases hh : insRev O x ys <;> simp_all
    · simp only [Res.ok.injEq] at h
      subst h; simp
    · simp at h
    · simp at h
    · simp at h

theorem insRev_spec {O : FloatOps F} (hO : FloatOrder O) (x : Value F) : ∀ (acc r : List (Value F)),
    RevSorted O acc → insRev O x acc = .ok r → RevSorted O r ∧ r.Perm (x :: acc)
  | [], r, _, h => by
    simp only [insRev, Res.ok.injEq] at h
    subst h
    exact ⟨trivial, List.Perm.refl _⟩
  | y :: ys, r, hs, h => by
    simp only [insRev] at h
    split at h
    · rename_i hxy
      cases hh : insRev O x ys with
      | ok r' =>
        simp only [hh, Res.ok.injEq] at h
        subst h
        have hs' : RevSorted O ys := by
          cases ys with
          | nil => trivial
          | cons z zs => exact hs.2
        have ih := insRev_spec hO x ys r' hs' hh
        refine ⟨?_, ?_⟩
        · cases r' with
          | nil => trivial
          | cons z zs =>
            refine ⟨?_, ih.1⟩
            rcases insRev_head O x ys (z :: zs) hh with h1 | ⟨h1, _⟩
            · simp only [List.head?_cons, Option.some.injEq] at h1
              subst h1
              exact less_asymm hO z y hxy
            · cases ys with
              | nil => simp at h1
              | cons w ws =>
                simp only [List.head?_cons, Option.some.injEq] at h1
                subst h1
                exact hs.1
        · exact (List.Perm.cons y ih.2).trans (List.Perm.swap x y ys)
      | err => simp [hh] at h
      | panic => simp [hh] at h
      | fuel => simp [hh] at h
    · rename_i hxy
      simp only [Res.ok.injEq] at h
      subst h
      exact ⟨⟨hxy, hs⟩, List.Perm.refl _⟩
    · simp at h
    · simp at h
    · simp at h

theorem orderLoop_spec {O : FloatOps F} (hO : FloatOrder O) : ∀ (xs acc r : List (Value F)),
    RevSorted O acc → orderLoop O xs acc = .ok r → AscSorted O r ∧ r.Perm (xs ++ acc)
  | [], acc, r, hs, h => by
    simp only [orderLoop, Res.ok.injEq] at h
    subst h
    exact ⟨chain_reverse acc hs, by simp⟩
  | x :: xs, acc, r, hs, h => by
    simp only [orderLoop] at h
    cases hh : insRev O x acc with
    | ok acc' =>
      simp only [hh] at h
      have h1 := insRev_spec hO x acc acc' hs hh
      have ih := orderLoop_spec hO xs acc' r h1.1 h
      refine ⟨ih.1, ih.2.trans ?_⟩
      have : (xs ++ acc').Perm (xs ++ x :: acc) := List.Perm.append_left xs h1.2
      exact this.trans (by simp)
    | err => simp [hh] at h
    | panic => simp [hh] at h
    | fuel => simp [hh] at h

/-- a comparison error anywhere makes `order` fail: if it succeeds, `<` was defined on every
neighbouring pair it placed (here: the result is at least free of incomparable neighbours) -/
theorem insRev_tri (O : FloatOps F) (x : Value F) : ∀ acc : List (Value F),
    (∃ r, insRev O x acc = .ok r) ∨ insRev O x acc = .err
  | [] => Or.inl ⟨[x], rfl⟩
  | y :: ys => by
    simp only [insRev]
    have := less_tri O x y
    cases h : less O x y with
    | ok b =>
      cases b with
      | true =>
        rcases insRev_tri O x ys with ⟨r, hr⟩ | hr
        · exact Or.inl ⟨y :: r, by simp [hr]⟩
        · exact Or.inr (by simp [hr])
      | false => exact Or.inl ⟨_, rfl⟩
    | err => exact Or.inr rfl
    | panic => rw [h] at this; exact this.elim
    | fuel => rw [h] at this; exact this.elim

/-- away from NaN (and with exact ints) "comparable and not less" is transitive -/
theorem less_negtrans {O : FloatOps F} (hO : FloatOrder O) (a b c : Value F)
    (ha : numInRange a = true) (hb : numInRange b = true) (hc : numInRange c = true)
    (pa : plain O a = true) (pb : plain O b = true) (pc : plain O c = true) :
    less O b a = .ok false → less O c b = .ok false → less O c a = .ok false := by
  cases a <;> cases b <;> cases c <;> simp [less] <;>
    simp only [numInRange] at ha hb hc <;> simp only [plain, Bool.not_eq_true'] at pa pb pc
  · omega
  · rename_i i j f
    intro h1 h2
    refine hO.flt_negtrans _ _ _ (hO.ofInt_notNaN i) (hO.ofInt_notNaN j) pc ?_ h2
    rw [hO.ofInt_lt j i hb ha]; simpa using h1
  · rename_i i f j
    intro h1 h2
    have := hO.flt_negtrans _ _ _ (hO.ofInt_notNaN i) pb (hO.ofInt_notNaN j) h1 h2
    rw [hO.ofInt_lt j i hc ha] at this
    simpa using this
  · rename_i i f g
    exact hO.flt_negtrans _ _ _ (hO.ofInt_notNaN i) pb pc
  · rename_i f i j
    intro h1 h2
    refine hO.flt_negtrans _ _ _ pa (hO.ofInt_notNaN i) (hO.ofInt_notNaN j) h1 ?_
    rw [hO.ofInt_lt j i hc hb]; simpa using h2
  · rename_i f i g
    exact hO.flt_negtrans _ _ _ pa (hO.ofInt_notNaN i) pc
  · rename_i f g i
    exact hO.flt_negtrans _ _ _ pa pb (hO.ofInt_notNaN i)
  · exact hO.flt_negtrans _ _ _ pa pb pc
  · exact ltChars_negtrans _ _ _

theorem chain_pairwise {α : Type} {R : α → α → Prop} : ∀ (l : List α),
    (∀ a ∈ l, ∀ b ∈ l, ∀ c ∈ l, R a b → R b c → R a c) → Chain R l → l.Pairwise R
  | [], _, _ => List.Pairwise.nil
  | [x], _, _ => List.pairwise_singleton R x
  | x :: y :: r, ht, hc => by
    have ih := chain_pairwise (y :: r)
      (fun a ha b hb c hc => ht a (List.mem_cons_of_mem _ ha) b (List.mem_cons_of_mem _ hb) c (List.mem_cons_of_mem _ hc)) hc.2
    refine List.Pairwise.cons ?_ ih
    intro z hz
    rcases List.mem_cons.mp hz with rfl | hz
    · exact hc.1
    · have hyz := (List.pairwise_cons.mp ih).1 z hz
      exact ht x List.mem_cons_self y (List.mem_cons_of_mem _ List.mem_cons_self) z
        (List.mem_cons_of_mem _ (List.mem_cons_of_mem _ hz)) hc.1 hyz

/-! ### incomparable operands -/

theorem equal_err_of_undefined (cfg : Cfg) (O : FloatOps F) (a b : Value F)
    (h : opDefined .eq a.ty b.ty = false) : equal cfg O a b = .err := by
  rw [equal_unfold]
  cases a <;> cases b <;> simp_all [opDefined, eqMatrix, Value.ty, deepCalc, simple]

theorem tilde_err_of_undefined (cfg : Cfg) (O : FloatOps F) (a b : Value F)
    (h : opDefined .tilde a.ty b.ty = false) : tilde cfg O a b = .err := by
  cases a <;> cases b <;> simp_all [opDefined, Value.ty, tilde]

end P2.Cmp
