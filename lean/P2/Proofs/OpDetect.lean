import P2.Model.OpDetect
/-! Theorems about the operator detector model (`P2/Model/OpDetect.lean`):
maximal munch under the "no longer candidate" side condition, the greedy-without-backtracking witness,
and soundness of a positive answer. -/
namespace P2.OpDetect

/-! ## basic facts about nodes -/

theorem mem_child {S : Node} {r : Char} {s : List Char} : s ∈ child S r ↔ r :: s ∈ S := by
  unfold child
  rw [List.mem_filterMap]
  constructor
  · rintro ⟨a, ha, h⟩
    cases a with
    | nil => simp at h
    | cons c tl =>
      by_cases hc : c = r
      · simp [hc] at h; subst hc; subst h; exact ha
      · simp [hc] at h
  · intro h
    exact ⟨r :: s, h, by simp⟩

theorem endValid_iff {S : Node} : endValid S = true ↔ [] ∈ S := by
  unfold endValid
  rw [List.any_eq_true]
  constructor
  · rintro ⟨x, hx, h⟩
    cases x with
    | nil => exact hx
    | cons _ _ => simp at h
  · intro h; exact ⟨[], h, rfl⟩

/-- a node that has a child for `r` hands out exactly that child -/
theorem step_of_mem {S : Node} {r : Char} {s : List Char} (h : r :: s ∈ S) :
    step S r = (some (child S r), true) := by
  have hne : S ≠ [[]] := by
    intro e; rw [e] at h; simp at h
  have hc : (child S r).isEmpty = false := by
    have : s ∈ child S r := mem_child.2 h
    cases hcs : child S r with
    | nil => rw [hcs] at this; simp at this
    | cons _ _ => rfl
  simp [step, hne, hc]

/-- a node that contains the empty suffix and has no child for `r` answers `(nil, true)`
(through `endIsValid`, or through the special case `[""]` — same answer) -/
theorem step_end {S : Node} {r : Char} (hE : [] ∈ S) (hno : ∀ s, r :: s ∉ S) :
    step S r = (none, true) := by
  have hc : child S r = [] := by
    cases hcs : child S r with
    | nil => rfl
    | cons a l =>
      have : a ∈ child S r := by rw [hcs]; simp
      exact absurd (mem_child.1 this) (hno a)
  by_cases hs : S = [[]]
  · simp [step, hs]
  · simp [step, hs, hc, endValid_iff.2 hE]

/-- whenever a node answers `(nil, true)` the empty suffix is in it -/
theorem nil_mem_of_step {S : Node} {r : Char} (h : step S r = (none, true)) : [] ∈ S := by
  unfold step at h
  split at h
  · next hs => rw [hs]; simp
  · simp only at h
    split at h
    · simp only [Prod.mk.injEq, true_and] at h
      exact endValid_iff.1 h
    · simp at h

/-- the node handed out by `step` is the child, and it is not empty -/
theorem step_some {S c : Node} {r : Char} {ok : Bool} (h : step S r = (some c, ok)) :
    c = child S r ∧ c ≠ [] := by
  unfold step at h
  split at h
  · simp at h
  · simp only at h
    split at h
    · simp at h
    · next hc =>
      simp only [Prod.mk.injEq, Option.some.injEq] at h
      refine ⟨h.1.symm, ?_⟩
      rw [← h.1]; intro e; rw [e] at hc; simp at hc

/-! ## the fuel of `walkEOF` is always sufficient -/

theorem size_child_add_length_le (S : Node) (r : Char) :
    size (child S r) + (child S r).length ≤ size S := by
  induction S with
  | nil => simp [child, size]
  | cons a S ih =>
    have ih' : size (child S r) + (child S r).length ≤ size S := ih
    cases a with
    | nil =>
      have : child ([] :: S) r = child S r := by simp [child]
      rw [this]
      simp only [size, List.map_cons, List.sum_cons, List.length_nil] at ih' ⊢
      omega
    | cons c tl =>
      by_cases hc : c = r
      · have : child ((c :: tl) :: S) r = tl :: child S r := by simp [child, hc]
        rw [this]
        simp only [size, List.map_cons, List.sum_cons, List.length_cons] at ih' ⊢
        omega
      · have : child ((c :: tl) :: S) r = child S r := by simp [child, hc]
        rw [this]
        simp only [size, List.map_cons, List.sum_cons, List.length_cons] at ih' ⊢
        omega

theorem size_child_lt {S : Node} {r : Char} (h : child S r ≠ []) : size (child S r) < size S := by
  have := size_child_add_length_le S r
  have hl : 0 < (child S r).length := List.length_pos_iff.2 h
  omega

/-- any fuel above `size S` gives the same result: the out-of-fuel branch of `walkEOF` is never
reached from `walk`/`scanOp`. -/
theorem walkEOF_fuel : ∀ (n m : Nat) (S : Node) (acc : List Char),
    size S < n → size S < m → walkEOF n S acc = walkEOF m S acc := by
  intro n
  induction n with
  | zero => intro m S acc h; omega
  | succ n ih =>
    intro m S acc hn hm
    cases m with
    | zero => omega
    | succ m =>
      simp only [walkEOF]
      split
      · rfl
      · next c ok hs =>
        obtain ⟨hc, hne⟩ := step_some hs
        have : size c < size S := by rw [hc]; rw [hc] at hne; exact size_child_lt hne
        exact ih m c (acc ++ [nul]) (by omega) (by omega)

/-! ## maximal munch -/

theorem walk_longest (o : List Char) : ∀ (S : Node) (acc rest : List Char),
    o ∈ S → (∀ s ∈ S, ¬ (o ++ [nextRune rest]) <+: s) →
    walk S acc (o ++ rest) = (acc ++ o, true, rest) := by
  induction o with
  | nil =>
    intro S acc rest hE hno
    have hno' : ∀ s, nextRune rest :: s ∉ S := by
      intro s hs
      exact hno _ hs ⟨s, rfl⟩
    cases rest with
    | nil =>
      simp only [List.append_nil, walk, walkEOF]
      rw [step_end hE (r := nul) hno']
    | cons r rest =>
      simp only [List.nil_append, walk]
      rw [step_end hE (r := r) hno']
      simp
  | cons c o ih =>
    intro S acc rest hm hno
    simp only [List.cons_append, walk]
    rw [step_of_mem hm]
    simp only
    rw [ih (child S c) (acc ++ [c]) rest (mem_child.2 hm)]
    · simp
    · intro s hs hp
      apply hno (c :: s) (mem_child.1 hs)
      obtain ⟨t, ht⟩ := hp
      exact ⟨t, by simp [← ht]⟩

/-- **Maximal munch.** If `o` is an operator and no operator continues `o` with the rune that follows
it in the input (rune 0 at the end of the input), `parseOperator` returns exactly `o`, flags it as an
operator and leaves the rest of the input untouched — whatever other operators there are. -/
theorem detector_longest (ops : List (List Char)) (o : List Char) (ho : o ∈ ops) (hne : o ≠ [])
    (rest : List Char) (hmax : ∀ o' ∈ ops, ¬ (o ++ [nextRune rest]) <+: o') :
    scanOp ops (o ++ rest) = (o, true, rest) := by
  cases o with
  | nil => exact absurd rfl hne
  | cons c o =>
    simp only [List.cons_append, scanOp]
    rw [step_of_mem ho]
    simp only
    rw [walk_longest o (child ops c) [c] rest (mem_child.2 ho)]
    · simp
    · intro s hs hp
      apply hmax (c :: s) (mem_child.1 hs)
      obtain ⟨t, ht⟩ := hp
      exact ⟨t, by simp [← ht]⟩

/-- The walk is greedy and never backtracks: with the operators `<` and `<=>` the input `<= ` is
answered with the *invalid* text `<=`, not with the operator `<`, although `<` is an operator and a
prefix of the input. This is why `detector_longest` needs its side condition. -/
theorem detector_not_longest_witness :
    scanOp ["<".toList, "<=>".toList] "<= ".toList = ("<=".toList, false, " ".toList) := by
  decide

/-! ## soundness of a positive answer -/

theorem walkEOF_sound (ops : Node) : ∀ (fuel : Nat) (S : Node) (acc op rest : List Char),
    (∀ s ∈ S, acc ++ s ∈ ops) → walkEOF fuel S acc = (op, true, rest) →
    op ∈ ops ∧ rest = [] ∧ ∃ k, op = acc ++ List.replicate k nul := by
  intro fuel
  induction fuel with
  | zero => intro S acc op rest _ h; simp [walkEOF] at h
  | succ n ih =>
    intro S acc op rest hinv h
    simp only [walkEOF] at h
    split at h
    · next ok hs =>
      simp only [Prod.mk.injEq] at h
      obtain ⟨h1, h2, h3⟩ := h
      subst h1; subst h2
      have := hinv [] (nil_mem_of_step hs)
      exact ⟨by simpa using this, h3.symm, 0, by simp⟩
    · next c ok hs =>
      obtain ⟨hc, _⟩ := step_some hs
      have hinv' : ∀ s ∈ c, (acc ++ [nul]) ++ s ∈ ops := by
        intro s hs'
        rw [hc] at hs'
        have := hinv _ (mem_child.1 hs')
        simpa using this
      obtain ⟨h1, h2, k, hk⟩ := ih c (acc ++ [nul]) op rest hinv' h
      refine ⟨h1, h2, k + 1, ?_⟩
      rw [hk, List.replicate_succ]; simp

theorem walk_sound (ops : Node) : ∀ (input : List Char) (S : Node) (acc op rest : List Char),
    (∀ s ∈ S, acc ++ s ∈ ops) → walk S acc input = (op, true, rest) →
    op ∈ ops ∧ ((rest ≠ [] ∨ ∀ o ∈ ops, nul ∉ o) → acc ++ input = op ++ rest) := by
  intro input
  induction input with
  | nil =>
    intro S acc op rest hinv h
    simp only [walk] at h
    obtain ⟨h1, h2, k, hk⟩ := walkEOF_sound ops _ S acc op rest hinv h
    refine ⟨h1, ?_⟩
    intro hor
    cases hor with
    | inl hr => exact absurd h2 hr
    | inr hn =>
      cases k with
      | zero => simp [hk, h2]
      | succ k =>
        exfalso
        apply hn op h1
        rw [hk, List.replicate_succ]; simp
  | cons r input ih =>
    intro S acc op rest hinv h
    simp only [walk] at h
    split at h
    · next ok hs =>
      simp only [Prod.mk.injEq] at h
      obtain ⟨h1, h2, h3⟩ := h
      subst h1; subst h2
      have := hinv [] (nil_mem_of_step hs)
      exact ⟨by simpa using this, fun _ => by rw [h3]⟩
    · next c ok hs =>
      obtain ⟨hc, _⟩ := step_some hs
      have hinv' : ∀ s ∈ c, (acc ++ [r]) ++ s ∈ ops := by
        intro s hs'
        rw [hc] at hs'
        have := hinv _ (mem_child.1 hs')
        simpa using this
      obtain ⟨h1, h2⟩ := ih c (acc ++ [r]) op rest hinv' h
      exact ⟨h1, fun hor => by simpa using h2 hor⟩

theorem walkEOF_prefix : ∀ (fuel : Nat) (S : Node) (acc : List Char),
    acc <+: (walkEOF fuel S acc).1 := by
  intro fuel
  induction fuel with
  | zero => intro S acc; simp [walkEOF]
  | succ n ih =>
    intro S acc
    simp only [walkEOF]
    split
    · simp
    · next c ok hs =>
      exact List.IsPrefix.trans (List.prefix_append acc [nul]) (ih c (acc ++ [nul]))

theorem walk_prefix : ∀ (input : List Char) (S : Node) (acc : List Char),
    acc <+: (walk S acc input).1 := by
  intro input
  induction input with
  | nil => intro S acc; simp only [walk]; exact walkEOF_prefix _ S acc
  | cons r input ih =>
    intro S acc
    simp only [walk]
    split
    · simp
    · next c ok hs =>
      exact List.IsPrefix.trans (List.prefix_append acc [r]) (ih c (acc ++ [r]))

/-- **Soundness.** Whenever `parseOperator` flags its result as an operator, the text *is* one of the
operators (also when the walk ended in the special-case node `[""]`), and it is not empty.
The text and the remaining input split the input exactly, provided the scan did not run into the end
of the input (`rest ≠ []`) or no operator contains U+0000 — at the end of the input `next` delivers
rune 0, and an operator continuing with U+0000 would swallow runes that are not in the input. -/
theorem detector_sound (ops : List (List Char)) (input op rest : List Char)
    (h : scanOp ops input = (op, true, rest)) :
    op ∈ ops ∧ op ≠ [] ∧ ((rest ≠ [] ∨ ∀ o ∈ ops, nul ∉ o) → input = op ++ rest) := by
  unfold scanOp at h
  split at h
  · -- end of input
    split at h
    · simp at h
    · next c hs =>
      have hs' : step ops nul = (some c, (step ops nul).2) := by rw [← hs]
      obtain ⟨hc, _⟩ := step_some hs'
      have hinv : ∀ s ∈ c, [nul] ++ s ∈ ops := by
        intro s hm; rw [hc] at hm; exact mem_child.1 hm
      obtain ⟨h1, h2, k, hk⟩ := walkEOF_sound ops _ c [nul] op rest hinv h
      refine ⟨h1, by rw [hk]; simp, ?_⟩
      intro hor
      cases hor with
      | inl hr => exact absurd h2 hr
      | inr hn => exfalso; apply hn op h1; rw [hk]; simp
  · next r input =>
    split at h
    · simp at h
    · next c hs =>
      have hs' : step ops r = (some c, (step ops r).2) := by rw [← hs]
      obtain ⟨hc, _⟩ := step_some hs'
      have hinv : ∀ s ∈ c, [r] ++ s ∈ ops := by
        intro s hm; rw [hc] at hm; exact mem_child.1 hm
      obtain ⟨h1, h2⟩ := walk_sound ops input c [r] op rest hinv h
      refine ⟨h1, ?_, fun hor => by simpa using h2 hor⟩
      intro e
      have hp := walk_prefix input c [r]
      rw [h, e] at hp
      simp at hp

/-! ## sanity checks -/

def sampleOps : List (List Char) := ["<".toList, "<=".toList, "=".toList, "->".toList, "-".toList]

example : scanOp sampleOps "<=x".toList = ("<=".toList, true, "x".toList) := by decide
example : scanOp sampleOps "-> y".toList = ("->".toList, true, " y".toList) := by decide
example : scanOp sampleOps "?".toList = ("?".toList, false, []) := by decide
example : scanOp sampleOps "<".toList = ("<".toList, true, []) := by decide
example : scanOp sampleOps "-x".toList = ("-".toList, true, "x".toList) := by decide
/-- the root of `NewOperatorDetector([""])` is the special-case node: it returns `nil`, nothing is an operator -/
example : scanOp [[]] "+".toList = ("+".toList, false, []) := by decide
/-- at the end of the input the single "consumed" rune is rune 0 -/
example : scanOp sampleOps [] = ([nul], false, []) := by decide

/-- duplicates: the child `["", ""]` is not the special-case node but answers the same -/
example : scanOp ["a".toList, "a".toList] "ab".toList = ("a".toList, true, "b".toList) := by decide
/-- at the end of the input an operator that continues with U+0000 swallows the rune-0 sentinels
(why `detector_sound` states the split of the input only for `rest ≠ []` or U+0000-free operators) -/
example : scanOp [['a', nul, nul]] ['a'] = (['a', nul, nul], true, []) := by decide

#print axioms detector_longest
#print axioms detector_not_longest_witness
#print axioms detector_sound

end P2.OpDetect
