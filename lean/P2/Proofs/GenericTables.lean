import P2.Proofs.GenericOpt
/-! Per-operator form of the laws, and the operators of the two example tables that satisfy them. -/
namespace P2.Generic
variable {V : Type}

/-- both regrouping identities for one operator implementation -/
def OpLaws (f : V → V → Option V) : Prop :=
  (∀ c1 c2 co, f c1 c2 = some co → ∀ x, (f c1 x).bind (fun y => f y c2) = f co x) ∧
  (∀ c1 c2 co, f c1 c2 = some co → ∀ x, (f x c1).bind (fun y => f y c2) = f x co)

theorem Laws.of_ops (t : Table V) (h : ∀ o, t.comm o = true → OpLaws (t.sem o)) : Laws t :=
  ⟨fun o hc => (h o hc).1, fun o hc => (h o hc).2⟩

theorem Laws.to_ops {t : Table V} (h : Laws t) (o : String) (hc : t.comm o = true) : OpLaws (t.sem o) :=
  ⟨h.left o hc, h.right o hc⟩

/-- an associative and commutative total operator satisfies both identities -/
theorem OpLaws.of_assoc_comm (f : V → V → V) (hc : ∀ a b, f a b = f b a) (ha : ∀ a b c, f (f a b) c = f a (f b c)) :
    OpLaws (fun a b => some (f a b)) := by
  refine ⟨?_, ?_⟩
  · intro c1 c2 co h x
    simp only [Option.some.injEq] at h; subst h
    simp only [Option.bind_some, Option.some.injEq]
    rw [ha, hc x c2, ← ha]
  · intro c1 c2 co h x
    simp only [Option.some.injEq] at h; subst h
    simp only [Option.bind_some, Option.some.injEq]
    rw [ha]

theorem opFlags_comm_mem (ops : List OpRow) (o : String) (h : (opFlags ops o).2 = true) :
    o ∈ flaggedCommutative ops := by
  unfold opFlags at h
  split at h
  · rename_i r hr
    have hm := List.mem_of_find?_eq_some hr
    have hp := List.find?_some hr
    simp only [beq_iff_eq] at hp
    simp only [flaggedCommutative, List.mem_map, List.mem_filter]
    exact ⟨r, ⟨hm, h⟩, hp⟩
  · simp at h

/-- Tie-1 obligation shape: every operator the extracted table flags commutative lies in a set of
operators proved lawful for the modelled semantics ⇒ the table satisfies `Laws`. -/
theorem laws_of_flags (sem : String → V → V → Option V) (lawful : List String)
    (hlaw : ∀ o ∈ lawful, OpLaws (sem o)) (ops : List OpRow)
    (hsub : ∀ o ∈ flaggedCommutative ops, o ∈ lawful)
    (t : Table V) (hs : t.sem = sem) (hc : t.comm = fun o => (opFlags ops o).2) : Laws t := by
  apply Laws.of_ops
  intro o ho
  rw [hs]
  apply hlaw
  apply hsub
  apply opFlags_comm_mem
  rw [hc] at ho
  exact ho

/-! ### `example/bool.go`: all four operators are associative and commutative on `Bool` -/

def boolLawful : List String := ["^", "=", "|", "&"]

theorem bool_lawful : ∀ o ∈ boolLawful, OpLaws (boolSem o) := by
  intro o ho
  simp only [boolLawful, List.mem_cons, List.not_mem_nil, or_false] at ho
  rcases ho with rfl | rfl | rfl | rfl
  · have e : boolSem "^" = fun a b => some (a != b) := by funext a b; simp [boolSem]
    rw [e]; exact OpLaws.of_assoc_comm (fun a b => a != b) (by decide) (by decide)
  · have e : boolSem "=" = fun a b => some (a == b) := by funext a b; simp [boolSem]
    rw [e]; exact OpLaws.of_assoc_comm (fun a b => a == b) (by decide) (by decide)
  · have e : boolSem "|" = fun a b => some (a || b) := by funext a b; simp [boolSem]
    rw [e]; exact OpLaws.of_assoc_comm (fun a b => a || b) (by decide) (by decide)
  · have e : boolSem "&" = fun a b => some (a && b) := by funext a b; simp [boolSem]
    rw [e]; exact OpLaws.of_assoc_comm (fun a b => a && b) (by decide) (by decide)

/-- an operator the model gives no meaning to never folds, so it is lawful vacuously -/
theorem boolSem_unmodelled (o : String) (h : o ∉ boolModelled) : OpLaws (boolSem o) := by
  simp only [boolModelled, List.mem_cons, List.not_mem_nil, or_false, not_or] at h
  obtain ⟨h1, h2, h3, h4⟩ := h
  refine ⟨?_, ?_⟩ <;> intro c1 c2 co hco <;> simp [boolSem, h1, h2, h3, h4] at hco

/-- for the boolean example every flag assignment is lawful -/
theorem boolTable_laws (ops : List OpRow) : Laws (boolTable ops) := by
  apply Laws.of_ops
  intro o _
  by_cases h : o ∈ boolModelled
  · exact bool_lawful o h
  · exact boolSem_unmodelled o h

/-! ### `example/minimal.go` over exact numbers: `+` and `*` -/

def minimalLawful : List String := ["+", "*"]

theorem minimal_lawful : ∀ o ∈ minimalLawful, OpLaws (minimalSem o) := by
  intro o ho
  simp only [minimalLawful, List.mem_cons, List.not_mem_nil, or_false] at ho
  rcases ho with rfl | rfl
  · have e : minimalSem "+" = fun a b => some (a + b) := by funext a b; simp [minimalSem]
    rw [e]; exact OpLaws.of_assoc_comm (fun a b : Rat => a + b) Rat.add_comm Rat.add_assoc
  · have e : minimalSem "*" = fun a b => some (a * b) := by funext a b; simp [minimalSem]
    rw [e]; exact OpLaws.of_assoc_comm (fun a b : Rat => a * b) Rat.mul_comm Rat.mul_assoc

/-- `=` on numbers (result coded 1/0) violates the first identity: `(2 = 2) = 1` but `(2 = 1) = 2` -/
theorem minimal_eq_unlawful : ¬ OpLaws (minimalSem "=") := by
  intro h
  have := h.1 2 1 0 (by decide +kernel) 2
  revert this
  decide +kernel

end P2.Generic
