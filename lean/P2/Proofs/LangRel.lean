import P2.Model.Lang.Sem
/-! # C01: the relations between the reference semantics and the compiled semantics

`RRel P` lifts a relation on results to outcomes (`ok` with related results, or the *same* failure).
`VRel` relates a value of the reference semantics to a value of the compiled semantics: scalars by
equality, lists / lazy-list stages / maps structurally, a reference closure `(params, body, env)` to a
compiled closure `(arity, code, ctx)` iff `code` is the compilation of `body` and `ctx` is `env`
projected on the closure's outer identifiers. `WA` is the (static) well-annotatedness predicate,
`EnvRel` the run-time invariant between an environment and a frame + closure context. -/
namespace P2.Lang

/-! ## outcomes -/

/-- the non-`ok` outcomes -/
inductive Fail where
  | err | panic | fuel | unmodelled

def Fail.toR {α : Type} : Fail → R α
  | .err => .err
  | .panic => .panic
  | .fuel => .fuel
  | .unmodelled => .unmodelled

@[simp] theorem Fail.toR_bind {α β} (e : Fail) (f : α → R β) : ((e.toR : R α) >>= f) = e.toR := by
  cases e <;> rfl

/-- related outcomes: both `ok` with related results, or the same kind of failure -/
def RRel {α β : Type} (P : α → β → Prop) : R α → R β → Prop
  | .ok a, .ok b => P a b
  | .err, .err => True
  | .panic, .panic => True
  | .fuel, .fuel => True
  | .unmodelled, .unmodelled => True
  | _, _ => False

@[simp] theorem RRel.ok_ok {α β} {P : α → β → Prop} {a b} : RRel P (.ok a) (.ok b) ↔ P a b := Iff.rfl
@[simp] theorem RRel.err_err {α β} {P : α → β → Prop} : RRel P (.err : R α) (.err : R β) := trivial
@[simp] theorem RRel.panic_panic {α β} {P : α → β → Prop} : RRel P (.panic : R α) (.panic : R β) := trivial
@[simp] theorem RRel.fuel_fuel {α β} {P : α → β → Prop} : RRel P (.fuel : R α) (.fuel : R β) := trivial
@[simp] theorem RRel.unm_unm {α β} {P : α → β → Prop} : RRel P (.unmodelled : R α) (.unmodelled : R β) := trivial

theorem RRel.fail {α β} {P : α → β → Prop} (e : Fail) : RRel P (e.toR : R α) (e.toR : R β) := by
  cases e <;> trivial

theorem RRel.cases {α β} {P : α → β → Prop} {x : R α} {y : R β} (h : RRel P x y) :
    (∃ a b, x = .ok a ∧ y = .ok b ∧ P a b) ∨ (∃ e : Fail, x = e.toR ∧ y = e.toR) := by
  cases x <;> cases y <;> simp only [RRel] at h <;> try contradiction
  · exact .inl ⟨_, _, rfl, rfl, h⟩
  · exact .inr ⟨.err, rfl, rfl⟩
  · exact .inr ⟨.panic, rfl, rfl⟩
  · exact .inr ⟨.fuel, rfl, rfl⟩
  · exact .inr ⟨.unmodelled, rfl, rfl⟩

theorem RRel.mono {α β} {P Q : α → β → Prop} {x : R α} {y : R β} (h : RRel P x y)
    (hpq : ∀ a b, P a b → Q a b) : RRel Q x y := by
  rcases h.cases with ⟨a, b, rfl, rfl, hp⟩ | ⟨e, rfl, rfl⟩
  · exact hpq a b hp
  · exact RRel.fail e

theorem RRel.bind {α β γ δ} {P : α → β → Prop} {Q : γ → δ → Prop} {x : R α} {y : R β}
    {f : α → R γ} {g : β → R δ} (h : RRel P x y) (hf : ∀ a b, P a b → RRel Q (f a) (g b)) :
    RRel Q (x >>= f) (y >>= g) := by
  rcases h.cases with ⟨a, b, rfl, rfl, hp⟩ | ⟨e, rfl, rfl⟩
  · simpa using hf a b hp
  · simpa using RRel.fail e

/-- the compiled side has one more (pure) step -/
theorem RRel.bindR {α β δ} {P : α → β → Prop} {Q : α → δ → Prop} {x : R α} {y : R β}
    {g : β → R δ} (h : RRel P x y) (hg : ∀ a b, P a b → RRel Q (.ok a) (g b)) :
    RRel Q x (y >>= g) := by
  rcases h.cases with ⟨a, b, rfl, rfl, hp⟩ | ⟨e, rfl, rfl⟩
  · simpa using hg a b hp
  · simpa using RRel.fail e

/-- the reference side has one more (pure) step -/
theorem RRel.bindL {α β γ} {P : α → β → Prop} {Q : γ → β → Prop} {x : R α} {y : R β}
    {f : α → R γ} (h : RRel P x y) (hf : ∀ a b, P a b → RRel Q (f a) (.ok b)) :
    RRel Q (x >>= f) y := by
  rcases h.cases with ⟨a, b, rfl, rfl, hp⟩ | ⟨e, rfl, rfl⟩
  · simpa using hf a b hp
  · simpa using RRel.fail e

/-- `R.bind` spelled without the `Monad` instance (what `do` blocks unfold to under `simp only`) -/
theorem RRel.bind' {α β γ δ} {P : α → β → Prop} {Q : γ → δ → Prop} {x : R α} {y : R β}
    {f : α → R γ} {g : β → R δ} (h : RRel P x y) (hf : ∀ a b, P a b → RRel Q (f a) (g b)) :
    RRel Q (R.bind x f) (R.bind y g) := RRel.bind h hf

theorem RRel.ofOption {α β} {P : α → β → Prop} {x : Option α} {y : Option β}
    (h : match x, y with | some a, some b => P a b | none, none => True | _, _ => False) :
    RRel P (R.ofOption x) (R.ofOption y) := by
  cases x <;> cases y <;> simp_all [R.ofOption]

/-! ## static well-annotatedness

`sc` = the names lexically in scope, `vis` = the names the compiler can see in the current function
(its parameters, lets, outer identifiers and own name). The only thing the compiler cannot find out
from the annotations (`OuterIdents`) by itself is whether the name of a static function in call
position is shadowed by a local the closure did not capture: `WA` demands that such a call occurs
only where the shadowing local is visible. ASTs produced by the parser satisfy it, because the parser
records *every* identifier a closure body takes from an enclosing scope, call positions included. -/

/-- the callee of a call: the name of a static function that is lexically shadowed (`∈ sc`) must be
visible to the compiler (`∈ vis`) -/
def CallOK (S : Statics) (sc vis : List String) : AST → Prop
  | .ident name => (S name).isSome → name ∈ sc → name ∈ vis
  | _ => True

mutual
def WA (S : Statics) : List String → List String → AST → Prop
  | _, _, .const _ => True
  | _, _, .ident _ => True
  | sc, vis, .letE x v i => WA S sc vis v ∧ WA S (x :: sc) (x :: vis) i
  | sc, vis, .ifE c t e => WA S sc vis c ∧ WA S sc vis t ∧ WA S sc vis e
  | sc, vis, .switchE v cases d => WA S sc vis v ∧ WA S sc vis d ∧ WAcases S sc vis cases
  | sc, vis, .tryE t c => WA S sc vis t ∧ WA S sc vis c
  | sc, vis, .unary _ a => WA S sc vis a
  | sc, vis, .binop _ a b => WA S sc vis a ∧ WA S sc vis b
  | sc, _, .clos names body outer r this =>
      WA S (names ++ (if r then [this] else []) ++ sc) (names ++ outer ++ (if r then [this] else [])) body
  | sc, vis, .listLit items => WAs S sc vis items
  | sc, vis, .index i l => WA S sc vis i ∧ WA S sc vis l
  | sc, vis, .mapLit kvs => WAkvs S sc vis kvs
  | sc, vis, .member m _ => WA S sc vis m
  | sc, vis, .call f args =>
      WA S sc vis f ∧ WAs S sc vis args ∧ CallOK S sc vis f
  | sc, vis, .method recv _ args => WA S sc vis recv ∧ WAs S sc vis args
def WAs (S : Statics) : List String → List String → List AST → Prop
  | _, _, [] => True
  | sc, vis, a :: as => WA S sc vis a ∧ WAs S sc vis as
def WAkvs (S : Statics) : List String → List String → List (String × AST) → Prop
  | _, _, [] => True
  | sc, vis, (_, a) :: as => WA S sc vis a ∧ WAkvs S sc vis as
def WAcases (S : Statics) : List String → List String → List (AST × AST) → Prop
  | _, _, [] => True
  | sc, vis, (c, r) :: rest => WA S sc vis c ∧ WA S sc vis r ∧ WAcases S sc vis rest
end

/-! ## value relation -/

mutual
inductive VRel (S : Statics) : Val → Val → Prop
  | int (i : Int) : VRel S (.int i) (.int i)
  | flt (f : Float) : VRel S (.flt f) (.flt f)
  | str (s : String) : VRel S (.str s) (.str s)
  | bool (b : Bool) : VRel S (.bool b) (.bool b)
  | list {a b : LList} : LRel S a b → VRel S (.list a) (.list b)
  | map {a b : List (String × Val)} : KVRel S a b → VRel S (.map a) (.map b)
  | clos {names : List String} {body : AST} {env : Env} {r : Bool} {this : String}
      {outer : List String} {code : Code} {ctx : List Val} {sc : List String} :
      gen S {} body (names.map some) (outer ++ (if r then [this] else [])) = some code →
      WA S (names ++ (if r then [this] else []) ++ sc) (names ++ outer ++ (if r then [this] else [])) body →
      (∀ x, env.get x ≠ none → x ∈ sc) →
      (r = true → idxS outer this = none) →
      CtxRel S env outer ctx →
      VRel S (.sclos names body env r this) (.rclos names.length code ctx r)
inductive LRel (S : Statics) : LList → LList → Prop
  | items {xs ys : List Val} : VsRel S xs ys → LRel S (.items xs) (.items ys)
  | numbers (i n : Int) : LRel S (.numbers i n) (.numbers i n)
  | map {f g : Val} {a b : LList} : VRel S f g → LRel S a b → LRel S (.map f a) (.map g b)
  | accept {f g : Val} {a b : LList} : VRel S f g → LRel S a b → LRel S (.accept f a) (.accept g b)
  | top (n : Int) {a b : LList} : LRel S a b → LRel S (.top n a) (.top n b)
  | skip (n : Int) {a b : LList} : LRel S a b → LRel S (.skip n a) (.skip n b)
  | append {a b a' b' : LList} : LRel S a a' → LRel S b b' → LRel S (.append a b) (.append a' b')
inductive VsRel (S : Statics) : List Val → List Val → Prop
  | nil : VsRel S [] []
  | cons {x y : Val} {xs ys : List Val} : VRel S x y → VsRel S xs ys → VsRel S (x :: xs) (y :: ys)
inductive KVRel (S : Statics) : List (String × Val) → List (String × Val) → Prop
  | nil : KVRel S [] []
  | cons (k : String) {x y : Val} {xs ys : List (String × Val)} :
      VRel S x y → KVRel S xs ys → KVRel S ((k, x) :: xs) ((k, y) :: ys)
inductive CtxRel (S : Statics) : Env → List String → List Val → Prop
  | nil {env : Env} : CtxRel S env [] []
  | cons {env : Env} {name : String} {outer : List String} {sv rv : Val} {ctx : List Val} :
      env.get name = some sv → VRel S sv rv → CtxRel S env outer ctx →
      CtxRel S env (name :: outer) (rv :: ctx)
end

/-- the library calls closures through `ap`; the two instances are related when related closures
applied to related arguments give related outcomes -/
def ApRel (S : Statics) (aps apr : Apply) : Prop :=
  ∀ f f' vs vs', VRel S f f' → VsRel S vs vs' → RRel (VRel S) (aps f vs) (apr f' vs')

/-! ### lists of related values -/

theorem VsRel.length {S} : ∀ {xs ys : List Val}, VsRel S xs ys → xs.length = ys.length
  | _, _, .nil => rfl
  | _, _, .cons _ h => by simp [VsRel.length h]

theorem VsRel.append {S} : ∀ {xs ys xs' ys' : List Val}, VsRel S xs ys → VsRel S xs' ys' →
    VsRel S (xs ++ xs') (ys ++ ys')
  | _, _, _, _, .nil, h => h
  | _, _, _, _, .cons hv h1, h => .cons hv (VsRel.append h1 h)

theorem VsRel.reverse {S} : ∀ {xs ys : List Val}, VsRel S xs ys → VsRel S xs.reverse ys.reverse
  | _, _, .nil => .nil
  | _, _, .cons hv h => by
    simp only [List.reverse_cons]
    exact VsRel.append (VsRel.reverse h) (.cons hv .nil)

theorem VsRel.get? {S} : ∀ {xs ys : List Val}, VsRel S xs ys → ∀ (i : Nat),
    match xs[i]?, ys[i]? with
    | some a, some b => VRel S a b
    | none, none => True
    | _, _ => False
  | _, _, .nil, i => by simp
  | _, _, .cons hv h, 0 => by simpa using hv
  | _, _, .cons hv h, i+1 => by simpa using VsRel.get? h i

theorem KVRel.length {S} : ∀ {xs ys : List (String × Val)}, KVRel S xs ys → xs.length = ys.length
  | _, _, .nil => rfl
  | _, _, .cons _ _ h => by simp [KVRel.length h]

theorem KVRel.append {S} : ∀ {xs ys xs' ys' : List (String × Val)}, KVRel S xs ys → KVRel S xs' ys' →
    KVRel S (xs ++ xs') (ys ++ ys')
  | _, _, _, _, .nil, h => h
  | _, _, _, _, .cons k hv h1, h => .cons k hv (KVRel.append h1 h)

theorem KVRel.get {S} : ∀ {xs ys : List (String × Val)}, KVRel S xs ys → ∀ (key : String),
    match mapGet xs key, mapGet ys key with
    | some a, some b => VRel S a b
    | none, none => True
    | _, _ => False
  | _, _, .nil, key => by simp [mapGet]
  | _, _, .cons k hv h, key => by
    simp only [mapGet]
    by_cases hk : k = key
    · simpa [hk] using hv
    · simpa [hk] using KVRel.get h key

theorem KVRel.get_cases {S} {xs ys : List (String × Val)} (h : KVRel S xs ys) (key : String) :
    (mapGet xs key = none ∧ mapGet ys key = none) ∨
    (∃ a b, mapGet xs key = some a ∧ mapGet ys key = some b ∧ VRel S a b) := by
  have := h.get key
  cases h1 : mapGet xs key <;> cases h2 : mapGet ys key <;> simp_all

theorem KVRel.get_isSome {S} {xs ys : List (String × Val)} (h : KVRel S xs ys) (key : String) :
    (mapGet xs key).isSome = (mapGet ys key).isSome := by
  rcases h.get_cases key with ⟨h1, h2⟩ | ⟨a, b, h1, h2, _⟩ <;> simp [h1, h2]

theorem KVRel.get_isNone {S} {xs ys : List (String × Val)} (h : KVRel S xs ys) (key : String) :
    (mapGet xs key).isNone = (mapGet ys key).isNone := by
  rcases h.get_cases key with ⟨h1, h2⟩ | ⟨a, b, h1, h2, _⟩ <;> simp [h1, h2]

theorem VRel.typeName {S} {a b : Val} (h : VRel S a b) : typeName a = typeName b := by
  cases h <;> rfl

theorem VRel.closArity {S} {a b : Val} (h : VRel S a b) : a.closArity = b.closArity := by
  cases h <;> rfl

theorem VRel.toFloat? {S} {a b : Val} (h : VRel S a b) : toFloat? a = toFloat? b := by
  cases h <;> rfl

theorem VRel.isClosN {S} {a b : Val} (h : VRel S a b) (n : Nat) : isClosN a n = isClosN b n := by
  simp [Lang.isClosN, h.closArity]

/-! ## context relation -/

theorem CtxRel.length {S} : ∀ {env outer ctx}, CtxRel S env outer ctx → ctx.length = outer.length
  | _, _, _, .nil => rfl
  | _, _, _, .cons _ _ h => by simp [CtxRel.length h]

theorem CtxRel.lookup {S} : ∀ {env outer ctx}, CtxRel S env outer ctx → ∀ {x j}, idxS outer x = some j →
    ∃ sv rv, env.get x = some sv ∧ ctx[j]? = some rv ∧ VRel S sv rv
  | _, _, _, .nil, x, j, h => by simp [idxS] at h
  | _, _, _, .cons (name := name) (outer := outer) h1 h2 h3, x, j, h => by
    simp only [idxS] at h
    by_cases hn : name = x
    · subst hn; simp at h; subst h
      exact ⟨_, _, h1, by simp, h2⟩
    · simp only [hn, if_false] at h
      cases hx : idxS outer x with
      | none => simp [hx] at h
      | some j' =>
        simp [hx] at h; subst h
        obtain ⟨sv, rv, a, b, c⟩ := CtxRel.lookup h3 hx
        exact ⟨sv, rv, a, by simpa using b, c⟩

/-! ## storage -/

/-- the caller's slots (below `offs+size`) are unchanged and the storage only grows -/
def Preserves (st : Stack) (d : List Val) : Prop :=
  st.data.length ≤ d.length ∧ ∀ j, j < st.offs + st.size → d[j]? = st.data[j]?

theorem Preserves.refl (st : Stack) : Preserves st st.data := ⟨Nat.le_refl _, fun _ _ => rfl⟩
theorem Preserves.trans {st : Stack} {d d' : List Val} (h1 : Preserves st d)
    (h2 : Preserves { st with data := d } d') : Preserves st d' :=
  ⟨Nat.le_trans h1.1 h2.1, fun j hj => (h2.2 j hj).trans (h1.2 j hj)⟩

theorem setAt_length_ge (d : List Val) (n v) : d.length ≤ (setAt d n v).length := by
  unfold setAt; split <;> simp
theorem setAt_length_gt (d : List Val) (n v) (h : n ≤ d.length) : n < (setAt d n v).length := by
  unfold setAt; split <;> simp <;> omega
theorem setAt_get_lt (d : List Val) (n v j) (h : j < n) (hn : n ≤ d.length) : (setAt d n v)[j]? = d[j]? := by
  unfold setAt; split
  · simp [List.getElem?_set]; omega
  · simp [List.getElem?_append]; intro h2; omega
theorem setAt_get_eq (d : List Val) (n v) (h : n ≤ d.length) : (setAt d n v)[n]? = some v := by
  unfold setAt; split
  · rename_i hn; simp [hn]
  · have : n = d.length := by omega
    subst this; simp

theorem idx_lt : ∀ {am : Names} {n i}, idx am n = some i → i < am.length
  | [], _, _, h => by simp [idx] at h
  | x :: xs, n, i, h => by
    simp only [idx] at h
    split at h
    · cases h; simp
    · cases hx : idx xs n with
      | none => simp [hx] at h
      | some j => simp [hx] at h; subst h; have := idx_lt hx; simp; omega

theorem idx_append : ∀ (am : Names) (x : Option String) (n : String),
    idx (am ++ [x]) n = match idx am n with
      | some i => some i
      | none => if x = some n then some am.length else none
  | [], x, n => by simp [idx]
  | y :: ys, x, n => by
    simp only [List.cons_append, idx]
    split
    · rfl
    · rw [idx_append ys x n]
      cases idx ys n with
      | some i => simp
      | none => simp

theorem idx_append_none (am : Names) (n : String) : idx (am ++ [none]) n = idx am n := by
  rw [idx_append]; cases idx am n <;> simp

theorem idxS_lt : ∀ {l : List String} {x j}, idxS l x = some j → j < l.length
  | [], _, _, h => by simp [idxS] at h
  | y :: ys, x, j, h => by
    simp only [idxS] at h
    split at h
    · cases h; simp
    · cases hx : idxS ys x with
      | none => simp [hx] at h
      | some j' => simp [hx] at h; subst h; have := idxS_lt hx; simp; omega

theorem idxS_append : ∀ (a b : List String) (x : String),
    idxS (a ++ b) x = match idxS a x with
      | some i => some i
      | none => (idxS b x).map (· + a.length)
  | [], b, x => by simp [idxS]
  | y :: ys, b, x => by
    simp only [List.cons_append, idxS]
    split
    · rfl
    · rw [idxS_append ys b x]
      cases idxS ys x with
      | some i => simp
      | none => cases idxS b x <;> simp; omega

theorem idxS_ne_none_iff_mem : ∀ (l : List String) (x : String), idxS l x ≠ none ↔ x ∈ l
  | [], x => by simp [idxS]
  | y :: ys, x => by
    simp only [idxS, List.mem_cons]
    by_cases h : y = x
    · simp [h]
    · have := idxS_ne_none_iff_mem ys x
      simp only [h, if_false]
      cases hi : idxS ys x with
      | none => simp [hi] at this; simp [this]; exact fun e => h e.symm
      | some j => simp [hi] at this; simp [this]

theorem idx_map_some_ne_none_iff_mem : ∀ (l : List String) (x : String), idx (l.map some) x ≠ none ↔ x ∈ l
  | [], x => by simp [idx]
  | y :: ys, x => by
    simp only [List.map_cons, idx, List.mem_cons]
    by_cases h : y = x
    · simp [h]
    · have := idx_map_some_ne_none_iff_mem ys x
      have h' : ¬ (some y = some x) := by simpa using h
      simp only [h', if_false]
      cases hi : idx (ys.map some) x with
      | none => simp [hi] at this; simp [this]; exact fun e => h e.symm
      | some j => simp [hi] at this; simp [this]

theorem Preserves.push {st : Stack} {d : List Val} (hp : Preserves st d) (hb : st.offs + st.size ≤ st.data.length)
    (v : Val) : Preserves st ({ st with data := d }.push v).data := by
  refine ⟨?_, fun j hj => ?_⟩
  · simp only [Stack.push]; have := setAt_length_ge d (st.offs + st.size) v; have := hp.1; omega
  · simp only [Stack.push]; rw [setAt_get_lt _ _ _ _ hj (by have := hp.1; omega)]; exact hp.2 j hj

theorem Preserves.of_push {st : Stack} {d d' : List Val} {v : Val} (hp : Preserves st d)
    (hb : st.offs + st.size ≤ st.data.length)
    (h : Preserves ({ st with data := d }.push v) d') : Preserves st d' := by
  have h0 := hp.push hb v
  refine ⟨Nat.le_trans h0.1 h.1, fun j hj => ?_⟩
  rw [h.2 j (by simp [Stack.push]; omega)]
  exact h0.2 j hj

/-! ## environments -/

theorem Env.get_append : ∀ (a b : Env) (x : String),
    Env.get (a ++ b) x = match Env.get a x with | some v => some v | none => Env.get b x
  | [], b, x => by simp [Env.get]
  | (n, v) :: rest, b, x => by
    simp only [List.cons_append, Env.get]
    split
    · rfl
    · exact Env.get_append rest b x

theorem bindParams_get : ∀ (names : List String) (vs : List Val) (x : String), names.length = vs.length →
    match idx (names.map some) x with
    | some i => Env.get (bindParams names vs) x = vs[i]? ∧ i < vs.length
    | none => Env.get (bindParams names vs) x = none
  | [], [], x, _ => by simp [idx, bindParams, Env.get]
  | n :: ns, v :: vs, x, h => by
    simp only [List.map_cons, idx, bindParams, Env.get]
    by_cases hn : n = x
    · simp [hn]
    · have hn' : ¬ (some n = some x) := by simpa using hn
      simp only [hn, hn', if_false]
      have ih := bindParams_get ns vs x (by simpa using h)
      cases hi : idx (ns.map some) x with
      | some i => simp [hi] at ih ⊢; exact ⟨ih.1, by omega⟩
      | none => simp [hi] at ih ⊢; exact ih
  | [], _ :: _, _, h => by simp at h
  | _ :: _, [], _, h => by simp at h

/-- the run-time invariant: the frame holds the values of the compile-time slot list, the closure
context those of the context names; every name of the environment is lexically in scope; every
name the `WA` predicate considers visible is one the compiler can resolve -/
structure EnvRel (S : Statics) (sc vis : List String) (am : Names) (cm : List String) (env : Env)
    (st : Stack) (cs : List Val) : Prop where
  size : st.size = am.length
  bound : st.offs + st.size ≤ st.data.length
  slots : ∀ x i, idx am x = some i →
    ∃ sv rv, env.get x = some sv ∧ st.data[st.offs + i]? = some rv ∧ VRel S sv rv
  cslots : ∀ x j, idx am x = none → idxS cm x = some j →
    ∃ sv rv, env.get x = some sv ∧ cs[j]? = some rv ∧ VRel S sv rv
  scope : ∀ x, env.get x ≠ none → x ∈ sc
  visible : ∀ x, x ∈ vis → idx am x ≠ none ∨ idxS cm x ≠ none

theorem EnvRel.withData {S sc vis am cm env st cs} (h : EnvRel S sc vis am cm env st cs) (d)
    (hp : Preserves st d) : EnvRel S sc vis am cm env { st with data := d } cs :=
  ⟨h.size, Nat.le_trans h.bound hp.1, fun x i hi => by
    obtain ⟨sv, rv, h1, h2, h3⟩ := h.slots x i hi
    refine ⟨sv, rv, h1, ?_, h3⟩
    rw [← h2]
    exact hp.2 _ (by have := idx_lt hi; have := h.size; show st.offs + i < st.offs + st.size; omega),
   h.cslots, h.scope, h.visible⟩

/-- pushing an anonymous value (call argument, method receiver) -/
theorem EnvRel.pushNone {S sc vis am cm env st cs} (h : EnvRel S sc vis am cm env st cs) (d : List Val)
    (hp : Preserves st d) (v : Val) :
    EnvRel S sc vis (am ++ [none]) cm env ({ st with data := d }.push v) cs := by
  obtain ⟨hs, hb, hsl, hcs, hsc, hvis⟩ := h
  obtain ⟨hlen, hkeep⟩ := hp
  refine ⟨by simp [Stack.push, hs], ?_, ?_, ?_, hsc, ?_⟩
  · simp only [Stack.push]
    have := setAt_length_gt d (st.offs + st.size) v (by omega)
    omega
  · intro n i hi
    rw [idx_append_none] at hi
    have hlt := idx_lt hi
    obtain ⟨sv, rv, h1, h2, h3⟩ := hsl n i hi
    refine ⟨sv, rv, h1, ?_, h3⟩
    simp only [Stack.push]
    rw [setAt_get_lt _ _ _ _ (by omega) (by omega), hkeep _ (by omega), h2]
  · intro n j hi hj
    rw [idx_append_none] at hi
    exact hcs n j hi hj
  · intro x hx
    rw [idx_append_none]
    exact hvis x hx

/-- `let x = …`: a new named slot -/
theorem EnvRel.pushLet {S sc vis am cm env st cs} (h : EnvRel S sc vis am cm env st cs) (d : List Val)
    (hp : Preserves st d) {sv rv : Val} (hv : VRel S sv rv) (x : String) (hfresh : idx am x = none) :
    EnvRel S (x :: sc) (x :: vis) (am ++ [some x]) cm ((x, sv) :: env) ({ st with data := d }.push rv) cs := by
  obtain ⟨hs, hb, hsl, hcs, hsc, hvis⟩ := h
  obtain ⟨hlen, hkeep⟩ := hp
  refine ⟨by simp [Stack.push, hs], ?_, ?_, ?_, ?_, ?_⟩
  · simp only [Stack.push]
    have := setAt_length_gt d (st.offs + st.size) rv (by omega)
    omega
  · intro n i hi
    rw [idx_append] at hi
    simp only [Stack.push]
    cases hx : idx am n with
    | some j =>
      simp [hx] at hi; subst hi
      have hlt := idx_lt hx
      have hne : x ≠ n := by
        intro hxe; subst hxe; simp [hfresh] at hx
      obtain ⟨sv', rv', h1, h2, h3⟩ := hsl n j hx
      refine ⟨sv', rv', by simp only [Env.get, hne, if_false]; exact h1, ?_, h3⟩
      rw [setAt_get_lt _ _ _ _ (by omega) (by omega), hkeep _ (by omega), h2]
    | none =>
      simp [hx] at hi
      obtain ⟨hxe, hi⟩ := hi
      subst hi; subst hxe
      exact ⟨sv, rv, by simp [Env.get], by rw [← hs]; exact setAt_get_eq _ _ _ (by omega), hv⟩
  · intro n j hi hj
    rw [idx_append] at hi
    cases hx : idx am n with
    | some j' => simp [hx] at hi
    | none =>
      simp [hx] at hi
      obtain ⟨sv', rv', h1, h2, h3⟩ := hcs n j hx hj
      exact ⟨sv', rv', by simp only [Env.get, hi, if_false]; exact h1, h2, h3⟩
  · intro n hn
    simp only [Env.get] at hn
    by_cases hxn : x = n
    · simp [hxn]
    · simp only [hxn, if_false] at hn
      exact List.mem_cons_of_mem _ (hsc n hn)
  · intro n hn
    rw [idx_append]
    rcases List.mem_cons.mp hn with rfl | hn
    · simp [hfresh]
    · rcases hvis n hn with h1 | h1
      · left; cases hx : idx am n with
        | none => exact absurd hx h1
        | some j => simp
      · exact .inr h1

end P2.Lang
