import P2.Proofs.XmlDec
import P2.Spec.XmlDoc
/-! `writer_faithful` (C18.1): the bytes the writer model produces for a call sequence that follows the
protocol are read by the reference decoder as exactly the token stream of the *token-level writer* `TS`
— the same state machine as `W`, emitting tokens (start tag with the exact attribute strings, end tag,
the exact characters of every text, layout characters) instead of bytes — and that stream is balanced. -/
namespace P2.Xml

/-! ### the token-level writer (specification side) -/

structure TS where
  /-- open elements, innermost first -/
  stack : List (List Char)
  /-- attributes of the start tag that is still open (`none`: no tag open) -/
  pend : Option Attrs
  depth : Int
  inLine : Bool
  deriving Repr

namespace TS
def flush (s : TS) : TS × List Tok :=
  match s.pend, s.stack with
  | some as, n :: _ => ({ s with pend := none }, [.start n as])
  | _, _ => ({ s with pend := none }, [])

def indent (pp : Bool) (s : TS) : TS × List Tok :=
  if s.inLine then (s, []) else ({ s with inLine := true }, indT pp s.depth)

def newLine (pp : Bool) (s : TS) : TS × List Tok :=
  if s.inLine then ({ s with inLine := false }, nlT pp) else (s, [])

def opn (pp : Bool) (s : TS) (tag : List Char) : TS × List Tok :=
  let s1 := s.flush.1
  let s2 := (s1.newLine pp).1
  let s3 : TS := { s2 with depth := s2.depth + 1 }
  let s4 := (s3.indent pp).1
  ({ s4 with stack := tag :: s4.stack, pend := some [], inLine := true },
    s.flush.2 ++ ((s1.newLine pp).2 ++ (s3.indent pp).2))

def clsShort (pp : Bool) (s : TS) (top : List Char) (rest : List (List Char)) (as : Attrs) : TS × List Tok :=
  let s1 : TS := { s with pend := none, depth := s.depth - 1, stack := rest }
  ((s1.newLine pp).1, [.start top as, .stop top] ++ (s1.newLine pp).2)

def clsLong (pp : Bool) (s : TS) (top : List Char) (rest : List (List Char)) : TS × List Tok :=
  let s1 := (s.indent pp).1
  let s2 : TS := { s1 with depth := s1.depth - 1 }
  let s3 := s2.flush.1
  let s4 := (s3.indent pp).1
  let s5 : TS := { s4 with stack := rest }
  ((s5.newLine pp).1, (s.indent pp).2 ++ (s2.flush.2 ++ ((s3.indent pp).2 ++ ([.stop top] ++ (s5.newLine pp).2))))

def wr (pp : Bool) (s : TS) (txt : List Char) : TS × List Tok :=
  let s1 := s.flush.1
  ((s1.indent pp).1, s.flush.2 ++ ((s1.indent pp).2 ++ chrs txt))

/-- one call; `none`: the call violates the protocol (invalid name, `Attr` outside an open tag or with
a repeated name, `Close` without open element, a string with an illegal character, raw HTML) -/
def step (pp av : Bool) (s : TS) : Call → Option (TS × List Tok)
  | .opn tag => if isXmlName tag then some (s.opn pp tag) else none
  | .attr k v =>
    match s.pend with
    | some as =>
      if isXmlName k && !(as.any (fun kv => kv.1 == k)) && v.all isXmlChar then
        some ({ s with pend := some (as ++ [(k, v)]) }, [])
      else none
    | none => none
  | .cls =>
    match s.stack with
    | [] => none
    | top :: rest =>
      match s.pend with
      | some as => if av then some (s.clsLong pp top rest) else some (s.clsShort pp top rest as)
      | none => some (s.clsLong pp top rest)
  | .wr txt => if txt.all isXmlChar then some (s.wr pp txt) else none
  | .raw _ => none

def run (pp av : Bool) : TS → List Call → Option (TS × List Tok)
  | s, [] => some (s, [])
  | s, c :: cs =>
    match step pp av s c with
    | none => none
    | some (s', o) =>
      match run pp av s' cs with
      | none => none
      | some (s'', o') => some (s'', o ++ o')

/-- an open tag is always "in line" and has its element on the stack -/
def Inv (s : TS) : Prop := s.pend.isSome = true → s.inLine = true ∧ s.stack ≠ []

def init : TS := { stack := [], pend := none, depth := -1, inLine := false }

@[simp] theorem flush_pend (s : TS) : s.flush.1.pend = none := by unfold flush; split <;> rfl
@[simp] theorem flush_stack (s : TS) : s.flush.1.stack = s.stack := by unfold flush; split <;> rfl
@[simp] theorem flush_depth (s : TS) : s.flush.1.depth = s.depth := by unfold flush; split <;> rfl
@[simp] theorem flush_inLine (s : TS) : s.flush.1.inLine = s.inLine := by unfold flush; split <;> rfl
@[simp] theorem indent_pend (pp : Bool) (s : TS) : (s.indent pp).1.pend = s.pend := by unfold indent; split <;> rfl
@[simp] theorem indent_stack (pp : Bool) (s : TS) : (s.indent pp).1.stack = s.stack := by unfold indent; split <;> rfl
@[simp] theorem indent_depth (pp : Bool) (s : TS) : (s.indent pp).1.depth = s.depth := by unfold indent; split <;> rfl
@[simp] theorem indent_inLine (pp : Bool) (s : TS) : (s.indent pp).1.inLine = true := by
  unfold indent; split
  · rename_i h; exact h
  · rfl
@[simp] theorem newLine_pend (pp : Bool) (s : TS) : (s.newLine pp).1.pend = s.pend := by unfold newLine; split <;> rfl
@[simp] theorem newLine_stack (pp : Bool) (s : TS) : (s.newLine pp).1.stack = s.stack := by unfold newLine; split <;> rfl
@[simp] theorem newLine_depth (pp : Bool) (s : TS) : (s.newLine pp).1.depth = s.depth := by unfold newLine; split <;> rfl
@[simp] theorem newLine_inLine (pp : Bool) (s : TS) : (s.newLine pp).1.inLine = false := by
  unfold newLine; split
  · rfl
  · rename_i h; simpa using h
end TS

/-- the decoder mode that corresponds to a writer state -/
def modeOf (s : TS) : Mode :=
  match s.pend, s.stack with
  | some as, n :: _ => tagMode n as
  | _, _ => .text false

/-! ### simulation -/

structure Sim (pp av : Bool) (w : W) (s : TS) : Prop where
  depth : w.depth = s.depth
  inLine : w.inLine = s.inLine
  stack : w.stack = s.stack
  tagOpen : w.tagIsOpen = s.pend.isSome
  hav : w.avoidShort = av
  hpp : w.prettyPrint = pp

/-- `w'`/`s'` are reached from `w`/`s` by appending bytes that the decoder reads as the tokens `o` -/
def Adv (pp av : Bool) (w : W) (s : TS) (w' : W) (s' : TS) (o : List Tok) : Prop :=
  Sim pp av w' s' ∧ s'.Inv ∧ ∃ x, w'.out = w.out ++ x ∧ Goes (modeOf s) x (modeOf s') o

theorem Adv.trans {pp av : Bool} {w w1 w2 : W} {s s1 s2 : TS} {o1 o2 : List Tok}
    (h1 : Adv pp av w s w1 s1 o1) (h2 : Adv pp av w1 s1 w2 s2 o2) : Adv pp av w s w2 s2 (o1 ++ o2) := by
  obtain ⟨_, _, x1, hx1, g1⟩ := h1
  obtain ⟨hs2, hi2, x2, hx2, g2⟩ := h2
  exact ⟨hs2, hi2, x1 ++ x2, by rw [hx2, hx1, List.append_assoc], g1.trans g2⟩

theorem Adv.cast {pp av : Bool} {w w' : W} {s s' : TS} {o o' : List Tok}
    (h : Adv pp av w s w' s' o) (e : o = o') : Adv pp av w s w' s' o' := e ▸ h

theorem modeOf_none {s : TS} (h : s.pend = none) : modeOf s = .text false := by
  simp [modeOf, h]

theorem inv_of_none {s : TS} (h : s.pend = none) : s.Inv := by simp [TS.Inv, h]

variable {pp av : Bool}

/-- `checkOpenTag` -/
theorem adv_flush {w : W} {s : TS} (hs : Sim pp av w s) (hi : s.Inv) :
    Adv pp av w s w.checkOpenTag s.flush.1 s.flush.2 := by
  cases hp : s.pend with
  | none =>
    have hw : w.tagIsOpen = false := by rw [hs.tagOpen, hp]; rfl
    have hf : s.flush = ({ s with pend := none }, []) := by simp [TS.flush, hp]
    have hw' : w.checkOpenTag = w := by simp [W.checkOpenTag, hw]
    rw [hf, hw']
    refine ⟨⟨hs.depth, hs.inLine, hs.stack, by rw [hw]; rfl, hs.hav, hs.hpp⟩, inv_of_none rfl, [], by simp, ?_⟩
    rw [modeOf_none hp, modeOf_none rfl]
    exact Goes.nil _
  | some as =>
    have hw : w.tagIsOpen = true := by rw [hs.tagOpen, hp]; rfl
    obtain ⟨_, hne⟩ := hi (by simp [hp])
    cases hst : s.stack with
    | nil => exact absurd hst hne
    | cons n r =>
      have hf : s.flush = ({ s with pend := none }, [.start n as]) := by simp [TS.flush, hp, hst]
      have hw' : w.checkOpenTag = { w.emit ['>'] with tagIsOpen := false } := by simp [W.checkOpenTag, hw]
      rw [hf, hw']
      refine ⟨⟨hs.depth, hs.inLine, hs.stack, rfl, hs.hav, hs.hpp⟩, inv_of_none rfl, ['>'], rfl, ?_⟩
      have h1 : modeOf s = tagMode n as := by simp [modeOf, hp, hst]
      rw [h1, modeOf_none rfl]
      exact goes_gt n as

theorem tabs_verbatim (d : Int) : ∀ c ∈ tabs d, c = '\n' ∨ c = '\t' := by
  intro c hc
  simp [tabs] at hc
  exact Or.inr hc.2

/-- `checkIndent` -/
theorem adv_indent {w : W} {s : TS} (hs : Sim pp av w s) (hi : s.Inv) :
    Adv pp av w s w.checkIndent (s.indent pp).1 (s.indent pp).2 := by
  cases hl : s.inLine with
  | true =>
    have hw : w.inLine = true := by rw [hs.inLine, hl]
    have hf : s.indent pp = (s, []) := by simp [TS.indent, hl]
    have hw' : w.checkIndent = w := by simp [W.checkIndent, hw]
    rw [hf, hw']
    exact ⟨hs, hi, [], by simp, Goes.nil _⟩
  | false =>
    have hw : w.inLine = false := by rw [hs.inLine, hl]
    have hp : s.pend = none := by
      cases hp : s.pend with
      | none => rfl
      | some as => have := (hi (by simp [hp])).1; rw [hl] at this; cases this
    have hf : s.indent pp = ({ s with inLine := true }, indT pp s.depth) := by simp [TS.indent, hl]
    rw [hf]
    have hm : modeOf { s with inLine := true } = .text false := modeOf_none hp
    cases hwp : w.prettyPrint with
    | false =>
      have hpp : pp = false := by rw [← hs.hpp, hwp]
      have hw' : w.checkIndent = { w with inLine := true } := by simp [W.checkIndent, hw, hwp]
      rw [hw']
      refine ⟨⟨hs.depth, rfl, hs.stack, hs.tagOpen, hs.hav, hs.hpp⟩, inv_of_none hp, [], by simp, ?_⟩
      rw [modeOf_none hp, hm]
      simp only [indT, hpp]
      exact Goes.nil _
    | true =>
      have hpp : pp = true := by rw [← hs.hpp, hwp]
      have hw' : w.checkIndent = { w.emit (tabs w.depth) with inLine := true } := by simp [W.checkIndent, hw, hwp]
      rw [hw']
      refine ⟨⟨hs.depth, rfl, hs.stack, hs.tagOpen, hs.hav, hs.hpp⟩, inv_of_none hp, tabs s.depth, ?_, ?_⟩
      · show w.out ++ tabs w.depth = w.out ++ tabs s.depth
        rw [hs.depth]
      · rw [modeOf_none hp, hm]
        simp only [indT, hpp]
        exact goes_verbatim _ (tabs_verbatim _)

/-- `newLine` (outside of an open tag) -/
theorem adv_newLine {w : W} {s : TS} (hs : Sim pp av w s) (hp : s.pend = none) :
    Adv pp av w s w.newLine (s.newLine pp).1 (s.newLine pp).2 := by
  have hi : s.Inv := inv_of_none hp
  cases hl : s.inLine with
  | false =>
    have hw : w.inLine = false := by rw [hs.inLine, hl]
    have hf : s.newLine pp = (s, []) := by simp [TS.newLine, hl]
    have hw' : w.newLine = w := by simp [W.newLine, hw]
    rw [hf, hw']
    exact ⟨hs, hi, [], by simp, Goes.nil _⟩
  | true =>
    have hw : w.inLine = true := by rw [hs.inLine, hl]
    have hf : s.newLine pp = ({ s with inLine := false }, nlT pp) := by simp [TS.newLine, hl]
    rw [hf]
    have hm : modeOf { s with inLine := false } = .text false := modeOf_none hp
    cases hwp : w.prettyPrint with
    | false =>
      have hpp : pp = false := by rw [← hs.hpp, hwp]
      have hw' : w.newLine = { w with inLine := false } := by simp [W.newLine, hw, hwp]
      rw [hw']
      refine ⟨⟨hs.depth, rfl, hs.stack, hs.tagOpen, hs.hav, hs.hpp⟩, inv_of_none hp, [], by simp, ?_⟩
      rw [modeOf_none hp, hm]
      simp only [nlT, hpp]
      exact Goes.nil _
    | true =>
      have hpp : pp = true := by rw [← hs.hpp, hwp]
      have hw' : w.newLine = { w.emit ['\n'] with inLine := false } := by simp [W.newLine, hw, hwp]
      rw [hw']
      refine ⟨⟨hs.depth, rfl, hs.stack, hs.tagOpen, hs.hav, hs.hpp⟩, inv_of_none hp, ['\n'], rfl, ?_⟩
      rw [modeOf_none hp, hm]
      simp only [nlT, hpp]
      exact goes_verbatim ['\n'] (by simp)

/-- a change of `depth` only -/
theorem adv_depth {w : W} {s : TS} (hs : Sim pp av w s) (hi : s.Inv) (dw ds : Int) (hd : dw = ds) :
    Adv pp av w s { w with depth := dw } { s with depth := ds } [] :=
  ⟨⟨hd, hs.inLine, hs.stack, hs.tagOpen, hs.hav, hs.hpp⟩, hi, [], by simp, Goes.nil _⟩

/-- bytes appended in content that read as the tokens `o` -/
theorem adv_emit {w : W} {s : TS} (hs : Sim pp av w s) (hp : s.pend = none) {x : List Char} {o : List Tok}
    (hg : Goes (.text false) x (.text false) o) : Adv pp av w s (w.emit x) s o := by
  refine ⟨⟨hs.depth, hs.inLine, hs.stack, hs.tagOpen, hs.hav, hs.hpp⟩, inv_of_none hp, x, rfl, ?_⟩
  rw [modeOf_none hp]; exact hg

theorem write_eq_emit (w : W) (x : List Char) (h1 : w.tagIsOpen = false) (h2 : w.inLine = true) :
    w.write x = w.emit x := by
  simp [W.write, W.checkOpenTag, W.checkIndent, h1, h2]

/-! ### the calls -/

/-- `<tag` after the indentation -/
theorem adv_tag {w : W} {s : TS} (hs : Sim pp av w s) (hp : s.pend = none) (hl : s.inLine = true)
    (tag : List Char) (ht : isXmlName tag = true) :
    Adv pp av w s
      { (w.write ['<']).write tag with stack := tag :: ((w.write ['<']).write tag).stack, tagIsOpen := true, inLine := true }
      { s with stack := tag :: s.stack, pend := some [], inLine := true } [] := by
  have hwo : w.tagIsOpen = false := by rw [hs.tagOpen, hp]; rfl
  have hwl : w.inLine = true := by rw [hs.inLine, hl]
  rw [write_eq_emit _ ['<'] hwo hwl, write_eq_emit _ tag (by simpa [W.emit] using hwo) (by simpa [W.emit] using hwl)]
  refine ⟨⟨hs.depth, rfl, ?_, rfl, hs.hav, hs.hpp⟩, ?_, '<' :: tag, ?_, ?_⟩
  · show tag :: w.stack = tag :: s.stack
    rw [hs.stack]
  · intro _; exact ⟨rfl, by simp⟩
  · simp [W.emit]
  · rw [modeOf_none hp]
    have : modeOf { s with stack := tag :: s.stack, pend := some [], inLine := true } = tagMode tag [] := by
      simp [modeOf]
    rw [this]
    exact goes_open tag ht

theorem adv_opn {w : W} {s : TS} (hs : Sim pp av w s) (hi : s.Inv) (tag : List Char) (ht : isXmlName tag = true) :
    Adv pp av w s (w.opn tag) (s.opn pp tag).1 (s.opn pp tag).2 := by
  have a1 := adv_flush hs hi
  have a2 := adv_newLine a1.1 (TS.flush_pend s)
  have a3 := adv_depth a2.1 a2.2.1 (w.checkOpenTag.newLine.depth + 1) ((s.flush.1.newLine pp).1.depth + 1)
    (by rw [a2.1.depth])
  have a4 := adv_indent a3.1 a3.2.1
  have a5 := adv_tag a4.1 (by simp) (by simp) tag ht
  exact (a1.trans (a2.trans (a3.trans (a4.trans a5)))).cast (by simp [TS.opn])

theorem exists_cons {α} {l : List α} (h : l ≠ []) : ∃ a r, l = a :: r := by
  cases l with
  | nil => exact absurd rfl h
  | cons a r => exact ⟨a, r, rfl⟩

theorem adv_attr {ea : Char → List Char} (ha : AttrEscOK ea) {w : W} {s : TS} (hs : Sim pp av w s) (hi : s.Inv)
    (as : Attrs) (hp : s.pend = some as) (k v : List Char) (hk : isXmlName k = true) (hv : v.all isXmlChar = true) :
    Adv pp av w s (w.attr ea k v) { s with pend := some (as ++ [(k, v)]) } [] := by
  have hw : w.tagIsOpen = true := by rw [hs.tagOpen, hp]; rfl
  obtain ⟨hl, hne⟩ := hi (by simp [hp])
  obtain ⟨n, r, hst⟩ := exists_cons hne
  have hw' : w.attr ea k v = w.emit ([' '] ++ k ++ ['=', '"'] ++ v.flatMap ea ++ ['"']) := by simp [W.attr, hw]
  rw [hw']
  refine ⟨⟨hs.depth, hs.inLine, hs.stack, by rw [show (w.emit _).tagIsOpen = w.tagIsOpen from rfl, hw]; rfl, hs.hav, hs.hpp⟩,
    ?_, _, rfl, ?_⟩
  · intro _; exact ⟨hl, hne⟩
  · have h1 : modeOf s = tagMode n as := by simp [modeOf, hp, hst]
    have h2 : modeOf { s with pend := some (as ++ [(k, v)]) } = tagMode n (as ++ [(k, v)]) := by
      simp [modeOf, hst]
    rw [h1, h2]
    exact goes_attr ea ha n as k v hk hv

theorem adv_wr {et : Char → List Char} (ht : TextEscOK et) {w : W} {s : TS} (hs : Sim pp av w s) (hi : s.Inv)
    (txt : List Char) (hv : txt.all isXmlChar = true) :
    Adv pp av w s (w.wr et txt) (s.wr pp txt).1 (s.wr pp txt).2 := by
  have a1 := adv_flush hs hi
  have a2 := adv_indent a1.1 a1.2.1
  have a3 := adv_emit a2.1 (by simp) (goes_text et ht txt hv)
  exact (a1.trans (a2.trans a3)).cast (by simp [TS.wr])

theorem adv_clsShort {w : W} {s : TS} (hs : Sim pp av w s) (hav : av = false)
    (top : List Char) (rest : List (List Char)) (as : Attrs) (hst : s.stack = top :: rest) (hp : s.pend = some as) :
    ∃ w', w.cls = .ok w' ∧ Adv pp av w s w' (s.clsShort pp top rest as).1 (s.clsShort pp top rest as).2 := by
  have hw : w.tagIsOpen = true := by rw [hs.tagOpen, hp]; rfl
  have hwa : w.avoidShort = false := by rw [hs.hav, hav]
  have hws : w.stack = top :: rest := by rw [hs.stack, hst]
  have a1 : Adv pp av w s { ({ w.emit ['/', '>'] with tagIsOpen := false, depth := w.depth - 1 } : W) with stack := rest }
      { s with pend := none, depth := s.depth - 1, stack := rest } [.start top as, .stop top] := by
    refine ⟨⟨?_, hs.inLine, rfl, rfl, hs.hav, hs.hpp⟩, inv_of_none rfl, ['/', '>'], rfl, ?_⟩
    · show w.depth - 1 = s.depth - 1
      rw [hs.depth]
    · have h1 : modeOf s = tagMode top as := by simp [modeOf, hp, hst]
      rw [h1, modeOf_none rfl]
      exact goes_short top as
  have a2 := adv_newLine a1.1 rfl
  refine ⟨_, ?_, (a1.trans a2).cast (by simp [TS.clsShort])⟩
  obtain ⟨out, stk, depth, inLine, tagIsOpen, avoidShort, prettyPrint⟩ := w
  simp only at hws hw hwa
  subst hws hw hwa
  rfl

/-- `</top>` after the indentation -/
theorem adv_endtag {w : W} {s : TS} (hs : Sim pp av w s) (hp : s.pend = none) (hl : s.inLine = true)
    (top : List Char) (rest : List (List Char)) (htop : isXmlName top = true) :
    Adv pp av w s { ((w.emit ['<', '/']).write top).write ['>'] with stack := rest } { s with stack := rest } [.stop top] := by
  have hwo : w.tagIsOpen = false := by rw [hs.tagOpen, hp]; rfl
  have hwl : w.inLine = true := by rw [hs.inLine, hl]
  rw [write_eq_emit _ top (by simpa [W.emit] using hwo) (by simpa [W.emit] using hwl),
      write_eq_emit _ ['>'] (by simpa [W.emit] using hwo) (by simpa [W.emit] using hwl)]
  refine ⟨⟨hs.depth, hs.inLine, rfl, hs.tagOpen, hs.hav, hs.hpp⟩, inv_of_none hp,
    '<' :: '/' :: (top ++ ['>']), by simp [W.emit], ?_⟩
  rw [modeOf_none hp, modeOf_none (s := { s with stack := rest }) hp]
  exact goes_close top htop

theorem adv_clsLong {w : W} {s : TS} (hs : Sim pp av w s) (hi : s.Inv)
    (top : List Char) (rest : List (List Char)) (hst : s.stack = top :: rest) (htop : isXmlName top = true)
    (hshort : ¬ (s.pend.isSome = true ∧ av = false)) :
    ∃ w', w.cls = .ok w' ∧ Adv pp av w s w' (s.clsLong pp top rest).1 (s.clsLong pp top rest).2 := by
  have hws : w.stack = top :: rest := by rw [hs.stack, hst]
  have hcond : (w.tagIsOpen && !w.avoidShort) = false := by
    rw [hs.tagOpen, hs.hav]
    cases h1 : s.pend.isSome <;> cases h2 : av <;> simp_all
  have a1 := adv_indent hs hi
  have a2 := adv_depth a1.1 a1.2.1 (w.checkIndent.depth - 1) ((s.indent pp).1.depth - 1) (by rw [a1.1.depth])
  have a3 := adv_flush a2.1 a2.2.1
  have a4 := adv_indent a3.1 a3.2.1
  have a5 := adv_endtag a4.1 (by simp) (by simp) top rest htop
  have a6 := adv_newLine a5.1 (by simp)
  refine ⟨_, ?_, (a1.trans (a2.trans (a3.trans (a4.trans (a5.trans a6))))).cast (by simp [TS.clsLong])⟩
  obtain ⟨out, stk, depth, inLine, tagIsOpen, avoidShort, prettyPrint⟩ := w
  simp only at hws hcond
  subst hws
  simp only [W.cls, hcond]
  rfl

/-! ### invariants about names (for balance) -/

theorem noDupKeys_snoc (as : Attrs) (k v : List Char) (h : noDupKeys as = true)
    (hk : as.any (fun kv => kv.1 == k) = false) : noDupKeys (as ++ [(k, v)]) = true := by
  induction as with
  | nil => simp [noDupKeys]
  | cons a as ih =>
    obtain ⟨k', v'⟩ := a
    simp only [noDupKeys, Bool.and_eq_true, Bool.not_eq_true', List.any_cons, Bool.or_eq_false_iff] at h hk
    simp only [List.cons_append, noDupKeys, Bool.and_eq_true, Bool.not_eq_true', List.any_append,
      List.any_cons, List.any_nil, Bool.or_false, Bool.or_eq_false_iff]
    refine ⟨⟨h.1, ?_⟩, ih h.2 hk.2⟩
    have := hk.1
    simp only [beq_eq_false_iff_ne, ne_eq] at this ⊢
    exact fun e => this e.symm

/-- names on the stack and in the open tag are XML names, attribute names are unique -/
structure NInv (s : TS) : Prop where
  stackOK : ∀ n ∈ s.stack, isXmlName n = true
  pendOK : ∀ as, s.pend = some as → as.all (fun kv => isXmlName kv.1) = true ∧ noDupKeys as = true

/-- the elements whose start tag has been completed -/
def opened (s : TS) : List (List Char) :=
  match s.pend with
  | some _ => s.stack.tail
  | none => s.stack

theorem balance_append (a b : List Tok) (st : List (List Char)) :
    balance (a ++ b) st = (balance a st).bind (fun st' => balance b st') := by
  induction a generalizing st with
  | nil => simp [balance]
  | cons t ts ih =>
    cases t with
    | start n as =>
      simp only [List.cons_append, balance]
      split <;> simp [ih]
    | stop n =>
      simp only [List.cons_append, balance]
      cases st with
      | nil => simp
      | cons m st' => simp only; split <;> simp [ih]
    | chr c => simp only [List.cons_append, balance, ih]

theorem balance_chrs (s : List Char) (st : List (List Char)) : balance (chrs s) st = some st := by
  induction s with
  | nil => simp [chrs, balance]
  | cons c cs ih => simpa [chrs, balance] using ih

theorem balance_indT (pp : Bool) (d : Int) (st : List (List Char)) : balance (indT pp d) st = some st := by
  unfold indT; split
  · exact balance_chrs _ _
  · simp [balance]

theorem balance_nlT (pp : Bool) (st : List (List Char)) : balance (nlT pp) st = some st := by
  unfold nlT; split <;> simp [balance]

theorem flush_bal {s : TS} (hi : s.Inv) (hn : NInv s) :
    balance s.flush.2 (opened s) = some (opened s.flush.1) ∧ NInv s.flush.1 := by
  cases hp : s.pend with
  | none =>
    have hf : s.flush = ({ s with pend := none }, []) := by simp [TS.flush, hp]
    rw [hf]
    exact ⟨by simp [balance, opened, hp], ⟨hn.stackOK, by simp⟩⟩
  | some as =>
    obtain ⟨_, hne⟩ := hi (by simp [hp])
    obtain ⟨n, r, hst⟩ := exists_cons hne
    have hf : s.flush = ({ s with pend := none }, [.start n as]) := by simp [TS.flush, hp, hst]
    rw [hf]
    have hnn : isXmlName n = true := hn.stackOK n (by simp [hst])
    obtain ⟨h1, h2⟩ := hn.pendOK as hp
    refine ⟨?_, ⟨hn.stackOK, by simp⟩⟩
    simp [balance, opened, hp, hst, hnn, h1, h2]

theorem indent_bal (pp : Bool) (s : TS) :
    balance (s.indent pp).2 (opened s) = some (opened (s.indent pp).1) ∧ (NInv s → NInv (s.indent pp).1) := by
  unfold TS.indent
  split
  · exact ⟨by simp [balance], id⟩
  · exact ⟨by simpa [opened] using balance_indT pp s.depth _, fun h => ⟨h.stackOK, h.pendOK⟩⟩

theorem newLine_bal (pp : Bool) (s : TS) :
    balance (s.newLine pp).2 (opened s) = some (opened (s.newLine pp).1) ∧ (NInv s → NInv (s.newLine pp).1) := by
  unfold TS.newLine
  split
  · exact ⟨by simpa [opened] using balance_nlT pp _, fun h => ⟨h.stackOK, h.pendOK⟩⟩
  · exact ⟨by simp [balance], id⟩

theorem balance_seq {a b : List Tok} {st st1 st2 : List (List Char)} (h1 : balance a st = some st1)
    (h2 : balance b st1 = some st2) : balance (a ++ b) st = some st2 := by
  rw [balance_append, h1]; exact h2

theorem opened_none {s : TS} (h : s.pend = none) : opened s = s.stack := by simp [opened, h]

/-- every call keeps the name invariants, and its tokens take the balance stack from the elements opened
before to the elements opened after -/
theorem step_bal {s s' : TS} {c : Call} {o : List Tok} (hi : s.Inv) (hn : NInv s)
    (h : TS.step pp av s c = some (s', o)) : NInv s' ∧ balance o (opened s) = some (opened s') := by
  cases c with
  | opn tag =>
    simp only [TS.step] at h
    split at h
    · rename_i htag
      simp only [Option.some.injEq] at h
      obtain ⟨f1, f2⟩ := flush_bal hi hn
      obtain ⟨n1, n2⟩ := newLine_bal pp s.flush.1
      have n2' := n2 f2
      obtain ⟨i1, i2⟩ := indent_bal pp { (s.flush.1.newLine pp).1 with depth := (s.flush.1.newLine pp).1.depth + 1 }
      have i2' := i2 ⟨n2'.stackOK, n2'.pendOK⟩
      obtain ⟨rfl, rfl⟩ : s' = (TS.opn pp s tag).1 ∧ o = (TS.opn pp s tag).2 := by rw [h]; exact ⟨rfl, rfl⟩
      simp only [TS.opn]
      refine ⟨⟨?_, ?_⟩, ?_⟩
      · intro n hn'
        simp only [List.mem_cons, TS.indent_stack, TS.newLine_stack, TS.flush_stack] at hn'
        rcases hn' with e | e
        · rw [e]; exact htag
        · exact hn.stackOK n e
      · intro as has
        simp only [Option.some.injEq] at has
        subst has
        simp [noDupKeys]
      · refine balance_seq f1 (balance_seq n1 ?_)
        have e1 : opened ({ (s.flush.1.newLine pp).1 with depth := (s.flush.1.newLine pp).1.depth + 1 } : TS)
            = opened (s.flush.1.newLine pp).1 := rfl
        rw [e1] at i1
        rw [i1]
        have e2 : opened (TS.indent pp { (s.flush.1.newLine pp).1 with depth := (s.flush.1.newLine pp).1.depth + 1 }).1
            = s.stack := by rw [opened_none (by simp)]; simp
        rw [e2]
        simp [opened]
    · cases h
  | attr k v =>
    simp only [TS.step] at h
    cases hp : s.pend with
    | none => simp [hp] at h
    | some as =>
      simp only [hp] at h
      split at h
      · rename_i hc
        simp only [Bool.and_eq_true, Bool.not_eq_true'] at hc
        simp only [Option.some.injEq, Prod.mk.injEq] at h
        obtain ⟨h1, h2⟩ := h
        subst h1 h2
        obtain ⟨p1, p2⟩ := hn.pendOK as hp
        refine ⟨⟨hn.stackOK, ?_⟩, ?_⟩
        · intro as' has'
          simp only [Option.some.injEq] at has'
          subst has'
          refine ⟨?_, noDupKeys_snoc as k v p2 hc.1.2⟩
          simp [List.all_append, p1, hc.1.1]
        · simp [balance, opened, hp]
      · cases h
  | cls =>
    simp only [TS.step] at h
    cases hst : s.stack with
    | nil => simp [hst] at h
    | cons top rest =>
      simp only [hst] at h
      have htop : isXmlName top = true := hn.stackOK top (by simp [hst])
      have hrest : ∀ n ∈ rest, isXmlName n = true := fun n hn' => hn.stackOK n (by simp [hst, hn'])
      have long : (s', o) = s.clsLong pp top rest → NInv s' ∧ balance o (opened s) = some (opened s') := by
        intro h
        simp only [TS.clsLong, Prod.mk.injEq] at h
        obtain ⟨h1, h2⟩ := h
        obtain ⟨i1, i2⟩ := indent_bal pp s
        have i2' := i2 hn
        have hi1 : TS.Inv ({ (s.indent pp).1 with depth := (s.indent pp).1.depth - 1 } : TS) := by
          intro hp'
          simp only [TS.indent_pend] at hp'
          obtain ⟨_, hne⟩ := hi hp'
          exact ⟨by simp, by simpa using hne⟩
        obtain ⟨f1, f2⟩ := flush_bal hi1 ⟨i2'.stackOK, i2'.pendOK⟩
        obtain ⟨j1, j2⟩ := indent_bal pp (TS.flush { (s.indent pp).1 with depth := (s.indent pp).1.depth - 1 }).1
        obtain ⟨n1, n2⟩ := newLine_bal pp
          { (TS.indent pp (TS.flush { (s.indent pp).1 with depth := (s.indent pp).1.depth - 1 }).1).1 with stack := rest }
        subst h1 h2
        refine ⟨n2 ⟨by simpa using hrest, by simp⟩, ?_⟩
        refine balance_seq i1 (balance_seq f1 (balance_seq j1 ?_))
        have e1 : opened (TS.indent pp (TS.flush { (s.indent pp).1 with depth := (s.indent pp).1.depth - 1 }).1).1
            = top :: rest := by rw [opened_none (by simp)]; simp [hst]
        rw [e1]
        refine balance_seq (st1 := rest) (by simp [balance]) ?_
        have e2 : opened ({ (TS.indent pp (TS.flush { (s.indent pp).1 with depth := (s.indent pp).1.depth - 1 }).1).1
            with stack := rest } : TS) = rest := opened_none (by simp)
        have n1' := n1
        rw [e2] at n1'
        exact n1'
      cases hp : s.pend with
      | none =>
        simp only [hp, Option.some.injEq] at h
        exact long h.symm
      | some as =>
        simp only [hp] at h
        split at h
        · simp only [Option.some.injEq] at h
          exact long h.symm
        · simp only [Option.some.injEq, TS.clsShort, Prod.mk.injEq] at h
          obtain ⟨h1, h2⟩ := h
          obtain ⟨p1, p2⟩ := hn.pendOK as hp
          obtain ⟨n1, n2⟩ := newLine_bal pp { s with pend := none, depth := s.depth - 1, stack := rest }
          subst h1 h2
          refine ⟨n2 ⟨hrest, by simp⟩, ?_⟩
          refine balance_seq (st1 := rest) ?_ ?_
          · simp [balance, opened, hp, hst, htop, p1, p2]
          · have e2 : opened ({ s with pend := none, depth := s.depth - 1, stack := rest } : TS) = rest :=
              opened_none rfl
            have n1' := n1
            rw [e2] at n1'
            exact n1'
  | wr txt =>
    simp only [TS.step] at h
    split at h
    · simp only [Option.some.injEq, TS.wr, Prod.mk.injEq] at h
      obtain ⟨h1, h2⟩ := h
      obtain ⟨f1, f2⟩ := flush_bal hi hn
      obtain ⟨i1, i2⟩ := indent_bal pp s.flush.1
      subst h1 h2
      exact ⟨i2 f2, balance_seq f1 (balance_seq i1 (balance_chrs _ _))⟩
    · cases h
  | raw x => simp [TS.step] at h

/-- one call of the protocol: the writer does not panic, and the bytes it appends are read by the decoder
as exactly the tokens of the token-level writer -/
theorem step_sim {et ea : Char → List Char} (ht : TextEscOK et) (ha : AttrEscOK ea) {w : W} {s s' : TS}
    {c : Call} {o : List Tok} (hs : Sim pp av w s) (hi : s.Inv) (hn : NInv s)
    (h : TS.step pp av s c = some (s', o)) : ∃ w', W.step et ea w c = .ok w' ∧ Adv pp av w s w' s' o := by
  cases c with
  | opn tag =>
    simp only [TS.step] at h
    split at h
    · rename_i htag
      simp only [Option.some.injEq] at h
      have := adv_opn hs hi tag htag
      rw [h] at this
      exact ⟨_, rfl, this⟩
    · cases h
  | attr k v =>
    simp only [TS.step] at h
    cases hp : s.pend with
    | none => simp [hp] at h
    | some as =>
      simp only [hp] at h
      split at h
      · rename_i hc
        simp only [Bool.and_eq_true, Bool.not_eq_true'] at hc
        simp only [Option.some.injEq, Prod.mk.injEq] at h
        obtain ⟨h1, h2⟩ := h
        subst h1 h2
        exact ⟨_, rfl, adv_attr ha hs hi as hp k v hc.1.1 hc.2⟩
      · cases h
  | cls =>
    simp only [TS.step] at h
    cases hst : s.stack with
    | nil => simp [hst] at h
    | cons top rest =>
      simp only [hst] at h
      have htop : isXmlName top = true := hn.stackOK top (by simp [hst])
      cases hp : s.pend with
      | none =>
        simp only [hp, Option.some.injEq] at h
        obtain ⟨w', e, a⟩ := adv_clsLong (pp := pp) (av := av) hs hi top rest hst htop (by simp [hp])
        rw [h] at a
        exact ⟨w', e, a⟩
      | some as =>
        simp only [hp] at h
        cases hav : av with
        | true =>
          simp only [hav, if_true, Option.some.injEq] at h
          subst hav
          obtain ⟨w', e, a⟩ := adv_clsLong (pp := pp) hs hi top rest hst htop (by simp)
          rw [h] at a
          exact ⟨w', e, a⟩
        | false =>
          simp only [hav, Bool.false_eq_true, if_false, Option.some.injEq] at h
          subst hav
          obtain ⟨w', e, a⟩ := adv_clsShort (pp := pp) hs rfl top rest as hst hp
          rw [h] at a
          exact ⟨w', e, a⟩
  | wr txt =>
    simp only [TS.step] at h
    split at h
    · rename_i htxt
      simp only [Option.some.injEq] at h
      have := adv_wr ht hs hi txt htxt
      rw [h] at this
      exact ⟨_, rfl, this⟩
    · cases h
  | raw x => simp [TS.step] at h

/-- **writer_faithful**, call-sequence form: for every sequence of calls that follows the protocol
(`TS.run` succeeds) the writer does not panic, its state stays in step with the token-level writer, and the
bytes it appends take the reference decoder from the mode of the start state to the mode of the end state
emitting exactly the token-level writer's tokens; these tokens are balanced relative to the open elements. -/
theorem run_sim {et ea : Char → List Char} (ht : TextEscOK et) (ha : AttrEscOK ea) :
    ∀ (cs : List Call) {w : W} {s s' : TS} {o : List Tok}, Sim pp av w s → s.Inv → NInv s →
      TS.run pp av s cs = some (s', o) →
      ∃ w', W.run et ea w cs = .ok w' ∧ Adv pp av w s w' s' o ∧ NInv s' ∧
        balance o (opened s) = some (opened s')
  | [], w, s, s', o, hs, hi, hn, h => by
    simp only [TS.run, Option.some.injEq, Prod.mk.injEq] at h
    obtain ⟨h1, h2⟩ := h
    subst h1 h2
    exact ⟨w, rfl, ⟨hs, hi, [], by simp, Goes.nil _⟩, hn, by simp [balance]⟩
  | c :: cs, w, s, s', o, hs, hi, hn, h => by
    simp only [TS.run] at h
    cases h1 : TS.step pp av s c with
    | none => simp [h1] at h
    | some r1 =>
      obtain ⟨s1, o1⟩ := r1
      simp only [h1] at h
      cases h2 : TS.run pp av s1 cs with
      | none => simp [h2] at h
      | some r2 =>
        obtain ⟨s2, o2⟩ := r2
        simp only [h2, Option.some.injEq, Prod.mk.injEq] at h
        obtain ⟨e1, e2⟩ := h
        subst e1 e2
        obtain ⟨w1, hw1, a1⟩ := step_sim ht ha hs hi hn h1
        obtain ⟨n1, b1⟩ := step_bal hi hn h1
        obtain ⟨w2, hw2, a2, n2, b2⟩ := run_sim ht ha cs a1.1 a1.2.1 n1 h2
        exact ⟨w2, by simp [W.run, hw1, hw2], a1.trans a2, n2, balance_seq b1 b2⟩

end P2.Xml
