import P2.Proofs.LangFRel
/-! # C02 on the value language: naturality of the library for the optimizer's value relation

A copy of `Proofs/LangLib.lean` (C01) in the namespace `P2.Lang.F`, where `RRel`, `VRel`, … are the
relations of `Proofs/LangFRel.lean` (original value vs. value of the optimized program; outcomes
one-directional). If the two instances `aps`, `apr` of closure application are related (`ApRel`),
every library function maps related inputs to related outcomes. Only the closure cases differ from
the original file. -/
namespace P2.Lang.F
open P2.Lang
variable {S : Ctx}

/-- related optional head/tail pairs -/
def UncRel (S : Ctx) : Option (Val × LList) → Option (Val × LList) → Prop
  | some (x, l), some (y, l') => VRel S x y ∧ LRel S l l'
  | none, none => True
  | _, _ => False

theorem uncons_nat {aps apr : Apply} (hap : ApRel S aps apr) : ∀ (k : Nat) {l l' : LList}, LRel S l l' →
    RRel (UncRel S) (uncons aps k l) (uncons apr k l')
  | 0, _, _, _ => by simp [uncons]
  | k+1, _, _, h => by
    cases h with
    | items hxs =>
      cases hxs with
      | nil => simp [uncons, UncRel]
      | cons hv ht => simp only [uncons, RRel.ok_ok, UncRel]; exact ⟨hv, .items ht⟩
    | numbers i n =>
      simp only [uncons]
      split <;> simp [UncRel]
      exact ⟨.int i, .numbers _ _⟩
    | map hf hl =>
      simp only [uncons]
      refine RRel.bind (uncons_nat hap k hl) ?_
      intro o o' ho
      match o, o', ho with
      | none, none, _ => simp [UncRel]
      | some (x, s), some (y, s'), ⟨hx, hs⟩ =>
        simp only
        refine RRel.bind (hap _ _ _ _ hf (.cons hx .nil)) ?_
        intro a b hab
        exact ⟨hab, .map hf hs⟩
    | accept hf hl =>
      simp only [uncons]
      refine RRel.bind (uncons_nat hap k hl) ?_
      intro o o' ho
      match o, o', ho with
      | none, none, _ => simp [UncRel]
      | some (x, s), some (y, s'), ⟨hx, hs⟩ =>
        simp only
        refine RRel.bind (hap _ _ _ _ hf (.cons hx .nil)) ?_
        intro a b hab
        cases hab with
        | bool b =>
          cases b
          · exact uncons_nat hap k (.accept hf hs)
          · exact ⟨hx, .accept hf hs⟩
        | _ => trivial
    | top n hl =>
      simp only [uncons]
      split
      · simp [UncRel]
      · refine RRel.bind (uncons_nat hap k hl) ?_
        intro o o' ho
        match o, o', ho with
        | none, none, _ => simp [UncRel]
        | some (x, s), some (y, s'), ⟨hx, hs⟩ => exact ⟨hx, .top _ hs⟩
    | skip n hl =>
      simp only [uncons]
      split
      · exact uncons_nat hap k hl
      · refine RRel.bind (uncons_nat hap k hl) ?_
        intro o o' ho
        match o, o', ho with
        | none, none, _ => simp [UncRel]
        | some (x, s), some (y, s'), ⟨hx, hs⟩ => exact uncons_nat hap k (.skip _ hs)
    | append ha hb =>
      simp only [uncons]
      refine RRel.bind (uncons_nat hap k ha) ?_
      intro o o' ho
      match o, o', ho with
      | none, none, _ => exact uncons_nat hap k hb
      | some (x, s), some (y, s'), ⟨hx, hs⟩ => exact ⟨hx, .append hs hb⟩

theorem force_nat {aps apr : Apply} (hap : ApRel S aps apr) : ∀ (k : Nat) {l l' : LList}, LRel S l l' →
    RRel (VsRel S) (force aps k l) (force apr k l')
  | 0, _, _, _ => by simp [force]
  | k+1, _, _, h => by
    simp only [force]
    refine RRel.bind (uncons_nat hap k h) ?_
    intro o o' ho
    match o, o', ho with
    | none, none, _ => exact .nil
    | some (x, s), some (y, s'), ⟨hx, hs⟩ =>
      simp only
      refine RRel.bind (force_nat hap k hs) ?_
      intro xs ys hxs
      exact .cons hx hxs

/-! ## `toStr` -/

mutual
theorem toStr_nat {aps apr : Apply} (hap : ApRel S aps apr) : ∀ (k : Nat) {v v' : Val}, VRel S v v' →
    RRel Eq (toStr aps k v) (toStr apr k v')
  | 0, _, _, _ => by simp [toStr]
  | k+1, _, _, h => by
    cases h with
    | int i => simp [toStr]
    | flt f => simp [toStr]
    | str s => simp [toStr]
    | bool b => simp [toStr]
    | list hl =>
      simp only [toStr]
      refine RRel.bind (force_nat hap k hl) ?_
      intro xs ys hxs
      refine RRel.bind (toStrs_nat hap k hxs) ?_
      intro a b hab
      subst hab; simp
    | map hm =>
      simp only [toStr]
      refine RRel.bind (toStrKVs_nat hap k hm) ?_
      intro a b hab
      subst hab; simp
    | clos => simp [toStr]
theorem toStrs_nat {aps apr : Apply} (hap : ApRel S aps apr) : ∀ (k : Nat) {vs vs' : List Val}, VsRel S vs vs' →
    RRel Eq (toStrs aps k vs) (toStrs apr k vs')
  | 0, _, _, _ => by simp [toStrs]
  | k+1, _, _, h => by
    cases h with
    | nil => simp [toStrs]
    | cons hv ht =>
      simp only [toStrs]
      refine RRel.bind (toStr_nat hap k hv) ?_
      intro a b hab
      refine RRel.bind (toStrs_nat hap k ht) ?_
      intro c d hcd
      subst hab; subst hcd; simp
theorem toStrKVs_nat {aps apr : Apply} (hap : ApRel S aps apr) : ∀ (k : Nat) {vs vs' : List (String × Val)},
    KVRel S vs vs' → RRel Eq (toStrKVs aps k vs) (toStrKVs apr k vs')
  | 0, _, _, _ => by simp [toStrKVs]
  | k+1, _, _, h => by
    cases h with
    | nil => simp [toStrKVs]
    | cons key hv ht =>
      simp only [toStrKVs]
      refine RRel.bind (toStr_nat hap k hv) ?_
      intro a b hab
      refine RRel.bind (toStrKVs_nat hap k ht) ?_
      intro c d hcd
      subst hab; subst hcd; simp
end

/-! ## equality, order -/

mutual
theorem valEq_nat_aux {aps apr : Apply} (hap : ApRel S aps apr) : ∀ (k : Nat) {a a' b b' : Val},
    VRel S a a' → VRel S b b' → RRel Eq (valEq aps k a b) (valEq apr k a' b')
  | 0, _, _, _, _, _, _ => by simp [valEq]
  | k+1, _, _, _, _, ha, hb => by
    cases ha with
    | list hl =>
      cases hb with
      | list hl2 =>
        simp only [valEq]
        refine RRel.bind (force_nat hap k hl) ?_
        intro xs xs' hxs
        refine RRel.bind (force_nat hap k hl2) ?_
        intro ys ys' hys
        rw [hxs.length, hys.length]
        split
        · simp
        · exact listEq_nat hap k hxs hys
      | _ => simp [valEq]
    | map hm =>
      cases hb with
      | map hm2 =>
        simp only [valEq]
        rw [hm.length, hm2.length]
        split
        · simp
        · exact mapEq_nat hap k hm hm2
      | _ => simp [valEq]
    | _ => cases hb <;> simp [valEq]
theorem listEq_nat {aps apr : Apply} (hap : ApRel S aps apr) : ∀ (k : Nat) {xs xs' ys ys' : List Val},
    VsRel S xs xs' → VsRel S ys ys' → RRel Eq (listEq aps k xs ys) (listEq apr k xs' ys')
  | 0, _, _, _, _, _, _ => by simp [listEq]
  | k+1, _, _, _, _, hxs, hys => by
    cases hxs with
    | nil => simp [listEq]
    | cons hx hxt =>
      cases hys with
      | nil => simp [listEq]
      | cons hy hyt =>
        simp only [listEq]
        refine RRel.bind (valEq_nat_aux hap k hx hy) ?_
        intro a b hab
        subst hab
        cases a
        · simp
        · simpa using listEq_nat hap k hxt hyt
theorem mapEq_nat {aps apr : Apply} (hap : ApRel S aps apr) : ∀ (k : Nat) {xs xs' ys ys' : List (String × Val)},
    KVRel S xs xs' → KVRel S ys ys' → RRel Eq (mapEq aps k xs ys) (mapEq apr k xs' ys')
  | 0, _, _, _, _, _, _ => by simp [mapEq]
  | k+1, _, _, _, _, hxs, hys => by
    cases hxs with
    | nil => simp [mapEq]
    | cons key hv ht =>
      simp only [mapEq]
      rcases hys.get_cases key with ⟨h1, h2⟩ | ⟨x, y, h1, h2, hxy⟩
      · rw [h1, h2]; simp
      · rw [h1, h2]
        simp only
        refine RRel.bind (valEq_nat_aux hap k hxy hv) ?_
        intro a b hab
        subst hab
        cases a
        · simp
        · simpa using mapEq_nat hap k ht hys
end

theorem valLess_nat {a a' b b' : Val} (ha : VRel S a a') (hb : VRel S b b') :
    RRel Eq (valLess a b) (valLess a' b') := by
  cases ha <;> cases hb <;> simp [valLess]

theorem containsItem_nat {aps apr : Apply} (hap : ApRel S aps apr) : ∀ (k : Nat) {l l' : LList} {x x' : Val},
    LRel S l l' → VRel S x x' → RRel Eq (containsItem aps k l x) (containsItem apr k l' x')
  | 0, _, _, _, _, _, _ => by simp [containsItem]
  | k+1, _, _, _, _, hl, hx => by
    simp only [containsItem]
    refine RRel.bind (uncons_nat hap k hl) ?_
    intro o o' ho
    match o, o', ho with
    | none, none, _ => simp
    | some (y, s), some (y', s'), ⟨hy, hs⟩ =>
      simp only
      refine RRel.bind (valEq_nat_aux hap k hx hy) ?_
      intro a b hab
      subst hab
      cases a
      · simpa using containsItem_nat hap k hs hx
      · simp

theorem numOp_nat (fi : Int → Int → Int) (ff : Float → Float → Float) {a a' b b' : Val}
    (ha : VRel S a a') (hb : VRel S b b') : RRel (VRel S) (numOp fi ff a b) (numOp fi ff a' b') := by
  cases ha <;> cases hb <;> simp [numOp] <;> constructor

theorem mapKeysDisjoint_nat {a a' : List (String × Val)} (ha : KVRel S a a') :
    ∀ {b b' : List (String × Val)}, KVRel S b b' → mapKeysDisjoint a b = mapKeysDisjoint a' b'
  | _, _, .nil => rfl
  | _, _, .cons key hv ht => by
    simp only [mapKeysDisjoint, ha.get_isNone key, mapKeysDisjoint_nat ha ht]

theorem floatToInt_nat (f : Float) : RRel (VRel S) (floatToInt f) (floatToInt f) := by
  unfold floatToInt; split <;> simp
  constructor

theorem boolRes_nat {x y : R Bool} (f : Bool → Bool) (h : RRel Eq x y) :
    RRel (VRel S) (do let r ← x; pure (Val.bool (f r))) (do let r ← y; pure (Val.bool (f r))) := by
  refine RRel.bind h ?_
  intro a b hab
  subst hab
  exact .bool _

/-! ## static functions -/

theorem minMaxFold_nat {p : Val → Val → R Bool}
    (hp : ∀ {a a' b b' : Val}, VRel S a a' → VRel S b b' → RRel Eq (p a b) (p a' b')) :
    ∀ {vs vs' : List Val} {m m' : Val}, VsRel S vs vs' → VRel S m m' →
      RRel (VRel S) (minMaxFold p m vs) (minMaxFold p m' vs')
  | _, _, _, _, .nil, hm => by simpa [minMaxFold] using hm
  | _, _, _, _, .cons hv ht, hm => by
    simp only [minMaxFold]
    refine RRel.bind (hp hv hm) ?_
    intro a b hab
    subst hab
    cases a
    · simpa using minMaxFold_nat hp ht hm
    · simpa using minMaxFold_nat hp ht hv

/-- closes the goal for a unary static function once the argument list has a known shape -/
local macro "cs_tac" : tactic =>
  `(tactic| (simp [callStatic, toFloat?, floatToInt_nat] <;> (repeat' split) <;> (try simp) <;> (repeat' constructor)))

theorem cs_throw {aps apr : Apply} (k : Nat) {vs vs' : List Val} (hvs : VsRel S vs vs') :
    RRel (VRel S) (callStatic aps k "throw" vs) (callStatic apr k "throw" vs') := by
  cases hvs with
  | nil => simp [callStatic]
  | cons hv ht =>
    cases ht with
    | nil => cases hv <;> cs_tac
    | cons _ _ => simp [callStatic]

theorem cs_string {aps apr : Apply} (hap : ApRel S aps apr) (k : Nat) {vs vs' : List Val} (hvs : VsRel S vs vs') :
    RRel (VRel S) (callStatic aps k "string" vs) (callStatic apr k "string" vs') := by
  cases hvs with
  | nil => simp [callStatic]
  | cons hv ht =>
    cases ht with
    | nil =>
      simp only [callStatic]
      refine RRel.bind (toStr_nat hap k hv) ?_
      intro a b hab
      subst hab
      exact .str _
    | cons _ _ => simp [callStatic]

theorem cs_isFloat {aps apr : Apply} (k : Nat) {vs vs' : List Val} (hvs : VsRel S vs vs') :
    RRel (VRel S) (callStatic aps k "isFloat" vs) (callStatic apr k "isFloat" vs') := by
  cases hvs with
  | nil => simp [callStatic]
  | cons hv ht =>
    cases ht with
    | nil => cases hv <;> cs_tac
    | cons _ _ => simp [callStatic]

theorem cs_isInt {aps apr : Apply} (k : Nat) {vs vs' : List Val} (hvs : VsRel S vs vs') :
    RRel (VRel S) (callStatic aps k "isInt" vs) (callStatic apr k "isInt" vs') := by
  cases hvs with
  | nil => simp [callStatic]
  | cons hv ht =>
    cases ht with
    | nil => cases hv <;> cs_tac
    | cons _ _ => simp [callStatic]

theorem cs_float {aps apr : Apply} (k : Nat) {vs vs' : List Val} (hvs : VsRel S vs vs') :
    RRel (VRel S) (callStatic aps k "float" vs) (callStatic apr k "float" vs') := by
  cases hvs with
  | nil => simp [callStatic]
  | cons hv ht =>
    cases ht with
    | nil => cases hv <;> cs_tac
    | cons _ _ => simp [callStatic]

theorem cs_int {aps apr : Apply} (k : Nat) {vs vs' : List Val} (hvs : VsRel S vs vs') :
    RRel (VRel S) (callStatic aps k "int" vs) (callStatic apr k "int" vs') := by
  cases hvs with
  | nil => simp [callStatic]
  | cons hv ht =>
    cases ht with
    | nil => cases hv <;> cs_tac
    | cons _ _ => simp [callStatic]

theorem cs_abs {aps apr : Apply} (k : Nat) {vs vs' : List Val} (hvs : VsRel S vs vs') :
    RRel (VRel S) (callStatic aps k "abs" vs) (callStatic apr k "abs" vs') := by
  cases hvs with
  | nil => simp [callStatic]
  | cons hv ht =>
    cases ht with
    | nil => cases hv <;> cs_tac
    | cons _ _ => simp [callStatic]

theorem cs_sign {aps apr : Apply} (k : Nat) {vs vs' : List Val} (hvs : VsRel S vs vs') :
    RRel (VRel S) (callStatic aps k "sign" vs) (callStatic apr k "sign" vs') := by
  cases hvs with
  | nil => simp [callStatic]
  | cons hv ht =>
    cases ht with
    | nil => cases hv <;> cs_tac
    | cons _ _ => simp [callStatic]

theorem cs_sqr {aps apr : Apply} (k : Nat) {vs vs' : List Val} (hvs : VsRel S vs vs') :
    RRel (VRel S) (callStatic aps k "sqr" vs) (callStatic apr k "sqr" vs') := by
  cases hvs with
  | nil => simp [callStatic]
  | cons hv ht =>
    cases ht with
    | nil => cases hv <;> cs_tac
    | cons _ _ => simp [callStatic]

theorem cs_round {aps apr : Apply} (k : Nat) {vs vs' : List Val} (hvs : VsRel S vs vs') :
    RRel (VRel S) (callStatic aps k "round" vs) (callStatic apr k "round" vs') := by
  cases hvs with
  | nil => simp [callStatic]
  | cons hv ht =>
    cases ht with
    | nil => cases hv <;> cs_tac
    | cons _ _ => simp [callStatic]

theorem cs_numbers {aps apr : Apply} (k : Nat) {vs vs' : List Val} (hvs : VsRel S vs vs') :
    RRel (VRel S) (callStatic aps k "numbers" vs) (callStatic apr k "numbers" vs') := by
  cases hvs with
  | nil => simp [callStatic]
  | cons hv ht =>
    cases ht with
    | nil => cases hv <;> cs_tac
    | cons _ _ => simp [callStatic]

theorem cs_goto {aps apr : Apply} (k : Nat) {vs vs' : List Val} (hvs : VsRel S vs vs') :
    RRel (VRel S) (callStatic aps k "goto" vs) (callStatic apr k "goto" vs') := by
  cases hvs with
  | nil => simp [callStatic]
  | cons hv ht =>
    cases ht with
    | nil => cases hv <;> cs_tac
    | cons _ _ => simp [callStatic]

theorem cs_sqrt {aps apr : Apply} (k : Nat) {vs vs' : List Val} (hvs : VsRel S vs vs') :
    RRel (VRel S) (callStatic aps k "sqrt" vs) (callStatic apr k "sqrt" vs') := by
  cases hvs with
  | nil => simp [callStatic]
  | cons hv ht =>
    cases ht with
    | nil => cases hv <;> cs_tac
    | cons _ _ => simp [callStatic]

theorem cs_floor {aps apr : Apply} (k : Nat) {vs vs' : List Val} (hvs : VsRel S vs vs') :
    RRel (VRel S) (callStatic aps k "floor" vs) (callStatic apr k "floor" vs') := by
  cases hvs with
  | nil => simp [callStatic]
  | cons hv ht =>
    cases ht with
    | nil => cases hv <;> cs_tac
    | cons _ _ => simp [callStatic]

theorem cs_ceil {aps apr : Apply} (k : Nat) {vs vs' : List Val} (hvs : VsRel S vs vs') :
    RRel (VRel S) (callStatic aps k "ceil" vs) (callStatic apr k "ceil" vs') := by
  cases hvs with
  | nil => simp [callStatic]
  | cons hv ht =>
    cases ht with
    | nil => cases hv <;> cs_tac
    | cons _ _ => simp [callStatic]

theorem cs_trunc {aps apr : Apply} (k : Nat) {vs vs' : List Val} (hvs : VsRel S vs vs') :
    RRel (VRel S) (callStatic aps k "trunc" vs) (callStatic apr k "trunc" vs') := by
  cases hvs with
  | nil => simp [callStatic]
  | cons hv ht =>
    cases ht with
    | nil => cases hv <;> cs_tac
    | cons _ _ => simp [callStatic]

theorem cs_min {aps apr : Apply} (k : Nat) {vs vs' : List Val} (hvs : VsRel S vs vs') :
    RRel (VRel S) (callStatic aps k "min" vs) (callStatic apr k "min" vs') := by
  cases hvs with
  | nil => simp [callStatic]
  | cons hv ht =>
    simp only [callStatic]
    exact minMaxFold_nat (fun h1 h2 => valLess_nat h1 h2) ht hv

theorem cs_max {aps apr : Apply} (k : Nat) {vs vs' : List Val} (hvs : VsRel S vs vs') :
    RRel (VRel S) (callStatic aps k "max" vs) (callStatic apr k "max" vs') := by
  cases hvs with
  | nil => simp [callStatic]
  | cons hv ht =>
    simp only [callStatic]
    exact minMaxFold_nat (fun h1 h2 => valLess_nat h2 h1) ht hv

theorem callStatic_unknown (ap : Apply) (k : Nat) (name : String) (args : List Val)
    (h : name ∉ ["throw", "string", "isFloat", "isInt", "float", "int", "abs", "sign", "sqr", "round",
      "numbers", "goto", "sqrt", "floor", "ceil", "trunc", "min", "max"]) :
    callStatic ap k name args = .unmodelled := by
  unfold callStatic
  split <;> first | rfl | (exfalso; simp at h)

/-! The statements below are what the simulation proof (`LangMain`) uses. -/

theorem valEq_nat {aps apr : Apply} (hap : ApRel S aps apr) (k : Nat) {a a' b b' : Val}
    (ha : VRel S a a') (hb : VRel S b b') : RRel Eq (valEq aps k a b) (valEq apr k a' b') :=
  valEq_nat_aux hap k ha hb

theorem unop_nat (op : String) {a a' : Val} (ha : VRel S a a') :
    RRel (VRel S) (unop op a) (unop op a') := by
  cases ha <;> unfold unop <;> split <;> simp_all <;> constructor

theorem binop_nat {aps apr : Apply} (hap : ApRel S aps apr) (k : Nat) (op : String) {a a' b b' : Val}
    (ha : VRel S a a') (hb : VRel S b b') :
    RRel (VRel S) (binop aps k op a b) (binop apr k op a' b') := by
  unfold binop
  split
  · exact boolRes_nat id (valEq_nat hap k ha hb)
  · exact boolRes_nat (!·) (valEq_nat hap k ha hb)
  · exact boolRes_nat id (valLess_nat ha hb)
  · exact boolRes_nat id (valLess_nat hb ha)
  · refine RRel.bind (valLess_nat ha hb) ?_
    intro x y hxy
    subst hxy
    cases x
    · simpa using boolRes_nat id (valEq_nat hap k ha hb)
    · simp; constructor
  · refine RRel.bind (valLess_nat hb ha) ?_
    intro x y hxy
    subst hxy
    cases x
    · simpa using boolRes_nat id (valEq_nat hap k ha hb)
    · simp; constructor
  · -- "~"
    cases hb with
    | list hl =>
      cases ha with
      | list _ => simp
      | _ => exact boolRes_nat id (containsItem_nat hap k hl (by constructor <;> assumption))
    | map hm =>
      cases ha with
      | str s => simp [hm.get_isSome]; constructor
      | _ => simp
    | str s => cases ha <;> simp <;> constructor
    | _ => cases ha <;> simp
  · -- "+"
    cases ha with
    | str s =>
      refine RRel.bind (toStr_nat hap k hb) ?_
      intro x y hxy
      subst hxy
      exact .str _
    | list hl =>
      cases hb with
      | list hl2 => simp; exact .list (.append hl hl2)
      | _ => simp [numOp]
    | map hm =>
      cases hb with
      | map hm2 =>
        simp only [mapKeysDisjoint_nat hm hm2]
        split
        · simp; exact .map (hm.append hm2)
        · simp
      | _ => simp [numOp]
    | int i => exact numOp_nat _ _ (.int i) hb
    | flt i => exact numOp_nat _ _ (.flt i) hb
    | bool i => exact numOp_nat _ _ (.bool i) hb
    | clos h1 h2 h3 h4 h5 h6 h7 h8 h9 h10 h11 h12 => exact numOp_nat _ _ (.clos h1 h2 h3 h4 h5 h6 h7 h8 h9 h10 h11 h12) hb
  · exact numOp_nat _ _ ha hb
  · exact numOp_nat _ _ ha hb
  · rw [ha.toFloat?, hb.toFloat?]
    split <;> simp
    constructor
  · cases ha <;> cases hb <;> simp
    split <;> simp
    constructor
  · cases ha <;> cases hb <;> simp
    split
    · simp
    · split <;> simp <;> constructor
  · cases ha <;> cases hb <;> simp
    split <;> simp
    constructor
  · cases ha <;> cases hb <;> simp
    split
    · simp; constructor
    · split <;> simp
      constructor
  · cases ha <;> cases hb <;> simp
    constructor
  · cases ha <;> cases hb <;> simp
    constructor
  · simp

/-! ## loops -/

theorem reduceLoop_nat {aps apr : Apply} (hap : ApRel S aps apr) {f f' : Val} (hf : VRel S f f') :
    ∀ (k : Nat) {acc acc' : Val} {l l' : LList}, VRel S acc acc' → LRel S l l' →
      RRel (VRel S) (reduceLoop aps f k acc l) (reduceLoop apr f' k acc' l')
  | 0, _, _, _, _, _, _ => by simp [reduceLoop]
  | k+1, _, _, _, _, hacc, hl => by
    simp only [reduceLoop]
    refine RRel.bind (uncons_nat hap k hl) ?_
    intro o o' ho
    match o, o', ho with
    | none, none, _ => exact hacc
    | some (x, s), some (y, s'), ⟨hx, hs⟩ =>
      simp only
      refine RRel.bind (hap _ _ _ _ hf (.cons hacc (.cons hx .nil))) ?_
      intro a b hab
      exact reduceLoop_nat hap hf k hab hs

theorem sumLoop_nat {aps apr : Apply} (hap : ApRel S aps apr) :
    ∀ (k : Nat) {acc acc' : Val} {l l' : LList}, VRel S acc acc' → LRel S l l' →
      RRel (VRel S) (sumLoop aps k acc l) (sumLoop apr k acc' l')
  | 0, _, _, _, _, _, _ => by simp [sumLoop]
  | k+1, _, _, _, _, hacc, hl => by
    simp only [sumLoop]
    refine RRel.bind (uncons_nat hap k hl) ?_
    intro o o' ho
    match o, o', ho with
    | none, none, _ => exact hacc
    | some (x, s), some (y, s'), ⟨hx, hs⟩ =>
      simp only
      refine RRel.bind (binop_nat hap k "+" hacc hx) ?_
      intro a b hab
      exact sumLoop_nat hap k hab hs

/-- related optional accumulators -/
def OVRel (S : Ctx) : Option Val → Option Val → Prop
  | some a, some b => VRel S a b
  | none, none => True
  | _, _ => False

theorem lastLoop_nat {aps apr : Apply} (hap : ApRel S aps apr) :
    ∀ (k : Nat) {acc acc' : Option Val} {l l' : LList}, OVRel S acc acc' → LRel S l l' →
      RRel (VRel S) (lastLoop aps k acc l) (lastLoop apr k acc' l')
  | 0, _, _, _, _, _, _ => by simp [lastLoop]
  | k+1, acc, acc', _, _, hacc, hl => by
    simp only [lastLoop]
    refine RRel.bind (uncons_nat hap k hl) ?_
    intro o o' ho
    match o, o', ho with
    | none, none, _ =>
      match acc, acc', hacc with
      | none, none, _ => simp
      | some a, some b, hab => exact hab
    | some (x, s), some (y, s'), ⟨hx, hs⟩ =>
      exact lastLoop_nat hap k (acc := some x) (acc' := some y) hx hs

theorem findLoop_nat {aps apr : Apply} (hap : ApRel S aps apr) {f f' : Val} (hf : VRel S f f') :
    ∀ (k : Nat) (i : Int) {l l' : LList}, LRel S l l' →
      RRel Eq (findLoop aps f k i l) (findLoop apr f' k i l')
  | 0, _, _, _, _ => by simp [findLoop]
  | k+1, i, _, _, hl => by
    simp only [findLoop]
    refine RRel.bind (uncons_nat hap k hl) ?_
    intro o o' ho
    match o, o', ho with
    | none, none, _ => simp
    | some (x, s), some (y, s'), ⟨hx, hs⟩ =>
      simp only
      refine RRel.bind (hap _ _ _ _ hf (.cons hx .nil)) ?_
      intro a b hab
      cases hab with
      | bool b =>
        cases b
        · exact findLoop_nat hap hf k (i+1) hs
        · simp
      | _ => trivial

theorem mapMapLoop_nat {aps apr : Apply} (hap : ApRel S aps apr) {f f' : Val} (hf : VRel S f f') :
    ∀ (k : Nat) {m m' : List (String × Val)}, KVRel S m m' →
      RRel (KVRel S) (mapMapLoop aps f k m) (mapMapLoop apr f' k m')
  | 0, _, _, _ => by simp [mapMapLoop]
  | k+1, _, _, hm => by
    cases hm with
    | nil => simp [mapMapLoop]; exact .nil
    | cons key hv ht =>
      simp only [mapMapLoop]
      refine RRel.bind (hap _ _ _ _ hf (.cons (.str key) (.cons hv .nil))) ?_
      intro a b hab
      refine RRel.bind (mapMapLoop_nat hap hf k ht) ?_
      intro c d hcd
      exact .cons key hab hcd

theorem mapAcceptLoop_nat {aps apr : Apply} (hap : ApRel S aps apr) {f f' : Val} (hf : VRel S f f') :
    ∀ (k : Nat) {m m' : List (String × Val)}, KVRel S m m' →
      RRel (KVRel S) (mapAcceptLoop aps f k m) (mapAcceptLoop apr f' k m')
  | 0, _, _, _ => by simp [mapAcceptLoop]
  | k+1, _, _, hm => by
    cases hm with
    | nil => simp [mapAcceptLoop]; exact .nil
    | cons key hv ht =>
      simp only [mapAcceptLoop]
      refine RRel.bind (hap _ _ _ _ hf (.cons (.str key) (.cons hv .nil))) ?_
      intro a b hab
      cases hab with
      | bool b =>
        simp only
        refine RRel.bind (mapAcceptLoop_nat hap hf k ht) ?_
        intro c d hcd
        cases b
        · simpa using hcd
        · simpa using KVRel.cons key hv hcd
      | _ => trivial

theorem allStrKeysPresent_nat {m m' : List (String × Val)} (hm : KVRel S m m') :
    ∀ {vs vs' : List Val}, VsRel S vs vs' →
      RRel Eq (allStrKeysPresent m vs) (allStrKeysPresent m' vs')
  | _, _, .nil => by simp [allStrKeysPresent]
  | _, _, .cons hv ht => by
    cases hv with
    | str key =>
      simp only [allStrKeysPresent, hm.get_isSome key]
      split
      · exact allStrKeysPresent_nat hm ht
      · simp
    | _ => simp [allStrKeysPresent]


/-! ## methods -/

theorem mMap_nat {aps apr : Apply} (hap : ApRel S aps apr) (k : Nat) {r r' : Val} {vs vs' : List Val}
    (hr : VRel S r r') (hvs : VsRel S vs vs') : RRel (VRel S) (mMap aps k r vs) (mMap apr k r' vs') := by
  cases hvs with
  | nil => cases hr <;> simp [mMap]
  | cons hf ht =>
    cases ht with
    | cons _ _ => cases hr <;> simp [mMap]
    | nil =>
      cases hr with
      | list hl =>
        simp only [mMap, hf.isClosN]
        split
        · exact .list (.map hf hl)
        · trivial
      | map hm =>
        simp only [mMap, hf.isClosN]
        split
        · refine RRel.bind (mapMapLoop_nat hap hf k hm) ?_
          intro a b hab
          exact .map hab
        · trivial
      | _ => simp [mMap]

theorem mAccept_nat {aps apr : Apply} (hap : ApRel S aps apr) (k : Nat) {r r' : Val} {vs vs' : List Val}
    (hr : VRel S r r') (hvs : VsRel S vs vs') : RRel (VRel S) (mAccept aps k r vs) (mAccept apr k r' vs') := by
  cases hvs with
  | nil => cases hr <;> simp [mAccept]
  | cons hf ht =>
    cases ht with
    | cons _ _ => cases hr <;> simp [mAccept]
    | nil =>
      cases hr with
      | list hl =>
        simp only [mAccept, hf.isClosN]
        split
        · exact .list (.accept hf hl)
        · trivial
      | map hm =>
        simp only [mAccept, hf.isClosN]
        split
        · refine RRel.bind (mapAcceptLoop_nat hap hf k hm) ?_
          intro a b hab
          exact .map hab
        · trivial
      | _ => simp [mAccept]

theorem mTop_nat {r r' : Val} {vs vs' : List Val}
    (hr : VRel S r r') (hvs : VsRel S vs vs') : RRel (VRel S) (mTop r vs) (mTop r' vs') := by
  cases hvs with
  | nil => cases hr <;> simp [mTop]
  | cons hf ht =>
    cases ht with
    | cons _ _ => cases hr <;> simp [mTop]
    | nil =>
      cases hr with
      | list hl => cases hf <;> simp [mTop]; exact .list (.top _ hl)
      | _ => simp [mTop]

theorem mSkip_nat {r r' : Val} {vs vs' : List Val}
    (hr : VRel S r r') (hvs : VsRel S vs vs') : RRel (VRel S) (mSkip r vs) (mSkip r' vs') := by
  cases hvs with
  | nil => cases hr <;> simp [mSkip]
  | cons hf ht =>
    cases ht with
    | cons _ _ => cases hr <;> simp [mSkip]
    | nil =>
      cases hr with
      | list hl => cases hf <;> simp [mSkip]; exact .list (.skip _ hl)
      | _ => simp [mSkip]

theorem mSize_nat {aps apr : Apply} (hap : ApRel S aps apr) (k : Nat) {r r' : Val} {vs vs' : List Val}
    (hr : VRel S r r') (hvs : VsRel S vs vs') : RRel (VRel S) (mSize aps k r vs) (mSize apr k r' vs') := by
  cases hvs with
  | cons _ _ => cases hr <;> simp [mSize]
  | nil =>
    cases hr with
    | list hl =>
      simp only [mSize]
      refine RRel.bind (force_nat hap k hl) ?_
      intro a b hab
      simp [hab.length]; constructor
    | map hm => simp [mSize, hm.length]; constructor
    | _ => simp [mSize]

theorem mEval_nat {aps apr : Apply} (hap : ApRel S aps apr) (k : Nat) {r r' : Val} {vs vs' : List Val}
    (hr : VRel S r r') (hvs : VsRel S vs vs') : RRel (VRel S) (mEval aps k r vs) (mEval apr k r' vs') := by
  cases hvs with
  | cons _ _ => cases hr <;> simp [mEval]
  | nil =>
    cases hr with
    | list hl =>
      simp only [mEval]
      refine RRel.bind (force_nat hap k hl) ?_
      intro a b hab
      exact .list (.items hab)
    | map hm => simp [mEval]; exact .map hm
    | _ => simp [mEval]

theorem mString_nat {aps apr : Apply} (hap : ApRel S aps apr) (k : Nat) {r r' : Val} {vs vs' : List Val}
    (hr : VRel S r r') (hvs : VsRel S vs vs') : RRel (VRel S) (mString aps k r vs) (mString apr k r' vs') := by
  cases hvs with
  | cons _ _ => cases hr <;> simp [mString]
  | nil =>
    cases hr with
    | list hl =>
      simp only [mString]
      refine RRel.bind (toStr_nat hap k (.list hl)) ?_
      intro a b hab
      subst hab; exact .str _
    | map hm =>
      simp only [mString]
      refine RRel.bind (toStr_nat hap k (.map hm)) ?_
      intro a b hab
      subst hab; exact .str _
    | clos => simp [mString]
    | _ => simp [mString] <;> constructor

theorem mFirst_nat {aps apr : Apply} (hap : ApRel S aps apr) (k : Nat) {r r' : Val} {vs vs' : List Val}
    (hr : VRel S r r') (hvs : VsRel S vs vs') : RRel (VRel S) (mFirst aps k r vs) (mFirst apr k r' vs') := by
  cases hvs with
  | cons _ _ => cases hr <;> simp [mFirst]
  | nil =>
    cases hr with
    | list hl =>
      cases k with
      | zero => simp [mFirst]
      | succ k =>
        simp only [mFirst]
        refine RRel.bind (uncons_nat hap k hl) ?_
        intro o o' ho
        match o, o', ho with
        | none, none, _ => simp
        | some (x, s), some (y, s'), ⟨hx, hs⟩ => exact hx
    | _ => simp [mFirst]

theorem mLast_nat {aps apr : Apply} (hap : ApRel S aps apr) (k : Nat) {r r' : Val} {vs vs' : List Val}
    (hr : VRel S r r') (hvs : VsRel S vs vs') : RRel (VRel S) (mLast aps k r vs) (mLast apr k r' vs') := by
  cases hvs with
  | cons _ _ => cases hr <;> simp [mLast]
  | nil =>
    cases hr with
    | list hl =>
      simp only [mLast]
      exact lastLoop_nat hap k (acc := none) (acc' := none) trivial hl
    | _ => simp [mLast]

theorem mReduce_nat {aps apr : Apply} (hap : ApRel S aps apr) (k : Nat) {r r' : Val} {vs vs' : List Val}
    (hr : VRel S r r') (hvs : VsRel S vs vs') : RRel (VRel S) (mReduce aps k r vs) (mReduce apr k r' vs') := by
  cases hvs with
  | nil => cases hr <;> simp [mReduce]
  | cons hf ht =>
    cases ht with
    | cons _ _ => cases hr <;> simp [mReduce]
    | nil =>
      cases hr with
      | list hl =>
        cases k with
        | zero =>
          simp only [mReduce, hf.isClosN]
          split <;> trivial
        | succ k =>
          simp only [mReduce, hf.isClosN]
          split
          · trivial
          · refine RRel.bind (uncons_nat hap k hl) ?_
            intro o o' ho
            match o, o', ho with
            | none, none, _ => simp
            | some (x, s), some (y, s'), ⟨hx, hs⟩ => exact reduceLoop_nat hap hf k hx hs
      | _ => simp [mReduce]

theorem mMapReduce_nat {aps apr : Apply} (hap : ApRel S aps apr) (k : Nat) {r r' : Val} {vs vs' : List Val}
    (hr : VRel S r r') (hvs : VsRel S vs vs') :
    RRel (VRel S) (mMapReduce aps k r vs) (mMapReduce apr k r' vs') := by
  cases hvs with
  | nil => cases hr <;> simp [mMapReduce]
  | cons hi ht =>
    cases ht with
    | nil => cases hr <;> simp [mMapReduce]
    | cons hf ht2 =>
      cases ht2 with
      | cons _ _ => cases hr <;> simp [mMapReduce]
      | nil =>
        cases hr with
        | list hl =>
          simp only [mMapReduce, hf.isClosN]
          split
          · exact reduceLoop_nat hap hf k hi hl
          · trivial
        | _ => simp [mMapReduce]

theorem mSum_nat {aps apr : Apply} (hap : ApRel S aps apr) (k : Nat) {r r' : Val} {vs vs' : List Val}
    (hr : VRel S r r') (hvs : VsRel S vs vs') : RRel (VRel S) (mSum aps k r vs) (mSum apr k r' vs') := by
  cases hvs with
  | cons _ _ => cases hr <;> simp [mSum]
  | nil =>
    cases hr with
    | list hl =>
      cases k with
      | zero => simp [mSum]
      | succ k =>
        simp only [mSum]
        refine RRel.bind (uncons_nat hap k hl) ?_
        intro o o' ho
        match o, o', ho with
        | none, none, _ => simp
        | some (x, s), some (y, s'), ⟨hx, hs⟩ => exact sumLoop_nat hap k hx hs
    | _ => simp [mSum]

theorem mAppend_nat {aps apr : Apply} (hap : ApRel S aps apr) (k : Nat) {r r' : Val} {vs vs' : List Val}
    (hr : VRel S r r') (hvs : VsRel S vs vs') : RRel (VRel S) (mAppend aps k r vs) (mAppend apr k r' vs') := by
  cases hvs with
  | nil => cases hr <;> simp [mAppend]
  | cons hx ht =>
    cases ht with
    | cons _ _ => cases hr <;> simp [mAppend]
    | nil =>
      cases hr with
      | list hl =>
        simp only [mAppend]
        refine RRel.bind (force_nat hap k hl) ?_
        intro a b hab
        exact .list (.items (hab.append (.cons hx .nil)))
      | _ => simp [mAppend]

theorem mReverse_nat {aps apr : Apply} (hap : ApRel S aps apr) (k : Nat) {r r' : Val} {vs vs' : List Val}
    (hr : VRel S r r') (hvs : VsRel S vs vs') : RRel (VRel S) (mReverse aps k r vs) (mReverse apr k r' vs') := by
  cases hvs with
  | cons _ _ => cases hr <;> simp [mReverse]
  | nil =>
    cases hr with
    | list hl =>
      simp only [mReverse]
      refine RRel.bind (force_nat hap k hl) ?_
      intro a b hab
      exact .list (.items hab.reverse)
    | _ => simp [mReverse]

theorem mIndexWhere_nat {aps apr : Apply} (hap : ApRel S aps apr) (k : Nat) {r r' : Val} {vs vs' : List Val}
    (hr : VRel S r r') (hvs : VsRel S vs vs') :
    RRel (VRel S) (mIndexWhere aps k r vs) (mIndexWhere apr k r' vs') := by
  cases hvs with
  | nil => cases hr <;> simp [mIndexWhere]
  | cons hf ht =>
    cases ht with
    | cons _ _ => cases hr <;> simp [mIndexWhere]
    | nil =>
      cases hr with
      | list hl =>
        simp only [mIndexWhere, hf.isClosN]
        split
        · trivial
        · refine RRel.bind (findLoop_nat hap hf k 0 hl) ?_
          intro a b hab
          subst hab
          cases a <;> exact .int _
      | _ => simp [mIndexWhere]

theorem mPresent_nat {aps apr : Apply} (hap : ApRel S aps apr) (k : Nat) {r r' : Val} {vs vs' : List Val}
    (hr : VRel S r r') (hvs : VsRel S vs vs') :
    RRel (VRel S) (mPresent aps k r vs) (mPresent apr k r' vs') := by
  cases hvs with
  | nil => cases hr <;> simp [mPresent]
  | cons hf ht =>
    cases ht with
    | cons _ _ => cases hr <;> simp [mPresent]
    | nil =>
      cases hr with
      | list hl =>
        simp only [mPresent, hf.isClosN]
        split
        · trivial
        · refine RRel.bind (findLoop_nat hap hf k 0 hl) ?_
          intro a b hab
          subst hab
          cases a <;> exact .bool _
      | _ => simp [mPresent]

theorem mGet_nat {r r' : Val} {vs vs' : List Val}
    (hr : VRel S r r') (hvs : VsRel S vs vs') : RRel (VRel S) (mGet r vs) (mGet r' vs') := by
  cases hvs with
  | nil => cases hr <;> simp [mGet]
  | cons hx ht =>
    cases ht with
    | cons _ _ => cases hr <;> simp [mGet]
    | nil =>
      cases hr with
      | map hm =>
        cases hx with
        | str key =>
          rcases hm.get_cases key with ⟨h1, h2⟩ | ⟨a, b, h1, h2, hab⟩
          · simp [mGet, h1, h2, R.ofOption]
          · simpa [mGet, h1, h2, R.ofOption] using hab
        | _ => simp [mGet]
      | _ => simp [mGet]

theorem mPut_nat {r r' : Val} {vs vs' : List Val}
    (hr : VRel S r r') (hvs : VsRel S vs vs') : RRel (VRel S) (mPut r vs) (mPut r' vs') := by
  cases hvs with
  | nil => cases hr <;> simp [mPut]
  | cons hx ht =>
    cases ht with
    | nil => cases hr <;> simp [mPut]
    | cons hv ht2 =>
      cases ht2 with
      | cons _ _ => cases hr <;> simp [mPut]
      | nil =>
        cases hr with
        | map hm =>
          cases hx with
          | str key =>
            simp only [mPut, hm.get_isSome key]
            split
            · trivial
            · exact .map (.cons key hv hm)
          | _ => simp [mPut]
        | _ => simp [mPut]

theorem mIsAvail_nat {r r' : Val} {vs vs' : List Val}
    (hr : VRel S r r') (hvs : VsRel S vs vs') : RRel (VRel S) (mIsAvail r vs) (mIsAvail r' vs') := by
  cases hr with
  | map hm =>
    simp only [mIsAvail]
    exact boolRes_nat id (allStrKeysPresent_nat hm hvs)
  | _ => simp [mIsAvail]

theorem mLen_nat {r r' : Val} {vs vs' : List Val}
    (hr : VRel S r r') (hvs : VsRel S vs vs') : RRel (VRel S) (mLen r vs) (mLen r' vs') := by
  cases hvs with
  | cons _ _ => cases hr <;> simp [mLen]
  | nil => cases hr <;> simp [mLen]; constructor

theorem mContains_nat {r r' : Val} {vs vs' : List Val}
    (hr : VRel S r r') (hvs : VsRel S vs vs') : RRel (VRel S) (mContains r vs) (mContains r' vs') := by
  cases hvs with
  | nil => cases hr <;> simp [mContains]
  | cons hx ht =>
    cases ht with
    | cons _ _ => cases hr <;> simp [mContains]
    | nil =>
      cases hr with
      | str s => cases hx <;> simp [mContains]; constructor
      | _ => simp [mContains]

theorem mArgs_nat {r r' : Val} {vs vs' : List Val}
    (hr : VRel S r r') (hvs : VsRel S vs vs') : RRel (VRel S) (mArgs r vs) (mArgs r' vs') := by
  cases hvs with
  | cons _ _ => simp [mArgs]
  | nil =>
    simp only [mArgs, hr.closArity]
    split
    · exact .int _
    · trivial

theorem mInvoke_nat {aps apr : Apply} (hap : ApRel S aps apr) (k : Nat) {r r' : Val} {vs vs' : List Val}
    (hr : VRel S r r') (hvs : VsRel S vs vs') : RRel (VRel S) (mInvoke aps k r vs) (mInvoke apr k r' vs') := by
  cases hvs with
  | nil => simp [mInvoke]
  | cons hx ht =>
    cases ht with
    | cons _ _ => simp [mInvoke]
    | nil =>
      cases hx with
      | list hl =>
        simp only [mInvoke, hr.closArity]
        split
        · refine RRel.bind (force_nat hap k hl) ?_
          intro xs ys hxs
          rw [hxs.length]
          split
          · trivial
          · exact hap _ _ _ _ hr hxs
        · trivial
      | _ => simp [mInvoke]

theorem callStatic_nat {aps apr : Apply} (hap : ApRel S aps apr) (k : Nat) (name : String)
    {vs vs' : List Val} (hvs : VsRel S vs vs') :
    RRel (VRel S) (callStatic aps k name vs) (callStatic apr k name vs') := by
  by_cases hn : name ∈ ["throw", "string", "isFloat", "isInt", "float", "int", "abs", "sign", "sqr", "round",
      "numbers", "goto", "sqrt", "floor", "ceil", "trunc", "min", "max"]
  · simp only [List.mem_cons, List.not_mem_nil, or_false] at hn
    rcases hn with rfl | rfl | rfl | rfl | rfl | rfl | rfl | rfl | rfl | rfl | rfl | rfl | rfl | rfl | rfl | rfl | rfl | rfl
    · exact cs_throw k hvs
    · exact cs_string hap k hvs
    · exact cs_isFloat k hvs
    · exact cs_isInt k hvs
    · exact cs_float k hvs
    · exact cs_int k hvs
    · exact cs_abs k hvs
    · exact cs_sign k hvs
    · exact cs_sqr k hvs
    · exact cs_round k hvs
    · exact cs_numbers k hvs
    · exact cs_goto k hvs
    · exact cs_sqrt k hvs
    · exact cs_floor k hvs
    · exact cs_ceil k hvs
    · exact cs_trunc k hvs
    · exact cs_min k hvs
    · exact cs_max k hvs
  · rw [callStatic_unknown _ _ _ _ hn, callStatic_unknown _ _ _ _ hn]
    trivial

theorem methodBody_nat {aps apr : Apply} (hap : ApRel S aps apr) (k : Nat) (name : String)
    {r r' : Val} {vs vs' : List Val} (hr : VRel S r r') (hvs : VsRel S vs vs') :
    RRel (VRel S) (methodBody aps k name r vs) (methodBody apr k name r' vs') := by
  unfold methodBody
  split
  · exact mMap_nat hap k hr hvs
  · exact mAccept_nat hap k hr hvs
  · exact mTop_nat hr hvs
  · exact mSkip_nat hr hvs
  · exact mSize_nat hap k hr hvs
  · exact mEval_nat hap k hr hvs
  · exact mString_nat hap k hr hvs
  · exact mFirst_nat hap k hr hvs
  · exact mLast_nat hap k hr hvs
  · exact mReduce_nat hap k hr hvs
  · exact mMapReduce_nat hap k hr hvs
  · exact mSum_nat hap k hr hvs
  · exact mAppend_nat hap k hr hvs
  · exact mReverse_nat hap k hr hvs
  · exact mIndexWhere_nat hap k hr hvs
  · exact mPresent_nat hap k hr hvs
  · exact mGet_nat hr hvs
  · exact mPut_nat hr hvs
  · exact mIsAvail_nat hr hvs
  · exact mLen_nat hr hvs
  · exact mContains_nat hr hvs
  · exact mArgs_nat hr hvs
  · exact mInvoke_nat hap k hr hvs
  · trivial

end P2.Lang.F
