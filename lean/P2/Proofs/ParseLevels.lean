import P2.Proofs.ParseBasic
/-! # Moving between the parser levels

`FollowOK` (what may follow an expression parsed at level `k`), `pass_through` over the binary levels,
lifting a `parseLit`/`parseNonOperator` result to any level, what a successful parse says about the first
token(s) of its input, and parenthesised expressions. -/
namespace P2.Parse

/-- what may follow an expression parsed by `entry k` (`k ≤ n+1`): a binary operator of the table only
if its level is below `k`, and then `fol` names exactly that level; never the closure arrow; never a
postfix token. -/
structure FollowOK (t : Table) (k : Nat) (fol : Follow) (rest : List Tok) : Prop where
  op : ∀ o tl j, rest = .op o :: tl → t.pos o = some j → fol = .op j ∧ j < k
  arrow : ∀ tl, rest ≠ .op "->" :: tl
  post : ∀ x tl, rest = x :: tl → isPostfixTok x = false

/-- tokens after which no expression continues -/
def isStopper : Tok → Bool
  | .rp => true | .rb => true | .rc => true | .comma => true | .colon => true | .semi => true
  | .kw _ => true | _ => false

theorem FollowOK.nil (t : Table) (k : Nat) (fol : Follow) : FollowOK t k fol [] :=
  ⟨fun _ _ _ h => (by cases h), fun _ h => (by cases h), fun _ _ h => (by cases h)⟩

theorem FollowOK.stopper (t : Table) (k : Nat) (fol : Follow) {x : Tok} (tl : List Tok) (hx : isStopper x = true) :
    FollowOK t k fol (x :: tl) := by
  refine ⟨fun o tl' j h => ?_, fun tl' h => ?_, fun y tl' h => ?_⟩
  · cases h; simp [isStopper] at hx
  · cases h; simp [isStopper] at hx
  · cases h; cases x <;> simp_all [isStopper, isPostfixTok]

theorem FollowOK.lt {t : Table} {k : Nat} {fol : Follow} {rest : List Tok} (h : FollowOK t k fol rest) :
    ∀ o tl j, rest = .op o :: tl → t.pos o = some j → j < k :=
  fun o tl j h1 h2 => (h.op o tl j h1 h2).2

theorem FollowOK.mono {t : Table} {k k' : Nat} {fol : Follow} {rest : List Tok} (h : FollowOK t k fol rest)
    (hk : k ≤ k') : FollowOK t k' fol rest :=
  ⟨fun o tl j h1 h2 => ⟨(h.op o tl j h1 h2).1, Nat.lt_of_lt_of_le (h.op o tl j h1 h2).2 hk⟩, h.arrow, h.post⟩

/-- with `fol = none` no operator of the table follows at all -/
theorem FollowOK.none_any {t : Table} {k : Nat} {rest : List Tok} (h : FollowOK t k .none rest) (k' : Nat)
    (fol' : Follow) (hf : fol' = .none) : FollowOK t k' fol' rest := by
  subst hf
  exact ⟨fun o tl j h1 h2 => absurd (h.op o tl j h1 h2).1 (by simp), h.arrow, h.post⟩

/-- the loop at level k stops when the next token is not its operator -/
theorem loop_stops {t : Table} (hwf : TableWF t) (σ : Scope) (k : Nat) (o : String) (hk : t.ops[k]? = some o)
    (a : E) (rest : List Tok) (h : ∀ o' tl j, rest = .op o' :: tl → t.pos o' = some j → j < k) :
    Ev (fun f => loopOp t f σ k o a rest) (.ok a rest) := by
  refine Ev.step0 (fun f => loop_stop t f σ k o a rest (fun tl he => ?_))
  have := h o tl k he (pos_of_get hwf hk)
  omega

/-- pass-through of the binary levels k .. k+d-1 -/
theorem pass_through {t : Table} (hwf : TableWF t) (σ : Scope) :
    ∀ (d k : Nat) (toks : List Tok) (e : E) (rest : List Tok),
    k + d ≤ t.n → (∀ o tl j, rest = .op o :: tl → t.pos o = some j → j < k) →
    Ev (fun f => entry t f σ (k+d) toks) (.ok e rest) → Ev (fun f => entry t f σ k toks) (.ok e rest)
  | 0, k, toks, e, rest, _, _, h => by simpa using h
  | d+1, k, toks, e, rest, hle, hfol, h => by
    have hk : k < t.n := by omega
    obtain ⟨o, ho⟩ : ∃ o, t.ops[k]? = some o := ⟨t.ops[k]'hk, by simp [Table.n] at hk; simp [hk]⟩
    have h1 : Ev (fun f => entry t f σ (k+1) toks) (.ok e rest) :=
      pass_through hwf σ d (k+1) toks e rest (by omega)
        (fun o tl j h1 h2 => by have := hfol o tl j h1 h2; omega)
        (by simpa [Nat.add_assoc, Nat.add_comm 1 d] using h)
    exact Ev.seq h1 (loop_stops hwf σ k o ho e rest hfol) (fun f hf => entry_bin_step hk ho f σ toks hf)

/-- down from any level `k ≤ n` to level `n` … stated upwards: a result at `parseUnary` is a result at `k` -/
theorem from_unary {t : Table} (hwf : TableWF t) (σ : Scope) (k : Nat) (hk : k ≤ t.n) (toks : List Tok) (e : E)
    (rest : List Tok) (hfol : ∀ o tl j, rest = .op o :: tl → t.pos o = some j → j < k)
    (h : Ev (fun f => entry t f σ t.n toks) (.ok e rest)) : Ev (fun f => entry t f σ k toks) (.ok e rest) :=
  pass_through hwf σ (t.n - k) k toks e rest (by omega) hfol (by rw [show k + (t.n - k) = t.n by omega]; exact h)

theorem parseLit_op_ne_ok (t : Table) (f : Nat) (σ : Scope) (s : String) (tl : List Tok) (e : E) (r : List Tok) :
    parseLit t f σ (.op s :: tl) ≠ .ok e r := by
  cases f <;> simp [parseLit]

theorem nonop_ok_head {t : Table} {f : Nat} {σ : Scope} {ts : List Tok} {e : E} {r : List Tok}
    (h : entry t f σ (t.n+1) ts = .ok e r) : ∀ s tl, ts ≠ .op s :: tl := by
  intro s tl he; subst he
  rw [entry_n1] at h
  cases f with
  | zero => simp [parseNonOp] at h
  | succ f =>
    simp only [parseNonOp] at h
    split at h
    · rename_i heq; exact parseLit_op_ne_ok _ _ _ _ _ _ _ heq
    · rename_i hne; exact hne _ _ h

/-- a result of `parseNonOperator` is a result of every level `k ≤ n+1` that the follower allows -/
theorem from_nonop {t : Table} (hwf : TableWF t) (σ : Scope) (k : Nat) (hk : k ≤ t.n + 1) (toks : List Tok) (e : E)
    (rest : List Tok) (hfol : ∀ o tl j, rest = .op o :: tl → t.pos o = some j → j < k)
    (h : Ev (fun f => entry t f σ (t.n+1) toks) (.ok e rest)) : Ev (fun f => entry t f σ k toks) (.ok e rest) := by
  by_cases hkn : k = t.n + 1
  · subst hkn; exact h
  · have hhead : ∀ s tl, toks ≠ .op s :: tl := by
      obtain ⟨f0, hf⟩ := h
      exact nonop_ok_head (hf f0 (Nat.le_refl _))
    have hn : Ev (fun f => entry t f σ t.n toks) (.ok e rest) :=
      Ev.succ h (fun f => unary_skip t f σ toks (fun s tl he => absurd he (hhead s tl)))
    exact from_unary hwf σ k (by omega) toks e rest hfol hn

/-- a result of `parseLiteral` followed by no postfix token is a result of `parseNonOperator` -/
theorem lit_to_nonop (t : Table) (σ : Scope) (toks : List Tok) (e : E) (rest : List Tok)
    (hpost : ∀ x tl, rest = x :: tl → isPostfixTok x = false)
    (h : Ev (fun f => parseLit t f σ toks) (.ok e rest)) : Ev (fun f => entry t f σ (t.n+1) toks) (.ok e rest) :=
  Ev.seq h (Ev.step0 (fun f => postfix_stop t f σ e rest hpost)) (fun f hf => nonop_step t f σ toks hf)

theorem from_lit {t : Table} (hwf : TableWF t) (σ : Scope) (k : Nat) (hk : k ≤ t.n + 1) (fol : Follow)
    (toks : List Tok) (e : E) (rest : List Tok) (hfol : FollowOK t k fol rest)
    (h : Ev (fun f => parseLit t f σ toks) (.ok e rest)) : Ev (fun f => entry t f σ k toks) (.ok e rest) :=
  from_nonop hwf σ k hk toks e rest hfol.lt (lit_to_nonop t σ toks e rest hfol.post h)

/-! ### what a successful parse says about the first tokens of its input -/

/-- first tokens of a literal (`parseLiteral` succeeds only on these) -/
def canStartLit : Tok → Bool
  | .ident _ => true | .lp => true | .lb => true | .lc => true | .num _ => true | .str _ => true
  | .kw s => s = "try" || s = "if" || s = "switch"
  | _ => false

/-- `ts` starts with a token an expression can start with -/
def StartsExpr (ts : List Tok) : Prop := ∃ x tl, ts = x :: tl ∧ (canStartLit x = true ∨ ∃ s, x = .op s)

theorem parseLit_ok_head {t : Table} {f : Nat} {σ : Scope} {ts : List Tok} {e : E} {r : List Tok}
    (h : parseLit t f σ ts = .ok e r) : StartsExpr ts := by
  cases f with
  | zero => simp [parseLit] at h
  | succ f =>
    match ts, h with
    | [], h => simp [parseLit] at h
    | x :: tl, h =>
      refine ⟨x, tl, rfl, ?_⟩
      cases x <;> simp only [parseLit] at h <;> first
        | (left; rfl)
        | (exfalso; simp at h; done)
        | skip
      rename_i s
      left
      simp only [canStartLit, Bool.or_eq_true, decide_eq_true_eq]
      by_cases h1 : s = "try"
      · simp [h1]
      · by_cases h2 : s = "if"
        · simp [h2]
        · by_cases h3 : s = "switch"
          · simp [h3]
          · simp [h1, h2, h3] at h

theorem levels_ok_head (t : Table) : ∀ f,
    (∀ σ k ts e r, parseOp t f σ k ts = .ok e r → StartsExpr ts) ∧
    (∀ σ ts e r, parseUnary t f σ ts = .ok e r → StartsExpr ts) ∧
    (∀ σ ts e r, parseNonOp t f σ ts = .ok e r → StartsExpr ts)
  | 0 => by simp [parseOp, parseUnary, parseNonOp]
  | f+1 => by
    obtain ⟨ihO, ihU, _⟩ := levels_ok_head t f
    have hN : ∀ σ ts e r, parseNonOp t (f+1) σ ts = .ok e r → StartsExpr ts := by
      intro σ ts e r h
      simp only [parseNonOp] at h
      split at h
      · rename_i heq; exact parseLit_ok_head heq
      · rename_i hne; exact absurd h (hne _ _)
    refine ⟨?_, ?_, hN⟩
    · intro σ k ts e r h
      simp only [parseOp] at h
      split at h
      · cases h
      · split at h
        · rename_i heq
          split at heq
          · exact ihO _ _ _ _ _ heq
          · exact ihU _ _ _ _ heq
        · rename_i hne; exact absurd h (hne _ _)
    · intro σ ts e r h
      simp only [parseUnary] at h
      split at h
      · rename_i s rest
        split at h
        · exact ⟨_, _, rfl, Or.inr ⟨s, rfl⟩⟩
        · exact ⟨_, _, rfl, Or.inr ⟨s, rfl⟩⟩
      · exact (levels_ok_head t f).2.2 _ _ _ _ h

theorem entry_ok_head {t : Table} {f : Nat} {σ : Scope} {k : Nat} {ts : List Tok} {e : E} {r : List Tok}
    (h : entry t f σ k ts = .ok e r) : StartsExpr ts := by
  unfold entry at h
  split at h
  · exact (levels_ok_head t f).1 _ _ _ _ _ h
  · split at h
    · exact (levels_ok_head t f).2.1 _ _ _ _ h
    · split at h
      · exact (levels_ok_head t f).2.2 _ _ _ _ h
      · exact parseLit_ok_head h

theorem StartsExpr.not_close {ts : List Tok} (h : StartsExpr ts) (br : Bool) :
    ∀ x tl, ts = x :: tl → isClose br x = false := by
  obtain ⟨x, tl, rfl, hx⟩ := h
  intro y tl' he; cases he
  rcases hx with hx | ⟨s, rfl⟩
  · cases x <;> simp_all [canStartLit, isClose]
  · rfl

theorem StartsExpr.not_let {ts : List Tok} (h : StartsExpr ts) :
    ∀ tl, ts ≠ .kw "let" :: tl ∧ ts ≠ .kw "func" :: tl := by
  obtain ⟨x, tl, rfl, hx⟩ := h
  intro tl'
  constructor <;> intro he <;> cases he <;> rcases hx with hx | ⟨s, hs⟩ <;> first | cases hs | (revert hx; decide)

/-- `parseLet` on something that an expression level accepts is that level-0 parse -/
theorem let_of_entry {t : Table} (hwf : TableWF t) (σ : Scope) (toks : List Tok) (e : E) (rest : List Tok)
    (h : Ev (fun f => entry t f σ 0 toks) (.ok e rest)) : Ev (fun f => parseLet t f σ toks) (.ok e rest) := by
  have hs : StartsExpr toks := by
    obtain ⟨f0, hf⟩ := h
    exact entry_ok_head (hf f0 (Nat.le_refl _))
  exact Ev.succ h (fun f => let_fall hwf.fixed f σ toks hs.not_let)

/-! #### `ident , …` is parsed as the identifier alone -/

theorem lit_ident_comma (t : Table) (f : Nat) (σ : Scope) (s : String) (tl : List Tok) (e : E) (r : List Tok)
    (h : parseLit t f σ (.ident s :: .comma :: tl) = .ok e r) : r = .comma :: tl := by
  cases f with
  | zero => simp [parseLit] at h
  | succ f =>
    simp only [parseLit, identLit] at h
    split at h <;> simp_all

theorem postfix_comma (t : Table) (f : Nat) (σ : Scope) (a : E) (tl : List Tok) (e : E) (r : List Tok)
    (h : postfixLoop t f σ a (.comma :: tl) = .ok e r) : r = .comma :: tl := by
  cases f with
  | zero => simp [postfixLoop] at h
  | succ f => simp only [postfixLoop] at h; simp_all

theorem loop_comma (t : Table) (f : Nat) (σ : Scope) (k : Nat) (o : String) (a : E) (tl : List Tok) (e : E)
    (r : List Tok) (h : loopOp t f σ k o a (.comma :: tl) = .ok e r) : r = .comma :: tl := by
  cases f with
  | zero => simp [loopOp] at h
  | succ f => simp only [loopOp] at h; simp_all

theorem levels_ident_comma (t : Table) (s : String) (tl : List Tok) : ∀ f,
    (∀ σ k e r, parseOp t f σ k (.ident s :: .comma :: tl) = .ok e r → r = .comma :: tl) ∧
    (∀ σ e r, parseUnary t f σ (.ident s :: .comma :: tl) = .ok e r → r = .comma :: tl) ∧
    (∀ σ e r, parseNonOp t f σ (.ident s :: .comma :: tl) = .ok e r → r = .comma :: tl)
  | 0 => by simp [parseOp, parseUnary, parseNonOp]
  | f+1 => by
    obtain ⟨ihO, ihU, ihN⟩ := levels_ident_comma t s tl f
    refine ⟨?_, ?_, ?_⟩
    · intro σ k e r h
      simp only [parseOp] at h
      split at h
      · cases h
      · split at h
        · rename_i a rest heq
          have : rest = .comma :: tl := by
            split at heq
            · exact ihO _ _ _ _ heq
            · exact ihU _ _ _ heq
          subst this
          exact loop_comma _ _ _ _ _ _ _ _ _ h
        · rename_i hne; exact absurd h (hne _ _)
    · intro σ e r h
      simp only [parseUnary] at h
      exact ihN _ _ _ h
    · intro σ e r h
      simp only [parseNonOp] at h
      split at h
      · rename_i a rest heq
        have := lit_ident_comma _ _ _ _ _ _ _ heq
        subst this
        exact postfix_comma _ _ _ _ _ _ _ h
      · rename_i hne; exact absurd h (hne _ _)

theorem entry_ident_comma {t : Table} {f : Nat} {σ : Scope} {k : Nat} {s : String} {tl : List Tok} {e : E}
    {r : List Tok} (h : entry t f σ k (.ident s :: .comma :: tl) = .ok e r) : r = .comma :: tl := by
  unfold entry at h
  split at h
  · exact (levels_ident_comma t s tl f).1 _ _ _ _ h
  · split at h
    · exact (levels_ident_comma t s tl f).2.1 _ _ _ h
    · split at h
      · exact (levels_ident_comma t s tl f).2.2 _ _ _ h
      · exact lit_ident_comma _ _ _ _ _ _ _ h

theorem startsIdentComma_true {ts : List Tok} (h : startsIdentComma ts = true) :
    ∃ s tl, ts = .ident s :: .comma :: tl := by
  unfold startsIdentComma at h
  split at h
  · exact ⟨_, _, rfl⟩
  · cases h

theorem startsIdentComma_false_of_entry {t : Table} {σ : Scope} {k : Nat} {toks : List Tok} {e : E}
    {X : List Tok} (h : Ev (fun f => entry t f σ k toks) (.ok e (.rp :: X))) : startsIdentComma toks = false := by
  obtain ⟨f0, hf⟩ := h
  have h0 := hf f0 (Nat.le_refl _)
  cases hs : startsIdentComma toks with
  | false => rfl
  | true =>
    obtain ⟨s, tl, rfl⟩ := startsIdentComma_true hs
    exact absurd (entry_ident_comma h0) (by simp)

/-! ### parentheses -/

/-- one pair of parentheses around something that level 0 parses -/
theorem paren_lit {t : Table} (hwf : TableWF t) (σ : Scope) (inner : List Tok) (e : E) (X : List Tok)
    (h : Ev (fun f => entry t f σ 0 (inner ++ .rp :: X)) (.ok e (.rp :: X))) :
    Ev (fun f => parseLit t f σ (.lp :: (inner ++ .rp :: X))) (.ok e X) :=
  Ev.step1 h (fun f hf => lit_paren hwf.fixed f σ _ (startsIdentComma_false_of_entry h) hf)

theorem parenN_succ_append (m : Nat) (ts X : List Tok) :
    parenN (m+1) ts ++ X = .lp :: (parenN m ts ++ .rp :: X) := by
  simp [parenN, List.append_assoc]

/-- `m+1` pairs of parentheses around something that level 0 parses -/
theorem parenN_lit {t : Table} (hwf : TableWF t) (σ : Scope) (inner : List Tok) (e : E) :
    ∀ (m : Nat) (X : List Tok),
    (∀ Y, Ev (fun f => entry t f σ 0 (inner ++ .rp :: Y)) (.ok e (.rp :: Y))) →
    Ev (fun f => parseLit t f σ (parenN (m+1) inner ++ X)) (.ok e X)
  | 0, X, h => by
    rw [parenN_succ_append]
    exact paren_lit hwf σ inner e X (h X)
  | m+1, X, h => by
    rw [parenN_succ_append]
    refine paren_lit hwf σ _ e X ?_
    exact from_lit hwf σ 0 (Nat.zero_le _) .none _ e _ (FollowOK.stopper t 0 .none X rfl)
      (parenN_lit hwf σ inner e m (.rp :: X) h)

end P2.Parse
