import P2.Proofs.ParseRound
/-! # Soundness of the operator core: what is accepted is a rendering of what is returned

For trees built from identifiers, constants, binary and prefix operators (`CoreE`) — with any amount of
parentheses in the input — every successful parse at any level consumed exactly a rendering of the
returned tree: `entry t f σ k ts = ok e r → ts = render t ρ k (followOf r) e ++ r` for some decoration
`ρ` (the redundant parentheses of the input). Nothing is truncated, dropped or regrouped. -/
namespace P2.Parse

/-- the operator core: identifiers, constants, binary and prefix operators -/
def CoreE : E → Prop
  | .ident _ => True
  | .num _ => True
  | .str _ => True
  | .cst _ => True
  | .bin _ a b => CoreE a ∧ CoreE b
  | .un _ a => CoreE a
  | _ => False

/-- what the remaining input starts with, as the renderer's `Follow` -/
def followOf (t : Table) : List Tok → Follow
  | .op o :: _ => match t.pos o with | some j => .op j | none => .none
  | .dot :: _ => .post
  | .lb :: _ => .post
  | .lp :: _ => .call
  | _ => .none

/-- the host scope: constants are host constants (no `let`-bound constant is in scope) -/
def HostScope (σ : Scope) : Prop := ∀ s e, lookup σ s = some (.cst e) → e = .cst s

/-- `ρ` with `m` more pairs of parentheses at the root -/
def Deco.addPar (ρ : Deco) (m : Nat) : Deco := fun p =>
  match p with
  | [] => ((ρ []).1 + m, (ρ []).2)
  | i :: p' => ρ (i :: p')

/-- a decoration from the number of pairs at the root and the decorations of the children -/
def Deco.node (par : Nat) (subs : Nat → Deco) : Deco := fun p =>
  match p with
  | [] => (par, false)
  | i :: p' => subs i p'

@[simp] theorem Deco.addPar_par (ρ : Deco) (m : Nat) : (ρ.addPar m).par = ρ.par + m := rfl
@[simp] theorem Deco.addPar_sub (ρ : Deco) (m i : Nat) : (ρ.addPar m).sub i = ρ.sub i := rfl
@[simp] theorem Deco.node_par (par : Nat) (subs : Nat → Deco) : (Deco.node par subs).par = par := rfl
@[simp] theorem Deco.node_sub (par : Nat) (subs : Nat → Deco) (i : Nat) : (Deco.node par subs).sub i = subs i := rfl

/-- `A` is the tree printed with some decoration, and level `k` needed no automatic parentheses -/
def Printed (t : Table) (k : Nat) (fol : Follow) (e : E) (A : List Tok) : Prop :=
  ∃ ρ : Deco, (ρ.par ≠ 0 ∨ needs t k fol e = false) ∧ A = render t ρ k fol e

/-- … in every context (atoms and parenthesised expressions) -/
def PrintedAny (t : Table) (e : E) (A : List Tok) : Prop :=
  ∃ ρ : Deco, ∀ k fol, (ρ.par ≠ 0 ∨ needs t k fol e = false) ∧ A = render t ρ k fol e

theorem CoreE.not_let {e : E} (h : CoreE e) : e.isLet = false := by
  cases e <;> simp_all [CoreE, E.isLet]

theorem needs_mono {t : Table} {k k' : Nat} {fol : Follow} {e : E} (hk : k' ≤ k)
    (h : needs t k fol e = false) : needs t k' fol e = false := by
  cases e <;> simp_all [needs]
  · split <;> simp_all <;> omega
  · split <;> simp_all <;> omega

theorem render_noauto {t : Table} {ρ : Deco} {k : Nat} {fol : Follow} {e : E} (hl : e.isLet = false)
    (h : ρ.par ≠ 0 ∨ needs t k fol e = false) :
    render t ρ k fol e = parenN ρ.par (shape t ρ (if ρ.par = 0 then fol else .none) e) := by
  have hn : nPar t ρ k fol e = ρ.par := by
    simp only [nPar, hl, Bool.false_eq_true, if_false]
    rcases h with h | h
    · simp [h]
    · by_cases hp : ρ.par = 0 <;> simp [hp, h]
  simp only [render, wrap, hn]

theorem Printed.mono {t : Table} {k k' : Nat} {fol : Follow} {e : E} {A : List Tok} (hl : e.isLet = false)
    (hk : k' ≤ k) (h : Printed t k fol e A) : Printed t k' fol e A := by
  obtain ⟨ρ, hn, hA⟩ := h
  have hn' : ρ.par ≠ 0 ∨ needs t k' fol e = false := hn.imp id (needs_mono hk)
  exact ⟨ρ, hn', by rw [hA, render_noauto hl hn, render_noauto hl hn']⟩

theorem PrintedAny.printed {t : Table} {e : E} {A : List Tok} (h : PrintedAny t e A) (k : Nat) (fol : Follow) :
    Printed t k fol e A := by
  obtain ⟨ρ, h⟩ := h
  exact ⟨ρ, (h k fol).1, (h k fol).2⟩

/-- the shape of a core tree depends on the decoration only through the children's decorations -/
theorem shape_addPar {t : Table} (ρ : Deco) (m : Nat) (fol : Follow) {e : E} (hc : CoreE e) :
    shape t (ρ.addPar m) fol e = shape t ρ fol e := by
  cases e <;> simp_all [CoreE, shape]

/-- one more pair of parentheses around a printed expression -/
theorem Printed.paren {t : Table} {e : E} {A : List Tok} (hc : CoreE e) (h : Printed t 0 .none e A) :
    PrintedAny t e (.lp :: (A ++ [.rp])) := by
  obtain ⟨ρ, hn, hA⟩ := h
  refine ⟨ρ.addPar 1, fun k fol => ⟨Or.inl (by simp), ?_⟩⟩
  rw [render_noauto hc.not_let (Or.inl (by simp)), hA, render_noauto hc.not_let hn]
  simp only [Deco.addPar_par, Nat.add_one_ne_zero, if_false, shape_addPar ρ 1 _ hc, parenN]
  by_cases hp : ρ.par = 0 <;> simp [hp]

theorem printedAny_atom {t : Table} {e : E} {x : Tok} (hs : ∀ ρ fol, shape t ρ fol e = [x])
    (hn : ∀ k fol, needs t k fol e = false) (hl : e.isLet = false) : PrintedAny t e [x] := by
  refine ⟨Deco.min, fun k fol => ⟨Or.inr (hn k fol), ?_⟩⟩
  rw [render_noauto hl (Or.inr (hn k fol))]
  simp [Deco.min, Deco.par, parenN, hs]

/-- the remaining input does not start with a binary operator of level `k` or above -/
def StopLt (t : Table) (k : Nat) (r : List Tok) : Prop :=
  ∀ o tl j, r = .op o :: tl → t.pos o = some j → j < k

theorem followOf_op {t : Table} {o : String} {k : Nat} (h : t.pos o = some k) (tl : List Tok) :
    followOf t (.op o :: tl) = .op k := by simp [followOf, h]

/-- `swallows` is excluded by what the operand parse left over -/
theorem not_swallows {t : Table} {i : Nat} {r : List Tok} (h : StopLt t (i + 1) r) :
    swallows (followOf t r) i = false := by
  unfold followOf
  split <;> try rfl
  rename_i o tl
  cases hp : t.pos o with
  | none => rfl
  | some j =>
    have := h o tl j rfl hp
    simp [swallows]; omega

/-! ### what the loops return -/

def isPostfixE : E → Bool
  | .call _ _ => true | .index _ _ => true | .member _ _ => true | .method _ _ _ => true | _ => false

theorem PR.fail_never_ok {α β : Type} (x : PR α) (b : β) (r : List Tok) : (x.fail : PR β) ≠ .ok b r := by
  cases x <;> simp [PR.fail]

/-- the postfix loop returns its accumulator unchanged or a postfix form -/
theorem postfix_result (t : Table) : ∀ (f : Nat) (σ : Scope) (a : E) (ts : List Tok) (e : E) (r : List Tok),
    postfixLoop t f σ a ts = .ok e r → (e = a ∧ r = ts) ∨ isPostfixE e = true
  | 0, _, _, _, _, _, h => by simp [postfixLoop] at h
  | f+1, σ, a, ts, e, r, h => by
    simp only [postfixLoop] at h
    repeat' split at h
    all_goals first
      | (cases h; left; exact ⟨rfl, rfl⟩)
      | (cases h; done)
      | (right; rcases postfix_result t f _ _ _ _ _ h with ⟨rfl, _⟩ | h' <;> first | rfl | exact h')
      | (exfalso; exact PR.fail_never_ok _ _ _ h)
      | (exfalso; simp_all; done)

theorem CoreE.not_postfix {e : E} (h : CoreE e) : isPostfixE e = false := by
  cases e <;> simp_all [CoreE, isPostfixE]

/-- the accumulator of the operator loop is a subtree of its result -/
theorem loop_core (t : Table) : ∀ (f : Nat) (σ : Scope) (k : Nat) (o : String) (a : E) (ts : List Tok) (e : E)
    (r : List Tok), loopOp t f σ k o a ts = .ok e r → CoreE e → CoreE a
  | 0, _, _, _, _, _, _, _, h, _ => by simp [loopOp] at h
  | f+1, σ, k, o, a, ts, e, r, h, hc => by
    simp only [loopOp] at h
    repeat' split at h
    all_goals first
      | (cases h; exact hc)
      | (have := loop_core t f _ _ _ _ _ _ _ h hc; simp only [CoreE] at this; exact this.1)
      | (exfalso; simp_all; done)

/-! ### building `Printed` -/

theorem Printed.bin {t : Table} {o : String} {a b : E} {k : Nat} {fol : Follow} {A0 B : List Tok}
    (hp : t.pos o = some k) (ha : Printed t (if sameOp o a then k else k + 1) (.op k) a A0)
    (hb : Printed t (k + 1) fol b B) : Printed t k fol (.bin o a b) (A0 ++ .op o :: B) := by
  obtain ⟨ρa, _, hA⟩ := ha
  obtain ⟨ρb, _, hB⟩ := hb
  have hn : needs t k fol (.bin o a b) = false := by simp [needs, hp]
  refine ⟨Deco.node 0 (fun i => if i = 0 then ρa else ρb), Or.inr hn, ?_⟩
  rw [render_noauto rfl (Or.inr hn)]
  simp only [Deco.node_par, if_true, parenN, shape_bin, lvl_of_pos hp, Deco.node_sub, Nat.one_ne_zero, if_false,
    ← hA, ← hB]

theorem Printed.un_some {t : Table} {s : String} {a : E} {i k : Nat} {fol : Follow} {A : List Tok}
    (hp : t.pos s = some i) (hk : k ≤ t.n) (hsw : swallows fol i = false) (ha : Printed t (i + 1) fol a A) :
    Printed t k fol (.un s a) (.op s :: A) := by
  obtain ⟨ρa, _, hA⟩ := ha
  have hn : needs t k fol (.un s a) = false := by
    simp only [needs, hp, hsw, Bool.or_false, decide_eq_false_iff_not]; omega
  refine ⟨Deco.node 0 (fun _ => ρa), Or.inr hn, ?_⟩
  rw [render_noauto rfl (Or.inr hn)]
  simp only [Deco.node_par, if_true, parenN, shape_un_some t _ _ s a hp, Deco.node_sub, ← hA]

theorem Printed.un_none {t : Table} {s : String} {a : E} {k : Nat} {fol : Follow} {A : List Tok}
    (hp : t.pos s = none) (hk : k ≤ t.n) (ha : Printed t (t.n + 1) fol a A) :
    Printed t k fol (.un s a) (.op s :: A) := by
  obtain ⟨ρa, _, hA⟩ := ha
  have hn : needs t k fol (.un s a) = false := by
    simp only [needs, hp, decide_eq_false_iff_not]; omega
  refine ⟨Deco.node 0 (fun _ => ρa), Or.inr hn, ?_⟩
  rw [render_noauto rfl (Or.inr hn)]
  simp only [Deco.node_par, if_true, parenN, shape_un_none t _ _ s a hp, Deco.node_sub, ← hA]

theorem identLit_sound {t : Table} {σ : Scope} (hσ : HostScope σ) {name : String} {rest : List Tok} {e : E}
    {r : List Tok} (h : identLit σ name rest = .ok e r) :
    r = rest ∧ PrintedAny t e [.ident name] ∧ WF t σ false e := by
  unfold identLit at h
  split at h
  · rename_i hl
    cases h
    exact ⟨rfl, printedAny_atom (fun _ _ => by simp [shape]) (fun _ _ => by simp [needs]) rfl,
      by simp [WF, hl, isVarOrFunc]⟩
  · rename_i hl
    cases h
    exact ⟨rfl, printedAny_atom (fun _ _ => by simp [shape]) (fun _ _ => by simp [needs]) rfl,
      by simp [WF, hl, isVarOrFunc]⟩
  · rename_i e' hl
    cases h
    have := hσ name _ hl
    subst this
    exact ⟨rfl, printedAny_atom (fun _ _ => by simp [shape]) (fun _ _ => by simp [needs]) rfl,
      by simp [WF, hl, isCstOf]⟩
  · cases h

/-! ### the induction on the fuel -/

structure Snd (t : Table) (σ : Scope) (f : Nat) : Prop where
  ent : ∀ k ts e r, k ≤ t.n + 1 → entry t f σ k ts = .ok e r → CoreE e →
    ∃ A, ts = A ++ r ∧ Printed t k (followOf t r) e A ∧ WF t σ false e ∧ StopLt t k r
  lit : ∀ ts e r, parseLit t f σ ts = .ok e r → CoreE e →
    ∃ A, ts = A ++ r ∧ PrintedAny t e A ∧ WF t σ false e
  loop : ∀ k o a ts e r, t.pos o = some k → loopOp t f σ k o a ts = .ok e r → CoreE e →
    ∀ A0, Printed t (if sameOp o a then k else k + 1) (followOf t ts) a A0 → WF t σ false a →
      StopLt t (k + 1) ts →
      ∃ A, A0 ++ ts = A ++ r ∧ Printed t k (followOf t r) e A ∧ WF t σ false e ∧ StopLt t k r

theorem stopLt_n (t : Table) (k : Nat) (hk : t.n ≤ k) (r : List Tok) : StopLt t k r :=
  fun _ _ _ _ h2 => Nat.lt_of_lt_of_le (pos_lt_n h2) hk

theorem snd_zero (t : Table) (σ : Scope) : Snd t σ 0 := by
  refine ⟨?_, ?_, ?_⟩
  · intro k ts e r _ h
    simp [entry, parseOp, parseUnary, parseNonOp, parseLit] at h
  · intro ts e r h; simp [parseLit] at h
  · intro k o a ts e r _ h; simp [loopOp] at h

theorem snd_lit {t : Table} (hwf : TableWF t) {σ : Scope} (hσ : HostScope σ) (f : Nat) (ih : Snd t σ f) :
    ∀ ts e r, parseLit t (f+1) σ ts = .ok e r → CoreE e →
      ∃ A, ts = A ++ r ∧ PrintedAny t e A ∧ WF t σ false e := by
  intro ts e r h hc
  match ts, h with
  | [], h => simp [parseLit] at h
  | x :: rest, h =>
    cases x <;> simp only [parseLit, plevel_eq hwf.fixed (Nat.zero_le _)] at h
    case num s =>
      cases h
      exact ⟨[.num s], rfl, printedAny_atom (fun _ _ => by simp [shape]) (fun _ _ => by simp [needs]) rfl,
        by simp [WF]⟩
    case str s =>
      cases h
      exact ⟨[.str s], rfl, printedAny_atom (fun _ _ => by simp [shape]) (fun _ _ => by simp [needs]) rfl,
        by simp [WF]⟩
    case ident name =>
      repeat' split at h
      all_goals first
        | (obtain ⟨rfl, hp, hw⟩ := identLit_sound (t := t) hσ h; exact ⟨[.ident name], rfl, hp, hw⟩)
        | (cases h; exact absurd hc (by simp [CoreE]))
        | (exfalso; simp_all; done)
    case lp =>
      split at h
      · repeat' split at h
        all_goals first
          | (cases h; done)
          | (cases h; exact absurd hc (by simp [CoreE]))
          | (exfalso; simp_all; done)
      · split at h
        · rename_i e' r' heq
          cases h
          obtain ⟨A, hA, hp, hw, _⟩ := ih.ent 0 rest e (.rp :: r) (Nat.zero_le _) heq hc
          have hp' : Printed t 0 .none e A := by simpa [followOf] using hp
          exact ⟨.lp :: (A ++ [.rp]), by simp [hA], hp'.paren hc, hw⟩
        · cases h
        · rename_i _ hne; exact absurd h (hne _ _)
    all_goals
      repeat' split at h
      all_goals first
        | (cases h; done)
        | (cases h; exact absurd hc (by simp [CoreE]))
        | (exfalso; exact PR.fail_never_ok _ _ _ h)
        | (exfalso; simp_all; done)

theorem snd_loop {t : Table} (_hwf : TableWF t) {σ : Scope} (f : Nat) (ih : Snd t σ f) :
    ∀ k o a ts e r, t.pos o = some k → loopOp t (f+1) σ k o a ts = .ok e r → CoreE e →
    ∀ A0, Printed t (if sameOp o a then k else k + 1) (followOf t ts) a A0 → WF t σ false a →
      StopLt t (k + 1) ts →
      ∃ A, A0 ++ ts = A ++ r ∧ Printed t k (followOf t r) e A ∧ WF t σ false e ∧ StopLt t k r := by
  intro k o a ts e r hp h hc A0 hA0 hwa hstop
  have hk := pos_lt_n hp
  have hca : CoreE a := loop_core t (f+1) σ k o a ts e r h hc
  -- the loop stops here: the accumulator is the result
  have stop : ∀ (hne : ∀ tl, ts ≠ .op o :: tl), e = a → r = ts →
      ∃ A, A0 ++ ts = A ++ r ∧ Printed t k (followOf t r) e A ∧ WF t σ false e ∧ StopLt t k r := by
    intro hne he hr
    subst he; subst hr
    refine ⟨A0, rfl, hA0.mono hca.not_let (by split <;> omega), hwa, ?_⟩
    intro o' tl j h1 h2
    have hj := hstop o' tl j h1 h2
    by_cases hjk : j = k
    · subst hjk
      have h3 := pos_get h2
      rw [pos_get hp] at h3
      cases h3
      exact absurd h1 (hne tl)
    · omega
  simp only [loopOp, level_eq (show k + 1 ≤ t.n by omega)] at h
  split at h
  · rename_i s rest1
    split at h
    · rename_i hs; subst hs
      split at h
      · rename_i b rest2 heq
        have hcb : CoreE (.bin s a b) := loop_core t f σ k s _ _ e r h hc
        simp only [CoreE] at hcb
        obtain ⟨B, hB, hpb, hwb, hsb⟩ := ih.ent (k+1) rest1 b rest2 (by omega) heq hcb.2
        rw [followOf_op hp] at hA0
        have hpa' : Printed t k (followOf t rest2) (.bin s a b) (A0 ++ .op s :: B) := Printed.bin hp hA0 hpb
        have hwab : WF t σ false (.bin s a b) := by simp [WF, hp, hwa, hwb]
        obtain ⟨A, hA, hpe, hwe, hse⟩ := ih.loop k s (.bin s a b) rest2 e r hp h hc (A0 ++ .op s :: B)
          (by simpa [sameOp] using hpa') hwab hsb
        exact ⟨A, by rw [← hA, hB]; simp, hpe, hwe, hse⟩
      · rename_i hne; exact absurd h (hne _ _)
    · rename_i hs
      cases h
      exact stop (fun tl he => by cases he; exact hs rfl) rfl rfl
  · rename_i hne
    cases h
    exact stop (fun tl he => hne _ _ he) rfl rfl

theorem snd_ent {t : Table} (hwf : TableWF t) {σ : Scope} (f : Nat) (ih : Snd t σ f) :
    ∀ k ts e r, k ≤ t.n + 1 → entry t (f+1) σ k ts = .ok e r → CoreE e →
    ∃ A, ts = A ++ r ∧ Printed t k (followOf t r) e A ∧ WF t σ false e ∧ StopLt t k r := by
  intro k ts e r hk h hc
  by_cases hkn : k < t.n
  · -- a binary level
    obtain ⟨o, ho⟩ : ∃ o, t.ops[k]? = some o := ⟨t.ops[k]'hkn, by simp [Table.n] at hkn; simp [hkn]⟩
    have hp := pos_of_get hwf ho
    rw [entry_lt hkn] at h
    simp only [parseOp, ho, level_eq (show k + 1 ≤ t.n by omega)] at h
    split at h
    · rename_i a rest1 heq
      have hca : CoreE a := loop_core t f σ k o a rest1 e r h hc
      obtain ⟨A1, hA1, hpa, hwa, hsa⟩ := ih.ent (k+1) ts a rest1 (by omega) heq hca
      have hpa' : Printed t (if sameOp o a then k else k + 1) (followOf t rest1) a A1 := by
        split
        · exact hpa.mono hca.not_let (by omega)
        · exact hpa
      obtain ⟨A, hA, hpe, hwe, hse⟩ := ih.loop k o a rest1 e r hp h hc A1 hpa' hwa hsa
      exact ⟨A, by rw [hA1, hA], hpe, hwe, hse⟩
    · rename_i hne; exact absurd h (hne _ _)
  · by_cases hke : k = t.n
    · -- parseUnary
      subst hke
      rw [entry_n] at h
      -- not a prefix operator: parseNonOperator
      have skip : parseNonOp t f σ ts = .ok e r →
          ∃ A, ts = A ++ r ∧ Printed t t.n (followOf t r) e A ∧ WF t σ false e ∧ StopLt t t.n r := by
        intro h'
        rw [← entry_n1] at h'
        obtain ⟨A, hA, hp, hw, _⟩ := ih.ent (t.n+1) ts e r (Nat.le_refl _) h' hc
        exact ⟨A, hA, hp.mono hc.not_let (by omega), hw, stopLt_n t _ (Nat.le_refl _) r⟩
      simp only [parseUnary, hwf.fixed, Bool.false_eq_true, if_false] at h
      split at h
      · rename_i s rest
        split at h
        · rename_i hs
          split at h
          · rename_i i hpos
            have hi := pos_lt_n hpos
            rw [level_eq (show i + 1 ≤ t.n by omega)] at h
            split at h
            · rename_i a r' heq
              cases h
              simp only [CoreE] at hc
              obtain ⟨A, hA, hpa, hwa, hsa⟩ := ih.ent (i+1) rest a r (by omega) heq hc
              exact ⟨.op s :: A, by simp [hA], Printed.un_some hpos (Nat.le_refl _) (not_swallows hsa) hpa,
                by simp [WF, hs, hwa], stopLt_n t _ (Nat.le_refl _) r⟩
            · rename_i hne; exact absurd h (hne _ _)
          · rename_i hpos
            split at h
            · rename_i a r' heq
              cases h
              simp only [CoreE] at hc
              rw [← entry_n1] at heq
              obtain ⟨A, hA, hpa, hwa, _⟩ := ih.ent (t.n+1) rest a r (Nat.le_refl _) heq hc
              exact ⟨.op s :: A, by simp [hA], Printed.un_none hpos (Nat.le_refl _) hpa,
                by simp [WF, hs, hwa], stopLt_n t _ (Nat.le_refl _) r⟩
            · rename_i hne; exact absurd h (hne _ _)
        · exact skip h
      · exact skip h
    · -- parseNonOperator
      have hk1 : k = t.n + 1 := by omega
      subst hk1
      rw [entry_n1] at h
      simp only [parseNonOp] at h
      split at h
      · rename_i e0 rest0 heq
        rcases postfix_result t f σ e0 rest0 e r h with ⟨rfl, rfl⟩ | hpf
        · obtain ⟨A, hA, hp, hw⟩ := ih.lit ts e r heq hc
          exact ⟨A, hA, hp.printed _ _, hw, stopLt_n t _ (by omega) r⟩
        · rw [hc.not_postfix] at hpf; cases hpf
      · rename_i hne; exact absurd h (hne _ _)

theorem snd_all {t : Table} (hwf : TableWF t) {σ : Scope} (hσ : HostScope σ) : ∀ f, Snd t σ f
  | 0 => snd_zero t σ
  | f+1 =>
    have ih := snd_all hwf hσ f
    ⟨snd_ent hwf f ih, snd_lit hwf hσ f ih, snd_loop hwf f ih⟩

/-- **soundness of the operator core, at every level and for every fuel**: a successful parse whose result
is built from identifiers, constants, binary and prefix operators consumed exactly a rendering of that
result (with the redundant parentheses of the input as decoration), the result is well-formed over the
table and the scope, and the parse stopped only in front of something that level `k` cannot continue -/
theorem entry_sound_core {t : Table} (hwf : TableWF t) {σ : Scope} (hσ : HostScope σ) (f k : Nat)
    (ts : List Tok) (e : E) (r : List Tok) (hk : k ≤ t.n + 1) (h : entry t f σ k ts = .ok e r) (hc : CoreE e) :
    ∃ ρ : Deco, ts = render t ρ k (followOf t r) e ++ r ∧ WF t σ false e ∧ StopLt t k r := by
  obtain ⟨A, hA, ⟨ρ, _, hρ⟩, hw, hs⟩ := (snd_all hwf hσ f).ent k ts e r hk h hc
  exact ⟨ρ, by rw [hA, hρ], hw, hs⟩

/-- whole programs without keywords (`let`/`func` bind, the other keywords give non-core trees) -/
theorem parseTop_sound_core {t : Table} (hwf : TableWF t) {σ : Scope} (hσ : HostScope σ) (f : Nat)
    (ts : List Tok) (e : E) (hkw : ∀ s tl, ts ≠ .kw s :: tl) (h : parseTop t f σ ts = .ok e []) (hc : CoreE e) :
    ∃ ρ : Deco, ts = render t ρ 0 .none e ∧ WF t σ true e := by
  have hl : parseLet t f σ ts = .ok e [] := by
    unfold parseTop at h
    split at h
    · rename_i heq; cases h; exact heq
    · cases h
    · rename_i hne _; exact absurd h (hne _)
  cases f with
  | zero => simp [parseLet] at hl
  | succ f =>
    rw [let_fall hwf.fixed f σ ts (fun tl => ⟨hkw _ tl, hkw _ tl⟩)] at hl
    obtain ⟨ρ, hρ, hw, _⟩ := entry_sound_core hwf hσ f 0 ts e [] (Nat.zero_le _) hl hc
    exact ⟨ρ, by simpa [followOf] using hρ, WF_true_of_false hw⟩

end P2.Parse
