import P2.Proofs.ParseFuel
/-! # Accepted programs have balanced brackets (all forms, every table)

For every function of the Parse model: the tokens consumed by a successful call contain as many `(` as
`)`, `[` as `]`, `{` as `}` (argument lists and map bodies: plus the closing bracket their caller
opened). Hence `parse t σ ts = ok e []` implies that `ts` is balanced, and no single-token insertion or
deletion of a bracket in an accepted program is accepted. Same marking technique as `ParseFuel`. -/
namespace P2.Parse

def wP : Tok → Int | .lp => 1 | .rp => -1 | _ => 0
def wB : Tok → Int | .lb => 1 | .rb => -1 | _ => 0
def wC : Tok → Int | .lc => 1 | .rc => -1 | _ => 0
/-- surplus of opening parentheses / brackets / braces -/
def dP : List Tok → Int | [] => 0 | x :: ts => wP x + dP ts
def dB : List Tok → Int | [] => 0 | x :: ts => wB x + dB ts
def dC : List Tok → Int | [] => 0 | x :: ts => wC x + dC ts

/-- the tokens between `ts` and its suffix `rest` have bracket surplus `(p, b, c)` -/
def Bal (ts rest : List Tok) (p b c : Int) : Prop :=
  dP ts = dP rest + p ∧ dB ts = dB rest + b ∧ dC ts = dC rest + c

/-- an opaque copy of `=` (stops `simp` from rewriting the same equation again) -/
def MkB {α : Type} (x y : α) : Prop := x = y

theorem markB {α : Type} {r : PR α} {ts : List Tok} {p b c : Int}
    (h : ∀ a rest, r = .ok a rest → Bal ts rest p b c) (a : α) (rest : List Tok) :
    (r = .ok a rest) = (MkB r (.ok a rest) ∧ dP ts = dP rest + p ∧ dB ts = dB rest + b ∧ dC ts = dC rest + c) :=
  propext ⟨fun e => ⟨e, h a rest e⟩, fun e => e.1⟩

theorem PR.fail_not_ok {α β : Type} (r : PR α) (b : β) (rest : List Tok) :
    ((r.fail : PR β) = .ok b rest) = False := by
  cases r <;> simp [PR.fail]

theorem isClose_false_iff (x : Tok) : (isClose false x = true) = (x = .rp) := by
  cases x <;> simp [isClose]
theorem isClose_true_iff (x : Tok) : (isClose true x = true) = (x = .rb) := by
  cases x <;> simp [isClose]

theorem identLit_bal (σ : Scope) (name : String) (rest : List Tok) (a : E) (r : List Tok) :
    (identLit σ name rest = .ok a r) = (MkB (identLit σ name rest) (.ok a r) ∧ r = rest) := by
  refine propext ⟨fun e => ⟨e, ?_⟩, fun e => e.1⟩
  unfold identLit at e
  repeat' split at e
  all_goals first | (cases e; rfl) | cases e

theorem parseIdentList_bal (acc : List String) (ts : List Tok) (names : List String) (rest : List Tok) :
    parseIdentList acc ts = some (names, rest) → Bal ts rest (-1) 0 0 := by
  fun_induction parseIdentList acc ts with
  | case1 => intro h; cases h
  | case2 => intro h; cases h; simp only [Bal, dP, dB, dC, wP, wB, wC]; omega
  | case3 => intro h; cases h
  | case4 acc s rest' hs ih =>
    intro h; have := ih h
    simp only [Bal, dP, dB, dC, wP, wB, wC] at *; omega
  | case5 => intro h; cases h

theorem identList_bal (acc names : List String) (ts rest : List Tok) :
    (parseIdentList acc ts = some (names, rest)) =
      (MkB (parseIdentList acc ts) (some (names, rest)) ∧ dP ts = dP rest + (-1) ∧ dB ts = dB rest + 0 ∧
        dC ts = dC rest + 0) :=
  propext ⟨fun e => ⟨e, parseIdentList_bal _ _ _ _ e⟩, fun e => e.1⟩

structure BalAll (t : Table) (f : Nat) : Prop where
  pLet : ∀ σ ts a rest, parseLet t f σ ts = .ok a rest → Bal ts rest 0 0 0
  pOp : ∀ σ k ts a rest, parseOp t f σ k ts = .ok a rest → Bal ts rest 0 0 0
  pLoop : ∀ σ k o e ts a rest, loopOp t f σ k o e ts = .ok a rest → Bal ts rest 0 0 0
  pUn : ∀ σ ts a rest, parseUnary t f σ ts = .ok a rest → Bal ts rest 0 0 0
  pNon : ∀ σ ts a rest, parseNonOp t f σ ts = .ok a rest → Bal ts rest 0 0 0
  pPost : ∀ σ e ts a rest, postfixLoop t f σ e ts = .ok a rest → Bal ts rest 0 0 0
  pLit : ∀ σ ts a rest, parseLit t f σ ts = .ok a rest → Bal ts rest 0 0 0
  pArgsP : ∀ σ ts a rest, parseArgs t f σ false ts = .ok a rest → Bal ts rest (-1) 0 0
  pArgsB : ∀ σ ts a rest, parseArgs t f σ true ts = .ok a rest → Bal ts rest 0 (-1) 0
  pArgsLP : ∀ σ ts a rest, argsLoop t f σ false ts = .ok a rest → Bal ts rest (-1) 0 0
  pArgsLB : ∀ σ ts a rest, argsLoop t f σ true ts = .ok a rest → Bal ts rest 0 (-1) 0
  pMap : ∀ σ keys ts a rest, parseMap t f σ keys ts = .ok a rest → Bal ts rest 0 0 (-1)
  pCases : ∀ σ ts a rest, parseCases t f σ ts = .ok a rest → Bal ts rest 0 0 0

section
variable {t : Table} {f : Nat} (L : BalAll t f)
include L
theorem BalAll.mLet σ ts a rest : (parseLet t f σ ts = .ok a rest) =
    (MkB (parseLet t f σ ts) (.ok a rest) ∧ dP ts = dP rest + 0 ∧ dB ts = dB rest + 0 ∧ dC ts = dC rest + 0) :=
  markB (L.pLet σ ts) a rest
theorem BalAll.mOp σ k ts a rest : (parseOp t f σ k ts = .ok a rest) =
    (MkB (parseOp t f σ k ts) (.ok a rest) ∧ dP ts = dP rest + 0 ∧ dB ts = dB rest + 0 ∧ dC ts = dC rest + 0) :=
  markB (L.pOp σ k ts) a rest
theorem BalAll.mLoop σ k o e ts a rest : (loopOp t f σ k o e ts = .ok a rest) =
    (MkB (loopOp t f σ k o e ts) (.ok a rest) ∧ dP ts = dP rest + 0 ∧ dB ts = dB rest + 0 ∧ dC ts = dC rest + 0) :=
  markB (L.pLoop σ k o e ts) a rest
theorem BalAll.mUn σ ts a rest : (parseUnary t f σ ts = .ok a rest) =
    (MkB (parseUnary t f σ ts) (.ok a rest) ∧ dP ts = dP rest + 0 ∧ dB ts = dB rest + 0 ∧ dC ts = dC rest + 0) :=
  markB (L.pUn σ ts) a rest
theorem BalAll.mNon σ ts a rest : (parseNonOp t f σ ts = .ok a rest) =
    (MkB (parseNonOp t f σ ts) (.ok a rest) ∧ dP ts = dP rest + 0 ∧ dB ts = dB rest + 0 ∧ dC ts = dC rest + 0) :=
  markB (L.pNon σ ts) a rest
theorem BalAll.mPost σ e ts a rest : (postfixLoop t f σ e ts = .ok a rest) =
    (MkB (postfixLoop t f σ e ts) (.ok a rest) ∧ dP ts = dP rest + 0 ∧ dB ts = dB rest + 0 ∧ dC ts = dC rest + 0) :=
  markB (L.pPost σ e ts) a rest
theorem BalAll.mLit σ ts a rest : (parseLit t f σ ts = .ok a rest) =
    (MkB (parseLit t f σ ts) (.ok a rest) ∧ dP ts = dP rest + 0 ∧ dB ts = dB rest + 0 ∧ dC ts = dC rest + 0) :=
  markB (L.pLit σ ts) a rest
theorem BalAll.mArgsP σ ts a rest : (parseArgs t f σ false ts = .ok a rest) =
    (MkB (parseArgs t f σ false ts) (.ok a rest) ∧ dP ts = dP rest + (-1) ∧ dB ts = dB rest + 0 ∧ dC ts = dC rest + 0) :=
  markB (L.pArgsP σ ts) a rest
theorem BalAll.mArgsB σ ts a rest : (parseArgs t f σ true ts = .ok a rest) =
    (MkB (parseArgs t f σ true ts) (.ok a rest) ∧ dP ts = dP rest + 0 ∧ dB ts = dB rest + (-1) ∧ dC ts = dC rest + 0) :=
  markB (L.pArgsB σ ts) a rest
theorem BalAll.mArgsLP σ ts a rest : (argsLoop t f σ false ts = .ok a rest) =
    (MkB (argsLoop t f σ false ts) (.ok a rest) ∧ dP ts = dP rest + (-1) ∧ dB ts = dB rest + 0 ∧ dC ts = dC rest + 0) :=
  markB (L.pArgsLP σ ts) a rest
theorem BalAll.mArgsLB σ ts a rest : (argsLoop t f σ true ts = .ok a rest) =
    (MkB (argsLoop t f σ true ts) (.ok a rest) ∧ dP ts = dP rest + 0 ∧ dB ts = dB rest + (-1) ∧ dC ts = dC rest + 0) :=
  markB (L.pArgsLB σ ts) a rest
theorem BalAll.mMap σ keys ts a rest : (parseMap t f σ keys ts = .ok a rest) =
    (MkB (parseMap t f σ keys ts) (.ok a rest) ∧ dP ts = dP rest + 0 ∧ dB ts = dB rest + 0 ∧ dC ts = dC rest + (-1)) :=
  markB (L.pMap σ keys ts) a rest
theorem BalAll.mCases σ ts a rest : (parseCases t f σ ts = .ok a rest) =
    (MkB (parseCases t f σ ts) (.ok a rest) ∧ dP ts = dP rest + 0 ∧ dB ts = dB rest + 0 ∧ dC ts = dC rest + 0) :=
  markB (L.pCases σ ts) a rest

theorem BalAll.mLevel σ j ts a rest :
    ((if j < t.n then parseOp t f σ j ts else parseUnary t f σ ts) = .ok a rest) =
      (MkB (if j < t.n then parseOp t f σ j ts else parseUnary t f σ ts) (.ok a rest) ∧
        dP ts = dP rest + 0 ∧ dB ts = dB rest + 0 ∧ dC ts = dC rest + 0) := by
  refine markB ?_ a rest
  intro a rest h
  split at h
  · exact L.pOp _ _ _ _ _ h
  · exact L.pUn _ _ _ _ h

theorem BalAll.mPLevel σ j ts a rest :
    ((if t.pinned = true then parseOp t f σ j ts else if j < t.n then parseOp t f σ j ts else parseUnary t f σ ts) = .ok a rest) =
      (MkB (if t.pinned = true then parseOp t f σ j ts else if j < t.n then parseOp t f σ j ts else parseUnary t f σ ts) (.ok a rest)
        ∧ dP ts = dP rest + 0 ∧ dB ts = dB rest + 0 ∧ dC ts = dC rest + 0) := by
  refine markB ?_ a rest
  intro a rest h
  repeat' split at h
  · exact L.pOp _ _ _ _ _ h
  · exact L.pOp _ _ _ _ _ h
  · exact L.pUn _ _ _ _ h
end

-- closes a leaf `h : leaf = .ok a rest ⊢ Bal ts rest p b c` of an unfolded function
set_option hygiene false in
local macro "bal_leaf" : tactic =>
  `(tactic| (
    try (cases h)
    all_goals (try simp only [ih.mLet, ih.mOp, ih.mLoop, ih.mUn, ih.mNon, ih.mPost, ih.mLit, ih.mArgsP, ih.mArgsB,
      ih.mArgsLP, ih.mArgsLB, ih.mMap, ih.mCases, ih.mLevel, ih.mPLevel, identLit_bal, identList_bal,
      PR.fail_not_ok, isClose_false_iff, isClose_true_iff] at *)
    all_goals (try (obtain ⟨_, rfl⟩ := h))
    all_goals (try subst_vars)
    all_goals (try simp only [Bal, dP, dB, dC, wP, wB, wC] at *)
    all_goals (first | omega | (exfalso; clear ih; simp_all [MkB]; done))))

theorem bal_zero (t : Table) : BalAll t 0 := by
  constructor <;> intros <;> simp_all [parseLet, parseOp, loopOp, parseUnary, parseNonOp, postfixLoop, parseLit,
    parseArgs, argsLoop, parseMap, parseCases]

theorem bal_succ (t : Table) (f : Nat) (ih : BalAll t f) : BalAll t (f+1) := by
  constructor
  · intro σ ts a rest h; simp only [parseLet] at h; repeat' split at h
    all_goals bal_leaf
  · intro σ k ts a rest h; simp only [parseOp] at h; repeat' split at h
    all_goals bal_leaf
  · intro σ k o e ts a rest h; simp only [loopOp] at h; repeat' split at h
    all_goals bal_leaf
  · intro σ ts a rest h; simp only [parseUnary] at h; repeat' split at h
    all_goals bal_leaf
  · intro σ ts a rest h; simp only [parseNonOp] at h; repeat' split at h
    all_goals bal_leaf
  · intro σ e ts a rest h; simp only [postfixLoop] at h; repeat' split at h
    all_goals bal_leaf
  · intro σ ts a rest h
    cases ts with
    | nil => simp only [parseLit] at h; cases h
    | cons x xs => cases x <;> simp only [parseLit] at h <;> (repeat' split at h) <;> bal_leaf
  · intro σ ts a rest h; simp only [parseArgs] at h; repeat' split at h
    all_goals bal_leaf
  · intro σ ts a rest h; simp only [parseArgs] at h; repeat' split at h
    all_goals bal_leaf
  · intro σ ts a rest h; simp only [argsLoop] at h; repeat' split at h
    all_goals bal_leaf
  · intro σ ts a rest h; simp only [argsLoop] at h; repeat' split at h
    all_goals bal_leaf
  · intro σ keys ts a rest h; simp only [parseMap] at h; repeat' split at h
    all_goals bal_leaf
  · intro σ ts a rest h; simp only [parseCases] at h; repeat' split at h
    all_goals bal_leaf

theorem bal_all (t : Table) : ∀ f, BalAll t f
  | 0 => bal_zero t
  | f+1 => bal_succ t f (bal_all t f)

/-- an accepted token list is balanced in all three kinds of brackets -/
theorem parseTop_balanced (t : Table) (f : Nat) (σ : Scope) (ts : List Tok) (e : E)
    (h : parseTop t f σ ts = .ok e []) : dP ts = 0 ∧ dB ts = 0 ∧ dC ts = 0 := by
  unfold parseTop at h
  split at h
  · rename_i heq
    have := (bal_all t f).pLet σ ts _ _ heq
    simpa [Bal, dP, dB, dC] using this
  · cases h
  · rename_i hne _; exact absurd h (hne _)

theorem dP_append (a b : List Tok) : dP (a ++ b) = dP a + dP b := by
  induction a with
  | nil => simp [dP]
  | cons x xs ih => simp only [List.cons_append, dP, ih]; omega
theorem dB_append (a b : List Tok) : dB (a ++ b) = dB a + dB b := by
  induction a with
  | nil => simp [dB]
  | cons x xs ih => simp only [List.cons_append, dB, ih]; omega
theorem dC_append (a b : List Tok) : dC (a ++ b) = dC a + dC b := by
  induction a with
  | nil => simp [dC]
  | cons x xs ih => simp only [List.cons_append, dC, ih]; omega

def isBracket : Tok → Bool
  | .lp => true | .rp => true | .lb => true | .rb => true | .lc => true | .rc => true | _ => false

/-- a token list and the same list with one bracket token more cannot both be balanced -/
theorem bracket_unbalances (l1 l2 : List Tok) (b : Tok) (hb : isBracket b = true)
    (h1 : dP (l1 ++ l2) = 0 ∧ dB (l1 ++ l2) = 0 ∧ dC (l1 ++ l2) = 0)
    (h2 : dP (l1 ++ b :: l2) = 0 ∧ dB (l1 ++ b :: l2) = 0 ∧ dC (l1 ++ b :: l2) = 0) : False := by
  simp only [dP_append, dB_append, dC_append, dP, dB, dC] at h1 h2
  cases b <;> simp [isBracket] at hb <;> simp only [wP, wB, wC] at h2 <;> omega

/-- two programs that differ by one bracket token are not both accepted (whatever the results) -/
theorem not_both_accepted (t : Table) (f f' : Nat) (σ σ' : Scope) (l1 l2 : List Tok) (b : Tok)
    (hb : isBracket b = true) (e e' : E) (h1 : parseTop t f σ (l1 ++ l2) = .ok e [])
    (h2 : parseTop t f' σ' (l1 ++ b :: l2) = .ok e' []) : False :=
  bracket_unbalances l1 l2 b hb (parseTop_balanced t f σ _ e h1) (parseTop_balanced t f' σ' _ e' h2)

end P2.Parse
