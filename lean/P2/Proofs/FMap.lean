import P2.Spec.FMap
/-! Lemmas about the finite-map spec: `lookup` on duplicate-free association lists, "same lookups" =
"permutation", and the characterisations of the abstract operations by their lookups. -/
namespace P2.FMap

variable {V W : Type}

@[simp] theorem keys_nil : keys ([] : Entries V) = [] := rfl
@[simp] theorem keys_cons (e : String × V) (es : Entries V) : keys (e :: es) = e.1 :: keys es := rfl
@[simp] theorem keys_append (a b : Entries V) : keys (a ++ b) = keys a ++ keys b := by
  simp [keys]

theorem mem_keys_of_mem {es : Entries V} {k : String} {v : V} (h : (k, v) ∈ es) : k ∈ keys es :=
  List.mem_map.mpr ⟨(k, v), h, rfl⟩

theorem lookup_eq_none_iff : ∀ (es : Entries V) (x : String), lookup es x = none ↔ x ∉ keys es
  | [], _ => by simp [lookup]
  | (k, v) :: rest, x => by
    simp only [lookup, keys_cons, List.mem_cons, not_or]
    by_cases hk : k = x
    · simp [hk]
    · rw [if_neg hk, lookup_eq_none_iff rest x]
      exact ⟨fun h => ⟨fun e => hk e.symm, h⟩, fun h => h.2⟩

theorem lookup_isSome_iff (es : Entries V) (x : String) : (lookup es x).isSome = true ↔ x ∈ keys es := by
  have := lookup_eq_none_iff es x
  cases h : lookup es x with
  | none => simp [this.mp h]
  | some v =>
    simp only [Option.isSome_some, true_iff]
    exact Classical.byContradiction fun hn => by rw [this.mpr hn] at h; cases h

theorem mem_of_lookup : ∀ (es : Entries V) (x : String) (v : V), lookup es x = some v → (x, v) ∈ es
  | [], _, _, h => by simp [lookup] at h
  | (k, w) :: rest, x, v, h => by
    simp only [lookup] at h
    by_cases hk : k = x
    · rw [if_pos hk] at h
      cases h; subst hk; exact List.mem_cons_self
    · rw [if_neg hk] at h
      exact List.mem_cons_of_mem _ (mem_of_lookup rest x v h)

theorem lookup_of_mem : ∀ (es : Entries V), Valid es → ∀ (k : String) (v : V), (k, v) ∈ es → lookup es k = some v
  | [], _, _, _, h => by cases h
  | (k', v') :: rest, hv, k, v, h => by
    simp only [Valid, keys_cons, List.nodup_cons] at hv
    simp only [lookup]
    rcases List.mem_cons.mp h with h | h
    · cases h; simp
    · have hne : k' ≠ k := fun e => hv.1 (e ▸ mem_keys_of_mem h)
      rw [if_neg hne]
      exact lookup_of_mem rest hv.2 k v h

theorem lookup_append (a b : Entries V) (x : String) :
    lookup (a ++ b) x = match lookup a x with | some v => some v | none => lookup b x := by
  induction a with
  | nil => simp [lookup]
  | cons e es ih =>
    obtain ⟨k, v⟩ := e
    simp only [List.cons_append, lookup]
    split <;> simp_all

theorem lookup_map_val (f : String → V → W) : ∀ (es : Entries V) (x : String),
    lookup (es.map fun e => (e.1, f e.1 e.2)) x = (lookup es x).map (f x)
  | [], _ => rfl
  | (k, v) :: rest, x => by
    simp only [List.map_cons, lookup]
    by_cases hk : k = x
    · subst hk; simp
    · simp only [hk, if_false]; exact lookup_map_val f rest x

theorem keys_map_val (f : String → V → W) (es : Entries V) :
    keys (es.map fun e => (e.1, f e.1 e.2)) = keys es := by
  simp [keys, List.map_map, Function.comp_def]

theorem valid_perm {a b : Entries V} (h : a.Perm b) (ha : Valid a) : Valid b := by
  have hk : (keys a).Perm (keys b) := h.map _
  exact hk.nodup_iff.mp ha

/-- on duplicate-free lists `lookup` does not depend on the order of the entries -/
theorem lookup_perm {a b : Entries V} (ha : Valid a) (h : a.Perm b) (k : String) : lookup a k = lookup b k := by
  have hb := valid_perm h ha
  cases hl : lookup a k with
  | some v => exact (lookup_of_mem b hb k v (h.mem_iff.mp (mem_of_lookup a k v hl))).symm
  | none =>
    have : k ∉ keys b := fun hm =>
      (lookup_eq_none_iff a k).mp hl (((h.map (·.1)).mem_iff).mpr hm)
    exact ((lookup_eq_none_iff b k).mpr this).symm

private theorem valid_of_split {s t : Entries V} {e : String × V} (h : Valid (s ++ e :: t)) :
    Valid (s ++ t) ∧ e.1 ∉ keys (s ++ t) := by
  have hp : (s ++ e :: t).Perm (e :: (s ++ t)) := List.perm_middle
  have := valid_perm hp h
  simp only [Valid, keys_cons, List.nodup_cons] at this
  exact ⟨this.2, this.1⟩

/-- duplicate-free lists with the same lookups are permutations of each other -/
theorem perm_of_equiv : ∀ (a b : Entries V), Valid a → Valid b → Equiv a b → a.Perm b
  | [], b, _, _, h => by
    cases b with
    | nil => exact List.Perm.refl _
    | cons e t =>
      have := h e.1
      simp [lookup] at this
  | (k, v) :: a', b, ha, hb, h => by
    have hkb : lookup b k = some v := by rw [← h k]; simp [lookup]
    obtain ⟨s, t, rfl⟩ := List.append_of_mem (mem_of_lookup b k v hkb)
    have ⟨hb', hkb'⟩ := valid_of_split hb
    simp only [Valid, keys_cons, List.nodup_cons] at ha
    have hp : (s ++ (k, v) :: t).Perm ((k, v) :: (s ++ t)) := List.perm_middle
    have ih := perm_of_equiv a' (s ++ t) ha.2 hb' (fun x => by
      by_cases hx : k = x
      · subst hx
        rw [(lookup_eq_none_iff a' k).mpr ha.1, (lookup_eq_none_iff (s ++ t) k).mpr hkb']
      · have h1 := h x
        rw [lookup_perm hb hp x] at h1
        simpa [lookup, hx] using h1)
    exact (List.Perm.cons _ ih).trans hp.symm

/-- C13 spec: "same finite map" (all lookups agree) = "duplicate-free association list up to permutation" -/
theorem equiv_iff_perm {a b : Entries V} (ha : Valid a) (hb : Valid b) : Equiv a b ↔ a.Perm b :=
  ⟨perm_of_equiv a b ha hb, fun h k => lookup_perm ha h k⟩

/-- inclusion plus equal size is enough -/
theorem perm_of_incl_length : ∀ (a b : Entries V), Valid a → Valid b → a.length = b.length →
    (∀ k v, (k, v) ∈ a → lookup b k = some v) → a.Perm b
  | [], b, _, _, hl, _ => by
    cases b with
    | nil => exact List.Perm.refl _
    | cons e t => simp at hl
  | (k, v) :: a', b, ha, hb, hl, h => by
    have hkb : lookup b k = some v := h k v List.mem_cons_self
    obtain ⟨s, t, rfl⟩ := List.append_of_mem (mem_of_lookup b k v hkb)
    have ⟨hb', _⟩ := valid_of_split hb
    simp only [Valid, keys_cons, List.nodup_cons] at ha
    have hp : (s ++ (k, v) :: t).Perm ((k, v) :: (s ++ t)) := List.perm_middle
    have ih := perm_of_incl_length a' (s ++ t) ha.2 hb' (by simp at hl ⊢; omega) (fun x w hm => by
      have hx : k ≠ x := fun e => ha.1 (e ▸ mem_keys_of_mem hm)
      have h1 := h x w (List.mem_cons_of_mem _ hm)
      rw [lookup_perm hb hp x] at h1
      simpa [lookup, hx] using h1)
    exact (List.Perm.cons _ ih).trans hp.symm

/-! ### the abstract operations, characterised by their lookups -/

theorem insert_eq_none_iff (m : Entries V) (k : String) (v : V) : insert m k v = none ↔ k ∈ keys m := by
  simp only [insert]
  cases h : lookup m k with
  | none => simp [(lookup_eq_none_iff m k).mp h]
  | some w =>
    simp only [true_iff]
    exact (lookup_isSome_iff m k).mp (by simp [h])

theorem insert_spec {m m' : Entries V} {k : String} {v : V} (hm : Valid m) (h : insert m k v = some m') :
    Valid m' ∧ ∀ x, lookup m' x = if k = x then some v else lookup m x := by
  simp only [insert] at h
  cases hl : lookup m k with
  | some w => simp [hl] at h
  | none =>
    simp only [hl, Option.some.injEq] at h
    subst h
    refine ⟨?_, fun x => by simp [lookup]⟩
    simp only [Valid, keys_cons, List.nodup_cons]
    exact ⟨(lookup_eq_none_iff m k).mp hl, hm⟩

theorem union_eq_none_iff (a b : Entries V) : union a b = none ↔ ∃ k, k ∈ keys a ∧ k ∈ keys b := by
  simp only [union]
  cases h : (keys b).any (fun k => (lookup a k).isSome) with
  | true =>
    simp only [if_true, true_iff]
    obtain ⟨k, hk, hs⟩ := List.any_eq_true.mp h
    exact ⟨k, (lookup_isSome_iff a k).mp hs, hk⟩
  | false =>
    simp only [Bool.false_eq_true, if_false, false_iff, reduceCtorEq]
    rintro ⟨k, hka, hkb⟩
    have : (keys b).any (fun k => (lookup a k).isSome) = true :=
      List.any_eq_true.mpr ⟨k, hkb, (lookup_isSome_iff a k).mpr hka⟩
    rw [h] at this; cases this

theorem union_spec {a b m : Entries V} (ha : Valid a) (hb : Valid b) (h : union a b = some m) :
    Valid m ∧ ∀ x, lookup m x = match lookup a x with | some v => some v | none => lookup b x := by
  have hdis : ¬ ∃ k, k ∈ keys a ∧ k ∈ keys b := fun hex => by
    rw [(union_eq_none_iff a b).mpr hex] at h; cases h
  simp only [union] at h
  split at h
  · cases h
  · cases h
    refine ⟨?_, fun x => lookup_append a b x⟩
    simp only [Valid, keys_append]
    exact List.nodup_append.mpr ⟨ha, hb, fun x hxa y hyb hxy => hdis ⟨x, hxa, hxy ▸ hyb⟩⟩

theorem update_spec (a r : Entries V) :
    keys (update a r) = keys a ∧
    ∀ x, lookup (update a r) x = (lookup a x).map fun v => (lookup r x).getD v :=
  ⟨keys_map_val (fun k v => (lookup r k).getD v) a,
   fun x => lookup_map_val (fun k v => (lookup r k).getD v) a x⟩

end P2.FMap
