import P2.Proofs.LangMain
/-! # C01: top level (`Generate` + `Func.Eval`), closure-free values, a simple sufficient condition
for `WA` -/
namespace P2.Lang
variable {S : Statics} {M : Methods}

/-! ## values without closures are related to themselves -/

mutual
inductive ClosFree : Val → Prop
  | int (i : Int) : ClosFree (.int i)
  | flt (f : Float) : ClosFree (.flt f)
  | str (s : String) : ClosFree (.str s)
  | bool (b : Bool) : ClosFree (.bool b)
  | list {l : LList} : ClosFreeL l → ClosFree (.list l)
  | map {kvs : List (String × Val)} : ClosFreeKVs kvs → ClosFree (.map kvs)
inductive ClosFreeL : LList → Prop
  | items {xs : List Val} : ClosFreeVs xs → ClosFreeL (.items xs)
  | numbers (i n : Int) : ClosFreeL (.numbers i n)
  | map {f : Val} {a : LList} : ClosFree f → ClosFreeL a → ClosFreeL (.map f a)
  | accept {f : Val} {a : LList} : ClosFree f → ClosFreeL a → ClosFreeL (.accept f a)
  | top (n : Int) {a : LList} : ClosFreeL a → ClosFreeL (.top n a)
  | skip (n : Int) {a : LList} : ClosFreeL a → ClosFreeL (.skip n a)
  | append {a b : LList} : ClosFreeL a → ClosFreeL b → ClosFreeL (.append a b)
inductive ClosFreeVs : List Val → Prop
  | nil : ClosFreeVs []
  | cons {x : Val} {xs : List Val} : ClosFree x → ClosFreeVs xs → ClosFreeVs (x :: xs)
inductive ClosFreeKVs : List (String × Val) → Prop
  | nil : ClosFreeKVs []
  | cons (k : String) {x : Val} {xs : List (String × Val)} :
      ClosFree x → ClosFreeKVs xs → ClosFreeKVs ((k, x) :: xs)
end

mutual
theorem VRel.refl_of_closFree : ∀ {v : Val}, ClosFree v → VRel S v v
  | _, .int i => .int i
  | _, .flt f => .flt f
  | _, .str s => .str s
  | _, .bool b => .bool b
  | _, .list h => .list (LRel.refl_of_closFree h)
  | _, .map h => .map (KVRel.refl_of_closFree h)
theorem LRel.refl_of_closFree : ∀ {l : LList}, ClosFreeL l → LRel S l l
  | _, .items h => .items (VsRel.refl_of_closFree h)
  | _, .numbers i n => .numbers i n
  | _, .map hf h => .map (VRel.refl_of_closFree hf) (LRel.refl_of_closFree h)
  | _, .accept hf h => .accept (VRel.refl_of_closFree hf) (LRel.refl_of_closFree h)
  | _, .top n h => .top n (LRel.refl_of_closFree h)
  | _, .skip n h => .skip n (LRel.refl_of_closFree h)
  | _, .append h1 h2 => .append (LRel.refl_of_closFree h1) (LRel.refl_of_closFree h2)
theorem VsRel.refl_of_closFree : ∀ {vs : List Val}, ClosFreeVs vs → VsRel S vs vs
  | _, .nil => .nil
  | _, .cons h hs => .cons (VRel.refl_of_closFree h) (VsRel.refl_of_closFree hs)
theorem KVRel.refl_of_closFree : ∀ {kvs : List (String × Val)}, ClosFreeKVs kvs → KVRel S kvs kvs
  | _, .nil => .nil
  | _, .cons k h hs => .cons k (VRel.refl_of_closFree h) (KVRel.refl_of_closFree hs)
end

mutual
/-- a closure-free result of the reference semantics is *equal* to the compiled result -/
theorem VRel.eq_of_closFree : ∀ {v w : Val}, ClosFree v → VRel S v w → v = w
  | _, _, .int _, .int _ => rfl
  | _, _, .flt _, .flt _ => rfl
  | _, _, .str _, .str _ => rfl
  | _, _, .bool _, .bool _ => rfl
  | _, _, .list h, .list hr => by rw [LRel.eq_of_closFree h hr]
  | _, _, .map h, .map hr => by rw [KVRel.eq_of_closFree h hr]
theorem LRel.eq_of_closFree : ∀ {l l' : LList}, ClosFreeL l → LRel S l l' → l = l'
  | _, _, .items h, .items hr => by rw [VsRel.eq_of_closFree h hr]
  | _, _, .numbers _ _, .numbers _ _ => rfl
  | _, _, .map hf h, .map hfr hr => by rw [VRel.eq_of_closFree hf hfr, LRel.eq_of_closFree h hr]
  | _, _, .accept hf h, .accept hfr hr => by rw [VRel.eq_of_closFree hf hfr, LRel.eq_of_closFree h hr]
  | _, _, .top _ h, .top _ hr => by rw [LRel.eq_of_closFree h hr]
  | _, _, .skip _ h, .skip _ hr => by rw [LRel.eq_of_closFree h hr]
  | _, _, .append h1 h2, .append hr1 hr2 => by rw [LRel.eq_of_closFree h1 hr1, LRel.eq_of_closFree h2 hr2]
theorem VsRel.eq_of_closFree : ∀ {vs ws : List Val}, ClosFreeVs vs → VsRel S vs ws → vs = ws
  | _, _, .nil, .nil => rfl
  | _, _, .cons h hs, .cons hr hrs => by rw [VRel.eq_of_closFree h hr, VsRel.eq_of_closFree hs hrs]
theorem KVRel.eq_of_closFree : ∀ {kvs kws : List (String × Val)}, ClosFreeKVs kvs → KVRel S kvs kws → kvs = kws
  | _, _, .nil, .nil => rfl
  | _, _, .cons _ h hs, .cons _ hr hrs => by rw [VRel.eq_of_closFree h hr, KVRel.eq_of_closFree hs hrs]
end

/-! ## the initial frame -/

theorem bindParams_get_mem' : ∀ {names : List String} {vs : List Val} {x : String},
    Env.get (bindParams names vs) x ≠ none → x ∈ names
  | [], _, _, h => by simp [bindParams, Env.get] at h
  | _ :: _, [], _, h => by simp [bindParams, Env.get] at h
  | n :: ns, v :: vs, x, h => by
    simp only [bindParams, Env.get] at h
    by_cases hn : n = x
    · simp [hn]
    · simp only [hn, if_false] at h
      exact List.mem_cons_of_mem _ (bindParams_get_mem' h)

/-- with distinct keys the lookup order does not matter -/
theorem Env.get_reverse_bindParams : ∀ (names : List String) (vs : List Val) (x : String),
    noDup names = true → Env.get (bindParams names vs).reverse x = Env.get (bindParams names vs) x
  | [], _, _, _ => by simp [bindParams]
  | _ :: _, [], _, _ => by simp [bindParams]
  | n :: ns, v :: vs, x, h => by
    simp only [noDup, Bool.and_eq_true, Bool.not_eq_true', List.contains_eq_mem,
      decide_eq_false_iff_not] at h
    obtain ⟨hn, hnd⟩ := h
    simp only [bindParams, List.reverse_cons, Env.get_append, Env.get]
    rw [Env.get_reverse_bindParams ns vs x hnd]
    by_cases hx : n = x
    · subst hx
      have : Env.get (bindParams ns vs) n = none := by
        cases hg : Env.get (bindParams ns vs) n with
        | none => rfl
        | some w => exact absurd (bindParams_get_mem' (vs := vs) (by rw [hg]; simp)) hn
      simp [this]
    · simp only [hx, if_false]
      cases Env.get (bindParams ns vs) x <;> rfl

theorem EnvRel.init {names : List String} {args args' : List Val}
    (hnd : noDup names = true) (hlen : names.length = args.length) (hargs : VsRel S args args') :
    EnvRel S names names (names.map some) [] (bindParams names args).reverse
      (pushAll ⟨[], 0, 0⟩ args') [] := by
  rw [pushAll_empty]
  have hl' : args'.length = names.length := by rw [← hargs.length, hlen]
  refine ⟨by simp [hl'], by simp, ?_, ?_, ?_, ?_⟩
  · intro x i hi
    have hbp := bindParams_get names args x hlen
    rw [hi] at hbp
    obtain ⟨hget, hilt⟩ := hbp
    obtain ⟨sv, rv, a1, a2, a3⟩ := hargs.pointwise i hilt
    refine ⟨sv, rv, ?_, by simpa using a2, a3⟩
    rw [Env.get_reverse_bindParams names args x hnd, hget, a1]
  · intro x j _ hj
    simp [idxS] at hj
  · intro x hx
    rw [Env.get_reverse_bindParams names args x hnd] at hx
    exact bindParams_get_mem' hx
  · intro x hx
    exact .inl ((idx_map_some_ne_none_iff_mem names x).mpr hx)

theorem generate_inv {V : Variant} {a names code} (h : generate S V a names = some code) :
    noDup names = true ∧ gen S V a (names.map some) [] = some code := by
  unfold generate at h
  split at h
  · cases h
  · rename_i hnd
    exact ⟨by simpa using hnd, h⟩

theorem run_rel {n : Nat} {a : AST} {names : List String} {args args' : List Val} {code : Code}
    (h : ORel S (pushAll ⟨[], 0, 0⟩ args') (eval S M n a (bindParams names args).reverse)
      (exec M n code (pushAll ⟨[], 0, 0⟩ args') [])) :
    RRel (VRel S) (runReference S M n a names args) (runCompiled M n code args') := by
  unfold runReference runCompiled
  rcases h.cases with ⟨x, ⟨y, d⟩, hx, hy, hxy, _⟩ | ⟨e, hx, hy⟩
  · rw [hx, hy]; exact hxy
  · rw [hx, hy]; cases e <;> trivial

/-! ## a simple sufficient condition for `WA`: no binder carries the name of a static function -/

mutual
def NoStaticShadow (S : Statics) : AST → Prop
  | .const _ => True
  | .ident _ => True
  | .letE x v i => S x = none ∧ NoStaticShadow S v ∧ NoStaticShadow S i
  | .ifE c t e => NoStaticShadow S c ∧ NoStaticShadow S t ∧ NoStaticShadow S e
  | .switchE v cases d => NoStaticShadow S v ∧ NoStaticShadow S d ∧ NoStaticShadowCases S cases
  | .tryE t c => NoStaticShadow S t ∧ NoStaticShadow S c
  | .unary _ a => NoStaticShadow S a
  | .binop _ a b => NoStaticShadow S a ∧ NoStaticShadow S b
  | .clos names body _ r this =>
      (∀ x, x ∈ names → S x = none) ∧ (r = true → S this = none) ∧ NoStaticShadow S body
  | .listLit items => NoStaticShadows S items
  | .index i l => NoStaticShadow S i ∧ NoStaticShadow S l
  | .mapLit kvs => NoStaticShadowKVs S kvs
  | .member m _ => NoStaticShadow S m
  | .call f args => NoStaticShadow S f ∧ NoStaticShadows S args
  | .method recv _ args => NoStaticShadow S recv ∧ NoStaticShadows S args
def NoStaticShadows (S : Statics) : List AST → Prop
  | [] => True
  | a :: as => NoStaticShadow S a ∧ NoStaticShadows S as
def NoStaticShadowKVs (S : Statics) : List (String × AST) → Prop
  | [] => True
  | (_, a) :: as => NoStaticShadow S a ∧ NoStaticShadowKVs S as
def NoStaticShadowCases (S : Statics) : List (AST × AST) → Prop
  | [] => True
  | (c, r) :: rest => NoStaticShadow S c ∧ NoStaticShadow S r ∧ NoStaticShadowCases S rest
end

theorem CallOK_of_scope {sc vis : List String} (hsc : ∀ x, x ∈ sc → S x = none) (f : AST) :
    CallOK S sc vis f := by
  cases f with
  | ident name =>
    intro hs hmem
    rw [hsc name hmem] at hs
    cases hs
  | _ => trivial

mutual
theorem WA_of_noStaticShadow : ∀ (a : AST) (sc vis : List String), (∀ x, x ∈ sc → S x = none) →
    NoStaticShadow S a → WA S sc vis a
  | .const _, _, _, _, _ => by simp only [WA]
  | .ident _, _, _, _, _ => by simp only [WA]
  | .letE x v i, sc, vis, hsc, h => by
    simp only [NoStaticShadow] at h
    simp only [WA]
    refine ⟨WA_of_noStaticShadow v _ _ hsc h.2.1, WA_of_noStaticShadow i _ _ ?_ h.2.2⟩
    intro y hy
    rcases List.mem_cons.mp hy with rfl | hy
    · exact h.1
    · exact hsc y hy
  | .ifE c t e, sc, vis, hsc, h => by
    simp only [NoStaticShadow] at h
    simp only [WA]
    exact ⟨WA_of_noStaticShadow c _ _ hsc h.1, WA_of_noStaticShadow t _ _ hsc h.2.1,
      WA_of_noStaticShadow e _ _ hsc h.2.2⟩
  | .switchE v cases d, sc, vis, hsc, h => by
    simp only [NoStaticShadow] at h
    simp only [WA]
    exact ⟨WA_of_noStaticShadow v _ _ hsc h.1, WA_of_noStaticShadow d _ _ hsc h.2.1,
      WAcases_of_noStaticShadow cases _ _ hsc h.2.2⟩
  | .tryE t c, sc, vis, hsc, h => by
    simp only [NoStaticShadow] at h
    simp only [WA]
    exact ⟨WA_of_noStaticShadow t _ _ hsc h.1, WA_of_noStaticShadow c _ _ hsc h.2⟩
  | .unary _ a, sc, vis, hsc, h => by
    simp only [NoStaticShadow] at h
    simp only [WA]
    exact WA_of_noStaticShadow a _ _ hsc h
  | .binop _ a b, sc, vis, hsc, h => by
    simp only [NoStaticShadow] at h
    simp only [WA]
    exact ⟨WA_of_noStaticShadow a _ _ hsc h.1, WA_of_noStaticShadow b _ _ hsc h.2⟩
  | .clos names body outer r this, sc, vis, hsc, h => by
    simp only [NoStaticShadow] at h
    simp only [WA]
    refine WA_of_noStaticShadow body _ _ ?_ h.2.2
    intro y hy
    simp only [List.mem_append] at hy
    rcases hy with (hy | hy) | hy
    · exact h.1 y hy
    · by_cases hr : r = true
      · simp only [hr, if_true, List.mem_singleton] at hy
        subst hy; exact h.2.1 hr
      · simp [hr] at hy
    · exact hsc y hy
  | .listLit items, sc, vis, hsc, h => by
    simp only [NoStaticShadow] at h
    simp only [WA]
    exact WAs_of_noStaticShadow items _ _ hsc h
  | .index i l, sc, vis, hsc, h => by
    simp only [NoStaticShadow] at h
    simp only [WA]
    exact ⟨WA_of_noStaticShadow i _ _ hsc h.1, WA_of_noStaticShadow l _ _ hsc h.2⟩
  | .mapLit kvs, sc, vis, hsc, h => by
    simp only [NoStaticShadow] at h
    simp only [WA]
    exact WAkvs_of_noStaticShadow kvs _ _ hsc h
  | .member m _, sc, vis, hsc, h => by
    simp only [NoStaticShadow] at h
    simp only [WA]
    exact WA_of_noStaticShadow m _ _ hsc h
  | .call f args, sc, vis, hsc, h => by
    simp only [NoStaticShadow] at h
    simp only [WA]
    exact ⟨WA_of_noStaticShadow f _ _ hsc h.1, WAs_of_noStaticShadow args _ _ hsc h.2,
      CallOK_of_scope hsc f⟩
  | .method recv _ args, sc, vis, hsc, h => by
    simp only [NoStaticShadow] at h
    simp only [WA]
    exact ⟨WA_of_noStaticShadow recv _ _ hsc h.1, WAs_of_noStaticShadow args _ _ hsc h.2⟩
theorem WAs_of_noStaticShadow : ∀ (as : List AST) (sc vis : List String), (∀ x, x ∈ sc → S x = none) →
    NoStaticShadows S as → WAs S sc vis as
  | [], _, _, _, _ => by simp only [WAs]
  | a :: as, sc, vis, hsc, h => by
    simp only [NoStaticShadows] at h
    simp only [WAs]
    exact ⟨WA_of_noStaticShadow a _ _ hsc h.1, WAs_of_noStaticShadow as _ _ hsc h.2⟩
theorem WAkvs_of_noStaticShadow : ∀ (as : List (String × AST)) (sc vis : List String),
    (∀ x, x ∈ sc → S x = none) → NoStaticShadowKVs S as → WAkvs S sc vis as
  | [], _, _, _, _ => by simp only [WAkvs]
  | (_, a) :: as, sc, vis, hsc, h => by
    simp only [NoStaticShadowKVs] at h
    simp only [WAkvs]
    exact ⟨WA_of_noStaticShadow a _ _ hsc h.1, WAkvs_of_noStaticShadow as _ _ hsc h.2⟩
theorem WAcases_of_noStaticShadow : ∀ (cs : List (AST × AST)) (sc vis : List String),
    (∀ x, x ∈ sc → S x = none) → NoStaticShadowCases S cs → WAcases S sc vis cs
  | [], _, _, _, _ => by simp only [WAcases]
  | (c, r) :: rest, sc, vis, hsc, h => by
    simp only [NoStaticShadowCases] at h
    simp only [WAcases]
    exact ⟨WA_of_noStaticShadow c _ _ hsc h.1, WA_of_noStaticShadow r _ _ hsc h.2.1,
      WAcases_of_noStaticShadow rest _ _ hsc h.2.2⟩
end

end P2.Lang
