import P2.Proofs.HeapInv
/-! # Every safe micro operation keeps the invariant and every existing observation (C09). -/
namespace P2.Heap

/-! ## list facts -/

theorem window_set (l : List Val) (off len p : Nat) (v : Val) (h : ¬ (off ≤ p ∧ p < off + len)) :
    ((l.set p v).drop off).take len = (l.drop off).take len := by
  apply List.ext_getElem?
  intro k
  simp only [List.getElem?_take, List.getElem?_drop, List.getElem?_set]
  by_cases hk : k < len
  · simp only [hk, if_true]
    have : p ≠ off + k := by omega
    simp [this]
  · simp [hk]

theorem window_set_snoc (l : List Val) (off len : Nat) (v : Val) (h : off + len < l.length) :
    ((l.set (off + len) v).drop off).take (len + 1) = (l.drop off).take len ++ [v] := by
  have hm : min len (l.length - off) = len := by omega
  apply List.ext_getElem?
  intro k
  simp only [List.getElem?_take, List.getElem?_drop, List.getElem?_set, List.getElem?_append,
    List.length_take, List.length_drop, hm]
  by_cases hk : k < len
  · have h1 : k < len + 1 := by omega
    have h2 : ¬ len = k := by omega
    simp [hk, h1, h2]
  · by_cases hk' : k = len
    · subst hk'
      simp [h]
    · have h1 : ¬ k < len + 1 := by omega
      have h5 : ¬ k < len := hk
      have h6 : k - len ≠ 0 := by omega
      simp [h1, h5]
      omega

theorem take_append_pad (xs : List Val) (n : Nat) : ((xs ++ pad n).drop 0).take xs.length = xs := by
  simp

/-! ## reading the heap -/

theorem sl_congr {h h' : H} {i : Nat} (e : h'.objs[i]? = h.objs[i]?) : h'.sl i = h.sl i := by
  simp only [H.sl, e]

theorem sl_none_of_ge (h : H) (i : Nat) (hi : h.objs.length ≤ i) : h.sl i = none := by
  have : h.objs[i]? = none := List.getElem?_eq_none hi
  simp only [H.sl, this]

theorem sl_of_obj {h : H} {i : Nat} {ob : LObj} (e : h.objs[i]? = some ob) :
    h.sl i = if ob.present then some ob.items else none := by
  simp only [H.sl, e]

theorem sl_lt {h : H} {i : Nat} {s : Slice} (e : h.sl i = some s) : i < h.objs.length := by
  by_cases hi : i < h.objs.length
  · exact hi
  · rw [sl_none_of_ge h i (by omega)] at e; cases e

theorem arrayOf_append_left {h h' : H} {x : List Val} (e : h'.arrays = h.arrays ++ [x]) (a : Nat)
    (ha : a < h.arrays.length) : h'.arrayOf a = h.arrayOf a := by
  simp only [H.arrayOf, e, List.getElem?_append_left ha]

theorem arrayOf_append_new {h h' : H} {x : List Val} (e : h'.arrays = h.arrays ++ [x]) :
    h'.arrayOf h.arrays.length = x := by
  simp [H.arrayOf, e]

theorem arrayOf_set_same {h h' : H} {a : Nat} {x : List Val} (e : h'.arrays = h.arrays.set a x)
    (ha : a < h.arrays.length) : h'.arrayOf a = x := by
  simp [H.arrayOf, e, List.getElem?_set, ha]

theorem arrayOf_set_other {h h' : H} {a b : Nat} {x : List Val} (e : h'.arrays = h.arrays.set a x)
    (hab : a ≠ b) : h'.arrayOf b = h.arrayOf b := by
  simp [H.arrayOf, e, List.getElem?_set, hab]

theorem arrayOf_same {h h' : H} (e : h'.arrays = h.arrays) (a : Nat) : h'.arrayOf a = h.arrayOf a := by
  simp only [H.arrayOf, e]

/-! ## what `elemsOf` depends on -/

theorem elemsOf_congr (rot : Bool) {h h' : H} (n : Nat) (prev : List (Res (List Val)))
    (hsame : h'.objs[n]? = h.objs[n]? ∨
      ∃ ob ob', h.objs[n]? = some ob ∧ h'.objs[n]? = some ob' ∧ ob.present = true ∧ ob'.present = true ∧
        ob'.items.arr = ob.items.arr ∧ ob'.items.off = ob.items.off ∧ ob'.items.len = ob.items.len)
    (hwin : ∀ ob, h.objs[n]? = some ob → ob.present = true →
      ((h'.arrayOf ob.items.arr).drop ob.items.off).take ob.items.len = h.window ob.items) :
    elemsOf rot h' prev n = elemsOf rot h prev n := by
  rcases hsame with e | ⟨ob, ob', e, e', hp, hp', ha, ho, hl⟩
  · unfold elemsOf
    rw [e]
    cases hob : h.objs[n]? with
    | none => rfl
    | some ob =>
      simp only
      by_cases hp : ob.present = true
      · simp only [hp, if_true]
        have := hwin ob hob hp
        simp only [H.window] at this ⊢
        rw [this]
      · have hp' : ob.present = false := by simpa using hp
        simp only [hp']
        rfl
  · unfold elemsOf
    rw [e, e']
    simp only [hp, hp', if_true]
    have := hwin ob e hp
    simp only [H.window] at this ⊢
    rw [ha, ho, hl, this]

theorem elemsUpTo_length (rot : Bool) (h : H) (n : Nat) : (elemsUpTo rot h n).length = n := by
  induction n with
  | zero => rfl
  | succ n ih => simp [elemsUpTo, ih]

/-- congruence for the table: object `n` may be compared under the table of the old heap -/
theorem elemsUpTo_congr (rot : Bool) (h h' : H) (N : Nat)
    (hob : ∀ n, n < N → elemsOf rot h' (elemsUpTo rot h n) n = elemsOf rot h (elemsUpTo rot h n) n) :
    elemsUpTo rot h' N = elemsUpTo rot h N := by
  induction N with
  | zero => rfl
  | succ N ih =>
    have ih' := ih (fun n hn => hob n (by omega))
    simp only [elemsUpTo]
    rw [ih', hob N (by omega)]

theorem elems_congr (rot : Bool) (h h' : H) (N : Nat)
    (hob : ∀ n, n < N → elemsOf rot h' (elemsUpTo rot h n) n = elemsOf rot h (elemsUpTo rot h n) n)
    (o : Nat) (ho : o < N) : elems rot h' o = elems rot h o := by
  unfold elems
  rw [elemsUpTo_congr rot h h' o (fun n hn => hob n (by omega)), hob o ho]

theorem elemsUpTo_getElem? (rot : Bool) (h : H) (N o : Nat) (ho : o < N) :
    (elemsUpTo rot h N)[o]? = some (elems rot h o) := by
  induction N with
  | zero => omega
  | succ N ih =>
    simp only [elemsUpTo]
    by_cases hoN : o < N
    · rw [List.getElem?_append_left (by rw [elemsUpTo_length]; exact hoN)]
      exact ih hoN
    · have : o = N := by omega
      subst this
      rw [List.getElem?_append_right (by rw [elemsUpTo_length]; exact Nat.le_refl _)]
      simp [elemsUpTo_length, elems]

theorem table_getElem? (rot : Bool) (h : H) (o : Nat) (ho : o < h.objs.length) :
    (table rot h)[o]? = some (elems rot h o) := elemsUpTo_getElem? rot h _ o ho

theorem table_length (rot : Bool) (h : H) : (table rot h).length = h.objs.length :=
  elemsUpTo_length rot h _

theorem elems_present (rot : Bool) {h : H} {o : Nat} {ob : LObj} (e : h.objs[o]? = some ob)
    (hp : ob.present = true) : elems rot h o = .ok (h.window ob.items) := by
  simp [elems, elemsOf, e, hp]

theorem elems_ok_lt (rot : Bool) {h : H} {o : Nat} {xs : List Val} (he : elems rot h o = .ok xs) :
    o < h.objs.length := by
  by_cases hlt : o < h.objs.length
  · exact hlt
  · have : h.objs[o]? = none := List.getElem?_eq_none (by omega)
    simp [elems, elemsOf, this] at he

/-! ## the relation "nothing observable changed" between two heaps -/

/-- `h'` extends `h`: objects and maps are only added, and every existing list object yields the same
elements, in the same order -/
structure Ext (rot : Bool) (h h' : H) : Prop where
  objs : h.objs.length ≤ h'.objs.length
  elems : ∀ o, o < h.objs.length → elems rot h' o = elems rot h o
  maps : ∃ extra, h'.maps = h.maps ++ extra

theorem Ext.refl (rot : Bool) (h : H) : Ext rot h h := ⟨Nat.le_refl _, fun _ _ => rfl, ⟨[], by simp⟩⟩

theorem Ext.trans {rot : Bool} {h1 h2 h3 : H} (a : Ext rot h1 h2) (b : Ext rot h2 h3) : Ext rot h1 h3 := by
  refine ⟨Nat.le_trans a.objs b.objs, fun o ho => ?_, ?_⟩
  · rw [b.elems o (Nat.lt_of_lt_of_le ho a.objs), a.elems o ho]
  · obtain ⟨e1, he1⟩ := a.maps
    obtain ⟨e2, he2⟩ := b.maps
    exact ⟨e1 ++ e2, by rw [he2, he1, List.append_assoc]⟩

/-! ## shapes of heap changes -/

/-- a slice on a fresh array for a new object or for an object that was lazy -/
theorem fresh_shape (rot : Bool) {h h' : H} (hinv : Inv h) (a : List Val) (k len cap : Nat)
    (harr : h'.arrays = h.arrays ++ [a]) (hmaps : h'.maps = h.maps)
    (hlen : h.objs.length ≤ h'.objs.length)
    (hk : h.sl k = none) (hobjs : ∀ i, i ≠ k → h'.objs[i]? = h.objs[i]?)
    (hnew : h'.objs[k]? = some ⟨⟨h.arrays.length, 0, len, cap⟩, true, .none⟩)
    (hlc : len ≤ cap) (hca : cap ≤ a.length)
    (hk' : k < h.objs.length → elems rot h k = .ok (a.take len)) :
    Inv h' ∧ Ext rot h h' := by
  have hal : ∀ x, x < h.arrays.length → (h'.arrayOf x).length = (h.arrayOf x).length := by
    intro x hx; rw [arrayOf_append_left harr x hx]
  constructor
  · unfold Inv
    refine invS_fresh (sl' := h'.sl) hinv k len cap (by simp [harr]) hal hk
      (fun i hi => sl_congr (hobjs i hi)) ?_ hlc ?_
    · rw [sl_of_obj hnew]; rfl
    · show cap ≤ (h'.arrayOf h.arrays.length).length
      rw [arrayOf_append_new harr]; exact hca
  · refine ⟨hlen, ?_, ⟨[], by simp [hmaps]⟩⟩
    apply elems_congr rot h h' h.objs.length
    intro n hn
    by_cases hnk : n = k
    · -- the materialised object: its window is what the producer yields under the old table
      rw [hnk]
      have e1 : elemsOf rot h (elemsUpTo rot h k) k = .ok (a.take len) := hk' (hnk ▸ hn)
      rw [e1]
      simp only [elemsOf, hnew, if_true, H.window]
      rw [arrayOf_append_new harr]
      rfl
    · apply elemsOf_congr rot n _ (Or.inl (hobjs n hnk))
      intro ob hob hp
      have hs : h.sl n = some ob.items := by rw [sl_of_obj hob]; simp [hp]
      have hb := hinv.bounds n ob.items hs
      rw [arrayOf_append_left harr _ hb.1]
      rfl

/-- only lazy objects / maps are added, arrays untouched -/
theorem same_shape (rot : Bool) {h h' : H} (hinv : Inv h)
    (harr : h'.arrays = h.arrays) (hmaps : ∃ extra, h'.maps = h.maps ++ extra)
    (hlen : h.objs.length ≤ h'.objs.length)
    (hobjs : ∀ i, i < h.objs.length → h'.objs[i]? = h.objs[i]?)
    (hnew : ∀ i, h.objs.length ≤ i → h'.sl i = none) :
    Inv h' ∧ Ext rot h h' := by
  constructor
  · unfold Inv
    refine invS_same (sl' := h'.sl) hinv (by simp [harr]) (fun a _ => by rw [arrayOf_same harr]) ?_
    intro i
    by_cases hi : i < h.objs.length
    · exact sl_congr (hobjs i hi)
    · rw [hnew i (by omega), sl_none_of_ge h i (by omega)]
  · refine ⟨hlen, ?_, hmaps⟩
    apply elems_congr rot h h' h.objs.length
    intro n hn
    apply elemsOf_congr rot n _ (Or.inl (hobjs n hn))
    intro ob _ _
    rw [arrayOf_same harr]; rfl


/-- a new object on a capacity-capped sub-slice of a materialised object -/
theorem sub_shape (rot : Bool) {h h' : H} (hinv : Inv h) (o i j : Nat) (ob : LObj)
    (hob : h.objs[o]? = some ob) (hp : ob.present = true) (hij : i ≤ j) (hj : j ≤ ob.items.len)
    (harr : h'.arrays = h.arrays) (hmaps : h'.maps = h.maps)
    (hobjs : h'.objs = h.objs ++ [⟨⟨ob.items.arr, ob.items.off + i, j - i, j - i⟩, true, .none⟩]) :
    Inv h' ∧ Ext rot h h' := by
  have hso : h.sl o = some ob.items := by rw [sl_of_obj hob]; simp [hp]
  have hold : ∀ x, x < h.objs.length → h'.objs[x]? = h.objs[x]? := by
    intro x hx; rw [hobjs, List.getElem?_append_left hx]
  constructor
  · unfold Inv
    refine invS_sub (sl' := h'.sl) hinv o h.objs.length i j ob.items (by simp [harr])
      (fun a _ => by rw [arrayOf_same harr]) hso hij hj (sl_none_of_ge h _ (Nat.le_refl _)) ?_ ?_
    · intro x hx
      by_cases hx' : x < h.objs.length
      · exact sl_congr (hold x hx')
      · rw [sl_none_of_ge h x (by omega), sl_none_of_ge h' x (by rw [hobjs]; simp; omega)]
    · have : h'.objs[h.objs.length]? = some ⟨⟨ob.items.arr, ob.items.off + i, j - i, j - i⟩, true, .none⟩ := by
        rw [hobjs]; simp
      rw [sl_of_obj this]; rfl
  · refine ⟨by rw [hobjs]; simp, ?_, ⟨[], by simp [hmaps]⟩⟩
    apply elems_congr rot h h' h.objs.length
    intro n hn
    apply elemsOf_congr rot n _ (Or.inl (hold n hn))
    intro ob' _ _
    rw [arrayOf_same harr]; rfl

/-- `append` into the spare capacity of a materialised object, capping the parent -/
theorem inplace_shape (rot : Bool) {h h' : H} (hinv : Inv h) (o : Nat) (ob : LObj) (v : Val)
    (hob : h.objs[o]? = some ob) (hp : ob.present = true) (hlt : ob.items.len < ob.items.cap)
    (harr : h'.arrays = h.arrays.set ob.items.arr
      ((h.arrayOf ob.items.arr).set (ob.items.off + ob.items.len) v))
    (hmaps : h'.maps = h.maps)
    (hobjs : h'.objs = h.objs.set o { ob with items := { ob.items with cap := ob.items.len } } ++
      [⟨{ ob.items with len := ob.items.len + 1 }, true, .none⟩]) :
    Inv h' ∧ Ext rot h h' := by
  have hso : h.sl o = some ob.items := by rw [sl_of_obj hob]; simp [hp]
  have hsb := hinv.bounds o ob.items hso
  have holt : o < h.objs.length := sl_lt hso
  have hlenset : (h.objs.set o { ob with items := { ob.items with cap := ob.items.len } }).length
      = h.objs.length := by simp
  have hother : ∀ x, x < h.objs.length → x ≠ o → h'.objs[x]? = h.objs[x]? := by
    intro x hx hxo
    rw [hobjs, List.getElem?_append_left (by rw [hlenset]; exact hx), List.getElem?_set]
    have : ¬ o = x := fun e => hxo e.symm
    simp [this]
  have hpar : h'.objs[o]? = some { ob with items := { ob.items with cap := ob.items.len } } := by
    rw [hobjs, List.getElem?_append_left (by rw [hlenset]; exact holt), List.getElem?_set]
    simp [holt]
  have hnew : h'.objs[h.objs.length]? = some ⟨{ ob.items with len := ob.items.len + 1 }, true, .none⟩ := by
    rw [hobjs, List.getElem?_append_right (by rw [hlenset]; exact Nat.le_refl _), hlenset]
    simp
  have hal : ∀ a, (h'.arrayOf a).length = (h.arrayOf a).length := by
    intro a
    by_cases ha : ob.items.arr = a
    · rw [← ha, arrayOf_set_same harr hsb.1]; simp
    · rw [arrayOf_set_other harr ha]
  constructor
  · unfold Inv
    refine invS_inplace (sl' := h'.sl) hinv o h.objs.length ob.items (by simp [harr])
      (fun a _ => hal a) hso hlt (sl_none_of_ge h _ (Nat.le_refl _)) ?_ ?_ ?_
    · intro x hx hxo
      by_cases hx' : x < h.objs.length
      · exact sl_congr (hother x hx' hxo)
      · rw [sl_none_of_ge h x (by omega), sl_none_of_ge h' x (by rw [hobjs]; simp; omega)]
    · rw [sl_of_obj hpar]; simp [hp]
    · rw [sl_of_obj hnew]; rfl
  · refine ⟨by rw [hobjs]; simp, ?_, ⟨[], by simp [hmaps]⟩⟩
    apply elems_congr rot h h' h.objs.length
    intro n hn
    -- the written cell is spare capacity of the parent, hence shown by no materialised object
    have hspare : spare ob.items (ob.items.off + ob.items.len) := ⟨Nat.le_refl _, by omega⟩
    have hwin : ∀ ob', h.objs[n]? = some ob' → ob'.present = true →
        ((h'.arrayOf ob'.items.arr).drop ob'.items.off).take ob'.items.len = h.window ob'.items := by
      intro ob' hob' hp'
      have hs' : h.sl n = some ob'.items := by rw [sl_of_obj hob']; simp [hp']
      by_cases ha : ob.items.arr = ob'.items.arr
      · have hnv : ¬ vis ob'.items (ob.items.off + ob.items.len) :=
          hinv.hidden o n ob.items ob'.items hso hs' ha _ hspare
        rw [← ha, arrayOf_set_same harr hsb.1]
        simp only [H.window, ← ha]
        exact window_set _ _ _ _ _ hnv
      · rw [arrayOf_set_other harr ha]; rfl
    by_cases hno : n = o
    · subst hno
      refine elemsOf_congr rot n _ (Or.inr ⟨ob, _, hob, hpar, hp, hp, rfl, rfl, rfl⟩) hwin
    · exact elemsOf_congr rot n _ (Or.inl (hother n hn hno)) hwin

/-! ## all safe micro operations -/

theorem micro_safe (cfg : Cfg) (h : H) (m : Micro) (hs : m.safe = true) (hinv : Inv h) :
    Inv (micro cfg h m) ∧ Ext cfg.rot h (micro cfg h m) := by
  cases m with
  | alloc xs spare =>
    simp only [micro]
    by_cases hg : xs.all (vok h) = true
    · rw [if_pos hg]
      refine fresh_shape cfg.rot hinv (xs ++ pad spare) h.objs.length xs.length (xs.length + spare)
        rfl rfl (by simp) (sl_none_of_ge h _ (Nat.le_refl _)) ?_ ?_ (by omega) (by simp [pad])
        (fun hk => absurd hk (Nat.lt_irrefl _))
      · intro i hi
        by_cases hi' : i < h.objs.length
        · simp only; rw [List.getElem?_append_left hi']
        · have h1 : h.objs[i]? = none := List.getElem?_eq_none (by omega)
          rw [h1]; apply List.getElem?_eq_none; simp; omega
      · simp
    · rw [if_neg hg]; exact ⟨hinv, Ext.refl _ _⟩
  | «lazy» p =>
    refine same_shape cfg.rot hinv rfl ⟨[], by simp [micro]⟩ (by simp [micro]) ?_ ?_
    · intro i hi; simp only [micro]; rw [List.getElem?_append_left hi]
    · intro i hi
      by_cases hi' : i = h.objs.length
      · subst hi'
        have : (micro cfg h (.lazy p)).objs[h.objs.length]? = some ⟨⟨0, 0, 0, 0⟩, false, p⟩ := by
          simp [micro]
        rw [sl_of_obj this]; rfl
      · apply sl_none_of_ge; simp [micro]; omega
  | mat o =>
    simp only [micro]
    cases hob : h.objs[o]? with
    | none => exact ⟨hinv, Ext.refl _ _⟩
    | some ob =>
      simp only
      by_cases hp : ob.present = true
      · simp only [hp, if_true]; exact ⟨hinv, Ext.refl _ _⟩
      · have hp' : ob.present = false := by simpa using hp
        rw [if_neg hp]
        cases he : elems cfg.rot h o with
        | ok xs =>
          simp only
          have holt : o < h.objs.length := by
            by_cases hlt : o < h.objs.length
            · exact hlt
            · rw [List.getElem?_eq_none (by omega)] at hob; cases hob
          refine fresh_shape cfg.rot hinv (xs ++ pad (evalCap cfg.grow xs.length - xs.length)) o xs.length
            (xs.length + (evalCap cfg.grow xs.length - xs.length)) rfl rfl (by simp) ?_ ?_ ?_
            (by omega) (by simp [pad]) (fun _ => by rw [he]; simp)
          · rw [sl_of_obj hob]; simp [hp']
          · intro i hi
            rw [List.getElem?_set]
            have : ¬ o = i := fun e => hi e.symm
            simp [this]
          · rw [List.getElem?_set]; simp [holt]
        | err => exact ⟨hinv, Ext.refl _ _⟩
        | panic => exact ⟨hinv, Ext.refl _ _⟩
        | fuel => exact ⟨hinv, Ext.refl _ _⟩
  | app o v capParent =>
    have hc : capParent = true := by simpa [Micro.safe] using hs
    subst hc
    simp only [micro]
    cases hob : h.objs[o]? with
    | none => exact ⟨hinv, Ext.refl _ _⟩
    | some ob =>
      simp only
      by_cases hpg : ob.present = true ∧ vok h v = true
      · have hp := hpg.1
        rw [if_pos hpg]
        by_cases hlt : ob.items.len < ob.items.cap
        · rw [if_pos hlt]
          exact inplace_shape cfg.rot hinv o ob v hob hp hlt rfl rfl rfl
        · rw [if_neg hlt]
          refine fresh_shape cfg.rot hinv _ h.objs.length (ob.items.len + 1)
            (max (cfg.grow ob.items.len) (ob.items.len + 1)) rfl rfl (by simp)
            (sl_none_of_ge h _ (Nat.le_refl _)) ?_ ?_ (by omega) ?_
            (fun hk => absurd hk (Nat.lt_irrefl _))
          · intro i hi
            by_cases hi' : i < h.objs.length
            · simp only; rw [List.getElem?_append_left hi']
            · have h1 : h.objs[i]? = none := List.getElem?_eq_none (by omega)
              rw [h1]; apply List.getElem?_eq_none; simp; omega
          · simp
          · have hso : h.sl o = some ob.items := by rw [sl_of_obj hob]; simp [hp]
            have hb := hinv.bounds o ob.items hso
            have : (h.window ob.items).length = ob.items.len := by
              simp only [H.window, List.length_take, List.length_drop]; omega
            simp [pad, this]; omega
      · rw [if_neg hpg]
        exact ⟨hinv, Ext.refl _ _⟩
  | sub o i j c =>
    have hc : c = j - i := by simpa [Micro.safe] using hs
    subst hc
    simp only [micro]
    cases hob : h.objs[o]? with
    | none => exact ⟨hinv, Ext.refl _ _⟩
    | some ob =>
      simp only
      by_cases hcond : ob.present = true ∧ i ≤ j ∧ j ≤ ob.items.len ∧ j - i ≤ j - i ∧ i + (j - i) ≤ ob.items.cap
      · simp only [hcond, and_self, if_true]
        exact sub_shape cfg.rot hinv o i j ob hob hcond.1 hcond.2.1 hcond.2.2.1 rfl rfl rfl
      · simp only [hcond, if_false]
        exact ⟨hinv, Ext.refl _ _⟩
  | write o i v => simp [Micro.safe] at hs
  | newMap m =>
    simp only [micro]
    by_cases hg : mok h m = true
    · rw [if_pos hg]
      refine same_shape cfg.rot hinv rfl ⟨[m], rfl⟩ (Nat.le_refl _) (fun _ _ => rfl) ?_
      intro i hi; exact sl_none_of_ge h i hi
    · rw [if_neg hg]; exact ⟨hinv, Ext.refl _ _⟩

theorem runMicros_safe (cfg : Cfg) (ms : List Micro) (h : H) (hs : ∀ m ∈ ms, m.safe = true)
    (hinv : Inv h) : Inv (runMicros cfg h ms) ∧ Ext cfg.rot h (runMicros cfg h ms) := by
  induction ms generalizing h with
  | nil => exact ⟨hinv, Ext.refl _ _⟩
  | cons m ms ih =>
    have h1 := micro_safe cfg h m (hs m (by simp)) hinv
    have h2 := ih (micro cfg h m) (fun m' hm' => hs m' (by simp [hm'])) h1.1
    exact ⟨h2.1, h1.2.trans h2.2⟩

end P2.Heap
