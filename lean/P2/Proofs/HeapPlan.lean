import P2.Proofs.HeapMicro
/-! # With the facts `Facts.OK`, every operation is compiled into safe micro operations only (C09). -/
namespace P2.Heap

def AllSafe (p : Plan) : Prop := ∀ m ∈ p.1, m.safe = true

theorem allSafe_err : AllSafe planErr := by intro m hm; simp [planErr] at hm

theorem allSafe_nil (r : Res Val) : AllSafe ([], r) := by intro m hm; simp at hm

theorem withRef_safe (a : Val) (k : Nat → Plan) (hk : ∀ o, AllSafe (k o)) : AllSafe (withRef a k) := by
  cases a <;> simp only [withRef] <;> first | exact hk _ | exact allSafe_err

theorem withMref_safe (a : Val) (k : Nat → Plan) (hk : ∀ o, AllSafe (k o)) : AllSafe (withMref a k) := by
  cases a <;> simp only [withMref] <;> first | exact hk _ | exact allSafe_err

theorem withElems_safe (r : Res (List Val)) (k : List Val → Plan) (hk : ∀ xs, AllSafe (k xs)) :
    AllSafe (withElems r k) := by
  cases r <;> simp only [withElems] <;> first | exact hk _ | exact allSafe_err

theorem withInts_safe (xs : List Val) (e : Plan) (k : List Int → Plan) (he : AllSafe e)
    (hk : ∀ is, AllSafe (k is)) : AllSafe (withInts xs e k) := by
  unfold withInts
  cases allInts xs with
  | none => exact he
  | some is => exact hk is

theorem withInfo_safe (r : Option MInfo) (k : MInfo → Plan) (hk : ∀ mi, AllSafe (k mi)) :
    AllSafe (withInfo r k) := by
  cases r <;> simp only [withInfo] <;> first | exact hk _ | exact allSafe_err

theorem mapEntries_safe (f : String × Val → Res (String × Val)) (es : List (String × Val))
    (k : List (String × Val) → Plan) (hk : ∀ r, AllSafe (k r)) : AllSafe (mapEntries f es k) := by
  unfold mapEntries
  cases mapRes f es <;> first | exact hk _ | exact allSafe_err

theorem newMapPlan_safe (st : St) (m : MObj) : AllSafe (newMapPlan st m) := by
  intro x hx; simp [newMapPlan] at hx; subst hx; rfl

theorem mat_single_safe (o : Nat) (r : Res Val) : AllSafe ([.mat o], r) := by
  intro m hm; simp at hm; subst hm; rfl

section
variable {F : Facts} (hF : F.OK = true)
include hF

theorem facts_all : F.appendCapsParent = true ∧ F.toSliceCapped = true ∧ F.copyToSliceFresh = true ∧
    F.setCopies = true ∧ F.reverseCopies = true ∧ F.orderCopies = true ∧ F.orderLessCopies = true ∧
    F.windowCapped = true ∧ F.windowRemoveCapped = true ∧ F.combineNCopies = true := by
  simp only [Facts.OK, Bool.and_eq_true] at hF
  obtain ⟨⟨⟨⟨⟨⟨⟨⟨⟨h1, h2⟩, h3⟩, h4⟩, h5⟩, h6⟩, h7⟩, h8⟩, h9⟩, h10⟩ := hF
  exact ⟨h1, h2, h3, h4, h5, h6, h7, h8, h9, h10⟩

theorem planVia_safe (cfg : Cfg) (st : St) (o : Nat) (copies : Bool) (hc : copies = true) (len : Nat)
    (content : List Val) : AllSafe (planVia F cfg st o copies len content) := by
  have hfr := (facts_all hF).2.2.1
  intro m hm
  simp only [planVia, viaSlice, hc, hfr, Bool.and_self, if_true, List.mem_cons, List.mem_singleton,
    List.not_mem_nil, or_false] at hm
  rcases hm with rfl | rfl <;> rfl

theorem planSort_safe (cfg : Cfg) (st : St) (o : Nat) (copies : Bool) (hc : copies = true) (rev : Bool) :
    AllSafe (planSort F cfg st o copies rev) := by
  unfold planSort
  apply withElems_safe; intro xs
  apply withInts_safe
  · split
    · exact planVia_safe hF cfg st o copies hc _ _
    · exact mat_single_safe _ _
  · intro is; exact planVia_safe hF cfg st o copies hc _ _

theorem planWindows_safe (cfg : Cfg) (st : St) (o len : Nat) (capped : Bool) (hc : capped = true)
    (starts : List Nat) : AllSafe (planWindows F cfg st o len capped starts) := by
  intro m hm
  simp only [planWindows, hc, if_true, List.mem_cons, List.mem_append, List.mem_filterMap,
    List.mem_singleton, List.not_mem_nil, or_false] at hm
  rcases hm with (rfl | ⟨i, _, hi⟩) | rfl
  · rfl
  · cases hs : starts[i]? with
    | none => rw [hs] at hi; cases hi
    | some s => rw [hs] at hi; simp only [Option.some.injEq] at hi; subst hi; simp [Micro.safe]
  · rfl

theorem planCombineStore_safe (cfg : Cfg) (st : St) (n : Int) (xs : List Val) :
    AllSafe (planCombineStore F cfg st n xs) := by
  have hcn := (facts_all hF).2.2.2.2.2.2.2.2.2
  unfold planCombineStore
  split
  · exact allSafe_err
  · intro m hm
    simp only [hcn, if_true, List.mem_append, List.mem_map, List.mem_singleton] at hm
    rcases hm with ⟨w, _, rfl⟩ | rfl <;> rfl

end

theorem planGroups_safe (cfg : Cfg) (st : St) (gs : List (Val × List Val)) : AllSafe (planGroups cfg st gs) := by
  intro m hm
  simp only [planGroups, List.mem_append, List.mem_flatMap, List.mem_singleton] at hm
  rcases hm with ⟨i, _, hi⟩ | rfl
  · cases hg : gs[i]? with
    | none => rw [hg] at hi; simp at hi
    | some g =>
      rw [hg] at hi
      simp only [List.mem_cons, List.not_mem_nil, or_false] at hi
      rcases hi with rfl | rfl <;> rfl
  · rfl

theorem obsEval_safe (pool : List Val) (r : Res Val) :
    AllSafe (pool.filterMap (fun v => match v with | .ref o => some (Micro.mat o) | _ => none), r) := by
  intro m hm
  simp only [List.mem_filterMap] at hm
  obtain ⟨v, _, hv⟩ := hm
  cases v <;> simp at hv
  subst hv; rfl

/-- with the facts regenerated from a source tree that satisfies `Facts.OK`, no operation writes a
visible cell, hands out uncapped spare capacity, or appends without capping the parent -/
theorem plan_safe {F : Facts} (hF : F.OK = true) (cfg : Cfg) (st : St) (op : Op) :
    AllSafe (plan F cfg st op) := by
  obtain ⟨hApp, hTs, _, hSet, hRev, hOrd, hOrdL, hWin, hWinR, _⟩ := facts_all hF
  have one : ∀ (m : Micro) (r : Res Val), m.safe = true → AllSafe ([m], r) := by
    intro m r hm x hx; simp at hx; subst hx; exact hm
  cases op with
  | lit vs => exact one _ _ rfl
  | num n => exact one _ _ rfl
  | map f a => exact withRef_safe _ _ fun _ => one _ _ rfl
  | acc q a => exact withRef_safe _ _ fun _ => one _ _ rfl
  | top k a => exact withRef_safe _ _ fun _ => one _ _ rfl
  | skip k a => exact withRef_safe _ _ fun _ => one _ _ rfl
  | cat a b => exact withRef_safe _ _ fun _ => withRef_safe _ _ fun _ => one _ _ rfl
  | cmbn n g a =>
    refine withRef_safe _ _ fun _ => ?_
    split
    · exact allSafe_err
    · exact one _ _ rfl
  | cmbe n a =>
    exact withRef_safe _ _ fun _ => withElems_safe _ _ fun xs => planCombineStore_safe hF cfg st n xs
  | app a v =>
    refine withRef_safe _ _ fun o => withElems_safe _ _ fun _ => ?_
    intro m hm
    simp only [List.mem_cons, List.not_mem_nil, or_false] at hm
    rcases hm with rfl | rfl
    · rfl
    · simp [Micro.safe, hApp]
  | set a i v =>
    refine withRef_safe _ _ fun o => withElems_safe _ _ fun xs => ?_
    split
    · exact mat_single_safe _ _
    · exact planVia_safe hF cfg st o _ hSet _ _
  | rev a =>
    exact withRef_safe _ _ fun o => withElems_safe _ _ fun xs => planVia_safe hF cfg st o _ hRev _ _
  | ord a => exact withRef_safe _ _ fun o => planSort_safe hF cfg st o _ hOrd _
  | ordr a => exact withRef_safe _ _ fun o => planSort_safe hF cfg st o _ hOrd _
  | ordl a => exact withRef_safe _ _ fun o => planSort_safe hF cfg st o _ hOrdL _
  | eval a => exact withRef_safe _ _ fun o => withElems_safe _ _ fun _ => mat_single_safe _ _
  | first a => exact withRef_safe _ _ fun o => withElems_safe _ _ fun _ => allSafe_nil _
  | idx a i =>
    refine withRef_safe _ _ fun o => ?_
    split
    · exact allSafe_err
    · exact withElems_safe _ _ fun _ => mat_single_safe _ _
  | size a => exact withRef_safe _ _ fun o => withElems_safe _ _ fun _ => mat_single_safe _ _
  | mw a =>
    exact withRef_safe _ _ fun o => withElems_safe _ _ fun xs =>
      withInts_safe _ _ _ (mat_single_safe _ _) fun is => planWindows_safe hF cfg st o _ _ hWin _
  | mwr kk a =>
    exact withRef_safe _ _ fun o => withElems_safe _ _ fun xs => planWindows_safe hF cfg st o _ _ hWinR _
  | grp kind k a =>
    refine withRef_safe _ _ fun o => withElems_safe _ _ fun xs => withInts_safe _ _ _ allSafe_err fun is => ?_
    split
    · exact allSafe_err
    · exact planGroups_safe _ _ _
  | tsa a v =>
    refine withRef_safe _ _ fun o => withElems_safe _ _ fun xs => ?_
    rw [if_pos hTs]
    intro m hm
    simp only [List.mem_cons, List.not_mem_nil, or_false] at hm
    rcases hm with rfl | rfl <;> rfl
  | alias v => exact allSafe_nil _
  | obsEval => exact obsEval_safe _ _
  | mlit kvs => exact newMapPlan_safe _ _
  | put a k v =>
    refine withMref_safe _ _ fun m => withInfo_safe _ _ fun mi => ?_
    split
    · exact allSafe_err
    · exact newMapPlan_safe _ _
  | mrg x y =>
    refine withMref_safe _ _ fun a => withMref_safe _ _ fun b => withInfo_safe _ _ fun ai =>
      withInfo_safe _ _ fun bi => ?_
    split
    · exact allSafe_err
    · exact newMapPlan_safe _ _
  | rpl x y =>
    refine withMref_safe _ _ fun m => withMref_safe _ _ fun r => withInfo_safe _ _ fun _ => ?_
    unfold planReplace
    simp only
    split <;> exact newMapPlan_safe _ _
  | mev a => exact withMref_safe _ _ fun m => withInfo_safe _ _ fun mi => newMapPlan_safe _ _
  | mmap f a =>
    exact withMref_safe _ _ fun m => withInfo_safe _ _ fun mi => mapEntries_safe _ _ _ fun _ => newMapPlan_safe _ _
  | macc k a => exact withMref_safe _ _ fun m => withInfo_safe _ _ fun mi => newMapPlan_safe _ _
  | mcmb x y =>
    exact withMref_safe _ _ fun a => withMref_safe _ _ fun b => withInfo_safe _ _ fun ai =>
      withInfo_safe _ _ fun bi => mapEntries_safe _ _ _ fun _ => newMapPlan_safe _ _
  | mget a k =>
    refine withMref_safe _ _ fun m => withInfo_safe _ _ fun mi => ?_
    split
    · exact allSafe_nil _
    · exact allSafe_err

/-! ## histories -/

/-- the pool only grows -/
theorem newPool_prefix (h' : H) (pool : List Val) (r : Res Val) : ∃ extra, newPool h' pool r = pool ++ extra := by
  cases r with
  | ok v => simp only [newPool]; split; exact ⟨[v], rfl⟩; exact ⟨[], by simp⟩
  | err => exact ⟨[], by simp [newPool]⟩
  | panic => exact ⟨[], by simp [newPool]⟩
  | fuel => exact ⟨[], by simp [newPool]⟩

theorem step_ok {F : Facts} (hF : F.OK = true) (cfg : Cfg) (st : St) (op : Op) (hinv : Inv st.h) :
    Inv (step F cfg st op).h ∧ Ext cfg.rot st.h (step F cfg st op).h ∧
    ∃ extra, (step F cfg st op).pool = st.pool ++ extra := by
  have h := runMicros_safe cfg (plan F cfg st op).1 st.h (plan_safe hF cfg st op) hinv
  exact ⟨h.1, h.2, newPool_prefix _ _ _⟩

theorem run_ok {F : Facts} (hF : F.OK = true) (cfg : Cfg) (ops : List Op) (st : St) (hinv : Inv st.h) :
    Inv (run F cfg st ops).h ∧ Ext cfg.rot st.h (run F cfg st ops).h ∧
    ∃ extra, (run F cfg st ops).pool = st.pool ++ extra := by
  induction ops generalizing st with
  | nil => exact ⟨hinv, Ext.refl _ _, ⟨[], by simp [run]⟩⟩
  | cons op ops ih =>
    obtain ⟨h1, h2, e1, he1⟩ := step_ok hF cfg st op hinv
    obtain ⟨h3, h4, e2, he2⟩ := ih (step F cfg st op) h1
    refine ⟨h3, h2.trans h4, ⟨e1 ++ e2, ?_⟩⟩
    show (run F cfg (step F cfg st op) ops).pool = _
    rw [he2, he1, List.append_assoc]

theorem inv_init : Inv St.init.h := invS_empty

end P2.Heap
