import P2.Proofs.LangFSim
/-! # C02 on the value language: `optimize` preserves well-scopedness

If the original tree is well-scoped in the strict sense of `O.wscoped` (which also demands that the
own name of a function is not among its declared outer identifiers — true of every tree the parser
produces), the optimized tree is well-scoped in the sense of `F.wscoped`. This removes the hypothesis
on the optimized tree from `optimize_preserves_eval`. -/
namespace P2.Lang.F
open P2.Lang P2.Lang.Opt

variable {S : Statics} {M : Methods} {T : Tables} {cfg : Cfg}

/-- the strict predicate implies the plain one -/
theorem wscoped_of_strict_aux : ∀ (n : Nat) (a : AST) (L : List String), sizeOf a ≤ n →
    O.wscoped S L a = true → wscoped S L a = true := by
  intro n
  induction n with
  | zero =>
    intro a L hn
    cases a <;> simp at hn <;> omega
  | succ n ih =>
    intro a L hn h
    have ihL : ∀ (as : List AST), sizeOf as ≤ n → ∀ L, O.wscopedList S L as = true → wscopedList S L as = true := by
      intro as
      induction as with
      | nil => intro _ _ _; rfl
      | cons b bs ihb =>
        intro hs L h
        simp only [List.cons.sizeOf_spec] at hs
        simp only [O.wscopedList, Bool.and_eq_true] at h
        simp only [wscopedList, Bool.and_eq_true]
        exact ⟨ih b L (by omega) h.1, ihb (by omega) L h.2⟩
    have ihK : ∀ (as : List (String × AST)), sizeOf as ≤ n → ∀ L, O.wscopedKVs S L as = true →
        wscopedKVs S L as = true := by
      intro as
      induction as with
      | nil => intro _ _ _; rfl
      | cons b bs ihb =>
        obtain ⟨k, b⟩ := b
        intro hs L h
        simp only [List.cons.sizeOf_spec, Prod.mk.sizeOf_spec] at hs
        simp only [O.wscopedKVs, Bool.and_eq_true] at h
        simp only [wscopedKVs, Bool.and_eq_true]
        exact ⟨ih b L (by omega) h.1, ihb (by omega) L h.2⟩
    have ihC : ∀ (as : List (AST × AST)), sizeOf as ≤ n → ∀ L, O.wscopedCases S L as = true →
        wscopedCases S L as = true := by
      intro as
      induction as with
      | nil => intro _ _ _; rfl
      | cons b bs ihb =>
        obtain ⟨c, r⟩ := b
        intro hs L h
        simp only [List.cons.sizeOf_spec, Prod.mk.sizeOf_spec] at hs
        simp only [O.wscopedCases, Bool.and_eq_true] at h
        simp only [wscopedCases, Bool.and_eq_true]
        exact ⟨⟨ih c L (by omega) h.1.1, ih r L (by omega) h.1.2⟩, ihb (by omega) L h.2⟩
    cases a with
    | const c => rfl
    | ident x => simpa [O.wscoped, wscoped] using h
    | letE x v i =>
      simp only [AST.letE.sizeOf_spec] at hn
      simp only [O.wscoped, Bool.and_eq_true] at h
      simp only [wscoped, Bool.and_eq_true]
      exact ⟨ih v L (by omega) h.1, ih i _ (by omega) h.2⟩
    | ifE c t e =>
      simp only [AST.ifE.sizeOf_spec] at hn
      simp only [O.wscoped, Bool.and_eq_true] at h
      simp only [wscoped, Bool.and_eq_true]
      exact ⟨⟨ih c L (by omega) h.1.1, ih t L (by omega) h.1.2⟩, ih e L (by omega) h.2⟩
    | switchE v cases d =>
      simp only [AST.switchE.sizeOf_spec] at hn
      simp only [O.wscoped, Bool.and_eq_true] at h
      simp only [wscoped, Bool.and_eq_true]
      exact ⟨⟨ih v L (by omega) h.1.1, ihC cases (by omega) L h.1.2⟩, ih d L (by omega) h.2⟩
    | tryE t c =>
      simp only [AST.tryE.sizeOf_spec] at hn
      simp only [O.wscoped, Bool.and_eq_true] at h
      simp only [wscoped, Bool.and_eq_true]
      exact ⟨ih t L (by omega) h.1, ih c L (by omega) h.2⟩
    | unary op a1 =>
      simp only [AST.unary.sizeOf_spec] at hn
      simp only [O.wscoped] at h
      simp only [wscoped]
      exact ih a1 L (by omega) h
    | binop op a1 b1 =>
      simp only [AST.binop.sizeOf_spec] at hn
      simp only [O.wscoped, Bool.and_eq_true] at h
      simp only [wscoped, Bool.and_eq_true]
      exact ⟨ih a1 L (by omega) h.1, ih b1 L (by omega) h.2⟩
    | clos names body outer r this =>
      simp only [AST.clos.sizeOf_spec] at hn
      simp only [O.wscoped, Bool.and_eq_true] at h
      simp only [wscoped, Bool.and_eq_true]
      exact ⟨⟨h.1.1.1, h.1.2⟩, ih body _ (by omega) h.2⟩
    | listLit items =>
      simp only [AST.listLit.sizeOf_spec] at hn
      simp only [O.wscoped] at h
      simp only [wscoped]
      exact ihL items (by omega) L h
    | index i l =>
      simp only [AST.index.sizeOf_spec] at hn
      simp only [O.wscoped, Bool.and_eq_true] at h
      simp only [wscoped, Bool.and_eq_true]
      exact ⟨ih i L (by omega) h.1, ih l L (by omega) h.2⟩
    | mapLit kvs =>
      simp only [AST.mapLit.sizeOf_spec] at hn
      simp only [O.wscoped] at h
      simp only [wscoped]
      exact ihK kvs (by omega) L h
    | member m key =>
      simp only [AST.member.sizeOf_spec] at hn
      simp only [O.wscoped] at h
      simp only [wscoped]
      exact ih m L (by omega) h
    | call f args =>
      simp only [AST.call.sizeOf_spec] at hn
      simp only [O.wscoped, Bool.and_eq_true] at h
      simp only [wscoped, Bool.and_eq_true]
      refine ⟨?_, ihL args (by omega) L h.2⟩
      have h1 := h.1
      cases f with
      | ident name => exact h1
      | _ => exact ih _ L (by omega) h1
    | method recv name args =>
      simp only [AST.method.sizeOf_spec] at hn
      simp only [O.wscoped, Bool.and_eq_true] at h
      simp only [wscoped, Bool.and_eq_true]
      exact ⟨ih recv L (by omega) h.1, ihL args (by omega) L h.2⟩

theorem wscoped_of_strict (a : AST) (L : List String) (h : O.wscoped S L a = true) : wscoped S L a = true :=
  wscoped_of_strict_aux (sizeOf a) a L (Nat.le_refl _) h

/-! ## `optimize` preserves well-scopedness -/

theorem ruleOrNot_wscoped (hcfg : FullCfg cfg) {fold : Bool} {sc : Scope} {X a' : AST} {L' : List String}
    (hr : (if fold = true then rule S M T cfg sc X else pure X) = .ok a')
    (hX : wscoped S L' X = true) : wscoped S L' a' = true := by
  by_cases hne : a' = X
  · rw [hne]; exact hX
  · cases fold with
    | false => exact absurd (by simpa [pure, Except.pure] using hr.symm) hne
    | true =>
      simp only [if_true] at hr
      by_cases hif : ∃ c t e, X = .ifE c t e
      · obtain ⟨c, t, e, rfl⟩ := hif
        simp only [wscoped, Bool.and_eq_true] at hX
        simp only [rule] at hr
        split at hr
        · rw [← Except.ok.inj hr]; exact hX.1.2
        · rw [← Except.ok.inj hr]; exact hX.2
        · exact absurd (Except.ok.inj hr).symm hne
      · obtain ⟨E, hfold, _, _⟩ := rule_fold_inv hcfg hr hne (fun c t e h => hif ⟨c, t, e, h⟩)
        rcases foldR_ok2 hfold with h1 | ⟨v, _, _, hk⟩
        · exact absurd h1 hne
        · exact wscoped_mono a' [] L' (fun x hx => by simp at hx) (isConst_wscoped a' hk)

theorem wscoped_call_of {f' : AST} {args' : List AST} {L' : List String}
    (hf : wscoped S L' f' = true) (hargs : wscopedList S L' args' = true) :
    wscoped S L' (.call f' args') = true := by
  simp only [wscoped, Bool.and_eq_true]
  refine ⟨?_, hargs⟩
  cases f' with
  | ident g =>
    simp only [wscoped, List.contains_iff_mem] at hf
    simp only [Bool.or_eq_true, List.contains_iff_mem]
    exact .inl hf
  | _ => exact hf

theorem nonconst_isRuntime {sc : Scope} {x : String} (h : ∀ k, sc.find x ≠ some (some k)) :
    isRuntime sc x = true := by
  unfold isRuntime
  cases hf : sc.find x with
  | none => rfl
  | some b =>
    cases b with
    | none => rfl
    | some k => exact absurd hf (h k)

theorem opt_wscoped_aux (hcfg : FullCfg cfg) : ∀ (n : Nat) (a : AST) (fold : Bool) (sc : Scope)
    (L L' : List String) (a' : AST), sizeOf a ≤ n →
    opt S M T cfg fold sc a = .ok a' → O.wscoped S L a = true →
    (∀ x, x ∈ L → (∀ k, sc.find x ≠ some (some k)) → x ∈ L') →
    (∀ x k, sc.find x = some (some k) → isConst S cfg k = true) →
    wscoped S L' a' = true := by
  intro n
  induction n with
  | zero =>
    intro a fold sc L L' a' hn
    cases a <;> simp at hn <;> omega
  | succ n ih =>
    intro a fold sc L L' a' hn h hws hL hK
    have ihL : ∀ (as : List AST), sizeOf as ≤ n → ∀ as', optList S M T cfg fold sc as = .ok as' →
        O.wscopedList S L as = true → wscopedList S L' as' = true := by
      intro as
      induction as with
      | nil =>
        intro _ as' h _
        have : as' = [] := by simpa [optList, pure, Except.pure] using h.symm
        rw [this]; rfl
      | cons b bs ihb =>
        intro hs as' h hw
        simp only [List.cons.sizeOf_spec] at hs
        simp only [optList] at h
        obtain ⟨b1, h1, h⟩ := ebind_ok h
        obtain ⟨bs1, h2, h⟩ := ebind_ok h
        have : as' = b1 :: bs1 := by simpa [pure, Except.pure] using h.symm
        rw [this]
        simp only [O.wscopedList, Bool.and_eq_true] at hw
        simp only [wscopedList, Bool.and_eq_true]
        exact ⟨ih b fold sc L L' b1 (by omega) h1 hw.1 hL hK, ihb (by omega) bs1 h2 hw.2⟩
    have ihK : ∀ (as : List (String × AST)), sizeOf as ≤ n → ∀ as', optKVs S M T cfg fold sc as = .ok as' →
        O.wscopedKVs S L as = true → wscopedKVs S L' as' = true := by
      intro as
      induction as with
      | nil =>
        intro _ as' h _
        have : as' = [] := by simpa [optKVs, pure, Except.pure] using h.symm
        rw [this]; rfl
      | cons b bs ihb =>
        obtain ⟨key, b⟩ := b
        intro hs as' h hw
        simp only [List.cons.sizeOf_spec, Prod.mk.sizeOf_spec] at hs
        simp only [optKVs] at h
        obtain ⟨b1, h1, h⟩ := ebind_ok h
        obtain ⟨bs1, h2, h⟩ := ebind_ok h
        have : as' = (key, b1) :: bs1 := by simpa [pure, Except.pure] using h.symm
        rw [this]
        simp only [O.wscopedKVs, Bool.and_eq_true] at hw
        simp only [wscopedKVs, Bool.and_eq_true]
        exact ⟨ih b fold sc L L' b1 (by omega) h1 hw.1 hL hK, ihb (by omega) bs1 h2 hw.2⟩
    have ihC : ∀ (as : List (AST × AST)), sizeOf as ≤ n → ∀ as', optCases S M T cfg fold sc as = .ok as' →
        O.wscopedCases S L as = true → wscopedCases S L' as' = true := by
      intro as
      induction as with
      | nil =>
        intro _ as' h _
        have : as' = [] := by simpa [optCases, pure, Except.pure] using h.symm
        rw [this]; rfl
      | cons b bs ihb =>
        obtain ⟨c, r⟩ := b
        intro hs as' h hw
        simp only [List.cons.sizeOf_spec, Prod.mk.sizeOf_spec] at hs
        simp only [optCases] at h
        obtain ⟨c1, h1, h⟩ := ebind_ok h
        obtain ⟨r1, h2, h⟩ := ebind_ok h
        obtain ⟨bs1, h3, h⟩ := ebind_ok h
        have : as' = (c1, r1) :: bs1 := by simpa [pure, Except.pure] using h.symm
        rw [this]
        simp only [O.wscopedCases, Bool.and_eq_true] at hw
        simp only [wscopedCases, Bool.and_eq_true]
        exact ⟨⟨ih c false sc L L' c1 (by omega) h1 hw.1.1 hL hK, ih r fold sc L L' r1 (by omega) h2 hw.1.2 hL hK⟩,
          ihb (by omega) bs1 h3 hw.2⟩
    have kws : ∀ k, isConst S cfg k = true → wscoped S L' k = true := fun k hk =>
      wscoped_mono k [] L' (fun x hx => by simp at hx) (isConst_wscoped k hk)
    cases a with
    | const c =>
      have : a' = .const c := by simpa [opt, pure, Except.pure] using h.symm
      rw [this]; rfl
    | ident x =>
      simp only [O.wscoped, List.contains_iff_mem] at hws
      cases hfd : sc.find x with
      | none =>
        simp only [opt, hfd] at h
        have : a' = .ident x := by simpa [pure, Except.pure] using h.symm
        rw [this]
        simp only [wscoped, List.contains_iff_mem]
        exact hL x hws (by simp [hfd])
      | some b =>
        cases b with
        | none =>
          simp only [opt, hfd] at h
          have : a' = .ident x := by simpa [pure, Except.pure] using h.symm
          rw [this]
          simp only [wscoped, List.contains_iff_mem]
          exact hL x hws (by simp [hfd])
        | some k =>
          simp only [opt, hfd] at h
          have : a' = k := by simpa [pure, Except.pure] using h.symm
          rw [this]
          exact kws k (hK x k hfd)
    | letE x v i =>
      simp only [AST.letE.sizeOf_spec] at hn
      simp only [opt] at h
      cases fold with
      | false => simp at h
      | true =>
        simp only [Bool.not_true, Bool.false_eq_true, if_false] at h
        obtain ⟨v', hv', h⟩ := ebind_ok h
        simp only [O.wscoped, Bool.and_eq_true] at hws
        have hv := ih v true sc L L' v' (by omega) hv' hws.1 hL hK
        by_cases hc : isConst S cfg v' = true
        · simp only [hc, if_true] at h
          refine ih i true _ (x :: L) L' a' (by omega) h hws.2 (fun y hy hnc => ?_) (fun y k hy => ?_)
          · have hxy : x ≠ y := fun e => hnc v' (by rw [Scope.find_cons]; simp [e])
            rcases List.mem_cons.mp hy with rfl | hy
            · exact absurd rfl hxy
            · refine hL y hy (fun k hk => hnc k ?_)
              rw [Scope.find_cons]; simp only [hxy, if_false]; exact hk
          · rw [Scope.find_cons] at hy
            by_cases hxy : x = y
            · simp only [hxy, if_true, Option.some.injEq] at hy
              subst hy; exact hc
            · simp only [hxy, if_false] at hy; exact hK y k hy
        · simp only [hc] at h
          obtain ⟨_, _, h⟩ := ebind_ok h
          obtain ⟨i', hi', h⟩ := ebind_ok h
          have : a' = .letE x v' i' := by simpa [pure, Except.pure] using h.symm
          rw [this]
          simp only [wscoped, Bool.and_eq_true]
          refine ⟨hv, ih i true _ (x :: L) (x :: L') i' (by omega) hi' hws.2 (fun y hy hnc => ?_) (fun y k hy => ?_)⟩
          · by_cases hxy : x = y
            · simp [hxy]
            · rcases List.mem_cons.mp hy with rfl | hy
              · exact absurd rfl hxy
              · refine List.mem_cons_of_mem _ (hL y hy (fun k hk => hnc k ?_))
                rw [Scope.find_cons]; simp only [hxy, if_false]; exact hk
          · rw [Scope.find_cons] at hy
            by_cases hxy : x = y
            · simp [hxy] at hy
            · simp only [hxy, if_false] at hy; exact hK y k hy
    | ifE c t e =>
      simp only [AST.ifE.sizeOf_spec] at hn
      simp only [opt] at h
      obtain ⟨c', hc', h⟩ := ebind_ok h
      obtain ⟨t', ht', h⟩ := ebind_ok h
      obtain ⟨e', he', h⟩ := ebind_ok h
      simp only [O.wscoped, Bool.and_eq_true] at hws
      refine ruleOrNot_wscoped hcfg h ?_
      simp only [wscoped, Bool.and_eq_true]
      exact ⟨⟨ih c fold sc L L' c' (by omega) hc' hws.1.1 hL hK, ih t fold sc L L' t' (by omega) ht' hws.1.2 hL hK⟩,
        ih e fold sc L L' e' (by omega) he' hws.2 hL hK⟩
    | switchE v cases d =>
      simp only [AST.switchE.sizeOf_spec] at hn
      simp only [opt] at h
      obtain ⟨v', hv', h⟩ := ebind_ok h
      obtain ⟨cases', hcs', h⟩ := ebind_ok h
      obtain ⟨d', hd', h⟩ := ebind_ok h
      have : a' = .switchE v' cases' d' := by simpa [pure, Except.pure] using h.symm
      rw [this]
      simp only [O.wscoped, Bool.and_eq_true] at hws
      simp only [wscoped, Bool.and_eq_true]
      exact ⟨⟨ih v fold sc L L' v' (by omega) hv' hws.1.1 hL hK, ihC cases (by omega) cases' hcs' hws.1.2⟩,
        ih d fold sc L L' d' (by omega) hd' hws.2 hL hK⟩
    | tryE t c =>
      simp only [AST.tryE.sizeOf_spec] at hn
      simp only [opt] at h
      obtain ⟨t', ht', h⟩ := ebind_ok h
      obtain ⟨c', hc', h⟩ := ebind_ok h
      have : a' = .tryE t' c' := by simpa [pure, Except.pure] using h.symm
      rw [this]
      simp only [O.wscoped, Bool.and_eq_true] at hws
      simp only [wscoped, Bool.and_eq_true]
      exact ⟨ih t fold sc L L' t' (by omega) ht' hws.1 hL hK, ih c fold sc L L' c' (by omega) hc' hws.2 hL hK⟩
    | unary op a1 =>
      simp only [AST.unary.sizeOf_spec] at hn
      simp only [opt] at h
      obtain ⟨a1', h1, h⟩ := ebind_ok h
      simp only [O.wscoped] at hws
      refine ruleOrNot_wscoped hcfg h ?_
      simp only [wscoped]
      exact ih a1 fold sc L L' a1' (by omega) h1 hws hL hK
    | binop op a1 b1 =>
      simp only [AST.binop.sizeOf_spec] at hn
      simp only [opt] at h
      obtain ⟨a1', h1, h⟩ := ebind_ok h
      obtain ⟨b1', h2, h⟩ := ebind_ok h
      simp only [O.wscoped, Bool.and_eq_true] at hws
      refine ruleOrNot_wscoped hcfg h ?_
      simp only [wscoped, Bool.and_eq_true]
      exact ⟨ih a1 fold sc L L' a1' (by omega) h1 hws.1 hL hK, ih b1 fold sc L L' b1' (by omega) h2 hws.2 hL hK⟩
    | clos names body outer r this =>
      simp only [AST.clos.sizeOf_spec] at hn
      simp only [opt] at h
      cases fold with
      | false => simp at h
      | true =>
        simp only [Bool.not_true, Bool.false_eq_true, if_false] at h
        obtain ⟨_, _, h⟩ := ebind_ok h
        have hparts : ∃ body', opt S M T cfg true (extScope this names sc) body = .ok body' ∧
            a' = .clos names body' (outer.filter (isRuntime sc)) r this := by
          by_cases ht : this ≠ ""
          · rw [if_pos ht] at h
            obtain ⟨_, _, h⟩ := ebind_ok h
            obtain ⟨body', hb, h⟩ := ebind_ok h
            exact ⟨body', hb, by simpa [pure, Except.pure] using h.symm⟩
          · rw [if_neg ht] at h
            obtain ⟨body', hb, h⟩ := ebind_ok h
            exact ⟨body', hb, by simpa [pure, Except.pure] using h.symm⟩
        obtain ⟨body', hb, ha'⟩ := hparts
        rw [ha']
        obtain ⟨w1, w2, w3, w4⟩ := O.wscoped_clos_inv hws
        have hbody := ih body true (extScope this names sc) _ (names ++ outer.filter (isRuntime sc) ++ (if r then [this] else []))
          body' (by omega) hb w4 (fun y hy hnc => ?_) (fun y k hy => ?_)
        · simp only [wscoped, Bool.and_eq_true, List.all_eq_true, List.contains_iff_mem, Bool.or_eq_true,
            Bool.not_eq_true', bne_iff_ne, ne_eq]
          refine ⟨⟨?_, fun x hx => ?_⟩, hbody⟩
          · cases r with
            | false => exact .inl rfl
            | true => exact .inr (w1 rfl)
          · have hx' := List.mem_filter.mp hx
            exact hL x (w3 x hx'.1) (isRuntime_nonconst hx'.2)
        · simp only [List.mem_append] at hy ⊢
          rcases hy with (hy | hy) | hy
          · exact .inl (.inl hy)
          · by_cases hn : y ∈ names
            · exact .inl (.inl hn)
            · have h1 : ¬ (this ≠ "" ∧ this = y) := fun ⟨ht, he⟩ => w2 ht (he ▸ hy)
              refine .inl (.inr (List.mem_filter.mpr ⟨hy, nonconst_isRuntime (fun k hk => hnc k ?_)⟩))
              rw [extScope_find, if_neg h1, if_neg hn]; exact hk
          · exact .inr hy
        · rw [extScope_find] at hy
          by_cases h1 : this ≠ "" ∧ this = y
          · rw [if_pos h1] at hy; simp at hy
          · by_cases h2 : y ∈ names
            · rw [if_neg h1, if_pos h2] at hy; simp at hy
            · rw [if_neg h1, if_neg h2] at hy; exact hK y k hy
    | listLit items =>
      simp only [AST.listLit.sizeOf_spec] at hn
      simp only [opt] at h
      obtain ⟨items', h1, h⟩ := ebind_ok h
      have : a' = .listLit items' := by simpa [pure, Except.pure] using h.symm
      rw [this]
      simp only [O.wscoped] at hws
      simp only [wscoped]
      exact ihL items (by omega) items' h1 hws
    | index i l =>
      simp only [AST.index.sizeOf_spec] at hn
      simp only [opt] at h
      obtain ⟨i', h1, h⟩ := ebind_ok h
      obtain ⟨l', h2, h⟩ := ebind_ok h
      simp only [O.wscoped, Bool.and_eq_true] at hws
      refine ruleOrNot_wscoped hcfg h ?_
      simp only [wscoped, Bool.and_eq_true]
      exact ⟨ih i fold sc L L' i' (by omega) h1 hws.1 hL hK, ih l fold sc L L' l' (by omega) h2 hws.2 hL hK⟩
    | mapLit kvs =>
      simp only [AST.mapLit.sizeOf_spec] at hn
      simp only [opt] at h
      obtain ⟨kvs', h1, h⟩ := ebind_ok h
      have : a' = .mapLit kvs' := by simpa [pure, Except.pure] using h.symm
      rw [this]
      simp only [O.wscoped] at hws
      simp only [wscoped]
      exact ihK kvs (by omega) kvs' h1 hws
    | member m key =>
      simp only [AST.member.sizeOf_spec] at hn
      simp only [opt] at h
      obtain ⟨m', h1, h⟩ := ebind_ok h
      simp only [O.wscoped] at hws
      refine ruleOrNot_wscoped hcfg h ?_
      simp only [wscoped]
      exact ih m fold sc L L' m' (by omega) h1 hws hL hK
    | call f args =>
      simp only [AST.call.sizeOf_spec] at hn
      simp only [opt] at h
      obtain ⟨f', h1, h⟩ := ebind_ok h
      obtain ⟨args', h2, h⟩ := ebind_ok h
      simp only [O.wscoped, Bool.and_eq_true] at hws
      have hargs := ihL args (by omega) args' h2 hws.2
      refine ruleOrNot_wscoped hcfg h ?_
      have hw1 := hws.1
      cases f with
      | ident name =>
        simp only [Bool.or_eq_true, List.contains_iff_mem] at hw1
        cases hfd : sc.find name with
        | none =>
          simp only [opt, hfd] at h1
          have : f' = .ident name := by simpa [pure, Except.pure] using h1.symm
          rw [this]
          simp only [wscoped, Bool.and_eq_true, Bool.or_eq_true, List.contains_iff_mem]
          refine ⟨?_, hargs⟩
          rcases hw1 with hm | hs
          · exact .inl (hL name hm (by simp [hfd]))
          · exact .inr hs
        | some b =>
          cases b with
          | none =>
            simp only [opt, hfd] at h1
            have : f' = .ident name := by simpa [pure, Except.pure] using h1.symm
            rw [this]
            simp only [wscoped, Bool.and_eq_true, Bool.or_eq_true, List.contains_iff_mem]
            refine ⟨?_, hargs⟩
            rcases hw1 with hm | hs
            · exact .inl (hL name hm (by simp [hfd]))
            · exact .inr hs
          | some k =>
            simp only [opt, hfd] at h1
            have : f' = k := by simpa [pure, Except.pure] using h1.symm
            rw [this]
            exact wscoped_call_of (kws k (hK name k hfd)) hargs
      | _ => exact wscoped_call_of (ih _ fold sc L L' f' (by simp at hn ⊢; omega) h1 hw1 hL hK) hargs
    | method recv name args =>
      simp only [AST.method.sizeOf_spec] at hn
      simp only [opt] at h
      obtain ⟨recv', h1, h⟩ := ebind_ok h
      obtain ⟨args', h2, h⟩ := ebind_ok h
      simp only [O.wscoped, Bool.and_eq_true] at hws
      refine ruleOrNot_wscoped hcfg h ?_
      simp only [wscoped, Bool.and_eq_true]
      exact ⟨ih recv fold sc L L' recv' (by omega) h1 hws.1 hL hK, ihL args (by omega) args' h2 hws.2⟩

/-- **`optimize` preserves well-scopedness** -/
theorem optimize_wscoped (hcfg : FullCfg cfg) (argNames : List String) (a a' : AST)
    (hopt : optimize S M T cfg argNames a = .ok a') (hws : O.wscoped S argNames a = true) :
    wscoped S argNames a' = true := by
  unfold optimize at hopt
  obtain ⟨_, _, hopt⟩ := ebind_ok hopt
  refine opt_wscoped_aux hcfg (sizeOf a) a true _ argNames argNames a' (Nat.le_refl _) hopt hws
    (fun x hx _ => hx) (fun x k hk => ?_)
  rw [Scope.find_params] at hk
  split at hk <;> simp at hk

end P2.Lang.F
