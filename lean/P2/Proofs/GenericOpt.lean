import P2.Model.Generic
/-! Soundness of the generic optimizer model (`rule`, `optimize`, `resolve`, `frontend`) under `Laws`.
Used by C19 and C02. -/
namespace P2.Generic
variable {V : Type}

/-- What the two regrouping rules of optimizer.go need from an operator flagged `IsCommutative`:
both identities, on **all** values, error behaviour included.  (The flag's name promises neither:
the first identity is commutativity *and* associativity, the second is associativity.)
`left`:  `(c₁ ∘ x) ∘ c₂ = (c₁ ∘ c₂) ∘ x`   whenever `c₁ ∘ c₂` is defined,
`right`: `(x ∘ c₁) ∘ c₂ = x ∘ (c₁ ∘ c₂)`   whenever `c₁ ∘ c₂` is defined. -/
structure Laws (t : Table V) : Prop where
  left : ∀ o, t.comm o = true → ∀ c1 c2 co, t.sem o c1 c2 = some co →
    ∀ x, (t.sem o c1 x).bind (fun y => t.sem o y c2) = t.sem o co x
  right : ∀ o, t.comm o = true → ∀ c1 c2 co, t.sem o c1 c2 = some co →
    ∀ x, (t.sem o x c1).bind (fun y => t.sem o y c2) = t.sem o x co

/-- a table that flags nothing commutative satisfies the laws trivially -/
theorem Laws.of_no_comm (t : Table V) (h : ∀ o, t.comm o = false) : Laws t :=
  ⟨fun o hc => by simp [h o] at hc, fun o hc => by simp [h o] at hc⟩

/-- C02.1: every rewrite of `optimizer.Optimize` preserves the value, errors included -/
theorem rule_sound (t : Table V) (hl : Laws t) (env : Env V) (e : E V) :
    eval t (rule t e) env = eval t e env := by
  unfold rule
  split
  · -- binary operator with a constant right operand
    rename_i o a bc
    split
    · rename_i ac
      split
      · split
        · rename_i co hco; simp [eval, hco]
        · rfl
      · rfl
    · rename_i o' iac x
      split
      · rename_i hc
        obtain ⟨hc1, hc2⟩ := hc; subst hc2
        split
        · rename_i co hco
          simp only [eval, Option.bind_some]
          cases hx : eval t x env with
          | none => simp
          | some xv =>
            have := hl.left o' hc1 iac bc co hco xv
            simp only [Option.bind_some]
            exact this.symm
        · rfl
      · rfl
    · rename_i o' x ibc hnot
      split
      · rename_i hc
        obtain ⟨hc1, hc2⟩ := hc; subst hc2
        split
        · rename_i co hco
          simp only [eval, Option.bind_some]
          cases hx : eval t x env with
          | none => simp
          | some xv =>
            have := hl.right o' hc1 ibc bc co hco xv
            simp only [Option.bind_some]
            exact this.symm
        · rfl
      · rfl
    · rfl
  · -- unary operator on a constant
    rename_i o c
    split
    · rename_i co hco; simp [eval, hco]
    · rfl
  · -- constant `if`
    rename_i c th el
    split
    · rfl
    · rename_i tb htb
      split
      · rename_i hc; simp [eval, htb, hc]
      · rename_i hc; simp [eval, htb, hc]
      · rfl
  · -- pure static call on a constant
    rename_i f c
    split
    · split
      · rename_i g hg
        split
        · rename_i v hv; simp [eval, hg, hv]
        · rfl
      · rfl
    · rfl
  · rfl

/-- C02.2 on the closure-free fragment: the optimised tree has the same value in every environment -/
theorem optimize_sound (t : Table V) (hl : Laws t) :
    ∀ (e : E V) (env : Env V), eval t (optimize t e) env = eval t e env
  | .const _, _ => rfl
  | .var _, _ => rfl
  | .un o a, env => by
    simp only [optimize]
    rw [rule_sound t hl env]
    simp only [eval, optimize_sound t hl a env]
  | .op o a b, env => by
    simp only [optimize]
    rw [rule_sound t hl env]
    simp only [eval, optimize_sound t hl a env, optimize_sound t hl b env]
  | .call f a, env => by
    simp only [optimize]
    rw [rule_sound t hl env]
    simp only [eval, optimize_sound t hl a env]
  | .letE x v b, env => by
    simp only [optimize]
    rw [rule_sound t hl env]
    simp only [eval]
    congr 1
    funext xv
    exact optimize_sound t hl b _
  | .ite c th el, env => by
    simp only [optimize]
    rw [rule_sound t hl env]
    simp only [eval, optimize_sound t hl c env, optimize_sound t hl th env, optimize_sound t hl el env]

/-- with the optimizer off nothing is needed from the table -/
theorem optimizeIf_sound (t : Table V) (on : Bool) (hl : on = true → Laws t) (e : E V) (env : Env V) :
    eval t (optimizeIf t on e) env = eval t e env := by
  unfold optimizeIf
  split
  · rename_i h; exact optimize_sound t (hl h) e env
  · rfl

/-- the environment seen by the source program: constant identifiers shadow … nothing they should not:
`cs` holds exactly the constants visible at this position, everything else is a run-time name -/
def overlay (cs : Consts V) (env : Env V) : Env V := fun y =>
  match cs y with
  | some v => some v
  | none => env y

theorem overlay_set_const (cs : Consts V) (env : Env V) (x : String) (c : V) :
    overlay (cs.set x c) env = (overlay cs env).set x c := by
  funext y
  simp only [overlay, Consts.set, Env.set]
  by_cases h : y = x
  · simp [h]
  · simp [h]

theorem overlay_erase (cs : Consts V) (env : Env V) (x : String) (xv : V) :
    overlay (cs.erase x) (env.set x xv) = (overlay cs env).set x xv := by
  funext y
  simp only [overlay, Consts.erase, Env.set]
  by_cases h : y = x
  · simp [h]
  · simp [h]

theorem overlay_none (env : Env V) : overlay Consts.none env = env := by
  funext y; simp [overlay, Consts.none]

/-- identifier resolution with constant-`let` substitution preserves the value (the inline
optimisation of `let` values included) -/
theorem resolve_sound (t : Table V) (on : Bool) (hl : on = true → Laws t) :
    ∀ (e : E V) (cs : Consts V) (env : Env V),
      eval t (resolve t on cs e) env = eval t e (overlay cs env)
  | .const _, _, _ => rfl
  | .var x, cs, env => by
    simp only [resolve]
    cases h : cs x with
    | none => simp [eval, overlay, h]
    | some v => simp [eval, overlay, h]
  | .un o a, cs, env => by
    simp only [resolve, eval, resolve_sound t on hl a cs env]
  | .op o a b, cs, env => by
    simp only [resolve, eval, resolve_sound t on hl a cs env, resolve_sound t on hl b cs env]
  | .call f a, cs, env => by
    simp only [resolve, eval, resolve_sound t on hl a cs env]
  | .ite c th el, cs, env => by
    simp only [resolve, eval, resolve_sound t on hl c cs env, resolve_sound t on hl th cs env,
      resolve_sound t on hl el cs env]
  | .letE x v b, cs, env => by
    have hv : ∀ env', eval t (optimizeIf t on (resolve t on cs v)) env' = eval t v (overlay cs env') :=
      fun env' => by rw [optimizeIf_sound t on hl, resolve_sound t on hl v cs env']
    simp only [resolve]
    split
    · rename_i c hc
      have h1 := hv env
      rw [hc] at h1
      simp only [eval] at h1
      simp only [eval, ← h1, Option.bind_some]
      rw [resolve_sound t on hl b _ env, overlay_set_const]
    · rename_i hne
      simp only [eval, hv env]
      congr 1
      funext xv
      rw [resolve_sound t on hl b _ _, overlay_erase]

/-- the front end after the token level (resolution, inline and final optimisation) preserves the value -/
theorem frontend_sound (t : Table V) (on : Bool) (hl : on = true → Laws t) (cs : Consts V) (e : E V)
    (env : Env V) : eval t (frontend t on cs e) env = eval t e (overlay cs env) := by
  unfold frontend
  rw [optimizeIf_sound t on hl, resolve_sound t on hl]

end P2.Generic
