import P2.Spec.LibSpec
/-! # C07 — misuse is an error (on the eager specification)

Arguments outside a built-in's signature — a callback that is not a closure or has the wrong number
of parameters, a non-int where an int is required, a non-list/non-map/non-string operand, a wrong
number of arguments, a callback returning the wrong type, an empty-list reduction, an index out of
range — give exactly `err`: never `ok`, never `panic`. -/
namespace P2.LibSpec
open P2.Lang

/-- not a closure with exactly `n` parameters (`ToFunc` fails) -/
def NotFn (v : Val) (n : Nat) : Prop := isClosN v n = false
/-- not an `Int` -/
def NotInt (v : Val) : Prop := ∀ i, v ≠ .int i
/-- not a `Bool` -/
def NotBool (v : Val) : Prop := ∀ b, v ≠ .bool b
/-- not a string -/
def NotString (v : Val) : Prop := ∀ s, v ≠ .str s
/-- not a list -/
def NotList (v : Val) : Prop := ∀ l, v ≠ .list l
/-- not a map -/
def NotMap (v : Val) : Prop := ∀ m, v ≠ .map m
/-- neither int nor float -/
def NotNum (v : Val) : Prop := toFloat? v = none

/-! ## callback of the wrong shape -/

/-- the 15 list methods taking one callback with one parameter -/
theorem misuse_fn1 (ap : Apply) (k : Nat) (s : Str) (v : Val) (h : NotFn v 1) :
    lAccept ap s [v] = .err ∧ lMap ap s [v] = .err ∧ lMinMax ap s [v] = .err ∧ lReplaceList ap s [v] = .err ∧
    lIndexWhere ap s [v] = .err ∧ lPresent ap s [v] = .err ∧ lGroupByString ap k s [v] = .err ∧
    lGroupByInt ap k s [v] = .err ∧ lGroupByEqual ap k s [v] = .err ∧ lUniqueString ap k s [v] = .err ∧
    lUniqueInt ap k s [v] = .err ∧ lOrder ap false s [v] = .err ∧ lOrder ap true s [v] = .err ∧
    lMovingWindow ap s [v] = .err ∧ lMovingWindowRemove ap s [v] = .err := by
  unfold NotFn at h
  simp [lAccept, lMap, lMinMax, lReplaceList, lIndexWhere, lPresent, lGroupByString, lGroupByInt, lGroupByEqual,
    lUniqueString, lUniqueInt, lOrder, lMovingWindow, lMovingWindowRemove, h]

/-- the 6 list methods taking one callback with two parameters -/
theorem misuse_fn2 (ap : Apply) (s : Str) (v : Val) (h : NotFn v 2) :
    lReduce ap s [v] = .err ∧ lCombine ap s [v] = .err ∧ lCompact ap s [v] = .err ∧
    lOrderLess ap s [v] = .err ∧ lFsm ap s [v] = .err ∧ lNumber ap s [v] = .err := by
  unfold NotFn at h
  simp [lReduce, lCombine, lCompact, lOrderLess, lFsm, lNumber, h]

theorem misuse_combine3 (ap : Apply) (s : Str) (v : Val) (h : NotFn v 3) : lCombine3 ap s [v] = .err := by
  unfold NotFn at h; simp [lCombine3, h]

/-- `mapReduce`/`visit`: the second argument must be a closure with two parameters -/
theorem misuse_mapReduce (ap : Apply) (s : Str) (init v : Val) (h : NotFn v 2) :
    lMapReduce ap s [init, v] = .err := by
  unfold NotFn at h; simp [lMapReduce, h]

/-- `iir`/`iirCombine`: both arguments must be closures of the right arity -/
theorem misuse_iir (ap : Apply) (s : Str) (init f : Val) :
    (NotFn init 1 ∨ NotFn f 2 → lIir ap s [init, f] = .err) ∧
    (NotFn init 1 ∨ NotFn f 3 → lIirCombine ap s [init, f] = .err) := by
  unfold NotFn
  constructor <;> intro h <;> rcases h with h | h <;> simp [lIir, lIirCombine, h]

/-- `iirApply`: the argument must be a map holding `initial` (1 parameter) and `filter` (3) -/
theorem misuse_iirApply (ap : Apply) (s : Str) (v : Val) :
    (NotMap v → lIirApply ap s [v] = .err) ∧
    (∀ m, v = .map m → mapGet m "filter" = none → lIirApply ap s [v] = .err) ∧
    (∀ m, v = .map m → mapGet m "initial" = none → lIirApply ap s [v] = .err) ∧
    (∀ m i f, v = .map m → mapGet m "initial" = some i → mapGet m "filter" = some f →
      (NotFn i 1 ∨ NotFn f 3) → lIirApply ap s [v] = .err) := by
  refine ⟨fun h => ?_, fun m hm hf => ?_, fun m hm hi => ?_, fun m i f hm hi hf h => ?_⟩
  · cases v <;> first | rfl | exact absurd rfl (h _)
  · subst hm; simp only [lIirApply, hf]; split <;> simp_all
  · subst hm; simp only [lIirApply, hi]
  · subst hm; unfold NotFn at h
    rcases h with h | h <;> simp [lIirApply, hi, hf, h]

/-- `cross`/`merge`: callback with two parameters, first argument a list -/
theorem misuse_cross_merge (ap : Apply) (k : Nat) (s : Str) (other f : Val) :
    (NotFn f 2 → lCross ap k s [other, f] = .err ∧ lMerge ap k s [other, f] = .err) ∧
    (NotList other → lCross ap k s [other, f] = .err ∧ lMerge ap k s [other, f] = .err) := by
  unfold NotFn
  constructor
  · intro h; simp [lCross, lMerge, h]
  · intro h
    have : argStr ap k other = none := by
      cases other <;> first | rfl | exact absurd rfl (h _)
    simp only [lCross, lMerge, this]
    constructor <;> split <;> rfl

/-- `combineN`: `n` must be an int ≥ 1, the callback a closure with one parameter -/
theorem misuse_combineN (ap : Apply) (s : Str) (n f : Val) :
    (NotInt n → lCombineN ap s [n, f] = .err) ∧
    (∀ i, n = .int i → NotFn f 1 → lCombineN ap s [n, f] = .err) ∧
    (∀ i, n = .int i → i < 1 → lCombineN ap s [n, f] = .err) := by
  refine ⟨fun h => ?_, fun i hi h => ?_, fun i hi h => ?_⟩
  · cases n <;> first | rfl | exact absurd rfl (h _)
  · subst hi; unfold NotFn at h; simp [lCombineN, h]
  · subst hi; simp only [lCombineN]; split
    · rfl
    · simp [h]

/-- `top`/`skip`/`set`: the numeric argument must be an int -/
theorem misuse_index (s : Str) (n x : Val) (h : NotInt n) :
    lTop s [n] = .err ∧ lSkip s [n] = .err ∧ lSet s [n, x] = .err := by
  cases n <;> first | exact ⟨rfl, rfl, rfl⟩ | exact absurd rfl (h _)

/-- `set` out of range -/
theorem misuse_set_range (xs : List Val) (i : Int) (x : Val) (h : i < 0 ∨ xs.length ≤ i) :
    lSet (.ofList xs) [.int i, x] = .err := by
  have hc : (i < 0 ∨ i ≥ xs.length) := by omega
  simp [lSet, liftV, setS, Str.ofList, Str.all, hc]

/-! ## empty-list reductions -/

theorem misuse_empty (ap : Apply) (k : Nat) (f : Val) :
    lReduce ap .nil [f] = .err ∧ lSum ap k .nil [] = .err ∧ lMean ap k .nil [] = .err ∧
    lMin .nil [] = .err ∧ lMax .nil [] = .err ∧ lFirst .nil [] = .err ∧ lLast .nil [] = .err ∧
    lSingle .nil [] = .err := by
  refine ⟨?_, rfl, rfl, rfl, rfl, rfl, rfl, rfl⟩
  simp only [lReduce]; split <;> rfl

/-- `single` on more than one element -/
theorem misuse_single_many (x y : Val) (rest : List Val) (t : Option Stop) :
    lSingle ⟨x :: y :: rest, t⟩ [] = .err := rfl

/-! ## wrong number of arguments -/

theorem misuse_argcount (ap : Apply) (k : Nat) (s : Str) (a b c : Val) (rest : List Val) :
    lMap ap s [] = .err ∧ lMap ap s (a :: b :: rest) = .err ∧ lReduce ap s [] = .err ∧
    lReduce ap s (a :: b :: rest) = .err ∧ lSum ap k s (a :: rest) = .err ∧ lSize s (a :: rest) = .err ∧
    lFirst s (a :: rest) = .err ∧ lTop s [] = .err ∧ lTop s (a :: b :: rest) = .err ∧
    lMapReduce ap s [a] = .err ∧ lMapReduce ap s (a :: b :: c :: rest) = .err ∧
    lSet s [a] = .err ∧ lAppend s [] = .err ∧ lReverse s (a :: rest) = .err := by
  refine ⟨rfl, rfl, rfl, rfl, rfl, rfl, rfl, rfl, ?_, rfl, rfl, ?_, rfl, rfl⟩
  · cases a <;> rfl
  · cases a <;> rfl

/-! ## callbacks returning the wrong type -/

theorem toBoolR_notBool {v : Val} (h : NotBool v) : toBoolR (.ok v) = .err := by
  cases v <;> first | rfl | exact absurd rfl (h _)

/-- `accept`, `present`, `indexWhere`: the callback must return a bool -/
theorem misuse_pred_result (ap : Apply) (f x v : Val) (xs : List Val) (t : Option Stop)
    (hx : ap f [x] = .ok v) (hv : NotBool v) :
    acceptS ap f ⟨x :: xs, t⟩ = .fail .err ∧ presentS ap f ⟨x :: xs, t⟩ = .err ∧
    indexWhereS ap f ⟨x :: xs, t⟩ = .err := by
  have h := toBoolR_notBool hv
  simp [acceptS, filterR, presentS, indexWhereS, findR, hx, h, stopOf]

/-- the failed `accept` stream is an error for every consumer of all elements -/
theorem misuse_accept_size (ap : Apply) (f x v : Val) (xs : List Val) (t : Option Stop)
    (hx : ap f [x] = .ok v) (hv : NotBool v) : sizeS (acceptS ap f ⟨x :: xs, t⟩) = .err := by
  rw [(misuse_pred_result ap f x v xs t hx hv).1]; rfl

/-- `compact`: the callback must return a bool -/
theorem misuse_compact_result (ap : Apply) (f x y v : Val) (xs : List Val) (t : Option Stop)
    (hx : ap f [x, y] = .ok v) (hv : NotBool v) : (compactS ap f ⟨x :: y :: xs, t⟩).stop = some .err := by
  have h := toBoolR_notBool hv
  simp [compactS, compactL, compactFrom, hx, h, Str.cons, Str.fail, stopOf]

/-- `merge`: the callback must return a bool -/
theorem misuse_merge_result (ap : Apply) (f a b v : Val) (as bs : List Val) (ta tb : Option Stop)
    (hx : ap f [a, b] = .ok v) (hv : NotBool v) : mergeS ap f ⟨a :: as, ta⟩ ⟨b :: bs, tb⟩ = .fail .err := by
  have h := toBoolR_notBool hv
  simp [mergeS, mergeL, hx, h, stopOf]

/-- `groupByInt`/`uniqueInt`: the callback must return an int -/
theorem misuse_groupByInt_result (ap : Apply) (k : Nat) (f x v : Val) (xs : List Val) (t : Option Stop)
    (hx : ap f [x] = .ok v) (hv : NotInt v) : groupByIntS ap k f ⟨x :: xs, t⟩ = .err := by
  have : toIntR (.ok v) = .err := by cases v <;> first | rfl | exact absurd rfl (hv _)
  simp [groupByIntS, groupR, hx, this]

/-- `movingWindow`: the callback must return a number -/
theorem misuse_movingWindow_result (ap : Apply) (f x v : Val) (xs : List Val)
    (hx : ap f [x] = .ok v) (hv : NotNum v) : movingWindowS ap f (.ofList (x :: xs)) = .err := by
  unfold NotNum at hv
  simp [movingWindowS, Str.ofList, Str.all, floatsR, call1, hx, hv]

/-- `movingWindowRemove`: the callback must return a bool -/
theorem misuse_movingWindowRemove_result (ap : Apply) (f x y v : Val) (xs : List Val)
    (hx : ap f [listV [x, y]] = .ok v) (hv : NotBool v) :
    movingWindowRemoveS ap f (.ofList (x :: y :: xs)) = .err := by
  have h := toBoolR_notBool hv
  simp [movingWindowRemoveS, Str.ofList, Str.all, movingRemoveL, shrinkR, hx, h]

/-- `orderLess`: the callback must return a bool (lists with at least two elements) -/
theorem misuse_orderLess_result (ap : Apply) (f x y v : Val)
    (hx : ap f [y, x] = .ok v) (hv : NotBool v) : orderLessS ap f (.ofList [x, y]) = .err := by
  have h := toBoolR_notBool hv
  simp [orderLessS, Str.ofList, Str.all, isortR, insertR, hx, h]

/-- a failing callback fails `map` at that element; every consumer of all elements gets the error -/
theorem misuse_callback_error (ap : Apply) (f x : Val) (xs : List Val) (t : Option Stop)
    (hx : ap f [x] = .err) :
    mapS ap f ⟨x :: xs, t⟩ = .fail .err ∧ sizeS (mapS ap f ⟨x :: xs, t⟩) = .err ∧
    reduceS ap f (mapS ap f ⟨x :: xs, t⟩) = .err := by
  have : mapS ap f ⟨x :: xs, t⟩ = .fail .err := by simp [mapS, mapR, call1, hx, stopOf]
  rw [this]; exact ⟨rfl, rfl, rfl⟩

/-! ## map, string and static functions -/

theorem misuse_map_methods (ap : Apply) (kvs : KVs) (a v : Val) :
    (NotString a → mGetS kvs [a] = .err ∧ mPutS kvs [a, v] = .err ∧ mIsAvailS kvs [a] = .err) ∧
    (∀ key, a = .str key → mapGet kvs key = none → mGetS kvs [a] = .err) ∧
    (∀ key, a = .str key → (mapGet kvs key).isSome → mPutS kvs [a, v] = .err) ∧
    (NotFn a 2 → mMapS ap kvs [a] = .err ∧ mAcceptS ap kvs [a] = .err) ∧
    (NotFn a 1 → mReplaceS ap kvs [a] = .err ∧ mReplaceMapS ap kvs [a] = .err) ∧
    (NotFn v 2 → mCombineS ap kvs [a, v] = .err) ∧
    (NotMap a → mCombineS ap kvs [a, v] = .err) := by
  unfold NotFn
  refine ⟨fun h => ?_, fun key hk hg => ?_, fun key hk hg => ?_, fun h => ?_, fun h => ?_, fun h => ?_, fun h => ?_⟩
  · cases a <;> first | exact ⟨rfl, rfl, rfl⟩ | exact absurd rfl (h _)
  · subst hk; simp [mGetS, hg, R.ofOption, liftV]
  · subst hk; simp [mPutS, hg]
  · simp [mMapS, mAcceptS, h]
  · simp [mReplaceS, mReplaceMapS, h]
  · simp [mCombineS, h]
  · simp only [mCombineS]; split
    · rfl
    · cases a <;> first | rfl | exact absurd rfl (h _)

/-- `m.replace(f)`: the callback must return a map -/
theorem misuse_replace_result (ap : Apply) (kvs : KVs) (f v : Val) (hf : isClosN f 1 = true)
    (hx : ap f [.map kvs] = .ok v) (hv : NotMap v) : mReplaceS ap kvs [f] = .err := by
  simp only [mReplaceS, hf, Bool.not_true, Bool.false_eq_true, if_false, hx, liftV, R.bind_ok]
  cases v <;> first | rfl | exact absurd rfl (hv _)

/-- `m.combine(other, f)`: every key must be in the other map -/
theorem misuse_combine_missing (ap : Apply) (f : Val) (other : KVs) (key : String) (v : Val) (rest : KVs)
    (h : mapGet other key = none) : mapCombineS ap f other ((key, v) :: rest) = .err := by
  simp [mapCombineS, h]

theorem misuse_string_methods (cs : List Char) (a b : Val) :
    (NotString a → sContains cs [a] = .err ∧ sIndexOf cs [a] = .err ∧ sSplit cs [a] = .err ∧
      sReplace cs [a, b] = .err ∧ sReplace cs [b, a] = .err) ∧
    (NotInt a → sCut cs [a, b] = .err ∧ sCut cs [b, a] = .err) ∧
    (atoiS cs = none → sToInt cs [] = .err) := by
  refine ⟨fun h => ?_, fun h => ?_, fun h => by simp [sToInt, h]⟩
  · cases a <;> first | exact absurd rfl (h _) | (refine ⟨rfl, rfl, rfl, rfl, ?_⟩ <;> cases b <;> rfl)
  · cases a <;> first | exact absurd rfl (h _) | (refine ⟨rfl, ?_⟩ <;> cases b <;> rfl)

/-- `toInt` of texts that are not decimal integers -/
theorem misuse_toInt_examples :
    atoiS "".toList = none ∧ atoiS "12a".toList = none ∧ atoiS "+".toList = none ∧ atoiS " 1".toList = none ∧
    atoiS "9223372036854775808".toList = none ∧ atoiS "-9223372036854775808".toList = some (-9223372036854775808) := by
  decide

theorem misuse_statics (v w : Val) :
    (NotNum v → fFloat [v] = .err ∧ fInt [v] = .err ∧ fAbs [v] = .err ∧ fSign [v] = .err ∧ fSqr [v] = .err ∧
      fRound [v] = .err ∧ fSqrt [v] = .err ∧ fFloor [v] = .err ∧ fCeil [v] = .err ∧ fTrunc [v] = .err) ∧
    (NotInt v → fNumbers [v] = .err ∧ fGoto [v] = .err ∧ fBinAnd [v, w] = .err ∧ fBinOr [v, w] = .err ∧
      fBinAnd [w, v] = .err ∧ fBinOr [w, v] = .err) ∧
    fThrow [v] = .err := by
  refine ⟨fun h => ?_, fun h => ?_, rfl⟩
  · unfold NotNum at h
    cases v <;> simp [toFloat?] at h <;>
      simp [fFloat, fInt, fAbs, fSign, fSqr, fRound, fSqrt, fFloor, fCeil, fTrunc, toFloat?]
  · cases v <;> first | exact absurd rfl (h _) | (refine ⟨rfl, rfl, rfl, rfl, ?_, ?_⟩ <;> cases w <;> rfl)

/-- `min`/`max` of incomparable values -/
theorem misuse_minmax (v w : Val) (h : valLess w v = .err) (h' : valLess v w = .err) :
    fMin [v, w] = .err ∧ fMax [v, w] = .err := by
  simp [fMin, fMax, pickR, h, h', liftV]

end P2.LibSpec
