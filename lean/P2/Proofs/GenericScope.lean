import P2.Proofs.GenericChain
/-! `Generate` accepts every well-scoped program, with the optimizer on and off alike: a syntactic
condition on the **source** expression (`WS`) under which `GenerateFunc` succeeds on the front end's
output.  Together with `chain_correct` this removes the "whenever Generate accepts" hypothesis. -/
namespace P2.Generic
variable {V : Type}

/-- what `GenerateFunc` checks, as a predicate on the tree it is given -/
def GenOK (t : Table V) : E V → Names → Prop
  | .const _, _ => True
  | .var x, am => (idx am x).isSome = true
  | .un _ a, am => GenOK t a am
  | .op _ a b, am => GenOK t a am ∧ GenOK t b am
  | .call f a, am => (t.fn f).isSome = true ∧ GenOK t a am
  | .letE x v b, am => GenOK t v am ∧ x ≠ "" ∧ idx am x = none ∧ GenOK t b (am ++ [x])
  | .ite c th el, am => t.toBool.isSome = true ∧ GenOK t c am ∧ GenOK t th am ∧ GenOK t el am

theorem gen_some_of_GenOK (t : Table V) : ∀ (e : E V) (am : Names), GenOK t e am → ∃ c, gen t e am = some c
  | .const v, _, _ => ⟨_, rfl⟩
  | .var x, am, h => by
    simp only [GenOK] at h
    cases hi : idx am x with
    | none => simp [hi] at h
    | some i => exact ⟨.stk i, by simp [gen, hi]⟩
  | .un o a, am, h => by
    obtain ⟨ca, hca⟩ := gen_some_of_GenOK t a am h
    exact ⟨.un o ca, by simp [gen, hca]⟩
  | .op o a b, am, h => by
    obtain ⟨ca, hca⟩ := gen_some_of_GenOK t a am h.1
    obtain ⟨cb, hcb⟩ := gen_some_of_GenOK t b am h.2
    exact ⟨.op o ca cb, by simp [gen, hca, hcb]⟩
  | .call f a, am, h => by
    obtain ⟨ca, hca⟩ := gen_some_of_GenOK t a am h.2
    cases hf : t.fn f with
    | none => have := h.1; simp [hf] at this
    | some g => exact ⟨.call f ca, by simp [gen, hf, hca]⟩
  | .letE x v b, am, h => by
    obtain ⟨hv, hne, hfr, hb⟩ := h
    obtain ⟨cv, hcv⟩ := gen_some_of_GenOK t v am hv
    obtain ⟨cb, hcb⟩ := gen_some_of_GenOK t b _ hb
    exact ⟨.letE cv cb, by simp [gen, hcv, hcb, hne, hfr]⟩
  | .ite c th el, am, h => by
    obtain ⟨htb, hc, ht, he⟩ := h
    obtain ⟨cc, hcc⟩ := gen_some_of_GenOK t c am hc
    obtain ⟨ct, hct⟩ := gen_some_of_GenOK t th am ht
    obtain ⟨ce, hce⟩ := gen_some_of_GenOK t el am he
    cases hb : t.toBool with
    | none => simp [hb] at htb
    | some tb => exact ⟨.ite cc ct ce, by simp [gen, hb, hcc, hct, hce]⟩

/-- the optimizer never turns an acceptable tree into an unacceptable one -/
theorem GenOK_rule (t : Table V) (e : E V) (am : Names) (h : GenOK t e am) : GenOK t (rule t e) am := by
  unfold rule
  split
  · split
    · split
      · split
        · simp [GenOK]
        · exact h
      · exact h
    · split
      · split
        · simp only [GenOK] at h ⊢; exact ⟨trivial, h.1.2⟩
        · exact h
      · exact h
    · split
      · split
        · simp only [GenOK] at h ⊢; exact ⟨h.1.1, trivial⟩
        · exact h
      · exact h
    · exact h
  · split
    · simp [GenOK]
    · exact h
  · split
    · exact h
    · split
      · simp only [GenOK] at h; exact h.2.2.1
      · simp only [GenOK] at h; exact h.2.2.2
      · exact h
  · split
    · split
      · split
        · simp [GenOK]
        · exact h
      · exact h
    · exact h
  · exact h

theorem GenOK_optimize (t : Table V) : ∀ (e : E V) (am : Names), GenOK t e am → GenOK t (optimize t e) am
  | .const _, _, h => h
  | .var _, _, h => h
  | .un o a, am, h => by
    simp only [optimize]; apply GenOK_rule
    simp only [GenOK] at h ⊢; exact GenOK_optimize t a am h
  | .op o a b, am, h => by
    simp only [optimize]; apply GenOK_rule
    simp only [GenOK] at h ⊢; exact ⟨GenOK_optimize t a am h.1, GenOK_optimize t b am h.2⟩
  | .call f a, am, h => by
    simp only [optimize]; apply GenOK_rule
    simp only [GenOK] at h ⊢; exact ⟨h.1, GenOK_optimize t a am h.2⟩
  | .letE x v b, am, h => by
    simp only [optimize]; apply GenOK_rule
    simp only [GenOK] at h ⊢; exact ⟨h.1, h.2.1, h.2.2.1, GenOK_optimize t b _ h.2.2.2⟩
  | .ite c th el, am, h => by
    simp only [optimize]; apply GenOK_rule
    simp only [GenOK] at h ⊢
    exact ⟨h.1, GenOK_optimize t c am h.2.1, GenOK_optimize t th am h.2.2.1, GenOK_optimize t el am h.2.2.2⟩

theorem GenOK_optimizeIf (t : Table V) (on : Bool) (e : E V) (am : Names) (h : GenOK t e am) :
    GenOK t (optimizeIf t on e) am := by
  unfold optimizeIf; split
  · exact GenOK_optimize t e am h
  · exact h

/-- Well-scoped source programs: every identifier is visible (a constant, an argument or an enclosing
`let`), `let` introduces a fresh non-empty name, called functions are registered, `if` needs `toBool`.
`vis` is the set of visible names. -/
def WS (t : Table V) : E V → (String → Bool) → Prop
  | .const _, _ => True
  | .var x, vis => vis x = true
  | .un _ a, vis => WS t a vis
  | .op _ a b, vis => WS t a vis ∧ WS t b vis
  | .call f a, vis => (t.fn f).isSome = true ∧ WS t a vis
  | .letE x v b, vis => WS t v vis ∧ x ≠ "" ∧ vis x = false ∧ WS t b (fun y => y == x || vis y)
  | .ite c th el, vis => t.toBool.isSome = true ∧ WS t c vis ∧ WS t th vis ∧ WS t el vis

/-- the visible names are exactly the parser's constants and the generator's stack slots -/
def ScopeInv (cs : Consts V) (am : Names) (vis : String → Bool) : Prop :=
  ∀ y, vis y = true ↔ ((cs y).isSome = true ∨ (idx am y).isSome = true)

theorem ScopeInv.const {cs : Consts V} {am : Names} {vis : String → Bool} (h : ScopeInv cs am vis)
    (x : String) (c : V) : ScopeInv (cs.set x c) am (fun y => y == x || vis y) := by
  intro y
  by_cases hy : y = x
  · simp [hy, Consts.set]
  · simp [hy, Consts.set, h y]

theorem ScopeInv.slot {cs : Consts V} {am : Names} {vis : String → Bool} (h : ScopeInv cs am vis)
    (x : String) (hfr : idx am x = none) : ScopeInv (cs.erase x) (am ++ [x]) (fun y => y == x || vis y) := by
  intro y
  rw [idx_append]
  by_cases hy : y = x
  · subst hy; simp [Consts.erase, hfr]
  · have hy' : ¬ x = y := fun e => hy e.symm
    have hv := h y
    cases hiy : idx am y with
    | none => simp [hy, hy', Consts.erase, hiy] at hv ⊢; exact hv
    | some j => simp [hy, Consts.erase, hiy] at hv ⊢; exact hv

theorem GenOK_resolve (t : Table V) (on : Bool) : ∀ (e : E V) (cs : Consts V) (am : Names)
    (vis : String → Bool), WS t e vis → ScopeInv cs am vis → GenOK t (resolve t on cs e) am
  | .const _, _, _, _, _, _ => trivial
  | .var x, cs, am, vis, h, hi => by
    simp only [resolve]
    cases hc : cs x with
    | some v => trivial
    | none =>
      simp only [WS] at h
      have := (hi x).mp h
      simpa [GenOK, hc] using this
  | .un o a, cs, am, vis, h, hi => by
    simp only [resolve, GenOK]; exact GenOK_resolve t on a cs am vis h hi
  | .op o a b, cs, am, vis, h, hi => by
    simp only [resolve, GenOK]
    exact ⟨GenOK_resolve t on a cs am vis h.1 hi, GenOK_resolve t on b cs am vis h.2 hi⟩
  | .call f a, cs, am, vis, h, hi => by
    simp only [resolve, GenOK]
    exact ⟨h.1, GenOK_resolve t on a cs am vis h.2 hi⟩
  | .ite c th el, cs, am, vis, h, hi => by
    simp only [resolve, GenOK]
    exact ⟨h.1, GenOK_resolve t on c cs am vis h.2.1 hi, GenOK_resolve t on th cs am vis h.2.2.1 hi,
      GenOK_resolve t on el cs am vis h.2.2.2 hi⟩
  | .letE x v b, cs, am, vis, h, hi => by
    obtain ⟨hv, hne, hfresh, hb⟩ := h
    have hv' : GenOK t (optimizeIf t on (resolve t on cs v)) am :=
      GenOK_optimizeIf t on _ am (GenOK_resolve t on v cs am vis hv hi)
    have hfr : idx am x = none := by
      cases hix : idx am x with
      | none => rfl
      | some j =>
        have := (hi x).mpr (Or.inr (by simp [hix]))
        simp [hfresh] at this
    simp only [resolve]
    split
    · exact GenOK_resolve t on b _ am _ hb (hi.const x _)
    · simp only [GenOK]
      exact ⟨hv', hne, hfr, GenOK_resolve t on b _ _ _ hb (hi.slot x hfr)⟩

/-- `Generate` accepts every well-scoped program — optimizer on or off -/
theorem frontend_generates (t : Table V) (on : Bool) (cs : Consts V) (e : E V) (args : List String)
    (vis : String → Bool) (hws : WS t e vis) (hi : ScopeInv cs args vis) :
    ∃ c, gen t (frontend t on cs e) args = some c :=
  gen_some_of_GenOK t _ _ (GenOK_optimizeIf t on _ _ (GenOK_resolve t on e cs args vis hws hi))

/-- the composed statement without the acceptance hypothesis -/
theorem chain_correct_ws (t : Table V) (on : Bool) (hl : on = true → Laws t) (cs : Consts V) (e : E V)
    (args : List String) (vals : List V) (vis : String → Bool) (hws : WS t e vis)
    (hi : ScopeInv cs args vis) (hlen : args.length = vals.length)
    (hd : vals.length + depth e ≤ stackLimit + 1) :
    chain t on cs e args vals = Outcome.ofOption (eval t e (overlay cs (envOf args vals))) := by
  obtain ⟨c, hg⟩ := frontend_generates t on cs e args vis hws hi
  exact chain_correct t on hl cs e args vals c hg hlen hd

end P2.Generic
