import P2.Proofs.HtmlExport
/-! `no_injection` for the XML exporter: the element/attribute skeleton of the exported document is a
function of the *shape* of the value — list lengths, nesting, and which maps are written in the attribute
form (there, by design, the keys accepted by the key rule are the attribute names). Strings, keys of all
other maps, link targets, styles and file names do not occur in the shape. -/
namespace P2.Xml

inductive XShape where
  | leaf
  | list (items : List XShape)
  | mapAttrs (keys : List (List Char))
  | mapEntries (vals : List XShape)
  deriving Repr, Inhabited

mutual
def xshape (keyOK : List Char → Bool) : V → XShape
  | .str _ => .leaf
  | .flt _ _ => .leaf
  | .file _ _ _ _ _ => .leaf
  | .fmt _ _ _ v => xshape keyOK v
  | .fmtCl _ _ _ v => xshape keyOK v
  | .link _ v => xshape keyOK v
  | .arr l => .list (xshapes keyOK l)
  | .obj kvs =>
    match simpleAttrs keyOK kvs with
    | some as => .mapAttrs (as.map (·.1))
    | none => .mapEntries (xshapeKVs keyOK kvs)
def xshapes (keyOK : List Char → Bool) : List V → List XShape
  | [] => []
  | v :: vs => xshape keyOK v :: xshapes keyOK vs
def xshapeKVs (keyOK : List Char → Bool) : List (List Char × V) → List XShape
  | [] => []
  | (_, v) :: rest => xshape keyOK v :: xshapeKVs keyOK rest
end

mutual
/-- the skeleton (start/end tags with attribute names) that a shape dictates -/
def skelShape : XShape → List (Bool × List Char × List (List Char))
  | .leaf => []
  | .list items => (true, tList, []) :: (skelItems items ++ [(false, tList, [])])
  | .mapAttrs keys => [(true, tMap, keys), (false, tMap, [])]
  | .mapEntries vals => (true, tMap, []) :: (skelEntries vals ++ [(false, tMap, [])])
def skelItems : List XShape → List (Bool × List Char × List (List Char))
  | [] => []
  | x :: xs => (true, tEntry, []) :: (skelShape x ++ ((false, tEntry, []) :: skelItems xs))
def skelEntries : List XShape → List (Bool × List Char × List (List Char))
  | [] => []
  | x :: xs => (true, tEntry, [tKey]) :: (skelShape x ++ ((false, tEntry, []) :: skelEntries xs))
end

mutual
theorem skel_xmlNodes (keyOK : List Char → Bool) : ∀ v : V,
    skelNodes (xmlNodes keyOK v) = skelShape (xshape keyOK v)
  | .str s => by simp [xmlNodes, skelNodes, skelNode, xshape, skelShape]
  | .flt a b => by simp [xmlNodes, skelNodes, skelNode, xshape, skelShape]
  | .file n m b size ss => by simp [xmlNodes, skelNodes, skelNode, xshape, skelShape]
  | .fmt sty c n v => by simp only [xmlNodes, xshape]; exact skel_xmlNodes keyOK v
  | .fmtCl r c n v => by simp only [xmlNodes, xshape]; exact skel_xmlNodes keyOK v
  | .link h v => by simp only [xmlNodes, xshape]; exact skel_xmlNodes keyOK v
  | .arr l => by
    simp only [xmlNodes, xshape, skelNodes, skelNode, skelShape, List.map_nil, List.append_nil,
      skel_xmlItemNodes keyOK l]
  | .obj kvs => by
    simp only [xmlNodes, xshape]
    cases simpleAttrs keyOK kvs with
    | some as => simp [skelNodes, skelNode, skelShape]
    | none =>
      simp only [skelNodes, skelNode, skelShape, List.map_nil, List.append_nil, skel_xmlEntryNodes keyOK kvs]
theorem skel_xmlItemNodes (keyOK : List Char → Bool) : ∀ l : List V,
    skelNodes (xmlItemNodes keyOK l) = skelItems (xshapes keyOK l)
  | [] => by simp [xmlItemNodes, skelNodes, xshapes, skelItems]
  | v :: vs => by
    simp only [xmlItemNodes, skelNodes, skelNode, xshapes, skelItems, List.map_nil, skel_xmlNodes keyOK v,
      skel_xmlItemNodes keyOK vs, List.cons_append, List.append_assoc, List.nil_append]
theorem skel_xmlEntryNodes (keyOK : List Char → Bool) : ∀ l : List (List Char × V),
    skelNodes (xmlEntryNodes keyOK l) = skelEntries (xshapeKVs keyOK l)
  | [] => by simp [xmlEntryNodes, skelNodes, xshapeKVs, skelEntries]
  | (k, v) :: rest => by
    simp only [xmlEntryNodes, skelNodes, skelNode, xshapeKVs, skelEntries, List.map_cons, List.map_nil,
      skel_xmlNodes keyOK v, skel_xmlEntryNodes keyOK rest, List.cons_append, List.append_assoc, List.nil_append]
end

/-- a list or a map, possibly behind `Format`/`Link` wrappers -/
def isContainerV : V → Bool
  | .arr _ => true
  | .obj _ => true
  | .fmt _ _ _ v => isContainerV v
  | .fmtCl _ _ _ v => isContainerV v
  | .link _ v => isContainerV v
  | _ => false

theorem isContainerV_sortV : ∀ v : V, isContainerV (sortV v) = isContainerV v
  | .str _ => rfl
  | .flt _ _ => rfl
  | .file _ _ _ _ _ => rfl
  | .arr _ => by simp [sortV, isContainerV]
  | .obj _ => by simp [sortV, isContainerV]
  | .fmt _ _ _ v => by simp only [sortV, isContainerV]; exact isContainerV_sortV v
  | .fmtCl _ _ _ v => by simp only [sortV, isContainerV]; exact isContainerV_sortV v
  | .link _ v => by simp only [sortV, isContainerV]; exact isContainerV_sortV v

theorem xmlNodes_root (keyOK : List Char → Bool) : ∀ v : V, isContainerV v = true →
    ∃ n as kids, xmlNodes keyOK v = [.elem n as kids]
  | .str _, h => by simp [isContainerV] at h
  | .flt _ _, h => by simp [isContainerV] at h
  | .file _ _ _ _ _, h => by simp [isContainerV] at h
  | .arr l, _ => ⟨tList, [], xmlItemNodes keyOK l, by simp only [xmlNodes]⟩
  | .obj kvs, _ => by
    simp only [xmlNodes]
    cases simpleAttrs keyOK kvs with
    | some as => exact ⟨_, _, _, rfl⟩
    | none => exact ⟨_, _, _, rfl⟩
  | .fmt _ _ _ v, h => by simp only [xmlNodes]; exact xmlNodes_root keyOK v (by simpa [isContainerV] using h)
  | .fmtCl _ _ _ v, h => by simp only [xmlNodes]; exact xmlNodes_root keyOK v (by simpa [isContainerV] using h)
  | .link _ v, h => by simp only [xmlNodes]; exact xmlNodes_root keyOK v (by simpa [isContainerV] using h)

end P2.Xml
