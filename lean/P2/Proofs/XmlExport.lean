import P2.Proofs.XmlNodes
/-! The XML exporter (C18.2): its call sequence is the flattening of the forest `xmlNodes`, that forest
follows the writer's protocol for every value with legal strings and distinct keys, hence (with
`writer_faithful`) the exported bytes decode to `layout (xmlNodes v)`. -/
namespace P2.Xml

/-! ### the call sequence is the flattening of the specified forest -/

theorem flattenL_append (a b : List Node) : flattenL (a ++ b) = flattenL a ++ flattenL b := by
  induction a with
  | nil => simp [flattenL]
  | cons k ks ih => simp [flattenL, ih, List.append_assoc]

mutual
theorem xmlCalls_eq (keyOK : List Char → Bool) : ∀ v : V, xmlCalls keyOK v = flattenL (xmlNodes keyOK v)
  | .str s => by simp [xmlCalls, xmlNodes, flattenL, flatten]
  | .flt sx sh => by simp [xmlCalls, xmlNodes, flattenL, flatten]
  | .file n m b size ss => by simp [xmlCalls, xmlNodes, flattenL, flatten]
  | .fmt sty c n v => by simp only [xmlCalls, xmlNodes]; exact xmlCalls_eq keyOK v
  | .fmtCl r c n v => by simp only [xmlCalls, xmlNodes]; exact xmlCalls_eq keyOK v
  | .link h v => by simp only [xmlCalls, xmlNodes]; exact xmlCalls_eq keyOK v
  | .arr l => by
    simp only [xmlCalls, xmlNodes, flattenL, flatten, attrCalls, List.nil_append, List.append_nil,
      xmlItems_eq keyOK l]
  | .obj kvs => by
    simp only [xmlCalls, xmlNodes]
    cases simpleAttrs keyOK kvs with
    | some as => simp [flattenL, flatten]
    | none =>
      simp only [flattenL, flatten, attrCalls, List.nil_append, List.append_nil, xmlEntries_eq keyOK kvs]
theorem xmlItems_eq (keyOK : List Char → Bool) : ∀ l : List V, xmlItems keyOK l = flattenL (xmlItemNodes keyOK l)
  | [] => by simp [xmlItems, xmlItemNodes, flattenL]
  | v :: vs => by
    simp only [xmlItems, xmlItemNodes, flattenL, flatten, attrCalls, List.nil_append, xmlCalls_eq keyOK v,
      xmlItems_eq keyOK vs, List.cons_append, List.append_assoc]
theorem xmlEntries_eq (keyOK : List Char → Bool) :
    ∀ l : List (List Char × V), xmlEntries keyOK l = flattenL (xmlEntryNodes keyOK l)
  | [] => by simp [xmlEntries, xmlEntryNodes, flattenL]
  | (k, v) :: rest => by
    simp only [xmlEntries, xmlEntryNodes, flattenL, flatten, attrCalls, List.nil_append, xmlCalls_eq keyOK v,
      xmlEntries_eq keyOK rest, List.cons_append, List.append_assoc]
end

/-! ### hypotheses on the value: legal characters, distinct keys -/

def allLegal (s : List Char) : Bool := s.all isXmlChar

def legalSV : SV → Bool
  | .s v => allLegal v
  | .o => true

def legalSty : Sty → Bool
  | .str s => allLegal s
  | .map kvs => kvs.all (fun kv => allLegal kv.1 && legalSV kv.2)
  | _ => true

mutual
/-- every string, key, style, link target and file name of the value consists of legal XML characters -/
def legalV : V → Bool
  | .str s => allLegal s
  | .flt sx sh => allLegal sx && allLegal sh
  | .arr l => legalVs l
  | .obj kvs => legalKVs kvs
  | .fmt sty _ _ v => legalSty sty && legalV v
  | .fmtCl res _ _ v => legalOpt res && legalV v
  | .link h v => allLegal h && legalV v
  | .file n m b _ ss => allLegal n && allLegal m && allLegal b && allLegal ss
def legalVs : List V → Bool
  | [] => true
  | v :: vs => legalV v && legalVs vs
def legalKVs : List (List Char × V) → Bool
  | [] => true
  | (k, v) :: rest => allLegal k && legalV v && legalKVs rest
def legalOpt : Option V → Bool
  | none => true
  | some v => legalV v
end

def keysDistinct : List (List Char × V) → Bool
  | [] => true
  | (k, _) :: rest => !(rest.any (fun kv => kv.1 == k)) && keysDistinct rest

mutual
/-- the keys of every map are pairwise different (true of every real map) -/
def distinctV : V → Bool
  | .arr l => distinctVs l
  | .obj kvs => keysDistinct kvs && distinctKVs kvs
  | .fmt _ _ _ v => distinctV v
  | .fmtCl res _ _ v => distinctOpt res && distinctV v
  | .link _ v => distinctV v
  | _ => true
def distinctVs : List V → Bool
  | [] => true
  | v :: vs => distinctV v && distinctVs vs
def distinctKVs : List (List Char × V) → Bool
  | [] => true
  | (_, v) :: rest => distinctV v && distinctKVs rest
def distinctOpt : Option V → Bool
  | none => true
  | some v => distinctV v
end

/-! ### digits -/

theorem digitChar_legal (n : Nat) : isXmlChar (digitChar n) = true := by
  have h : n % 10 < 10 := Nat.mod_lt _ (by decide)
  unfold digitChar
  generalize n % 10 = m at h
  have : m = 0 ∨ m = 1 ∨ m = 2 ∨ m = 3 ∨ m = 4 ∨ m = 5 ∨ m = 6 ∨ m = 7 ∨ m = 8 ∨ m = 9 := by omega
  rcases this with h | h | h | h | h | h | h | h | h | h <;> subst h <;> decide

theorem natStrAux_legal (f n : Nat) (acc : List Char) (h : allLegal acc = true) :
    allLegal (natStrAux f n acc) = true := by
  induction f generalizing n acc with
  | zero => simpa [natStrAux] using h
  | succ f ih =>
    simp only [natStrAux]
    have h' : allLegal (digitChar n :: acc) = true := by
      simp only [allLegal, List.all_cons, Bool.and_eq_true] at h ⊢
      exact ⟨digitChar_legal n, h⟩
    split
    · exact h'
    · exact ih _ _ h'

theorem natStr_legal (n : Nat) : allLegal (natStr n) = true :=
  natStrAux_legal _ _ _ (by simp [allLegal])

theorem allLegal_append (a b : List Char) : allLegal (a ++ b) = (allLegal a && allLegal b) := by
  simp [allLegal, List.all_append]

theorem fileStr_legal (n : List Char) (size : Nat) (h : allLegal n = true) : allLegal (fileStr n size) = true := by
  simp only [fileStr, allLegal_append, h, natStr_legal, Bool.and_true]
  decide

/-! ### the forest follows the protocol -/

theorem scalarStr_legal : ∀ (v : V) (s : List Char), scalarStr v = some s → legalV v = true → allLegal s = true
  | .str s', s, h, hl => by simp only [scalarStr, Option.some.injEq] at h; subst h; simpa [legalV] using hl
  | .flt sx sh, s, h, hl => by
    simp only [scalarStr, Option.some.injEq] at h; subst h
    simp only [legalV, Bool.and_eq_true] at hl; exact hl.1
  | .file n m b size ss, s, h, hl => by
    simp only [scalarStr, Option.some.injEq] at h; subst h
    simp only [legalV, Bool.and_eq_true] at hl
    exact fileStr_legal n size hl.1.1.1
  | .fmt sty c n v, s, h, hl => by
    simp only [scalarStr] at h
    simp only [legalV, Bool.and_eq_true] at hl
    exact scalarStr_legal v s h hl.2
  | .fmtCl r c n v, s, h, hl => by
    simp only [scalarStr] at h
    simp only [legalV, Bool.and_eq_true] at hl
    exact scalarStr_legal v s h hl.2
  | .link hr v, s, h, hl => by
    simp only [scalarStr] at h
    simp only [legalV, Bool.and_eq_true] at hl
    exact scalarStr_legal v s h hl.2
  | .arr l, s, h, _ => by simp [scalarStr] at h
  | .obj kvs, s, h, _ => by simp [scalarStr] at h

theorem simpleStr_legal (v : V) (s : List Char) (h : simpleStr v = some s) (hl : legalV v = true) :
    allLegal s = true := by
  cases v with
  | fmt sty c n v => simp [simpleStr] at h
  | fmtCl r c n v => simp [simpleStr] at h
  | str s' => exact scalarStr_legal _ s (by simpa [simpleStr] using h) hl
  | flt a b => exact scalarStr_legal _ s (by simpa [simpleStr] using h) hl
  | arr l => exact scalarStr_legal _ s (by simpa [simpleStr] using h) hl
  | obj kvs => exact scalarStr_legal _ s (by simpa [simpleStr] using h) hl
  | link hr v => exact scalarStr_legal _ s (by simpa [simpleStr] using h) hl
  | file n m b size ss => exact scalarStr_legal _ s (by simpa [simpleStr] using h) hl

/-- the attribute form: names are the keys (accepted by `keyOK`), values the scalar strings -/
theorem simpleAttrs_ok (keyOK : List Char → Bool) (hkey : ∀ k, keyOK k = true → isXmlName k = true) :
    ∀ (kvs : List (List Char × V)) (as : Attrs), simpleAttrs keyOK kvs = some as →
      legalKVs kvs = true → keysDistinct kvs = true →
      as.all (fun kv => isXmlName kv.1 && kv.2.all isXmlChar) = true ∧ noDupKeys as = true ∧
        as.map (·.1) = kvs.map (·.1)
  | [], as, h, _, _ => by simp only [simpleAttrs, Option.some.injEq] at h; subst h; simp [noDupKeys]
  | (k, v) :: rest, as, h, hl, hd => by
    simp only [simpleAttrs] at h
    cases hs : simpleStr v with
    | none => simp [hs] at h
    | some s =>
      cases hr : simpleAttrs keyOK rest with
      | none => simp [hs, hr] at h
      | some as' =>
        simp only [hs, hr] at h
        split at h
        · rename_i hk
          simp only [Option.some.injEq] at h
          subst h
          simp only [legalKVs, Bool.and_eq_true] at hl
          simp only [keysDistinct, Bool.and_eq_true, Bool.not_eq_true'] at hd
          obtain ⟨i1, i2, i3⟩ := simpleAttrs_ok keyOK hkey rest as' hr hl.2 hd.2
          refine ⟨?_, ?_, ?_⟩
          · simp only [List.all_cons, Bool.and_eq_true]
            exact ⟨⟨hkey k hk, simpleStr_legal v s hs hl.1.2⟩, i1⟩
          · simp only [noDupKeys, Bool.and_eq_true, Bool.not_eq_true']
            refine ⟨?_, i2⟩
            have e : as'.any (fun kv => kv.1 == k) = (as'.map (·.1)).any (· == k) := by
              rw [List.any_map]; rfl
            have e' : rest.any (fun kv => kv.1 == k) = (rest.map (·.1)).any (· == k) := by
              rw [List.any_map]; rfl
            rw [e, i3, ← e']
            exact hd.1
          · simp [i3]
        · cases h

theorem tList_name : isXmlName tList = true := by decide
theorem tEntry_name : isXmlName tEntry = true := by decide
theorem tMap_name : isXmlName tMap = true := by decide
theorem tKey_name : isXmlName tKey = true := by decide

mutual
theorem xmlNodes_ok (keyOK : List Char → Bool) (hkey : ∀ k, keyOK k = true → isXmlName k = true) :
    ∀ v : V, legalV v = true → distinctV v = true → nodesOK (xmlNodes keyOK v) = true
  | .str s, hl, _ => by simpa [xmlNodes, nodesOK, nodeOK, legalV, allLegal] using hl
  | .flt sx sh, hl, _ => by
    simp only [legalV, Bool.and_eq_true] at hl
    simpa [xmlNodes, nodesOK, nodeOK, allLegal] using hl.1
  | .file n m b size ss, hl, _ => by
    simp only [legalV, Bool.and_eq_true] at hl
    have := fileStr_legal n size hl.1.1.1
    simpa [xmlNodes, nodesOK, nodeOK, allLegal] using this
  | .fmt sty c n v, hl, hd => by
    simp only [legalV, Bool.and_eq_true] at hl
    simp only [distinctV] at hd
    simp only [xmlNodes]; exact xmlNodes_ok keyOK hkey v hl.2 hd
  | .fmtCl r c n v, hl, hd => by
    simp only [legalV, Bool.and_eq_true] at hl
    simp only [distinctV, Bool.and_eq_true] at hd
    simp only [xmlNodes]; exact xmlNodes_ok keyOK hkey v hl.2 hd.2
  | .link h v, hl, hd => by
    simp only [legalV, Bool.and_eq_true] at hl
    simp only [distinctV] at hd
    simp only [xmlNodes]; exact xmlNodes_ok keyOK hkey v hl.2 hd
  | .arr l, hl, hd => by
    simp only [legalV] at hl
    simp only [distinctV] at hd
    simp only [xmlNodes, nodesOK, nodeOK, tList_name, attrsOK, List.all_nil, noDupKeys, Bool.and_true, Bool.true_and]
    exact xmlItemNodes_ok keyOK hkey l hl hd
  | .obj kvs, hl, hd => by
    simp only [legalV] at hl
    simp only [distinctV, Bool.and_eq_true] at hd
    simp only [xmlNodes]
    cases hs : simpleAttrs keyOK kvs with
    | some as =>
      obtain ⟨i1, i2, _⟩ := simpleAttrs_ok keyOK hkey kvs as hs hl hd.1
      simp [nodesOK, nodeOK, tMap_name, attrsOK, i1, i2]
    | none =>
      simp only [nodesOK, nodeOK, tMap_name, attrsOK, List.all_nil, noDupKeys, Bool.and_true, Bool.true_and]
      exact xmlEntryNodes_ok keyOK hkey kvs hl hd.2
theorem xmlItemNodes_ok (keyOK : List Char → Bool) (hkey : ∀ k, keyOK k = true → isXmlName k = true) :
    ∀ l : List V, legalVs l = true → distinctVs l = true → nodesOK (xmlItemNodes keyOK l) = true
  | [], _, _ => by simp [xmlItemNodes, nodesOK]
  | v :: vs, hl, hd => by
    simp only [legalVs, Bool.and_eq_true] at hl
    simp only [distinctVs, Bool.and_eq_true] at hd
    simp only [xmlItemNodes, nodesOK, nodeOK, tEntry_name, attrsOK, List.all_nil, noDupKeys, Bool.and_true,
      Bool.true_and, Bool.and_eq_true]
    exact ⟨xmlNodes_ok keyOK hkey v hl.1 hd.1, xmlItemNodes_ok keyOK hkey vs hl.2 hd.2⟩
theorem xmlEntryNodes_ok (keyOK : List Char → Bool) (hkey : ∀ k, keyOK k = true → isXmlName k = true) :
    ∀ l : List (List Char × V), legalKVs l = true → distinctKVs l = true → nodesOK (xmlEntryNodes keyOK l) = true
  | [], _, _ => by simp [xmlEntryNodes, nodesOK]
  | (k, v) :: rest, hl, hd => by
    simp only [legalKVs, Bool.and_eq_true] at hl
    simp only [distinctKVs, Bool.and_eq_true] at hd
    have hk : k.all isXmlChar = true := hl.1.1
    simp only [xmlEntryNodes, nodesOK, nodeOK, tEntry_name, attrsOK, List.all_cons, List.all_nil, tKey_name, hk,
      noDupKeys, List.any_nil, Bool.not_false, Bool.and_true, Bool.true_and, Bool.and_eq_true]
    exact ⟨xmlNodes_ok keyOK hkey v hl.1.2 hd.1, xmlEntryNodes_ok keyOK hkey rest hl.2 hd.2⟩
end

/-! ### from a forest to the decoded bytes -/

theorem sim_init (w : W) (hw : w.stack = [] ∧ w.depth = -1 ∧ w.inLine = false ∧ w.tagIsOpen = false) :
    Sim w.prettyPrint w.avoidShort w TS.init :=
  ⟨hw.2.1, hw.2.2.1, hw.1, hw.2.2.2, rfl, rfl⟩

theorem ninv_init : NInv TS.init := ⟨by simp [TS.init], by simp [TS.init]⟩

/-- **writer_faithful**, forest form: a fresh writer (any flags, any bytes already in its buffer) run over
the calls of a forest that satisfies `nodesOK` does not panic; the bytes it appends are accepted by the
reference decoder and decode to exactly `layout` of the forest — every text and attribute value the very
string that was passed — and the token stream is balanced with valid names and unique attributes. -/
theorem forest_faithful {et ea : Char → List Char} (ht : TextEscOK et) (ha : AttrEscOK ea) (w : W)
    (hw : w.stack = [] ∧ w.depth = -1 ∧ w.inLine = false ∧ w.tagIsOpen = false)
    (ns : List Node) (hns : nodesOK ns = true) :
    ∃ w' x, W.run et ea w (flattenL ns) = .ok w' ∧ w'.out = w.out ++ x ∧
      tokens x = some (layout w.prettyPrint ns) ∧ wellFormed (layout w.prettyPrint ns) = true := by
  obtain ⟨il, hrun⟩ := run_forest (pp := w.prettyPrint) (av := w.avoidShort) ns hns
  obtain ⟨w', hw', ⟨_, _, x, hx, hg⟩, _, hb⟩ :=
    run_sim ht ha (flattenL ns) (sim_init w hw) (inv_of_none rfl) ninv_init hrun
  refine ⟨w', x, hw', hx, ?_, ?_⟩
  · have h1 : modeOf TS.init = .text false := rfl
    have h2 : modeOf ⟨[], none, -1, il⟩ = .text false := rfl
    rw [h1, h2] at hg
    have hf : feed (.text false) x = some (.text false, layout w.prettyPrint ns) := hg
    simp [tokens, hf]
  · have : balance (layout w.prettyPrint ns) [] = some [] := by simpa [opened, TS.init] using hb
    simp [wellFormed, this]

end P2.Xml
