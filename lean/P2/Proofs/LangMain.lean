import P2.Proofs.LangFrame
import P2.Proofs.LangLib
/-! # C01: the simulation — compiled evaluation refines the reference semantics

Induction on the fuel; the statements for expressions, argument lists, list / map literals, switch
cases and closure application are conjoined in `IH n`. Each node kind is a `step_…` lemma that takes
the statements at fuel `n` and proves the node's statement at fuel `n+1`. -/
namespace P2.Lang
variable {S : Statics} {M : Methods}

/-- outcome relation of an expression evaluated on the stack `st` -/
abbrev ORel (S : Statics) (st : Stack) : R Val → R (Val × List Val) → Prop :=
  RRel (fun sv p => VRel S sv p.1 ∧ Preserves st p.2)

abbrev ORelArgs (S : Statics) (st : Stack) (k : Nat) : R (List Val) → R Stack → Prop :=
  RRel (ArgsPost S st k)

abbrev ORelList (S : Statics) (st : Stack) : R (List Val) → R (List Val × List Val) → Prop :=
  RRel (fun vs p => VsRel S vs p.1 ∧ Preserves st p.2)

abbrev ORelKVs (S : Statics) (st : Stack) :
    R (List (String × Val)) → R (List (String × Val) × List Val) → Prop :=
  RRel (fun vs p => KVRel S vs p.1 ∧ Preserves st p.2)

/-- the simulation statements at fuel `n` -/
structure IH (S : Statics) (M : Methods) (n : Nat) : Prop where
  expr : ∀ a sc vis am cm env st cs code, WA S sc vis a → gen S {} a am cm = some code →
    EnvRel S sc vis am cm env st cs → ORel S st (eval S M n a env) (exec M n code st cs)
  args : ∀ as sc vis am cm env st cs codes, WAs S sc vis as → genArgs S {} as am cm = some codes →
    EnvRel S sc vis am cm env st cs →
    ORelArgs S st as.length (evalArgs S M n as env) (execArgs M n codes st cs)
  list : ∀ as sc vis am cm env st cs codes, WAs S sc vis as → genList S {} as am cm = some codes →
    EnvRel S sc vis am cm env st cs →
    ORelList S st (evalList S M n as env) (execList M n codes st cs)
  kvs : ∀ as sc vis am cm env st cs codes, WAkvs S sc vis as → genKVs S {} as am cm = some codes →
    EnvRel S sc vis am cm env st cs →
    ORelKVs S st (evalKVs S M n as env) (execKVs M n codes st cs)
  cases : ∀ cases d sc vis am cm env st cs ccs cd x x', WAcases S sc vis cases → WA S sc vis d →
    genCases S {} cases am cm = some ccs → gen S {} d am cm = some cd →
    EnvRel S sc vis am cm env st cs → VRel S x x' →
    ORel S st (evalCases S M n x cases d env) (execCases M n x' ccs cd st cs)
  ap : ApRel S (applyS S M n) (applyR M n)

theorem ORel.withData {st : Stack} {d : List Val} {x y} (h : ORel S { st with data := d } x y)
    (hp : Preserves st d) : ORel S st x y :=
  h.mono (fun _ _ ⟨h1, h2⟩ => ⟨h1, hp.trans h2⟩)

/-! ## leaves -/

theorem step_const {n c sc vis am cm env st cs code}
    (hg : gen S {} (.const c) am cm = some code) (_hr : EnvRel S sc vis am cm env st cs) :
    ORel S st (eval S M (n+1) (.const c) env) (exec M (n+1) code st cs) := by
  obtain rfl := gen_const_inv hg
  rw [eval_const, exec_const]
  exact ⟨VRel.ofScalar c, Preserves.refl st⟩

theorem step_ident {n x sc vis am cm env st cs code}
    (hg : gen S {} (.ident x) am cm = some code) (hr : EnvRel S sc vis am cm env st cs) :
    ORel S st (eval S M (n+1) (.ident x) env) (exec M (n+1) code st cs) := by
  rcases gen_ident_inv hg with ⟨i, hi, rfl⟩ | ⟨j, hi, hj, rfl⟩
  · obtain ⟨sv, rv, h1, h2, h3⟩ := hr.slots x i hi
    rw [eval_ident, exec_stk]
    simp only [h1, Stack.get, h2, R.ofIndex, R.bind_ok, R.pure_eq]
    exact ⟨h3, Preserves.refl st⟩
  · obtain ⟨sv, rv, h1, h2, h3⟩ := hr.cslots x j hi hj
    rw [eval_ident, exec_cs]
    simp only [h1, h2, R.ofIndex, R.bind_ok, R.pure_eq]
    exact ⟨h3, Preserves.refl st⟩

theorem step_clos {n names body outer r this sc vis am cm env st cs code}
    (hwa : WA S sc vis (.clos names body outer r this))
    (hg : gen S {} (.clos names body outer r this) am cm = some code)
    (hr : EnvRel S sc vis am cm env st cs) :
    ORel S st (eval S M (n+1) (.clos names body outer r this) env) (exec M (n+1) code st cs) := by
  obtain ⟨cb, cap, hthis, hcb, hcap, rfl⟩ := gen_clos_inv hg
  obtain ⟨ctx, hrc, hctx⟩ := capture_sound hr outer cap hcap
  rw [eval_clos, exec_clos, hrc]
  exact ⟨.clos hcb (WA_clos.mp hwa) hr.scope hthis hctx, Preserves.refl st⟩

/-! ## structural nodes -/

theorem step_letE (ih : IH S M n) {x v i sc vis am cm env st cs code}
    (hwa : WA S sc vis (.letE x v i)) (hg : gen S {} (.letE x v i) am cm = some code)
    (hr : EnvRel S sc vis am cm env st cs) :
    ORel S st (eval S M (n+1) (.letE x v i) env) (exec M (n+1) code st cs) := by
  obtain ⟨cv, ci, hcv, hfresh, hci, rfl⟩ := gen_letE_inv hg
  obtain ⟨hwv, hwi⟩ := WA_letE.mp hwa
  rw [eval_letE, exec_letE]
  refine RRel.bind (ih.expr _ _ _ _ _ _ _ _ _ hwv hcv hr) ?_
  rintro sv ⟨rv, d⟩ ⟨hv, hp⟩
  exact (ih.expr _ _ _ _ _ _ _ _ _ hwi hci (hr.pushLet d hp hv x hfresh)).mono
    (fun _ _ ⟨h1, h2⟩ => ⟨h1, Preserves.of_push hp hr.bound h2⟩)

theorem step_ifE (ih : IH S M n) {c t e sc vis am cm env st cs code}
    (hwa : WA S sc vis (.ifE c t e)) (hg : gen S {} (.ifE c t e) am cm = some code)
    (hr : EnvRel S sc vis am cm env st cs) :
    ORel S st (eval S M (n+1) (.ifE c t e) env) (exec M (n+1) code st cs) := by
  obtain ⟨cc, ct, ce, hcc, hct, hce, rfl⟩ := gen_ifE_inv hg
  obtain ⟨hwc, hwt, hwe⟩ := WA_ifE.mp hwa
  rw [eval_ifE, exec_ifE]
  refine RRel.bind (ih.expr _ _ _ _ _ _ _ _ _ hwc hcc hr) ?_
  rintro sv ⟨rv, d⟩ ⟨hv, hp⟩
  cases hv with
  | bool b =>
    cases b
    · exact (ih.expr _ _ _ _ _ _ _ _ _ hwe hce (hr.withData d hp)).withData hp
    · exact (ih.expr _ _ _ _ _ _ _ _ _ hwt hct (hr.withData d hp)).withData hp
  | _ => exact RRel.err_err

theorem step_switchE (ih : IH S M n) {v cases d sc vis am cm env st cs code}
    (hwa : WA S sc vis (.switchE v cases d)) (hg : gen S {} (.switchE v cases d) am cm = some code)
    (hr : EnvRel S sc vis am cm env st cs) :
    ORel S st (eval S M (n+1) (.switchE v cases d) env) (exec M (n+1) code st cs) := by
  obtain ⟨cv, cd, ccs, hcv, hcd, hccs, rfl⟩ := gen_switchE_inv hg
  obtain ⟨hwv, hwd, hwc⟩ := WA_switchE.mp hwa
  rw [eval_switchE, exec_switchE]
  refine RRel.bind (ih.expr _ _ _ _ _ _ _ _ _ hwv hcv hr) ?_
  rintro sv ⟨rv, d'⟩ ⟨hv, hp⟩
  exact (ih.cases _ _ _ _ _ _ _ _ _ _ _ _ _ hwc hwd hccs hcd (hr.withData d' hp) hv).withData hp

/-- the catch part of try/catch: evaluate the handler; a one-argument closure is applied -/
theorem catch_rel (ih : IH S M n) {c sc vis am cm env st cs cc}
    (hwc : WA S sc vis c) (hcc : gen S {} c am cm = some cc) (hr : EnvRel S sc vis am cm env st cs) :
    ORel S st
      (eval S M n c env >>= fun cv =>
          match cv with
          | .sclos [_] _ _ _ _ => applyS S M n cv [.str "<error>"]
          | _ => pure cv)
      (exec M n cc st cs >>= fun p =>
          match p.1 with
          | .rclos 1 _ _ _ => applyR M n p.1 [.str "<error>"] >>= fun v => pure (v, p.2)
          | _ => pure (p.1, p.2)) := by
  refine RRel.bind (ih.expr _ _ _ _ _ _ _ _ _ hwc hcc hr) ?_
  rintro sv ⟨rv, d⟩ ⟨hv, hp⟩
  cases hv with
  | @clos names body cenv r this outer code ctx sc0 hgen hwab hsc0 hthis hctx =>
    have hclos : VRel S (.sclos names body cenv r this) (.rclos names.length code ctx r) :=
      .clos hgen hwab hsc0 hthis hctx
    match names, hclos with
    | [], hclos => exact ⟨hclos, hp⟩
    | [x], hclos =>
      show RRel _ (applyS S M n _ [.str "<error>"]) (applyR M n _ [.str "<error>"] >>= fun v => pure (v, d))
      refine RRel.bindR (ih.ap _ _ _ _ hclos (.cons (.str _) .nil)) ?_
      intro a b hab
      exact ⟨hab, hp⟩
    | _ :: _ :: _, hclos => exact ⟨hclos, hp⟩
  | int i => exact ⟨.int i, hp⟩
  | flt f => exact ⟨.flt f, hp⟩
  | str s => exact ⟨.str s, hp⟩
  | bool b => exact ⟨.bool b, hp⟩
  | list h => exact ⟨.list h, hp⟩
  | map h => exact ⟨.map h, hp⟩

theorem step_tryE (ih : IH S M n) {t c sc vis am cm env st cs code}
    (hwa : WA S sc vis (.tryE t c)) (hg : gen S {} (.tryE t c) am cm = some code)
    (hr : EnvRel S sc vis am cm env st cs) :
    ORel S st (eval S M (n+1) (.tryE t c) env) (exec M (n+1) code st cs) := by
  obtain ⟨ct, cc, hct, hcc, rfl⟩ := gen_tryE_inv hg
  obtain ⟨hwt, hwc⟩ := WA_tryE.mp hwa
  rw [eval_tryE, exec_tryE]
  rcases (ih.expr _ _ _ _ _ _ _ _ _ hwt hct hr).cases with ⟨a, b, ha, hb, hab⟩ | ⟨e, ha, hb⟩
  · rw [ha, hb]; exact hab
  · rw [ha, hb]
    cases e
    · exact catch_rel ih hwc hcc hr
    · exact catch_rel ih hwc hcc hr
    · exact RRel.fuel_fuel
    · exact RRel.unm_unm

theorem step_unary (ih : IH S M n) {op a sc vis am cm env st cs code}
    (hwa : WA S sc vis (.unary op a)) (hg : gen S {} (.unary op a) am cm = some code)
    (hr : EnvRel S sc vis am cm env st cs) :
    ORel S st (eval S M (n+1) (.unary op a) env) (exec M (n+1) code st cs) := by
  obtain ⟨ca, hca, rfl⟩ := gen_unary_inv hg
  rw [eval_unary, exec_unary]
  refine RRel.bind (ih.expr _ _ _ _ _ _ _ _ _ (WA_unary.mp hwa) hca hr) ?_
  rintro sv ⟨rv, d⟩ ⟨hv, hp⟩
  refine RRel.bindR (unop_nat op hv) ?_
  intro a b hab
  exact ⟨hab, hp⟩

/-- the common shape of the short-circuit operators -/
theorem shortcut_rel (ih : IH S M n) (stop : Bool) {a b sc vis am cm env st cs ca cb}
    (hwa : WA S sc vis a) (hwb : WA S sc vis b)
    (hca : gen S {} a am cm = some ca) (hcb : gen S {} b am cm = some cb)
    (hr : EnvRel S sc vis am cm env st cs) :
    ORel S st
      (eval S M n a env >>= fun x => match x with
        | .bool x => if x = stop then pure (.bool stop) else
            eval S M n b env >>= fun y => match y with
              | .bool v => pure (.bool v)
              | _ => .err
        | _ => .err)
      (exec M n ca st cs >>= fun p => match p.1 with
        | .bool x => if x = stop then pure (.bool stop, p.2) else
            exec M n cb { st with data := p.2 } cs >>= fun q => match q.1 with
              | .bool v => pure (.bool v, q.2)
              | _ => .err
        | _ => .err) := by
  refine RRel.bind (ih.expr _ _ _ _ _ _ _ _ _ hwa hca hr) ?_
  rintro sv ⟨rv, d⟩ ⟨hv, hp⟩
  cases hv with
  | bool x =>
    by_cases hx : x = stop
    · simp only [hx, if_true]
      exact ⟨.bool _, hp⟩
    · simp only [hx, if_false]
      refine RRel.bind (ih.expr _ _ _ _ _ _ _ _ _ hwb hcb (hr.withData d hp)) ?_
      rintro sv' ⟨rv', d'⟩ ⟨hv', hp'⟩
      cases hv' with
      | bool v => exact ⟨.bool v, hp.trans hp'⟩
      | _ => exact RRel.err_err
  | _ => exact RRel.err_err

theorem step_binop (ih : IH S M n) {op a b sc vis am cm env st cs code}
    (hwa : WA S sc vis (.binop op a b)) (hg : gen S {} (.binop op a b) am cm = some code)
    (hr : EnvRel S sc vis am cm env st cs) :
    ORel S st (eval S M (n+1) (.binop op a b) env) (exec M (n+1) code st cs) := by
  obtain ⟨ca, cb, hca, hcb, rfl⟩ := gen_binop_inv hg
  obtain ⟨hwa', hwb⟩ := WA_binop.mp hwa
  rw [eval_binop]
  by_cases h1 : op = "&"
  · rw [if_pos h1, if_pos h1, exec_andE]
    have := shortcut_rel ih false hwa' hwb hca hcb hr
    refine cast ?_ this
    congr 1
    · congr 1; funext x; cases x <;> try rfl
      rename_i x; cases x <;> rfl
    · congr 1; funext p; obtain ⟨x, d⟩ := p; cases x <;> try rfl
      rename_i x; cases x <;> rfl
  · rw [if_neg h1, if_neg h1]
    by_cases h2 : op = "|"
    · rw [if_pos h2, if_pos h2, exec_orE]
      have := shortcut_rel ih true hwa' hwb hca hcb hr
      refine cast ?_ this
      congr 1
      · congr 1; funext x; cases x <;> try rfl
        rename_i x; cases x <;> rfl
      · congr 1; funext p; obtain ⟨x, d⟩ := p; cases x <;> try rfl
        rename_i x; cases x <;> rfl
    · rw [if_neg h2, if_neg h2, exec_binop]
      refine RRel.bind (ih.expr _ _ _ _ _ _ _ _ _ hwa' hca hr) ?_
      rintro sv ⟨rv, d⟩ ⟨hv, hp⟩
      refine RRel.bind (ih.expr _ _ _ _ _ _ _ _ _ hwb hcb (hr.withData d hp)) ?_
      rintro sv' ⟨rv', d'⟩ ⟨hv', hp'⟩
      refine RRel.bindR (binop_nat ih.ap n op hv hv') ?_
      intro x y hxy
      exact ⟨hxy, hp.trans hp'⟩

theorem step_listLit (ih : IH S M n) {items sc vis am cm env st cs code}
    (hwa : WA S sc vis (.listLit items)) (hg : gen S {} (.listLit items) am cm = some code)
    (hr : EnvRel S sc vis am cm env st cs) :
    ORel S st (eval S M (n+1) (.listLit items) env) (exec M (n+1) code st cs) := by
  obtain ⟨ccs, hc, rfl⟩ := gen_listLit_inv hg
  rw [eval_listLit, exec_listLit]
  refine RRel.bind (ih.list _ _ _ _ _ _ _ _ _ (WA_listLit.mp hwa) hc hr) ?_
  rintro vs ⟨vs', d⟩ ⟨hv, hp⟩
  exact ⟨.list (.items hv), hp⟩

theorem step_mapLit (ih : IH S M n) {kvs sc vis am cm env st cs code}
    (hwa : WA S sc vis (.mapLit kvs)) (hg : gen S {} (.mapLit kvs) am cm = some code)
    (hr : EnvRel S sc vis am cm env st cs) :
    ORel S st (eval S M (n+1) (.mapLit kvs) env) (exec M (n+1) code st cs) := by
  obtain ⟨ccs, hc, rfl⟩ := gen_mapLit_inv hg
  rw [eval_mapLit, exec_mapLit]
  refine RRel.bind (ih.kvs _ _ _ _ _ _ _ _ _ (WA_mapLit.mp hwa) hc hr) ?_
  rintro vs ⟨vs', d⟩ ⟨hv, hp⟩
  exact ⟨.map hv, hp⟩

theorem step_member (ih : IH S M n) {m key sc vis am cm env st cs code}
    (hwa : WA S sc vis (.member m key)) (hg : gen S {} (.member m key) am cm = some code)
    (hr : EnvRel S sc vis am cm env st cs) :
    ORel S st (eval S M (n+1) (.member m key) env) (exec M (n+1) code st cs) := by
  obtain ⟨c, hc, rfl⟩ := gen_member_inv hg
  rw [eval_member, exec_member]
  refine RRel.bind (ih.expr _ _ _ _ _ _ _ _ _ (WA_member.mp hwa) hc hr) ?_
  rintro sv ⟨rv, d⟩ ⟨hv, hp⟩
  cases hv with
  | map hkv =>
    rcases hkv.get_cases key with ⟨h1, h2⟩ | ⟨a, b, h1, h2, hab⟩
    · simp only [h1, h2, R.ofOption]; exact RRel.err_err
    · simp only [h1, h2, R.ofOption]; exact ⟨hab, hp⟩
  | _ => exact RRel.err_err

theorem step_index (ih : IH S M n) {i l sc vis am cm env st cs code}
    (hwa : WA S sc vis (.index i l)) (hg : gen S {} (.index i l) am cm = some code)
    (hr : EnvRel S sc vis am cm env st cs) :
    ORel S st (eval S M (n+1) (.index i l) env) (exec M (n+1) code st cs) := by
  obtain ⟨ci, cl, hci, hcl, rfl⟩ := gen_index_inv hg
  obtain ⟨hwi, hwl⟩ := WA_index.mp hwa
  rw [eval_index, exec_index]
  refine RRel.bind (ih.expr _ _ _ _ _ _ _ _ _ hwi hci hr) ?_
  rintro iv ⟨iv', d⟩ ⟨hiv, hp⟩
  refine RRel.bind (ih.expr _ _ _ _ _ _ _ _ _ hwl hcl (hr.withData d hp)) ?_
  rintro lv ⟨lv', d'⟩ ⟨hlv, hp'⟩
  cases hlv with
  | list hl =>
    cases hiv with
    | int k =>
      by_cases hk : k < 0
      · simp only [hk, if_true]; exact RRel.err_err
      · simp only [hk, if_false]
        refine RRel.bind (force_nat ih.ap n hl) ?_
        intro xs ys hxs
        have := hxs.get? k.toNat
        cases h1 : xs[k.toNat]? <;> cases h2 : ys[k.toNat]? <;> simp only [h1, h2] at this
        · exact RRel.err_err
        · exact ⟨this, hp.trans hp'⟩
    | _ => exact RRel.err_err
  | _ => exact RRel.err_err

/-! ## calls -/

/-- entering a closure body: the arguments were pushed on `stA`, the frame is cut out of the top -/
theorem enter_rel (ih : IH S M n) {names : List String} {body : AST} {cenv : Env} {r : Bool} {this : String}
    {outer : List String} {code : Code} {ctx : List Val} {sc0 : List String}
    (hgen : gen S {} body (names.map some) (outer ++ (if r then [this] else [])) = some code)
    (hwab : WA S (names ++ (if r then [this] else []) ++ sc0) (names ++ outer ++ (if r then [this] else [])) body)
    (hsc0 : ∀ x, Env.get cenv x ≠ none → x ∈ sc0)
    (hthis : r = true → idxS outer this = none)
    (hctx : CtxRel S cenv outer ctx)
    {stA st' : Stack} {vs : List Val} (hb : stA.offs + stA.size ≤ stA.data.length)
    (hpost : ArgsPost S stA names.length vs st') :
    ORel S stA
      (eval S M n body (bindParams names vs ++ (if r then [(this, .sclos names body cenv r this)] else []) ++ cenv))
      (exec M n code { data := st'.data, offs := st'.offs + st'.size - names.length, size := names.length }
        (ctx ++ (if r then [.rclos names.length code ctx r] else []))) := by
  have hbound := hpost.bound hb
  obtain ⟨ho, hsz, hp', hlen, hfr⟩ := hpost
  have hoffs : st'.offs + st'.size - names.length = stA.offs + stA.size := by rw [ho, hsz]; omega
  rw [hoffs]
  have hrel := EnvRel.frame (S := S) (names := names) (this := this) hsc0 hthis hctx
    (fS := .sclos names body cenv r this) (fR := .rclos names.length code ctx r)
    (fun _ => .clos hgen hwab hsc0 hthis hctx) hlen hbound hfr
  refine (ih.expr _ _ _ _ _ _ _ _ _ hwab hgen hrel).mono ?_
  rintro a ⟨b, d'⟩ ⟨h1, h2⟩
  refine ⟨h1, ?_, fun j hj => ?_⟩
  · have := h2.1; have := hp'.1; simp at *; omega
  · rw [h2.2 j (by simp; omega)]
    exact hp'.2 j hj

/-- the dynamic part of a call, after the function value has been computed -/
theorem callK_rel (ih : IH S M n) {args sc vis am cm env st cs cas} {fv fv' : Val} {d : List Val}
    (hwas : WAs S sc vis args) (hcas : genArgs S {} args am cm = some cas)
    (hr : EnvRel S sc vis am cm env st cs) (hv : VRel S fv fv') (hp : Preserves st d) :
    ORel S st (evalCallK S M n args env fv) (execCallK M n cas st cs fv' d) := by
  have hlenc := genArgs_length args am cm cas hcas
  cases hv with
  | @clos names body cenv r this outer code ctx sc0 hgen hwab hsc0 hthis hctx =>
    simp only [evalCallK, execCallK, hlenc]
    by_cases harity : names.length = args.length
    · have hne : ¬ (names.length ≠ args.length) := by simp [harity]
      simp only [hne, if_false]
      have hrd := hr.withData d hp
      refine RRel.bind (ih.args _ _ _ _ _ _ _ _ _ hwas hcas hrd) ?_
      intro vs st' hpost
      rw [← harity] at hpost
      exact (enter_rel ih hgen hwab hsc0 hthis hctx hrd.bound hpost).withData hp
    · simp only [harity, ne_eq, not_false_eq_true, if_true]
      exact RRel.err_err
  | _ => exact RRel.err_err

theorem step_call_dyn (ih : IH S M n) {f args sc vis am cm env st cs cf cas}
    (hwf : WA S sc vis f) (hwas : WAs S sc vis args)
    (hcf : gen S {} f am cm = some cf) (hcas : genArgs S {} args am cm = some cas)
    (hr : EnvRel S sc vis am cm env st cs)
    (heval : eval S M (n+1) (.call f args) env =
      (eval S M n f env >>= fun fv => evalCallK S M n args env fv)) :
    ORel S st (eval S M (n+1) (.call f args) env) (exec M (n+1) (.call cf cas) st cs) := by
  rw [heval, exec_call]
  refine RRel.bind (ih.expr _ _ _ _ _ _ _ _ _ hwf hcf hr) ?_
  rintro sv ⟨rv, d⟩ ⟨hv, hp⟩
  exact callK_rel ih hwas hcas hr hv hp

theorem step_call_static (ih : IH S M n) {name args sc vis am cm env st cs cas}
    (hwas : WAs S sc vis args) (hcas : genArgs S {} args am cm = some cas)
    (hr : EnvRel S sc vis am cm env st cs)
    (hstat : (S name).isSome ∧ !Env.has env name) :
    ORel S st (eval S M (n+1) (.call (.ident name) args) env) (exec M (n+1) (.callStatic name cas) st cs) := by
  have hlenc := genArgs_length args am cm cas hcas
  rw [eval_call_static S M n name args env hstat, exec_callStatic, hlenc]
  refine RRel.bind (ih.args _ _ _ _ _ _ _ _ _ hwas hcas hr) ?_
  intro vs st' hpost
  refine RRel.bindR (callStatic_nat ih.ap n name hpost.argv) ?_
  intro a b hab
  exact ⟨hab, hpost.2.2.1⟩

theorem step_call (ih : IH S M n) {f args sc vis am cm env st cs code}
    (hwa : WA S sc vis (.call f args)) (hg : gen S {} (.call f args) am cm = some code)
    (hr : EnvRel S sc vis am cm env st cs) :
    ORel S st (eval S M (n+1) (.call f args) env) (exec M (n+1) code st cs) := by
  obtain ⟨hwf, hwas, hok⟩ := WA_call.mp hwa
  by_cases hid : ∃ name, f = .ident name
  · obtain ⟨name, rfl⟩ := hid
    cases hs : S name with
    | none =>
      obtain ⟨cf, cas, hcf, hcas, rfl⟩ := gen_call_dyn_inv hg (fun nm h => by cases h; exact .inl hs)
      exact step_call_dyn ih hwf hwas hcf hcas hr
        (eval_call_ident_dyn S M n name args env (by simp [hs]))
    | some p =>
      obtain ⟨arity, pure⟩ := p
      by_cases hhas : Env.get env name = none
      · -- not bound: a static call in both semantics
        have hnv : ¬ (({} : Variant).localShadowsStatic = true ∧
            ((idx am name).isSome ∨ (idxS cm name).isSome)) := by
          rintro ⟨_, h | h⟩
          · cases hi : idx am name with
            | none => simp [hi] at h
            | some i =>
              obtain ⟨sv, _, h1, _, _⟩ := hr.slots name i hi
              rw [hhas] at h1; cases h1
          · cases hi : idx am name with
            | some i =>
              obtain ⟨sv, _, h1, _, _⟩ := hr.slots name i hi
              rw [hhas] at h1; cases h1
            | none =>
              cases hj : idxS cm name with
              | none => simp [hj] at h
              | some j =>
                obtain ⟨sv, _, h1, _, _⟩ := hr.cslots name j hi hj
                rw [hhas] at h1; cases h1
        obtain ⟨cas, hcas, rfl⟩ := gen_call_static_inv hg hs hnv
        exact step_call_static ih hwas hcas hr (by simp [hs, Env.has, hhas])
      · -- shadowed by a local: `WA` makes the local visible to the compiler
        have hvis := hr.visible name (hok (by simp [hs]) (hr.scope name hhas))
        have hd : ∀ nm, AST.ident name = .ident nm →
            S nm = none ∨ (({} : Variant).localShadowsStatic = true ∧
              ((idx am nm).isSome ∨ (idxS cm nm).isSome)) := by
          intro nm h; cases h
          refine .inr ⟨rfl, ?_⟩
          rcases hvis with h | h
          · left; cases hi : idx am name with
            | none => exact absurd hi h
            | some i => rfl
          · right; cases hj : idxS cm name with
            | none => exact absurd hj h
            | some j => rfl
        obtain ⟨cf, cas, hcf, hcas, rfl⟩ := gen_call_dyn_inv hg hd
        refine step_call_dyn ih hwf hwas hcf hcas hr
          (eval_call_ident_dyn S M n name args env ?_)
        have : Env.has env name = true := by
          simp only [Env.has]
          cases hg' : Env.get env name with
          | none => exact absurd hg' hhas
          | some v => rfl
        simp [this]
  · have hne : ∀ name, f ≠ .ident name := fun name h => hid ⟨name, h⟩
    obtain ⟨cf, cas, hcf, hcas, rfl⟩ := gen_call_dyn_inv hg (fun nm h => absurd h (hne nm))
    exact step_call_dyn ih hwf hwas hcf hcas hr (eval_call_dyn S M n f args env hne)

/-! ## method calls -/

/-- the built-in part of a method call -/
def evalBuiltinK (S : Statics) (M : Methods) (n : Nat) (name : String) (args : List AST) (env : Env)
    (rv : Val) : R Val :=
  match M (typeName rv) name with
  | none => .err
  | some declared =>
    if declared > 0 ∧ declared ≠ args.length + 1 then .err else
    evalArgs S M n args env >>= fun vs =>
    methodBody (applyS S M n) n name rv vs

def execBuiltinK (M : Methods) (n : Nat) (name : String) (args : List Code) (st : Stack) (cs : List Val)
    (rv : Val) (d : List Val) : R (Val × List Val) :=
  match M (typeName rv) name with
  | none => .err
  | some declared =>
    if declared > 0 ∧ declared ≠ args.length + 1 then .err else
    execArgs M n args (({ st with data := d } : Stack).push rv) cs >>= fun st' =>
    methodBody (applyR M n) n name rv ((st'.data.drop (st.offs + st.size + 1)).take args.length) >>= fun r =>
    pure (r, st'.data)

theorem builtinK_rel (ih : IH S M n) {name args sc vis am cm env st cs cas} {rv rv' : Val} {d : List Val}
    (hwas : WAs S sc vis args) (hcas : genArgs S {} args (am ++ [none]) cm = some cas)
    (hr : EnvRel S sc vis am cm env st cs) (hv : VRel S rv rv') (hp : Preserves st d) :
    ORel S st (evalBuiltinK S M n name args env rv) (execBuiltinK M n name cas st cs rv' d) := by
  have hlenc := genArgs_length args _ cm cas hcas
  simp only [evalBuiltinK, execBuiltinK, hlenc, ← hv.typeName]
  cases M (typeName rv) name with
  | none => exact RRel.err_err
  | some declared =>
    simp only
    split
    · exact RRel.err_err
    · have hr' := hr.pushNone d hp rv'
      refine RRel.bind (ih.args _ _ _ _ _ _ _ _ _ hwas hcas hr') ?_
      intro vs st' hpost
      have hargv := hpost.argv
      simp only [Stack.push] at hargv
      rw [← Nat.add_assoc] at hargv
      refine RRel.bindR (methodBody_nat ih.ap n name hv hargv) ?_
      intro a b hab
      exact ⟨hab, Preserves.of_push hp hr.bound hpost.2.2.1⟩

theorem evalMethodK_builtin {n name args env} {rv : Val}
    (h : ∀ kvs names body cenv r this, rv = .map kvs → mapGet kvs name ≠ some (.sclos names body cenv r this)) :
    evalMethodK S M n name args env rv = evalBuiltinK S M n name args env rv := by
  cases rv with
  | map kvs =>
    simp only [evalMethodK, evalBuiltinK]
    cases hget : mapGet kvs name with
    | none => rfl
    | some v =>
      cases v with
      | sclos names body cenv r this => exact absurd hget (h kvs names body cenv r this rfl)
      | _ => rfl
  | _ => rfl

theorem execMethodK_builtin {n name args st cs d} {rv : Val}
    (h : ∀ kvs na body ctx r, rv = .map kvs → mapGet kvs name ≠ some (.rclos na body ctx r)) :
    execMethodK M n name args st cs rv d = execBuiltinK M n name args st cs rv d := by
  cases rv with
  | map kvs =>
    simp only [execMethodK, execBuiltinK]
    cases hget : mapGet kvs name with
    | none => rfl
    | some v =>
      cases v with
      | rclos na body ctx r => exact absurd hget (h kvs na body ctx r rfl)
      | _ => rfl
  | _ => rfl

theorem methodK_rel (ih : IH S M n) {name args sc vis am cm env st cs cas} {rv rv' : Val} {d : List Val}
    (hwas : WAs S sc vis args) (hcas : genArgs S {} args (am ++ [none]) cm = some cas)
    (hr : EnvRel S sc vis am cm env st cs) (hv : VRel S rv rv') (hp : Preserves st d) :
    ORel S st (evalMethodK S M n name args env rv) (execMethodK M n name cas st cs rv' d) := by
  -- is the receiver a map whose field `name` holds a closure?
  by_cases hfield : ∃ kvs kvs' names body cenv r this outer code ctx sc0,
      rv = .map kvs ∧ rv' = .map kvs' ∧ KVRel S kvs kvs' ∧
      mapGet kvs name = some (.sclos names body cenv r this) ∧
      mapGet kvs' name = some (.rclos names.length code ctx r) ∧
      gen S {} body (names.map some) (outer ++ (if r then [this] else [])) = some code ∧
      WA S (names ++ (if r then [this] else []) ++ sc0) (names ++ outer ++ (if r then [this] else [])) body ∧
      (∀ x, Env.get cenv x ≠ none → x ∈ sc0) ∧ (r = true → idxS outer this = none) ∧
      CtxRel S cenv outer ctx
  · obtain ⟨kvs, kvs', names, body, cenv, r, this, outer, code, ctx, sc0, rfl, rfl, hkv, hg1, hg2,
      hgen, hwab, hsc0, hthis, hctx⟩ := hfield
    have hlenc := genArgs_length args _ cm cas hcas
    simp only [evalMethodK, execMethodK, hg1, hg2, hlenc]
    by_cases harity : names.length = args.length
    · have hne : ¬ (names.length ≠ args.length) := by simp [harity]
      simp only [hne, if_false]
      have hr' := hr.pushNone d hp (.map kvs')
      refine RRel.bind (ih.args _ _ _ _ _ _ _ _ _ hwas hcas hr') ?_
      intro vs st' hpost
      rw [← harity] at hpost
      refine (enter_rel ih hgen hwab hsc0 hthis hctx hr'.bound hpost).mono ?_
      rintro a ⟨b, d'⟩ ⟨h1, h2⟩
      exact ⟨h1, Preserves.of_push hp hr.bound h2⟩
    · simp only [harity, ne_eq, not_false_eq_true, if_true]
      exact RRel.err_err
  · have h1 : ∀ kvs names body cenv r this, rv = .map kvs →
        mapGet kvs name ≠ some (.sclos names body cenv r this) := by
      intro kvs names body cenv r this hrv hget
      subst hrv
      cases hv with
      | map hkv =>
        rcases hkv.get_cases name with ⟨h1, _⟩ | ⟨a, b, h1, h2, hab⟩
        · rw [h1] at hget; cases hget
        · rw [h1] at hget; cases hget
          cases hab with
          | clos hgen hwab hsc0 hthis hctx =>
            exact hfield ⟨_, _, _, _, _, _, _, _, _, _, _, rfl, rfl, hkv, h1, h2, hgen, hwab, hsc0, hthis, hctx⟩
    have h2 : ∀ kvs na body ctx r, rv' = .map kvs →
        mapGet kvs name ≠ some (.rclos na body ctx r) := by
      intro kvs' na body ctx r hrv hget
      subst hrv
      cases hv with
      | map hkv =>
        rcases hkv.get_cases name with ⟨_, h2⟩ | ⟨a, b, h1, h2, hab⟩
        · rw [h2] at hget; cases hget
        · rw [h2] at hget; cases hget
          cases hab with
          | clos hgen hwab hsc0 hthis hctx =>
            exact hfield ⟨_, _, _, _, _, _, _, _, _, _, _, rfl, rfl, hkv, h1, h2, hgen, hwab, hsc0, hthis, hctx⟩
    rw [evalMethodK_builtin h1, execMethodK_builtin h2]
    exact builtinK_rel ih hwas hcas hr hv hp

theorem step_method (ih : IH S M n) {recv name args sc vis am cm env st cs code}
    (hwa : WA S sc vis (.method recv name args)) (hg : gen S {} (.method recv name args) am cm = some code)
    (hr : EnvRel S sc vis am cm env st cs) :
    ORel S st (eval S M (n+1) (.method recv name args) env) (exec M (n+1) code st cs) := by
  obtain ⟨cr, cas, hcr, hcas, rfl⟩ := gen_method_inv hg
  obtain ⟨hwr, hwas⟩ := WA_method.mp hwa
  rw [eval_method, exec_method]
  refine RRel.bind (ih.expr _ _ _ _ _ _ _ _ _ hwr hcr hr) ?_
  rintro sv ⟨rv, d⟩ ⟨hv, hp⟩
  exact methodK_rel ih hwas hcas hr hv hp

/-! ## lists of expressions -/

theorem step_args (ih : IH S M n) : ∀ as sc vis am cm env st cs codes, WAs S sc vis as →
    genArgs S {} as am cm = some codes → EnvRel S sc vis am cm env st cs →
    ORelArgs S st as.length (evalArgs S M (n+1) as env) (execArgs M (n+1) codes st cs) := by
  intro as sc vis am cm env st cs codes hwa hg hr
  cases as with
  | nil =>
    obtain rfl := genArgs_nil_inv hg
    rw [evalArgs_nil, execArgs_nil]
    exact ⟨rfl, rfl, Preserves.refl st, rfl, fun j hj => absurd hj (Nat.not_lt_zero _)⟩
  | cons a as =>
    obtain ⟨c, cs', hc, hcs, rfl⟩ := genArgs_cons_inv hg
    obtain ⟨hwa1, hwa2⟩ := WAs_cons.mp hwa
    rw [evalArgs_cons, execArgs_cons]
    refine RRel.bind (ih.expr _ _ _ _ _ _ _ _ _ hwa1 hc hr) ?_
    rintro sv ⟨rv, d⟩ ⟨hv, hp⟩
    dsimp only
    have hp : Preserves st d := hp
    have hr' := hr.pushNone d hp rv
    refine RRel.bindL (ih.args _ _ _ _ _ _ _ _ _ hwa2 hcs hr') ?_
    rintro vs st' ⟨ho, hsz, hp', hlen, hfr⟩
    have hb := hr.bound
    refine ⟨by simpa [Stack.push] using ho, by simp [Stack.push] at hsz; simp [hsz]; omega,
      Preserves.of_push hp hb hp', by simp [hlen], ?_⟩
    intro j hj
    cases j with
    | zero =>
      refine ⟨sv, rv, by simp, ?_, hv⟩
      rw [hp'.2 _ (by simp [Stack.push])]
      simp only [Stack.push, Nat.add_zero]
      exact setAt_get_eq _ _ _ (by have := hp.1; omega)
    | succ j =>
      obtain ⟨sv', rv', a1, a2, a3⟩ := hfr j (by simp at hj; omega)
      refine ⟨sv', rv', by simpa using a1, ?_, a3⟩
      simp only [Stack.push] at a2
      rw [← a2]; congr 1; omega

theorem step_list (ih : IH S M n) : ∀ as sc vis am cm env st cs codes, WAs S sc vis as →
    genList S {} as am cm = some codes → EnvRel S sc vis am cm env st cs →
    ORelList S st (evalList S M (n+1) as env) (execList M (n+1) codes st cs) := by
  intro as sc vis am cm env st cs codes hwa hg hr
  cases as with
  | nil =>
    obtain rfl := genList_nil_inv hg
    rw [evalList_nil, execList_nil]
    exact ⟨.nil, Preserves.refl st⟩
  | cons a as =>
    obtain ⟨c, cs', hc, hcs, rfl⟩ := genList_cons_inv hg
    obtain ⟨hwa1, hwa2⟩ := WAs_cons.mp hwa
    rw [evalList_cons, execList_cons]
    refine RRel.bind (ih.expr _ _ _ _ _ _ _ _ _ hwa1 hc hr) ?_
    rintro sv ⟨rv, d⟩ ⟨hv, hp⟩
    refine RRel.bind (ih.list _ _ _ _ _ _ _ _ _ hwa2 hcs (hr.withData d hp)) ?_
    rintro vs ⟨vs', d'⟩ ⟨hvs, hp'⟩
    exact ⟨.cons hv hvs, hp.trans hp'⟩

theorem step_kvs (ih : IH S M n) : ∀ as sc vis am cm env st cs codes, WAkvs S sc vis as →
    genKVs S {} as am cm = some codes → EnvRel S sc vis am cm env st cs →
    ORelKVs S st (evalKVs S M (n+1) as env) (execKVs M (n+1) codes st cs) := by
  intro as sc vis am cm env st cs codes hwa hg hr
  cases as with
  | nil =>
    obtain rfl := genKVs_nil_inv hg
    rw [evalKVs_nil, execKVs_nil]
    exact ⟨.nil, Preserves.refl st⟩
  | cons ka as =>
    obtain ⟨k, a⟩ := ka
    obtain ⟨c, cs', hc, hcs, rfl⟩ := genKVs_cons_inv hg
    obtain ⟨hwa1, hwa2⟩ := WAkvs_cons.mp hwa
    rw [evalKVs_cons, execKVs_cons]
    refine RRel.bind (ih.expr _ _ _ _ _ _ _ _ _ hwa1 hc hr) ?_
    rintro sv ⟨rv, d⟩ ⟨hv, hp⟩
    refine RRel.bind (ih.kvs _ _ _ _ _ _ _ _ _ hwa2 hcs (hr.withData d hp)) ?_
    rintro vs ⟨vs', d'⟩ ⟨hvs, hp'⟩
    exact ⟨.cons k hv hvs, hp.trans hp'⟩

theorem step_cases (ih : IH S M n) : ∀ cases d sc vis am cm env st cs ccs cd x x',
    WAcases S sc vis cases → WA S sc vis d →
    genCases S {} cases am cm = some ccs → gen S {} d am cm = some cd →
    EnvRel S sc vis am cm env st cs → VRel S x x' →
    ORel S st (evalCases S M (n+1) x cases d env) (execCases M (n+1) x' ccs cd st cs) := by
  intro cases d sc vis am cm env st cs ccs cd x x' hwc hwd hg hgd hr hx
  cases cases with
  | nil =>
    obtain rfl := genCases_nil_inv hg
    rw [evalCases_nil, execCases_nil]
    exact ih.expr _ _ _ _ _ _ _ _ _ hwd hgd hr
  | cons cr rest =>
    obtain ⟨c, r⟩ := cr
    obtain ⟨cc, cr, ccs', hcc, hcr, hcs, rfl⟩ := genCases_cons_inv hg
    obtain ⟨hw1, hw2, hw3⟩ := WAcases_cons.mp hwc
    rw [evalCases_cons, execCases_cons]
    refine RRel.bind (ih.expr _ _ _ _ _ _ _ _ _ hw1 hcc hr) ?_
    rintro sv ⟨rv, d'⟩ ⟨hv, hp⟩
    refine RRel.bind (valEq_nat ih.ap n hx hv) ?_
    rintro eq _ rfl
    cases eq
    · exact (ih.cases _ _ _ _ _ _ _ _ _ _ _ _ _ hw3 hwd hcs hgd (hr.withData d' hp) hx).withData hp
    · exact (ih.expr _ _ _ _ _ _ _ _ _ hw2 hcr (hr.withData d' hp)).withData hp

/-! ## closure application from the library -/

theorem step_ap (ih : IH S M n) : ApRel S (applyS S M (n+1)) (applyR M (n+1)) := by
  intro f f' vs vs' hf hvs
  cases hf with
  | @clos names body cenv r this outer code ctx sc0 hgen hwab hsc0 hthis hctx =>
    rw [applyS_sclos, applyR_rclos, ← hvs.length]
    by_cases harity : names.length = vs.length
    · have hne : ¬ (names.length ≠ vs.length) := by simp [harity]
      simp only [hne, if_false]
      have hsz : vs'.length = names.length := by rw [← hvs.length, harity]
      rw [pushAll_empty, hsz]
      have hpost : ArgsPost S ⟨[], 0, 0⟩ names.length vs ⟨vs', 0, names.length⟩ := by
        refine ⟨rfl, by simp, ⟨by simp, fun j hj => by simp at hj⟩, harity.symm, ?_⟩
        intro j hj
        simpa using hvs.pointwise j (by omega)
      have := enter_rel ih hgen hwab hsc0 hthis hctx (stA := ⟨[], 0, 0⟩) (by simp) hpost
      simp only [Nat.zero_add, Nat.sub_self] at this
      refine RRel.bindR this ?_
      rintro a ⟨b, d⟩ ⟨h1, _⟩
      exact h1
    · simp only [harity, ne_eq, not_false_eq_true, if_true]
      exact RRel.err_err
  | _ => exact RRel.err_err

/-! ## the induction -/

theorem step_expr (ih : IH S M n) : ∀ a sc vis am cm env st cs code, WA S sc vis a →
    gen S {} a am cm = some code → EnvRel S sc vis am cm env st cs →
    ORel S st (eval S M (n+1) a env) (exec M (n+1) code st cs) := by
  intro a sc vis am cm env st cs code hwa hg hr
  cases a with
  | const c => exact step_const hg hr
  | ident x => exact step_ident hg hr
  | letE x v i => exact step_letE ih hwa hg hr
  | ifE c t e => exact step_ifE ih hwa hg hr
  | switchE v cases d => exact step_switchE ih hwa hg hr
  | tryE t c => exact step_tryE ih hwa hg hr
  | unary op a => exact step_unary ih hwa hg hr
  | binop op a b => exact step_binop ih hwa hg hr
  | clos names body outer r this => exact step_clos hwa hg hr
  | listLit items => exact step_listLit ih hwa hg hr
  | index i l => exact step_index ih hwa hg hr
  | mapLit kvs => exact step_mapLit ih hwa hg hr
  | member m key => exact step_member ih hwa hg hr
  | call f args => exact step_call ih hwa hg hr
  | method recv name args => exact step_method ih hwa hg hr

theorem main (S : Statics) (M : Methods) : ∀ n, IH S M n
  | 0 =>
    { expr := fun _ _ _ _ _ _ _ _ _ _ _ _ => RRel.fuel_fuel
      args := fun _ _ _ _ _ _ _ _ _ _ _ _ => RRel.fuel_fuel
      list := fun _ _ _ _ _ _ _ _ _ _ _ _ => RRel.fuel_fuel
      kvs := fun _ _ _ _ _ _ _ _ _ _ _ _ => RRel.fuel_fuel
      cases := fun _ _ _ _ _ _ _ _ _ _ _ _ _ _ _ _ _ _ _ => RRel.fuel_fuel
      ap := fun _ _ _ _ _ _ => RRel.fuel_fuel }
  | n+1 =>
    have ih := main S M n
    { expr := step_expr ih
      args := step_args ih
      list := step_list ih
      kvs := step_kvs ih
      cases := step_cases ih
      ap := step_ap ih }

end P2.Lang
