import P2.Model.Recover
/-! Invariant proofs for the panic-containment model (C05). -/
namespace P2.Recover

theorem prot_push {T : Table} {s : Site} {rest : List Site} (h : prot T rest = true) : prot T (s :: rest) = true := by
  simp [prot, h]

theorem safe_pop {T : Table} {s : Site} {rest : List Site} (h : safe T (s :: rest) = true) : safe T rest = true := by
  simp only [safe, allInert, prot, List.all_cons, Bool.or_eq_true, Bool.and_eq_true] at h ⊢
  rcases h with h | h | h
  · exact Or.inl h.2
  · exact Or.inr h
  · exact Or.inl h.2

theorem prot_pop_passes {T : Table} {s : Site} {rest : List Site} (h : prot T (s :: rest) = true)
    (hc : catches T s = false) : prot T rest = true := by
  simpa [prot, hc] using h

theorem prot_of_safe_not_inert {T : Table} {s : Site} {rest : List Site} (h : safe T (s :: rest) = true)
    (hi : inert s = false) : prot T (s :: rest) = true := by
  simpa [safe, allInert, hi] using h

theorem disciplined_calls {T : Table} (hT : Disciplined T = true) {top s : Site} (hi : inert top = true)
    (hs : s ∈ inertCalls top) : inert s = true ∨ catches T s = true := by
  simp only [Disciplined, Bool.and_eq_true, List.all_eq_true] at hT
  have h := hT.2 top (Site.mem_all top)
  simp only [hi, Bool.not_true, Bool.false_or, List.all_eq_true, Bool.or_eq_true] at h
  exact h s hs

theorem disciplined_root {T : Table} (hT : Disciplined T = true) (k : GoKind) :
    inert (rootOf k) = true ∨ catches T (rootOf k) = true := by
  simp only [Disciplined, Bool.and_eq_true, List.all_eq_true, Bool.or_eq_true] at hT
  exact hT.1 k (GoKind.mem_all k)

theorem safe_root {T : Table} (hT : Disciplined T = true) (k : GoKind) : safe T [rootOf k] = true := by
  rcases disciplined_root hT k with h | h <;> simp [safe, allInert, prot, h]

theorem safe_push {T : Table} (hT : Disciplined T = true) {s top : Site} {rest : List Site}
    (h : safe T (top :: rest) = true) (hcall : inert top = true → s ∈ inertCalls top) :
    safe T (s :: top :: rest) = true := by
  cases hp : prot T (top :: rest) with
  | true => simp [safe, prot_push hp]
  | false =>
    have hall : allInert (top :: rest) = true := by simpa [safe, hp] using h
    have htop : inert top = true := by
      simp only [allInert, List.all_cons, Bool.and_eq_true] at hall; exact hall.1
    rcases disciplined_calls hT htop (hcall htop) with hs | hs
    · have : allInert (s :: top :: rest) = true := by
        simp only [allInert, List.all_cons, Bool.and_eq_true] at hall ⊢; exact ⟨hs, hall⟩
      simp [safe, this]
    · have : prot T (s :: top :: rest) = true := by
        rw [prot]; simp [hs, hall]
      simp [safe, this]

theorem catches_of_stops {T : Table} {s : Site} {c : Conv} (h : effect (T s) = .stops c) : catches T s = true := by
  simp [catches, h]

theorem not_catches_of_passes {T : Table} {s : Site} (h : effect (T s) = .passes) : catches T s = false := by
  simp [catches, h]

theorem ginv_set {T : Table} {gs : List Gor} {i : Nat} {y : Gor} (h : ∀ g ∈ gs, GInv T g) (hy : GInv T y) :
    ∀ g ∈ gs.set i y, GInv T g := by
  intro g hg
  rcases List.mem_or_eq_of_mem_set hg with h' | h'
  · exact h g h'
  · exact h' ▸ hy

theorem ginv_bump {T : Table} {gs : List Gor} {o : Nat} (h : ∀ g ∈ gs, GInv T g) : ∀ g ∈ bump gs o, GInv T g := by
  unfold bump
  split
  · next x hx =>
    have hxm : x ∈ gs := List.mem_of_getElem? hx
    exact ginv_set h ⟨(h x hxm).1, (h x hxm).2⟩
  · exact h

/-- one step of any goroutine keeps the invariant -/
theorem step_inv {T : Table} (hT : Disciplined T = true) {st st' : State} {a : Act} (h : Inv T st)
    (hs : step T st a = some st') : Inv T st' := by
  obtain ⟨hc, hg⟩ := h
  cases a with
  | spawn o k =>
    simp only [step, Option.some.injEq] at hs
    subst hs
    refine ⟨hc, ?_⟩
    intro g hgm
    rcases List.mem_append.1 hgm with h' | h'
    · exact hg g h'
    · simp only [List.mem_singleton] at h'
      subst h'
      exact ⟨safe_root hT k, by simp⟩
  | call g s =>
    simp only [step] at hs
    split at hs
    · next go hgo =>
      have hm := hg go (List.mem_of_getElem? hgo)
      split at hs
      · next top rest hfr =>
        split at hs
        · next hcond =>
          simp only [Option.some.injEq] at hs
          subst hs
          refine ⟨hc, ginv_set hg ⟨?_, ?_⟩⟩
          · simp only [hfr]
            exact safe_push hT (by simpa [hfr] using hm.1) hcond.2
          · simp [hcond.1]
        · simp at hs
      · simp at hs
    · simp at hs
  | ret g =>
    simp only [step] at hs
    split at hs
    · next go hgo =>
      have hm := hg go (List.mem_of_getElem? hgo)
      split at hs
      · next top rest hfr =>
        split at hs
        · next hcond =>
          simp only [Option.some.injEq] at hs
          subst hs
          refine ⟨hc, ginv_set hg ⟨?_, ?_⟩⟩
          · exact safe_pop (s := top) (by simpa [hfr] using hm.1)
          · simp [hcond.1]
        · simp at hs
      · simp at hs
    · simp at hs
  | fault g =>
    simp only [step] at hs
    split at hs
    · next go hgo =>
      have hm := hg go (List.mem_of_getElem? hgo)
      split at hs
      · next top rest hfr =>
        split at hs
        · next hcond =>
          simp only [Option.some.injEq] at hs
          subst hs
          refine ⟨hc, ginv_set hg ⟨hm.1, fun _ => ?_⟩⟩
          simp only [hfr]
          exact prot_of_safe_not_inert (by simpa [hfr] using hm.1) hcond.2
        · simp at hs
      · simp at hs
    · simp at hs
  | unwind g =>
    simp only [step] at hs
    split at hs
    · next go hgo =>
      have hm := hg go (List.mem_of_getElem? hgo)
      split at hs
      · next hpan =>
        have hprot := hm.2 hpan
        split at hs
        · next hfr => simp [hfr, prot] at hprot
        · next top rest hfr =>
          rw [hfr] at hprot
          have hsafe : safe T rest = true := safe_pop (s := top) (by simpa [hfr] using hm.1)
          split at hs
          · next heff =>
            simp only [Option.some.injEq] at hs
            subst hs
            have hp := prot_pop_passes hprot (not_catches_of_passes heff)
            exact ⟨hc, ginv_set hg ⟨hsafe, fun _ => hp⟩⟩
          · simp only [Option.some.injEq] at hs
            subst hs
            exact ⟨hc, ginv_bump (ginv_set hg ⟨hsafe, by simp⟩)⟩
          · simp only [Option.some.injEq] at hs
            subst hs
            exact ⟨hc, ginv_set hg ⟨hsafe, by simp⟩⟩
      · simp at hs
    · simp at hs
  | reraise g =>
    simp only [step] at hs
    split at hs
    · next go hgo =>
      have hm := hg go (List.mem_of_getElem? hgo)
      split at hs
      · next top rest hfr =>
        split at hs
        · next hcond =>
          simp only [Option.some.injEq] at hs
          subst hs
          refine ⟨hc, ginv_set hg ⟨hm.1, fun _ => ?_⟩⟩
          simp only [hfr]
          refine prot_of_safe_not_inert (by simpa [hfr] using hm.1) ?_
          rw [hcond.2.1]; rfl
        · simp at hs
      · simp at hs
    · simp at hs

theorem init_inv (T : Table) : Inv T init := by
  refine ⟨rfl, ?_⟩
  intro g hg
  simp only [init, List.mem_singleton] at hg
  subst hg
  exact ⟨by simp [safe, allInert, inert], by simp⟩

theorem reach_inv {T : Table} (hT : Disciplined T = true) {s : State} (h : Reach T s) : Inv T s := by
  induction h with
  | init => exact init_inv T
  | step a _ hs ih => exact step_inv hT ih hs

theorem reach_of_run {T : Table} : ∀ (acts : List Act) (s s' : State), Reach T s → run T acts s = some s' → Reach T s'
  | [], s, s', h, hr => by simp only [run, Option.some.injEq] at hr; exact hr ▸ h
  | a :: as, s, s', h, hr => by
    simp only [run] at hr
    split at hr
    · next s1 hs1 => exact reach_of_run as s1 s' (Reach.step a h hs1) hr
    · simp at hr

end P2.Recover
