import P2.Model.Heap
/-! # `ListMap.Append` chains (C09, `listmap_linear`). -/
namespace P2.Heap

structure LMWF (st : LMStore) (l : LM) : Prop where
  arr : l.arr < st.length
  len : l.len ≤ l.cap
  cap : l.cap ≤ (lmArrayOf st l.arr).length

theorem findKey_some_lt (k : String) (es : List (String × Val)) (i : Nat) (h : findKey k es = some i) :
    i < es.length := by
  induction es generalizing i with
  | nil => simp [findKey] at h
  | cons e es ih =>
    obtain ⟨k', v'⟩ := e
    simp only [findKey] at h
    split at h
    · cases h; simp
    · cases hf : findKey k es with
      | none => rw [hf] at h; simp at h
      | some j =>
        rw [hf] at h; simp at h; subst h
        have := ih j hf
        simp; omega

theorem findKey_some_upsert (k : String) (v : Val) (es : List (String × Val)) (i : Nat)
    (h : findKey k es = some i) : es.set i (k, v) = upsert es k v := by
  induction es generalizing i with
  | nil => simp [findKey] at h
  | cons e es ih =>
    obtain ⟨k', v'⟩ := e
    simp only [findKey] at h
    simp only [upsert]
    split at h
    · rename_i hk; cases h; simp [hk]
    · rename_i hk
      cases hf : findKey k es with
      | none => rw [hf] at h; simp at h
      | some j =>
        rw [hf] at h; simp at h; subst h
        simp [hk, ih j hf]

theorem findKey_none_upsert (k : String) (v : Val) (es : List (String × Val))
    (h : findKey k es = none) : es ++ [(k, v)] = upsert es k v := by
  induction es with
  | nil => rfl
  | cons e es ih =>
    obtain ⟨k', v'⟩ := e
    simp only [findKey] at h
    simp only [upsert]
    split at h
    · cases h
    · rename_i hk
      cases hf : findKey k es with
      | none => simp [hk, ih hf]
      | some j => rw [hf] at h; simp at h

theorem lmArrayOf_set_same (st : LMStore) (a : Nat) (x : List (String × Val)) (ha : a < st.length) :
    lmArrayOf (st.set a x) a = x := by
  simp [lmArrayOf, ha]

theorem lmArrayOf_set_other (st : LMStore) (a b : Nat) (x : List (String × Val)) (hab : a ≠ b) :
    lmArrayOf (st.set a x) b = lmArrayOf st b := by
  simp [lmArrayOf, List.getElem?_set, hab]

theorem lmArrayOf_append_left (st : LMStore) (x : List (String × Val)) (a : Nat) (ha : a < st.length) :
    lmArrayOf (st ++ [x]) a = lmArrayOf st a := by
  simp [lmArrayOf, List.getElem?_append_left ha]

theorem lmArrayOf_append_new (st : LMStore) (x : List (String × Val)) :
    lmArrayOf (st ++ [x]) st.length = x := by
  simp [lmArrayOf]

theorem take_set_lt {α} (l : List α) (i n : Nat) (x : α) (hi : i < n) :
    (l.set i x).take n = (l.take n).set i x := by
  apply List.ext_getElem?
  intro k
  simp only [List.getElem?_take, List.getElem?_set, List.length_take]
  by_cases hk : k < n
  · by_cases hik : i = k
    · subst hik
      by_cases hl : i < l.length
      · have : i < min n l.length := by omega
        simp [hl, this, hk]
      · have : ¬ i < min n l.length := by omega
        simp [hl, this, hk]
    · simp [hk, hik]
  · have : ¬ i = k := by omega
    simp [hk, this]

theorem take_set_snoc {α} (l : List α) (n : Nat) (x : α) (hn : n < l.length) :
    (l.set n x).take (n + 1) = l.take n ++ [x] := by
  apply List.ext_getElem?
  intro k
  have hm : min n l.length = n := by omega
  simp only [List.getElem?_take, List.getElem?_set, List.getElem?_append, List.length_take, hm]
  by_cases hk : k < n
  · have h1 : k < n + 1 := by omega
    have h2 : ¬ n = k := by omega
    simp [hk, h1, h2]
  · by_cases hk' : k = n
    · subst hk'; simp [hn]
    · have h1 : ¬ k < n + 1 := by omega
      simp [h1, hk]; omega

/-- one `Append`: the content becomes `upsert`, well-formedness is kept, and only the map's own array
(or a fresh one) is written -/
theorem lmAppend_spec (grow : Nat → Nat) (st : LMStore) (l : LM) (k : String) (v : Val) (hwf : LMWF st l) :
    let r := lmAppend grow st l k v
    lmAbs r.1 r.2 = upsert (lmAbs st l) k v ∧ LMWF r.1 r.2 ∧ st.length ≤ r.1.length ∧
    (r.2.arr = l.arr ∨ st.length ≤ r.2.arr) ∧
    (∀ a, a < st.length → a ≠ l.arr → lmArrayOf r.1 a = lmArrayOf st a) := by
  simp only [lmAppend]
  cases hf : findKey k (lmAbs st l) with
  | some i =>
    simp only
    have hi : i < (lmAbs st l).length := findKey_some_lt k _ i hf
    have hil : i < l.len := by simp [lmAbs] at hi; omega
    refine ⟨?_, ⟨by simpa using hwf.arr, hwf.len, ?_⟩, by simp, by simp, ?_⟩
    · simp only [lmAbs]
      rw [lmArrayOf_set_same st _ _ hwf.arr, take_set_lt _ _ _ _ hil]
      exact findKey_some_upsert k v _ i hf
    · rw [lmArrayOf_set_same st _ _ hwf.arr]; simpa using hwf.cap
    · intro a _ hne; exact lmArrayOf_set_other st _ _ _ (fun e => hne e.symm)
  | none =>
    simp only
    by_cases hlt : l.len < l.cap
    · rw [if_pos hlt]
      refine ⟨?_, ⟨by simpa using hwf.arr, by simp only; omega, ?_⟩, by simp, Or.inl rfl, ?_⟩
      · simp only [lmAbs]
        rw [lmArrayOf_set_same st _ _ hwf.arr, take_set_snoc _ _ _ (by have := hwf.cap; omega)]
        exact findKey_none_upsert k v _ hf
      · rw [lmArrayOf_set_same st _ _ hwf.arr]; simpa using hwf.cap
      · intro a _ hne; exact lmArrayOf_set_other st _ _ _ (fun e => hne e.symm)
    · rw [if_neg hlt]
      have hlen : (lmAbs st l).length = l.len := by
        simp only [lmAbs, List.length_take]; have := hwf.cap; have := hwf.len; omega
      refine ⟨?_, ⟨by simp, by simp only; omega, ?_⟩, by simp, Or.inr (Nat.le_refl _), ?_⟩
      · simp only [lmAbs]
        rw [lmArrayOf_append_new]
        have : (List.take l.len (lmArrayOf st l.arr) ++ [(k, v)] ++
            lmPad (max (grow l.cap) (l.len + 1) - (l.len + 1))).take (l.len + 1)
            = List.take l.len (lmArrayOf st l.arr) ++ [(k, v)] := by
          rw [List.take_append_of_le_length (by simp [lmAbs] at hlen; simp; omega)]
          apply List.take_of_length_le; simp [lmAbs] at hlen; simp; omega
        rw [this]
        exact findKey_none_upsert k v _ hf
      · rw [lmArrayOf_append_new]; simp [lmPad, hlen]; omega
      · intro a ha _; exact lmArrayOf_append_left st _ a ha

/-- the chain keeps ownership: after a chain that started on an array `≥ n0`, arrays below `n0` are
unchanged -/
theorem lmChain_spec (grow : Nat → Nat) (n0 : Nat) (kvs : List (String × Val)) (s : LMStore × LM)
    (hwf : LMWF s.1 s.2) (hown : n0 ≤ s.2.arr) :
    lmAbs (lmChain grow s kvs).1 (lmChain grow s kvs).2 =
      kvs.foldl (fun acc kv => upsert acc kv.1 kv.2) (lmAbs s.1 s.2) ∧
    (∀ a, a < n0 → lmArrayOf (lmChain grow s kvs).1 a = lmArrayOf s.1 a) := by
  induction kvs generalizing s with
  | nil => exact ⟨rfl, fun _ _ => rfl⟩
  | cons kv kvs ih =>
    obtain ⟨h1, h2, h3, h4, h5⟩ := lmAppend_spec grow s.1 s.2 kv.1 kv.2 hwf
    have hown' : n0 ≤ (lmAppend grow s.1 s.2 kv.1 kv.2).2.arr := by
      rcases h4 with e | e
      · rw [e]; exact hown
      · have := hwf.arr; omega
    obtain ⟨i1, i2⟩ := ih (lmAppend grow s.1 s.2 kv.1 kv.2) h2 hown'
    have hstep : lmChain grow s (kv :: kvs) = lmChain grow (lmAppend grow s.1 s.2 kv.1 kv.2) kvs := rfl
    rw [hstep]
    refine ⟨?_, ?_⟩
    · rw [i1, h1]; rfl
    · intro a ha
      rw [i2 a ha]
      exact h5 a (by have := hwf.arr; omega) (by omega)

end P2.Heap
