import P2.Proofs.Json
/-! Document round trip: `decodeDoc (render e t) = some t` for every tree, given `EscOK e`. -/
namespace P2.Json

mutual
def fuelV : JTree → Nat
  | .str _ => 1
  | .arr l => 1 + fuelE l
  | .obj kvs => 1 + fuelM kvs
def fuelE : List JTree → Nat
  | [] => 0
  | t :: ts => 1 + fuelV t + fuelE ts
def fuelM : List (List Char × JTree) → Nat
  | [] => 0
  | (_, t) :: kvs => 1 + fuelV t + fuelM kvs
end

/-- the first character of a rendered value is one of `"`, `[`, `{` -/
theorem render_head (e : Char → List Char) (t : JTree) :
    ∃ c r, render e t = c :: r ∧ (c = '"' ∨ c = '[' ∨ c = '{') := by
  cases t with
  | str s => exact ⟨'"', s.flatMap e ++ ['"'], by simp [render, encodeString], Or.inl rfl⟩
  | arr l => exact ⟨'[', renderList e l ++ [']'], by simp [render], Or.inr (Or.inl rfl)⟩
  | obj kvs => exact ⟨'{', renderKVs e kvs ++ ['}'], by simp [render], Or.inr (Or.inr rfl)⟩

theorem decodeValue_str (n : Nat) (rest : List Char) :
    decodeValue (n+1) ('"' :: rest) = (do let (s, r) ← decodeBody rest []; pure (.str s, r)) := by
  simp [decodeValue]

theorem decodeValue_arr_ne (n : Nat) (rest : List Char) (h : ∀ r, rest ≠ ']' :: r) :
    decodeValue (n+1) ('[' :: rest) = (do let (l, r) ← decodeElems n rest; pure (.arr l, r)) := by
  rw [decodeValue.eq_def]
  split <;> simp_all

theorem decodeValue_obj_ne (n : Nat) (rest : List Char) (h : ∀ r, rest ≠ '}' :: r) :
    decodeValue (n+1) ('{' :: rest) = (do let (l, r) ← decodeMembers n rest; pure (.obj l, r)) := by
  rw [decodeValue.eq_def]
  split <;> simp_all

theorem renderList_cons_head (e : Char → List Char) (t : JTree) (ts : List JTree) (tail : List Char) :
    ∃ c r, renderList e (t :: ts) ++ tail = c :: r ∧ (c = '"' ∨ c = '[' ∨ c = '{') := by
  obtain ⟨c, r, hr, hc⟩ := render_head e t
  cases ts with
  | nil => exact ⟨c, r ++ tail, by simp [renderList, hr], hc⟩
  | cons t2 ts => exact ⟨c, r ++ (',' :: renderList e (t2 :: ts)) ++ tail, by simp [renderList, hr], hc⟩

theorem renderKVs_cons_head (e : Char → List Char) (kv : List Char × JTree) (kvs : List (List Char × JTree))
    (tail : List Char) : ∃ r, renderKVs e (kv :: kvs) ++ tail = '"' :: r := by
  obtain ⟨k, t⟩ := kv
  cases kvs with
  | nil => exact ⟨_, by simp [renderKVs, encodeString]; rfl⟩
  | cons kv2 kvs => exact ⟨_, by simp [renderKVs, encodeString]; rfl⟩

mutual
theorem decodeValue_render (e : Char → List Char) (he : EscOK e) :
    ∀ (t : JTree) (rest : List Char) (n : Nat), fuelV t ≤ n →
      decodeValue n (render e t ++ rest) = some (t, rest)
  | .str s, rest, n, hn => by
    cases n with
    | zero => simp [fuelV] at hn
    | succ n =>
      have := body_roundtrip e he s rest []
      simp only [render, encodeString, List.cons_append, List.append_assoc, decodeValue_str]
      simp only [List.nil_append] at this
      simp [this]
  | .arr [], rest, n, hn => by
    cases n with
    | zero => simp [fuelV] at hn
    | succ n => simp [render, renderList, decodeValue]
  | .arr (t :: ts), rest, n, hn => by
    cases n with
    | zero => simp [fuelV] at hn
    | succ n =>
      simp only [fuelV] at hn
      have hE := decodeElems_render e he (t :: ts) (by simp) rest n (by omega)
      simp only [render, List.cons_append, List.append_assoc, List.nil_append]
      obtain ⟨c, r, hr, hc⟩ := renderList_cons_head e t ts (']' :: rest)
      rw [decodeValue_arr_ne n _ (by intro r'; rw [hr]; rcases hc with h | h | h <;> simp [h])]
      simp [hE]
  | .obj [], rest, n, hn => by
    cases n with
    | zero => simp [fuelV] at hn
    | succ n => simp [render, renderKVs, decodeValue]
  | .obj (kv :: kvs), rest, n, hn => by
    cases n with
    | zero => simp [fuelV] at hn
    | succ n =>
      simp only [fuelV] at hn
      have hM := decodeMembers_render e he (kv :: kvs) (by simp) rest n (by omega)
      simp only [render, List.cons_append, List.append_assoc, List.nil_append]
      obtain ⟨r, hr⟩ := renderKVs_cons_head e kv kvs ('}' :: rest)
      rw [decodeValue_obj_ne n _ (by intro r'; rw [hr]; simp)]
      simp [hM]
theorem decodeElems_render (e : Char → List Char) (he : EscOK e) :
    ∀ (l : List JTree), l ≠ [] → ∀ (rest : List Char) (n : Nat), fuelE l ≤ n →
      decodeElems n (renderList e l ++ (']' :: rest)) = some (l, rest)
  | [], h, _, _, _ => absurd rfl h
  | [t], _, rest, n, hn => by
    cases n with
    | zero => simp [fuelE] at hn
    | succ n =>
      simp only [fuelE] at hn
      have hV := decodeValue_render e he t (']' :: rest) n (by omega)
      simp [renderList, decodeElems, hV]
  | t :: t2 :: ts, _, rest, n, hn => by
    cases n with
    | zero => simp [fuelE] at hn
    | succ n =>
      simp only [fuelE] at hn
      have hV := decodeValue_render e he t (',' :: (renderList e (t2 :: ts) ++ (']' :: rest))) n (by omega)
      have hE := decodeElems_render e he (t2 :: ts) (by simp) rest n (by simp only [fuelE]; omega)
      simp [renderList, decodeElems, hV, hE]
theorem decodeMembers_render (e : Char → List Char) (he : EscOK e) :
    ∀ (l : List (List Char × JTree)), l ≠ [] → ∀ (rest : List Char) (n : Nat), fuelM l ≤ n →
      decodeMembers n (renderKVs e l ++ ('}' :: rest)) = some (l, rest)
  | [], h, _, _, _ => absurd rfl h
  | [(k, t)], _, rest, n, hn => by
    cases n with
    | zero => simp [fuelM] at hn
    | succ n =>
      simp only [fuelM] at hn
      have hV := decodeValue_render e he t ('}' :: rest) n (by omega)
      have hK := string_roundtrip e he k (':' :: (render e t ++ ('}' :: rest)))
      simp [renderKVs, decodeMembers, hK, hV]
  | (k, t) :: kv2 :: kvs, _, rest, n, hn => by
    cases n with
    | zero => simp [fuelM] at hn
    | succ n =>
      simp only [fuelM] at hn
      have hV := decodeValue_render e he t (',' :: (renderKVs e (kv2 :: kvs) ++ ('}' :: rest))) n (by omega)
      have hM := decodeMembers_render e he (kv2 :: kvs) (by simp) rest n (by
        obtain ⟨k2, t2⟩ := kv2; simp only [fuelM] at hn ⊢; omega)
      have hK := string_roundtrip e he k
        (':' :: (render e t ++ (',' :: (renderKVs e (kv2 :: kvs) ++ ('}' :: rest)))))
      simp [renderKVs, decodeMembers, hK, hV, hM]
end

mutual
theorem fuelV_lt_len (e : Char → List Char) : ∀ t : JTree, fuelV t < (render e t).length
  | .str s => by simp [fuelV, render, encodeString]
  | .arr [] => by simp [fuelV, fuelE, render, renderList]
  | .arr (t :: ts) => by
    have := fuelE_le_len e (t :: ts) (by simp)
    simp only [fuelV, render, List.length_cons, List.length_append, List.length_nil]; omega
  | .obj [] => by simp [fuelV, fuelM, render, renderKVs]
  | .obj (kv :: kvs) => by
    have := fuelM_le_len e (kv :: kvs) (by simp)
    simp only [fuelV, render, List.length_cons, List.length_append, List.length_nil]; omega
theorem fuelE_le_len (e : Char → List Char) : ∀ l : List JTree, l ≠ [] → fuelE l ≤ (renderList e l).length
  | [], h => absurd rfl h
  | [t], _ => by
    have := fuelV_lt_len e t
    simp only [fuelE, renderList]; omega
  | t :: t2 :: ts, _ => by
    have h1 := fuelV_lt_len e t
    have h2 := fuelE_le_len e (t2 :: ts) (by simp)
    simp only [fuelE] at h2 ⊢
    simp only [renderList, List.length_append, List.length_cons]; omega
theorem fuelM_le_len (e : Char → List Char) : ∀ l : List (List Char × JTree), l ≠ [] →
    fuelM l ≤ (renderKVs e l).length
  | [], h => absurd rfl h
  | [(k, t)], _ => by
    have := fuelV_lt_len e t
    simp only [fuelM, renderKVs, List.length_append, List.length_cons]; omega
  | (k, t) :: kv2 :: kvs, _ => by
    have h1 := fuelV_lt_len e t
    have h2 := fuelM_le_len e (kv2 :: kvs) (by simp)
    obtain ⟨k2, t2⟩ := kv2
    simp only [fuelM] at h2 ⊢
    simp only [renderKVs, List.length_append, List.length_cons]; omega
end

theorem doc_roundtrip (e : Char → List Char) (he : EscOK e) (t : JTree) :
    decodeDoc (render e t) = some t := by
  have h := decodeValue_render e he t [] ((render e t).length + 1) (by have := fuelV_lt_len e t; omega)
  simp only [List.append_nil] at h
  simp [decodeDoc, h]

end P2.Json
