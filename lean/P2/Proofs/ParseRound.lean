import P2.Proofs.ParseLevels
/-! # The round trip `parse (render e) = e` for every table, tree and decoration

Structure (Appendix A2 of DESIGN.md, extended): for every tree three statements about its
**unparenthesised** form are proved together by structural recursion —
`Core` (it is parsed at every level whose context does not require parentheses), `PPU` (as the receiver
of a postfix form it is parsed and the postfix loop continues with it as accumulator), `PCU` (as a
same-operator left operand it is parsed and the loop of that level continues with it as accumulator) —
and `PL` (at a `parseLet` position). Parenthesised forms (needed or redundant) are derived generically. -/
namespace P2.Parse

/-! ### equations of the renderer -/

theorem render_nopar {t : Table} {ρ : Deco} {k : Nat} {fol : Follow} {e : E} (h : nPar t ρ k fol e = 0) :
    render t ρ k fol e = shape t ρ fol e := by
  simp [render, wrap, h, parenN]

theorem render_par {t : Table} {ρ : Deco} {k : Nat} {fol : Follow} {e : E} {m : Nat}
    (h : nPar t ρ k fol e = m + 1) : render t ρ k fol e = parenN (m+1) (shape t ρ .none e) := by
  simp [render, wrap, h]

theorem shape_bin (t : Table) (ρ : Deco) (fol : Follow) (o : String) (a b : E) :
    shape t ρ fol (.bin o a b) =
      render t (ρ.sub 0) (if sameOp o a then t.lvl o else t.lvl o + 1) (.op (t.lvl o)) a ++
        .op o :: render t (ρ.sub 1) (t.lvl o + 1) fol b := by
  simp only [shape, render]

theorem shape_un_some (t : Table) (ρ : Deco) (fol : Follow) (o : String) (a : E) {i : Nat} (h : t.pos o = some i) :
    shape t ρ fol (.un o a) = .op o :: render t (ρ.sub 0) (i + 1) fol a := by
  simp only [shape, render, h]

theorem shape_un_none (t : Table) (ρ : Deco) (fol : Follow) (o : String) (a : E) (h : t.pos o = none) :
    shape t ρ fol (.un o a) = .op o :: render t (ρ.sub 0) (t.n + 1) fol a := by
  simp only [shape, render, h]

theorem shape_call (t : Table) (ρ : Deco) (fol : Follow) (fn : E) (args : List E) :
    shape t ρ fol (.call fn args) =
      render t (ρ.sub 0) (t.n + 1) .call fn ++ .lp :: (shapeArgs t ρ 1 args ++ (trailTok ρ args ++ [.rp])) := by
  simp only [shape, render]

theorem shape_index (t : Table) (ρ : Deco) (fol : Follow) (l i : E) :
    shape t ρ fol (.index l i) =
      render t (ρ.sub 0) (t.n + 1) .post l ++ .lb :: (render t (ρ.sub 1) 0 .none i ++ [.rb]) := by
  simp only [shape, render]

theorem shape_member (t : Table) (ρ : Deco) (fol : Follow) (m : E) (key : String) :
    shape t ρ fol (.member m key) = render t (ρ.sub 0) (t.n + 1) .post m ++ [.dot, .ident key] := by
  simp only [shape, render]

theorem shape_method (t : Table) (ρ : Deco) (fol : Follow) (m : E) (name : String) (args : List E) :
    shape t ρ fol (.method m name args) =
      render t (ρ.sub 0) (t.n + 1) .post m ++
        .dot :: .ident name :: .lp :: (shapeArgs t ρ 1 args ++ (trailTok ρ args ++ [.rp])) := by
  simp only [shape, render]

theorem shape_let (t : Table) (ρ : Deco) (fol : Follow) (name : String) (v inner : E) :
    shape t ρ fol (.letE name v inner) =
      .kw "let" :: .ident name :: .op "=" ::
        (render t (ρ.sub 0) 0 .none v ++ .semi :: render t (ρ.sub 1) 0 .none inner) := by
  simp only [shape, render]

theorem shape_func (t : Table) (ρ : Deco) (fol : Follow) (name : String) (names : List String) (body inner : E) :
    shape t ρ fol (.funcE name names body inner) =
      .kw "func" :: .ident name :: .lp :: (identList names ++ .rp ::
        (render t (ρ.sub 0) 0 .none body ++ .semi :: render t (ρ.sub 1) 0 .none inner)) := by
  simp only [shape, render]

theorem shape_clos1 (t : Table) (ρ : Deco) (fol : Follow) (x : String) (body : E) :
    shape t ρ fol (.clos [x] body) = .ident x :: .op "->" :: render t (ρ.sub 0) 0 .none body := by
  simp only [shape, render]

theorem shape_closN (t : Table) (ρ : Deco) (fol : Follow) (x y : String) (more : List String) (body : E) :
    shape t ρ fol (.clos (x :: y :: more) body) =
      .lp :: (identList (x :: y :: more) ++ .rp :: .op "->" :: render t (ρ.sub 0) 0 .none body) := by
  simp only [shape, render]

theorem shape_list (t : Table) (ρ : Deco) (fol : Follow) (items : List E) :
    shape t ρ fol (.list items) = .lb :: (shapeArgs t ρ 0 items ++ (trailTok ρ items ++ [.rb])) := by
  simp only [shape]

theorem shape_map (t : Table) (ρ : Deco) (fol : Follow) (es : List (String × E)) :
    shape t ρ fol (.map es) = .lc :: (shapeEntries t ρ 0 es ++ (trailTok ρ es ++ [.rc])) := by
  simp only [shape]

theorem shape_ite (t : Table) (ρ : Deco) (fol : Follow) (c a b : E) :
    shape t ρ fol (.ite c a b) =
      .kw "if" :: (render t (ρ.sub 0) 0 .none c ++ .kw "then" :: (render t (ρ.sub 1) 0 .none a ++
        .kw "else" :: render t (ρ.sub 2) 0 .none b)) := by
  simp only [shape, render]

theorem shape_try (t : Table) (ρ : Deco) (fol : Follow) (a c : E) :
    shape t ρ fol (.tryC a c) =
      .kw "try" :: (render t (ρ.sub 0) 0 .none a ++ .kw "catch" :: render t (ρ.sub 1) 0 .none c) := by
  simp only [shape, render]

theorem shape_switch (t : Table) (ρ : Deco) (fol : Follow) (v : E) (cs : List (E × E)) (d : E) :
    shape t ρ fol (.switch v cs d) =
      .kw "switch" :: (render t (ρ.sub 0) 0 .none v ++ (shapeCases t ρ 2 cs ++
        .kw "default" :: render t (ρ.sub 1) 0 .none d)) := by
  simp only [shape, render]

theorem shapeArgs_one (t : Table) (ρ : Deco) (i : Nat) (a : E) :
    shapeArgs t ρ i [a] = render t (ρ.sub i) 0 .none a := by
  simp only [shapeArgs, render]

theorem shapeArgs_more (t : Table) (ρ : Deco) (i : Nat) (a b : E) (as : List E) :
    shapeArgs t ρ i (a :: b :: as) = render t (ρ.sub i) 0 .none a ++ .comma :: shapeArgs t ρ (i+1) (b :: as) := by
  simp only [shapeArgs, render]

theorem shapeEntries_one (t : Table) (ρ : Deco) (i : Nat) (key : String) (v : E) :
    shapeEntries t ρ i [(key, v)] = .ident key :: .colon :: render t (ρ.sub i) 0 .none v := by
  simp only [shapeEntries, render]

theorem shapeEntries_more (t : Table) (ρ : Deco) (i : Nat) (key : String) (v : E) (e2 : String × E)
    (es : List (String × E)) :
    shapeEntries t ρ i ((key, v) :: e2 :: es) =
      .ident key :: .colon :: (render t (ρ.sub i) 0 .none v ++ .comma :: shapeEntries t ρ (i+1) (e2 :: es)) := by
  simp only [shapeEntries, render]

theorem shapeCases_cons (t : Table) (ρ : Deco) (i : Nat) (c v : E) (cs : List (E × E)) :
    shapeCases t ρ i ((c, v) :: cs) =
      .kw "case" :: (render t (ρ.sub i) 0 .none c ++ .colon :: (render t (ρ.sub (i + 1)) 0 .none v ++
        shapeCases t ρ (i + 2) cs)) := by
  simp only [shapeCases, render]

/-! ### parentheses: when, and how many -/

theorem needs_zero (t : Table) (e : E) : needs t 0 .none e = false := by
  cases e <;> simp [needs, swallows]
  all_goals split <;> simp

theorem WF_not_let {t : Table} {σ : Scope} {e : E} (h : WF t σ false e) : e.isLet = false := by
  cases e <;> simp_all [WF, E.isLet]

theorem WF_true_of_false {t : Table} {σ : Scope} {e : E} (h : WF t σ false e) : WF t σ true e := by
  cases e <;> simp_all [WF]

theorem WF_false_of_true {t : Table} {σ : Scope} {e : E} (hl : e.isLet = false) (h : WF t σ true e) :
    WF t σ false e := by
  cases e <;> simp_all [WF, E.isLet]

theorem nPar_zero {t : Table} {ρ : Deco} {k : Nat} {fol : Follow} {e : E} (hl : e.isLet = false)
    (h : nPar t ρ k fol e = 0) : needs t k fol e = false ∧ ρ.par = 0 := by
  simp only [nPar, hl, Bool.false_eq_true, if_false] at h
  split at h
  · split at h
    · cases h
    · simp_all
  · omega

theorem nPar_of_needs_false {t : Table} {ρ : Deco} {k : Nat} {fol : Follow} {e : E}
    (hn : needs t k fol e = false) (hp : ρ.par = 0) : nPar t ρ k fol e = 0 := by
  simp [nPar, hn, hp]

/-- with explicit parentheses the level and the follower do not matter -/
theorem nPar_explicit {t : Table} {ρ : Deco} {e : E} (hl : e.isLet = false) (hp : ρ.par ≠ 0) (k : Nat)
    (fol : Follow) : nPar t ρ k fol e = ρ.par := by
  simp [nPar, hl, hp]

/-! ### the statements -/

/-- the unparenthesised node is parsed at every level whose context does not require parentheses -/
def Core (t : Table) (e : E) : Prop :=
  ∀ σ ρ k fol rest, WF t σ false e → k ≤ t.n + 1 → needs t k fol e = false → FollowOK t k fol rest →
    Ev (fun f => entry t f σ k (shape t ρ fol e ++ rest)) (.ok e rest)

/-- the unparenthesised node as receiver of a postfix form: parsed, and the postfix loop continues with it -/
def PPU (t : Table) (e : E) : Prop :=
  ∀ σ ρ fol rest r, WF t σ false e → needs t (t.n + 1) fol e = false → (fol = .post ∨ fol = .call) →
    (∃ x tl, rest = x :: tl ∧ isPostfixTok x = true) → (∀ tl, rest = .lp :: tl → fol = .call) →
    Ev (fun f => postfixLoop t f σ e rest) r →
    Ev (fun f => entry t f σ (t.n + 1) (shape t ρ fol e ++ rest)) r

/-- the unparenthesised binary node as left operand of its own operator: parsed at its level, and the
loop of that level continues with it as accumulator (left-associative chains) -/
def PCU (t : Table) (e : E) : Prop :=
  ∀ σ ρ o a b k0 fol rest r, e = .bin o a b → WF t σ false e → t.pos o = some k0 →
    FollowOK t (k0 + 1) fol rest →
    Ev (fun f => loopOp t f σ k0 o e rest) r →
    Ev (fun f => entry t f σ k0 (shape t ρ fol e ++ rest)) r

structure Good (t : Table) (e : E) : Prop where
  core : Core t e
  ppu : PPU t e
  pcu : PCU t e

/-- at a `parseLet` position -/
def PL (t : Table) (e : E) : Prop :=
  ∀ σ ρ rest, WF t σ true e → FollowOK t 0 .none rest →
    Ev (fun f => parseLet t f σ (render t ρ 0 .none e ++ rest)) (.ok e rest)

/-! ### derived: any decoration, any context -/

/-- a parenthesised rendering is a literal -/
theorem Good.lit_par {t : Table} (hwf : TableWF t) {e : E} (g : Good t e) (σ : Scope) (ρ : Deco) (m : Nat)
    (X : List Tok) (hw : WF t σ false e) :
    Ev (fun f => parseLit t f σ (parenN (m+1) (shape t ρ .none e) ++ X)) (.ok e X) :=
  parenN_lit hwf σ _ e m X (fun Y =>
    g.core σ ρ 0 .none (.rp :: Y) hw (Nat.zero_le _) (needs_zero t e) (FollowOK.stopper t 0 .none Y rfl))

/-- (A) parsing the rendering at any admissible level returns the tree -/
theorem Good.pa {t : Table} (hwf : TableWF t) {e : E} (g : Good t e) (σ : Scope) (ρ : Deco) (k : Nat)
    (fol : Follow) (rest : List Tok) (hw : WF t σ false e) (hk : k ≤ t.n + 1) (hfol : FollowOK t k fol rest) :
    Ev (fun f => entry t f σ k (render t ρ k fol e ++ rest)) (.ok e rest) := by
  cases hn : nPar t ρ k fol e with
  | zero =>
    rw [render_nopar hn]
    exact g.core σ ρ k fol rest hw hk (nPar_zero (WF_not_let hw) hn).1 hfol
  | succ m =>
    rw [render_par hn]
    exact from_lit hwf σ k hk fol _ e rest hfol (g.lit_par hwf σ ρ m rest hw)

/-- (P) as a receiver: parsed, then the postfix loop continues with the tree as accumulator -/
theorem Good.pp {t : Table} (hwf : TableWF t) {e : E} (g : Good t e) (σ : Scope) (ρ : Deco) (fol : Follow)
    (rest : List Tok) (r : PR E) (hw : WF t σ false e) (hfl : fol = .post ∨ fol = .call)
    (hrest : ∃ x tl, rest = x :: tl ∧ isPostfixTok x = true) (hlp : ∀ tl, rest = .lp :: tl → fol = .call)
    (hl : Ev (fun f => postfixLoop t f σ e rest) r) :
    Ev (fun f => entry t f σ (t.n + 1) (render t ρ (t.n + 1) fol e ++ rest)) r := by
  cases hn : nPar t ρ (t.n + 1) fol e with
  | zero =>
    rw [render_nopar hn]
    exact g.ppu σ ρ fol rest r hw (nPar_zero (WF_not_let hw) hn).1 hfl hrest hlp hl
  | succ m =>
    rw [render_par hn]
    exact Ev.seq (g.lit_par hwf σ ρ m rest hw) hl (fun f hf => nonop_step t f σ _ hf)

/-- (C) as a left operand of `o`: parsed at the level of `o`, then the loop continues with the tree -/
theorem Good.pc {t : Table} (hwf : TableWF t) {e : E} (g : Good t e) (σ : Scope) (ρ : Deco) (k0 : Nat) (o : String)
    (fol : Follow) (rest : List Tok) (r : PR E) (hw : WF t σ false e) (hp : t.pos o = some k0)
    (hfol : FollowOK t (k0 + 1) fol rest) (hl : Ev (fun f => loopOp t f σ k0 o e rest) r) :
    Ev (fun f => entry t f σ k0 (render t ρ (if sameOp o e then k0 else k0 + 1) fol e ++ rest)) r := by
  have hk0 := pos_lt_n hp
  -- the generic way: parse at level k0+1, then one step of `parseOp k0`
  have generic : ∀ toks, toks = render t ρ (k0 + 1) fol e →
      Ev (fun f => entry t f σ k0 (toks ++ rest)) r := by
    intro toks ht; subst ht
    exact Ev.seq (g.pa hwf σ ρ (k0 + 1) fol rest hw (by omega) hfol) hl
      (fun f hf => entry_bin_step hk0 (pos_get hp) f σ _ hf)
  by_cases hs : sameOp o e = true
  · simp only [hs, if_true]
    by_cases hpar : ρ.par = 0
    · -- flat chain
      obtain ⟨a, b, rfl⟩ : ∃ a b, e = .bin o a b := by
        cases e <;> simp_all [sameOp]
      have hn : needs t k0 fol (.bin o a b) = false := by simp [needs, hp]
      rw [render_nopar (nPar_of_needs_false hn hpar)]
      exact g.pcu σ ρ o a b k0 fol rest r rfl hw hp hfol hl
    · apply generic
      simp only [render, wrap, nPar_explicit (WF_not_let hw) hpar]
  · simp only [hs, Bool.false_eq_true, if_false]
    exact generic _ rfl

/-- (L) at a `parseLet` position, for a tree that is not a `let`/`func` -/
theorem Good.pl {t : Table} (hwf : TableWF t) {e : E} (g : Good t e) (hl : e.isLet = false) : PL t e := by
  intro σ ρ rest hw hfol
  exact let_of_entry hwf σ _ e rest (g.pa hwf σ ρ 0 .none rest (WF_false_of_true hl hw) (Nat.zero_le _) hfol)

/-! ### building `Good` -/

/-- literal-like nodes (identifier, constants, list and map literal): one statement about `parseLiteral` -/
theorem good_of_lit {t : Table} (hwf : TableWF t) {e : E} (hne : ∀ o a b, e ≠ .bin o a b)
    (hlit : ∀ σ ρ fol rest, WF t σ false e → (∀ tl, rest ≠ .op "->" :: tl) →
      Ev (fun f => parseLit t f σ (shape t ρ fol e ++ rest)) (.ok e rest)) : Good t e := by
  refine ⟨?_, ?_, ?_⟩
  · intro σ ρ k fol rest hw hk _ hfol
    exact from_lit hwf σ k hk fol _ e rest hfol (hlit σ ρ fol rest hw hfol.arrow)
  · intro σ ρ fol rest r hw _ _ hrest _ hl
    refine Ev.seq (hlit σ ρ fol rest hw ?_) hl (fun f hf => nonop_step t f σ _ hf)
    obtain ⟨x, tl, rfl, hx⟩ := hrest
    intro tl' he; cases he; simp [isPostfixTok] at hx
  · intro σ ρ o a b k0 fol rest r he
    exact absurd he (hne o a b)

/-- the open-ended forms (`if`, `try`, `switch`, closures): unparenthesised only when nothing follows -/
theorem good_of_open {t : Table} (hwf : TableWF t) {e : E} (hne : ∀ o a b, e ≠ .bin o a b)
    (hneeds : ∀ k fol, needs t k fol e = (fol != .none))
    (hlit : ∀ σ ρ rest, WF t σ false e → FollowOK t 0 .none rest →
      Ev (fun f => parseLit t f σ (shape t ρ .none e ++ rest)) (.ok e rest)) : Good t e := by
  refine ⟨?_, ?_, ?_⟩
  · intro σ ρ k fol rest hw hk hn hfol
    have hf : fol = .none := by
      rw [hneeds] at hn; cases fol <;> simp_all
    subst hf
    exact from_lit hwf σ k hk .none _ e rest hfol (hlit σ ρ rest hw (hfol.none_any 0 .none rfl))
  · intro σ ρ fol rest r hw hn hfl _ _ _
    rw [hneeds] at hn
    rcases hfl with rfl | rfl <;> simp at hn
  · intro σ ρ o a b k0 fol rest r he
    exact absurd he (hne o a b)

/-! ### atoms -/

theorem good_ident {t : Table} (hwf : TableWF t) (s : String) : Good t (.ident s) :=
  good_of_lit hwf (fun _ _ _ h => by cases h) (fun σ ρ fol rest hw harrow => by
    simp only [shape, List.cons_append, List.nil_append]
    refine Ev.step0 (fun f => ?_)
    rw [lit_ident t f σ s rest harrow]
    simp only [WF] at hw
    unfold identLit
    cases h : lookup σ s with
    | none => simp [h, isVarOrFunc] at hw
    | some kd => cases kd <;> simp_all [isVarOrFunc])

theorem good_cst {t : Table} (hwf : TableWF t) (s : String) : Good t (.cst s) :=
  good_of_lit hwf (fun _ _ _ h => by cases h) (fun σ ρ fol rest hw harrow => by
    simp only [shape, List.cons_append, List.nil_append]
    refine Ev.step0 (fun f => ?_)
    rw [lit_ident t f σ s rest harrow]
    simp only [WF] at hw
    unfold identLit
    cases h : lookup σ s with
    | none => simp [h, isCstOf] at hw
    | some kd =>
      cases kd with
      | var => simp [h, isCstOf] at hw
      | func => simp [h, isCstOf] at hw
      | cst e =>
        cases e <;> simp [h, isCstOf] at hw
        subst hw; rfl)

theorem good_num {t : Table} (hwf : TableWF t) (s : String) : Good t (.num s) :=
  good_of_lit hwf (fun _ _ _ h => by cases h) (fun σ ρ fol rest _ _ => by
    simp only [shape, List.cons_append, List.nil_append]
    exact Ev.step0 (fun f => lit_num t f σ s rest))

theorem good_str {t : Table} (hwf : TableWF t) (s : String) : Good t (.str s) :=
  good_of_lit hwf (fun _ _ _ h => by cases h) (fun σ ρ fol rest _ _ => by
    simp only [shape, List.cons_append, List.nil_append]
    exact Ev.step0 (fun f => lit_str t f σ s rest))

/-! ### binary and prefix operators -/

theorem good_bin {t : Table} (hwf : TableWF t) {o : String} {a b : E} (ga : Good t a) (gb : Good t b) :
    Good t (.bin o a b) := by
  -- at the node's own level: parse the flat rendering, end in the loop with the tree as accumulator
  have hself : ∀ σ ρ k0 fol rest r, WF t σ false (.bin o a b) → t.pos o = some k0 →
      FollowOK t (k0 + 1) fol rest →
      Ev (fun f => loopOp t f σ k0 o (.bin o a b) rest) r →
      Ev (fun f => entry t f σ k0 (shape t ρ fol (.bin o a b) ++ rest)) r := by
    intro σ ρ k0 fol rest r hw hp hfol hl
    simp only [WF] at hw
    obtain ⟨_, hwa, hwb⟩ := hw
    have hk0 := pos_lt_n hp
    rw [shape_bin, lvl_of_pos hp, List.append_assoc, List.cons_append]
    have hfol' : FollowOK t (k0 + 1) (.op k0) (.op o :: (render t (ρ.sub 1) (k0 + 1) fol b ++ rest)) := by
      refine ⟨fun o' tl j h1 h2 => ?_, fun tl h1 => ?_, fun x tl h1 => ?_⟩
      · cases h1
        rw [hp] at h2; cases h2
        exact ⟨rfl, Nat.lt_succ_self _⟩
      · cases h1; exact pos_ne_arrow hwf hp rfl
      · cases h1; rfl
    have hl' : Ev (fun f => loopOp t f σ k0 o a (.op o :: (render t (ρ.sub 1) (k0 + 1) fol b ++ rest))) r :=
      Ev.seq (gb.pa hwf σ (ρ.sub 1) (k0 + 1) fol rest hwb (by omega) hfol) hl
        (fun f hf => loop_step hk0 f σ o a _ hf)
    exact ga.pc hwf σ (ρ.sub 0) k0 o (.op k0) _ r hwa hp hfol' hl'
  refine ⟨?_, ?_, ?_⟩
  · intro σ ρ k fol rest hw hk hn hfol
    have hw' := hw
    simp only [WF] at hw'
    obtain ⟨k0, hp⟩ := Option.isSome_iff_exists.mp hw'.1
    have hk0 := pos_lt_n hp
    have hkk : k ≤ k0 := by
      simp [needs, hp] at hn; omega
    have hstop := loop_stops hwf σ k0 o (pos_get hp) (.bin o a b) rest
      (fun o' tl j h1 h2 => by have := (hfol.op o' tl j h1 h2).2; omega)
    have h0 := hself σ ρ k0 fol rest _ hw hp (hfol.mono (by omega)) hstop
    exact pass_through hwf σ (k0 - k) k _ _ rest (by omega) hfol.lt
      (by rw [show k + (k0 - k) = k0 by omega]; exact h0)
  · intro σ ρ fol rest r hw hn _ _ _ _
    have hw' := hw
    simp only [WF] at hw'
    obtain ⟨k0, hp⟩ := Option.isSome_iff_exists.mp hw'.1
    have hk0 := pos_lt_n hp
    simp [needs, hp] at hn; omega
  · intro σ ρ o' a' b' k0 fol rest r he hw hp hfol hl
    cases he
    exact hself σ ρ k0 fol rest r hw hp hfol hl

theorem good_un {t : Table} (hwf : TableWF t) {u : String} {a : E} (ga : Good t a) : Good t (.un u a) := by
  refine ⟨?_, ?_, ?_⟩
  · intro σ ρ k fol rest hw hk hn hfol
    simp only [WF] at hw
    obtain ⟨hu, hwa⟩ := hw
    cases hp : t.pos u with
    | some i =>
      have hi := pos_lt_n hp
      simp only [needs, hp, Bool.or_eq_false_iff, decide_eq_false_iff_not] at hn
      obtain ⟨hkn, hsw⟩ := hn
      rw [shape_un_some t ρ fol u a hp, List.cons_append]
      have hfa : FollowOK t (i + 1) fol rest := by
        refine ⟨fun o tl j h1 h2 => ?_, hfol.arrow, hfol.post⟩
        obtain ⟨hf1, _⟩ := hfol.op o tl j h1 h2
        refine ⟨hf1, ?_⟩
        subst hf1
        simp [swallows] at hsw
        omega
      have hn' : Ev (fun f => entry t f σ t.n (.op u :: (render t (ρ.sub 0) (i + 1) fol a ++ rest)))
          (.ok (.un u a) rest) :=
        Ev.step1 (ga.pa hwf σ (ρ.sub 0) (i + 1) fol rest hwa (by omega) hfa)
          (fun f hf => unary_some hwf.fixed f σ _ hu hp hf)
      exact from_unary hwf σ k (by omega) _ _ rest hfol.lt hn'
    | none =>
      simp only [needs, hp, decide_eq_false_iff_not] at hn
      rw [shape_un_none t ρ fol u a hp, List.cons_append]
      have hfa : FollowOK t (t.n + 1) fol rest := by
        refine ⟨fun o tl j h1 h2 => ?_, hfol.arrow, hfol.post⟩
        obtain ⟨hf1, _⟩ := hfol.op o tl j h1 h2
        exact ⟨hf1, by have := pos_lt_n h2; omega⟩
      have hn' : Ev (fun f => entry t f σ t.n (.op u :: (render t (ρ.sub 0) (t.n + 1) fol a ++ rest)))
          (.ok (.un u a) rest) :=
        Ev.step1 (ga.pa hwf σ (ρ.sub 0) (t.n + 1) fol rest hwa (Nat.le_refl _) hfa)
          (fun f hf => unary_none f σ _ hu hp hf)
      exact from_unary hwf σ k (by omega) _ _ rest hfol.lt hn'
  · intro σ ρ fol rest r hw hn _ _ _ _
    cases hp : t.pos u <;> simp [needs, hp] at hn
  · intro σ ρ o a b k0 fol rest r he
    cases he

/-! ### argument lists, map entries, `case` lists, parameter lists -/

theorem parseLet_ok_not_close {t : Table} (hp : t.pinned = false) {f : Nat} {σ : Scope} {ts : List Tok} {e : E}
    {r : List Tok} (h : parseLet t f σ ts = .ok e r) (br : Bool) :
    ∀ x tl, ts = x :: tl → isClose br x = false := by
  intro x tl he; subst he
  cases f with
  | zero => simp [parseLet] at h
  | succ f =>
    cases x <;> first
      | rfl
      | (exfalso
         simp only [parseLet, plevel_eq hp (Nat.zero_le _)] at h
         obtain ⟨y, tl', he, hy⟩ := entry_ok_head h
         cases he
         rcases hy with hy | ⟨s, hs⟩
         · simp [canStartLit] at hy
         · cases hs)

theorem argsLoop_ok_not_close {t : Table} (hp : t.pinned = false) {f : Nat} {σ : Scope} {br : Bool}
    {ts : List Tok} {as : List E} {r : List Tok} (h : argsLoop t f σ br ts = .ok as r) :
    ∀ x tl, ts = x :: tl → isClose br x = false := by
  cases f with
  | zero => simp [argsLoop] at h
  | succ f =>
    simp only [argsLoop] at h
    split at h
    · rename_i heq; exact parseLet_ok_not_close hp heq br
    · cases h
    · rename_i hne _ ; cases hr : parseLet t f σ ts <;> simp_all [PR.fail]

/-- a non-empty argument list up to and including the closing bracket, with or without trailing comma -/
def PArgs (t : Table) (as : List E) : Prop :=
  ∀ σ ρ i br (tr : Bool) X, WFs t σ as → as ≠ [] →
    Ev (fun f => argsLoop t f σ br
      (shapeArgs t ρ i as ++ ((if tr then [.comma] else []) ++ closeTok br :: X))) (.ok as X)

theorem stopper_close (br : Bool) : isStopper (closeTok br) = true := by cases br <;> rfl

theorem pargs_nil (t : Table) : PArgs t [] := fun _ _ _ _ _ _ _ h => absurd rfl h

theorem pargs_one {t : Table} {a : E} (pla : PL t a) : PArgs t [a] := by
  intro σ ρ i br tr X hw _
  simp only [WFs] at hw
  rw [shapeArgs_one]
  cases tr with
  | false =>
    simp only [Bool.false_eq_true, if_false, List.nil_append]
    exact Ev.step1 (pla σ (ρ.sub i) _ hw.1 (FollowOK.stopper t 0 .none X (stopper_close br)))
      (fun f hf => argsLoop_last t f σ br _ hf)
  | true =>
    simp only [if_true, List.cons_append, List.nil_append]
    exact Ev.step1 (pla σ (ρ.sub i) _ hw.1 (FollowOK.stopper t 0 .none _ rfl))
      (fun f hf => argsLoop_trail t f σ br _ hf)

theorem pargs_cons {t : Table} (hwf : TableWF t) {a b : E} {as : List E} (pla : PL t a)
    (ih : PArgs t (b :: as)) : PArgs t (a :: b :: as) := by
  intro σ ρ i br tr X hw _
  simp only [WFs] at hw
  rw [shapeArgs_more, List.append_assoc, List.cons_append]
  have h2 := ih σ ρ (i + 1) br tr X (by simpa [WFs] using hw.2) (by simp)
  have hnc : ∀ x tl, shapeArgs t ρ (i + 1) (b :: as) ++ ((if tr = true then [Tok.comma] else []) ++ closeTok br :: X)
      = x :: tl → isClose br x = false := by
    obtain ⟨f0, hf⟩ := h2
    exact argsLoop_ok_not_close hwf.fixed (hf f0 (Nat.le_refl _))
  exact Ev.step2 (pla σ (ρ.sub i) _ hw.1 (FollowOK.stopper t 0 .none _ rfl)) h2
    (fun f h1 h2 => argsLoop_more t f σ br _ h1 hnc h2)

theorem trailTok_cons (ρ : Deco) {α : Type} (a : α) (as : List α) :
    trailTok ρ (a :: as) = if ρ.trail = true then [.comma] else [] := by
  simp [trailTok]

/-- `parseArgs` on a complete argument list (possibly empty) -/
theorem args_full {t : Table} (hwf : TableWF t) {as : List E} (h : PArgs t as) (σ : Scope) (ρ : Deco) (i : Nat)
    (br : Bool) (X : List Tok) (hw : WFs t σ as) :
    Ev (fun f => parseArgs t f σ br (shapeArgs t ρ i as ++ (trailTok ρ as ++ closeTok br :: X))) (.ok as X) := by
  cases as with
  | nil =>
    simp only [shapeArgs, trailTok, List.isEmpty_nil, Bool.not_true, Bool.and_false, Bool.false_eq_true,
      if_false, List.nil_append]
    exact Ev.step0 (fun f => args_empty t f σ br X)
  | cons a as =>
    rw [trailTok_cons]
    have h2 := h σ ρ i br ρ.trail X hw (by simp)
    have hnc : ∀ x tl, shapeArgs t ρ i (a :: as) ++ ((if ρ.trail = true then [Tok.comma] else []) ++ closeTok br :: X)
        = x :: tl → isClose br x = false := by
      obtain ⟨f0, hf⟩ := h2
      exact argsLoop_ok_not_close hwf.fixed (hf f0 (Nat.le_refl _))
    exact Ev.succ h2 (fun f => args_start t f σ br _ hnc)

/-- the entries of a map literal up to and including `}` -/
def PEntries (t : Table) (es : List (String × E)) : Prop :=
  ∀ σ ρ i keys (tr : Bool) X, WFm t σ keys es → es ≠ [] →
    Ev (fun f => parseMap t f σ keys
      (shapeEntries t ρ i es ++ ((if tr then [.comma] else []) ++ .rc :: X))) (.ok es X)

theorem pentries_nil (t : Table) : PEntries t [] := fun _ _ _ _ _ _ _ h => absurd rfl h

theorem pentries_one {t : Table} {key : String} {v : E} (plv : PL t v) : PEntries t [(key, v)] := by
  intro σ ρ i keys tr X hw _
  simp only [WFm] at hw
  rw [shapeEntries_one]
  cases tr with
  | false =>
    simp only [Bool.false_eq_true, if_false, List.nil_append, List.cons_append]
    exact Ev.step2 (plv σ (ρ.sub i) _ hw.2.1 (FollowOK.stopper t 0 .none X rfl))
      (Ev.step0 (fun f => map_end t f σ (key :: keys) X))
      (fun f h1 h2 => map_entry_last t f σ keys key _ hw.1 h1 h2)
  | true =>
    simp only [if_true, List.cons_append, List.nil_append]
    exact Ev.step2 (plv σ (ρ.sub i) _ hw.2.1 (FollowOK.stopper t 0 .none _ rfl))
      (Ev.step0 (fun f => map_end t f σ (key :: keys) X))
      (fun f h1 h2 => map_entry_comma t f σ keys key _ hw.1 h1 h2)

theorem pentries_cons {t : Table} {key : String} {v : E} {e2 : String × E} {es : List (String × E)}
    (plv : PL t v) (ih : PEntries t (e2 :: es)) : PEntries t ((key, v) :: e2 :: es) := by
  intro σ ρ i keys tr X hw _
  simp only [WFm] at hw
  rw [shapeEntries_more]
  simp only [List.cons_append, List.append_assoc]
  have h2 := ih σ ρ (i + 1) (key :: keys) tr X hw.2.2 (by simp)
  exact Ev.step2 (plv σ (ρ.sub i) _ hw.2.1 (FollowOK.stopper t 0 .none _ rfl)) h2
    (fun f h1 h2 => map_entry_comma t f σ keys key _ hw.1 h1 h2)

theorem entries_full {t : Table} {es : List (String × E)} (h : PEntries t es) (σ : Scope) (ρ : Deco) (i : Nat)
    (X : List Tok) (hw : WFm t σ [] es) :
    Ev (fun f => parseMap t f σ [] (shapeEntries t ρ i es ++ (trailTok ρ es ++ .rc :: X))) (.ok es X) := by
  cases es with
  | nil =>
    simp only [shapeEntries, trailTok, List.isEmpty_nil, Bool.not_true, Bool.and_false, Bool.false_eq_true,
      if_false, List.nil_append]
    exact Ev.step0 (fun f => map_end t f σ [] X)
  | cons e es =>
    rw [trailTok_cons]
    exact h σ ρ i [] ρ.trail X hw (by simp)

/-- the `case` list of a `switch` followed by its `default` branch -/
def PCases (t : Table) (cs : List (E × E)) : Prop :=
  ∀ σ ρ i (dtoks : List Tok) (d : E) X, WFc t σ cs →
    Ev (fun f => parseLet t f σ (dtoks ++ X)) (.ok d X) →
    Ev (fun f => parseCases t f σ (shapeCases t ρ i cs ++ .kw "default" :: (dtoks ++ X))) (.ok (cs, d) X)

theorem pcases_nil (t : Table) : PCases t [] := by
  intro σ ρ i dtoks d X _ hd
  simp only [shapeCases, List.nil_append]
  exact Ev.step1 hd (fun f hf => cases_default t f σ _ hf)

theorem pcases_cons {t : Table} (hwf : TableWF t) {c v : E} {cs : List (E × E)} (gc : Good t c) (plv : PL t v)
    (ih : PCases t cs) : PCases t ((c, v) :: cs) := by
  intro σ ρ i dtoks d X hw hd
  simp only [WFc] at hw
  rw [shapeCases_cons]
  simp only [List.cons_append, List.append_assoc]
  have h3 := ih σ ρ (i + 2) dtoks d X hw.2.2 hd
  have hstop : FollowOK t 0 .none (shapeCases t ρ (i + 2) cs ++ .kw "default" :: (dtoks ++ X)) := by
    cases cs with
    | nil => simp only [shapeCases, List.nil_append]; exact FollowOK.stopper t 0 .none _ rfl
    | cons c2 cs2 =>
      obtain ⟨c2, v2⟩ := c2
      rw [shapeCases_cons]; simp only [List.cons_append]; exact FollowOK.stopper t 0 .none _ rfl
  exact Ev.step3 (gc.pa hwf σ (ρ.sub i) 0 .none _ hw.1 (Nat.zero_le _) (FollowOK.stopper t 0 .none _ rfl))
    (plv σ (ρ.sub (i + 1)) _ hw.2.1 hstop) h3
    (fun f h1 h2 h3 => cases_case hwf.fixed f σ _ h1 h2 h3)

/-- `parseIdentList` reads back a rendered parameter list -/
theorem identList_parse : ∀ (names acc : List String) (X : List Tok), names ≠ [] →
    (∀ s, s ∈ names → s ∉ acc) → names.Nodup →
    parseIdentList acc (identList names ++ .rp :: X) = some (acc.reverse ++ names, X)
  | [], _, _, h, _, _ => absurd rfl h
  | [a], acc, X, _, hacc, _ => by
    simp [identList, parseIdentList, hacc a]
  | a :: b :: more, acc, X, _, hacc, hnd => by
    have hnd' := List.nodup_cons.mp hnd
    have ih := identList_parse (b :: more) (a :: acc) X (by simp)
      (fun s hs hm => by
        rcases List.mem_cons.mp hm with h | h
        · subst h; exact hnd'.1 hs
        · exact hacc s (List.mem_cons_of_mem _ hs) h) hnd'.2
    have ha : a ∉ acc := hacc a (by simp)
    simp only [identList, List.cons_append]
    rw [parseIdentList]
    simp only [ha, if_false, ih, List.reverse_cons, List.append_assoc, List.singleton_append]

theorem startsIdentComma_identList (x y : String) (more : List String) (Y : List Tok) :
    startsIdentComma (identList (x :: y :: more) ++ Y) = true := by
  simp [identList, startsIdentComma]

/-! ### postfix forms -/

theorem good_of_postfix {t : Table} (hwf : TableWF t) {e : E} (hne : ∀ o a b, e ≠ .bin o a b)
    (hneeds : ∀ k fol, k ≤ t.n + 1 → needs t k fol e = needs t (t.n + 1) fol e)
    (hstep : ∀ σ ρ fol rest r, WF t σ false e → needs t (t.n + 1) fol e = false →
      (∀ tl, rest = .lp :: tl → fol = .call) →
      Ev (fun f => postfixLoop t f σ e rest) r →
      Ev (fun f => entry t f σ (t.n + 1) (shape t ρ fol e ++ rest)) r) : Good t e := by
  refine ⟨?_, ?_, ?_⟩
  · intro σ ρ k fol rest hw hk hn hfol
    have h1 := hstep σ ρ fol rest (.ok e rest) hw (by rw [← hneeds k fol hk]; exact hn)
      (fun tl he => absurd (hfol.post _ _ he) (by simp [isPostfixTok]))
      (Ev.step0 (fun f => postfix_stop t f σ e rest hfol.post))
    exact from_nonop hwf σ k hk _ e rest hfol.lt h1
  · intro σ ρ fol rest r hw hn _ _ hlp hl
    exact hstep σ ρ fol rest r hw hn hlp hl
  · intro σ ρ o a b k0 fol rest r he
    exact absurd he (hne o a b)

theorem good_call {t : Table} (hwf : TableWF t) {fn : E} {args : List E} (gf : Good t fn) (pas : PArgs t args) :
    Good t (.call fn args) :=
  good_of_postfix hwf (fun _ _ _ h => by cases h) (fun k fol _ => by simp [needs])
    (fun σ ρ fol rest r hw _ _ hl => by
      simp only [WF] at hw
      rw [shape_call]
      simp only [List.append_assoc, List.cons_append, List.nil_append]
      refine gf.pp hwf σ (ρ.sub 0) .call _ r hw.1 (Or.inr rfl) ⟨_, _, rfl, rfl⟩ (fun _ _ => rfl) ?_
      exact Ev.seq (args_full hwf pas σ ρ 1 false rest hw.2) hl (fun f hf => postfix_call t f σ fn _ hf))

theorem good_index {t : Table} (hwf : TableWF t) {l i : E} (gl : Good t l) (gi : Good t i) :
    Good t (.index l i) :=
  good_of_postfix hwf (fun _ _ _ h => by cases h) (fun k fol _ => by simp [needs])
    (fun σ ρ fol rest r hw _ _ hl => by
      simp only [WF] at hw
      rw [shape_index]
      simp only [List.append_assoc, List.cons_append, List.nil_append]
      refine gl.pp hwf σ (ρ.sub 0) .post _ r hw.1 (Or.inl rfl) ⟨_, _, rfl, rfl⟩ (fun tl he => by cases he) ?_
      exact Ev.seq (gi.pa hwf σ (ρ.sub 1) 0 .none (.rb :: rest) hw.2 (Nat.zero_le _)
        (FollowOK.stopper t 0 .none rest rfl)) hl (fun f hf => postfix_index hwf.fixed f σ l _ hf))

theorem good_member {t : Table} (hwf : TableWF t) {m : E} {key : String} (gm : Good t m) :
    Good t (.member m key) :=
  good_of_postfix hwf (fun _ _ _ h => by cases h) (fun k fol _ => by simp [needs])
    (fun σ ρ fol rest r hw hn hlp hl => by
      simp only [WF] at hw
      rw [shape_member]
      simp only [List.append_assoc, List.cons_append, List.nil_append]
      refine gm.pp hwf σ (ρ.sub 0) .post _ r hw (Or.inl rfl) ⟨_, _, rfl, rfl⟩ (fun tl he => by cases he) ?_
      refine Ev.succ hl (fun f => postfix_member t f σ m key rest (fun tl he => ?_))
      have := hlp tl he
      subst this
      simp [needs] at hn)

theorem good_method {t : Table} (hwf : TableWF t) {m : E} {name : String} {args : List E} (gm : Good t m)
    (pas : PArgs t args) : Good t (.method m name args) :=
  good_of_postfix hwf (fun _ _ _ h => by cases h) (fun k fol _ => by simp [needs])
    (fun σ ρ fol rest r hw _ _ hl => by
      simp only [WF] at hw
      rw [shape_method]
      simp only [List.append_assoc, List.cons_append, List.nil_append]
      refine gm.pp hwf σ (ρ.sub 0) .post _ r hw.1 (Or.inl rfl) ⟨_, _, rfl, rfl⟩ (fun tl he => by cases he) ?_
      exact Ev.seq (args_full hwf pas σ ρ 1 false rest hw.2) hl (fun f hf => postfix_method t f σ m name _ hf))

/-! ### list and map literals -/

theorem good_list {t : Table} (hwf : TableWF t) {items : List E} (pas : PArgs t items) : Good t (.list items) :=
  good_of_lit hwf (fun _ _ _ h => by cases h) (fun σ ρ fol rest hw _ => by
    simp only [WF] at hw
    rw [shape_list]
    simp only [List.append_assoc, List.cons_append, List.nil_append]
    exact Ev.step1 (args_full hwf pas σ ρ 0 true rest hw) (fun f hf => lit_list t f σ _ hf))

theorem good_map {t : Table} (hwf : TableWF t) {es : List (String × E)} (pes : PEntries t es) : Good t (.map es) :=
  good_of_lit hwf (fun _ _ _ h => by cases h) (fun σ ρ fol rest hw _ => by
    simp only [WF] at hw
    rw [shape_map]
    simp only [List.append_assoc, List.cons_append, List.nil_append]
    exact Ev.step1 (entries_full pes σ ρ 0 rest hw) (fun f hf => lit_map t f σ _ hf))

/-! ### the open-ended forms -/

theorem good_ite {t : Table} (hwf : TableWF t) {c a b : E} (gc : Good t c) (pla : PL t a) (plb : PL t b) :
    Good t (.ite c a b) :=
  good_of_open hwf (fun _ _ _ h => by cases h) (fun k fol => by simp [needs])
    (fun σ ρ rest hw hfol => by
      simp only [WF] at hw
      rw [shape_ite]
      simp only [List.append_assoc, List.cons_append]
      exact Ev.step3
        (gc.pa hwf σ (ρ.sub 0) 0 .none _ hw.1 (Nat.zero_le _) (FollowOK.stopper t 0 .none _ rfl))
        (pla σ (ρ.sub 1) _ hw.2.1 (FollowOK.stopper t 0 .none _ rfl))
        (plb σ (ρ.sub 2) rest hw.2.2 hfol)
        (fun f h1 h2 h3 => lit_if hwf.fixed f σ _ h1 h2 h3))

theorem good_try {t : Table} (hwf : TableWF t) {a c : E} (pla : PL t a) (plc : PL t c) : Good t (.tryC a c) :=
  good_of_open hwf (fun _ _ _ h => by cases h) (fun k fol => by simp [needs])
    (fun σ ρ rest hw hfol => by
      simp only [WF] at hw
      rw [shape_try]
      simp only [List.append_assoc, List.cons_append]
      exact Ev.step2
        (pla σ (ρ.sub 0) _ hw.1 (FollowOK.stopper t 0 .none _ rfl))
        (plc σ (ρ.sub 1) rest hw.2 hfol)
        (fun f h1 h2 => lit_try t f σ _ h1 h2))

theorem followOK_cases (t : Table) (ρ : Deco) (i : Nat) (cs : List (E × E)) (Y : List Tok) :
    FollowOK t 0 .none (shapeCases t ρ i cs ++ .kw "default" :: Y) := by
  cases cs with
  | nil => simp only [shapeCases, List.nil_append]; exact FollowOK.stopper t 0 .none _ rfl
  | cons c2 cs2 =>
    obtain ⟨c2, v2⟩ := c2
    rw [shapeCases_cons]; simp only [List.cons_append]; exact FollowOK.stopper t 0 .none _ rfl

theorem good_switch {t : Table} (hwf : TableWF t) {v d : E} {cs : List (E × E)} (gv : Good t v)
    (pcs : PCases t cs) (pld : PL t d) : Good t (.switch v cs d) :=
  good_of_open hwf (fun _ _ _ h => by cases h) (fun k fol => by simp [needs])
    (fun σ ρ rest hw hfol => by
      simp only [WF] at hw
      rw [shape_switch]
      simp only [List.append_assoc, List.cons_append]
      exact Ev.step2
        (gv.pa hwf σ (ρ.sub 0) 0 .none _ hw.1 (Nat.zero_le _) (followOK_cases t ρ 2 cs _))
        (pcs σ ρ 2 _ d rest hw.2.1 (pld σ (ρ.sub 1) rest hw.2.2 hfol))
        (fun f h1 h2 => lit_switch hwf.fixed f σ _ h1 h2))

theorem good_clos {t : Table} (hwf : TableWF t) {names : List String} {body : E} (plb : PL t body) :
    Good t (.clos names body) :=
  good_of_open hwf (fun _ _ _ h => by cases h) (fun k fol => by simp [needs])
    (fun σ ρ rest hw hfol => by
      simp only [WF] at hw
      obtain ⟨hne, hnd, hwb⟩ := hw
      match names, hne, hnd, hwb with
      | [], hne, _, _ => exact absurd rfl hne
      | [x], _, _, hwb =>
        rw [shape_clos1]
        simp only [List.cons_append]
        exact Ev.step1 (plb ((x, .var) :: σ) (ρ.sub 0) rest (by simpa [varsOf] using hwb) hfol)
          (fun f hf => lit_clos1 t f σ x _ hf)
      | x :: y :: more, _, hnd, hwb =>
        rw [shape_closN]
        simp only [List.cons_append, List.append_assoc]
        have hl := identList_parse (x :: y :: more) [] (.op "->" :: (render t (ρ.sub 0) 0 .none body ++ rest))
          (by simp) (fun _ _ h => by cases h) hnd
        simp only [List.reverse_nil, List.nil_append] at hl
        exact Ev.step1 (plb (varsOf (x :: y :: more) ++ σ) (ρ.sub 0) rest hwb hfol)
          (fun f hf => lit_closN t f σ _ _ (startsIdentComma_identList x y more _) hl hf))

/-! ### `let` and `func` -/

theorem good_let_vacuous {t : Table} {name : String} {v inner : E} : Good t (.letE name v inner) := by
  refine ⟨?_, ?_, ?_⟩
  · intro σ ρ k fol rest hw; simp [WF] at hw
  · intro σ ρ fol rest r hw; simp [WF] at hw
  · intro σ ρ o a b k0 fol rest r he; cases he

theorem good_func_vacuous {t : Table} {name : String} {names : List String} {body inner : E} :
    Good t (.funcE name names body inner) := by
  refine ⟨?_, ?_, ?_⟩
  · intro σ ρ k fol rest hw; simp [WF] at hw
  · intro σ ρ fol rest r hw; simp [WF] at hw
  · intro σ ρ o a b k0 fol rest r he; cases he

theorem pl_let {t : Table} (hwf : TableWF t) {name : String} {v inner : E} (gv : Good t v) (pli : PL t inner) :
    PL t (.letE name v inner) := by
  intro σ ρ rest hw hfol
  rw [render_nopar (by simp [nPar, E.isLet]), shape_let]
  simp only [List.cons_append, List.append_assoc]
  simp only [WF] at hw
  obtain ⟨_, hc, hwv, hwi⟩ := hw
  exact Ev.step2
    (gv.pa hwf σ (ρ.sub 0) 0 .none _ hwv (Nat.zero_le _) (FollowOK.stopper t 0 .none _ rfl))
    (pli ((name, .var) :: σ) (ρ.sub 1) rest hwi hfol)
    (fun f h1 h2 => let_let hwf.fixed f σ name _ hc h1 h2)

theorem pl_func {t : Table} {name : String} {names : List String} {body inner : E}
    (plb : PL t body) (pli : PL t inner) : PL t (.funcE name names body inner) := by
  intro σ ρ rest hw hfol
  rw [render_nopar (by simp [nPar, E.isLet]), shape_func]
  simp only [List.cons_append, List.append_assoc]
  simp only [WF] at hw
  obtain ⟨_, hne, hnd, hwb, hwi⟩ := hw
  have hl := identList_parse names []
    (render t (ρ.sub 0) 0 .none body ++ .semi :: (render t (ρ.sub 1) 0 .none inner ++ rest))
    hne (fun _ _ h => by cases h) hnd
  simp only [List.reverse_nil, List.nil_append] at hl
  exact Ev.step2
    (plb ((name, .var) :: (varsOf names ++ σ)) (ρ.sub 0) _ hwb (FollowOK.stopper t 0 .none _ rfl))
    (pli ((name, .var) :: σ) (ρ.sub 1) rest hwi hfol)
    (fun f h1 h2 => let_func t f σ name _ hl h1 h2)

/-! ### all trees -/

def All (t : Table) (e : E) : Prop := Good t e ∧ PL t e

theorem All.of_good {t : Table} (hwf : TableWF t) {e : E} (g : Good t e) (hl : e.isLet = false) : All t e :=
  ⟨g, g.pl hwf hl⟩

mutual
theorem all_e {t : Table} (hwf : TableWF t) : ∀ e : E, All t e
  | .ident s => All.of_good hwf (good_ident hwf s) rfl
  | .num s => All.of_good hwf (good_num hwf s) rfl
  | .str s => All.of_good hwf (good_str hwf s) rfl
  | .cst s => All.of_good hwf (good_cst hwf s) rfl
  | .bin _ a b => All.of_good hwf (good_bin hwf (all_e hwf a).1 (all_e hwf b).1) rfl
  | .un _ a => All.of_good hwf (good_un hwf (all_e hwf a).1) rfl
  | .call fn args => All.of_good hwf (good_call hwf (all_e hwf fn).1 (all_args hwf args)) rfl
  | .index l i => All.of_good hwf (good_index hwf (all_e hwf l).1 (all_e hwf i).1) rfl
  | .member m _ => All.of_good hwf (good_member hwf (all_e hwf m).1) rfl
  | .method m _ args => All.of_good hwf (good_method hwf (all_e hwf m).1 (all_args hwf args)) rfl
  | .letE _ v inner => ⟨good_let_vacuous, pl_let hwf (all_e hwf v).1 (all_e hwf inner).2⟩
  | .funcE _ _ body inner => ⟨good_func_vacuous, pl_func (all_e hwf body).2 (all_e hwf inner).2⟩
  | .clos _ body => All.of_good hwf (good_clos hwf (all_e hwf body).2) rfl
  | .list items => All.of_good hwf (good_list hwf (all_args hwf items)) rfl
  | .map es => All.of_good hwf (good_map hwf (all_entries hwf es)) rfl
  | .ite c a b => All.of_good hwf (good_ite hwf (all_e hwf c).1 (all_e hwf a).2 (all_e hwf b).2) rfl
  | .tryC a c => All.of_good hwf (good_try hwf (all_e hwf a).2 (all_e hwf c).2) rfl
  | .switch v cs d =>
    All.of_good hwf (good_switch hwf (all_e hwf v).1 (all_cases hwf cs) (all_e hwf d).2) rfl
theorem all_args {t : Table} (hwf : TableWF t) : ∀ as : List E, PArgs t as
  | [] => pargs_nil t
  | [a] => pargs_one (all_e hwf a).2
  | a :: b :: as => pargs_cons hwf (all_e hwf a).2 (all_args hwf (b :: as))
theorem all_entries {t : Table} (hwf : TableWF t) : ∀ es : List (String × E), PEntries t es
  | [] => pentries_nil t
  | [(_, v)] => pentries_one (all_e hwf v).2
  | (_, v) :: e2 :: es => pentries_cons (all_e hwf v).2 (all_entries hwf (e2 :: es))
theorem all_cases {t : Table} (hwf : TableWF t) : ∀ cs : List (E × E), PCases t cs
  | [] => pcases_nil t
  | (c, v) :: cs => pcases_cons hwf (all_e hwf c).1 (all_e hwf v).2 (all_cases hwf cs)
end

/-- **the round trip, for all sufficiently large fuel**: for every well-formed table, every scope, every
tree over them (all forms) and every decoration with redundant parentheses and trailing commas, the
parser returns the tree and consumes exactly the rendering -/
theorem parse_render_ev {t : Table} (hwf : TableWF t) (σ : Scope) (e : E) (ρ : Deco) (hw : WF t σ true e) :
    Ev (fun f => parseTop t f σ (render t ρ 0 .none e)) (.ok e []) := by
  have h := (all_e hwf e).2 σ ρ [] hw (FollowOK.nil t 0 .none)
  simp only [List.append_nil] at h
  obtain ⟨f0, hf⟩ := h
  exact ⟨f0, fun f hle => by simp [parseTop, hf f hle]⟩

end P2.Parse
