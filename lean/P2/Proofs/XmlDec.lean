import P2.Spec.XmlDec
import P2.Model.Json
/-! Lemmas about the reference decoder `P2.Xml.feed` (C18): compositionality, names, and the decidable
criteria on escape tables under which escaped text / attribute values decode to exactly the string. -/
namespace P2.Xml
open P2.Json (EscTable escOf lookup)

/-! ### compositionality -/

theorem feed_append (m : Mode) (a b : List Char) :
    feed m (a ++ b) =
      match feed m a with
      | none => none
      | some (m', o) =>
        match feed m' b with
        | none => none
        | some (m'', o') => some (m'', o ++ o') := by
  induction a generalizing m with
  | nil =>
    simp only [List.nil_append, feed]
    cases feed m b with
    | none => rfl
    | some r => obtain ⟨m'', o'⟩ := r; simp
  | cons c cs ih =>
    simp only [List.cons_append, feed]
    cases hs : step m c with
    | none => simp
    | some r =>
      obtain ⟨m1, o1⟩ := r
      simp only
      rw [ih]
      cases feed m1 cs with
      | none => simp
      | some r2 =>
        obtain ⟨m2, o2⟩ := r2
        simp only
        cases feed m2 b with
        | none => simp
        | some r3 => obtain ⟨m3, o3⟩ := r3; simp [List.append_assoc]

/-- `a` takes the machine from `m` to `m'` emitting `o` -/
def Goes (m : Mode) (a : List Char) (m' : Mode) (o : List Tok) : Prop := feed m a = some (m', o)

theorem Goes.nil (m : Mode) : Goes m [] m [] := by simp [Goes, feed]

theorem Goes.trans {m m1 m2 : Mode} {a b : List Char} {o1 o2 : List Tok}
    (h1 : Goes m a m1 o1) (h2 : Goes m1 b m2 o2) : Goes m (a ++ b) m2 (o1 ++ o2) := by
  unfold Goes at *
  rw [feed_append, h1]
  simp only [h2]

theorem Goes.single {m m' : Mode} {c : Char} {o : List Tok} (h : step m c = some (m', o)) :
    Goes m [c] m' o := by
  simp [Goes, feed, h]

theorem Goes.cons {m m1 m2 : Mode} {c : Char} {b : List Char} {o1 o2 : List Tok}
    (h1 : step m c = some (m1, o1)) (h2 : Goes m1 b m2 o2) : Goes m (c :: b) m2 (o1 ++ o2) := by
  have := Goes.trans (Goes.single h1) h2
  simpa using this

/-! ### names -/

theorem goes_sname (cs acc : List Char) (h : cs.all isNameChar = true) :
    Goes (.sname acc) cs (.sname (acc ++ cs)) [] := by
  induction cs generalizing acc with
  | nil => simpa using Goes.nil _
  | cons c cs ih =>
    simp only [List.all_cons, Bool.and_eq_true] at h
    have := Goes.cons (m := .sname acc) (c := c) (m1 := .sname (acc ++ [c])) (o1 := [])
      (by simp [step, h.1]) (ih (acc ++ [c]) h.2)
    simpa using this

theorem goes_aname (n : List Char) (as : Attrs) (cs acc : List Char) (h : cs.all isNameChar = true) :
    Goes (.aname n as acc) cs (.aname n as (acc ++ cs)) [] := by
  induction cs generalizing acc with
  | nil => simpa using Goes.nil _
  | cons c cs ih =>
    simp only [List.all_cons, Bool.and_eq_true] at h
    have := Goes.cons (m := .aname n as acc) (c := c) (m1 := .aname n as (acc ++ [c])) (o1 := [])
      (by simp [step, h.1]) (ih (acc ++ [c]) h.2)
    simpa using this

theorem goes_ename (cs acc : List Char) (h : cs.all isNameChar = true) :
    Goes (.ename acc) cs (.ename (acc ++ cs)) [] := by
  induction cs generalizing acc with
  | nil => simpa using Goes.nil _
  | cons c cs ih =>
    simp only [List.all_cons, Bool.and_eq_true] at h
    have := Goes.cons (m := .ename acc) (c := c) (m1 := .ename (acc ++ [c])) (o1 := [])
      (by simp [step, h.1]) (ih (acc ++ [c]) h.2)
    simpa using this

/-! ### character classes -/

theorem nameStart_ne (c : Char) (h : isNameStart c = true) :
    c ≠ '/' ∧ c ≠ '>' ∧ c ≠ '<' ∧ c ≠ '=' ∧ c ≠ ' ' ∧ c ≠ '"' := by
  refine ⟨?_, ?_, ?_, ?_, ?_, ?_⟩ <;> (intro hc; subst hc; revert h; decide)

theorem nameChar_ne (c : Char) (h : isNameChar c = true) :
    c ≠ '/' ∧ c ≠ '>' ∧ c ≠ '<' ∧ c ≠ '=' ∧ c ≠ ' ' ∧ c ≠ '"' := by
  refine ⟨?_, ?_, ?_, ?_, ?_, ?_⟩ <;> (intro hc; subst hc; revert h; decide)

@[simp] theorem nc_gt : isNameChar '>' = false := by decide
@[simp] theorem nc_slash : isNameChar '/' = false := by decide
@[simp] theorem nc_sp : isNameChar ' ' = false := by decide
@[simp] theorem nc_eq : isNameChar '=' = false := by decide
@[simp] theorem sp_gt : isSpace '>' = false := by decide
@[simp] theorem sp_slash : isSpace '/' = false := by decide
@[simp] theorem sp_sp : isSpace ' ' = true := by decide
@[simp] theorem sp_eq : isSpace '=' = false := by decide

/-- the mode of the machine inside a start tag after the name (`as = []`) or after an attribute -/
def tagMode (n : List Char) (as : Attrs) : Mode :=
  match as with
  | [] => .sname n
  | _ :: _ => .intag n as false

theorem tagMode_snoc (n : List Char) (as : Attrs) (kv : List Char × List Char) :
    tagMode n (as ++ [kv]) = .intag n (as ++ [kv]) false := by
  cases as <;> simp [tagMode]

/-- `<name` -/
theorem goes_open (n : List Char) (h : isXmlName n = true) :
    Goes (.text false) ('<' :: n) (tagMode n []) [] := by
  cases n with
  | nil => simp [isXmlName] at h
  | cons c cs =>
    simp only [isXmlName, Bool.and_eq_true] at h
    have hne := nameStart_ne c h.1
    have h1 : step (.text false) '<' = some (.lt, []) := by simp [step]
    have h2 : step .lt c = some (.sname [c], []) := by simp [step, hne.1, h.1]
    have := Goes.cons h1 (Goes.cons h2 (goes_sname cs [c] h.2))
    simpa [tagMode] using this

/-- `>` ends a start tag -/
theorem goes_gt (n : List Char) (as : Attrs) :
    Goes (tagMode n as) ['>'] (.text false) [.start n as] := by
  apply Goes.single
  cases as with
  | nil => simp [tagMode, step]
  | cons a as => simp [tagMode, step]

/-- `/>` ends an empty-element tag -/
theorem goes_short (n : List Char) (as : Attrs) :
    Goes (tagMode n as) ['/', '>'] (.text false) [.start n as, .stop n] := by
  have h2 : step (.slash n as) '>' = some (.text false, [.start n as, .stop n]) := by simp [step]
  cases as with
  | nil =>
    have h1 : step (.sname n) '/' = some (.slash n [], []) := by simp [step]
    simpa [tagMode] using Goes.cons h1 (Goes.single h2)
  | cons a as =>
    have h1 : step (.intag n (a :: as) false) '/' = some (.slash n (a :: as), []) := by simp [step]
    simpa [tagMode] using Goes.cons h1 (Goes.single h2)

/-- `</name>` -/
theorem goes_close (n : List Char) (h : isXmlName n = true) :
    Goes (.text false) ('<' :: '/' :: (n ++ ['>'])) (.text false) [.stop n] := by
  cases n with
  | nil => simp [isXmlName] at h
  | cons c cs =>
    simp only [isXmlName, Bool.and_eq_true] at h
    have h1 : step (.text false) '<' = some (.lt, []) := by simp [step]
    have h2 : step .lt '/' = some (.lts, []) := by simp [step]
    have h3 : step .lts c = some (.ename [c], []) := by simp [step, h.1]
    have h4 : step (.ename ([c] ++ cs)) '>' = some (.text false, [.stop ([c] ++ cs)]) := by
      simp [step]
    have := Goes.cons h1 (Goes.cons h2 (Goes.cons h3 (Goes.trans (goes_ename cs [c] h.2) (Goes.single h4))))
    simpa using this

/-! ### character data -/

/-- what the round trip needs from a character-data escape function -/
def TextEscOK (e : Char → List Char) : Prop :=
  ∀ c, isXmlChar c = true → Goes (.text false) (e c) (.text false) [.chr c]

theorem goes_text (e : Char → List Char) (he : TextEscOK e) (s : List Char) (hs : s.all isXmlChar = true) :
    Goes (.text false) (s.flatMap e) (.text false) (chrs s) := by
  induction s with
  | nil => simpa [chrs] using Goes.nil _
  | cons c cs ih =>
    simp only [List.all_cons, Bool.and_eq_true] at hs
    have := Goes.trans (he c hs.1) (ih hs.2)
    simpa [chrs] using this

theorem step_text_plain (c : Char) (h : isXmlChar c = true) (h1 : c ≠ '<') (h2 : c ≠ '&') (h3 : c ≠ '>')
    (h4 : c ≠ '\r') : step (.text false) c = some (.text false, [.chr c]) := by
  by_cases h5 : c = '\n'
  · subst h5; simp [step]
  · simp [step, h1, h2, h3, h4, h5, h]

/-- layout characters written verbatim (`\n`, `\t`) -/
theorem goes_verbatim (s : List Char) (hs : ∀ c ∈ s, c = '\n' ∨ c = '\t') :
    Goes (.text false) s (.text false) (chrs s) := by
  induction s with
  | nil => simpa [chrs] using Goes.nil _
  | cons c cs ih =>
    have hc := hs c (by simp)
    have h1 : step (.text false) c = some (.text false, [.chr c]) := by
      rcases hc with h | h <;> subst h <;> simp [step] <;> decide
    have := Goes.cons h1 (ih (fun c hc => hs c (by simp [hc])))
    simpa [chrs] using this

/-- decidable check of one entry of the character-data table: the machine reads it as exactly `c` -/
def textEntryOK (c : Char) (out : List Char) : Bool :=
  feed (.text false) out == some (.text false, [.chr c])

/-- every entry for a legal character is fine, and every legal character that must not be written
verbatim (`<`, `&`, `>` — the decoder is strict about `>` — and CR) has an entry -/
def TextTableOK (T : EscTable) : Bool :=
  T.all (fun kv => !isXmlChar kv.1 || textEntryOK kv.1 kv.2) &&
  (lookup T '<').isSome && (lookup T '&').isSome && (lookup T '>').isSome && (lookup T '\r').isSome

theorem lookup_mem {T : EscTable} {c : Char} {o : List Char} (h : lookup T c = some o) : (c, o) ∈ T := by
  induction T with
  | nil => simp [lookup] at h
  | cons kv rest ih =>
    obtain ⟨k, v⟩ := kv
    simp only [lookup] at h
    split at h
    · rename_i hk; subst hk; simp at h; subst h; simp
    · exact List.mem_cons_of_mem _ (ih h)

theorem textEscOK_of_table (T : EscTable) (h : TextTableOK T = true) : TextEscOK (escOf T) := by
  simp only [TextTableOK, Bool.and_eq_true, List.all_eq_true] at h
  obtain ⟨⟨⟨⟨hall, hlt⟩, hamp⟩, hgt⟩, hcr⟩ := h
  intro c hc
  unfold escOf
  cases hl : lookup T c with
  | some o =>
    simp only
    have := hall _ (lookup_mem hl)
    simp only [hc, Bool.not_true, Bool.false_or, textEntryOK, beq_iff_eq] at this
    exact this
  | none =>
    simp only
    have h1 : c ≠ '<' := by intro e; subst e; simp [hl] at hlt
    have h2 : c ≠ '&' := by intro e; subst e; simp [hl] at hamp
    have h3 : c ≠ '>' := by intro e; subst e; simp [hl] at hgt
    have h4 : c ≠ '\r' := by intro e; subst e; simp [hl] at hcr
    exact Goes.single (step_text_plain c hc h1 h2 h3 h4)

/-! ### attribute values -/

/-- prepend `p` to the accumulated value -/
def AV.shift (p : List Char) : AV → AV
  | .plain acc cr => .plain (p ++ acc) cr
  | .ref acc racc => .ref (p ++ acc) racc

theorem avStep_shift (p : List Char) (st : AV) (c : Char) :
    avStep (st.shift p) c = (avStep st c).map (AV.shift p) := by
  cases st with
  | plain acc cr =>
    simp only [AV.shift, avStep]
    repeat' split
    all_goals simp [AV.shift, List.append_assoc]
  | ref acc racc =>
    simp only [AV.shift, avStep]
    split
    · cases resolveRef racc <;> simp [AV.shift, List.append_assoc]
    · split <;> simp [AV.shift]

theorem avFeed_shift (p : List Char) (st : AV) (s : List Char) :
    avFeed (st.shift p) s = (avFeed st s).map (AV.shift p) := by
  induction s generalizing st with
  | nil => simp [avFeed]
  | cons c cs ih =>
    simp only [avFeed, avStep_shift]
    cases avStep st c with
    | none => simp
    | some st' => simp [ih]

theorem avFeed_append (st : AV) (a b : List Char) :
    avFeed st (a ++ b) = (avFeed st a).bind (fun st' => avFeed st' b) := by
  induction a generalizing st with
  | nil => simp [avFeed]
  | cons c cs ih =>
    simp only [List.cons_append, avFeed]
    cases avStep st c with
    | none => simp
    | some st' => simp [ih]

/-- inside a `"`-delimited value the main machine follows the attribute-value machine as long as no `"` comes -/
theorem goes_aval (n : List Char) (as : Attrs) (k : List Char) (s : List Char) (st st' : AV)
    (hq : ∀ c ∈ s, c ≠ '"') (h : avFeed st s = some st') :
    Goes (.aval n as k '"' st) s (.aval n as k '"' st') [] := by
  induction s generalizing st with
  | nil => simp [avFeed] at h; subst h; exact Goes.nil _
  | cons c cs ih =>
    simp only [avFeed] at h
    cases hs : avStep st c with
    | none => simp [hs] at h
    | some st1 =>
      simp only [hs] at h
      have hc : c ≠ '"' := hq c (by simp)
      have h1 : step (.aval n as k '"' st) c = some (.aval n as k '"' st1, []) := by
        simp [step, hc, hs]
      have := Goes.cons h1 (ih st1 (fun c hc => hq c (by simp [hc])) h)
      simpa using this

/-- what the round trip needs from an attribute-value escape function (values are `"`-delimited) -/
def AttrEscOK (e : Char → List Char) : Prop :=
  ∀ c, isXmlChar c = true → avFeed (.plain [] false) (e c) = some (.plain [c] false) ∧ ∀ x ∈ e c, x ≠ '"'

theorem avFeed_value (e : Char → List Char) (he : AttrEscOK e) (v acc : List Char) (hv : v.all isXmlChar = true) :
    avFeed (.plain acc false) (v.flatMap e) = some (.plain (acc ++ v) false) := by
  induction v generalizing acc with
  | nil => simp [avFeed]
  | cons c cs ih =>
    simp only [List.all_cons, Bool.and_eq_true] at hv
    simp only [List.flatMap_cons, avFeed_append]
    have h1 := avFeed_shift acc (.plain [] false) (e c)
    simp only [AV.shift, List.append_nil, (he c hv.1).1, Option.map_some] at h1
    rw [h1]
    simp only [Option.bind_some]
    rw [ih (acc ++ [c]) hv.2]
    simp

theorem noquote_value (e : Char → List Char) (he : AttrEscOK e) (v : List Char) (hv : v.all isXmlChar = true) :
    ∀ x ∈ v.flatMap e, x ≠ '"' := by
  intro x hx
  simp only [List.mem_flatMap] at hx
  obtain ⟨c, hc, hxc⟩ := hx
  simp only [List.all_eq_true] at hv
  exact (he c (hv c hc)).2 x hxc

/-- ` key="escaped value"` inside a start tag -/
theorem goes_attr (e : Char → List Char) (he : AttrEscOK e) (n : List Char) (as : Attrs) (k v : List Char)
    (hk : isXmlName k = true) (hv : v.all isXmlChar = true) :
    Goes (tagMode n as) ([' '] ++ k ++ ['=', '"'] ++ v.flatMap e ++ ['"']) (tagMode n (as ++ [(k, v)])) [] := by
  rw [tagMode_snoc]
  cases k with
  | nil => simp [isXmlName] at hk
  | cons c cs =>
    simp only [isXmlName, Bool.and_eq_true] at hk
    have hne := nameStart_ne c hk.1
    have h1 : step (tagMode n as) ' ' = some (.intag n as true, []) := by
      cases as <;> simp [tagMode, step]
    have h2 : step (.intag n as true) c = some (.aname n as [c], []) := by
      have hsp : isSpace c = false := by
        cases hsp : isSpace c with
        | false => rfl
        | true =>
          exfalso
          have : c = ' ' ∨ c = '\t' ∨ c = '\n' ∨ c = '\r' := by
            simpa [isSpace, Bool.or_eq_true, beq_iff_eq, or_assoc] using hsp
          have hk1 := hk.1
          rcases this with h | h | h | h <;> (subst h; revert hk1; decide)
      simp [step, hsp, hne.2.1, hne.1, hk.1]
    have h3 : step (.aname n as ([c] ++ cs)) '=' = some (.aeq n as ([c] ++ cs), []) := by
      simp [step]
    have h4 : step (.aeq n as ([c] ++ cs)) '"' = some (.aval n as ([c] ++ cs) '"' (.plain [] false), []) := by
      simp [step]
    have h5 := goes_aval n as ([c] ++ cs) (v.flatMap e) (.plain [] false) (.plain ([] ++ v) false)
      (noquote_value e he v hv) (avFeed_value e he v [] hv)
    have h6 : step (.aval n as ([c] ++ cs) '"' (.plain ([] ++ v) false)) '"' =
        some (.intag n (as ++ [([c] ++ cs, [] ++ v)]) false, []) := by simp [step]
    have := Goes.cons h1 (Goes.cons h2 (Goes.trans (goes_aname n as cs [c] hk.2)
      (Goes.cons h3 (Goes.cons h4 (Goes.trans h5 (Goes.single h6))))))
    simpa using this

theorem avStep_plain (acc : List Char) (c : Char) (h : isXmlChar c = true) (h1 : c ≠ '<') (h2 : c ≠ '&')
    (h3 : c ≠ '\r') (h4 : c ≠ '\n') (h5 : c ≠ '\t') :
    avStep (.plain acc false) c = some (.plain (acc ++ [c]) false) := by
  simp [avStep, h1, h2, h3, h4, h5, h]

def attrEntryOK (c : Char) (out : List Char) : Bool :=
  avFeed (.plain [] false) out == some (.plain [c] false) && out.all (fun x => x != '"')

/-- every entry for a legal character is fine, and every legal character that must not be written
verbatim inside a `"`-delimited value (`<`, `&`, `"`, and TAB, LF, CR because of the normalisation) has an entry -/
def AttrTableOK (T : EscTable) : Bool :=
  T.all (fun kv => !isXmlChar kv.1 || attrEntryOK kv.1 kv.2) &&
  (lookup T '<').isSome && (lookup T '&').isSome && (lookup T '"').isSome &&
  (lookup T '\t').isSome && (lookup T '\n').isSome && (lookup T '\r').isSome

theorem attrEscOK_of_table (T : EscTable) (h : AttrTableOK T = true) : AttrEscOK (escOf T) := by
  simp only [AttrTableOK, Bool.and_eq_true, List.all_eq_true] at h
  obtain ⟨⟨⟨⟨⟨⟨hall, hlt⟩, hamp⟩, hq⟩, htab⟩, hlf⟩, hcr⟩ := h
  intro c hc
  unfold escOf
  cases hl : lookup T c with
  | some o =>
    simp only
    have := hall _ (lookup_mem hl)
    simp only [hc, Bool.not_true, Bool.false_or, attrEntryOK, Bool.and_eq_true, beq_iff_eq,
      List.all_eq_true, bne_iff_ne, ne_eq] at this
    exact this
  | none =>
    simp only
    have h1 : c ≠ '<' := by intro e; subst e; simp [hl] at hlt
    have h2 : c ≠ '&' := by intro e; subst e; simp [hl] at hamp
    have h3 : c ≠ '"' := by intro e; subst e; simp [hl] at hq
    have h4 : c ≠ '\t' := by intro e; subst e; simp [hl] at htab
    have h5 : c ≠ '\n' := by intro e; subst e; simp [hl] at hlf
    have h6 : c ≠ '\r' := by intro e; subst e; simp [hl] at hcr
    constructor
    · simp [avFeed, avStep_plain [] c hc h1 h2 h6 h5 h4]
    · intro x hx; simp at hx; subst hx; exact h3

end P2.Xml
