import P2.Spec.LexSpec
/-! Scanner: table predicate, configuration predicate and basic facts about the reference scanner
(every helper returns a suffix; every iteration of `step` consumes a rune; unfolding of `Spec.run`). -/
namespace P2.Lex
open P2.Lex.Spec

/-- the runes whose cases of `run`'s switch are modelled by hand -/
def handSpecial : List Char := ['\n', ' ', '\r', '\t', EOF, '(', '"', '\'']

/-- the five escapes of the property text: character ↦ escape letter -/
def specEscapes : List (Char × Char) := [('\\', '\\'), ('"', '"'), ('\n', 'n'), ('\r', 'r'), ('\t', 't')]

def isSuperEntry (e : Char × List (Kind × List Char) × Kind) : Bool :=
  match e.2.1 with
  | [(.operate, ['^']), (.number, [_])] => true
  | _ => false

/-- What the theorems need from the regenerated tables (`P2.Oblig.lexTables_ok` proves it by `decide`):
* progress: a rune excluded from number continuation never starts a number (it has its own case in `run`),
  and end of input ends a string literal;
* no case of the emit table hides a hand-modelled case; aliases do not touch the structural runes;
* the escape letters denote the five characters of the property, no other rune ends a literal;
* a superscript case sends `^` and a one-digit number, counts as a number in comfort mode and is excluded
  from numbers and identifiers; `)` is the token `close` and counts as such in comfort mode. -/
def tablesOK (tb : Tables) : Bool :=
  tb.numExcl.all (fun c => (tb.emit.lookup c).isSome || handSpecial.contains c)
  && (tb.strEnd.contains EOF
  && (tb.emit.all (fun e => !handSpecial.contains e.1)
  && ((handSpecial ++ tb.emit.map (·.1) ++ ['/', '*', '\\', '_', '.', 'e', '+', '-', '^']).all (fun c => (tb.aliases.lookup c).isNone)
  && (specEscapes.all (fun p => tb.escapes.lookup p.2 == some p.1)
  && (tb.strEnd.all (fun c => [EOF, '\n', '\r'].contains c)
  && (tb.emit.all (fun e => !isSuperEntry e || (e.2.2 == .number && tb.numExcl.contains e.1 && tb.identExcl.contains e.1))
  && (tb.emit.lookup ')' == some ([(.close, [')'])], .close)
  && (tb.aliases.all (fun p => (tb.aliases.lookup p.2).isNone)
  && tb.emit.all (fun e => e.2.1.all (fun t => t.2.all (fun c => (tb.aliases.lookup c).isNone)))))))))))

/-- configuration predicate: no operator contains NUL (otherwise `parseOperator` would read NULs past
    the end of the input) -/
def cfgOK (cfg : Cfg) : Bool := cfg.ops.all (fun o => !o.contains EOF)

namespace Spec

/-! ### suffix / length facts -/

theorem skipC_code_ne (c : Char) (rest : List Char) (line : Nat) (hc : c ≠ '/') :
    skipC .code (c :: rest) line = some (c :: rest, line) := by
  cases rest with
  | nil => simp [skipC]
  | cons d r => simp [skipC, hc]

theorem skipC_len : ∀ (m : CM) (str : List Char) (line : Nat) (s : List Char) (l : Nat),
    skipC m str line = some (s, l) → s.length ≤ str.length ∧ s ≠ []
  | .code, [], _, _, _, h => by simp [skipC] at h
  | .code, [c], line, s, l, h => by simp [skipC] at h; obtain ⟨rfl, _⟩ := h; simp
  | .code, c :: d :: r, line, s, l, h => by
    simp only [skipC] at h
    split at h
    · split at h
      · have := skipC_len .line r line s l h
        exact ⟨by simp; omega, this.2⟩
      · split at h
        · have := skipC_len .block r line s l h
          exact ⟨by simp; omega, this.2⟩
        · simp at h; obtain ⟨rfl, _⟩ := h; simp
    · simp at h; obtain ⟨rfl, _⟩ := h; simp
  | .line, [], _, _, _, h => by simp [skipC] at h
  | .line, c :: rest, line, s, l, h => by
    simp only [skipC] at h
    split at h
    · simp at h; obtain ⟨rfl, _⟩ := h; simp
    · have := skipC_len .line rest line s l h
      exact ⟨by simp; omega, this.2⟩
  | .block, [], _, _, _, h => by simp [skipC] at h
  | .block, [_], _, _, _, h => by simp [skipC] at h
  | .block, c :: d :: r, line, s, l, h => by
    simp only [skipC] at h
    split at h
    · split at h
      · have := skipC_len .code r line s l h
        exact ⟨by simp; omega, this.2⟩
      · have := skipC_len .block (d :: r) line s l h
        exact ⟨by simp at this ⊢; omega, this.2⟩
    · have := skipC_len .block (d :: r) _ s l h
      exact ⟨by simp at this ⊢; omega, this.2⟩

theorem skipCode_len (cfg : Cfg) (str : List Char) (line : Nat) (s : List Char) (l : Nat)
    (h : skipCode cfg str line = some (s, l)) : s.length ≤ str.length ∧ s ≠ [] := by
  unfold skipCode at h
  split at h
  · exact skipC_len _ _ _ _ _ h
  · cases str with
    | nil => simp at h
    | cons c r => simp at h; obtain ⟨rfl, _⟩ := h; simp

theorem skipC_idem : ∀ (m : CM) (str : List Char) (line : Nat) (s : List Char) (l : Nat),
    skipC m str line = some (s, l) → skipC .code s l = some (s, l)
  | .code, [], _, _, _, h => by simp [skipC] at h
  | .code, [c], line, s, l, h => by simp [skipC] at h; obtain ⟨rfl, rfl⟩ := h; simp [skipC]
  | .code, c :: d :: r, line, s, l, h => by
    simp only [skipC] at h
    split at h
    · split at h
      · exact skipC_idem .line r line s l h
      · split at h
        · exact skipC_idem .block r line s l h
        · rename_i h1 h2 h3
          simp at h; obtain ⟨rfl, rfl⟩ := h; simp [skipC, h1, h2, h3]
    · rename_i h1
      simp at h; obtain ⟨rfl, rfl⟩ := h; simp [skipC, h1]
  | .line, [], _, _, _, h => by simp [skipC] at h
  | .line, c :: rest, line, s, l, h => by
    simp only [skipC] at h
    split at h
    · rename_i h1
      have hc : c ≠ '/' := by rcases h1 with h1 | h1 <;> (subst h1; decide)
      simp at h; obtain ⟨rfl, rfl⟩ := h
      exact skipC_code_ne _ _ _ hc
    · exact skipC_idem .line rest line s l h
  | .block, [], _, _, _, h => by simp [skipC] at h
  | .block, [_], _, _, _, h => by simp [skipC] at h
  | .block, c :: d :: r, line, s, l, h => by
    simp only [skipC] at h
    split at h
    · split at h
      · exact skipC_idem .code r line s l h
      · exact skipC_idem .block (d :: r) line s l h
    · exact skipC_idem .block (d :: r) _ s l h

theorem skipCode_idem (cfg : Cfg) (str : List Char) (line : Nat) (s : List Char) (l : Nat)
    (h : skipCode cfg str line = some (s, l)) : skipCode cfg s l = some (s, l) := by
  unfold skipCode at h ⊢
  split at h
  · rename_i hc
    simp only [hc, ↓reduceIte]
    exact skipC_idem _ _ _ _ _ h
  · rename_i hc
    simp only [hc]
    cases str with
    | nil => simp at h
    | cons c r => simp at h; obtain ⟨rfl, rfl⟩ := h; simp

theorem readWhileS_len (al : Char → Char) (valid : Char → Char → Bool) :
    ∀ (str : List Char) (prev : Char), (readWhileS al valid prev str).2.length ≤ str.length
  | [], _ => by simp [readWhileS]
  | c :: rest, prev => by
    unfold readWhileS
    split
    · have := readWhileS_len al valid rest (al c)
      simp only [List.length_cons]; omega
    · simp

theorem readWhileS_first (al : Char → Char) (valid : Char → Char → Bool) (prev c : Char) (rest : List Char)
    (h1 : al c ≠ EOF) (h2 : valid prev (al c) = true) :
    (readWhileS al valid prev (c :: rest)).2.length ≤ rest.length := by
  unfold readWhileS
  simp only [h1, h2, ne_eq, not_false_eq_true, and_self, ↓reduceIte]
  exact readWhileS_len al valid rest (al c)

theorem readStrS_len (tb : Tables) : ∀ (n : Nat) (str : List Char) (acc : List Char), str.length ≤ n →
    (readStrS tb str acc).2.length ≤ str.length
  | _, [], _, _ => by simp [readStrS]
  | 0, _ :: _, _, h => by simp at h
  | n+1, c :: rest, acc, h => by
    unfold readStrS
    have hr : rest.length ≤ n := by simp at h; omega
    split
    · simp
    · split
      · simp
      · split
        · cases rest with
          | nil => simp
          | cons i r =>
            have hr' : r.length ≤ n := by simp at hr; omega
            simp only
            split
            · rename_i d _
              have := readStrS_len tb n r (acc ++ [d]) hr'
              simp only [List.length_cons]; omega
            · have := readStrS_len tb n r (acc ++ ['\\', i]) hr'
              simp only [List.length_cons]; omega
        · have := readStrS_len tb n rest (acc ++ [c]) hr
          simp only [List.length_cons]; omega

theorem readStrS_cons (tb : Tables) (c : Char) (rest acc : List Char) :
    readStrS tb (c :: rest) acc =
      if c = '"' then ((.string, acc), rest)
      else if tb.strEnd.contains c then ((.invalid, eolImage), rest)
      else if c = '\\' then
        match rest with
        | [] => ((.invalid, eolImage), [])
        | i :: r =>
          match tb.escapes.lookup i with
          | some d => readStrS tb r (acc ++ [d])
          | none => readStrS tb r (acc ++ ['\\', i])
      else readStrS tb rest (acc ++ [c]) := by
  cases rest with
  | nil => simp [readStrS]
  | cons i r => rw [readStrS]; rfl

theorem opWalkS_len (cfg : Cfg) : ∀ (str op : List Char), (opWalkS cfg op str).2.length ≤ str.length
  | [], _ => by simp [opWalkS]
  | c :: rest, op => by
    unfold opWalkS
    split
    · have := opWalkS_len cfg rest (op ++ [alias cfg.tables c])
      simp only [List.length_cons]; omega
    · simp

end Spec

/-! ### facts extracted from `tablesOK` -/

theorem tablesOK_numExcl {tb : Tables} (h : tablesOK tb = true) {c : Char} (hc : c ∈ tb.numExcl) :
    (tb.emit.lookup c).isSome = true ∨ c ∈ handSpecial := by
  simp only [tablesOK, Bool.and_eq_true] at h
  have := List.all_eq_true.mp h.1 c hc
  simpa using this

theorem tablesOK_strEnd_eof {tb : Tables} (h : tablesOK tb = true) : tb.strEnd.contains EOF = true := by
  simp only [tablesOK, Bool.and_eq_true] at h
  exact h.2.1

theorem lookup_mem {α β} [BEq α] [LawfulBEq α] : ∀ (l : List (α × β)) (a : α) (b : β),
    l.lookup a = some b → (a, b) ∈ l
  | [], _, _, h => by simp [List.lookup] at h
  | (k, w) :: es, a, b, h => by
    simp only [List.lookup] at h
    split at h
    · rename_i heq
      have : a = k := by simpa using heq
      cases h; subst this; simp
    · exact List.mem_cons_of_mem _ (lookup_mem es a b h)

theorem tablesOK_emit_notSpecial {tb : Tables} (h : tablesOK tb = true) {c : Char} {v}
    (hc : tb.emit.lookup c = some v) : c ∉ handSpecial := by
  simp only [tablesOK, Bool.and_eq_true] at h
  have hall := List.all_eq_true.mp h.2.2.1
  have := hall (c, v) (lookup_mem _ _ _ hc)
  simpa using this

theorem tablesOK_alias_struct {tb : Tables} (h : tablesOK tb = true) {c : Char}
    (hc : c ∈ handSpecial ++ tb.emit.map (·.1) ++ ['/', '*', '\\', '_', '.', 'e', '+', '-', '^']) : alias tb c = c := by
  simp only [tablesOK, Bool.and_eq_true] at h
  have := List.all_eq_true.mp h.2.2.2.1 c hc
  unfold alias
  cases hl : tb.aliases.lookup c with
  | none => rfl
  | some a => simp [hl] at this

theorem tablesOK_escapes {tb : Tables} (h : tablesOK tb = true) {c l : Char} (hc : (c, l) ∈ specEscapes) :
    tb.escapes.lookup l = some c := by
  simp only [tablesOK, Bool.and_eq_true] at h
  have := List.all_eq_true.mp h.2.2.2.2.1 (c, l) hc
  simpa using this

theorem tablesOK_strEnd_sub {tb : Tables} (h : tablesOK tb = true) {c : Char} (hc : c ∈ tb.strEnd) :
    c = EOF ∨ c = '\n' ∨ c = '\r' := by
  simp only [tablesOK, Bool.and_eq_true] at h
  have := List.all_eq_true.mp h.2.2.2.2.2.1 c hc
  simpa using this

theorem tablesOK_super {tb : Tables} (h : tablesOK tb = true) {e} (he : e ∈ tb.emit) (hs : isSuperEntry e = true) :
    e.2.2 = .number ∧ e.1 ∈ tb.numExcl ∧ e.1 ∈ tb.identExcl := by
  simp only [tablesOK, Bool.and_eq_true] at h
  have := List.all_eq_true.mp h.2.2.2.2.2.2.1 e he
  simp [hs] at this
  exact ⟨this.1.1, this.1.2, this.2⟩

theorem tablesOK_close {tb : Tables} (h : tablesOK tb = true) :
    tb.emit.lookup ')' = some ([(.close, [')'])], .close) := by
  simp only [tablesOK, Bool.and_eq_true] at h
  simpa using h.2.2.2.2.2.2.2.1

theorem tablesOK_alias_idem {tb : Tables} (h : tablesOK tb = true) (c : Char) : alias tb (alias tb c) = alias tb c := by
  simp only [tablesOK, Bool.and_eq_true] at h
  have hall := List.all_eq_true.mp h.2.2.2.2.2.2.2.2.1
  unfold alias
  cases hl : tb.aliases.lookup c with
  | none => simp [hl]
  | some a =>
    have := hall (c, a) (lookup_mem _ _ _ hl)
    simp only [Option.isNone_iff_eq_none] at this
    simp [this]

theorem tablesOK_emit_images {tb : Tables} (h : tablesOK tb = true) {c : Char} {toks k}
    (hl : tb.emit.lookup c = some (toks, k)) {kd im} (ht : (kd, im) ∈ toks) : im.map (alias tb) = im := by
  simp only [tablesOK, Bool.and_eq_true] at h
  have hall := List.all_eq_true.mp h.2.2.2.2.2.2.2.2.2 (c, toks, k) (lookup_mem _ _ _ hl)
  have h2 := List.all_eq_true.mp hall (kd, im) ht
  have h3 := List.all_eq_true.mp h2
  clear hall h2 h hl ht
  induction im with
  | nil => rfl
  | cons x xs ih =>
    have hx := h3 x (List.mem_cons_self ..)
    simp only [Option.isNone_iff_eq_none] at hx
    simp only [List.map_cons, alias, hx]
    rw [ih (fun y hy => h3 y (List.mem_cons_of_mem _ hy))]

theorem cfgOK_noEOF {cfg : Cfg} (h : cfgOK cfg = true) (op : List Char) : extends_ cfg (op ++ [EOF]) = false := by
  unfold extends_
  rw [Bool.eq_false_iff]
  intro hany
  obtain ⟨o, ho, hp⟩ := List.any_eq_true.mp hany
  have hno := List.all_eq_true.mp h o ho
  have hpre : (op ++ [EOF]) <+: o := List.isPrefixOf_iff_prefix.mp hp
  obtain ⟨t, rfl⟩ := hpre
  have hmem : EOF ∈ op ++ [EOF] ++ t :=
    List.mem_append_left _ (List.mem_append_right _ (List.mem_singleton.mpr rfl))
  have hc : (op ++ [EOF] ++ t).contains EOF = true := List.contains_iff_mem.mpr hmem
  rw [hc] at hno
  exact absurd hno (by decide)

namespace Spec

/-! ### progress and unfolding of the reference scanner -/

theorem default_notExcl {tb : Tables} (htb : tablesOK tb = true) {n : Char}
    (hnl : ¬ n = '\n') (hbl : ¬ (n = ' ' ∨ n = '\r' ∨ n = '\t')) (heof : ¬ n = EOF) (hop : ¬ n = '(')
    (hq : ¬ n = '"') (hq' : ¬ n = '\'') (hlook : tb.emit.lookup n = none) : n ∉ tb.numExcl := by
  intro hmem
  rcases tablesOK_numExcl htb hmem with h1 | h1
  · simp [hlook] at h1
  · simp only [handSpecial, List.mem_cons, List.not_mem_nil, or_false] at h1
    rcases h1 with h1 | h1 | h1 | h1 | h1 | h1 | h1 | h1
    · exact hnl h1
    · exact hbl (Or.inl h1)
    · exact hbl (Or.inr (Or.inl h1))
    · exact hbl (Or.inr (Or.inr h1))
    · exact heof h1
    · exact hop h1
    · exact hq h1
    · exact hq' h1

theorem numberNext_first (cfg : Cfg) {n : Char} (hnum : numberStart cfg n = true) (hex : n ∉ cfg.tables.numExcl) :
    numberNext cfg EOF n = true := by
  unfold numberNext
  unfold numberStart at hnum
  simp [hnum, hex]

theorem identNext_first (cfg : Cfg) {n : Char} (hid : identStart cfg n = true) : identNext cfg EOF n = true := by
  unfold identNext
  unfold identStart at hid
  simp only [Bool.or_eq_true, beq_iff_eq] at hid ⊢
  rcases hid with h1 | h1
  · exact Or.inl (Or.inl h1)
  · exact Or.inr h1

theorem stepDefault_decreases (cfg : Cfg) (n c0 : Char) (rest : List Char) (line : Nat) (rs : RunSt)
    (hn : n = alias cfg.tables c0) (heof : n ≠ EOF) (hex : n ∉ cfg.tables.numExcl)
    (toks : List Token) (s : List Char) (l : Nat) (r : RunSt)
    (h : stepDefault cfg n c0 rest line rs = .emit toks s l r) : s.length ≤ rest.length := by
  subst hn
  unfold stepDefault at h
  split at h
  · rename_i hnum
    cases h
    have hv : numberNext cfg EOF (alias cfg.tables c0) = true := by
      unfold numberNext
      unfold numberStart at hnum
      simp [hnum, hex]
    exact readWhileS_first (alias cfg.tables) (numberNext cfg) EOF c0 rest heof hv
  · split at h
    · rename_i hid
      have hv : identNext cfg EOF (alias cfg.tables c0) = true := by
        unfold identNext
        unfold identStart at hid
        simp only [Bool.or_eq_true, beq_iff_eq] at hid ⊢
        rcases hid with h1 | h1
        · exact Or.inl (Or.inl h1)
        · exact Or.inr h1
      have hl := readWhileS_first (alias cfg.tables) (identNext cfg) EOF c0 rest heof hv
      split at h
      · cases h; exact hl
      · split at h
        · cases h; exact hl
        · cases h; exact hl
    · split at h
      · cases h
        exact opWalkS_len cfg rest [alias cfg.tables c0]
      · cases h; exact Nat.le_refl _

theorem stepAt_decreases (cfg : Cfg) (htb : tablesOK cfg.tables = true) (c0 : Char) (rest : List Char)
    (line : Nat) (rs : RunSt) (toks : List Token) (s : List Char) (l : Nat) (r : RunSt)
    (h : stepAt cfg (alias cfg.tables c0) c0 rest line rs = .emit toks s l r) : s.length ≤ rest.length := by
  unfold stepAt at h
  split at h
  · cases h; exact Nat.le_refl _
  split at h
  · cases h; exact Nat.le_refl _
  split at h
  · simp at h
  split at h
  · cases h; exact Nat.le_refl _
  split at h
  · cases h
    exact readStrS_len cfg.tables rest.length rest [] (Nat.le_refl _)
  split at h
  · cases h
    have := readWhileS_len id (fun _ c => c != '\'') rest EOF
    simp only [List.length_drop]; omega
  rename_i hnl hbl heof hop hq hq'
  split at h
  · cases h; exact Nat.le_refl _
  · rename_i hlook
    have hex := default_notExcl htb hnl hbl heof hop hq hq' hlook
    exact stepDefault_decreases cfg _ c0 rest line rs rfl heof hex toks s l r h

theorem step_decreases (cfg : Cfg) (htb : tablesOK cfg.tables = true) (str : List Char) (line : Nat) (rs : RunSt)
    (toks : List Token) (s : List Char) (l : Nat) (r : RunSt)
    (h : step cfg str line rs = .emit toks s l r) : s.length < str.length := by
  unfold step at h
  split at h
  · simp at h
  · simp at h
  · rename_i c0 rest line' hsk
    have hlen := (skipCode_len cfg str line _ _ hsk).1
    simp only [List.length_cons] at hlen
    have := stepAt_decreases cfg htb c0 rest line' rs toks s l r h
    omega

theorem run_unfold (cfg : Cfg) (htb : tablesOK cfg.tables = true) (str : List Char) (line : Nat) (rs : RunSt) :
    run cfg str line rs =
      match step cfg str line rs with
      | .eof => []
      | .emit toks s l r => toks ++ run cfg s l r := by
  rw [run]
  cases hst : step cfg str line rs with
  | eof => rfl
  | emit toks s l r =>
    have := step_decreases cfg htb str line rs toks s l r hst
    simp [this]

end Spec
end P2.Lex
