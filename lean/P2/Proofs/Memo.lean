import P2.Model.Memo
/-! Lemmas about memo cells (`P2.Model.Memo`): what a run yields, the cache invariant, and what a shared cell shows. -/
namespace P2.Memo

theorem le_maxNeed {src : List Item} {it : Item} (h : it ∈ src) : it.need ≤ maxNeed src := by
  induction src with
  | nil => cases h
  | cons a rest ih =>
    simp only [maxNeed, List.foldr_cons]
    rcases List.mem_cons.1 h with rfl | h'
    · exact Nat.le_max_left _ _
    · exact Nat.le_trans (ih h') (Nat.le_max_right _ _)

theorem take_len_vals (src : List Item) : (vals src).take src.length = vals src :=
  List.take_of_length_le (by simp [vals])

/-- a run that meets its demand yields the first `k` values -/
theorem run_ok_vals (free : Nat) : ∀ (k : Nat) (src : List Item), (run free k src).2 = none →
    (run free k src).1 = (vals src).take k
  | 0, _, _ => by simp [run]
  | _ + 1, [], _ => by simp [run, vals]
  | k + 1, it :: rest, h => by
    unfold run at h ⊢
    by_cases h1 : free < it.need
    · simp [h1] at h
    · by_cases h2 : it.bad = true
      · simp [h1, h2] at h
      · simp only [h1, h2, if_false] at h ⊢
        simp only [Bool.false_eq_true, if_false] at h ⊢
        simp [vals, List.take_succ_cons] at *
        simpa [vals] using run_ok_vals free k rest h

/-- a complete run means every item fits and none is an error item -/
theorem run_full_ok (free : Nat) : ∀ (src : List Item), (run free src.length src).2 = none →
    ∀ it ∈ src, it.need ≤ free ∧ it.bad = false
  | [], _ => by simp
  | a :: rest, h => by
    simp only [List.length_cons] at h
    unfold run at h
    by_cases h1 : free < a.need
    · simp [h1] at h
    · by_cases h2 : a.bad = true
      · simp [h1, h2] at h
      · simp only [h1, h2, if_false, Bool.false_eq_true] at h
        intro it hit
        rcases List.mem_cons.1 hit with rfl | h'
        · exact ⟨Nat.le_of_not_lt h1, by simpa using h2⟩
        · exact run_full_ok free rest h it h'

/-- with enough free slots and no error item a run meets every demand -/
theorem run_of_enough (free : Nat) : ∀ (k : Nat) (src : List Item), (∀ it ∈ src, it.need ≤ free ∧ it.bad = false) →
    run free k src = ((vals src).take k, none)
  | 0, _, _ => by simp [run]
  | _ + 1, [], _ => by simp [run, vals]
  | k + 1, a :: rest, h => by
    have ha := h a (List.mem_cons_self ..)
    have hr : ∀ it ∈ rest, it.need ≤ free ∧ it.bad = false := fun it hit => h it (List.mem_cons_of_mem _ hit)
    unfold run
    have h1 : ¬ free < a.need := Nat.not_lt.2 ha.1
    simp only [h1, ha.2, if_false, Bool.false_eq_true]
    rw [run_of_enough free k rest hr]
    simp [vals, List.take_succ_cons]

/-- without an error item the only fault is the stack overflow -/
theorem run_fault_clean (free : Nat) : ∀ (k : Nat) (src : List Item), (∀ it ∈ src, it.bad = false) →
    ∀ f, (run free k src).2 = some f → f = .overflow
  | 0, _, _, f, h => by simp [run] at h
  | _ + 1, [], _, f, h => by simp [run] at h
  | k + 1, a :: rest, hc, f, h => by
    unfold run at h
    by_cases h1 : free < a.need
    · simp [h1] at h; exact h.symm
    · have ha : a.bad = false := hc a (List.mem_cons_self ..)
      simp only [h1, ha, if_false, Bool.false_eq_true] at h
      exact run_fault_clean free k rest (fun it hit => hc it (List.mem_cons_of_mem _ hit)) f h

/-- with `maxNeed` free slots a run never overflows -/
theorem run_no_overflow (free : Nat) : ∀ (k : Nat) (src : List Item), maxNeed src ≤ free →
    (run free k src).2 ≠ some .overflow
  | 0, _, _ => by simp [run]
  | _ + 1, [], _ => by simp [run]
  | k + 1, a :: rest, hm => by
    have ha : a.need ≤ free := Nat.le_trans (le_maxNeed (List.mem_cons_self ..)) hm
    have hr : maxNeed rest ≤ free := by
      simp only [maxNeed, List.foldr_cons] at hm
      exact Nat.le_trans (Nat.le_max_right _ _) hm
    unfold run
    have h1 : ¬ free < a.need := Nat.not_lt.2 ha
    by_cases h2 : a.bad = true
    · simp [h1, h2]
    · simp only [h1, h2, if_false, Bool.false_eq_true]
      exact run_no_overflow free k rest hr

/-- above `maxNeed` the number of free slots is irrelevant -/
theorem run_free_irrelevant (free free' : Nat) : ∀ (k : Nat) (src : List Item), maxNeed src ≤ free → maxNeed src ≤ free' →
    run free k src = run free' k src
  | 0, _, _, _ => by simp [run]
  | _ + 1, [], _, _ => by simp [run]
  | k + 1, a :: rest, hm, hm' => by
    have hmr : ∀ f, maxNeed (a :: rest) ≤ f → ¬ f < a.need ∧ maxNeed rest ≤ f := by
      intro f hf
      simp only [maxNeed, List.foldr_cons] at hf
      exact ⟨Nat.not_lt.2 (Nat.le_trans (Nat.le_max_left _ _) hf), Nat.le_trans (Nat.le_max_right _ _) hf⟩
    unfold run
    simp only [(hmr free hm).1, (hmr free' hm').1, if_false]
    rw [run_free_irrelevant free free' k rest (hmr free hm).2 (hmr free' hm').2]

/-! ## The cache invariant -/

/-- `items`, once present, are exactly the values of the producer, and the producer has no error item -/
def Inv (c : Cell) : Prop := ∀ xs, c.cache = some xs → xs = vals c.src ∧ ∀ it ∈ c.src, it.bad = false

theorem inv_fresh (src : List Item) : Inv (fresh src) := by
  intro xs h; simp [fresh] at h

theorem step_src (c : Cell) (o : Op) : (c.step o).1.src = c.src := by
  cases o with
  | force free =>
    unfold Cell.step
    cases hc : c.cache with
    | some xs => simp
    | none =>
      simp only
      split <;> simp
  | iter free k =>
    unfold Cell.step
    cases hc : c.cache <;> simp

theorem step_inv (c : Cell) (o : Op) (h : Inv c) : Inv (c.step o).1 := by
  cases o with
  | force free =>
    unfold Cell.step
    cases hc : c.cache with
    | some xs => simpa using h
    | none =>
      simp only
      split
      · rename_i xs hr
        intro ys hys
        simp only [Option.some.injEq] at hys
        subst hys
        have h2 : (run free c.src.length c.src).2 = none := by rw [hr]
        have h1 : (run free c.src.length c.src).1 = xs := by rw [hr]
        refine ⟨?_, fun it hit => (run_full_ok free c.src h2 it hit).2⟩
        rw [← h1, run_ok_vals free _ _ h2, take_len_vals]
      · simpa using h
  | iter free k =>
    unfold Cell.step
    cases hc : c.cache <;> simpa using h

theorem after_src (c : Cell) (hist : List Op) : (c.after hist).src = c.src := by
  induction hist generalizing c with
  | nil => rfl
  | cons o os ih => simp only [Cell.after]; rw [ih, step_src]

theorem after_snoc (c : Cell) (pre : List Op) (o : Op) : c.after (pre ++ [o]) = ((c.after pre).step o).1 := by
  induction pre generalizing c with
  | nil => rfl
  | cons p ps ih => simp only [List.cons_append, Cell.after]; exact ih _

theorem after_inv (c : Cell) (hist : List Op) (h : Inv c) : Inv (c.after hist) := by
  induction hist generalizing c with
  | nil => exact h
  | cons o os ih => exact ih _ (step_inv c o h)

/-! ## What a shared cell shows -/

theorem isolated_force (src : List Item) (free : Nat) :
    isolated src (.force free) =
      (match run free src.length src with
       | (xs, none) => (xs, none)
       | (_, some f) => ([], some f)) := by
  unfold isolated fresh Cell.step
  simp only
  split <;> simp_all

theorem isolated_iter (src : List Item) (free k : Nat) : isolated src (.iter free k) = run free k src := by
  simp [isolated, fresh, Cell.step]

/-- the outcome on a cell that holds its items: what the isolated evaluation gives with enough free slots -/
theorem step_cached (c : Cell) (xs : List Nat) (hc : c.cache = some xs) (h : Inv c) (o : Op) :
    (c.step o).2 = isolated c.src (o.withFree (maxNeed c.src)) := by
  obtain ⟨hx, hclean⟩ := h xs hc
  have hen : ∀ it ∈ c.src, it.need ≤ maxNeed c.src ∧ it.bad = false := fun it hit => ⟨le_maxNeed hit, hclean it hit⟩
  cases o with
  | force free =>
    simp only [Op.withFree]
    rw [isolated_force, run_of_enough _ _ _ hen, take_len_vals]
    simp [Cell.step, hc, hx]
  | iter free k =>
    simp only [Op.withFree]
    rw [isolated_iter, run_of_enough _ _ _ hen]
    simp [Cell.step, hc, hx]

/-- one step on a cell that satisfies the invariant: the isolated outcome, or — where the isolated evaluation
runs out of stack — the outcome the isolated evaluation has with enough stack -/
theorem step_outcome (c : Cell) (h : Inv c) (o : Op) :
    (c.step o).2 = isolated c.src o ∨
      ((isolated c.src o).2 = some .overflow ∧ (c.step o).2 = isolated c.src (o.withFree (maxNeed c.src))) := by
  cases hc : c.cache with
  | none =>
    left
    have : c = fresh c.src := by cases c; simp_all [fresh]
    unfold isolated; rw [← this]
  | some xs =>
    obtain ⟨hx, hclean⟩ := h xs hc
    have hcached := step_cached c xs hc h o
    have hen : ∀ it ∈ c.src, it.need ≤ maxNeed c.src ∧ it.bad = false := fun it hit => ⟨le_maxNeed hit, hclean it hit⟩
    cases o with
    | force free =>
      cases hr : (run free c.src.length c.src).2 with
      | none =>
        left
        rw [hcached]
        simp only [Op.withFree]
        rw [isolated_force, isolated_force, run_of_enough _ _ _ hen]
        have h1 := run_ok_vals free _ _ hr
        have : run free c.src.length c.src = ((vals c.src).take c.src.length, none) := by
          rw [← h1, ← hr]
        rw [this]
      | some f =>
        right
        have hf := run_fault_clean free _ _ hclean f hr
        subst hf
        refine ⟨?_, hcached⟩
        rw [isolated_force]
        have : run free c.src.length c.src = ((run free c.src.length c.src).1, some .overflow) := by
          rw [← hr]
        rw [this]
    | iter free k =>
      cases hr : (run free k c.src).2 with
      | none =>
        left
        rw [hcached]
        simp only [Op.withFree]
        rw [isolated_iter, isolated_iter, run_of_enough _ _ _ hen]
        have h1 := run_ok_vals free _ _ hr
        rw [← h1, ← hr]
      | some f =>
        right
        have hf := run_fault_clean free _ _ hclean f hr
        subst hf
        exact ⟨by rw [isolated_iter]; exact hr, hcached⟩

/-- with enough free slots the isolated evaluation does not overflow -/
theorem isolated_no_overflow (src : List Item) (o : Op) (hfree : maxNeed src ≤ o.free) :
    (isolated src o).2 ≠ some .overflow := by
  cases o with
  | force free =>
    rw [isolated_force]
    have := run_no_overflow free src.length src hfree
    split
    · simp
    · rename_i f hr
      intro hf
      simp only [Option.some.injEq] at hf
      subst hf
      rw [hr] at this
      exact this rfl
  | iter free k =>
    rw [isolated_iter]
    exact run_no_overflow free k src hfree

/-- a step that reports a fault leaves the cell as it was -/
theorem failing_step_unchanged (c : Cell) (o : Op) (h : (c.step o).2.2 ≠ none) : (c.step o).1 = c := by
  cases o with
  | force free =>
    unfold Cell.step at h ⊢
    cases hc : c.cache with
    | some xs => simp
    | none =>
      simp only [hc] at h ⊢
      split
      · rename_i xs hr
        rw [hr] at h
        simp at h
      · rfl
  | iter free k =>
    unfold Cell.step
    cases hc : c.cache <;> simp

/-- iteration without materialising never changes the cell -/
theorem iter_unchanged (c : Cell) (free k : Nat) : (c.step (.iter free k)).1 = c := by
  unfold Cell.step
  cases hc : c.cache <;> simp

/-- the snapshot reading of `iter` is the atomic one -/
theorem snapshot_pull (c : Cell) (free k : Nat) : c.snapshot.pull free k = (c.step (.iter free k)).2 := by
  unfold Cell.snapshot Cell.step
  cases hc : c.cache <;> simp [Snapshot.pull]

end P2.Memo
