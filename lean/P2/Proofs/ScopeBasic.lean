import P2.Model.Scope
/-! # Lemmas on the `Identifiers` chain (C16)

`skel` forgets the contents of the accumulators, `dropMap` removes the `AddMap` layers. Look-ups do
not depend on accumulators and do not change the skeleton; `WF m` describes the chains that occur
while `GenerateWithMap(exp, m)` parses: local layers that do not bind `m`, then `AddArgs([m], nil)`,
`AddMap(m)`, constants and static functions. `lookup_cases` is the heart of C16: in such a chain a
name either resolves identically with and without the map layer, or it is an attribute, and then the
look-up of `m` in the chain without the map layer has exactly the same side effects. -/
namespace P2.Scope
open P2.Lang

def Layer.skel : Layer → Layer
  | .args ns acc => .args ns (acc.map fun _ => [])
  | .this n _ => .this n false
  | l => l

def skel (s : Scope) : Scope := s.map Layer.skel

def Layer.isMap : Layer → Bool
  | .map _ => true
  | _ => false

def dropMap (s : Scope) : Scope := s.filter (fun l => !l.isMap)

def Layer.isBase : Layer → Bool
  | .const _ _ => true
  | .func _ => true
  | _ => false

/-- only constants and static functions (what `AddConstant`/`AddStaticFunction` build) -/
def BaseOK (b : Scope) : Prop := b.all Layer.isBase = true

@[simp] theorem skel_nil : skel [] = [] := rfl
@[simp] theorem skel_cons (l : Layer) (s : Scope) : skel (l :: s) = l.skel :: skel s := rfl
@[simp] theorem dropMap_nil : dropMap [] = [] := rfl
@[simp] theorem dropMap_const (n v) (s : Scope) : dropMap (.const n v :: s) = .const n v :: dropMap s := rfl
@[simp] theorem dropMap_func (n) (s : Scope) : dropMap (.func n :: s) = .func n :: dropMap s := rfl
@[simp] theorem dropMap_plain (n) (s : Scope) : dropMap (.plain n :: s) = .plain n :: dropMap s := rfl
@[simp] theorem dropMap_args (ns a) (s : Scope) : dropMap (.args ns a :: s) = .args ns a :: dropMap s := rfl
@[simp] theorem dropMap_this (n u) (s : Scope) : dropMap (.this n u :: s) = .this n u :: dropMap s := rfl
@[simp] theorem dropMap_map (t) (s : Scope) : dropMap (.map t :: s) = dropMap s := rfl

theorem skel_skel (s : Scope) : skel (skel s) = skel s := by
  induction s with
  | nil => rfl
  | cons l s ih => cases l <;> simp [Layer.skel, ih] <;> (rename_i a; cases a <;> rfl)

theorem dropMap_skel (s : Scope) : dropMap (skel s) = skel (dropMap s) := by
  induction s with
  | nil => rfl
  | cons l s ih => cases l <;> simp [Layer.skel, ih]

theorem find_skel (s : Scope) (x : String) : find (skel s) x = find s x := by
  induction s with
  | nil => rfl
  | cons l s ih => cases l <;> simp [Layer.skel, find, ih]

theorem find_congr {s s' : Scope} (h : skel s = skel s') (x : String) : find s x = find s' x := by
  rw [← find_skel s, ← find_skel s', h]

theorem skel_mark (fx : Bool) (s : Scope) (x : String) : skel (mark fx s x) = skel s := by
  induction s with
  | nil => rfl
  | cons l s ih =>
    cases l with
    | const n v => by_cases h : x = n <;> simp [mark, Layer.skel, h, ih]
    | func n => by_cases h : x = n <;> simp [mark, Layer.skel, h, ih]
    | plain n => by_cases h : x = n <;> simp [mark, Layer.skel, h, ih]
    | this n u => by_cases h : x = n <;> simp [mark, Layer.skel, h, ih]
    | map t => simp [mark, Layer.skel, ih]
    | args ns acc =>
      by_cases h : x ∈ ns
      · simp [mark, h]
      · simp only [mark, h, if_false, skel_cons, ih, Layer.skel]
        congr 2
        cases acc with
        | none => simp [record]
        | some a =>
          cases hf : find s x with
          | none => simp [record]
          | some i =>
            simp only [record]
            repeat' split
            all_goals rfl

/-! ### inversion of skeleton equations -/

theorem skel_eq_cons {s' s : Scope} {l : Layer} (h : skel s' = skel (l :: s)) :
    ∃ l' s'', s' = l' :: s'' ∧ l'.skel = l.skel ∧ skel s'' = skel s := by
  cases s' with
  | nil => simp at h
  | cons l' s'' => simp at h; exact ⟨l', s'', rfl, h.1, h.2⟩

theorem skel_tail {s' s : Scope} {l : Layer} (h : skel s' = skel (l :: s)) : skel s'.tail = skel s := by
  obtain ⟨l', s'', rfl, _, h2⟩ := skel_eq_cons h
  exact h2

theorem Layer.skel_eq_plain {l : Layer} {x : String} (h : l.skel = (Layer.plain x).skel) : l = .plain x := by
  cases l <;> simp_all [Layer.skel]

theorem Layer.skel_eq_const {l : Layer} {x : String} {c : Scalar} (h : l.skel = (Layer.const x c).skel) :
    l = .const x c := by
  cases l <;> simp_all [Layer.skel]

theorem Layer.skel_eq_this {l : Layer} {x : String} {u : Bool} (h : l.skel = (Layer.this x u).skel) :
    ∃ u', l = .this x u' := by
  cases l <;> simp_all [Layer.skel]

theorem Layer.skel_eq_args {l : Layer} {ns : List String} {a : List String}
    (h : l.skel = (Layer.args ns (some a)).skel) : ∃ a', l = .args ns (some a') := by
  cases l with
  | args ns' acc => cases acc <;> simp_all [Layer.skel]
  | _ => simp_all [Layer.skel]

/-! ### base chains -/

theorem BaseOK.cons {l : Layer} {b : Scope} (h : BaseOK (l :: b)) : l.isBase = true ∧ BaseOK b := by
  simpa [BaseOK] using h

theorem dropMap_base {b : Scope} (h : BaseOK b) : dropMap b = b := by
  induction b with
  | nil => rfl
  | cons l b ih => cases l <;> simp_all [BaseOK, Layer.isBase]

theorem mark_base (fx : Bool) {b : Scope} (h : BaseOK b) (x : String) : mark fx b x = b := by
  induction b with
  | nil => rfl
  | cons l b ih =>
    cases l <;> simp_all [BaseOK, Layer.isBase, mark]

theorem find_base {b : Scope} (h : BaseOK b) (x : String) :
    find b x = none ∨ ∃ i, find b x = some i ∧ i.isConst = true ∧ i.this = "" := by
  induction b with
  | nil => exact .inl rfl
  | cons l b ih =>
    cases l with
    | const n v =>
      by_cases hx : x = n
      · exact .inr ⟨⟨.const v, ""⟩, by simp [find, hx], rfl, rfl⟩
      · simpa [find, hx] using ih h.cons.2
    | func n =>
      by_cases hx : x = n
      · exact .inr ⟨⟨.func, ""⟩, by simp [find, hx], rfl, rfl⟩
      · simpa [find, hx] using ih h.cons.2
    | _ => simp [BaseOK, Layer.isBase] at h

theorem BaseOK_of_skel_eq {b b' : Scope} (h : skel b' = skel b) (hb : BaseOK b) : BaseOK b' := by
  have key : ∀ s : Scope, (skel s).all Layer.isBase = s.all Layer.isBase := by
    intro s
    induction s with
    | nil => rfl
    | cons l s ih => cases l <;> simp_all [Layer.skel, Layer.isBase, skel]
  unfold BaseOK at *
  rw [← key b', h, key b, hb]

/-! ### the chains of `GenerateWithMap` -/

/-- local layers not binding `m`, then `AddArgs([m], nil)`, `AddMap(m)`, a base chain -/
def WF (m : String) : Scope → Prop
  | .args ns none :: .map t :: b => ns = [m] ∧ t = m ∧ BaseOK b
  | .args ns (some _) :: rest => m ∉ ns ∧ WF m rest
  | .plain n :: rest => n ≠ m ∧ WF m rest
  | .const n _ :: rest => n ≠ m ∧ WF m rest
  | .this n _ :: rest => n ≠ m ∧ WF m rest
  | _ => False

theorem WF_of_skel_eq {m : String} : ∀ {s s' : Scope}, skel s' = skel s → WF m s → WF m s'
  | [], _, _, h => by simp [WF] at h
  | .args ns none :: rest, s', hs, h => by
    obtain ⟨l', s'', rfl, hl, hr⟩ := skel_eq_cons hs
    cases rest with
    | nil => simp [WF] at h
    | cons r b =>
      cases r with
      | map t =>
        obtain ⟨l2, b', rfl, hl2, hb⟩ := skel_eq_cons hr
        have : l' = .args ns none := by
          cases l' with
          | args ns' acc => cases acc <;> simp_all [Layer.skel]
          | _ => simp_all [Layer.skel]
        have h2 : l2 = .map t := by cases l2 <;> simp_all [Layer.skel]
        subst this h2
        simp only [WF] at h ⊢
        exact ⟨h.1, h.2.1, BaseOK_of_skel_eq hb h.2.2⟩
      | _ => simp [WF] at h
  | .args ns (some a) :: rest, s', hs, h => by
    obtain ⟨l', s'', rfl, hl, hr⟩ := skel_eq_cons hs
    obtain ⟨a', rfl⟩ := Layer.skel_eq_args hl
    simp only [WF] at h ⊢
    exact ⟨h.1, WF_of_skel_eq hr h.2⟩
  | .plain n :: rest, s', hs, h => by
    obtain ⟨l', s'', rfl, hl, hr⟩ := skel_eq_cons hs
    have := Layer.skel_eq_plain hl; subst this
    simp only [WF] at h ⊢
    exact ⟨h.1, WF_of_skel_eq hr h.2⟩
  | .const n v :: rest, s', hs, h => by
    obtain ⟨l', s'', rfl, hl, hr⟩ := skel_eq_cons hs
    have := Layer.skel_eq_const hl; subst this
    simp only [WF] at h ⊢
    exact ⟨h.1, WF_of_skel_eq hr h.2⟩
  | .this n u :: rest, s', hs, h => by
    obtain ⟨l', s'', rfl, hl, hr⟩ := skel_eq_cons hs
    obtain ⟨u', rfl⟩ := Layer.skel_eq_this hl
    simp only [WF] at h ⊢
    exact ⟨h.1, WF_of_skel_eq hr h.2⟩
  | .func _ :: _, _, _, h => by simp [WF] at h
  | .map _ :: _, _, _, h => by simp [WF] at h

/-- a chain in `WF` never starts with the map layer, so popping commutes with `dropMap` -/
theorem WF.dropMap_tail {m : String} {s : Scope} (h : WF m s) : (dropMap s).tail = dropMap s.tail := by
  cases s with
  | nil => rfl
  | cons l s => cases l <;> simp_all [WF]

/-- the two outcomes of a look-up in a `WF` chain -/
inductive LookupCase (m : String) (s : Scope) (x : String) : Prop where
  /-- bound locally, the map itself, a constant or a static function: same answer and same side
  effects with and without the map layer -/
  | same (i : Ident) (h1 : find s x = some i) (h2 : i.this = "")
      (h3 : find (dropMap s) x = some i) (h4 : mark true (dropMap s) x = dropMap (mark true s x))
  /-- an attribute: unbound without the map layer, and looking `m` up there has the side effects
  that looking `x` up has with the map layer -/
  | attr (h1 : find s x = some ⟨.plain, m⟩) (h2 : find (dropMap s) x = none)
      (h3 : find (dropMap s) m = some ⟨.plain, ""⟩)
      (h4 : mark true (dropMap s) m = dropMap (mark true s x))

theorem record_attr (a : List String) (m x : String) (hm : m ≠ "") :
    record true (some a) (some ⟨.plain, m⟩) x = record true (some a) (some ⟨.plain, ""⟩) m := by
  simp [record, Ident.isConst, hm]

theorem lookup_cases {m : String} (hm : m ≠ "") : ∀ {s : Scope}, WF m s → ∀ x, LookupCase m s x
  | [], h, _ => by simp [WF] at h
  | .args ns none :: rest, h, x => by
    cases rest with
    | nil => simp [WF] at h
    | cons r b =>
      cases r with
      | map t =>
        simp only [WF] at h
        obtain ⟨rfl, rfl, hb⟩ := h
        by_cases hx : x = t
        · subst hx
          exact .same ⟨.plain, ""⟩ (by simp [find]) rfl (by simp [find]) (by simp [mark])
        · rcases find_base hb x with hn | ⟨i, hi, hc, ht⟩
          · refine .attr ?_ ?_ ?_ ?_
            · simp [find, hx, hn]
            · simp [find, hx, hn, dropMap_base hb]
            · simp [find]
            · simp [mark, hx, record, mark_base true hb, dropMap_base hb]
          · refine .same i ?_ ht ?_ ?_
            · simp [find, hx, hi, hc]
            · simp [find, hx, hi, dropMap_base hb]
            · simp [mark, hx, record, mark_base true hb, dropMap_base hb]
      | _ => simp [WF] at h
  | .args ns (some a) :: rest, h, x => by
    simp only [WF] at h
    by_cases hx : x ∈ ns
    · exact .same ⟨.plain, ""⟩ (by simp [find, hx]) rfl (by simp [find, hx]) (by simp [mark, hx])
    · cases lookup_cases hm h.2 x with
      | same i h1 h2 h3 h4 =>
        exact .same i (by simp [find, hx, h1]) h2 (by simp [find, hx, h3])
          (by simp [mark, hx, h1, h3, h4])
      | attr h1 h2 h3 h4 =>
        refine .attr (by simp [find, hx, h1]) (by simp [find, hx, h2]) (by simp [find, h.1, h3]) ?_
        simp only [dropMap_args, mark, h.1, hx, if_false, h1, h3, h4]
        rw [record_attr a m x hm]
  | .plain n :: rest, h, x => by
    simp only [WF] at h
    by_cases hx : x = n
    · exact .same ⟨.plain, ""⟩ (by simp [find, hx]) rfl (by simp [find, hx]) (by simp [mark, hx])
    · cases lookup_cases hm h.2 x with
      | same i h1 h2 h3 h4 =>
        exact .same i (by simp [find, hx, h1]) h2 (by simp [find, hx, h3]) (by simp [mark, hx, h4])
      | attr h1 h2 h3 h4 =>
        exact .attr (by simp [find, hx, h1]) (by simp [find, hx, h2])
          (by simp [find, Ne.symm h.1, h3]) (by simp [mark, hx, Ne.symm h.1, h4])
  | .const n v :: rest, h, x => by
    simp only [WF] at h
    by_cases hx : x = n
    · exact .same ⟨.const v, ""⟩ (by simp [find, hx]) rfl (by simp [find, hx]) (by simp [mark, hx])
    · cases lookup_cases hm h.2 x with
      | same i h1 h2 h3 h4 =>
        exact .same i (by simp [find, hx, h1]) h2 (by simp [find, hx, h3]) (by simp [mark, hx, h4])
      | attr h1 h2 h3 h4 =>
        exact .attr (by simp [find, hx, h1]) (by simp [find, hx, h2])
          (by simp [find, Ne.symm h.1, h3]) (by simp [mark, hx, Ne.symm h.1, h4])
  | .this n u :: rest, h, x => by
    simp only [WF] at h
    by_cases hx : x = n
    · exact .same ⟨.plain, ""⟩ (by simp [find, hx]) rfl (by simp [find, hx]) (by simp [mark, hx])
    · cases lookup_cases hm h.2 x with
      | same i h1 h2 h3 h4 =>
        exact .same i (by simp [find, hx, h1]) h2 (by simp [find, hx, h3]) (by simp [mark, hx, h4])
      | attr h1 h2 h3 h4 =>
        exact .attr (by simp [find, hx, h1]) (by simp [find, hx, h2])
          (by simp [find, Ne.symm h.1, h3]) (by simp [mark, hx, Ne.symm h.1, h4])
  | .func _ :: _, h, _ => by simp [WF] at h
  | .map _ :: _, h, _ => by simp [WF] at h

end P2.Scope
