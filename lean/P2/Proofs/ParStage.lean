import P2.Model.ParStage
import P2.Proofs.Reorder
/-! Proofs about the data-carrying parallel stage: under every schedule the downstream consumer receives
a prefix of what the sequential stage hands it, and exactly the same once the stage is over. -/
namespace P2.ParStage
open P2.Reorder

variable {α β : Type}

theorem emit_stopped (more : List (Out β) → Bool) (d : List (Out β)) :
    ∀ outs : List (Out β), outs.foldl (emit more) (d, true) = (d, true)
  | [] => rfl
  | o :: outs => by
    simp only [List.foldl_cons]
    have : emit more (d, true) o = (d, true) := by simp [emit]
    rw [this]; exact emit_stopped more d outs

/-- once the wrapper has stopped after `k` outcomes, the rest of the source does not matter -/
theorem seqRun_take_stopped (more : List (Out β) → Bool) (outs : List (Out β)) (k : Nat)
    (h : (seqRun more (outs.take k)).2 = true) : seqRun more outs = seqRun more (outs.take k) := by
  unfold seqRun at *
  conv => lhs; rw [← List.take_append_drop k outs, List.foldl_append]
  generalize hg : (outs.take k).foldl (emit more) ([], false) = st at *
  obtain ⟨d, b⟩ := st
  simp only at h
  subst h
  exact emit_stopped more d _

theorem valsOf_lt (items : List α) (f : α → Out β) (i : Nat) (h : i < items.length) :
    valsOf items f i = f items[i] := by
  simp [valsOf, List.getElem?_eq_getElem h]

theorem range_map_vals (items : List α) (f : α → Out β) :
    ∀ k, k ≤ items.length → (List.range' 0 k).map (valsOf items f) = (items.map f).take k
  | 0, _ => by simp
  | k+1, h => by
    have hk : k < items.length := by omega
    rw [List.range'_concat, List.map_append, range_map_vals items f k (by omega)]
    simp only [Nat.zero_add, Nat.one_mul, List.map_cons, List.map_nil]
    rw [valsOf_lt items f k hk]
    have hk' : k < (items.map f).length := by simpa using hk
    rw [List.take_succ_eq_append_getElem hk']
    simp

/-- the invariant of every reachable state -/
structure J (items : List α) (f : α → Out β) (s : St β) : Prop where
  coll : Inv 0 (valsOf items f) s.seen s.c
  cover : ∀ i, (i ∈ s.seen ∨ i ∈ s.inflight) ↔ i < s.next
  disj : ∀ i ∈ s.inflight, i ∉ s.seen
  nodup : s.inflight.Nodup
  bound : s.next ≤ items.length

theorem init_J (items : List α) (f : α → Out β) : J items f (init β) where
  coll := ⟨⟨Nat.le_refl _, by simp [init], by intro i; simp [init, lookup],
            by intro i _ h2; simp [init] at h2⟩, by simp [init]⟩
  cover := by intro i; simp [init]
  disj := by intro i h; simp [init] at h
  nodup := by simp [init]
  bound := by simp [init]

theorem step_J {items : List α} {f : α → Out β} {w : Nat} {s s' : St β}
    (h : J items f s) (st : Step items f w s s') : J items f s' := by
  cases st with
  | dispatch hlt _ =>
    have hns : s.next ∉ s.seen := fun hm => by
      have := (h.cover s.next).mp (Or.inl hm); omega
    have hni : s.next ∉ s.inflight := fun hm => by
      have := (h.cover s.next).mp (Or.inr hm); omega
    refine ⟨h.coll, ?_, ?_, ?_, ?_⟩
    · intro i
      simp only [List.mem_cons]
      constructor
      · rintro (hm | hm | hm)
        · have := (h.cover i).mp (Or.inl hm); omega
        · omega
        · have := (h.cover i).mp (Or.inr hm); omega
      · intro hi
        by_cases he : i = s.next
        · exact Or.inr (Or.inl he)
        · have : i < s.next := by omega
          rcases (h.cover i).mpr this with hm | hm
          · exact Or.inl hm
          · exact Or.inr (Or.inr hm)
    · intro i hi
      simp only [List.mem_cons] at hi
      rcases hi with hi | hi
      · subst hi; exact hns
      · exact h.disj i hi
    · exact List.nodup_cons.mpr ⟨hni, h.nodup⟩
    · simp only; omega
  | arrive i hi =>
    have hns : i ∉ s.seen := h.disj i hi
    refine ⟨arrive_inv 0 (valsOf items f) s.seen s.c i h.coll hns (Nat.zero_le _), ?_, ?_, ?_, h.bound⟩
    · intro j
      simp only [List.mem_cons, h.nodup.mem_erase_iff]
      constructor
      · rintro ((hj | hj) | ⟨_, hj⟩)
        · subst hj; exact (h.cover j).mp (Or.inr hi)
        · exact (h.cover j).mp (Or.inl hj)
        · exact (h.cover j).mp (Or.inr hj)
      · intro hj
        by_cases he : j = i
        · exact Or.inl (Or.inl he)
        · rcases (h.cover j).mpr hj with hm | hm
          · exact Or.inl (Or.inr hm)
          · exact Or.inr ⟨he, hm⟩
    · intro j hj
      rw [h.nodup.mem_erase_iff] at hj
      simp only [List.mem_cons, not_or]
      exact ⟨hj.1, h.disj j hj.2⟩
    · exact h.nodup.erase i

theorem reach_J {items : List α} {f : α → Out β} {w : Nat} {s : St β}
    (h : Reach items f w s) : J items f s := by
  induction h with
  | init => exact init_J items f
  | step _ st ih => exact step_J ih st

/-- the collector never runs ahead of the dispatched items -/
theorem nextOut_le_next {items : List α} {f : α → Out β} {s : St β} (h : J items f s) :
    s.c.nextOut ≤ s.next := by
  by_cases hgt : s.next < s.c.nextOut
  · have := h.coll.1.below s.next (Nat.zero_le _) hgt
    have := (h.cover s.next).mp (Or.inl this)
    omega
  · omega

/-- what the collector has handed on so far is a prefix of the outcomes in source order -/
theorem out_is_prefix {items : List α} {f : α → Out β} {s : St β} (h : J items f s) :
    s.c.out = (items.map f).take s.c.nextOut := by
  have := h.coll.1.out
  rw [this, Nat.sub_zero]
  exact range_map_vals items f _ (Nat.le_trans (nextOut_le_next h) h.bound)

/-- with nothing in flight the collector has handed on everything that was dispatched -/
theorem nextOut_eq_next {items : List α} {f : α → Out β} {s : St β} (h : J items f s)
    (hfl : s.inflight = []) : s.c.nextOut = s.next := by
  have hle := nextOut_le_next h
  by_cases hlt : s.c.nextOut < s.next
  · rcases (h.cover s.c.nextOut).mpr hlt with hm | hm
    · exact absurd hm h.coll.2
    · simp [hfl] at hm
  · omega

end P2.ParStage

namespace P2.ParStage
variable {α β : Type}

/-- every step uses up a bounded resource: no run is longer than twice the source -/
def St.measure (n : Nat) (s : St β) : Nat := 2 * (n - s.next) + s.inflight.length

theorem step_measure {items : List α} {f : α → Out β} {w : Nat} {s s' : St β}
    (st : Step items f w s s') : s'.measure items.length < s.measure items.length := by
  cases st with
  | dispatch hlt _ =>
    simp only [St.measure, List.length_cons]
    omega
  | arrive i hi =>
    simp only [St.measure]
    have : (s.inflight.erase i).length = s.inflight.length - 1 := List.length_erase_of_mem hi
    have : 0 < s.inflight.length := List.length_pos_of_mem hi
    omega

/-- a state that is not over can move: a held result can always arrive, and with an idle worker the next
source item can be dispatched -/
theorem progress {items : List α} {f : α → Out β} {w : Nat} (hw : 0 < w) (s : St β)
    (hnot : ¬ (s.inflight = [] ∧ s.next = items.length)) (hle : s.next ≤ items.length) :
    ∃ s', Step items f w s s' := by
  cases hfl : s.inflight with
  | cons i rest =>
    exact ⟨_, Step.arrive s i (by simp [hfl])⟩
  | nil =>
    have hlt : s.next < items.length := by
      by_cases h : s.next = items.length
      · exact absurd ⟨hfl, h⟩ hnot
      · omega
    exact ⟨_, Step.dispatch s hlt (by simp [hfl]; exact hw)⟩

end P2.ParStage
