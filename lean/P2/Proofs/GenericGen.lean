import P2.Model.Generic
/-! Compile correctness of the closure-free fragment of `GenerateFunc`: the generated slot code
computes the environment semantics, never panics, and only grows the shared storage.
Port of the design prototype `Proto/Mini.lean` + `MiniProof.lean`, generic in `V`, with errors,
`if`, unary/binary operators, one-argument static calls and the `stack overflow` limit. -/
namespace P2.Generic
variable {V : Type}

/-- the stack window holds the values of the names in `am`, in order -/
structure EnvRel (am : Names) (env : Env V) (st : Stack V) : Prop where
  size : st.size = am.length
  bound : st.offs + st.size ≤ st.data.length
  slots : ∀ i n, idx am n = some i → env n = st.data[st.offs + i]?

/-- the storage `d` extends the storage of `st` without touching the live window or anything below it -/
def Preserves (st : Stack V) (d : List V) : Prop :=
  st.data.length ≤ d.length ∧ ∀ j, j < st.offs + st.size → d[j]? = st.data[j]?

theorem Preserves.refl (st : Stack V) : Preserves st st.data := ⟨Nat.le_refl _, fun _ _ => rfl⟩

theorem Preserves.trans {st : Stack V} {d d' : List V} (h1 : Preserves st d)
    (h2 : Preserves { st with data := d } d') : Preserves st d' :=
  ⟨Nat.le_trans h1.1 h2.1, fun j hj => (h2.2 j hj).trans (h1.2 j hj)⟩

theorem setAt_ok (d : List V) (n : Nat) (v : V) (h : n ≤ d.length) (hl : n ≤ stackLimit) :
    ∃ d', setAt d n v = .ok d' ∧ d.length ≤ d'.length ∧ n < d'.length ∧
      (∀ j, j < n → d'[j]? = d[j]?) ∧ d'[n]? = some v := by
  unfold setAt
  by_cases hn : n = d.length
  · have hgt : ¬ n > stackLimit := by omega
    simp only [hn, if_true]
    rw [if_neg (by omega)]
    refine ⟨_, rfl, by simp, by simp, ?_, by simp⟩
    intro j hj
    rw [List.getElem?_append_left (by omega)]
  · have hlt : n < d.length := by omega
    simp only [hn, if_false, hlt, if_true]
    refine ⟨_, rfl, by simp, by simpa using hlt, ?_, by simp [hlt]⟩
    intro j hj
    rw [List.getElem?_set_ne (by omega)]

theorem push_ok (st : Stack V) (v : V) (hb : st.offs + st.size ≤ st.data.length)
    (hl : st.offs + st.size ≤ stackLimit) :
    ∃ st', st.push v = .ok st' ∧ st'.offs = st.offs ∧ st'.size = st.size + 1 ∧
      st.data.length ≤ st'.data.length ∧ st.offs + st.size < st'.data.length ∧
      (∀ j, j < st.offs + st.size → st'.data[j]? = st.data[j]?) ∧
      st'.data[st.offs + st.size]? = some v := by
  obtain ⟨d', h1, h2, h3, h4, h5⟩ := setAt_ok st.data (st.offs + st.size) v hb hl
  exact ⟨{ st with data := d', size := st.size + 1 }, by simp [Stack.push, h1], rfl, rfl, h2, h3, h4, h5⟩

theorem idx_lt : ∀ {am : Names} {n : String} {i : Nat}, idx am n = some i → i < am.length
  | [], _, _, h => by simp [idx] at h
  | x :: xs, n, i, h => by
    simp only [idx] at h
    split at h
    · cases h; simp
    · cases hx : idx xs n with
      | none => simp [hx] at h
      | some j => simp [hx] at h; subst h; have := idx_lt hx; simp; omega

theorem idx_append : ∀ (am : Names) (x n : String),
    idx (am ++ [x]) n = match idx am n with
      | some i => some i
      | none => if x = n then some am.length else none
  | [], x, n => by simp [idx]
  | y :: ys, x, n => by
    simp only [List.cons_append, idx]
    split
    · rfl
    · rw [idx_append ys x n]
      cases idx ys n with
      | some i => simp
      | none =>
        by_cases hx : x = n
        · simp [hx]
        · simp [hx]

theorem EnvRel.withData {am : Names} {env : Env V} {st : Stack V} (h : EnvRel am env st) (d : List V)
    (hp : Preserves st d) : EnvRel am env { st with data := d } :=
  ⟨h.size, Nat.le_trans h.bound hp.1, fun i n hi => by
    rw [h.slots i n hi]; exact (hp.2 _ (by have := idx_lt hi; have := h.size; omega)).symm⟩

/-- pushing the value of a fresh name extends the relation -/
theorem EnvRel.push {am : Names} {env : Env V} {st st' : Stack V} (h : EnvRel am env st)
    (x : String) (v : V) (hfresh : idx am x = none)
    (ho : st'.offs = st.offs) (hs : st'.size = st.size + 1)
    (hlen : st.offs + st.size < st'.data.length)
    (hkeep : ∀ j, j < st.offs + st.size → st'.data[j]? = st.data[j]?)
    (hnew : st'.data[st.offs + st.size]? = some v) :
    EnvRel (am ++ [x]) (env.set x v) st' := by
  obtain ⟨hsz, hb, hsl⟩ := h
  refine ⟨by simp [hs, hsz], by omega, ?_⟩
  intro i n hi
  rw [idx_append] at hi
  cases hx : idx am n with
  | some j =>
    simp [hx] at hi; subst hi
    have hlt := idx_lt hx
    have hne : n ≠ x := by
      intro hxe; subst hxe; simp [hfresh] at hx
    simp only [Env.set, hne, if_false]
    rw [hsl j n hx, ho, hkeep _ (by omega)]
  | none =>
    simp [hx] at hi
    obtain ⟨hxe, hi⟩ := hi
    subst hi; subst hxe
    simp only [Env.set, if_true]
    rw [ho, ← hsz, hnew]

/-- C19 (compiler stage) / C01.1 on the closure-free fragment: when `GenerateFunc` succeeds and the
stack window holds the environment, running the generated code yields exactly the value of the
reference semantics — the same value or the same error, never a panic — and leaves the live part
of the shared storage untouched. -/
theorem gen_correct (t : Table V) : ∀ (a : E V) (am : Names) (env : Env V) (st : Stack V) (c : Code V),
    gen t a am = some c → EnvRel am env st → st.offs + st.size + depth a ≤ stackLimit + 1 →
    (∀ v, eval t a env = some v → ∃ d, exec t c st = .ok (v, d) ∧ Preserves st d) ∧
    (eval t a env = none → exec t c st = .err) := by
  intro a
  induction a with
  | const v =>
    intro am env st c hg hr _
    simp [gen] at hg; subst hg
    exact ⟨fun v' hv => ⟨st.data, by simp [eval] at hv; subst hv; simp [exec], Preserves.refl st⟩,
      fun h => by simp [eval] at h⟩
  | var x =>
    intro am env st c hg hr _
    simp [gen] at hg
    obtain ⟨i, hi, rfl⟩ := hg
    have hlt := idx_lt hi
    have hb := hr.bound; have hs := hr.size
    have hget : st.offs + i < st.data.length := by omega
    have hsl := hr.slots i x hi
    rw [List.getElem?_eq_getElem hget] at hsl
    refine ⟨fun v hv => ⟨st.data, ?_, Preserves.refl st⟩, fun h => ?_⟩
    · simp only [eval] at hv
      rw [hsl] at hv; cases hv
      simp [exec, Stack.get, List.getElem?_eq_getElem hget]
    · simp only [eval] at h; rw [hsl] at h; cases h
  | un o a ih =>
    intro am env st c hg hr hd
    simp only [gen] at hg
    cases hca : gen t a am with
    | none => simp [hca] at hg
    | some ca =>
      simp [hca] at hg; subst hg
      obtain ⟨ih1, ih2⟩ := ih am env st ca hca hr (by simp only [depth] at hd; omega)
      cases hev : eval t a env with
      | none =>
        refine ⟨fun v hv => by simp [eval, hev] at hv, fun _ => ?_⟩
        simp [exec, ih2 hev]
      | some x =>
        obtain ⟨d, hex, hp⟩ := ih1 x hev
        refine ⟨fun v hv => ⟨d, ?_, hp⟩, fun h => ?_⟩
        · simp only [eval, hev, Option.bind_some] at hv
          simp [exec, hex, hv]
        · simp only [eval, hev, Option.bind_some] at h
          simp [exec, hex, h]
  | op o a b iha ihb =>
    intro am env st c hg hr hd
    simp only [gen] at hg
    cases hca : gen t a am with
    | none => simp [hca] at hg
    | some ca =>
      cases hcb : gen t b am with
      | none => simp [hca, hcb] at hg
      | some cb =>
        simp [hca, hcb] at hg; subst hg
        simp only [depth] at hd
        obtain ⟨iha1, iha2⟩ := iha am env st ca hca hr (by omega)
        cases heva : eval t a env with
        | none =>
          refine ⟨fun v hv => by simp [eval, heva] at hv, fun _ => ?_⟩
          simp [exec, iha2 heva]
        | some x =>
          obtain ⟨d, hexa, hpa⟩ := iha1 x heva
          obtain ⟨ihb1, ihb2⟩ := ihb am env { st with data := d } cb hcb (hr.withData d hpa) (by simpa using by omega)
          cases hevb : eval t b env with
          | none =>
            refine ⟨fun v hv => by simp [eval, heva, hevb] at hv, fun _ => ?_⟩
            simp [exec, hexa, ihb2 hevb]
          | some y =>
            obtain ⟨d', hexb, hpb⟩ := ihb1 y hevb
            refine ⟨fun v hv => ⟨d', ?_, hpa.trans hpb⟩, fun h => ?_⟩
            · simp only [eval, heva, hevb, Option.bind_some] at hv
              simp [exec, hexa, hexb, hv]
            · simp only [eval, heva, hevb, Option.bind_some] at h
              simp [exec, hexa, hexb, h]
  | call f a ih =>
    intro am env st c hg hr hd
    simp only [gen] at hg
    cases hf : t.fn f with
    | none => simp [hf] at hg
    | some g =>
      cases hca : gen t a am with
      | none => simp [hf, hca] at hg
      | some ca =>
        simp [hf, hca] at hg; subst hg
        simp only [depth] at hd
        obtain ⟨ih1, ih2⟩ := ih am env st ca hca hr (by omega)
        cases hev : eval t a env with
        | none =>
          refine ⟨fun v hv => by simp [eval, hf, hev] at hv, fun _ => ?_⟩
          simp [exec, ih2 hev]
        | some x =>
          obtain ⟨d, hex, hp⟩ := ih1 x hev
          have hb := hr.bound
          obtain ⟨st', hpush, ho, hs, hlen, hlt, hkeep, hnew⟩ :=
            push_ok ({ st with data := d } : Stack V) x (by simpa using Nat.le_trans hb hp.1) (by simpa using by omega)
          simp only at ho hs hlen hlt hkeep hnew
          have hframe : ({ data := st'.data, offs := st'.offs + (st'.size - 1), size := 1 } : Stack V).get 0 = .ok x := by
            simp only [Stack.get, ho, hs, Nat.add_sub_cancel, Nat.add_zero, hnew]
          have hpres : Preserves st st'.data :=
            ⟨Nat.le_trans hp.1 hlen, fun j hj => (hkeep j hj).trans (hp.2 j hj)⟩
          refine ⟨fun v hv => ⟨st'.data, ?_, hpres⟩, fun h => ?_⟩
          · simp only [eval, hf, hev, Option.bind_some] at hv
            simp [exec, hex, hpush, hframe, hf, hv]
          · simp only [eval, hf, hev, Option.bind_some] at h
            simp [exec, hex, hpush, hframe, hf, h]
  | letE x v b ihv ihb =>
    intro am env st c hg hr hd
    simp only [gen] at hg
    cases hcv : gen t v am with
    | none => simp [hcv] at hg
    | some cv =>
      simp only [hcv, Option.bind_some] at hg
      split at hg
      · cases hg
      · rename_i hfresh
        cases hcb : gen t b (am ++ [x]) with
        | none => simp [hcb] at hg
        | some cb =>
          simp [hcb] at hg; subst hg
          simp only [depth] at hd
          have hfr : idx am x = none := by
            cases hi : idx am x with
            | none => rfl
            | some j => simp [hi] at hfresh
          obtain ⟨ih1, ih2⟩ := ihv am env st cv hcv hr (by omega)
          cases hev : eval t v env with
          | none =>
            refine ⟨fun w hw => by simp [eval, hev] at hw, fun _ => ?_⟩
            simp [exec, ih2 hev]
          | some xv =>
            obtain ⟨d, hex, hp⟩ := ih1 xv hev
            have hb := hr.bound
            obtain ⟨st', hpush, ho, hs, hlen, hlt, hkeep, hnew⟩ :=
              push_ok ({ st with data := d } : Stack V) xv (by simpa using Nat.le_trans hb hp.1) (by simpa using by omega)
            simp only at ho hs hlen hlt hkeep hnew
            have hr' : EnvRel (am ++ [x]) (env.set x xv) st' :=
              (hr.withData d hp).push x xv hfr ho hs hlt hkeep hnew
            obtain ⟨ihb1, ihb2⟩ := ihb (am ++ [x]) (env.set x xv) st' cb hcb hr' (by rw [ho, hs]; omega)
            have hpres : Preserves st st'.data :=
              ⟨Nat.le_trans hp.1 hlen, fun j hj => (hkeep j hj).trans (hp.2 j hj)⟩
            refine ⟨fun w hw => ?_, fun h => ?_⟩
            · simp only [eval, hev, Option.bind_some] at hw
              obtain ⟨d', hexb, hpb⟩ := ihb1 w hw
              refine ⟨d', by simp [exec, hex, hpush, hexb], ?_⟩
              refine ⟨Nat.le_trans hpres.1 hpb.1, fun j hj => ?_⟩
              rw [hpb.2 j (by rw [ho, hs]; omega)]
              exact hpres.2 j hj
            · simp only [eval, hev, Option.bind_some] at h
              simp [exec, hex, hpush, ihb2 h]
  | ite c th el ihc iht ihe =>
    intro am env st code hg hr hd
    simp only [gen] at hg
    cases htb : t.toBool with
    | none => simp [htb] at hg
    | some tb =>
      cases hcc : gen t c am with
      | none => simp [htb, hcc] at hg
      | some cc =>
        cases hct : gen t th am with
        | none => simp [htb, hcc, hct] at hg
        | some ct =>
          cases hce : gen t el am with
          | none => simp [htb, hcc, hct, hce] at hg
          | some ce =>
            simp [htb, hcc, hct, hce] at hg; subst hg
            simp only [depth] at hd
            obtain ⟨ihc1, ihc2⟩ := ihc am env st cc hcc hr (by omega)
            cases hev : eval t c env with
            | none =>
              refine ⟨fun v hv => by simp [eval, htb, hev] at hv, fun _ => ?_⟩
              simp [exec, ihc2 hev]
            | some cv =>
              obtain ⟨d, hex, hp⟩ := ihc1 cv hev
              have hrd := hr.withData d hp
              cases hb : tb cv with
              | none =>
                refine ⟨fun v hv => by simp [eval, htb, hev, hb] at hv, fun _ => ?_⟩
                simp [exec, hex, htb, hb]
              | some bv =>
                cases bv with
                | true =>
                  obtain ⟨i1, i2⟩ := iht am env { st with data := d } ct hct hrd (by simpa using by omega)
                  refine ⟨fun v hv => ?_, fun h => ?_⟩
                  · simp only [eval, htb, hev, hb, Option.bind_some] at hv
                    obtain ⟨d', hex', hp'⟩ := i1 v hv
                    exact ⟨d', by simp [exec, hex, htb, hb, hex'], hp.trans hp'⟩
                  · simp only [eval, htb, hev, hb, Option.bind_some] at h
                    simp [exec, hex, htb, hb, i2 h]
                | false =>
                  obtain ⟨i1, i2⟩ := ihe am env { st with data := d } ce hce hrd (by simpa using by omega)
                  refine ⟨fun v hv => ?_, fun h => ?_⟩
                  · simp only [eval, htb, hev, hb, Option.bind_some] at hv
                    obtain ⟨d', hex', hp'⟩ := i1 v hv
                    exact ⟨d', by simp [exec, hex, htb, hb, hex'], hp.trans hp'⟩
                  · simp only [eval, htb, hev, hb, Option.bind_some] at h
                    simp [exec, hex, htb, hb, i2 h]

end P2.Generic
