/-!
# Memo cells — the state a lazily materialised list keeps between evaluations

`value/list.go`: a `*List` holds a producer and, once `Eval` ran through, the items (`itemsPresent`). A list that
is reachable from a constant of a generated function (or that the host keeps) is SHARED by all evaluations of
that function (C10) and by concurrent ones (C11): it is the one piece of mutable state an evaluation leaves
behind. This module models exactly that cell:

* a producer is deterministic; what the consumer's context contributes is the number of free value-stack slots
  (`free`): the closures of `iir`, `number`, `combine`, … run on the CONSUMER's stack (`StackProv`), so item `i`
  needs `need i` free slots, and the run ends with a stack overflow if there are fewer; an item may also be an
  error item of the list itself (`bad`);
* `force` is `List.Eval` (behind `size`, index access, `reverse`, `ToSlice`, `=`, …): under the mutex, if the items
  are not present, run the producer into a LOCAL slice; only a complete run stores it (`items`, `itemsPresent`,
  and the producer becomes a slice iterable); an aborted run leaves the cell untouched;
* `iter k` is what a consumer does that does not materialise (`first`, `top`, a stage downstream, `sprintf`): take
  the producer under the mutex (`iterable`) and pull at most `k` items; a slice iterable needs no stack and has
  no error item.

`Pinned` below is the cell as a seeded change had it (`Eval` appends straight into `l.items`).
-/
namespace P2.Memo

/-- why a run ended before the demand was met -/
inductive Fault
  | overflow   -- the value stack of the consumer was exhausted while an item was produced
  | item       -- the list has an error item at this position
  deriving DecidableEq, Repr, Inhabited

/-- one item of a producer: its value, the free slots the consumer must have while it is produced, and whether it
is an error item -/
structure Item where
  val  : Nat
  need : Nat
  bad  : Bool
  deriving DecidableEq, Repr, Inhabited

/-- what a run delivers: the values yielded and how it ended -/
abbrev Res := List Nat × Option Fault

/-- run a producer with `free` slots for a demand of at most `k` items -/
def run (free : Nat) : Nat → List Item → Res
  | 0, _ => ([], none)
  | _ + 1, [] => ([], none)
  | k + 1, it :: rest =>
    if free < it.need then ([], some .overflow)
    else if it.bad then ([], some .item)
    else ((it.val :: (run free k rest).1), (run free k rest).2)

/-- the values of a producer -/
def vals (src : List Item) : List Nat := src.map (·.val)

/-- no error item -/
def clean (src : List Item) : Bool := src.all (fun it => !it.bad)

/-- the free slots that are enough for every item -/
def maxNeed (src : List Item) : Nat := src.foldr (fun it m => max it.need m) 0

/-- the shared cell: the producer the list was created with, and `items` once `itemsPresent` -/
structure Cell where
  src   : List Item
  cache : Option (List Nat)
  deriving DecidableEq, Repr

def fresh (src : List Item) : Cell := ⟨src, none⟩

/-- what an evaluation does to a shared list -/
inductive Op
  | force (free : Nat)        -- `List.Eval` and everything built on it; the result is all items
  | iter  (free k : Nat)      -- iterate at most `k` items without materialising
  deriving DecidableEq, Repr

/-- the same operation in a context with `f` free slots -/
def Op.withFree : Op → Nat → Op
  | .force _, f => .force f
  | .iter _ k, f => .iter f k

def Op.free : Op → Nat
  | .force f => f
  | .iter f _ => f

/-- one operation on the cell: the cell afterwards and what the evaluation sees -/
def Cell.step (c : Cell) : Op → Cell × Res
  | .force free =>
    match c.cache with
    | some xs => (c, (xs, none))
    | none =>
      match run free c.src.length c.src with
      | (xs, none) => ({ c with cache := some xs }, (xs, none))
      | (_, some f) => (c, ([], some f))        -- the local slice is dropped with the error
  | .iter free k =>
    match c.cache with
    | some xs => (c, (xs.take k, none))          -- slice iterable
    | none => (c, run free k c.src)

/-- a history of operations: the cell afterwards -/
def Cell.after (c : Cell) : List Op → Cell
  | [] => c
  | o :: os => ((c.step o).1).after os

/-- the outcomes of a history -/
def Cell.outcomes (c : Cell) : List Op → List Res
  | [] => []
  | o :: os => (c.step o).2 :: ((c.step o).1).outcomes os

/-- what the evaluation sees on a cell nobody has touched -/
def isolated (src : List Item) (o : Op) : Res := ((fresh src).step o).2

/-! ## `iterable` is a snapshot: the two-step reading of `iter` used for concurrent evaluations (C11)

`iterable` takes `l.producer` under the mutex and releases it; the iteration happens outside, while other
goroutines may materialise the list. The snapshot is either the original producer or the slice iterable. -/

inductive Snapshot
  | producer (src : List Item)
  | slice (xs : List Nat)
  deriving DecidableEq, Repr

def Cell.snapshot (c : Cell) : Snapshot :=
  match c.cache with
  | some xs => .slice xs
  | none => .producer c.src

def Snapshot.pull (free k : Nat) : Snapshot → Res
  | .producer src => run free k src
  | .slice xs => (xs.take k, none)

/-! ## The cell of a seeded change: `Eval` appends straight into `l.items` -/

structure Pinned where
  src     : List Item
  items   : List Nat
  present : Bool
  deriving DecidableEq, Repr

def Pinned.force (c : Pinned) (free : Nat) : Pinned × Res :=
  if c.present then (c, (c.items, none))
  else
    match run free c.src.length c.src with
    | (xs, none) => ({ c with items := c.items ++ xs, present := true }, (c.items ++ xs, none))
    | (xs, some f) => ({ c with items := c.items ++ xs }, ([], some f))

end P2.Memo
