/-! Prototype: the collector of iterator.initParallel / MapParallel (nextOut + buffer map). -/
namespace P2.Reorder

structure C (α : Type) where
  nextOut : Nat
  buffer : List (Nat × α)      -- the Go map[int]container, as an association list
  out : List α                 -- values handed to yield, in order

def lookup {α} (b : List (Nat × α)) (n : Nat) : Option α := (b.find? (·.1 == n)).map (·.2)
def erase {α} (b : List (Nat × α)) (n : Nat) : List (Nat × α) := b.filter (·.1 != n)

/-- drain the buffer while the next index is present (the inner `for` loop); fuel = buffer size -/
def flush {α} : Nat → C α → C α
  | 0, c => c
  | f+1, c => match lookup c.buffer c.nextOut with
    | some v => flush f { nextOut := c.nextOut + 1, buffer := erase c.buffer c.nextOut, out := c.out ++ [v] }
    | none => c

def arrive {α} (c : C α) (r : Nat × α) : C α :=
  if r.1 = c.nextOut then
    let c' := { c with nextOut := c.nextOut + 1, out := c.out ++ [r.2] }
    flush c'.buffer.length c'
  else { c with buffer := r :: c.buffer }

def collect {α} (start : Nat) (arrivals : List (Nat × α)) : List α :=
  (arrivals.foldl arrive { nextOut := start, buffer := [], out := [] }).out

-- every arrival order of 5 results gives the sequential order (a test; the theorem is ∀ n, ∀ permutation)
def perms {α} : List α → List (List α)
  | [] => [[]]
  | x :: xs => (perms xs).flatMap fun p => (List.range (p.length+1)).map fun i => p.take i ++ [x] ++ p.drop i
end P2.Reorder
