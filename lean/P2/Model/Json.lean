import P2.Model.Basic
/-! Model of `value/export/json.go` + the traversal of `value/export/export.go` (C17).
The per-character escape table is *generated* from the real exporter on every run
(`P2/Generated/JsonEsc.lean`); the model is parametric in it. -/
namespace P2.Json

/-- escape table: exceptions only; a character without entry is written verbatim
(that is how `tie extract` compresses the exhaustive per-code-point dump). -/
abbrev EscTable := List (Char × List Char)

def lookup (T : EscTable) (c : Char) : Option (List Char) :=
  match T with
  | [] => none
  | (k, v) :: rest => if k = c then some v else lookup rest c

def escOf (T : EscTable) (c : Char) : List Char :=
  match lookup T c with
  | some o => o
  | none => [c]

/-- `jsonExporter.String` -/
def encodeString (e : Char → List Char) (s : List Char) : List Char := '"' :: (s.flatMap e ++ ['"'])

/-- the value tree the exporter sees: scalars already in their string form (`ToString`, an oracle of
the harness), lists in order, maps as key/value entries -/
inductive JTree where
  | str (s : List Char)
  | arr (l : List JTree)
  | obj (kvs : List (List Char × JTree))
  deriving Repr, Inhabited

/-- Go's `sort.Strings` on valid UTF-8 = lexicographic order on code points -/
def strLe : List Char → List Char → Bool
  | [], _ => true
  | _ :: _, [] => false
  | a :: as, b :: bs => if a.toNat < b.toNat then true else if b.toNat < a.toNat then false else strLe as bs

def insertKV (kv : List Char × JTree) : List (List Char × JTree) → List (List Char × JTree)
  | [] => [kv]
  | x :: xs => if strLe kv.1 x.1 then kv :: x :: xs else x :: insertKV kv xs

def sortKVs : List (List Char × JTree) → List (List Char × JTree)
  | [] => []
  | x :: xs => insertKV x (sortKVs xs)

mutual
/-- `Export` with the JSON exporter: lists `[a,b]`, maps `{"k":v,...}` with keys sorted, no blanks. -/
def render (e : Char → List Char) : JTree → List Char
  | .str s => encodeString e s
  | .arr l => '[' :: (renderList e l ++ [']'])
  | .obj kvs => '{' :: (renderKVs e kvs ++ ['}'])
def renderList (e : Char → List Char) : List JTree → List Char
  | [] => []
  | [t] => render e t
  | t :: t2 :: ts => render e t ++ (',' :: renderList e (t2 :: ts))
def renderKVs (e : Char → List Char) : List (List Char × JTree) → List Char
  | [] => []
  | [(k, t)] => encodeString e k ++ (':' :: render e t)
  | (k, t) :: kv2 :: kvs => encodeString e k ++ (':' :: render e t) ++ (',' :: renderKVs e (kv2 :: kvs))
end

mutual
/-- keys sorted at every level, as `Export` does before calling the map exporter -/
def sortTree : JTree → JTree
  | .str s => .str s
  | .arr l => .arr (sortTrees l)
  | .obj kvs => .obj (sortKVs (sortTreeKVs kvs))
def sortTrees : List JTree → List JTree
  | [] => []
  | t :: ts => sortTree t :: sortTrees ts
def sortTreeKVs : List (List Char × JTree) → List (List Char × JTree)
  | [] => []
  | (k, t) :: kvs => (k, sortTree t) :: sortTreeKVs kvs
end

def exportDoc (e : Char → List Char) (t : JTree) : List Char := render e (sortTree t)

end P2.Json
