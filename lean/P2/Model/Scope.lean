import P2.Model.Lang.Syntax
/-! # Identifier resolution of the parser (C16, C01.2)

`/repo/parser2.go` resolves identifiers WHILE parsing: every parse function receives an
`Identifiers` value (a chain of Go closures built by `AddConst`, `AddFunc`, `Add`, `AddArgs`,
`AddThis`, `AddMap`); the identifier branch of `parseLiteral` looks the name up and emits a constant,
a (function) identifier, a plain identifier or — below an `AddMap` layer — a member access on the
implicit map. `AddArgs(names, &outersUsed)` and `AddThis(name, &recursive)` write into variables of
the enclosing parse function (Go pointers); `ClosureLiteral.OuterIdents` / `.Recursive` are read from
them when the closure body has been parsed.

Model: the grammar (tokens → tree shape) is not part of this slice (C03/C04). `Raw` is the tree shape
without annotations, `Scope` is the `Identifiers` chain as a list of layers (innermost first) which
carry the current contents of the Go variables they point to, and `resolve` is the parser's walk in
source order, state-passing: it returns the annotated `P2.Lang.AST` together with the chain with the
updated accumulators. `fixed = false` selects the behaviour of the pinned commit (B16: `AddArgs`
recorded the attribute's name instead of the map's name). -/
namespace P2.Scope
open P2.Lang

/-- tree shapes of the language, no annotations. `func name(params) body; rest`,
`params -> body`. `index idx lst` keeps the argument order of `AST.index` (source order is `lst[idx]`). -/
inductive Raw where
  | const (c : Scalar)
  | ident (name : String)
  | letE (name : String) (val inner : Raw)
  | func (name : String) (params : List String) (body rest : Raw)
  | clos (params : List String) (body : Raw)
  | ifE (c t e : Raw)
  | switchE (v : Raw) (cases : List (Raw × Raw)) (dflt : Raw)
  | tryE (t c : Raw)
  | unary (op : String) (a : Raw)
  | binop (op : String) (a b : Raw)
  | listLit (items : List Raw)
  | index (idx lst : Raw)
  | mapLit (kvs : List (String × Raw))
  | member (m : Raw) (key : String)
  | call (f : Raw) (args : List Raw)
  | method (recv : Raw) (name : String) (args : List Raw)
  deriving Inhabited

/-- one link of the `Identifiers` chain -/
inductive Layer where
  /-- `AddConst(name, v)` (registered constant, or a `let` whose value is a constant) -/
  | const (name : String) (v : Scalar)
  /-- `AddFunc(name)` (static function) -/
  | func (name : String)
  /-- `Add(name)` (non-constant `let`, the name of a `func` in the rest of the block) -/
  | plain (name : String)
  /-- `AddArgs(names, outersUsed)`; `acc = none` is the nil pointer of `generateIntern`,
  `some l` the current contents of the closure's `outersUsed` slice -/
  | args (names : List String) (acc : Option (List String))
  /-- `AddThis(name, &recursive)` with the current value of `recursive` -/
  | this (name : String) (used : Bool)
  /-- `AddMap(thisName)` -/
  | map (thisName : String)
  deriving Inhabited

abbrev Scope := List Layer

inductive Kind where
  | const (v : Scalar)   -- IsConst ∧ ¬IsFunc, with `Const`
  | func                 -- IsConst ∧ IsFunc
  | plain                -- ¬IsConst
  deriving Inhabited

/-- `parser2.Identifier` (its `Name` always equals the name that was looked up) -/
structure Ident where
  kind : Kind
  this : String
  deriving Inhabited

def Ident.isConst (i : Ident) : Bool :=
  match i.kind with
  | .plain => false
  | _ => true

/-- the result of calling the chain on a name (`none`: second result `false`). Through a map layer
constants and functions of the outer chain stay visible, everything else becomes an attribute. -/
def find : Scope → String → Option Ident
  | [], _ => none
  | .const n v :: c, x => if x = n then some ⟨.const v, ""⟩ else find c x
  | .func n :: c, x => if x = n then some ⟨.func, ""⟩ else find c x
  | .plain n :: c, x => if x = n then some ⟨.plain, ""⟩ else find c x
  | .args ns _ :: c, x => if x ∈ ns then some ⟨.plain, ""⟩ else find c x
  | .this n _ :: c, x => if x = n then some ⟨.plain, ""⟩ else find c x
  | .map t :: c, x =>
    match find c x with
    | some i => if i.isConst then some i else some ⟨.plain, t⟩
    | none => some ⟨.plain, t⟩

/-- the body of `AddArgs` after the inner chain answered `r` for `x`: a non-constant hit is appended
to `outersUsed` unless present; for an attribute the repaired code records the map's name -/
def record (fixed : Bool) (acc : Option (List String)) (r : Option Ident) (x : String) : Option (List String) :=
  match acc, r with
  | some a, some i =>
    if i.isConst then some a else
      let outer := if fixed ∧ i.this ≠ "" then i.this else x
      if outer ∈ a then some a else some (a ++ [outer])
  | a, _ => a

/-- the side effects of the same call on the variables the chain points to -/
def mark (fixed : Bool) : Scope → String → Scope
  | [], _ => []
  | .const n v :: c, x => .const n v :: (if x = n then c else mark fixed c x)
  | .func n :: c, x => .func n :: (if x = n then c else mark fixed c x)
  | .plain n :: c, x => .plain n :: (if x = n then c else mark fixed c x)
  | .args ns acc :: c, x =>
    if x ∈ ns then .args ns acc :: c else .args ns (record fixed acc (find c x) x) :: mark fixed c x
  | .this n u :: c, x => if x = n then .this n true :: c else .this n u :: mark fixed c x
  | .map t :: c, x => .map t :: mark fixed c x

/-- the identifier branch of `parseLiteral` -/
def identAST (x : String) (i : Ident) : AST :=
  match i.kind with
  | .const v => .const v
  | .func => .ident x
  | .plain => if i.this = "" then .ident x else .member (.ident i.this) x

def distinct : List String → Bool
  | [] => true
  | x :: xs => !xs.contains x && distinct xs

/-- `parseIdentList` accepts one or more pairwise different names -/
def paramsOK (ps : List String) : Bool := !ps.isEmpty && distinct ps

def astConst? : AST → Option Scalar
  | .const c => some c
  | _ => none

/-- `outersUsed` of the innermost `AddArgs` layer when the body is done -/
def topAcc : Scope → List String
  | .args _ (some a) :: _ => a
  | _ => []

/-- `recursive` of the innermost `AddThis` layer when the body is done -/
def topUsed : Scope → Bool
  | .this _ u :: _ => u
  | _ => false

mutual
/-- `parseLet`/`parseExpression`/… on an already shaped tree, in source order -/
def resolve (fixed : Bool) : Scope → Raw → Option (AST × Scope)
  | s, .const c => some (.const c, s)
  | s, .ident x =>
    match find s x with
    | some i => some (identAST x i, mark fixed s x)
    | none => none                       -- "identifier not found"
  | s, .letE x v i => do
    let (v', s1) ← resolve fixed s v
    match astConst? v' with
    | some c =>                            -- `idents.AddConst(name, c.Value)`, no Let node
      let (i', s2) ← resolve fixed (.const x c :: s1) i
      pure (i', s2.tail)
    | none =>
      let (i', s2) ← resolve fixed (.plain x :: s1) i
      pure (.letE x v' i', s2.tail)
  | s, .func name ps body rest =>
    if !paramsOK ps then none else do
    -- `idents.AddArgs(names, &outersUsed).AddThis(name, &recursive)`
    let (b, s1) ← resolve fixed (.this name false :: .args ps (some []) :: s) body
    let clo := AST.clos ps b (topAcc s1.tail) (topUsed s1) name
    let (i', s2) ← resolve fixed (.plain name :: s1.tail.tail) rest
    pure (.letE name clo i', s2.tail)
  | s, .clos ps body =>
    if !paramsOK ps then none else do
    let (b, s1) ← resolve fixed (.args ps (some []) :: s) body
    pure (.clos ps b (topAcc s1) false "", s1.tail)
  | s, .ifE c t e => do
    let (c', s1) ← resolve fixed s c
    let (t', s2) ← resolve fixed s1 t
    let (e', s3) ← resolve fixed s2 e
    pure (.ifE c' t' e', s3)
  | s, .switchE v cases dflt => do
    let (v', s1) ← resolve fixed s v
    let (cs', s2) ← resolveCases fixed s1 cases
    let (d', s3) ← resolve fixed s2 dflt
    pure (.switchE v' cs' d', s3)
  | s, .tryE t c => do
    let (t', s1) ← resolve fixed s t
    let (c', s2) ← resolve fixed s1 c
    pure (.tryE t' c', s2)
  | s, .unary op a => do
    let (a', s1) ← resolve fixed s a
    pure (.unary op a', s1)
  | s, .binop op a b => do
    let (a', s1) ← resolve fixed s a
    let (b', s2) ← resolve fixed s1 b
    pure (.binop op a' b', s2)
  | s, .listLit items => do
    let (xs, s1) ← resolveList fixed s items
    pure (.listLit xs, s1)
  | s, .index idx lst => do              -- `lst[idx]`: the list is parsed first
    let (l', s1) ← resolve fixed s lst
    let (i', s2) ← resolve fixed s1 idx
    pure (.index i' l', s2)
  | s, .mapLit kvs => do
    let (kvs', s1) ← resolveKVs fixed s kvs
    pure (.mapLit kvs', s1)
  | s, .member m key => do
    let (m', s1) ← resolve fixed s m
    pure (.member m' key, s1)
  | s, .call f args => do
    let (f', s1) ← resolve fixed s f
    let (as', s2) ← resolveList fixed s1 args
    pure (.call f' as', s2)
  | s, .method recv name args => do
    let (r', s1) ← resolve fixed s recv
    let (as', s2) ← resolveList fixed s1 args
    pure (.method r' name as', s2)
def resolveList (fixed : Bool) : Scope → List Raw → Option (List AST × Scope)
  | s, [] => some ([], s)
  | s, a :: as => do
    let (a', s1) ← resolve fixed s a
    let (as', s2) ← resolveList fixed s1 as
    pure (a' :: as', s2)
def resolveKVs (fixed : Bool) : Scope → List (String × Raw) → Option (List (String × AST) × Scope)
  | s, [] => some ([], s)
  | s, (k, a) :: as => do
    let (a', s1) ← resolve fixed s a
    let (as', s2) ← resolveKVs fixed s1 as
    pure ((k, a') :: as', s2)
def resolveCases (fixed : Bool) : Scope → List (Raw × Raw) → Option (List (AST × AST) × Scope)
  | s, [] => some ([], s)
  | s, (c, r) :: rest => do
    let (c', s1) ← resolve fixed s c
    let (r', s2) ← resolve fixed s1 r
    let (rest', s3) ← resolveCases fixed s2 rest
    pure ((c', r') :: rest', s3)
end

/-! ## the two entry points of `funcGen` -/

/-- `Identifiers.AddMap` -/
def Scope.addMap (s : Scope) (m : String) : Scope := .map m :: s

/-- `Identifiers.AddArgs`: no layer at all for an empty name list -/
def Scope.addArgs (s : Scope) (names : List String) (acc : Option (List String)) : Scope :=
  if names.isEmpty then s else .args names acc :: s

/-- `CreateAst` (optimizer off): the tree the generator receives -/
def parse (fixed : Bool) (s : Scope) (t : Raw) : Option AST := (resolve fixed s t).map (·.1)

/-- the chain `GenerateWithMap(exp, m)` parses with: `g.identifier.AddMap(m).AddArgs([m], nil)` -/
def mapScope (base : Scope) (m : String) : Scope := (base.addMap m).addArgs [m] none

/-- the chain `Generate(exp, m)` parses with: `g.identifier.AddArgs([m], nil)` -/
def explicitScope (base : Scope) (m : String) : Scope := base.addArgs [m] none

/-! ## explicit member access: the rewriting `exp ↦ exp'` of the property

`expand m e t` walks `t` with the chain `e` of the explicit spelling (only the binders of `e` matter)
and writes `m.x` for every identifier occurrence `x` that `e` does not bind at that position. A `let`
whose (rewritten) value is a constant literal or names a constant binds a constant.

`expand` works on trees: an attribute in call position, `f(a)`, becomes `call (member m f) [a]`, which
is the tree of the text `(m.f)(a)`. The text `m.f(a)` is a METHOD call on `m` — another tree, which
behaves the same when the attribute holds a closure but calls the map method `f` otherwise (the
harness checks that spelling separately).

Trees outside the image of the grammar (a `let` as the value of a `let`, as an operand, …) are
resolved compositionally; duplicate keys of a map literal (a syntax error) are not rejected here. -/

/-- does the tree denote a constant in chain `e` (= does the parser return a `*Const` for it)? -/
def constVal : Scope → Raw → Option Scalar
  | _, .const c => some c
  | e, .ident y =>
    match find e y with
    | some ⟨.const c, _⟩ => some c
    | _ => none
  | e, .letE x v i =>
    match constVal e v with
    | some c => constVal (.const x c :: e) i
    | none => none
  | _, _ => none

mutual
def expand (m : String) : Scope → Raw → Raw
  | _, .const c => .const c
  | e, .ident x => if (find e x).isSome then .ident x else .member (.ident m) x
  | e, .letE x v i =>
    match constVal e (expand m e v) with
    | some c => .letE x (expand m e v) (expand m (.const x c :: e) i)
    | none => .letE x (expand m e v) (expand m (.plain x :: e) i)
  | e, .func name ps body rest =>
    .func name ps (expand m (.this name false :: .args ps (some []) :: e) body) (expand m (.plain name :: e) rest)
  | e, .clos ps body => .clos ps (expand m (.args ps (some []) :: e) body)
  | e, .ifE c t f => .ifE (expand m e c) (expand m e t) (expand m e f)
  | e, .switchE v cases dflt => .switchE (expand m e v) (expandCases m e cases) (expand m e dflt)
  | e, .tryE t c => .tryE (expand m e t) (expand m e c)
  | e, .unary op a => .unary op (expand m e a)
  | e, .binop op a b => .binop op (expand m e a) (expand m e b)
  | e, .listLit items => .listLit (expandList m e items)
  | e, .index idx lst => .index (expand m e idx) (expand m e lst)
  | e, .mapLit kvs => .mapLit (expandKVs m e kvs)
  | e, .member r key => .member (expand m e r) key
  | e, .call f args => .call (expand m e f) (expandList m e args)
  | e, .method recv name args => .method (expand m e recv) name (expandList m e args)
def expandList (m : String) : Scope → List Raw → List Raw
  | _, [] => []
  | e, a :: as => expand m e a :: expandList m e as
def expandKVs (m : String) : Scope → List (String × Raw) → List (String × Raw)
  | _, [] => []
  | e, (k, a) :: as => (k, expand m e a) :: expandKVs m e as
def expandCases (m : String) : Scope → List (Raw × Raw) → List (Raw × Raw)
  | _, [] => []
  | e, (c, r) :: rest => (expand m e c, expand m e r) :: expandCases m e rest
end

/-- `exp'` for a program handed to `GenerateWithMap(exp, m)` of a generator with chain `base` -/
def expandTop (m : String) (base : Scope) (t : Raw) : Raw := expand m (explicitScope base m) t

mutual
/-- all names bound inside the tree (let, func name, parameters) -/
def binders : Raw → List String
  | .const _ => []
  | .ident _ => []
  | .letE x v i => x :: (binders v ++ binders i)
  | .func name ps body rest => name :: (ps ++ (binders body ++ binders rest))
  | .clos ps body => ps ++ binders body
  | .ifE c t e => binders c ++ (binders t ++ binders e)
  | .switchE v cases dflt => binders v ++ (bindersCases cases ++ binders dflt)
  | .tryE t c => binders t ++ binders c
  | .unary _ a => binders a
  | .binop _ a b => binders a ++ binders b
  | .listLit items => bindersList items
  | .index idx lst => binders idx ++ binders lst
  | .mapLit kvs => bindersKVs kvs
  | .member r _ => binders r
  | .call f args => binders f ++ bindersList args
  | .method recv _ args => binders recv ++ bindersList args
def bindersList : List Raw → List String
  | [] => []
  | a :: as => binders a ++ bindersList as
def bindersKVs : List (String × Raw) → List String
  | [] => []
  | (_, a) :: as => binders a ++ bindersKVs as
def bindersCases : List (Raw × Raw) → List String
  | [] => []
  | (c, r) :: rest => binders c ++ (binders r ++ bindersCases rest)
end

end P2.Scope
