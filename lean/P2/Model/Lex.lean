import P2.Model.Basic
/-! Scanner model (C04 / C12 / C15): rune-level, state-faithful transliteration of `token.go`
(`Tokenizer.run`, `parseOperator`, `peek`, `consume`, `unread`, `next`, `read`, `readSkip`, `readStr`)
and of `simpleNumber` / `simpleIdentifier` from `parser2.go`.

* The input is the rune sequence Go's UTF-8 decoder yields (`utf8.DecodeRuneInString`: one U+FFFD of
  width 1 per invalid byte); every rune has width 1 in the model.
* Slice expressions `t.str[k:]` are the explicit panic sites (`slice`), all `for {}` loops run on fuel
  (`Res.fuel` when exhausted) — `P2.Lex.tokenize_refines` shows that neither outcome is reachable.
* `unicode.IsLetter` / `unicode.IsNumber` are an oracle (`Cfg.isLetter`, `Cfg.isNumber`).
* The `switch` tables of `run`, `peek`, `readStr` and the exclusion strings of the two matchers are
  parameters (`Tables`), regenerated from the source on every run (`P2.Generated.LexTables`).
* The operator detector (`NewOperatorDetector`, a trie of closures) is modelled extensionally as a prefix
  walk over the operator list.
* `Cfg.pinned = true` selects the behaviour of the pinned commit 889ee09 (before the `fix:` of `peek`):
  one comment per `peek`, `unread` only sets `isLast`, aliases are replaced in every mode, numbers and
  identifiers are read with comment skipping. Used only for the witnesses in `P2.Props.C15`. -/
namespace P2.Lex

/-- `TokenType`, in the order of the Go `iota` -/
inductive Kind where
  | ident | keyword | open_ | close | openBracket | closeBracket | openCurly | closeCurly
  | dot | comma | colon | semicolon | number | string | operate | eof | invalid
  deriving Repr, DecidableEq, Inhabited

def Kind.toNat : Kind → Nat
  | .ident => 0 | .keyword => 1 | .open_ => 2 | .close => 3 | .openBracket => 4 | .closeBracket => 5
  | .openCurly => 6 | .closeCurly => 7 | .dot => 8 | .comma => 9 | .colon => 10 | .semicolon => 11
  | .number => 12 | .string => 13 | .operate => 14 | .eof => 15 | .invalid => 16

structure Token where
  kind : Kind
  image : List Char
  line : Nat
  deriving Repr, DecidableEq

/-- the regenerated tables of the scanner -/
structure Tables where
  /-- `run`: cases that only send tokens (and set `thisTokenType` in comfort mode):
      rune ↦ (tokens sent, `thisTokenType` in comfort mode or `invalid`) -/
  emit : List (Char × List (Kind × List Char) × Kind)
  /-- `peek`: the typographic aliases -/
  aliases : List (Char × Char)
  /-- `readStr`: escape letter ↦ character written -/
  escapes : List (Char × Char)
  /-- `readStr`: runes that end the literal with the invalid token `EOL` -/
  strEnd : List Char
  /-- `simpleNumber` / `simpleIdentifier`: the runes excluded from the continuation although `IsNumber` -/
  numExcl : List Char
  identExcl : List Char
  deriving Repr

structure Cfg where
  tables : Tables
  /-- the detector set: binary operators ++ ["=", "->"] ++ unary operators -/
  ops : List (List Char)
  textOps : List (List Char × List Char)
  keywords : List (List Char)
  comments : Bool
  comfort : Bool
  isLetter : Char → Bool
  isNumber : Char → Bool
  pinned : Bool := false

def EOF : Char := Char.ofNat 0
def runeError : Char := Char.ofNat 0xFFFD

/-- `scanMode` of the repaired code; at the pinned commit `betweenTokens` is `skipComment = true`
    and the other two are `skipComment = false` -/
inductive Mode where
  | verbatim | inToken | betweenTokens
  deriving Repr, DecidableEq

structure S where
  str : List Char
  isLast : Bool
  last : Char
  lastStr : List Char
  line : Nat
  deriving Repr, DecidableEq

/-- `utf8.DecodeRuneInString` on the rune-level model: (rune, width) -/
def decode : List Char → Char × Nat
  | [] => (runeError, 0)
  | c :: _ => (c, 1)

/-- the slice expression `s[k:]` -/
def slice (s : List Char) (k : Nat) : Res (List Char) :=
  if k ≤ s.length then .ok (s.drop k) else .panic

def alias (tb : Tables) (c : Char) : Char :=
  match tb.aliases.lookup c with
  | some a => a
  | none => c

/-- the `//` loop of `peek`; the flag says `return EOF` -/
def lineLoop : Nat → S → Res (S × Bool)
  | 0, _ => .fuel
  | f+1, t =>
    let (s, l) := decode t.str
    if s ≠ '\n' ∧ s ≠ '\r' then do
      let str' ← slice t.str l
      let t := { t with str := str' }
      if t.str.length = 0 then pure (t, true) else lineLoop f t
    else pure (t, false)

/-- the `/* */` loop of `peek`; the flag says `return EOF` -/
def blockLoop : Nat → S → Res (S × Bool)
  | 0, _ => .fuel
  | f+1, t =>
    let (s, l) := decode t.str
    if s = '*' ∧ t.str.length > l then do
      let tail ← slice t.str l
      let (s2, l2) := decode tail
      if s2 = '/' then
        let str' ← slice t.str (l + l2)
        let t := { t with str := str' }
        pure (t, t.str.length = 0)
      else
        let str' ← slice t.str l
        blockLoop f { t with str := str' }
    else do
      let t := if s = '\n' then { t with line := t.line + 1 } else t
      let str' ← slice t.str l
      let t := { t with str := str' }
      if t.str.length = 0 then pure (t, true) else blockLoop f t

/-- the comment part of `peek`: `for t.last == '/' && len(t.str) > size { … }` (an `if` at the pinned
    commit); returns the state, the width of `t.last` and the `return EOF` flag -/
def commentLoop (cfg : Cfg) : Nat → S → Nat → Res (S × Nat × Bool)
  | 0, _, _ => .fuel
  | f+1, t, size =>
    if t.last = '/' ∧ t.str.length > size then do
      let tail ← slice t.str size
      let (s, l) := decode tail
      if s = '/' then
        let str' ← slice t.str (size + l)
        let t := { t with str := str' }
        let (t, eof) ← lineLoop (t.str.length + 1) t
        if eof then pure (t, size, true)
        else
          let (c, sz) := decode t.str
          let t := { t with last := c }
          if cfg.pinned then pure (t, sz, false) else commentLoop cfg f t sz
      else if s = '*' then
        let str' ← slice t.str (size + l)
        let t := { t with str := str' }
        let (t, eof) ← blockLoop (t.str.length + 1) t
        if eof then pure (t, size, true)
        else
          let (c, sz) := decode t.str
          let t := { t with last := c }
          if cfg.pinned then pure (t, sz, false) else commentLoop cfg f t sz
      else pure (t, size, false)
    else pure (t, size, false)

def skips (m : Mode) : Bool := m == .betweenTokens
def aliases (cfg : Cfg) (m : Mode) : Bool := cfg.pinned || m != .verbatim

/-- `Tokenizer.peek` -/
def peek (cfg : Cfg) (m : Mode) (t : S) : Res (Char × S) :=
  if t.isLast then .ok (t.last, t)
  else if t.str.length = 0 then .ok (EOF, { t with last := EOF, lastStr := t.str })
  else do
    let (c0, size0) := decode t.str
    let t := { t with last := c0 }
    let (t, size, eof) ←
      if cfg.comments ∧ skips m then commentLoop cfg (t.str.length + 1) t size0
      else pure (t, size0, false)
    if eof then pure (EOF, t)
    else
      let t := if aliases cfg m then { t with last := alias cfg.tables t.last } else t
      let str' ← slice t.str size
      pure (t.last, { t with isLast := true, lastStr := t.str, str := str' })

/-- `Tokenizer.consume` -/
def consume (cfg : Cfg) (m : Mode) (t : S) : Res S := do
  let t ← if !t.isLast then (do let (_, t') ← peek cfg m t; pure t') else pure t
  pure { t with isLast := false }

/-- `Tokenizer.unread`: pushes the rune read last back (at the pinned commit: marks it as cached) -/
def unread (cfg : Cfg) (t : S) : S :=
  if cfg.pinned then { t with isLast := true } else { t with str := t.lastStr, isLast := false }

/-- `Tokenizer.next` -/
def next (cfg : Cfg) (m : Mode) (t : S) : Res (Char × S) := do
  let (n, t1) ← peek cfg m t
  let t2 ← consume cfg m t1
  pure (n, t2)

/-- `readSkip` with a validity predicate that sees the previous rune (the closure of `simpleNumber`
    remembers the last rune, starting with the zero value) -/
def readWhile (cfg : Cfg) (m : Mode) (valid : Char → Char → Bool) : Nat → Char → S → List Char → Res (List Char × S)
  | 0, _, _, _ => .fuel
  | f+1, prev, t, acc => do
    let (c, t1) ← next cfg m t
    if c ≠ EOF ∧ valid prev c = true then readWhile cfg m valid f c t1 (acc ++ [c])
    else pure (acc, unread cfg t1)

/-- the mode of `Tokenizer.read` -/
def readMode (cfg : Cfg) : Mode := if cfg.pinned then .betweenTokens else .inToken

def numberStart (cfg : Cfg) (c : Char) : Bool := cfg.isNumber c
def numberNext (cfg : Cfg) (prev c : Char) : Bool :=
  (cfg.isNumber c && !cfg.tables.numExcl.contains c) || c == '.' || c == 'e' || (prev == 'e' && c == '-') || (prev == 'e' && c == '+')
def identStart (cfg : Cfg) (c : Char) : Bool := cfg.isLetter c || c == '_'
def identNext (cfg : Cfg) (_prev c : Char) : Bool :=
  cfg.isLetter c || (cfg.isNumber c && !cfg.tables.identExcl.contains c) || c == '_'

def eolImage : List Char := ['E', 'O', 'L']

/-- `Tokenizer.readStr` -/
def readStr (cfg : Cfg) : Nat → S → List Char → Res (Token × S)
  | 0, _, _ => .fuel
  | f+1, t, acc => do
    let (c, t1) ← next cfg .verbatim t
    if c ≠ '"' then
      if cfg.tables.strEnd.contains c then pure (⟨.invalid, eolImage, t1.line⟩, t1)
      else if c = '\\' then
        let (i, t2) ← next cfg .verbatim t1
        match cfg.tables.escapes.lookup i with
        | some d => readStr cfg f t2 (acc ++ [d])
        | none => readStr cfg f t2 (acc ++ ['\\', i])
      else readStr cfg f t1 (acc ++ [c])
    else pure (⟨.string, acc, t1.line⟩, t1)

/-- the detector reached after the runes `p` is non-nil iff `p` is a prefix of an operator -/
def extends_ (cfg : Cfg) (p : List Char) : Bool := cfg.ops.any fun o => p.isPrefixOf o
/-- `endIsValid` of the detector reached after the runes `p` -/
def member (cfg : Cfg) (p : List Char) : Bool := cfg.ops.contains p

/-- the loop of `parseOperator` -/
def opLoop (cfg : Cfg) : Nat → S → List Char → Res ((List Char × Bool) × S)
  | 0, _, _ => .fuel
  | f+1, t, op => do
    let (r, t1) ← next cfg .inToken t
    if extends_ cfg (op ++ [r]) then opLoop cfg f t1 (op ++ [r])
    else pure ((op, member cfg op), unread cfg t1)

/-- `Tokenizer.parseOperator` -/
def parseOperator (cfg : Cfg) (t : S) : Res ((List Char × Bool) × S) := do
  let (r, t1) ← next cfg .inToken t
  if extends_ cfg [r] then opLoop cfg (t1.str.length + 2) t1 [r]
  else pure (([r], false), t1)

/-- `lastTokenType`, `lastWasBlank` -/
structure RunSt where
  lastType : Kind
  lastBlank : Bool
  deriving Repr, DecidableEq

def prepend (toks : List Token) : Res (List Token) → Res (List Token)
  | .ok l => .ok (toks ++ l)
  | .err => .err
  | .panic => .panic
  | .fuel => .fuel

def starTok (line : Nat) : Token := ⟨.operate, ['*'], line⟩

def juxta (r : RunSt) : Bool := r.lastType == .number || r.lastType == .ident || r.lastType == .close

def comfortType (cfg : Cfg) (k : Kind) : Kind := if cfg.comfort then k else .invalid

/-- `Tokenizer.run`: the tokens sent on the channel, in order -/
def run (cfg : Cfg) : Nat → S → RunSt → Res (List Token)
  | 0, _, _ => .fuel
  | f+1, t, r => do
    let (n, t1) ← next cfg .betweenTokens t
    if n = '\n' then run cfg f { t1 with line := t1.line + 1 } { r with lastBlank := true }
    else if n = ' ' ∨ n = '\r' ∨ n = '\t' then run cfg f t1 { r with lastBlank := true }
    else if n = EOF then pure []
    else if n = '(' then
      let star := if r.lastType = .number ∨ r.lastType = .close ∨ (r.lastType = .ident ∧ r.lastBlank = true)
        then [starTok t1.line] else []
      prepend (star ++ [⟨.open_, ['('], t1.line⟩]) (run cfg f t1 ⟨.invalid, false⟩)
    else if n = '"' then do
      let (tok, t2) ← readStr cfg (t1.str.length + 1) t1 []
      prepend [tok] (run cfg f t2 ⟨.invalid, false⟩)
    else if n = '\'' then do
      let (img, t2) ← readWhile cfg .verbatim (fun _ c => c != '\'') (t1.str.length + 1) EOF t1 []
      let (_, t3) ← next cfg .verbatim t2
      prepend [⟨.ident, img, t3.line⟩] (run cfg f t3 ⟨.invalid, false⟩)
    else match cfg.tables.emit.lookup n with
    | some (toks, k) =>
      prepend (toks.map fun (kd, im) => ⟨kd, im, t1.line⟩) (run cfg f t1 ⟨comfortType cfg k, false⟩)
    | none => do
      let t2 := unread cfg t1
      let (c, t3) ← peek cfg .betweenTokens t2
      if numberStart cfg c then
        let star := if juxta r then [starTok t3.line] else []
        let (img, t4) ← readWhile cfg (readMode cfg) (numberNext cfg) (t3.str.length + 2) EOF t3 []
        prepend (star ++ [⟨.number, img, t4.line⟩]) (run cfg f t4 ⟨comfortType cfg .number, false⟩)
      else if identStart cfg c then
        let (img, t4) ← readWhile cfg (readMode cfg) (identNext cfg) (t3.str.length + 2) EOF t3 []
        match cfg.textOps.lookup img with
        | some o => prepend [⟨.operate, o, t4.line⟩] (run cfg f t4 ⟨.invalid, false⟩)
        | none =>
          if cfg.keywords.contains img then prepend [⟨.keyword, img, t4.line⟩] (run cfg f t4 ⟨.invalid, false⟩)
          else
            let star := if juxta r then [starTok t4.line] else []
            prepend (star ++ [⟨.ident, img, t4.line⟩]) (run cfg f t4 ⟨comfortType cfg .ident, false⟩)
      else do
        let ((op, ok), t4) ← parseOperator cfg t3
        prepend [⟨if ok then .operate else .invalid, op, t4.line⟩] (run cfg f t4 ⟨.invalid, false⟩)

def initS (src : List Char) : S := ⟨src, false, EOF, [], 1⟩
def initRun : RunSt := ⟨.invalid, false⟩

/-- The scanner entry point: the token sequence `Tokenizer.run` sends for the rune sequence `src`
    (what `Parser.VerifTokens` returns). Every loop iteration consumes a rune, so `|src|+1` iterations
    of `run` suffice (`tokenize_refines`). -/
def tokenize (cfg : Cfg) (src : List Char) : Res (List Token) :=
  run cfg (src.length + 1) (initS src) initRun

end P2.Lex
