/-! C06.3 prototype: threads pushing/reading on named storages; under every interleaving a thread
    whose storages nobody else touches reads exactly what it reads when run alone. -/
namespace P2.Inter

inductive Act where
  | write (sid pos : Nat) (v : Int)
  | read (sid pos : Nat)
deriving Repr, DecidableEq

abbrev Stores := Nat → Nat → Int            -- storage id → slot → value

def Act.sid : Act → Nat
  | .write s _ _ => s
  | .read s _ => s

def stepAct (st : Stores) : Act → Stores × List Int
  | .write s p v => (fun s' p' => if s' = s ∧ p' = p then v else st s' p', [])
  | .read s p => (st, [st s p])

/-- run a thread alone -/
def runAlone : Stores → List Act → Stores × List Int
  | st, [] => (st, [])
  | st, a :: as =>
    let (st1, r1) := stepAct st a
    let (st2, r2) := runAlone st1 as
    (st2, r1 ++ r2)

/-- run two threads under a schedule (`true` = thread A steps); a finished thread lets the other run -/
def runBoth : Stores → List Act → List Act → List Bool → Stores × List Int × List Int
  | st, [], bs, _ => let (st', rb) := runAlone st bs; (st', [], rb)
  | st, as, [], _ => let (st', ra) := runAlone st as; (st', ra, [])
  | st, a :: as, b :: bs, [] =>                    -- schedule exhausted: A first
    let (st1, ra1) := runAlone st (a :: as)
    let (st2, rb) := runAlone st1 (b :: bs)
    (st2, ra1, rb)
  | st, a :: as, b :: bs, true :: sch =>
    let (st1, r1) := stepAct st a
    let (st2, ra, rb) := runBoth st1 as (b :: bs) sch
    (st2, r1 ++ ra, rb)
  | st, a :: as, b :: bs, false :: sch =>
    let (st1, r1) := stepAct st b
    let (st2, ra, rb) := runBoth st1 (a :: as) bs sch
    (st2, ra, r1 ++ rb)
termination_by _ as bs sch => as.length + bs.length + sch.length

/-- two stores agree on the storages in `S` -/
def Agree (S : Nat → Prop) (x y : Stores) : Prop := ∀ s, S s → ∀ p, x s p = y s p

theorem stepAct_agree (S : Nat → Prop) (x y : Stores) (a : Act) (ha : S a.sid) (h : Agree S x y) :
    (stepAct x a).2 = (stepAct y a).2 ∧ Agree S (stepAct x a).1 (stepAct y a).1 := by
  cases a with
  | write s p v =>
    refine ⟨rfl, fun s' hs' p' => ?_⟩
    simp only [stepAct]
    split
    · rfl
    · exact h s' hs' p'
  | read s p =>
    exact ⟨by simp [stepAct, h s ha p], h⟩

theorem stepAct_other (S : Nat → Prop) (x : Stores) (b : Act) (hb : ¬ S b.sid) : Agree S (stepAct x b).1 x := by
  cases b with
  | write s p v =>
    intro s' hs' p'
    simp only [stepAct]
    split
    · rename_i h; exact absurd (h.1 ▸ hs') hb
    · rfl
  | read s p => exact fun _ _ _ => rfl

/-- reads of a thread depend only on the storages it uses -/
theorem runAlone_agree (S : Nat → Prop) : ∀ (as : List Act) (x y : Stores), (∀ a ∈ as, S a.sid) → Agree S x y →
    (runAlone x as).2 = (runAlone y as).2 ∧ Agree S (runAlone x as).1 (runAlone y as).1
  | [], x, y, _, h => ⟨rfl, h⟩
  | a :: as, x, y, hall, h => by
    obtain ⟨h1, h2⟩ := stepAct_agree S x y a (hall a (List.mem_cons_self ..)) h
    obtain ⟨h3, h4⟩ := runAlone_agree S as _ _ (fun a' ha' => hall a' (List.mem_cons_of_mem _ ha')) h2
    simp only [runAlone]
    exact ⟨by rw [h1, h3], h4⟩

theorem runAlone_other (S : Nat → Prop) : ∀ (bs : List Act) (x : Stores), (∀ b ∈ bs, ¬ S b.sid) →
    Agree S (runAlone x bs).1 x
  | [], x, _ => fun _ _ _ => rfl
  | b :: bs, x, hall => by
    have h1 := stepAct_other S x b (hall b (List.mem_cons_self ..))
    have h2 := runAlone_other S bs (stepAct x b).1 (fun b' hb' => hall b' (List.mem_cons_of_mem _ hb'))
    simp only [runAlone]
    exact fun s hs p => (h2 s hs p).trans (h1 s hs p)

/-- C06.3: if thread B never touches a storage of thread A, then under **every** schedule A reads
    exactly what it reads alone. -/
theorem noninterference (S : Nat → Prop) : ∀ (sch : List Bool) (as bs : List Act) (x y : Stores),
    (∀ a ∈ as, S a.sid) → (∀ b ∈ bs, ¬ S b.sid) → Agree S x y →
    (runBoth x as bs sch).2.1 = (runAlone y as).2
  | sch, [], bs, x, y, _, _, _ => by simp [runBoth, runAlone]
  | sch, a :: as, [], x, y, ha, _, h => by
    simp only [runBoth]
    exact (runAlone_agree S (a :: as) x y ha h).1
  | [], a :: as, b :: bs, x, y, ha, _, h => by
    simp only [runBoth]
    exact (runAlone_agree S (a :: as) x y ha h).1
  | true :: sch, a :: as, b :: bs, x, y, ha, hb, h => by
    obtain ⟨h1, h2⟩ := stepAct_agree S x y a (ha a (List.mem_cons_self ..)) h
    have ih := noninterference S sch as (b :: bs) (stepAct x a).1 (stepAct y a).1
      (fun a' ha' => ha a' (List.mem_cons_of_mem _ ha')) hb h2
    simp only [runBoth, runAlone]
    rw [ih, h1]
  | false :: sch, a :: as, b :: bs, x, y, ha, hb, h => by
    have h1 := stepAct_other S x b (hb b (List.mem_cons_self ..))
    have ih := noninterference S sch (a :: as) bs (stepAct x b).1 y ha
      (fun b' hb' => hb b' (List.mem_cons_of_mem _ hb')) (fun s hs p => (h1 s hs p).trans (h s hs p))
    simp only [runBoth]
    exact ih
termination_by sch as bs => as.length + bs.length + sch.length

/-- the converse situation (one storage for both threads): a bad schedule exists — a test on one case -/
def tA : List Act := [.write 0 2 11, .write 0 3 12, .read 0 2]       -- push a, push b, callee reads its first argument
def tB : List Act := [.write 0 2 77]                                  -- the other goroutine pushes at the same slot
example : (runBoth (fun _ _ => 0) tA tB [true, true, false]).2.1 ≠ (runAlone (fun _ _ => 0) tA).2 := by
  simp [runBoth, runAlone, stepAct, tA, tB]

end P2.Inter
